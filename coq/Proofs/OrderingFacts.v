(* Facts about the global token order of Model/TokenOrdering.v: `rank all` is injective on the
   tokens of `all`, `order all toks` is a sorted list of ranks which is strictly sorted for sets,
   and converting token lists to rank lists preserves membership counts (`hits`), equality of
   sets, emptiness, lengths and the bag overlap (`ovl`).  Stdlib only.                       *)
From Coq Require Import ZArith Bool List Lia Sorted Permutation.
From SSJ Require Import TokenOrdering Prefix PositionSafe.
Import ListNotations.
Open Scope Z_scope.

(* ---------- dedup ---------- *)
Lemma dedup_In w l : In w (dedup l) <-> In w l.
Proof.
  induction l as [|h t IH]; simpl; [tauto|].
  rewrite filter_In, IH. split.
  - intros [H|[H _]]; auto.
  - intros [H|H]; [left; exact H|].
    destruct (Z.eq_dec w h) as [->|Hne]; [left; reflexivity|right].
    split; [exact H|]. apply negb_true_iff. apply Z.eqb_neq. exact Hne.
Qed.

Lemma dedup_NoDup l : NoDup (dedup l).
Proof.
  induction l as [|h t IH]; simpl; constructor.
  - intro H. apply filter_In in H. destruct H as [_ H].
    rewrite Z.eqb_refl in H. discriminate.
  - apply NoDup_filter. exact IH.
Qed.

(* ---------- key_lt is a strict total order ---------- *)
Lemma key_lt_spec all a b :
  key_lt all a b = true <->
  (countZ a all < countZ b all \/ (countZ a all = countZ b all /\ a < b)).
Proof.
  unfold key_lt; cbv zeta.
  rewrite orb_true_iff, andb_true_iff, Z.ltb_lt, Z.eqb_eq, Z.ltb_lt. tauto.
Qed.

Lemma key_lt_irrefl all a : key_lt all a a = false.
Proof.
  destruct (key_lt all a a) eqn:E; [|reflexivity].
  apply key_lt_spec in E. lia.
Qed.

Lemma key_lt_trans all a b c :
  key_lt all a b = true -> key_lt all b c = true -> key_lt all a c = true.
Proof. rewrite !key_lt_spec. lia. Qed.

Lemma key_lt_total all a b : a <> b -> key_lt all a b = true \/ key_lt all b a = true.
Proof. intros H. rewrite !key_lt_spec. lia. Qed.

(* ---------- comparing lengths of filters ---------- *)
Lemma filter_len_le (f g : Z -> bool) l :
  (forall x, In x l -> f x = true -> g x = true) ->
  (length (filter f l) <= length (filter g l))%nat.
Proof.
  induction l as [|h t IH]; intros H; simpl; [lia|].
  assert (IH' := IH (fun x Hx => H x (or_intror Hx))).
  destruct (f h) eqn:E.
  - rewrite (H h (or_introl eq_refl) E). simpl. lia.
  - destruct (g h); simpl; lia.
Qed.

Lemma filter_len_lt (f g : Z -> bool) l w :
  (forall x, In x l -> f x = true -> g x = true) ->
  In w l -> f w = false -> g w = true ->
  (length (filter f l) < length (filter g l))%nat.
Proof.
  induction l as [|h t IH]; intros H Hin Hf Hg; [destruct Hin|]. simpl.
  destruct Hin as [->|Hin].
  - rewrite Hf, Hg. simpl.
    pose proof (filter_len_le f g t (fun x Hx => H x (or_intror Hx))). lia.
  - specialize (IH (fun x Hx => H x (or_intror Hx)) Hin Hf Hg).
    destruct (f h) eqn:E.
    + rewrite (H h (or_introl eq_refl) E). simpl. lia.
    + destruct (g h); simpl; lia.
Qed.

(* ---------- rank ---------- *)
Lemma rank_mono all w1 w2 :
  In w1 all -> key_lt all w1 w2 = true -> rank all w1 < rank all w2.
Proof.
  intros Hin Hlt. unfold rank.
  assert ((length (filter (fun w' => key_lt all w' w1) (dedup all)) <
           length (filter (fun w' => key_lt all w' w2) (dedup all)))%nat); [|lia].
  apply filter_len_lt with (w := w1).
  - intros x _ Hx. eapply key_lt_trans; eassumption.
  - apply dedup_In. exact Hin.
  - apply key_lt_irrefl.
  - exact Hlt.
Qed.

Lemma rank_inj : forall all w1 w2,
  In w1 all -> In w2 all -> rank all w1 = rank all w2 -> w1 = w2.
Proof.
  intros all w1 w2 H1 H2 He.
  destruct (Z.eq_dec w1 w2) as [E|Hne]; [exact E|exfalso].
  destruct (key_lt_total all w1 w2 Hne) as [H|H].
  - pose proof (rank_mono all w1 w2 H1 H). lia.
  - pose proof (rank_mono all w2 w1 H2 H). lia.
Qed.

Lemma rank_pos : forall all w, 1 <= rank all w.
Proof. intros all w. unfold rank. lia. Qed.

(* ---------- insertion sort ---------- *)
Lemma insZ_perm x l : Permutation (insZ x l) (x :: l).
Proof.
  induction l as [|h t IH]; simpl; [apply Permutation_refl|].
  destruct (x <=? h); [apply Permutation_refl|].
  eapply perm_trans; [apply perm_skip; exact IH| apply perm_swap].
Qed.

Lemma sortZ_perm : forall l, Permutation (sortZ l) l.
Proof.
  induction l as [|h t IH]; simpl; [constructor|].
  eapply perm_trans; [apply insZ_perm| apply perm_skip; exact IH].
Qed.

Lemma insZ_hdrel h x t : HdRel Z.le h t -> h <= x -> HdRel Z.le h (insZ x t).
Proof.
  intros H Hle. destruct t as [|b t]; simpl; [constructor; exact Hle|].
  destruct (x <=? b); constructor; [exact Hle|]. inversion H; assumption.
Qed.

Lemma insZ_sorted x l : Sorted Z.le l -> Sorted Z.le (insZ x l).
Proof.
  induction 1 as [|h t Hs IH Hhd]; simpl; [repeat constructor|].
  destruct (Z.leb_spec x h).
  - constructor; [constructor; assumption| constructor; assumption].
  - constructor; [exact IH| apply insZ_hdrel; [exact Hhd| lia]].
Qed.

Lemma sortZ_sorted : forall l, Sorted Z.le (sortZ l).
Proof.
  induction l as [|h t IH]; simpl; [constructor|]. apply insZ_sorted. exact IH.
Qed.

(* ---------- small list facts ---------- *)
Lemma sorted_nodup_ssorted l : Sorted Z.le l -> NoDup l -> StronglySorted Z.lt l.
Proof.
  intros Hs Hnd. apply Sorted_StronglySorted in Hs; [|intros a b c; lia].
  induction Hs as [|h t Hs IH Hall]; [constructor|].
  inversion Hnd; subst. constructor; [apply IH; assumption|].
  rewrite Forall_forall in *. intros x Hx. specialize (Hall x Hx).
  assert (x <> h) by (intro; subst; contradiction). lia.
Qed.

Lemma NoDup_map_in (f : Z -> Z) l :
  (forall a b, In a l -> In b l -> f a = f b -> a = b) -> NoDup l -> NoDup (map f l).
Proof.
  induction l as [|h t IH]; intros Hinj Hnd; simpl; [constructor|].
  inversion Hnd; subst. constructor.
  - intro Hin. apply in_map_iff in Hin. destruct Hin as [y [Hy Hin]].
    assert (y = h) by (apply Hinj; [right; exact Hin| left; reflexivity| exact Hy]).
    subst. contradiction.
  - apply IH; [|assumption]. intros a b Ha Hb. apply Hinj; right; assumption.
Qed.

Lemma filter_all (f : Z -> bool) l : (forall w, In w l -> f w = true) -> filter f l = l.
Proof.
  induction l as [|h t IH]; intros H; simpl; [reflexivity|].
  rewrite (H h (or_introl eq_refl)). f_equal. apply IH. intros w Hw. apply H. right; exact Hw.
Qed.

Lemma perm_filter_len (f : Z -> bool) l l' :
  Permutation l l' -> length (filter f l) = length (filter f l').
Proof.
  induction 1; simpl; try lia.
  - destruct (f x); simpl; lia.
  - destruct (f x), (f y); simpl; lia.
Qed.

Lemma filter_map_len (p : Z -> bool) (f : Z -> Z) l :
  length (filter p (map f l)) = length (filter (fun x => p (f x)) l).
Proof. induction l as [|a l IH]; simpl; [reflexivity|]. destruct (p (f a)); simpl; lia. Qed.

Lemma ssorted_ext l : forall l', StronglySorted Z.lt l -> StronglySorted Z.lt l' ->
  (forall v, In v l <-> In v l') -> l = l'.
Proof.
  induction l as [|a l IH]; intros [|b l'] Hs Hs' Hm.
  - reflexivity.
  - exfalso. apply (proj2 (Hm b)). left; reflexivity.
  - exfalso. apply (proj1 (Hm a)). left; reflexivity.
  - inversion Hs as [|? ? Hsl Hal]; subst. inversion Hs' as [|? ? Hsl' Hal']; subst.
    rewrite Forall_forall in Hal, Hal'.
    assert (a = b).
    { destruct (proj1 (Hm a) (or_introl eq_refl)) as [E|Ha]; [congruence|].
      destruct (proj2 (Hm b) (or_introl eq_refl)) as [E|Hb]; [congruence|].
      specialize (Hal _ Hb). specialize (Hal' _ Ha). lia. }
    subst b. f_equal. apply IH; [assumption|assumption|].
    intros v. split; intros Hv.
    + destruct (proj1 (Hm v) (or_intror Hv)) as [E|H]; [|exact H].
      subst v. specialize (Hal _ Hv). lia.
    + destruct (proj2 (Hm v) (or_intror Hv)) as [E|H]; [|exact H].
      subst v. specialize (Hal' _ Hv). lia.
Qed.

(* ---------- order ---------- *)
Lemma order_members all toks :
  (forall w, In w toks -> In w all) -> order all toks = sortZ (map (rank all) toks).
Proof.
  intros H. unfold order. rewrite filter_all; [reflexivity|].
  intros w Hw. rewrite memZ_mem. apply mem_In. apply H. exact Hw.
Qed.

Lemma order_In : forall all toks r,
  In r (order all toks) <-> exists w, In w toks /\ In w all /\ r = rank all w.
Proof.
  intros all toks r. unfold order. split.
  - intros H. apply (Permutation_in _ (sortZ_perm _)) in H.
    apply in_map_iff in H. destruct H as [w [Hr Hw]].
    apply filter_In in Hw. destruct Hw as [Hw Hm].
    rewrite memZ_mem in Hm. apply mem_In in Hm.
    exists w. repeat split; [assumption|assumption|symmetry; exact Hr].
  - intros [w [Hw [Ha Hr]]].
    apply (Permutation_in _ (Permutation_sym (sortZ_perm _))).
    apply in_map_iff. exists w. split; [symmetry; exact Hr|].
    apply filter_In. split; [exact Hw|]. rewrite memZ_mem. apply mem_In. exact Ha.
Qed.

Lemma order_In_rank all x w :
  In w all -> (In (rank all w) (order all x) <-> In w x).
Proof.
  intros Hw. rewrite order_In. split.
  - intros [w' [Hx [Ha He]]]. apply rank_inj in He; [subst; exact Hx|exact Hw|exact Ha].
  - intros Hx. exists w. auto.
Qed.

Lemma order_length : forall all toks,
  (forall w, In w toks -> In w all) -> length (order all toks) = length toks.
Proof.
  intros all toks H. rewrite order_members by exact H.
  rewrite (Permutation_length (sortZ_perm _)). apply map_length.
Qed.

Lemma order_sorted_le : forall all toks, Sorted Z.le (order all toks).
Proof. intros. unfold order. apply sortZ_sorted. Qed.

Lemma order_ssorted : forall all toks,
  NoDup toks -> (forall w, In w toks -> In w all) -> StronglySorted Z.lt (order all toks).
Proof.
  intros all toks Hnd H. apply sorted_nodup_ssorted; [apply order_sorted_le|].
  rewrite order_members by exact H.
  apply (Permutation_NoDup (Permutation_sym (sortZ_perm _))).
  apply NoDup_map_in; [|exact Hnd].
  intros a b Ha Hb. apply rank_inj; apply H; assumption.
Qed.

Lemma order_hits : forall all x y,
  NoDup x -> NoDup y -> (forall w, In w x -> In w all) -> (forall w, In w y -> In w all) ->
  hits (order all x) (order all y) = hits x y.
Proof.
  intros all x y _ _ Hx Hy. unfold hits.
  rewrite (order_members all y Hy).
  rewrite (perm_filter_len _ _ _ (sortZ_perm _)).
  rewrite filter_map_len. f_equal. apply filter_ext_in.
  intros w Hw. apply eq_true_iff_eq. rewrite !mem_In.
  apply order_In_rank. apply Hy. exact Hw.
Qed.

Lemma order_eq_iff : forall all x y,
  NoDup x -> NoDup y -> (forall w, In w x -> In w all) -> (forall w, In w y -> In w all) ->
  (order all x = order all y <-> (forall w, In w x <-> In w y)).
Proof.
  intros all x y Hnx Hny Hx Hy. split.
  - intros He w. split; intros Hw.
    + apply (order_In_rank all y w (Hx w Hw)). rewrite <- He.
      apply order_In_rank; [apply Hx|]; exact Hw.
    + apply (order_In_rank all x w (Hy w Hw)). rewrite He.
      apply order_In_rank; [apply Hy|]; exact Hw.
  - intros Hm. apply ssorted_ext; try (apply order_ssorted; assumption).
    intros r. rewrite !order_In. split; intros [w [H1 [H2 H3]]]; exists w;
      (split; [apply Hm; exact H1| split; assumption]).
Qed.

Lemma order_nil_iff : forall all toks,
  (forall w, In w toks -> In w all) -> (order all toks = [] <-> toks = []).
Proof.
  intros all toks H. pose proof (order_length all toks H) as Hl. split; intros E.
  - rewrite E in Hl. destruct toks; [reflexivity|discriminate].
  - subst toks. reflexivity.
Qed.

(* ---------- the bag overlap ---------- *)
Lemma mem_perm v l l' : Permutation l l' -> mem v l = mem v l'.
Proof.
  intros H. apply eq_true_iff_eq. rewrite !mem_In.
  split; apply Permutation_in; [exact H| apply Permutation_sym; exact H].
Qed.

Lemma rem1_perm v l l' : Permutation l l' -> Permutation (rem1 v l) (rem1 v l').
Proof.
  induction 1 as [|a l l' H IH|a b l|l l' l'' H1 IH1 H2 IH2]; simpl.
  - constructor.
  - destruct (v =? a); [exact H| apply perm_skip; exact IH].
  - destruct (Z.eqb_spec v a) as [Ha|Ha], (Z.eqb_spec v b) as [Hb|Hb]; subst;
      try apply Permutation_refl.
    apply perm_swap.
  - eapply perm_trans; eassumption.
Qed.

Lemma binter_perm_r X : forall Y Y', Permutation Y Y' -> binter X Y = binter X Y'.
Proof.
  induction X as [|x X IH]; intros Y Y' H; simpl; [reflexivity|].
  rewrite (mem_perm x Y Y' H). destruct (mem x Y').
  - f_equal. apply IH. apply rem1_perm. exact H.
  - apply IH. exact H.
Qed.

Lemma mem_rem1_neq a b Y : a <> b -> mem a (rem1 b Y) = mem a Y.
Proof.
  intros Hne. induction Y as [|h t IH]; simpl; [reflexivity|].
  destruct (Z.eqb_spec b h) as [->|Hb].
  - destruct (Z.eqb_spec a h); [contradiction|reflexivity].
  - simpl. rewrite IH. reflexivity.
Qed.

Lemma rem1_comm a b Y : rem1 a (rem1 b Y) = rem1 b (rem1 a Y).
Proof.
  induction Y as [|h t IH]; simpl; [reflexivity|].
  destruct (Z.eqb_spec b h) as [Hb|Hb], (Z.eqb_spec a h) as [Ha|Ha]; simpl.
  - congruence.
  - destruct (Z.eqb_spec b h); [reflexivity|contradiction].
  - destruct (Z.eqb_spec a h); [reflexivity|contradiction].
  - destruct (Z.eqb_spec a h); [contradiction|].
    destruct (Z.eqb_spec b h); [contradiction|]. f_equal. exact IH.
Qed.

Lemma binter_perm_l X X' : Permutation X X' ->
  forall Y, length (binter X Y) = length (binter X' Y).
Proof.
  induction 1 as [|a l l' H IH|a b l|l l' l'' H1 IH1 H2 IH2]; intros Y.
  - reflexivity.
  - simpl. destruct (mem a Y); simpl; rewrite IH; reflexivity.
  - destruct (Z.eq_dec a b) as [->|Hne]; [reflexivity|].
    simpl.
    rewrite (mem_rem1_neq a b Y Hne).
    rewrite (mem_rem1_neq b a Y (not_eq_sym Hne)).
    destruct (mem a Y), (mem b Y); simpl; try reflexivity.
    rewrite rem1_comm. reflexivity.
  - rewrite IH1. apply IH2.
Qed.

Lemma ovl_perm X X' Y Y' : Permutation X X' -> Permutation Y Y' -> ovl X Y = ovl X' Y'.
Proof.
  intros HX HY. unfold ovl. rewrite (binter_perm_r X Y Y' HY). apply binter_perm_l. exact HX.
Qed.

Lemma mem_map_inj (f : Z -> Z) a y :
  (forall b, In b y -> f a = f b -> a = b) -> mem (f a) (map f y) = mem a y.
Proof.
  intros Hinj. apply eq_true_iff_eq. rewrite !mem_In, in_map_iff. split.
  - intros [b [He Hb]]. rewrite (Hinj b Hb (eq_sym He)). exact Hb.
  - intros H. exists a. split; [reflexivity|exact H].
Qed.

Lemma rem1_map_inj (f : Z -> Z) a y :
  (forall b, In b y -> f a = f b -> a = b) -> rem1 (f a) (map f y) = map f (rem1 a y).
Proof.
  induction y as [|h t IH]; intros Hinj; simpl; [reflexivity|].
  destruct (Z.eqb_spec a h) as [->|Hne].
  - rewrite Z.eqb_refl. reflexivity.
  - destruct (Z.eqb_spec (f a) (f h)) as [E|E].
    + exfalso. apply Hne. apply Hinj; [left; reflexivity|exact E].
    + simpl. f_equal. apply IH. intros b Hb. apply Hinj. right; exact Hb.
Qed.

Lemma binter_map_inj (f : Z -> Z) (P : Z -> Prop) :
  (forall a b, P a -> P b -> f a = f b -> a = b) ->
  forall x y, (forall w, In w x -> P w) -> (forall w, In w y -> P w) ->
  binter (map f x) (map f y) = map f (binter x y).
Proof.
  intros Hinj. induction x as [|a x IH]; intros y Hx Hy; simpl; [reflexivity|].
  assert (Ha : forall b, In b y -> f a = f b -> a = b).
  { intros b Hb. apply Hinj; [apply Hx; left; reflexivity| apply Hy; exact Hb]. }
  rewrite (mem_map_inj f a y Ha). destruct (mem a y).
  - simpl. f_equal. rewrite (rem1_map_inj f a y Ha). apply IH.
    + intros w Hw. apply Hx. right; exact Hw.
    + intros w Hw. apply Hy. eapply rem1_In. exact Hw.
  - apply IH; [|exact Hy]. intros w Hw. apply Hx. right; exact Hw.
Qed.

Lemma order_ovl : forall all x y,
  (forall w, In w x -> In w all) -> (forall w, In w y -> In w all) ->
  ovl (order all x) (order all y) = ovl x y.
Proof.
  intros all x y Hx Hy.
  rewrite (order_members all x Hx), (order_members all y Hy).
  rewrite (ovl_perm _ _ _ _ (sortZ_perm _) (sortZ_perm _)).
  unfold ovl.
  rewrite (binter_map_inj (rank all) (fun w => In w all) (rank_inj all) x y Hx Hy).
  apply map_length.
Qed.

(* Print Assumptions order_hits. Print Assumptions order_ssorted. Print Assumptions order_ovl. *)
