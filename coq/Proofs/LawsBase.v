(* Helpers for the metamorphic laws (Proofs/Laws.v): pure list reasoning about the multiset
   comparison `multiset_eqb` of Model/Api.v on lists of output rows whose key pairs are unique.
   No model, no floats.  Axiom-free.                                                        *)
From Coq Require Import ZArith Bool List String Lia Permutation.
From SSJ Require Import F64 PyNum Filters Joins Api JoinSpec MetaSpec.
Import ListNotations.
Open Scope Z_scope.

Definition okey (o : out_row) : Z * Z := fst o.
Definition keys (a : list out_row) : list (Z * Z) := map okey a.
Definition uniq (a : list out_row) : Prop := NoDup (keys a).
Definition keyb (lk rk : Z) (o : out_row) : bool :=
  Z.eqb (fst (fst o)) lk && Z.eqb (snd (fst o)) rk.

Lemma keyb_iff lk rk o : keyb lk rk o = true <-> okey o = (lk, rk).
Proof.
  unfold keyb, okey. destruct o as [[a b] s]; simpl.
  rewrite andb_true_iff, !Z.eqb_eq. split; [intros [-> ->]; reflexivity | intros E; inversion E; auto].
Qed.

Lemma keyb_self o : keyb (fst (fst o)) (snd (fst o)) o = true.
Proof. apply keyb_iff. unfold okey. destruct o as [[a b] s]; reflexivity. Qed.

Lemma has_pair_keyb lk rk a : has_pair lk rk a = existsb (keyb lk rk) a.
Proof. reflexivity. Qed.

Lemma count_pair_keyb lk rk a : count_pair lk rk a = List.length (filter (keyb lk rk) a).
Proof. reflexivity. Qed.

Lemma has_pair_keys lk rk a : has_pair lk rk a = true <-> In (lk, rk) (keys a).
Proof.
  rewrite has_pair_keyb, existsb_exists. unfold keys. rewrite in_map_iff. split.
  - intros [o [Hi Hk]]. exists o. split; [apply keyb_iff; exact Hk | exact Hi].
  - intros [o [Hk Hi]]. exists o. split; [exact Hi | apply keyb_iff; exact Hk].
Qed.

Lemma has_pair_In lk rk a : has_pair lk rk a = true <-> exists s, In (lk, rk, s) a.
Proof.
  rewrite has_pair_keys. unfold keys. rewrite in_map_iff. split.
  - intros [[[a1 b1] s] [Hk Hi]]. unfold okey in Hk; simpl in Hk. inversion Hk; subst. exists s; exact Hi.
  - intros [s Hi]. exists (lk, rk, s). split; [reflexivity | exact Hi].
Qed.

Lemma has_pair_of_In o a : In o a -> has_pair (fst (fst o)) (snd (fst o)) a = true.
Proof. intros Hi. apply has_pair_In. exists (snd o). destruct o as [[x y] s]; exact Hi. Qed.

Lemma has_pair_eq_keys a b :
  (forall lk rk, has_pair lk rk a = has_pair lk rk b) <-> (forall k, In k (keys a) <-> In k (keys b)).
Proof.
  split.
  - intros H [lk rk]. rewrite <- !has_pair_keys, H. tauto.
  - intros H lk rk. apply eq_true_iff_eq. rewrite !has_pair_keys. apply H.
Qed.

Lemma count_pair_zero lk rk a : count_pair lk rk a = 0%nat <-> ~ In (lk, rk) (keys a).
Proof.
  rewrite count_pair_keyb. induction a as [|o a IH]; simpl; [tauto|].
  destruct (keyb lk rk o) eqn:E; simpl.
  - apply keyb_iff in E. split; [discriminate | intros H; exfalso; apply H; left; exact E].
  - rewrite IH. split; [intros H [H1|H1]; [|tauto] | tauto].
    apply keyb_iff in H1. congruence.
Qed.

Lemma count_pair_has lk rk a : (0 < count_pair lk rk a)%nat <-> has_pair lk rk a = true.
Proof.
  rewrite has_pair_keys. destruct (count_pair lk rk a) eqn:E.
  - apply count_pair_zero in E. split; [lia | tauto].
  - split; [intros _ | lia]. destruct (in_dec (fun x y : Z * Z => ltac:(decide equality; apply Z.eq_dec)) (lk, rk) (keys a)) as [H|H]; [exact H|].
    apply count_pair_zero in H. congruence.
Qed.

(* sound_spec gives count_pair = 1 for every row: the key pairs are unique *)
Lemma count_uniq a :
  (forall o, In o a -> count_pair (fst (fst o)) (snd (fst o)) a = 1%nat) -> uniq a.
Proof.
  unfold uniq. induction a as [|x a IH]; intros H; simpl; [constructor|].
  constructor.
  - pose proof (H x (or_introl eq_refl)) as Hx. rewrite count_pair_keyb in Hx. simpl in Hx.
    rewrite keyb_self in Hx. simpl in Hx. injection Hx as Hx.
    rewrite <- count_pair_keyb in Hx. apply count_pair_zero in Hx.
    unfold okey. destruct x as [[p q] s]; exact Hx.
  - apply IH. intros o Ho. pose proof (H o (or_intror Ho)) as H1.
    rewrite count_pair_keyb in H1 |- *. simpl in H1.
    assert (0 < List.length (filter (keyb (fst (fst o)) (snd (fst o))) a))%nat as Hpos.
    { rewrite <- count_pair_keyb. apply count_pair_has. apply has_pair_of_In; exact Ho. }
    destruct (keyb (fst (fst o)) (snd (fst o)) x); simpl in H1; lia.
Qed.

Lemma uniq_count a o : uniq a -> In o a -> count_pair (fst (fst o)) (snd (fst o)) a = 1%nat.
Proof.
  unfold uniq. induction a as [|x a IH]; intros U Hi; [destruct Hi|].
  simpl in U. inversion U as [|? ? Hn U']; subst. rewrite count_pair_keyb. simpl.
  destruct Hi as [->|Hi].
  - rewrite keyb_self. simpl. f_equal. rewrite <- count_pair_keyb. apply count_pair_zero.
    destruct o as [[p q] s]; exact Hn.
  - destruct (keyb (fst (fst o)) (snd (fst o)) x) eqn:E.
    + apply keyb_iff in E. exfalso. apply Hn. rewrite E.
      apply has_pair_keys. apply has_pair_of_In; exact Hi.
    + rewrite <- count_pair_keyb. apply IH; assumption.
Qed.

(* ------------------------------------------------------------------ remove_first *)
Lemma out_row_same_key x y : out_row_same x y = true -> okey x = okey y.
Proof.
  destruct x as [[a b] s], y as [[a' b'] s']; unfold out_row_same, okey; simpl.
  rewrite !andb_true_iff, !Z.eqb_eq. intros [[-> ->] _]; reflexivity.
Qed.

Lemma out_row_same_intro x y :
  okey x = okey y -> score_same (snd x) (snd y) = true -> out_row_same x y = true.
Proof.
  destruct x as [[a b] s], y as [[a' b'] s']; unfold out_row_same, okey; simpl.
  intros E Hs. inversion E; subst. rewrite !Z.eqb_refl, Hs. reflexivity.
Qed.

Lemma out_row_same_score x y : out_row_same x y = true -> score_same (snd x) (snd y) = true.
Proof.
  destruct x as [[a b] s], y as [[a' b'] s']; unfold out_row_same; simpl.
  rewrite !andb_true_iff. tauto.
Qed.

Lemma remove_first_some x b b' : remove_first x b = Some b' ->
  exists y b1 b2, b = (b1 ++ y :: b2)%list /\ b' = (b1 ++ b2)%list /\ out_row_same x y = true.
Proof.
  revert b'. induction b as [|z b IH]; intros b' H; simpl in H; [discriminate|].
  destruct (out_row_same x z) eqn:E.
  - injection H as <-. exists z, [], b. auto.
  - destruct (remove_first x b) as [b0|] eqn:E0; simpl in H; [|discriminate].
    injection H as <-. destruct (IH b0 eq_refl) as [y [b1 [b2 [-> [-> Hy]]]]].
    exists y, (z :: b1)%list, b2. auto.
Qed.

Lemma remove_first_none x b : remove_first x b = None -> forall z, In z b -> out_row_same x z = false.
Proof.
  induction b as [|y b IH]; intros H z Hz; [destruct Hz|]. simpl in H.
  destruct (out_row_same x y) eqn:E; [discriminate|].
  destruct (remove_first x b) eqn:E0; [discriminate|].
  destruct Hz as [<-|Hz]; [exact E | apply IH; auto].
Qed.

(* soundness of multiset_eqb: a permutation of b matches a row by row *)
Theorem multiset_eqb_perm a : forall b, multiset_eqb a b = true ->
  exists b', Permutation b b' /\ Forall2 (fun x y => out_row_same x y = true) a b'.
Proof.
  induction a as [|x a IH]; intros b H; simpl in H.
  - destruct b; [|discriminate]. exists []. split; constructor.
  - destruct (remove_first x b) as [b0|] eqn:E; [|discriminate].
    destruct (remove_first_some _ _ _ E) as [y [b1 [b2 [-> [-> Hy]]]]].
    destruct (IH _ H) as [b' [Hp Hf]]. exists (y :: b'). split.
    + apply Permutation_sym, Permutation_cons_app, Permutation_sym, Hp.
    + constructor; assumption.
Qed.

Lemma keys_app a b : keys (a ++ b) = (keys a ++ keys b)%list.
Proof. apply map_app. Qed.

(* completeness of multiset_eqb for lists with unique key pairs: same key pairs, and rows with the
   same key pair carry the same score *)
Theorem multiset_eqb_keyed a : forall b, uniq a -> uniq b ->
  (forall k, In k (keys a) <-> In k (keys b)) ->
  (forall o o', In o a -> In o' b -> okey o = okey o' -> score_same (snd o) (snd o') = true) ->
  multiset_eqb a b = true.
Proof.
  induction a as [|x a IH]; intros b Ua Ub Hk Hs.
  - destruct b as [|y b]; [reflexivity|]. exfalso. apply (Hk (okey y)). left; reflexivity.
  - simpl. assert (In (okey x) (keys b)) as Hx by (apply Hk; left; reflexivity).
    unfold keys in Hx. apply in_map_iff in Hx. destruct Hx as [y [Hy Hyb]].
    destruct (remove_first x b) as [b0|] eqn:E.
    + destruct (remove_first_some _ _ _ E) as [y' [b1 [b2 [-> [-> Hy']]]]].
      apply out_row_same_key in Hy'.
      unfold uniq in Ua, Ub. simpl in Ua. inversion Ua as [|? ? Hna Ua']; subst.
      rewrite keys_app in Ub. simpl in Ub.
      pose proof (NoDup_remove_1 _ _ _ Ub) as Ub1. pose proof (NoDup_remove_2 _ _ _ Ub) as Ub2.
      apply IH.
      * exact Ua'.
      * unfold uniq. rewrite keys_app. exact Ub1.
      * intros k. split; intros Hin.
        -- assert (In k (keys (b1 ++ y' :: b2))) as H1 by (apply Hk; right; exact Hin).
           rewrite keys_app in H1 |- *. simpl in H1. apply in_app_or in H1. apply in_or_app.
           destruct H1 as [H1|[H1|H1]]; [left; exact H1 | | right; exact H1].
           exfalso. apply Hna. rewrite Hy', H1. exact Hin.
        -- assert (In k (keys (x :: a))) as H1.
           { apply Hk. rewrite keys_app in Hin |- *. simpl. apply in_app_or in Hin. apply in_or_app.
             destruct Hin; [left | right; right]; assumption. }
           destruct H1 as [H1|H1]; [|exact H1]. exfalso. apply Ub2.
           rewrite <- Hy', H1. rewrite <- keys_app. exact Hin.
      * intros o o' Ho Ho' Hoo. apply Hs; [right; exact Ho | | exact Hoo].
        apply in_app_or in Ho'. apply in_or_app. destruct Ho'; [left | right; right]; assumption.
    + exfalso. pose proof (remove_first_none _ _ E y Hyb) as Hf.
      rewrite out_row_same_intro in Hf; [discriminate | symmetry; exact Hy |].
      apply Hs; [left; reflexivity | exact Hyb | symmetry; exact Hy].
Qed.

(* the form announced in the task: count_pair = 1 for the rows of both lists, same has_pair *)
Corollary multiset_eqb_counted a b :
  (forall o, In o a -> count_pair (fst (fst o)) (snd (fst o)) a = 1%nat) ->
  (forall o, In o b -> count_pair (fst (fst o)) (snd (fst o)) b = 1%nat) ->
  (forall lk rk, has_pair lk rk a = has_pair lk rk b) ->
  (forall lk rk s s', In (lk, rk, s) a -> In (lk, rk, s') b -> score_same s s' = true) ->
  multiset_eqb a b = true.
Proof.
  intros Ha Hb Hp Hs. apply multiset_eqb_keyed.
  - apply count_uniq; exact Ha.
  - apply count_uniq; exact Hb.
  - apply has_pair_eq_keys; exact Hp.
  - intros [[lk rk] s] [[lk' rk'] s'] Ho Ho' E. unfold okey in E; simpl in E. inversion E; subst.
    simpl. eapply Hs; eassumption.
Qed.

(* ------------------------------------------------------------------ filter / map / app *)
Lemma uniq_filter f a : uniq a -> uniq (filter f a).
Proof.
  unfold uniq. induction a as [|x a IH]; intros U; simpl; [constructor|].
  simpl in U. inversion U as [|? ? Hn U']; subst.
  destruct (f x); [|apply IH; exact U']. simpl. constructor; [|apply IH; exact U'].
  intros H. apply Hn. unfold keys in *. apply in_map_iff in H. destruct H as [o [Ho Hi]].
  apply filter_In in Hi. apply in_map_iff. exists o. tauto.
Qed.

Lemma uniq_app a b : uniq a -> uniq b -> (forall k, In k (keys a) -> ~ In k (keys b)) -> uniq (a ++ b).
Proof.
  unfold uniq. rewrite keys_app. induction a as [|x a IH]; intros Ua Ub Hd; simpl; [exact Ub|].
  simpl in Ua. inversion Ua as [|? ? Hn Ua']; subst. constructor.
  - intros H. apply in_app_or in H. destruct H as [H|H]; [tauto|]. apply (Hd (okey x)); [left; reflexivity | exact H].
  - apply IH; [exact Ua' | exact Ub |]. intros k Hk. apply Hd. right; exact Hk.
Qed.

Lemma keys_round a : keys (round_rows a) = keys a.
Proof. unfold keys, round_rows. rewrite map_map. apply map_ext. intros [[x y] s]; reflexivity. Qed.

Lemma uniq_round a : uniq a -> uniq (round_rows a).
Proof. unfold uniq. rewrite keys_round. tauto. Qed.

Lemma In_round o a : In o (round_rows a) <-> exists o0, In o0 a /\ o = (fst o0, round_score (snd o0)).
Proof. unfold round_rows. rewrite in_map_iff. split; intros [o0 [H1 H2]]; exists o0; auto. Qed.

Definition swap_key (k : Z * Z) : Z * Z := (snd k, fst k).
Lemma keys_swap a : keys (swap_rows a) = map swap_key (keys a).
Proof. unfold keys, swap_rows. rewrite !map_map. apply map_ext. intros [[x y] s]; reflexivity. Qed.

Lemma uniq_swap a : uniq a -> uniq (swap_rows a).
Proof.
  unfold uniq. rewrite keys_swap. generalize (keys a) as l. induction l as [|k l IH]; intros U; simpl; [constructor|].
  inversion U as [|? ? Hn U']; subst. constructor; [|apply IH; exact U'].
  intros H. apply in_map_iff in H. destruct H as [k' [E Hi]]. apply Hn.
  destruct k as [p q], k' as [p' q']; unfold swap_key in E; simpl in E. inversion E; subst. exact Hi.
Qed.

Lemma In_swap o a : In o (swap_rows a) <-> exists o0, In o0 a /\ o = (snd (fst o0), fst (fst o0), snd o0).
Proof. unfold swap_rows. rewrite in_map_iff. split; intros [o0 [H1 H2]]; exists o0; auto. Qed.

Lemma filter_map_comm {A B} (h : A -> B) (f : B -> bool) l :
  filter f (map h l) = map h (filter (fun x => f (h x)) l).
Proof. induction l as [|x l IH]; simpl; [reflexivity|]. destruct (f (h x)); simpl; rewrite IH; reflexivity. Qed.

Lemma filter_true {A} (l : list A) : filter (fun _ => true) l = l.
Proof. induction l as [|x l IH]; simpl; [reflexivity | rewrite IH; reflexivity]. Qed.

(* ------------------------------------------------------------------ tables *)
Lemma find_row_some k T l : find_row k T = Some l -> In l T /\ fst l = k.
Proof. unfold find_row. intros H. apply find_some in H. rewrite Z.eqb_eq in H. exact H. Qed.

Lemma forall_pairs_inv c f l r : forall_pairs c f = true -> In l (j_L c) -> In r (j_R c) -> f l r = true.
Proof.
  unfold forall_pairs. rewrite forallb_forall. intros H Hl Hr.
  specialize (H l Hl). rewrite forallb_forall in H. apply H; exact Hr.
Qed.

(* ------------------------------------------------------------------ determined lists *)
(* `a` lists exactly the pairs of rows (found by key in L, R) that lie in the region g and satisfy
   inn, each once, with a score related by `rel` to sc l r *)
Section Determined.
Variables L R : list row.
Definition found (l r : row) : Prop := find_row (fst l) L = Some l /\ find_row (fst r) R = Some r.

Definition determined (rel : pyval -> pyval -> bool) (g inn : row -> row -> bool)
           (sc : row -> row -> pyval) (a : list out_row) : Prop :=
  uniq a /\
  (forall o, In o a -> exists l r, find_row (fst (fst o)) L = Some l /\ find_row (snd (fst o)) R = Some r /\
                                   g l r = true /\ inn l r = true /\ rel (snd o) (sc l r) = true) /\
  (forall l r, found l r -> g l r = true -> inn l r = true -> has_pair (fst l) (fst r) a = true).

Lemma found_of_find lk rk l r : find_row lk L = Some l -> find_row rk R = Some r -> found l r.
Proof.
  intros Hl Hr. destruct (find_row_some _ _ _ Hl) as [_ El]. destruct (find_row_some _ _ _ Hr) as [_ Er].
  unfold found. rewrite El, Er. auto.
Qed.

Theorem determined_eq rel rel' g inn inn' sc sc' a b :
  determined rel g inn sc a -> determined rel' g inn' sc' b ->
  (forall l r, found l r -> g l r = true -> inn l r = inn' l r) ->
  (forall l r s s', found l r -> g l r = true -> inn l r = true ->
                    rel s (sc l r) = true -> rel' s' (sc' l r) = true -> score_same s s' = true) ->
  multiset_eqb a b = true.
Proof.
  intros [Ua [Sa Ca]] [Ub [Sb Cb]] Hin Hsc. apply multiset_eqb_keyed; [exact Ua | exact Ub | |].
  - intros [lk rk]. rewrite <- !has_pair_keys. split; intros H.
    + apply has_pair_In in H. destruct H as [s Hs].
      destruct (Sa _ Hs) as [l [r [Hl [Hr [Hg [Hi _]]]]]]. simpl in Hl, Hr.
      pose proof (found_of_find _ _ _ _ Hl Hr) as Hf.
      destruct (find_row_some _ _ _ Hl) as [_ <-]. destruct (find_row_some _ _ _ Hr) as [_ <-].
      apply Cb; [exact Hf | exact Hg |]. rewrite <- Hin; assumption.
    + apply has_pair_In in H. destruct H as [s Hs].
      destruct (Sb _ Hs) as [l [r [Hl [Hr [Hg [Hi _]]]]]]. simpl in Hl, Hr.
      pose proof (found_of_find _ _ _ _ Hl Hr) as Hf.
      destruct (find_row_some _ _ _ Hl) as [_ <-]. destruct (find_row_some _ _ _ Hr) as [_ <-].
      apply Ca; [exact Hf | exact Hg |]. rewrite Hin; assumption.
  - intros o o' Ho Ho' E.
    destruct (Sa _ Ho) as [l [r [Hl [Hr [Hg [Hi Hs]]]]]].
    destruct (Sb _ Ho') as [l' [r' [Hl' [Hr' [_ [_ Hs']]]]]].
    unfold okey in E. rewrite <- E in Hl', Hr'. rewrite Hl in Hl'. rewrite Hr in Hr'.
    injection Hl' as <-. injection Hr' as <-.
    eapply Hsc; [eapply found_of_find; eassumption | exact Hg | exact Hi | exact Hs | exact Hs'].
Qed.

(* restricting the region *)
Lemma determined_filter rel g g' inn sc a (f : out_row -> bool) :
  determined rel g inn sc a ->
  (forall o l r, In o a -> find_row (fst (fst o)) L = Some l -> find_row (snd (fst o)) R = Some r ->
                 f o = g' l r) ->
  determined rel (fun l r => g l r && g' l r) inn sc (filter f a).
Proof.
  intros [Ua [Sa Ca]] Hf. split; [apply uniq_filter; exact Ua|]. split.
  - intros o Ho. apply filter_In in Ho. destruct Ho as [Ho Hfo].
    destruct (Sa _ Ho) as [l [r [Hl [Hr [Hg [Hi Hs]]]]]]. exists l, r.
    rewrite (Hf _ _ _ Ho Hl Hr) in Hfo. rewrite Hg, Hfo. auto.
  - intros l r Hfd Hg Hi. apply andb_true_iff in Hg. destruct Hg as [Hg Hg'].
    pose proof (Ca _ _ Hfd Hg Hi) as H. apply has_pair_In in H. destruct H as [s Hs].
    apply has_pair_In. exists s. apply filter_In. split; [exact Hs|].
    destruct Hfd as [Hl Hr]. rewrite (Hf _ l r Hs); [exact Hg' | exact Hl | exact Hr].
Qed.

(* filtering on the score: the membership condition is strengthened *)
Lemma determined_filter_score rel g inn h sc a (f : out_row -> bool) :
  determined rel g inn sc a ->
  (forall o l r, In o a -> find_row (fst (fst o)) L = Some l -> find_row (snd (fst o)) R = Some r ->
                 g l r = true -> rel (snd o) (sc l r) = true -> f o = h l r) ->
  determined rel g (fun l r => inn l r && h l r) sc (filter f a).
Proof.
  intros [Ua [Sa Ca]] Hf. split; [apply uniq_filter; exact Ua|]. split.
  - intros o Ho. apply filter_In in Ho. destruct Ho as [Ho Hfo].
    destruct (Sa _ Ho) as [l [r [Hl [Hr [Hg [Hi Hs]]]]]]. exists l, r.
    rewrite (Hf _ _ _ Ho Hl Hr Hg Hs) in Hfo. rewrite Hi, Hfo. auto.
  - intros l r Hfd Hg Hi. apply andb_true_iff in Hi. destruct Hi as [Hi Hh].
    pose proof (Ca _ _ Hfd Hg Hi) as H. apply has_pair_In in H. destruct H as [s Hs].
    apply has_pair_In. exists s. apply filter_In. split; [exact Hs|].
    destruct Hfd as [Hl Hr].
    destruct (Sa _ Hs) as [l' [r' [Hl' [Hr' [_ [_ Hrel]]]]]]. simpl in Hl', Hr'.
    rewrite Hl in Hl'. rewrite Hr in Hr'. injection Hl' as <-. injection Hr' as <-.
    rewrite (Hf _ l r Hs); auto.
Qed.

Lemma determined_ext rel g g' inn inn' sc sc' a :
  determined rel g inn sc a ->
  (forall l r, g l r = g' l r) ->
  (forall l r, g l r = true -> inn l r = inn' l r) ->
  (forall l r, g l r = true -> inn l r = true -> sc l r = sc' l r) ->
  determined rel g' inn' sc' a.
Proof.
  intros [Ua [Sa Ca]] Hg Hi Hs. split; [exact Ua|]. split.
  - intros o Ho. destruct (Sa _ Ho) as [l [r [Hl [Hr [Hg1 [Hi1 Hs1]]]]]]. exists l, r.
    rewrite <- Hg, <- Hi, <- Hs; auto.
  - intros l r Hfd Hg1 Hi1. rewrite <- Hg in Hg1. rewrite <- Hi in Hi1 by exact Hg1. apply Ca; auto.
Qed.

(* the union of two determined lists with exclusive membership conditions *)
Lemma determined_app rel g inn1 inn2 sc a b :
  determined rel g inn1 sc a -> determined rel g inn2 sc b ->
  (forall l r, g l r = true -> inn1 l r && inn2 l r = false) ->
  determined rel g (fun l r => inn1 l r || inn2 l r) sc (a ++ b).
Proof.
  intros [Ua [Sa Ca]] [Ub [Sb Cb]] Hex. split; [|split].
  - apply uniq_app; [exact Ua | exact Ub |]. intros [lk rk] Ha Hb.
    apply has_pair_keys, has_pair_In in Ha. apply has_pair_keys, has_pair_In in Hb.
    destruct Ha as [s Hs]. destruct Hb as [s' Hs'].
    destruct (Sa _ Hs) as [l [r [Hl [Hr [Hg [Hi _]]]]]].
    destruct (Sb _ Hs') as [l' [r' [Hl' [Hr' [_ [Hi' _]]]]]]. simpl in *.
    rewrite Hl in Hl'. rewrite Hr in Hr'. injection Hl' as <-. injection Hr' as <-.
    specialize (Hex _ _ Hg). rewrite Hi, Hi' in Hex. discriminate.
  - intros o Ho. apply in_app_or in Ho. destruct Ho as [Ho|Ho].
    + destruct (Sa _ Ho) as [l [r [Hl [Hr [Hg [Hi Hs]]]]]]. exists l, r. rewrite Hi. auto.
    + destruct (Sb _ Ho) as [l [r [Hl [Hr [Hg [Hi Hs]]]]]]. exists l, r. rewrite Hi, orb_true_r. auto.
  - intros l r Hfd Hg Hi. apply orb_true_iff in Hi.
    apply has_pair_In. destruct Hi as [Hi|Hi].
    + pose proof (Ca _ _ Hfd Hg Hi) as H. apply has_pair_In in H. destruct H as [s Hs].
      exists s. apply in_or_app. left; exact Hs.
    + pose proof (Cb _ _ Hfd Hg Hi) as H. apply has_pair_In in H. destruct H as [s Hs].
      exists s. apply in_or_app. right; exact Hs.
Qed.

(* rounding the scores *)
Lemma determined_round rel rel' g inn sc a :
  determined rel g inn sc a ->
  (forall s v, rel s v = true -> rel' (round_score s) (round_score v) = true) ->
  determined rel' g inn (fun l r => round_score (sc l r)) (round_rows a).
Proof.
  intros [Ua [Sa Ca]] Hr. split; [apply uniq_round; exact Ua|]. split.
  - intros o Ho. apply In_round in Ho. destruct Ho as [o0 [Ho0 ->]]. simpl.
    destruct (Sa _ Ho0) as [l [r [Hl [Hr' [Hg [Hi Hs]]]]]]. exists l, r. auto 6.
  - intros l r Hfd Hg Hi. pose proof (Ca _ _ Hfd Hg Hi) as H.
    apply has_pair_keys. rewrite keys_round. apply has_pair_keys. exact H.
Qed.

Lemma determined_rel rel rel' g inn sc a :
  determined rel g inn sc a ->
  (forall o l r, In o a -> find_row (fst (fst o)) L = Some l -> find_row (snd (fst o)) R = Some r ->
                 rel (snd o) (sc l r) = true -> rel' (snd o) (sc l r) = true) ->
  determined rel' g inn sc a.
Proof.
  intros [Ua [Sa Ca]] Hr. split; [exact Ua|]. split; [|exact Ca].
  intros o Ho. destruct (Sa _ Ho) as [l [r [Hl [Hr' [Hg [Hi Hs]]]]]]. exists l, r.
  repeat split; auto; try (eapply Hr; eassumption).
Qed.
End Determined.

(* transposition: swapping the tables and the key columns *)
Lemma determined_swap L R rel g inn sc a :
  determined L R rel g inn sc a ->
  determined R L rel (fun r l => g l r) (fun r l => inn l r) (fun r l => sc l r) (swap_rows a).
Proof.
  intros [Ua [Sa Ca]]. split; [apply uniq_swap; exact Ua|]. split.
  - intros o Ho. apply In_swap in Ho. destruct Ho as [o0 [Ho0 ->]]. simpl.
    destruct (Sa _ Ho0) as [l [r [Hl [Hr [Hg [Hi Hs]]]]]]. exists r, l. auto 6.
  - intros r l [Hr Hl] Hg Hi.
    assert (found L R l r) as Hfd by (split; assumption).
    pose proof (Ca _ _ Hfd Hg Hi) as H. apply has_pair_In in H. destruct H as [s Hs].
    apply has_pair_In. exists s. apply In_swap. exists (fst l, fst r, s). split; [exact Hs | reflexivity].
Qed.

Print Assumptions multiset_eqb_perm.
Print Assumptions multiset_eqb_keyed.
Print Assumptions multiset_eqb_counted.
Print Assumptions determined_eq.
Print Assumptions determined_app.
Print Assumptions determined_swap.
