(* Threshold normalisation of the integer-valued measures (source repair in filter_utils.py):
   under "EDIT_DISTANCE" the four formulas read the threshold only through int(floor(threshold)),
   under "OVERLAP" only through int(ceil(threshold)).

   (1) int(floor(.)) / int(ceil(.)) are the identity on ints, idempotent on every value, and
       floor / ceil on finite doubles (executable f_floor / f_ceil of Num/F64.v);
   (2) the REGENERATED formulas (Gen/FilterUtilsGen.v) at a threshold t equal the formulas at the
       normalised threshold, for EVERY value t; with a finite double f they equal the formulas at
       PInt (f_floor f) (EDIT_DISTANCE) resp. PInt (f_ceil f) (OVERLAP) -- no magnitude bound;
   (3) every pairwise filter model of Model/Filters.v / Model/Suffix.v reads its parameters only
       through fm and the four formulas, so parameters with equal formulas give equal filters
       (`fp_agree`): a float threshold behaves exactly as its floor / ceiling;
   (4) Python's exact int-vs-float comparisons against a finite double:
         d <= f  iff  d <= floor f,     o >= f  iff  o >= ceil f,
       and the validate_threshold conditions (f >= 0, f > 0) in terms of floor / ceil.
   SpecFloat / Z reasoning only: every theorem here is closed under the global context.     *)
From Coq Require Import ZArith Bool List String Lia SpecFloat.
From SSJ Require Import F64 PyNum FilterUtilsGen HelperGen TokenOrdering Filters Suffix PyFacts.
Import ListNotations.
Open Scope string_scope.
Open Scope Z_scope.

(* ====================================================================== (1) int(floor), int(ceil) *)
Definition norm_floor (t : pyval) : pyval := py_int (py_floor t).
Definition norm_ceil (t : pyval) : pyval := py_int (py_ceil t).

Lemma py_int_floor_int z : py_int (py_floor (PInt z)) = PInt z.
Proof. reflexivity. Qed.
Lemma py_int_ceil_int z : py_int (py_ceil (PInt z)) = PInt z.
Proof. reflexivity. Qed.

Lemma py_floor_float f : f_is_finite f = true -> py_floor (PFloat f) = PInt (f_floor f).
Proof. intros H. unfold py_floor, strict1, num_of. rewrite H. reflexivity. Qed.
Lemma py_ceil_float f : f_is_finite f = true -> py_ceil (PFloat f) = PInt (f_ceil f).
Proof. intros H. unfold py_ceil, strict1, num_of. rewrite H. reflexivity. Qed.

Lemma py_int_floor_float f : f_is_finite f = true -> py_int (py_floor (PFloat f)) = PInt (f_floor f).
Proof. intros H. rewrite py_floor_float by exact H. reflexivity. Qed.
Lemma py_int_ceil_float f : f_is_finite f = true -> py_int (py_ceil (PFloat f)) = PInt (f_ceil f).
Proof. intros H. rewrite py_ceil_float by exact H. reflexivity. Qed.

(* what a non-finite double does: the exception CPython raises in floor()/ceil() *)
Lemma py_int_floor_nonfinite f : f_is_finite f = false ->
  py_int (py_floor (PFloat f)) = if f_is_nan f then ValueError else OverflowError.
Proof.
  intros H. unfold py_floor, strict1, num_of. rewrite H. destruct (f_is_nan f); reflexivity.
Qed.
Lemma py_int_ceil_nonfinite f : f_is_finite f = false ->
  py_int (py_ceil (PFloat f)) = if f_is_nan f then ValueError else OverflowError.
Proof.
  intros H. unfold py_ceil, strict1, num_of. rewrite H. destruct (f_is_nan f); reflexivity.
Qed.

(* the normalised threshold is an int or a raised exception, whatever the argument *)
Lemma norm_floor_shape t : (exists z, norm_floor t = PInt z) \/ (exists e, norm_floor t = PExc e).
Proof.
  unfold norm_floor. destruct t as [z|f|s|b| |l|l|l|e]; try (right; eexists; reflexivity).
  - left; eexists; reflexivity.
  - destruct (f_is_finite f) eqn:E.
    + left. rewrite py_int_floor_float by exact E. eexists; reflexivity.
    + right. rewrite py_int_floor_nonfinite by exact E. destruct (f_is_nan f); eexists; reflexivity.
  - left. destruct b; eexists; reflexivity.
Qed.
Lemma norm_ceil_shape t : (exists z, norm_ceil t = PInt z) \/ (exists e, norm_ceil t = PExc e).
Proof.
  unfold norm_ceil. destruct t as [z|f|s|b| |l|l|l|e]; try (right; eexists; reflexivity).
  - left; eexists; reflexivity.
  - destruct (f_is_finite f) eqn:E.
    + left. rewrite py_int_ceil_float by exact E. eexists; reflexivity.
    + right. rewrite py_int_ceil_nonfinite by exact E. destruct (f_is_nan f); eexists; reflexivity.
  - left. destruct b; eexists; reflexivity.
Qed.

Lemma norm_floor_idem t : norm_floor (norm_floor t) = norm_floor t.
Proof. destruct (norm_floor_shape t) as [[z E]|[e E]]; rewrite E; reflexivity. Qed.
Lemma norm_ceil_idem t : norm_ceil (norm_ceil t) = norm_ceil t.
Proof. destruct (norm_ceil_shape t) as [[z E]|[e E]]; rewrite E; reflexivity. Qed.

(* ====================================================================== (2) the generated formulas *)
(* the branch of the generated functions at the two measures, ANY threshold value *)
Lemma get_lb_ed_norm n t :
  get_size_lower_bound n (PStr "EDIT_DISTANCE") t = py_sub n (norm_floor t).
Proof. reflexivity. Qed.
Lemma get_ub_ed_norm n t :
  get_size_upper_bound n (PStr "EDIT_DISTANCE") t = py_add n (norm_floor t).
Proof. reflexivity. Qed.
Lemma py_eq_int_bool a b : py_eq (PInt a) (PInt b) = PBool (a =? b).
Proof.
  unfold py_eq, strict2, pv_eqb, num_of, num_cmp.
  destruct (Z.compare_spec a b); destruct (Z.eqb_spec a b); try reflexivity; lia.
Qed.

Lemma get_pl_ed_norm n t q :
  get_prefix_length (PInt n) (PStr "EDIT_DISTANCE") t q =
  if n =? 0 then PInt 0 else py_min (py_add (py_mul q (norm_floor t)) (PInt 1)) (PInt n).
Proof.
  unfold norm_floor, get_prefix_length. rewrite py_eq_int_bool. cbn [bindx py_truth].
  destruct (n =? 0); reflexivity.
Qed.
Lemma get_ot_ed_norm a b t q :
  get_overlap_threshold a b (PStr "EDIT_DISTANCE") t q =
  py_sub (py_add (py_sub (py_max (py_sub (py_add a q) (PInt 1)) (py_sub (py_add b q) (PInt 1))) q)
                 (PInt 1)) (py_mul q (norm_floor t)).
Proof. reflexivity. Qed.

Lemma get_lb_ov_norm n t : get_size_lower_bound n (PStr "OVERLAP") t = norm_ceil t.
Proof. reflexivity. Qed.
Lemma get_ub_ov_norm n t : get_size_upper_bound n (PStr "OVERLAP") t = py_maxsize.
Proof. reflexivity. Qed.
Lemma get_pl_ov_norm n t q :
  get_prefix_length (PInt n) (PStr "OVERLAP") t q =
  if n =? 0 then PInt 0 else py_max (py_add (py_sub (PInt n) (norm_ceil t)) (PInt 1)) (PInt 0).
Proof.
  unfold norm_ceil, get_prefix_length. rewrite py_eq_int_bool. cbn [bindx py_truth].
  destruct (n =? 0); reflexivity.
Qed.
Lemma get_ot_ov_norm a b t q : get_overlap_threshold a b (PStr "OVERLAP") t q = norm_ceil t.
Proof. reflexivity. Qed.

(* the formulas at t and at the normalised t coincide (every value t, every measure string is
   covered by the two cases; the other measures do not normalise) *)
Theorem get_lb_ed_idem n t :
  get_size_lower_bound n (PStr "EDIT_DISTANCE") (norm_floor t) = get_size_lower_bound n (PStr "EDIT_DISTANCE") t.
Proof. rewrite !get_lb_ed_norm, norm_floor_idem. reflexivity. Qed.
Theorem get_ub_ed_idem n t :
  get_size_upper_bound n (PStr "EDIT_DISTANCE") (norm_floor t) = get_size_upper_bound n (PStr "EDIT_DISTANCE") t.
Proof. rewrite !get_ub_ed_norm, norm_floor_idem. reflexivity. Qed.
Theorem get_pl_ed_idem n t q :
  get_prefix_length (PInt n) (PStr "EDIT_DISTANCE") (norm_floor t) q =
  get_prefix_length (PInt n) (PStr "EDIT_DISTANCE") t q.
Proof. rewrite !get_pl_ed_norm, norm_floor_idem. reflexivity. Qed.
Theorem get_ot_ed_idem a b t q :
  get_overlap_threshold a b (PStr "EDIT_DISTANCE") (norm_floor t) q =
  get_overlap_threshold a b (PStr "EDIT_DISTANCE") t q.
Proof. rewrite !get_ot_ed_norm, norm_floor_idem. reflexivity. Qed.
Theorem get_lb_ov_idem n t :
  get_size_lower_bound n (PStr "OVERLAP") (norm_ceil t) = get_size_lower_bound n (PStr "OVERLAP") t.
Proof. rewrite !get_lb_ov_norm, norm_ceil_idem. reflexivity. Qed.
Theorem get_ub_ov_idem n t :
  get_size_upper_bound n (PStr "OVERLAP") (norm_ceil t) = get_size_upper_bound n (PStr "OVERLAP") t.
Proof. reflexivity. Qed.
Theorem get_pl_ov_idem n t q :
  get_prefix_length (PInt n) (PStr "OVERLAP") (norm_ceil t) q =
  get_prefix_length (PInt n) (PStr "OVERLAP") t q.
Proof. rewrite !get_pl_ov_norm, norm_ceil_idem. reflexivity. Qed.
Theorem get_ot_ov_idem a b t q :
  get_overlap_threshold a b (PStr "OVERLAP") (norm_ceil t) q =
  get_overlap_threshold a b (PStr "OVERLAP") t q.
Proof. rewrite !get_ot_ov_norm, norm_ceil_idem. reflexivity. Qed.

(* ---- parameter records: integer threshold (as in EditArith.edp / OverlapMeasure.ovp, to which
   edpi / ovpi are convertible) and float threshold ---- *)
Definition edpi (q tau : Z) : fparams := {| fm := "EDIT_DISTANCE"; ft := PInt tau; fq := q |}.
Definition ovpi (T q : Z) : fparams := {| fm := "OVERLAP"; ft := PInt T; fq := q |}.
Definition edpf (q : Z) (f : f64) : fparams := {| fm := "EDIT_DISTANCE"; ft := PFloat f; fq := q |}.
Definition ovpf (f : f64) (q : Z) : fparams := {| fm := "OVERLAP"; ft := PFloat f; fq := q |}.

Section EdFloat.
  Variables (q : Z) (f : f64).
  Hypothesis Hfin : f_is_finite f = true.

  Let E : norm_floor (PFloat f) = PInt (f_floor f) := py_int_floor_float f Hfin.

  Theorem g_lb_ed_float n : g_lb (edpf q f) n = g_lb (edpi q (f_floor f)) n.
  Proof. unfold g_lb, edpf, edpi. cbn [fm ft fq]. rewrite !get_lb_ed_norm, E. reflexivity. Qed.
  Theorem g_ub_ed_float n : g_ub (edpf q f) n = g_ub (edpi q (f_floor f)) n.
  Proof. unfold g_ub, edpf, edpi. cbn [fm ft fq]. rewrite !get_ub_ed_norm, E. reflexivity. Qed.
  Theorem g_pl_ed_float n : g_pl (edpf q f) n = g_pl (edpi q (f_floor f)) n.
  Proof. unfold g_pl, edpf, edpi. cbn [fm ft fq]. rewrite !get_pl_ed_norm, E. reflexivity. Qed.
  Theorem g_ot_ed_float a b : g_ot (edpf q f) a b = g_ot (edpi q (f_floor f)) a b.
  Proof. unfold g_ot, edpf, edpi. cbn [fm ft fq]. rewrite !get_ot_ed_norm, E. reflexivity. Qed.

  (* closed forms: all four are ints (nothing float reaches range() / a slice) *)
  Corollary g_lb_ed_float_val n : g_lb (edpf q f) n = PInt (n - f_floor f).
  Proof. rewrite g_lb_ed_float. reflexivity. Qed.
  Corollary g_ub_ed_float_val n : g_ub (edpf q f) n = PInt (n + f_floor f).
  Proof. rewrite g_ub_ed_float. reflexivity. Qed.
  Corollary g_pl_ed_float_val n : exists k, g_pl (edpf q f) n = PInt k.
  Proof.
    rewrite g_pl_ed_float. unfold g_pl, edpi. cbn [fm ft fq]. rewrite get_pl_ed_norm.
    destruct (n =? 0); [eexists; reflexivity|].
    change (py_add (py_mul (PInt q) (norm_floor (PInt (f_floor f)))) (PInt 1))
      with (PInt (q * f_floor f + 1)).
    unfold py_min, py_lt, py_ord, strict2, ord_cmp, num_of, num_cmp.
    destruct (n ?= q * f_floor f + 1); eexists; reflexivity.
  Qed.
  Corollary g_ot_ed_float_val a b : exists k, g_ot (edpf q f) a b = PInt k.
  Proof.
    rewrite g_ot_ed_float. unfold g_ot, edpi. cbn [fm ft fq]. rewrite get_ot_ed_norm.
    change (py_sub (py_add (PInt a) (PInt q)) (PInt 1)) with (PInt (a + q - 1)).
    change (py_sub (py_add (PInt b) (PInt q)) (PInt 1)) with (PInt (b + q - 1)).
    unfold py_max, py_gt, py_ord, strict2, ord_cmp, num_of, num_cmp.
    destruct (b + q - 1 ?= a + q - 1); eexists; reflexivity.
  Qed.
End EdFloat.

Section OvFloat.
  Variables (f : f64) (q : Z).
  Hypothesis Hfin : f_is_finite f = true.

  Let E : norm_ceil (PFloat f) = PInt (f_ceil f) := py_int_ceil_float f Hfin.

  Theorem g_lb_ov_float n : g_lb (ovpf f q) n = g_lb (ovpi (f_ceil f) q) n.
  Proof. unfold g_lb, ovpf, ovpi. cbn [fm ft fq]. rewrite !get_lb_ov_norm, E. reflexivity. Qed.
  Theorem g_ub_ov_float n : g_ub (ovpf f q) n = g_ub (ovpi (f_ceil f) q) n.
  Proof. reflexivity. Qed.
  Theorem g_pl_ov_float n : g_pl (ovpf f q) n = g_pl (ovpi (f_ceil f) q) n.
  Proof. unfold g_pl, ovpf, ovpi. cbn [fm ft fq]. rewrite !get_pl_ov_norm, E. reflexivity. Qed.
  Theorem g_ot_ov_float a b : g_ot (ovpf f q) a b = g_ot (ovpi (f_ceil f) q) a b.
  Proof. unfold g_ot, ovpf, ovpi. cbn [fm ft fq]. rewrite !get_ot_ov_norm, E. reflexivity. Qed.

  Corollary g_lb_ov_float_val n : g_lb (ovpf f q) n = PInt (f_ceil f).
  Proof. rewrite g_lb_ov_float. reflexivity. Qed.
  Corollary g_ub_ov_float_val n : g_ub (ovpf f q) n = py_maxsize.
  Proof. reflexivity. Qed.
  Corollary g_ot_ov_float_val a b : g_ot (ovpf f q) a b = PInt (f_ceil f).
  Proof. rewrite g_ot_ov_float. reflexivity. Qed.
  Corollary g_pl_ov_float_val n : exists k, g_pl (ovpf f q) n = PInt k.
  Proof.
    rewrite g_pl_ov_float. unfold g_pl, ovpi. cbn [fm ft fq]. rewrite get_pl_ov_norm.
    destruct (n =? 0); [eexists; reflexivity|].
    change (py_add (py_sub (PInt n) (norm_ceil (PInt (f_ceil f)))) (PInt 1))
      with (PInt (n - f_ceil f + 1)).
    unfold py_max, py_gt, py_ord, strict2, ord_cmp, num_of, num_cmp.
    destruct (0 ?= n - f_ceil f + 1); eexists; reflexivity.
  Qed.
End OvFloat.

(* ====================================================================== (3) the filter models *)
(* two parameter records the filters cannot tell apart *)
Definition fp_agree (p p' : fparams) : Prop :=
  fm p = fm p' /\ (forall n, g_lb p n = g_lb p' n) /\ (forall n, g_ub p n = g_ub p' n) /\
  (forall n, g_pl p n = g_pl p' n) /\ (forall a b, g_ot p a b = g_ot p' a b).

Lemma fp_agree_refl p : fp_agree p p.
Proof. repeat split. Qed.
Lemma fp_agree_sym p p' : fp_agree p p' -> fp_agree p' p.
Proof. intros (H0 & H1 & H2 & H3 & H4). repeat split; intros; symmetry; auto. Qed.
Lemma fp_agree_trans p p' p'' : fp_agree p p' -> fp_agree p' p'' -> fp_agree p p''.
Proof.
  intros (H0 & H1 & H2 & H3 & H4) (K0 & K1 & K2 & K3 & K4).
  repeat split; intros; etransitivity; eauto.
Qed.

Theorem fp_agree_ed_float q f : f_is_finite f = true -> fp_agree (edpf q f) (edpi q (f_floor f)).
Proof.
  intros H. split; [reflexivity|]. split; [intros; apply g_lb_ed_float; exact H|].
  split; [intros; apply g_ub_ed_float; exact H|]. split; [intros; apply g_pl_ed_float; exact H|].
  intros; apply g_ot_ed_float; exact H.
Qed.
Theorem fp_agree_ov_float f q : f_is_finite f = true -> fp_agree (ovpf f q) (ovpi (f_ceil f) q).
Proof.
  intros H. split; [reflexivity|]. split; [intros; apply g_lb_ov_float; exact H|].
  split; [intros; apply g_ub_ov_float; exact H|]. split; [intros; apply g_pl_ov_float; exact H|].
  intros; apply g_ot_ov_float; exact H.
Qed.

Section Agree.
  Variables p p' : fparams.
  Hypothesis A : fp_agree p p'.

  Let Afm : fm p = fm p' := proj1 A.
  Let Alb : forall n, g_lb p n = g_lb p' n := proj1 (proj2 A).
  Let Aub : forall n, g_ub p n = g_ub p' n := proj1 (proj2 (proj2 A)).
  Let Apl : forall n, g_pl p n = g_pl p' n := proj1 (proj2 (proj2 (proj2 A))).
  Let Aot : forall a b, g_ot p a b = g_ot p' a b := proj2 (proj2 (proj2 (proj2 A))).

  Lemma agree_both_empty ae : both_empty_verdict p ae = both_empty_verdict p' ae.
  Proof. unfold both_empty_verdict. rewrite Afm. reflexivity. Qed.

  Theorem agree_size_filter_pair ae nl nr : size_filter_pair p ae nl nr = size_filter_pair p' ae nl nr.
  Proof. unfold size_filter_pair. rewrite agree_both_empty, Alb, Aub. reflexivity. Qed.

  Theorem agree_size_cand nx ny : size_cand p nx ny = size_cand p' nx ny.
  Proof. unfold size_cand. rewrite Alb, Aub. reflexivity. Qed.

  Theorem agree_prefix_cand x y : prefix_cand p x y = prefix_cand p' x y.
  Proof. unfold prefix_cand. rewrite !Apl. reflexivity. Qed.

  Theorem agree_prefix_filter_pair ae l r : prefix_filter_pair p ae l r = prefix_filter_pair p' ae l r.
  Proof. unfold prefix_filter_pair. rewrite agree_both_empty, !Apl. reflexivity. Qed.

  Lemma agree_pos_update nx ny cur j i : pos_update p nx ny cur j i = pos_update p' nx ny cur j i.
  Proof. unfold pos_update. rewrite Alb, Aub, Aot. reflexivity. Qed.

  Lemma agree_pos_fold nx ny j : forall ps cur,
    fold_left (fun c i => pos_update p nx ny c j i) ps cur =
    fold_left (fun c i => pos_update p' nx ny c j i) ps cur.
  Proof.
    induction ps as [|i ps IH]; intros cur; [reflexivity|].
    cbn [fold_left]. rewrite agree_pos_update. apply IH.
  Qed.

  Lemma agree_pos_loop nx ny xp : forall yp j cur,
    pos_loop p nx ny xp yp j cur = pos_loop p' nx ny xp yp j cur.
  Proof.
    induction yp as [|w yp IH]; intros j cur; [reflexivity|].
    cbn [pos_loop]. rewrite agree_pos_fold. apply IH.
  Qed.

  Theorem agree_pos_cand x y : pos_cand p x y = pos_cand p' x y.
  Proof.
    unfold pos_cand. rewrite !Apl.
    destruct (slice0 (g_pl p' (len x)) x); [|reflexivity].
    destruct (slice0 (g_pl p' (len y)) y); [|reflexivity].
    rewrite agree_pos_loop. reflexivity.
  Qed.

  Theorem agree_position_filter_pair ae l r :
    position_filter_pair p ae l r = position_filter_pair p' ae l r.
  Proof. unfold position_filter_pair. rewrite agree_both_empty, !Apl, Aot. reflexivity. Qed.

  Lemma agree_filter_suffix ls rs lp rp ln rn :
    filter_suffix p ls rs lp rp ln rn = filter_suffix p' ls rs lp rp ln rn.
  Proof. unfold filter_suffix. rewrite Aot. reflexivity. Qed.

  Theorem agree_suffix_filter_pair ae l r : suffix_filter_pair p ae l r = suffix_filter_pair p' ae l r.
  Proof.
    unfold suffix_filter_pair. rewrite agree_both_empty, !Apl.
    destruct ((len l =? 0) && (len r =? 0)); [reflexivity|]. cbv zeta.
    destruct (g_pl p' (len l)); try reflexivity. destruct (g_pl p' (len r)); try reflexivity.
    rewrite agree_filter_suffix. reflexivity.
  Qed.

  Theorem agree_suffix_cand x y : suffix_cand p x y = suffix_cand p' x y.
  Proof.
    unfold suffix_cand. rewrite !Apl.
    destruct (g_pl p' (len x)); try reflexivity. destruct (g_pl p' (len y)); try reflexivity.
    rewrite agree_filter_suffix. reflexivity.
  Qed.
End Agree.

(* ====================================================================== (4) comparisons *)
(* Python compares an int with a float exactly (cmp_Z_f); against a finite double this is the
   comparison with its floor (for <=) resp. its ceiling (for >=) *)
Lemma pow_pos_gt0 p : 0 < Z.pow_pos 2 p.
Proof. rewrite Z.pow_pos_fold. apply Z.pow_pos_nonneg; lia. Qed.

Lemma div_floor_le d m D : 0 < D -> (d * D <= m <-> d <= m / D).
Proof.
  intros HD. split; intros H.
  - apply Z.div_le_lower_bound; lia.
  - pose proof (Z.mul_div_le m D HD). nia.
Qed.
Lemma div_ceil_le d m D : 0 < D -> (m <= d * D <-> (m + D - 1) / D <= d).
Proof.
  intros HD. split; intros H.
  - assert ((m + D - 1) / D < d + 1) by (apply Z.div_lt_upper_bound; lia). lia.
  - pose proof (Z.div_mod (m + D - 1) D ltac:(lia)) as E.
    pose proof (Z.mod_pos_bound (m + D - 1) D HD) as B. nia.
Qed.

Theorem cmp_Z_f_floor d f : f_is_finite f = true ->
  (cmp_Z_f d f <> Some Gt <-> d <= f_floor f).
Proof.
  intros Hfin. destruct f as [s| | |s m e]; try discriminate.
  - cbn [cmp_Z_f f_floor]. destruct (Z.compare_spec d 0); split; intros; try lia; try congruence.
  - unfold cmp_Z_f, f_floor. destruct e as [|e|e].
    + rewrite Z.pow_0_r, !Z.mul_1_r.
      destruct s; destruct (Z.compare_spec d (Z.neg m)), (Z.compare_spec d (Z.pos m));
        split; intros; try lia; try congruence.
    + assert (HP : 0 < 2 ^ Z.pos e) by (apply Z.pow_pos_nonneg; lia).
      destruct s.
      * change (Z.neg m) with (- Z.pos m). rewrite Z.mul_opp_l.
        destruct (Z.compare_spec d (- (Z.pos m * 2 ^ Z.pos e))); split; intros; try lia; congruence.
      * destruct (Z.compare_spec d (Z.pos m * 2 ^ Z.pos e)); split; intros; try lia; congruence.
    + pose proof (pow_pos_gt0 e) as HD. set (D := Z.pow_pos 2 e) in *.
      destruct s.
      * pose proof (div_ceil_le (- d) (Z.pos m) D HD) as K.
        change (Z.neg m) with (- Z.pos m).
        destruct (Z.compare_spec (d * D) (- Z.pos m)); split; intros; try congruence; try nia.
      * pose proof (div_floor_le d (Z.pos m) D HD) as K.
        destruct (Z.compare_spec (d * D) (Z.pos m)); split; intros; try congruence; try nia.
Qed.

Theorem cmp_Z_f_ceil d f : f_is_finite f = true ->
  (cmp_Z_f d f <> Some Lt <-> f_ceil f <= d).
Proof.
  intros Hfin. destruct f as [s| | |s m e]; try discriminate.
  - cbn [cmp_Z_f f_ceil]. destruct (Z.compare_spec d 0); split; intros; try lia; try congruence.
  - unfold cmp_Z_f, f_ceil. destruct e as [|e|e].
    + rewrite Z.pow_0_r, !Z.mul_1_r.
      destruct s; destruct (Z.compare_spec d (Z.neg m)), (Z.compare_spec d (Z.pos m));
        split; intros; try lia; try congruence.
    + assert (HP : 0 < 2 ^ Z.pos e) by (apply Z.pow_pos_nonneg; lia).
      destruct s.
      * change (Z.neg m) with (- Z.pos m). rewrite Z.mul_opp_l.
        destruct (Z.compare_spec d (- (Z.pos m * 2 ^ Z.pos e))); split; intros; try lia; congruence.
      * destruct (Z.compare_spec d (Z.pos m * 2 ^ Z.pos e)); split; intros; try lia; congruence.
    + pose proof (pow_pos_gt0 e) as HD. set (D := Z.pow_pos 2 e) in *.
      destruct s.
      * pose proof (div_floor_le (- d) (Z.pos m) D HD) as K.
        change (Z.neg m) with (- Z.pos m).
        destruct (Z.compare_spec (d * D) (- Z.pos m)); split; intros; try congruence; try nia.
      * pose proof (div_ceil_le d (Z.pos m) D HD) as K.
        destruct (Z.compare_spec (d * D) (Z.pos m)); split; intros; try congruence; try nia.
Qed.

Lemma cmp_Z_f_some d f : f_is_finite f = true -> exists c, cmp_Z_f d f = Some c.
Proof.
  intros H. destruct f as [s| | |s m e]; try discriminate; unfold cmp_Z_f.
  - eexists; reflexivity.
  - destruct e; eexists; reflexivity.
Qed.

(* d <= f  (Python, int vs float)  is  d <= floor f *)
Theorem py_le_int_float d f : f_is_finite f = true ->
  py_le (PInt d) (PFloat f) = PBool (d <=? f_floor f).
Proof.
  intros H. pose proof (cmp_Z_f_floor d f H) as K. destruct (cmp_Z_f_some d f H) as [c Ec].
  unfold py_le, py_ord, strict2, ord_cmp, num_of, num_cmp. rewrite Ec in *.
  destruct (Z.leb_spec d (f_floor f)) as [L|L]; destruct c; try reflexivity.
  - exfalso. apply K in L. congruence.
  - exfalso. assert (d <= f_floor f) by (apply K; discriminate). lia.
  - exfalso. assert (d <= f_floor f) by (apply K; discriminate). lia.
Qed.
(* o >= f  is  o >= ceil f *)
Theorem py_ge_int_float o f : f_is_finite f = true ->
  py_ge (PInt o) (PFloat f) = PBool (f_ceil f <=? o).
Proof.
  intros H. pose proof (cmp_Z_f_ceil o f H) as K. destruct (cmp_Z_f_some o f H) as [c Ec].
  unfold py_ge, py_ord, strict2, ord_cmp, num_of, num_cmp. rewrite Ec in *.
  destruct (Z.leb_spec (f_ceil f) o) as [L|L]; destruct c; try reflexivity.
  - exfalso. apply K in L. congruence.
  - exfalso. assert (f_ceil f <= o) by (apply K; discriminate). lia.
  - exfalso. assert (f_ceil f <= o) by (apply K; discriminate). lia.
Qed.
(* d > f  is  d > floor f;   o < f  is  o < ceil f *)
Theorem py_gt_int_float d f : f_is_finite f = true ->
  py_gt (PInt d) (PFloat f) = PBool (f_floor f <? d).
Proof.
  intros H. pose proof (cmp_Z_f_floor d f H) as K. destruct (cmp_Z_f_some d f H) as [c Ec].
  unfold py_gt, py_ord, strict2, ord_cmp, num_of, num_cmp. rewrite Ec in *.
  destruct (Z.ltb_spec (f_floor f) d) as [L|L]; destruct c; try reflexivity.
  - exfalso. assert (d <= f_floor f) by (apply K; discriminate). lia.
  - exfalso. assert (d <= f_floor f) by (apply K; discriminate). lia.
  - exfalso. apply K in L. congruence.
Qed.
Theorem py_lt_int_float o f : f_is_finite f = true ->
  py_lt (PInt o) (PFloat f) = PBool (o <? f_ceil f).
Proof.
  intros H. pose proof (cmp_Z_f_ceil o f H) as K. destruct (cmp_Z_f_some o f H) as [c Ec].
  unfold py_lt, py_ord, strict2, ord_cmp, num_of, num_cmp. rewrite Ec in *.
  destruct (Z.ltb_spec o (f_ceil f)) as [L|L]; destruct c; try reflexivity.
  - exfalso. assert (f_ceil f <= o) by (apply K; discriminate). lia.
  - exfalso. assert (f_ceil f <= o) by (apply K; discriminate). lia.
  - exfalso. apply K in L. congruence.
Qed.
(* the float on the left, as validate_threshold writes it (k an int):
   f < k  iff  floor f < k;   f <= k  iff  ceil f <= k *)
Theorem py_lt_float_int f k : f_is_finite f = true ->
  py_lt (PFloat f) (PInt k) = PBool (f_floor f <? k).
Proof.
  intros H. rewrite <- py_gt_int_float by exact H.
  destruct (cmp_Z_f_some k f H) as [c Ec].
  unfold py_lt, py_gt, py_ord, strict2, ord_cmp, num_of, num_cmp. rewrite Ec.
  destruct c; reflexivity.
Qed.
Theorem py_le_float_int f k : f_is_finite f = true ->
  py_le (PFloat f) (PInt k) = PBool (f_ceil f <=? k).
Proof.
  intros H. rewrite <- py_ge_int_float by exact H.
  destruct (cmp_Z_f_some k f H) as [c Ec].
  unfold py_le, py_ge, py_ord, strict2, ord_cmp, num_of, num_cmp. rewrite Ec.
  destruct c; reflexivity.
Qed.

(* validate_threshold: `threshold < 0` is False (EDIT_DISTANCE) iff floor f >= 0;
   `threshold <= 0` is False (OVERLAP) iff ceil f >= 1 *)
Corollary ed_threshold_valid_floor f : f_is_finite f = true ->
  (py_truth (py_lt (PFloat f) (PInt 0)) = false <-> 0 <= f_floor f).
Proof.
  intros H. rewrite py_lt_float_int by exact H. cbn [py_truth].
  destruct (Z.ltb_spec (f_floor f) 0); split; intros; try lia; congruence.
Qed.
Corollary ov_threshold_valid_ceil f : f_is_finite f = true ->
  (py_truth (py_le (PFloat f) (PInt 0)) = false <-> 1 <= f_ceil f).
Proof.
  intros H. rewrite py_le_float_int by exact H. cbn [py_truth].
  destruct (Z.leb_spec (f_ceil f) 0); split; intros; try lia; congruence.
Qed.

(* ====================================================================== examples *)
Definition f_2_0 : f64 := mkF 2 0.                         (* 2.0 *)
Definition f_1_5 : f64 := mkF 3 (-1).                      (* 1.5 *)
Definition f_0_5 : f64 := mkF 1 (-1).                      (* 0.5 *)

(* the four formulas at float thresholds return ints: nothing float leaks into range()/slices *)
Example ed_formulas_2_0 :
  g_lb (edpf 2 f_2_0) 7 = PInt 5 /\ g_ub (edpf 2 f_2_0) 7 = PInt 9 /\
  g_pl (edpf 2 f_2_0) 7 = PInt 5 /\ g_ot (edpf 2 f_2_0) 7 9 = PInt 5.
Proof. vm_compute. repeat split; reflexivity. Qed.
Example ed_formulas_1_5 :
  g_lb (edpf 2 f_1_5) 7 = PInt 6 /\ g_ub (edpf 2 f_1_5) 7 = PInt 8 /\
  g_pl (edpf 2 f_1_5) 7 = PInt 3 /\ g_ot (edpf 2 f_1_5) 7 9 = PInt 7.
Proof. vm_compute. repeat split; reflexivity. Qed.
Example ov_formulas_2_0 :
  g_lb (ovpf f_2_0 2) 7 = PInt 2 /\ g_ub (ovpf f_2_0 2) 7 = py_maxsize /\
  g_pl (ovpf f_2_0 2) 7 = PInt 6 /\ g_ot (ovpf f_2_0 2) 7 9 = PInt 2.
Proof. vm_compute. repeat split; reflexivity. Qed.
Example ov_formulas_1_5 :
  g_lb (ovpf f_1_5 2) 7 = PInt 2 /\ g_ub (ovpf f_1_5 2) 7 = py_maxsize /\
  g_pl (ovpf f_1_5 2) 7 = PInt 6 /\ g_ot (ovpf f_1_5 2) 7 9 = PInt 2.
Proof. vm_compute. repeat split; reflexivity. Qed.
Example ov_formulas_0_5 :
  g_lb (ovpf f_0_5 2) 7 = PInt 1 /\ g_pl (ovpf f_0_5 2) 7 = PInt 7 /\ g_ot (ovpf f_0_5 2) 7 9 = PInt 1.
Proof. vm_compute. repeat split; reflexivity. Qed.
(* the generated functions themselves, on the raw arguments *)
Example gen_formulas_float :
  get_size_lower_bound (PInt 7) (PStr "EDIT_DISTANCE") (PFloat f_1_5) = PInt 6 /\
  get_size_upper_bound (PInt 7) (PStr "EDIT_DISTANCE") (PFloat f_2_0) = PInt 9 /\
  get_prefix_length (PInt 7) (PStr "EDIT_DISTANCE") (PFloat f_1_5) (PInt 2) = PInt 3 /\
  get_overlap_threshold (PInt 7) (PInt 9) (PStr "EDIT_DISTANCE") (PFloat f_1_5) (PInt 2) = PInt 7 /\
  get_size_lower_bound (PInt 7) (PStr "OVERLAP") (PFloat f_1_5) = PInt 2 /\
  get_prefix_length (PInt 7) (PStr "OVERLAP") (PFloat f_1_5) (PInt 2) = PInt 6 /\
  get_overlap_threshold (PInt 7) (PInt 9) (PStr "OVERLAP") (PFloat f_2_0) (PInt 2) = PInt 2.
Proof. vm_compute. repeat split; reflexivity. Qed.
(* the old formulas are what an int threshold still gives *)
Example gen_formulas_int :
  get_size_lower_bound (PInt 7) (PStr "EDIT_DISTANCE") (PInt 2) = PInt 5 /\
  get_prefix_length (PInt 7) (PStr "OVERLAP") (PInt 2) (PInt 2) = PInt 6.
Proof. vm_compute. split; reflexivity. Qed.
(* non-finite thresholds raise what CPython's floor()/ceil() raise *)
Example gen_formulas_nonfinite :
  get_size_lower_bound (PInt 7) (PStr "EDIT_DISTANCE") (PFloat S754_nan) = ValueError /\
  get_size_lower_bound (PInt 7) (PStr "OVERLAP") (PFloat (S754_infinity false)) = OverflowError.
Proof. vm_compute. split; reflexivity. Qed.
Example cmp_float_ex :
  py_le (PInt 1) (PFloat f_1_5) = PBool true /\ py_le (PInt 2) (PFloat f_1_5) = PBool false /\
  py_ge (PInt 2) (PFloat f_1_5) = PBool true /\ py_ge (PInt 1) (PFloat f_1_5) = PBool false /\
  f_floor f_1_5 = 1 /\ f_ceil f_1_5 = 2 /\ f_floor f_2_0 = 2 /\ f_ceil f_2_0 = 2.
Proof. vm_compute. repeat split; reflexivity. Qed.

Print Assumptions norm_floor_idem.
Print Assumptions get_pl_ed_idem.
Print Assumptions get_pl_ov_idem.
Print Assumptions fp_agree_ed_float.
Print Assumptions fp_agree_ov_float.
Print Assumptions agree_size_filter_pair.
Print Assumptions agree_prefix_filter_pair.
Print Assumptions agree_position_filter_pair.
Print Assumptions agree_pos_cand.
Print Assumptions agree_suffix_filter_pair.
Print Assumptions cmp_Z_f_floor.
Print Assumptions cmp_Z_f_ceil.
Print Assumptions py_le_int_float.
Print Assumptions py_ge_int_float.
Print Assumptions ed_threshold_valid_floor.
Print Assumptions ov_threshold_valid_ceil.
