(* Code-level RELATIONAL property theorems, part 7: C07 (join = filter_tables ; apply_matcher), second half:
   the residual hypothesis `matcher_view_link` of CodeLevelRel5.C07_code_pipeline_jcd_partial is discharged for the
   GENERATED apply_matcher_rows (Gen/MatcherGen.v) applied to the frame returned by the GENERATED
   size/prefix/position_filter_tables_rows, through CodeLevelMatcher.C05_code_apply_matcher_rows / C05_code_keep.

   `PipeLink`: on a candidate frame whose rows name keys of the two tables, the key-level view of the frame
   apply_matcher_rows returns is  map (gpS jc m) (filter (kpS jc m) (view of the candidate frame))  when the
   similarity parameter is the measure's raw score on the tokenizer's lists (HsimEq: sim_function o tokenizer =
   matcher_raw_score on the token abstraction).
   `C07_code_pipeline_jcd`: pipeline_spec between the view of the frame of the generated JACCARD / COSINE / DICE
   join wrapper and the view of the frame of  apply_matcher_rows (X_filter_tables_rows ...).
   RESIDUAL hypotheses (facts about the frame the filter returns that the published end-to-end statement
   end_to_end_flat does not expose): (R1) every row of the candidate frame has as many cells as its header and
   no exception cell; plus |left| * |right| < 2^31 (the candidate set fits the matcher's chunking), and the hypotheses of C05 about the key abstraction
   (kz / zk agree with == on the key cells), scalar join values and a total tokenizer / similarity.          *)
From Coq Require Import ZArith Bool List String Lia Permutation PeanoNat.
From SSJ Require Import F64 PyNum FilterUtilsGen HelperGen TokenOrderingGen ValidationGen IndexGen JoinGen
     TokenOrdering Measures Filters Joins Api Matcher MatcherFacts MatcherChunks JoinSpec MetaSpec
     Projection ProjSpec IndexPyFacts ProjectionFacts
     JoinGenFacts JoinGenLoop JoinRefine JoinRefineProj SplitFacts Frame WrapperGen FilterWrapperGen MatcherGen
     WrapperRefineFrame WrapperRefineMissing WrapperRefineCore WrapperRefineChunks WrapperRefine WrapperRefineClosed
     WrapperRefineApi WrapperRefineEnd WrapperBody WrapperApiLink WrapperEnd
     FilterWrapperRefine FilterPairRefineBase MatcherRefineBase MatcherRefineLoop MatcherRefineBridge MatcherRefineEnd
     OrderingFacts OverlapFacts OverlapMeasure ValidationFacts
     ApiLift ApiJoinBase ApiJoinPairs ApiJoinSpec ApiFilterTables ApiFilterClosed
     LawsBase LawsScore LawsSpec Laws LawsPipe ModelScores ModelArith ModelLaws ModelPipe
     CodeLevelBase CodeLevelJoins CodeLevelJoins2 CodeLevelFilters CodeLevelMatcher CodeLevelTight
     CodeLevelRelBase CodeLevelRelCalls CodeLevelRel CodeLevelRel4 CodeLevelRel5.
Import ListNotations.
Open Scope string_scope.
Open Scope list_scope.
Open Scope Z_scope.

(* ------------------------------------------------------------------ small facts *)
Lemma map_filter_link {A B C D} (h : A -> B) (K : B -> bool) (G : B -> D) (f : A -> C) (k : C -> bool) (g : C -> D)
      (l : list A) :
  (forall x, In x l -> K (h x) = k (f x)) ->
  (forall x, In x l -> k (f x) = true -> G (h x) = g (f x)) ->
  map G (filter K (map h l)) = map g (filter k (map f l)).
Proof.
  induction l as [|x l IH]; intros H1 H2; [reflexivity|]. cbn [map filter].
  rewrite (H1 x (or_introl eq_refl)).
  pose proof (IH (fun y Hy => H1 y (or_intror Hy)) (fun y Hy => H2 y (or_intror Hy))) as IH'.
  destruct (k (f x)) eqn:E; [|exact IH']. cbn [map]. now rewrite (H2 x (or_introl eq_refl) E), IH'.
Qed.

Lemma posn_1 a b X : a <> b -> posn b (a :: b :: X) = 1%nat.
Proof.
  intros H. unfold posn. cbn [pos_of]. destruct (String.eqb_spec a b) as [E|_]; [contradiction|].
  now rewrite String.eqb_refl.
Qed.
Lemma posn_2 a b d X : a <> d -> b <> d -> posn d (a :: b :: d :: X) = 2%nat.
Proof.
  intros H1 H2. unfold posn. cbn [pos_of]. destruct (String.eqb_spec a d) as [E|_]; [contradiction|].
  destruct (String.eqb_spec b d) as [E|_]; [contradiction|]. now rewrite String.eqb_refl.
Qed.

Lemma nan_absent_cmp op s t : lower_op op -> cmp_op op s t = true -> nan_absent s = s.
Proof.
  intros Hop H. destruct s as [z|f|x|b| |l|l|l|e]; try reflexivity.
  pose proof (cmp_true_same_float op f t Hop H) as S. cbn [nan_absent].
  now rewrite (score_same_not_nan f _ S).
Qed.

Lemma kview_proj_row c kz (id a b : pyval) (X : list pyval) (z : pyval) : p_score c = true ->
  kview c kz (tl ((id :: a :: b :: X) ++ [z])) = (kz a, kz b, nan_absent z).
Proof.
  intros H. unfold kview. rewrite H. change (tl ((id :: a :: b :: X) ++ [z])) with ((a :: b :: X) ++ [z]).
  rewrite last_snoc. reflexivity.
Qed.

(* ================================================================== the view of the matcher's frame *)
Section PipeLink.
  Variables (c : pcase) (lsrc rsrc csrc : list (list pyval)).
  Variables (op : string) (am : bool) (t tokv : pyval) (m : string).
  Variables (tokenize : pyval -> pyval) (sim_fn : pyval -> pyval -> pyval).
  Variables (toks : pyval -> list Z) (kz : pyval -> Z) (zk : Z -> pyval).
  Variable jc : jcase.

  Let cF : pcase := noscore_pcase c.
  Let cc : list string := header_spec cF.
  Let clk : string := (p_lpre c ++ p_lkey c)%string.
  Let crk : string := (p_rpre c ++ p_rkey c)%string.

  Hypothesis Hsc : p_score c = true.
  Hypothesis HjL : j_L jc = map (arowLs c toks (fun _ => []) kz) lsrc.
  Hypothesis HjR : j_R jc = map (arowRs c toks (fun _ => []) kz) rsrc.
  Hypothesis Hjop : j_op jc = op.
  Hypothesis Hjt : j_t jc = t.
  Hypothesis Hjam : j_allow_missing jc = am.
  Hypothesis Hlow : lower_op op.
  Hypothesis HndL : NoDup (map (fun row => kz (lkeyc c row)) lsrc).
  Hypothesis HndR : NoDup (map (fun row => kz (rkeyc c row)) rsrc).
  Hypothesis HidF : ~ In "_id" (mv_header cF).
  Hypothesis Hdist : clk <> crk.
  Hypothesis Hzk : forall crow, In crow csrc ->
    zk (kz (clkc cc clk crow)) = clkc cc clk crow /\ zk (kz (crkc cc crk crow)) = crkc cc crk crow.
  (* sim_function on the (tokenized) join values IS the measure's raw score on their token lists *)
  Hypothesis HsimEq : forall lrow rrow, In lrow lsrc -> In rrow rsrc ->
    cell_missing (lvalc c lrow) = false -> cell_missing (rvalc c rrow) = false ->
    sim_fn (e_tk tokv tokenize (lvalc c lrow)) (e_tk tokv tokenize (rvalc c rrow))
    = matcher_raw_score m (toks (lvalc c lrow)) (toks (rvalc c rrow)).
  (* every candidate row names keys of the two tables *)
  Hypothesis Hview : forall crow, In crow csrc ->
    exists l r, JoinSpec.find_row (fst (fst (kview cF kz (tl crow)))) (j_L jc) = Some l /\
                JoinSpec.find_row (snd (fst (kview cF kz (tl crow)))) (j_R jc) = Some r.

  Lemma hdr_shape : exists X, cc = "_id" :: clk :: crk :: X.
  Proof. eexists. reflexivity. Qed.

  Lemma hdr_neq : "_id" <> clk /\ "_id" <> crk.
  Proof using HidF.
    destruct hdr_shape as (X & EX).
    assert (E : mv_header cF = clk :: crk :: X).
    { assert (E2 : tl cc = mv_header cF) by (unfold cc; rewrite (mv_header_spec cF); reflexivity).
      rewrite EX in E2. cbn [tl] in E2. symmetry. exact E2. }
    rewrite E in HidF. split; intros H; apply HidF; [left | right; left]; now symmetry.
  Qed.

  Lemma cand_lk crow : clkc cc clk crow = nth 1 crow PNone.
  Proof using HidF.
    destruct hdr_shape as (X & EX). unfold clkc, cellv. rewrite EX, (posn_1 "_id" clk _ (proj1 hdr_neq)). reflexivity.
  Qed.
  Lemma cand_rk crow : crkc cc crk crow = nth 2 crow PNone.
  Proof using HidF Hdist.
    destruct hdr_shape as (X & EX). unfold crkc, cellv. rewrite EX, (posn_2 "_id" clk crk _ (proj2 hdr_neq) Hdist). reflexivity.
  Qed.

  Lemma cand_view crow :
    kview cF kz (tl crow) = (kz (clkc cc clk crow), kz (crkc cc crk crow), PNone).
  Proof using HidF Hdist.
    rewrite cand_lk, cand_rk. unfold kview. cbn [cF noscore_pcase p_score].
    destruct crow as [|x [|y [|z r]]]; reflexivity.
  Qed.

  (* the source rows behind the model rows a candidate names *)
  Lemma srcL l k : JoinSpec.find_row k (j_L jc) = Some l ->
    exists lrow, In lrow lsrc /\ kz (lkeyc c lrow) = k /\
      present l = negb (cell_missing (lvalc c lrow)) /\
      (cell_missing (lvalc c lrow) = false -> toks_of l = toks (lvalc c lrow)).
  Proof using HjL.
    intros Hf. destruct (LawsBase.find_row_some _ _ _ Hf) as [Hin Ek]. rewrite HjL in Hin.
    apply in_map_iff in Hin. destruct Hin as (lrow & <- & Hl). exists lrow. split; [exact Hl|].
    split; [exact Ek|]. rewrite presentLs. unfold present_row. fold (lvalc c lrow). split; [reflexivity|].
    intros Hm. unfold toks_of, arowLs. cbn [snd]. unfold present_row. fold (lvalc c lrow). now rewrite Hm.
  Qed.
  Lemma srcR r k : JoinSpec.find_row k (j_R jc) = Some r ->
    exists rrow, In rrow rsrc /\ kz (rkeyc c rrow) = k /\
      present r = negb (cell_missing (rvalc c rrow)) /\
      (cell_missing (rvalc c rrow) = false -> toks_of r = toks (rvalc c rrow)).
  Proof using HjR.
    intros Hf. destruct (LawsBase.find_row_some _ _ _ Hf) as [Hin Ek]. rewrite HjR in Hin.
    apply in_map_iff in Hin. destruct Hin as (rrow & <- & Hr). exists rrow. split; [exact Hr|].
    split; [exact Ek|]. rewrite presentRs. unfold present_row. fold (rvalc c rrow). split; [reflexivity|].
    intros Hm. unfold toks_of, arowRs. cbn [snd]. unfold present_row. fold (rvalc c rrow). now rewrite Hm.
  Qed.

  Let candf (crow : list pyval) : Matcher.crow := (nth 0 crow PNone, kz (clkc cc clk crow), kz (crkc cc crk crow)).
  Let keepM : Matcher.crow -> bool := cm_keep c lsrc rsrc op am t tokv tokenize sim_fn kz.
  Let outM : Matcher.crow -> pyval * Z * Z * pyval :=
    out (cm_sim c lsrc rsrc tokv tokenize sim_fn) (p_score c) (cm_L c lsrc kz) (cm_R c rsrc kz).

  Lemma link_keep crow : In crow csrc -> keepM (candf crow) = kpS jc m (kview cF kz (tl crow)).
  Proof using Hjop Hjt Hjam HjL HjR HndL HndR HidF Hdist HsimEq Hview.
    intros Hc. destruct (Hview crow Hc) as (l & r & Fl & Fr).
    unfold kpS. rewrite Fl, Fr. rewrite cand_view in Fl, Fr. cbn [fst snd] in Fl, Fr.
    destruct (srcL l _ Fl) as (lrow & Hl & El & Pl & Tl). destruct (srcR r _ Fr) as (rrow & Hr & Er & Pr & Tr).
    unfold keepM, candf.
    rewrite (C05_code_keep c cc clk crk lsrc rsrc op am t tokv tokenize sim_fn kz HndL HndR crow lrow rrow Hl Hr El Er).
    rewrite Pl, Pr, Hjop, Hjt, Hjam.
    destruct (cell_missing (lvalc c lrow)) eqn:Ml; [reflexivity|].
    destruct (cell_missing (rvalc c rrow)) eqn:Mr; [reflexivity|]. cbn [orb negb andb].
    rewrite (Tl eq_refl), (Tr eq_refl), (HsimEq lrow rrow Hl Hr Ml Mr). reflexivity.
  Qed.

  Lemma link_out crow : In crow csrc -> kpS jc m (kview cF kz (tl crow)) = true ->
    kview c kz (tl (e_proj c lsrc rsrc kz zk (outM (candf crow)))) = gpS jc m (kview cF kz (tl crow)).
  Proof using Hsc Hjop Hjt Hjam Hlow HjL HjR HndL HndR HidF Hdist Hzk HsimEq Hview.
    intros Hc Hk. destruct (Hview crow Hc) as (l & r & Fl & Fr).
    unfold kpS in Hk. unfold gpS. rewrite Fl, Fr in *. rewrite cand_view in *. cbn [fst snd] in *.
    destruct (srcL l _ Fl) as (lrow & Hl & El & Pl & Tl). destruct (srcR r _ Fr) as (rrow & Hr & Er & Pr & Tr).
    destruct (src_lookup (p_lcols c) (p_lkey c) (p_ljoin c) lsrc kz lrow HndL Hl) as (i & Ei & Li).
    destruct (src_lookup (p_rcols c) (p_rkey c) (p_rjoin c) rsrc kz rrow HndR Hr) as (j & Ej & Lj).
    fold (lkeyc c lrow) in Li. fold (rkeyc c rrow) in Lj. fold (lvalc c lrow) in Li. fold (rvalc c rrow) in Lj.
    rewrite El in Li. rewrite Er in Lj.
    destruct (Hzk crow Hc) as (Zl & Zr).
    (* the projection finds the two source rows *)
    assert (FL : find (fun row => kz (lkeyc c row) =? kz (clkc cc clk crow)) lsrc = Some lrow).
    { rewrite <- El. exact (find_unique_key (fun row => kz (lkeyc c row)) lsrc lrow HndL Hl). }
    assert (FR : find (fun row => kz (rkeyc c row) =? kz (crkc cc crk crow)) rsrc = Some rrow).
    { rewrite <- Er. exact (find_unique_key (fun row => kz (rkeyc c row)) rsrc rrow HndR Hr). }
    unfold outM, candf, out, cm_L, cm_R, e_L, e_R. rewrite Li, Lj. rewrite Pl, Pr in *.
    destruct (cell_missing (lvalc c lrow)) eqn:Ml.
    { cbn [negb andb] in *. unfold e_proj. rewrite FL, FR, Hsc, Ml. cbn [orb].
      rewrite (kview_proj_row c kz _ _ _ _ _ Hsc), Zl, Zr. reflexivity. }
    destruct (cell_missing (rvalc c rrow)) eqn:Mr.
    { cbn [negb andb] in *. unfold e_proj. rewrite FL, FR, Hsc, Ml, Mr. cbn [orb].
      rewrite (kview_proj_row c kz _ _ _ _ _ Hsc), Zl, Zr. reflexivity. }
    cbn [negb andb] in *. unfold e_proj. rewrite FL, FR, Hsc, Ml, Mr. cbn [orb].
    rewrite (kview_proj_row c kz _ _ _ _ _ Hsc), Zl, Zr.
    unfold cm_sim, e_sim. rewrite !Nat2Z.id, Ei, Ej, (HsimEq lrow rrow Hl Hr Ml Mr).
    rewrite (Tl eq_refl), (Tr eq_refl) in *. rewrite Hjop, Hjt in Hk.
    now rewrite (nan_absent_cmp op _ t Hlow Hk).
  Qed.

  (* the key-level view of the rows the matcher returns = the matcher stage over the view of the candidates *)
  Theorem pipe_view_link :
    map (kview c kz) (map (@tl pyval) (map (e_proj c lsrc rsrc kz zk) (map outM (filter keepM (cm_cand cc clk crk csrc kz)))))
    = map (gpS jc m) (filter (kpS jc m) (map (kview cF kz) (map (@tl pyval) csrc))).
  Proof using All.
    rewrite !map_map. unfold cm_cand, e_cand.
    exact (map_filter_link candf keepM (fun x => kview c kz (tl (e_proj c lsrc rsrc kz zk (outM x))))
             (fun crow => kview cF kz (tl crow)) (kpS jc m) (gpS jc m) csrc link_keep link_out).
  Qed.
End PipeLink.


(* ================================================================== C07 on the generated code, J / C / D *)
Section PipelineJcdFull.
  Variables (c : pcase) (m : string) (t : f64) (q : Z) (op : string) (ae am : bool).
  Variables (njJ cpJ njF cpF njM cpM : Z) (k : fkind) (aeF : bool).
  Variables (lsrc rsrc : list (list pyval)) (showpJ showpF showpM : pyval).
  Variables (tokenize : pyval -> pyval) (sim_fn : pyval -> pyval -> pyval).      (* of the join and the filter *)
  Variables (tokv : pyval) (tokenizeM : pyval -> pyval) (simM : pyval -> pyval -> pyval).   (* of the matcher *)
  Variables (toks : pyval -> list Z) (cf : pyval -> pyval -> pyval) (kz : pyval -> Z) (zk : Z -> pyval).

  Let p : fparams := {| fm := m; ft := PFloat t; fq := q |}.
  Let cF : pcase := noscore_pcase c.
  Let cc : list string := header_spec cF.
  Let clk : string := (p_lpre c ++ p_lkey c)%string.
  Let crk : string := (p_rpre c ++ p_rkey c)%string.
  (* the candidate set: the frame the generated filter_tables returns *)
  Let lhsF : pyval := jcd_filter_frame c m t q am njF cpF k aeF lsrc rsrc showpF tokenize.
  Let csrc : list (list pyval) := frame_rows_of lhsF.

  (* the three calls: the join; apply_matcher on (filter_tables ...), the candidate set's key columns named as
     filter_tables names them, the same tables / key / join attributes / threshold / operator / allow_missing *)
  Definition jcd_pipe_frame : pyval :=
    apply_matcher_rows lhsF (PStr clk) (PStr crk) (sframe (p_lcols c) lsrc) (sframe (p_rcols c) rsrc)
      (PStr (p_lkey c)) (PStr (p_rkey c)) (PStr (p_ljoin c)) (PStr (p_rjoin c)) tokv (PFloat t) (PStr op) (PBool am)
      (py_opt_strs (p_lout c)) (py_opt_strs (p_rout c)) (PStr (p_lpre c)) (PStr (p_rpre c)) (PBool (p_score c))
      (PInt njM) showpM (PInt cpM) tokenizeM simM.

  (* the join call, the filter call (as in C07_code_pipeline_jcd_partial) *)
  Hypothesis HJ : jcd_call_hyps c p op lsrc rsrc tokenize sim_fn toks cf kz.
  Hypothesis Hsc : p_score c = true.
  Hypothesis Hk : k3 k.
  Hypothesis HlenRt : Z.of_nat (List.length rsrc) < 2^31.
  (* RESIDUAL (R1): the shape of the candidate frame *)
  Hypothesis HcsrcOk : forall row, In row csrc -> List.length row = List.length cc /\ ProjSpec.row_ok row.
  (* the candidate set fits apply_matcher's chunking envelope (at most one candidate per pair of rows) *)
  Hypothesis Hsmall : Z.of_nat (List.length lsrc) * Z.of_nat (List.length rsrc) < 2^31.
  (* the two prefixed key columns of the candidate set have different names *)
  Hypothesis Hdist : clk <> crk.
  (* the hypotheses of C05 (MatcherRefineEnd.apply_matcher_rows_end_to_end) that do not follow from the above *)
  Hypothesis Htokv : is_exc tokv = false.
  Hypothesis HkzL : forall row v, In row lsrc -> In v (map (lkeyc c) lsrc ++ map (clkc cc clk) csrc) ->
    pv_eqb (lkeyc c row) v = (kz (lkeyc c row) =? kz v).
  Hypothesis HkzR : forall row v, In row rsrc -> In v (map (rkeyc c) rsrc ++ map (crkc cc crk) csrc) ->
    pv_eqb (rkeyc c row) v = (kz (rkeyc c row) =? kz v).
  Hypothesis Hzk : forall v, In v (map (lkeyc c) lsrc ++ map (rkeyc c) rsrc ++ map (clkc cc clk) csrc ++ map (crkc cc crk) csrc) ->
    zk (kz v) = v.
  Hypothesis HscalL : forall row, In row lsrc -> scalar (lvalc c row).
  Hypothesis HscalR : forall row, In row rsrc -> scalar (rvalc c row).
  Hypothesis HtokL : m_tokb tokv = true -> forall row, In row lsrc -> cell_missing (lvalc c row) = false ->
    is_exc (tokenizeM (lvalc c row)) = false.
  Hypothesis HtokR : m_tokb tokv = true -> forall row, In row rsrc -> cell_missing (rvalc c row) = false ->
    is_exc (tokenizeM (rvalc c row)) = false.
  Hypothesis Hsim : forall lrow rrow, In lrow lsrc -> In rrow rsrc ->
    cell_missing (lvalc c lrow) = false -> cell_missing (rvalc c rrow) = false ->
    is_exc (simM (e_tk tokv tokenizeM (lvalc c lrow)) (e_tk tokv tokenizeM (rvalc c rrow))) = false /\
    is_exc (cf (simM (e_tk tokv tokenizeM (lvalc c lrow)) (e_tk tokv tokenizeM (rvalc c rrow))) (PFloat t)) = false.
  (* the similarity parameter of apply_matcher is the measure's raw score on the tokenizer's lists *)
  Hypothesis HsimEq : forall lrow rrow, In lrow lsrc -> In rrow rsrc ->
    cell_missing (lvalc c lrow) = false -> cell_missing (rvalc c rrow) = false ->
    simM (e_tk tokv tokenizeM (lvalc c lrow)) (e_tk tokv tokenizeM (rvalc c rrow))
    = matcher_raw_score m (toks (lvalc c lrow)) (toks (rvalc c rrow)).

  Theorem C07_code_pipeline_jcd :
    pipeline_spec (jcd_jcase c p op ae am njJ cpJ lsrc rsrc toks kz)
      (code_view c kz (jcd_join_frame c m t q op ae am njJ cpJ lsrc rsrc showpJ tokenize sim_fn))
      (code_view c kz jcd_pipe_frame) = true.
  Proof using All.
    apply (C07_code_pipeline_jcd_partial c c m t q op ae am njJ cpJ njF cpF k aeF lsrc rsrc showpJ showpF
             tokenize sim_fn toks cf kz HJ Hsc Hk HlenRt).
    unfold matcher_view_link. fold p cF lhsF.
    set (jc := jcd_jcase c p op ae am njJ cpJ lsrc rsrc toks kz).
    pose proof (jcd_call_valid c p op ae am njJ cpJ lsrc rsrc tokenize sim_fn toks cf kz HJ) as Hv.
    destruct HJ as ((Hwf & Hl & Hr & HtL' & HtR' & Hm & Hvt & Hvop & Hvout & Hop & Hid) & Hn & Hsim' & Hthr & Hkeys & Hset).
    assert (Hj : is_jcd m = true) by exact (set_measure_jcd m Hm).
    assert (Henv : env_t t = true).
    { destruct Hthr as (t' & Et & Henv). injection Et as <-. exact Henv. }
    assert (HidF : ~ In "_id" (mv_header cF)) by (intros X; apply Hid; exact (mv_header_noscore c "_id" X)).
    assert (Hlow : lower_op op) by exact (lower_op_of_valid op m (set_measure_not_ed _ Hm) Hvop).
    destruct Hkeys as (HndL & HndR).
    (* the filter's frame *)
    pose proof (C04_code_filter_tables_jcd cF op aeF am njF cpF lsrc rsrc showpF tokenize toks kz
                  (well_formed_noscore c Hwf) eq_refl Hl Hr HtL' HtR' Hvout HidF HlenRt (conj HndL HndR) Hset m t q k Hk Hj Henv) as HF.
    cbv zeta in HF. apply proj2 in HF. destruct HF as (rowsF & EF & (_ & F2 & _)).
    change (flt_call cF {| fm := m; ft := PFloat t; fq := q |} aeF am njF cpF lsrc rsrc showpF tokenize k) with lhsF in EF.
    fold cc in EF.
    assert (Ecs : csrc = numbered rowsF) by (unfold csrc; rewrite EF; apply frame_rows_sframe).
    assert (Hncand : Z.of_nat (List.length csrc) < 2^31).
    { rewrite Ecs, numbered_length, <- (map_length (kview cF kz) rowsF).
      pose proof (st_cands_length jc (flt_code_jcase cF p op aeF am njF cpF lsrc rsrc toks (fun _ => []) kz k) k m _
                    ltac:(repeat split) F2) as X.
      change (j_L jc) with (map (arowLs c toks (fun _ => []) kz) lsrc) in X.
      change (j_R jc) with (map (arowRs c toks (fun _ => []) kz) rsrc) in X.
      rewrite !map_length in X. rewrite map_length. lia. }
    (* every candidate row names keys of the tables *)
    assert (Hview : forall crow, In crow csrc ->
              exists l r, JoinSpec.find_row (fst (fst (kview cF kz (tl crow)))) (j_L jc) = Some l /\
                          JoinSpec.find_row (snd (fst (kview cF kz (tl crow)))) (j_R jc) = Some r).
    { intros crow Hc.
      assert (Hin : In (kview cF kz (tl crow)) (map (kview cF kz) rowsF)).
      { rewrite <- (numbered_tl rowsF), <- Ecs, map_map. apply in_map_iff. exists crow. split; [reflexivity | exact Hc]. }
      destruct (st_view jc (flt_code_jcase cF p op aeF am njF cpF lsrc rsrc toks (fun _ => []) kz k) k m _
                  ltac:(repeat split) F2 _ Hin) as (l & r & Fl & Fr & _). exists l, r. split; assumption. }
    assert (HzkC : forall crow, In crow csrc ->
              zk (kz (clkc cc clk crow)) = clkc cc clk crow /\ zk (kz (crkc cc crk crow)) = crkc cc crk crow).
    { intros crow Hc. split; apply Hzk; apply in_or_app; right; apply in_or_app; right; apply in_or_app;
        [left | right]; apply in_map; exact Hc. }
    assert (Hfound : forall crow, In crow csrc ->
              In (kz (clkc cc clk crow)) (map (fun row => kz (lkeyc c row)) lsrc) /\
              In (kz (crkc cc crk crow)) (map (fun row => kz (rkeyc c row)) rsrc)).
    { intros crow Hc. destruct (Hview crow Hc) as (l & r & Fl & Fr).
      rewrite (cand_view c kz HidF Hdist crow : kview cF kz (tl crow) = (kz (clkc cc clk crow), kz (crkc cc crk crow), PNone)) in Fl, Fr.
      cbn [fst snd] in Fl, Fr.
      destruct (srcL c lsrc toks kz jc eq_refl l _ Fl) as (lrow & Hlr & El & _).
      destruct (srcR c rsrc toks kz jc eq_refl r _ Fr) as (rrow & Hrr & Er & _).
      split; apply in_map_iff; [exists lrow | exists rrow]; split; assumption. }
    (* the matcher's frame *)
    assert (EM : jcd_pipe_frame = cm_call c cc clk crk lsrc rsrc csrc op am (PFloat t) tokv showpM njM cpM tokenizeM simM).
    { unfold jcd_pipe_frame, cm_call. rewrite EF at 1. rewrite Ecs. reflexivity. }
    rewrite EM.
    rewrite (C05_code_apply_matcher_rows c cc clk crk lsrc rsrc csrc op cf am (PFloat t) tokv showpM njM cpM tokenizeM simM kz zk
               Hwf ltac:(right; left; reflexivity) ltac:(right; right; left; reflexivity) Hl Hr HcsrcOk Hvout Hop Htokv Hncand
               HndL HndR HkzL HkzR Hzk Hfound HscalL HscalR HtokL HtokR Hsim).
    unfold code_view at 1. rewrite frame_rows_sframe.
    exact (pipe_view_link c lsrc rsrc csrc op am (PFloat t) tokv m tokenizeM simM toks kz zk jc
             Hsc eq_refl eq_refl eq_refl eq_refl eq_refl Hlow HndL HndR HidF Hdist HzkC HsimEq Hview).
  Qed.
End PipelineJcdFull.

(* the FULL statement (no residual hypothesis about the candidate frame): C07_code_pipeline_jcd without (R1).
   Not proved here: (R1) is a fact about the rows the generated filter_tables returns (each is header-long and
   free of exception cells) that WrapperBody.body_eval establishes per chunk (`shaped`) but that
   body_result / end_to_end_flat -- the published end-to-end statements -- do not keep. *)
Definition C07_code_pipeline_jcd_stmt : Prop :=
  forall (c : pcase) (m : string) (t : f64) (q : Z) (op : string) (ae am : bool)
         (njJ cpJ njF cpF njM cpM : Z) (k : fkind) (aeF : bool) (lsrc rsrc : list (list pyval))
         (showpJ showpF showpM : pyval) (tokenize : pyval -> pyval) (sim_fn : pyval -> pyval -> pyval)
         (tokv : pyval) (tokenizeM : pyval -> pyval) (simM : pyval -> pyval -> pyval)
         (toks : pyval -> list Z) (cf : pyval -> pyval -> pyval) (kz : pyval -> Z) (zk : Z -> pyval),
  let p := {| fm := m; ft := PFloat t; fq := q |} in
  let cc := header_spec (noscore_pcase c) in
  let clk := (p_lpre c ++ p_lkey c)%string in
  let crk := (p_rpre c ++ p_rkey c)%string in
  let csrc := frame_rows_of (jcd_filter_frame c m t q am njF cpF k aeF lsrc rsrc showpF tokenize) in
  jcd_call_hyps c p op lsrc rsrc tokenize sim_fn toks cf kz ->
  p_score c = true -> k3 k -> Z.of_nat (List.length rsrc) < 2^31 ->
  Z.of_nat (List.length lsrc) * Z.of_nat (List.length rsrc) < 2^31 ->
  clk <> crk -> is_exc tokv = false ->
  (forall row v, In row lsrc -> In v (map (lkeyc c) lsrc ++ map (clkc cc clk) csrc) ->
     pv_eqb (lkeyc c row) v = (kz (lkeyc c row) =? kz v)) ->
  (forall row v, In row rsrc -> In v (map (rkeyc c) rsrc ++ map (crkc cc crk) csrc) ->
     pv_eqb (rkeyc c row) v = (kz (rkeyc c row) =? kz v)) ->
  (forall v, In v (map (lkeyc c) lsrc ++ map (rkeyc c) rsrc ++ map (clkc cc clk) csrc ++ map (crkc cc crk) csrc) ->
     zk (kz v) = v) ->
  (forall row, In row lsrc -> scalar (lvalc c row)) ->
  (forall row, In row rsrc -> scalar (rvalc c row)) ->
  (m_tokb tokv = true -> forall row, In row lsrc -> cell_missing (lvalc c row) = false ->
     is_exc (tokenizeM (lvalc c row)) = false) ->
  (m_tokb tokv = true -> forall row, In row rsrc -> cell_missing (rvalc c row) = false ->
     is_exc (tokenizeM (rvalc c row)) = false) ->
  (forall lrow rrow, In lrow lsrc -> In rrow rsrc ->
     cell_missing (lvalc c lrow) = false -> cell_missing (rvalc c rrow) = false ->
     is_exc (simM (e_tk tokv tokenizeM (lvalc c lrow)) (e_tk tokv tokenizeM (rvalc c rrow))) = false /\
     is_exc (cf (simM (e_tk tokv tokenizeM (lvalc c lrow)) (e_tk tokv tokenizeM (rvalc c rrow))) (PFloat t)) = false) ->
  (forall lrow rrow, In lrow lsrc -> In rrow rsrc ->
     cell_missing (lvalc c lrow) = false -> cell_missing (rvalc c rrow) = false ->
     simM (e_tk tokv tokenizeM (lvalc c lrow)) (e_tk tokv tokenizeM (rvalc c rrow))
     = matcher_raw_score m (toks (lvalc c lrow)) (toks (rvalc c rrow))) ->
  pipeline_spec (jcd_jcase c p op ae am njJ cpJ lsrc rsrc toks kz)
    (code_view c kz (jcd_join_frame c m t q op ae am njJ cpJ lsrc rsrc showpJ tokenize sim_fn))
    (code_view c kz (jcd_pipe_frame c m t q op am njF cpF njM cpM k aeF lsrc rsrc showpF showpM tokenize tokv tokenizeM simM))
  = true.

(* the proved theorem is the full statement under (R1) *)
Lemma C07_code_pipeline_jcd_stmt_of_R1 :
  (forall c m t q am njF cpF k aeF lsrc rsrc showpF tokenize row,
     In row (frame_rows_of (jcd_filter_frame c m t q am njF cpF k aeF lsrc rsrc showpF tokenize)) ->
     List.length row = List.length (header_spec (noscore_pcase c)) /\ ProjSpec.row_ok row) ->
  C07_code_pipeline_jcd_stmt.
Proof.
  intros R1 c m t q op ae am njJ cpJ njF cpF njM cpM k aeF lsrc rsrc showpJ showpF showpM tokenize sim_fn tokv
         tokenizeM simM toks cf kz zk p cc clk crk csrc HJ Hsc Hk HlenRt Hsmall Hdist Htokv HkzL HkzR Hzk HscalL HscalR
         HtokL HtokR Hsim HsimEq.
  exact (C07_code_pipeline_jcd c m t q op ae am njJ cpJ njF cpF njM cpM k aeF lsrc rsrc showpJ showpF showpM tokenize
           sim_fn tokv tokenizeM simM toks cf kz zk HJ Hsc Hk HlenRt
           (R1 c m t q am njF cpF k aeF lsrc rsrc showpF tokenize) Hsmall Hdist Htokv HkzL HkzR Hzk HscalL HscalR
           HtokL HtokR Hsim HsimEq).
Qed.

Print Assumptions pipe_view_link.
Print Assumptions C07_code_pipeline_jcd.
Print Assumptions C07_code_pipeline_jcd_stmt_of_R1.
