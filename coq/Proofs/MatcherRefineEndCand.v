(* End-to-end statement for the GENERATED filter_candset_rows (Gen/MatcherGen.v, from filter/filter.py:
   Filter.filter_candset): on three string-labelled frames satisfying the hypotheses below,

     filter_candset_rows candset .. ltable rtable .. filter_pair = frame (columns of candset, [row i | i <- keep])
     filter_candset_model fc_drop n_jobs cpus fc_cand = Some keep

   i.e. the output keeps exactly the candidate rows at the positions the hand-written model Model/Matcher.v
   computes (per chunk of Api.chunks_of: candset_split), all their columns, in order.  fc_drop lz rz is
   filter_pair on the filter values of the table rows with keys lz / rz; fc_cand is the candidate set as
   (position, kz left key cell, kz right key cell).  Depends on the Reals axioms only through
   MatcherRefineChunks.split_table_frame_chunks (chunk boundaries).                                     *)
From Coq Require Import ZArith Bool List String Lia.
From SSJ Require Import F64 PyNum HelperGen Filters Api Matcher MatcherFacts Projection ProjSpec
     ProjectionFacts IndexPyFacts JoinGenFacts SplitFacts Frame WrapperGen MatcherGen WrapperRefineFrame
     WrapperRefineCore MatcherRefineBase MatcherRefineLoop MatcherRefineCandLoop MatcherRefineSplit MatcherRefinePar
     MatcherRefineChunks MatcherRefine MatcherRefineBridge MatcherRefineEnd.
Import ListNotations.
Open Scope Z_scope.

Lemma candset_split_ext d1 d2 cand : (forall a b, d1 a b = d2 a b) -> candset_split d1 cand = candset_split d2 cand.
Proof.
  intros H. unfold candset_split. induction cand as [|[[i a] b] cand IH]; [reflexivity|].
  cbn [flat_map]. now rewrite H, IH.
Qed.

(* key lookup in the projected table finds the projection of a source row with that key *)
Lemma found_project (cols proj : list string) (key : string) (rows : list (list pyval)) (kz : pyval -> Z) kc :
  In key proj ->
  (forall row, In row rows -> pv_eqb (cellv cols row key) kc = (kz (cellv cols row key) =? kz kc)) ->
  In (kz kc) (map (fun row => kz (cellv cols row key)) rows) ->
  exists srow, In srow rows /\ kz (cellv cols srow key) = kz kc /\
    find_row (posn key proj) (project_rows cols proj rows) kc = Some (map (cellv cols srow) proj).
Proof.
  intros Hk Hext Hf. apply in_map_iff in Hf. destruct Hf as (s0 & E0 & Hs0).
  destruct (find_exists (fun row => kz (cellv cols row key) =? kz kc) rows s0 Hs0) as (srow & Fs).
  { apply Z.eqb_eq. exact E0. }
  exists srow. destruct (find_some _ _ Fs) as [Hin Ek]. split; [exact Hin|]. split; [now apply Z.eqb_eq|].
  rewrite (find_row_project cols proj key rows Hk). rewrite (find_ext_in _ _ rows Hext), Fs. reflexivity.
Qed.

Section CandEnd.
  Variables (lcols rcols cc : list string) (lkey rkey lattr rattr clk crk : string).
  Variables (lsrc rsrc csrc : list (list pyval)).
  Variables (showp : pyval) (njobs cpus : Z) (filter_pair : pyval -> pyval -> pyval) (kz : pyval -> Z).

  Definition fkeyL (row : list pyval) : pyval := cellv lcols row lkey.
  Definition fkeyR (row : list pyval) : pyval := cellv rcols row rkey.
  Definition fclk (crow : list pyval) : pyval := cellv cc crow clk.
  Definition fcrk (crow : list pyval) : pyval := cellv cc crow crk.

  (* ---- the inputs of the model ---- *)
  Definition fc_drop (lz rz : Z) : bool :=
    match find (fun row => kz (fkeyL row) =? lz) lsrc, find (fun row => kz (fkeyR row) =? rz) rsrc with
    | Some lrow, Some rrow => py_truth (filter_pair (cellv lcols lrow lattr) (cellv rcols rrow rattr))
    | _, _ => true
    end.
  Definition fc_cand : list (nat * Z * Z) :=
    map (fun ir : nat * list pyval => (fst ir, kz (fclk (snd ir)), kz (fcrk (snd ir)))) (enum_from 0 csrc).

  (* ---- hypotheses ---- *)
  Hypothesis Hlk : In lkey lcols.
  Hypothesis Hla : In lattr lcols.
  Hypothesis Hrk : In rkey rcols.
  Hypothesis Hra : In rattr rcols.
  Hypothesis Hclk : In clk cc.
  Hypothesis Hcrk : In crk cc.
  Hypothesis Hlsrc : forall row, In row lsrc -> List.length row = List.length lcols /\ row_ok row.
  Hypothesis Hrsrc : forall row, In row rsrc -> List.length row = List.length rcols /\ row_ok row.
  Hypothesis Hcsrc : forall row, In row csrc -> List.length row = List.length cc /\ row_ok row.
  Hypothesis Hn : Z.of_nat (List.length csrc) < 2^31.
  (* key attributes: unique values (validate_key_attr); kz agrees with == on the key cells *)
  Hypothesis HndL : NoDup (map (fun row => kz (fkeyL row)) lsrc).
  Hypothesis HndR : NoDup (map (fun row => kz (fkeyR row)) rsrc).
  Hypothesis HkzL : forall row v, In row lsrc -> In v (map fkeyL lsrc ++ map fclk csrc) ->
    pv_eqb (fkeyL row) v = (kz (fkeyL row) =? kz v).
  Hypothesis HkzR : forall row v, In row rsrc -> In v (map fkeyR rsrc ++ map fcrk csrc) ->
    pv_eqb (fkeyR row) v = (kz (fkeyR row) =? kz v).
  (* every key of the candidate set is a key of its table (no KeyError) *)
  Hypothesis Hfound : forall crow, In crow csrc ->
    In (kz (fclk crow)) (map (fun row => kz (fkeyL row)) lsrc) /\
    In (kz (fcrk crow)) (map (fun row => kz (fkeyR row)) rsrc).
  (* filter_pair raises nothing on the filter values of the tables *)
  Hypothesis Hfp : forall lrow rrow, In lrow lsrc -> In rrow rsrc ->
    is_exc (filter_pair (cellv lcols lrow lattr) (cellv rcols rrow rattr)) = false.

  Let lproj := [lkey; lattr].
  Let rproj := [rkey; rattr].
  Let lrowsP := fc_lrows lcols lkey lattr lsrc.
  Let rrowsP := fc_rrows rcols rkey rattr rsrc.
  Let k := fc_k csrc njobs cpus.
  Let bs := split_bs k (Z.of_nat (List.length csrc)).
  Let chunks := fc_chunks csrc njobs cpus bs.

  Let Hlkp : In lkey lproj. Proof. left. reflexivity. Qed.
  Let Hlap : In lattr lproj. Proof. right. left. reflexivity. Qed.
  Let Hrkp : In rkey rproj. Proof. left. reflexivity. Qed.
  Let Hrap : In rattr rproj. Proof. right. left. reflexivity. Qed.
  Let Hlinc : forall a, In a lproj -> In a lcols. Proof. intros a [<-|[<-|[]]]; assumption. Qed.
  Let Hrinc : forall a, In a rproj -> In a rcols. Proof. intros a [<-|[<-|[]]]; assumption. Qed.
  Let Hls : shaped (List.length lcols) lsrc. Proof. intros r Hr. apply Hlsrc. exact Hr. Qed.
  Let Hrs : shaped (List.length rcols) rsrc. Proof. intros r Hr. apply Hrsrc. exact Hr. Qed.
  Let Hcs : shaped (List.length cc) csrc. Proof. intros r Hr. apply Hcsrc. exact Hr. Qed.

  Let HlokP : forall r, In r lrowsP -> row_ok r.
  Proof.
    intros r Hr. unfold lrowsP, fc_lrows, project_rows in Hr. apply in_map_iff in Hr. destruct Hr as (row & <- & Hrow).
    destruct (Hlsrc row Hrow) as [Hlen Hok]. apply project_row_ok; [exact Hok | exact Hlinc | exact Hlen].
  Qed.
  Let HrokP : forall r, In r rrowsP -> row_ok r.
  Proof.
    intros r Hr. unfold rrowsP, fc_rrows, project_rows in Hr. apply in_map_iff in Hr. destruct Hr as (row & <- & Hrow).
    destruct (Hrsrc row Hrow) as [Hlen Hok]. apply project_row_ok; [exact Hok | exact Hrinc | exact Hlen].
  Qed.
  Let HldP : distinct_keys (posn lkey lproj) lrowsP.
  Proof.
    apply (distinct_keys_project lcols lproj lkey lsrc kz Hlkp HndL).
    intros r r' Hr Hr'. apply (HkzL r _ Hr). apply in_or_app. left. exact (in_map fkeyL lsrc r' Hr').
  Qed.
  Let HrdP : distinct_keys (posn rkey rproj) rrowsP.
  Proof.
    apply (distinct_keys_project rcols rproj rkey rsrc kz Hrkp HndR).
    intros r r' Hr Hr'. apply (HkzR r _ Hr). apply in_or_app. left. exact (in_map fkeyR rsrc r' Hr').
  Qed.

  Notation keepP := (cand_keep lproj rproj cc lrowsP rrowsP lkey rkey lattr rattr clk crk filter_pair).
  Notation chypsP := (cand_hyps lproj rproj cc lrowsP rrowsP lkey rkey lattr rattr clk crk filter_pair).
  Notation ckeyP := (ckey_hyps lproj rproj cc lrowsP rrowsP lkey rkey clk crk kz).
  Notation dropP := (dropz lproj rproj lrowsP rrowsP lkey rkey lattr rattr filter_pair kz).

  Lemma fc_row crow : In crow csrc -> chypsP crow /\ ckeyP crow.
  Proof.
    intros Hc. destruct (Hfound crow Hc) as [Hfl Hfr].
    assert (HextL : forall row, In row lsrc -> pv_eqb (cellv lcols row lkey) (fclk crow)
                                               = (kz (cellv lcols row lkey) =? kz (fclk crow))).
    { intros row Hrow. apply (HkzL row _ Hrow). apply in_or_app. right. exact (in_map fclk csrc crow Hc). }
    assert (HextR : forall row, In row rsrc -> pv_eqb (cellv rcols row rkey) (fcrk crow)
                                               = (kz (cellv rcols row rkey) =? kz (fcrk crow))).
    { intros row Hrow. apply (HkzR row _ Hrow). apply in_or_app. right. exact (in_map fcrk csrc crow Hc). }
    destruct (found_project lcols lproj lkey lsrc kz (fclk crow) Hlkp HextL Hfl) as (sl & Hsl & _ & Fl).
    destruct (found_project rcols rproj rkey rsrc kz (fcrk crow) Hrkp HextR Hfr) as (sr & Hsr & _ & Fr).
    split.
    - exists (map (cellv lcols sl) lproj), (map (cellv rcols sr) rproj).
      change (nth (c_cki cc clk) crow PNone) with (fclk crow). change (nth (c_ckj cc crk) crow PNone) with (fcrk crow).
      split; [exact Fl|]. split; [exact Fr|]. unfold c_fi, c_fj.
      rewrite (prow_val lcols lproj lattr Hlap sl), (prow_val rcols rproj rattr Hrap sr).
      apply Hfp; assumption.
    - change (nth (c_cki cc clk) crow PNone) with (fclk crow). change (nth (c_ckj cc crk) crow PNone) with (fcrk crow).
      split.
      + intros row Hrow. unfold lrowsP, fc_lrows, project_rows in Hrow. apply in_map_iff in Hrow.
        destruct Hrow as (srow & <- & Hsrow). unfold c_ki. fold lproj. rewrite (prow_key lcols lproj lkey Hlkp srow).
        apply HextL. exact Hsrow.
      + intros row Hrow. unfold rrowsP, fc_rrows, project_rows in Hrow. apply in_map_iff in Hrow.
        destruct Hrow as (srow & <- & Hsrow). unfold c_kj. fold rproj. rewrite (prow_key rcols rproj rkey Hrkp srow).
        apply HextR. exact Hsrow.
  Qed.

  Lemma fc_chunks_incl ch : In ch chunks -> forall row, In row ch -> In row csrc.
  Proof.
    unfold chunks, fc_chunks, par_chunks. destruct (fc_k csrc njobs cpus <=? 1).
    - intros [<-|[]] row Hrow. exact Hrow.
    - intros Hch row Hrow. apply in_map_iff in Hch. destruct Hch as (ab & <- & _).
      exact (slice_nat_incl csrc ab row Hrow).
  Qed.

  Lemma fc_chunk ch sp : In ch chunks ->
    filter_candset_split_rows (sframe cc ch) (PStr clk) (PStr crk) (sframe lproj lrowsP) (sframe rproj rrowsP)
      (PStr lkey) (PStr rkey) (PStr lattr) (PStr rattr) sp filter_pair
    = sframe cc (filter keepP ch) /\ shaped (List.length cc) (filter keepP ch).
  Proof.
    intros Hch. pose proof (fc_chunks_incl ch Hch) as Hinc.
    assert (Hsh : shaped (List.length cc) ch) by (intros r Hr; apply Hcs; apply Hinc; exact Hr).
    split; [|apply shaped_filter; exact Hsh].
    apply (filter_candset_split_rows_loop lproj rproj cc lrowsP rrowsP ch lkey rkey lattr rattr clk crk sp filter_pair);
      try assumption.
    - apply project_rows_shaped.
    - apply project_rows_shaped.
    - intros r Hr. apply Hcsrc. apply Hinc. exact Hr.
    - intros crow Hcrow. apply (fc_row crow (Hinc crow Hcrow)).
  Qed.

  Lemma dropP_eq lz rz : dropP lz rz = fc_drop lz rz.
  Proof.
    unfold dropz, fc_drop, c_ki, c_kj, lrowsP, rrowsP, fc_lrows, fc_rrows. fold lproj rproj.
    rewrite (find_key_project lcols lproj lkey lsrc kz Hlkp lz), (find_key_project rcols rproj rkey rsrc kz Hrkp rz).
    unfold fkeyL, fkeyR.
    destruct (find (fun row => kz (cellv lcols row lkey) =? lz) lsrc) as [lrow|]; cbn [option_map]; [|reflexivity].
    destruct (find (fun row => kz (cellv rcols row rkey) =? rz) rsrc) as [rrow|]; cbn [option_map]; [|reflexivity].
    unfold c_fi, c_fj. now rewrite (prow_val lcols lproj lattr Hlap lrow), (prow_val rcols rproj rattr Hrap rrow).
  Qed.

  (* the model on a list of (position, row) pairs taken from the candidate set *)
  Lemma split_pairs (l : list (nat * list pyval)) :
    (forall ir, In ir l -> In ir (enum_from 0 csrc)) ->
    map (fun i => nth i csrc [])
        (candset_split fc_drop
           (map (fun ir : nat * list pyval => (fst ir, kz (fclk (snd ir)), kz (fcrk (snd ir)))) l))
    = filter keepP (map snd l).
  Proof.
    unfold candset_split. induction l as [|[i crow] l IH]; intros H; [reflexivity|].
    cbn [map flat_map fst snd filter].
    assert (Hir : In (i, crow) (enum_from 0 csrc)) by (apply H; left; reflexivity).
    destruct (enum_from_nth [] csrc 0%nat (i, crow) Hir) as [_ En]. cbn [fst snd] in En. rewrite Nat.sub_0_r in En.
    assert (Hc : In crow csrc).
    { rewrite <- (enum_from_snd csrc 0%nat). exact (in_map snd _ _ Hir). }
    destruct (fc_row crow Hc) as [H1 H2].
    rewrite (keep_dropz lproj rproj cc lrowsP rrowsP lkey rkey lattr rattr clk crk filter_pair kz crow H1 H2).
    change (nth (c_cki cc clk) crow PNone) with (fclk crow). change (nth (c_ckj cc crk) crow PNone) with (fcrk crow).
    rewrite dropP_eq.
    rewrite <- (IH (fun ir Hir' => H ir (or_intror Hir'))).
    destruct (fc_drop (kz (fclk crow)) (kz (fcrk crow))); cbn [negb app map]; [reflexivity|]. now rewrite En.
  Qed.

  Lemma fc_split : 1 < k ->
    List.length bs = Z.to_nat k /\
    split_table_frame (sframe cc csrc) (PInt k) = PList (map (fun ab => sframe cc (slice_nat csrc ab)) bs).
  Proof.
    intros Hk. split.
    - unfold bs, split_bs. now rewrite map_length, seq_length.
    - apply split_table_frame_chunks; [exact Hcs | | exact Hn].
      unfold k, fc_k, nchunks in *. lia.
  Qed.

  Theorem filter_candset_rows_end_to_end :
    exists keep : list nat,
      filter_candset_model fc_drop njobs cpus fc_cand = Some keep /\
      filter_candset_rows (sframe cc csrc) (PStr clk) (PStr crk) (sframe lcols lsrc) (sframe rcols rsrc)
        (PStr lkey) (PStr rkey) (PStr lattr) (PStr rattr) (PInt njobs) showp (PInt cpus) filter_pair
      = sframe cc (map (fun i => nth i csrc []) keep).
  Proof using All.
    rewrite (filter_candset_rows_chunks lcols rcols cc lkey rkey lattr rattr clk crk lsrc rsrc csrc showp njobs cpus
               filter_pair bs (filter keepP) Hlk Hla Hrk Hra Hclk Hcrk Hls Hrs Hcs).
    2:{ intros ch sp Hch. exact (fc_chunk ch sp Hch). }
    2:{ exact fc_split. }
    destruct (list_nil_dec csrc) as [Ecs|Hne].
    { exists []. split.
      - unfold filter_candset_model, fc_cand. rewrite Ecs. reflexivity.
      - rewrite Ecs. reflexivity. }
    rewrite (match_list_ne csrc _ _ Hne).
    unfold filter_candset_model.
    destruct fc_cand eqn:Ecand.
    { exfalso. unfold fc_cand in Ecand. destruct csrc; [contradiction | discriminate Ecand]. }
    rewrite <- Ecand. clear Ecand.
    rewrite chunks_of_eval by (unfold fc_cand; rewrite map_length; rewrite <- (enum_from_snd csrc 0%nat) in Hn at 1;
                              rewrite map_length in Hn; exact Hn).
    assert (Elen : List.length fc_cand = List.length csrc).
    { unfold fc_cand. rewrite map_length. rewrite <- (enum_from_snd csrc 0%nat) at 2. now rewrite map_length. }
    rewrite Elen. fold (fc_k csrc njobs cpus). fold k.
    eexists. split; [reflexivity|]. f_equal.
    fold chunks. unfold chunks, fc_chunks, par_chunks. fold k. fold bs.
    destruct (k <=? 1).
    - cbn [flat_map map snd List.concat]. rewrite !app_nil_r. unfold fc_cand.
      rewrite (split_pairs (enum_from 0 csrc) (fun ir H => H)). now rewrite enum_from_snd.
    - rewrite flat_map_concat_map, concat_map, !map_map. cbn [snd]. f_equal. apply map_ext. intros ab.
      unfold fc_cand. rewrite slice_nat_map.
      rewrite (split_pairs (slice_nat (enum_from 0 csrc) ab)) by (intros ir Hir; exact (slice_nat_incl _ ab ir Hir)).
      now rewrite <- slice_nat_map, enum_from_snd.
  Qed.
End CandEnd.

Print Assumptions filter_candset_rows_end_to_end.
