(* The GENERATED pair-level filters (Gen/FilterPairGen.v: Cls.filter_pair translated from the
   Python source) refine the hand models of Model/Filters.v:

     size_filter_pair_gen     = PBool (size_filter_pair p ae (len l) (len r))
     overlap_filter_pair_gen  = PBool (overlap_filter_pair op size l_empty r_empty l r)
     prefix_filter_pair_gen   = PBool b   with  prefix_filter_pair p ae l r = Some b
     (position_filter_pair_gen: FilterPairRefinePos.v)
     every *_filter_pair_gen  = PBool (negb allow_missing)  when a side is None / NaN

   for token lists given by the tokenizer hypothesis  tokenize ls = pints l, tokenize rs = pints r.
   The formulas of filter_utils stay opaque: only `formulas_ok p bound` (IndexGlue.v) is used.
   Lists / Z only: axiom-free.                                                           *)
From Coq Require Import ZArith Bool List String Lia.
From SSJ Require Import F64 PyNum FilterUtilsGen HelperGen TokenOrderingGen FilterPairGen TokenOrdering Filters
     PyFacts IndexPyFacts IndexProbeFacts OrderingFacts OrderingGenFacts IndexGlue FilterPairRefineBase.
Import ListNotations.
Open Scope Z_scope.

(* ====================================================================== missing values *)
Section Missing.
  Variables (tokenize : pyval -> pyval) (ls rs : pyval).
  Hypothesis Hsl : scalar ls.
  Hypothesis Hsr : scalar rs.
  Hypothesis Hmiss : missing ls || missing rs = true.

  Theorem size_filter_pair_gen_missing smt t ae (am : bool) :
    size_filter_pair_gen smt t ae (PBool am) ls rs tokenize = PBool (negb am).
  Proof.
    unfold size_filter_pair_gen. rewrite (isnull_test ls rs Hsl Hsr), Hmiss. reflexivity.
  Qed.
  Theorem prefix_filter_pair_gen_missing smt t ae (am : bool) q :
    prefix_filter_pair_gen smt t ae (PBool am) ls rs q tokenize = PBool (negb am).
  Proof.
    unfold prefix_filter_pair_gen. rewrite (isnull_test ls rs Hsl Hsr), Hmiss. reflexivity.
  Qed.
  Theorem position_filter_pair_gen_missing smt t ae (am : bool) q :
    position_filter_pair_gen smt t ae (PBool am) ls rs q tokenize = PBool (negb am).
  Proof.
    unfold position_filter_pair_gen. rewrite (isnull_test ls rs Hsl Hsr), Hmiss. reflexivity.
  Qed.
  Theorem overlap_filter_pair_gen_missing size op (am : bool) :
    overlap_filter_pair_gen size op (PBool am) ls rs tokenize = PBool (negb am).
  Proof.
    unfold overlap_filter_pair_gen. rewrite (isnull_test ls rs Hsl Hsr), Hmiss. reflexivity.
  Qed.
End Missing.

(* ====================================================================== size filter *)
Section Pair.
  Variables (tokenize : pyval -> pyval) (ls rs : pyval) (l r : list Z).
  Hypothesis Hsl : scalar ls.
  Hypothesis Hsr : scalar rs.
  Hypothesis Hml : missing ls = false.
  Hypothesis Hmr : missing rs = false.
  Hypothesis Hl : tokenize ls = pints l.
  Hypothesis Hr : tokenize rs = pints r.

  Lemma head_present : py_or (py_isnull ls) (py_isnull rs) = PBool false.
  Proof. rewrite (isnull_test ls rs Hsl Hsr), Hml, Hmr. reflexivity. Qed.

  Theorem size_filter_pair_gen_refines p bound (ae am : bool) :
    formulas_ok p bound -> len l < bound ->
    size_filter_pair_gen (PStr (fm p)) (ft p) (PBool ae) (PBool am) ls rs tokenize
    = PBool (size_filter_pair p ae (len l) (len r)).
  Proof.
    intros Hf Hb.
    destruct (formulas_ok_lb_ub p bound (len l) Hf (conj (len_nonneg' l) Hb)) as (lb & ub & Hlb & Hub).
    unfold size_filter_pair_gen, size_filter_pair. rewrite head_present. cbn [bindx py_truth].
    rewrite Hl, Hr, !py_len_pints. cbn [bindx]. rewrite both_empty_test. cbn [bindx py_truth].
    destruct ((len l =? 0) && (len r =? 0)).
    - exact (both_empty_gen_eq p ae).
    - change (get_size_lower_bound (PInt (len l)) (PStr (fm p)) (ft p)) with (g_lb p (len l)).
      change (get_size_upper_bound (PInt (len l)) (PStr (fm p)) (ft p)) with (g_ub p (len l)).
      rewrite Hlb, Hub. cbn [bindx]. unfold in_window.
      rewrite !py_le_int_val', py_and_bools. cbn [bindx py_truth].
      destruct ((lb <=? len r) && (len r <=? ub)); reflexivity.
  Qed.

  (* ==================================================================== prefix filter *)
  (* the common middle part: ordering and prefix lengths *)
  Lemma order_l : order_using_token_ordering (pints l) (PDict (ordering_dict (l ++ r)))
                  = pints (order (l ++ r) l).
  Proof. apply pair_order_using. Qed.
  Lemma order_r : order_using_token_ordering (pints r) (PDict (ordering_dict (l ++ r)))
                  = pints (order (l ++ r) r).
  Proof. apply pair_order_using. Qed.

  Theorem prefix_filter_pair_gen_refines p bound (ae am : bool) :
    formulas_ok p bound -> len l < bound -> len r < bound ->
    exists b, prefix_filter_pair p ae l r = Some b /\
      prefix_filter_pair_gen (PStr (fm p)) (ft p) (PBool ae) (PBool am) ls rs (PInt (fq p)) tokenize
      = PBool b.
  Proof.
    intros Hf Hbl Hbr.
    destruct (formulas_ok_pl p bound (len l) Hf (conj (len_nonneg' l) Hbl)) as [kl Hkl].
    destruct (formulas_ok_pl p bound (len r) Hf (conj (len_nonneg' r) Hbr)) as [kr Hkr].
    unfold prefix_filter_pair_gen, prefix_filter_pair. rewrite head_present. cbn [bindx py_truth].
    rewrite Hl, Hr. rewrite (bindx_ok (pints l)), (bindx_ok (pints r)) by reflexivity.
    rewrite !py_len_pints. cbn [bindx]. rewrite both_empty_test. cbn [bindx py_truth].
    destruct ((len l =? 0) && (len r =? 0)).
    { eexists. split; [reflexivity|]. exact (both_empty_gen_eq p ae). }
    rewrite pair_ordering_dict. cbn [bindx]. rewrite order_l, order_r.
    rewrite (bindx_ok (pints (order (l ++ r) l))), (bindx_ok (pints (order (l ++ r) r))) by reflexivity.
    change (get_prefix_length (PInt (len l)) (PStr (fm p)) (ft p) (PInt (fq p))) with (g_pl p (len l)).
    change (get_prefix_length (PInt (len r)) (PStr (fm p)) (ft p) (PInt (fq p))) with (g_pl p (len r)).
    cbv zeta. rewrite Hkl, Hkr. cbn [bindx].
    rewrite !py_le_int_val', py_or_bools. cbn [bindx py_truth].
    destruct ((kl <=? 0) || (kr <=? 0)).
    { eexists. split; reflexivity. }
    rewrite !slice0_PInt. eexists. split; [reflexivity|].
    rewrite !py_slice_pints, !py_set_of_pints, py_set_inter_zset.
    rewrite (bindx_ok (zset _)) by reflexivity.
    rewrite py_len_zset, py_gt_int_val. cbn [bindx py_truth].
    rewrite inter_pos_share. destruct (share _ _); reflexivity.
  Qed.
End Pair.

(* ====================================================================== overlap filter *)
Lemma comp_op_num op f n v : comp_op_map op = Some f -> num_of v <> None ->
  exists b, f (PInt n) v = PBool b.
Proof.
  intros Hop Hv. unfold comp_op_map in Hop.
  assert (Hord : forall test, exists b, py_ord test (PInt n) v = PBool b).
  { intros test. unfold py_ord, strict2, ord_cmp.
    destruct v; cbn [num_of] in *; try congruence;
      match goal with |- context [match ?c with Some _ => _ | None => _ end] => destruct c as [[]|] end;
      eexists; reflexivity. }
  assert (Heq : exists b, py_eq (PInt n) v = PBool b /\ py_ne (PInt n) v = PBool (negb b)).
  { unfold py_eq, py_ne, strict2. destruct v; cbn [num_of] in *; try congruence; eexists; split; reflexivity. }
  destruct (String.eqb op ">="); [injection Hop as <-; apply Hord|].
  destruct (String.eqb op ">"); [injection Hop as <-; apply Hord|].
  destruct (String.eqb op "<="); [injection Hop as <-; apply Hord|].
  destruct (String.eqb op "<"); [injection Hop as <-; apply Hord|].
  destruct (String.eqb op "="); [injection Hop as <-; destruct Heq as (b & H1 & _); eauto|].
  destruct (String.eqb op "!="); [injection Hop as <-; destruct Heq as (b & _ & H2); eauto|].
  discriminate Hop.
Qed.

(* utils.simfunctions.overlap on two token lists *)
Theorem simfunctions_overlap_eq l r :
  simfunctions_overlap (pints l) (pints r) = PInt (overlap_sets l r).
Proof.
  unfold simfunctions_overlap.
  change (py_isinstance_set (pints l)) with (PBool false).
  change (py_isinstance_set (pints r)) with (PBool false).
  cbn [py_not strict1 py_truth negb bindx].
  rewrite !py_set_of_pints, !(bindx_ok (zset _)) by reflexivity.
  cbv beta iota. cbn [bindx].
  rewrite py_set_inter_zset, py_len_zset, !zadd_dedup. reflexivity.
Qed.

Theorem overlap_filter_pair_gen_refines tokenize op size (am : bool) sl sr l r :
  tokenize (PStr sl) = pints l -> tokenize (PStr sr) = pints r ->
  comp_op_map op <> None -> num_of size <> None ->
  overlap_filter_pair_gen size (PStr op) (PBool am) (PStr sl) (PStr sr) tokenize
  = PBool (overlap_filter_pair op size (String.eqb sl "") (String.eqb sr "") l r).
Proof.
  intros Hl Hr Hop Hsize.
  unfold overlap_filter_pair_gen, overlap_filter_pair.
  rewrite (isnull_test (PStr sl) (PStr sr) I I). cbn [missing orb bindx py_truth].
  change (py_not (PStr sl)) with (PBool (negb (negb (String.eqb sl "")))).
  change (py_not (PStr sr)) with (PBool (negb (negb (String.eqb sr "")))).
  rewrite !negb_involutive, py_or_bools. cbn [bindx py_truth].
  destruct (String.eqb sl "" || String.eqb sr ""); [reflexivity|].
  rewrite Hl, Hr. rewrite (bindx_ok (pints l)), (bindx_ok (pints r)) by reflexivity.
  rewrite simfunctions_overlap_eq. cbn [bindx]. unfold cmp_op, fp_comp_op_lookup.
  destruct (comp_op_map op) as [f|] eqn:Ef; [|congruence].
  destruct (comp_op_num op f (overlap_sets l r) size Ef Hsize) as [b Hb]. rewrite Hb.
  cbn [bindx py_truth]. destruct b; reflexivity.
Qed.

Print Assumptions size_filter_pair_gen_missing.
Print Assumptions prefix_filter_pair_gen_missing.
Print Assumptions position_filter_pair_gen_missing.
Print Assumptions overlap_filter_pair_gen_missing.
Print Assumptions size_filter_pair_gen_refines.
Print Assumptions prefix_filter_pair_gen_refines.
Print Assumptions simfunctions_overlap_eq.
Print Assumptions overlap_filter_pair_gen_refines.
