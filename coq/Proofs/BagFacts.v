(* Generic facts about the bag intersection `binter` / `ovl` of Base/Prefix.v, via the
   multiplicity characterisation  count v (binter X Y) = min (count v X) (count v Y).
   Stdlib only. *)
From Coq Require Import ZArith List Lia Arith.
From SSJ Require Import Prefix.
Import ListNotations.
Local Open Scope nat_scope.

Notation cnt := (count_occ Z.eq_dec).

Lemma cnt_cons h Y v : cnt (h :: Y) v = (if Z.eq_dec h v then S (cnt Y v) else cnt Y v).
Proof. reflexivity. Qed.

Lemma cnt_rem1 x v : forall Y,
  cnt (rem1 x Y) v = if Z.eq_dec x v then pred (cnt Y v) else cnt Y v.
Proof.
  induction Y as [|h Y IH].
  - simpl. destruct (Z.eq_dec x v); reflexivity.
  - cbn [rem1]. destruct (Z.eqb_spec x h) as [->|Hne].
    + rewrite cnt_cons. destruct (Z.eq_dec h v); reflexivity.
    + rewrite !cnt_cons, IH. destruct (Z.eq_dec x v), (Z.eq_dec h v); try reflexivity.
      congruence.
Qed.

Lemma length_rem1 x : forall Y, In x Y -> length Y = S (length (rem1 x Y)).
Proof.
  induction Y as [|h Y IH]; intros HIn; [destruct HIn|].
  cbn [rem1]. destruct (Z.eqb_spec x h) as [->|Hne]; [reflexivity|].
  destruct HIn as [->|HIn]; [congruence|]. simpl. rewrite (IH HIn). reflexivity.
Qed.

Lemma cnt_binter v : forall X Y, cnt (binter X Y) v = Nat.min (cnt X v) (cnt Y v).
Proof.
  induction X as [|x X IH]; intros Y; [reflexivity|].
  cbn [binter]. destruct (mem x Y) eqn:E.
  - apply mem_In in E. apply (count_occ_In Z.eq_dec) in E.
    rewrite !cnt_cons, IH, cnt_rem1. destruct (Z.eq_dec x v); subst; lia.
  - assert (H0 : cnt Y x = 0).
    { apply count_occ_not_In. intros HIn. apply mem_In in HIn. congruence. }
    rewrite cnt_cons, IH. destruct (Z.eq_dec x v); subst; lia.
Qed.

(* pointwise multiplicity domination implies size domination *)
Lemma cnt_le_length : forall X Y, (forall v, cnt X v <= cnt Y v) -> length X <= length Y.
Proof.
  induction X as [|x X IH]; intros Y H; [simpl; lia|].
  assert (HIn : In x Y).
  { apply (count_occ_In Z.eq_dec). specialize (H x). rewrite cnt_cons in H.
    destruct (Z.eq_dec x x); [lia|congruence]. }
  rewrite (length_rem1 x Y HIn). simpl. apply le_n_S, IH. intros v.
  rewrite cnt_rem1. specialize (H v). rewrite cnt_cons in H. destruct (Z.eq_dec x v); lia.
Qed.

Lemma cnt_eq_length X Y : (forall v, cnt X v = cnt Y v) -> length X = length Y.
Proof.
  intros H. apply Nat.le_antisymm; apply cnt_le_length; intros v; rewrite H; lia.
Qed.

Theorem ovl_sym X Y : ovl X Y = ovl Y X.
Proof. unfold ovl. apply cnt_eq_length. intros v. rewrite !cnt_binter. lia. Qed.

Lemma ovl_le_l X Y : ovl X Y <= length X.
Proof. apply binter_len_le_X. Qed.

Lemma ovl_le_r X Y : ovl X Y <= length Y.
Proof. rewrite ovl_sym. apply ovl_le_l. Qed.

(* a common sub-bag bounds the overlap from below *)
Theorem ovl_common C X Y :
  (forall v, cnt C v <= cnt X v) -> (forall v, cnt C v <= cnt Y v) -> length C <= ovl X Y.
Proof.
  intros HX HY. unfold ovl. apply cnt_le_length. intros v. rewrite cnt_binter.
  specialize (HX v). specialize (HY v). lia.
Qed.

Corollary ovl_common_app P S MX MY :
  length P + length S <= ovl (P ++ MX ++ S) (P ++ MY ++ S).
Proof.
  rewrite <- app_length. apply ovl_common; intros v; rewrite !count_occ_app; lia.
Qed.

(* |A \ C| <= |A \ B| + |B \ C|, in additive form *)
Theorem ovl_triangle A B C : ovl A B + ovl B C <= ovl A C + length B.
Proof.
  unfold ovl. rewrite <- !app_length. apply cnt_le_length. intros v.
  rewrite !count_occ_app, !cnt_binter. lia.
Qed.

Lemma ovl_mono X X' Y Y' :
  (forall v, cnt X' v <= cnt X v) -> (forall v, cnt Y' v <= cnt Y v) -> ovl X' Y' <= ovl X Y.
Proof.
  intros HX HY. unfold ovl. apply cnt_le_length. intros v. rewrite !cnt_binter.
  specialize (HX v). specialize (HY v). lia.
Qed.
