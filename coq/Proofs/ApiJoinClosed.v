(* The theorems of Proofs/ApiJoinSpec.v with the chunk-partition hypothesis discharged by
   SplitFacts.chunks_of_partition (the generated split_table partitions the table).        *)
From Coq Require Import ZArith Bool List String Lia.
From SSJ Require Import F64 PyNum HelperGen Filters Joins Api JoinSpec MetaSpec OverlapFacts
     SplitFacts ApiJoinSpec.
Import ListNotations.
Open Scope string_scope.
Open Scope Z_scope.

Lemma split_part : forall (A : Type) (njobs cpus : Z) (Rp : list A),
  1 <= cpus -> Z.of_nat (List.length Rp) < 2 ^ 31 ->
  exists chs, chunks_of njobs cpus Rp = Some chs /\ List.concat (map snd chs) = Rp.
Proof.
  intros A njobs cpus Rp _ Hl.
  destruct (chunks_of_partition A njobs cpus Rp Hl) as [chs [H1 [H2 _]]]. eauto.
Qed.

Theorem api_join_total_closed : forall c, valid_join_case c -> exists out, api_join c = Some out.
Proof. exact (api_join_total split_part). Qed.

Theorem api_join_spec_closed : forall c out, valid_join_case c -> api_join c = Some out ->
  complete_spec c out = true /\ sound_spec c out = true /\
  missing_spec c out = true /\ empty_spec c out = true.
Proof. exact (api_join_spec split_part). Qed.

Theorem api_join_overlap_closed : forall c, tables_ok c -> lower_op (j_op c) ->
  j_entry c = EJoin "OVERLAP" -> overlap_params_ok c -> api_join_conclusion c.
Proof. exact (api_join_overlap split_part). Qed.

Theorem api_join_ovc_closed : forall c, tables_ok c -> lower_op (j_op c) ->
  j_entry c = EJoin "OVERLAP_COEFFICIENT" -> ovc_params_ok c -> api_join_conclusion c.
Proof. exact (api_join_ovc split_part). Qed.

Theorem api_join_jcd_closed : forall c m, tables_ok c -> lower_op (j_op c) ->
  j_entry c = EJoin m -> jcd_params_ok c m -> api_join_conclusion c.
Proof. exact (api_join_jcd split_part). Qed.

Theorem api_join_missing_spec_closed : forall c out, tables_ok c ->
  api_join c = Some out -> missing_spec c out = true.
Proof. exact (api_join_missing_spec split_part). Qed.

Print Assumptions api_join_total_closed.
Print Assumptions api_join_spec_closed.
Print Assumptions api_join_overlap_closed.
Print Assumptions api_join_ovc_closed.
Print Assumptions api_join_missing_spec_closed.
