(* Code-level RELATIONAL property theorems, part 5: the GENERATED filter_candset_rows and apply_matcher_rows
   (Gen/MatcherGen.v).

   C06  `C06_code_filter_candset`: the frame returned by filter_candset_rows consists of exactly the candidate
        rows (ALL their columns, original order) whose value pair the `filter_pair` parameter does not drop.
        Composition of MatcherRefineEndCand.filter_candset_rows_end_to_end (generated code = the positions
        the model keeps) with MatcherChunks.filter_candset_njobs_b and MatcherFacts.candset_rows
        (= Properties/C06.v C06_candset_njobs, C06_candset_rows).  `C06_code_drop` states the verdict on the
        SOURCE rows of a candidate row's two keys (= py_truth of filter_pair on their filter values).
   C10  `C10_code_njobs_filter_candset`, `C10_code_njobs_apply_matcher`: two calls that differ only in n_jobs,
        the cpu count and show_progress return THE SAME FRAME (equality of Python values: same rows, same
        order, same columns) -- stronger than the multiset statement; no hypothesis added.                   *)
From Coq Require Import ZArith Bool List String Lia.
From SSJ Require Import F64 PyNum HelperGen ValidationGen Filters Api Matcher MatcherFacts MatcherChunks
     Projection ProjSpec ProjectionFacts IndexPyFacts JoinGenFacts SplitFacts Frame WrapperGen MatcherGen
     WrapperRefineFrame WrapperRefineCore FilterPairRefineBase MatcherRefineBase MatcherRefineLoop MatcherRefineSplit
     MatcherRefinePar MatcherRefineChunks MatcherRefine MatcherRefineBridge MatcherRefineEnd MatcherRefineEndCand
     CodeLevelMatcher.
Import ListNotations.
Open Scope Z_scope.

(* reading the kept positions back from the candidate set *)
Lemma kept_positions_rows (drop : Z -> Z -> bool) (g h : list pyval -> Z) (csrc : list (list pyval)) :
  forall l : list (nat * list pyval),
  (forall ir, In ir l -> nth (fst ir) csrc [] = snd ir) ->
  map (fun i => nth i csrc [])
      (map (fun c : nat * Z * Z => fst (fst c))
           (filter (fun c : nat * Z * Z => negb (drop (snd (fst c)) (snd c)))
                   (map (fun ir : nat * list pyval => (fst ir, g (snd ir), h (snd ir))) l)))
  = filter (fun crow => negb (drop (g crow) (h crow))) (map snd l).
Proof.
  induction l as [|[i crow] l IH]; intros Hl; [reflexivity|].
  cbn [map filter fst snd].
  rewrite <- (IH (fun ir Hir => Hl ir (or_intror Hir))).
  destruct (drop (g crow) (h crow)); cbn [negb map fst]; [reflexivity|].
  f_equal. exact (Hl (i, crow) (or_introl eq_refl)).
Qed.

Lemma find_unique_key {A} (f : A -> Z) (rows : list A) (row : A) :
  NoDup (map f rows) -> In row rows -> find (fun r => f r =? f row) rows = Some row.
Proof.
  induction rows as [|x rows IH]; intros Hnd Hin; [destruct Hin|].
  cbn [map] in Hnd. inversion Hnd as [|? ? Hx Hnd']; subst. cbn [find].
  destruct Hin as [-> | Hin]; [now rewrite Z.eqb_refl|].
  destruct (f x =? f row) eqn:E; [|exact (IH Hnd' Hin)].
  apply Z.eqb_eq in E. exfalso. apply Hx. rewrite E. apply in_map. exact Hin.
Qed.

Section CodeCandset.
  Variables (lcols rcols cc : list string) (lkey rkey lattr rattr clk crk : string).
  Variables (lsrc rsrc csrc : list (list pyval)).
  Variables (filter_pair : pyval -> pyval -> pyval) (kz : pyval -> Z).

  (* the hypotheses of MatcherRefineEndCand.filter_candset_rows_end_to_end, verbatim *)
  Hypothesis Hlk : In lkey lcols.
  Hypothesis Hla : In lattr lcols.
  Hypothesis Hrk : In rkey rcols.
  Hypothesis Hra : In rattr rcols.
  Hypothesis Hclk : In clk cc.
  Hypothesis Hcrk : In crk cc.
  Hypothesis Hlsrc : forall row, In row lsrc -> List.length row = List.length lcols /\ row_ok row.
  Hypothesis Hrsrc : forall row, In row rsrc -> List.length row = List.length rcols /\ row_ok row.
  Hypothesis Hcsrc : forall row, In row csrc -> List.length row = List.length cc /\ row_ok row.
  Hypothesis Hn : Z.of_nat (List.length csrc) < 2^31.
  Hypothesis HndL : NoDup (map (fun row => kz (fkeyL lcols lkey row)) lsrc).
  Hypothesis HndR : NoDup (map (fun row => kz (fkeyR rcols rkey row)) rsrc).
  Hypothesis HkzL : forall row v, In row lsrc -> In v (map (fkeyL lcols lkey) lsrc ++ map (fclk cc clk) csrc) ->
    pv_eqb (fkeyL lcols lkey row) v = (kz (fkeyL lcols lkey row) =? kz v).
  Hypothesis HkzR : forall row v, In row rsrc -> In v (map (fkeyR rcols rkey) rsrc ++ map (fcrk cc crk) csrc) ->
    pv_eqb (fkeyR rcols rkey row) v = (kz (fkeyR rcols rkey row) =? kz v).
  Hypothesis Hfound : forall crow, In crow csrc ->
    In (kz (fclk cc clk crow)) (map (fun row => kz (fkeyL lcols lkey row)) lsrc) /\
    In (kz (fcrk cc crk crow)) (map (fun row => kz (fkeyR rcols rkey row)) rsrc).
  Hypothesis Hfp : forall lrow rrow, In lrow lsrc -> In rrow rsrc ->
    is_exc (filter_pair (cellv lcols lrow lattr) (cellv rcols rrow rattr)) = false.

  (* the call of the generated function *)
  Definition fcand_call (njobs cpus : Z) (showp : pyval) : pyval :=
    filter_candset_rows (sframe cc csrc) (PStr clk) (PStr crk) (sframe lcols lsrc) (sframe rcols rsrc)
      (PStr lkey) (PStr rkey) (PStr lattr) (PStr rattr) (PInt njobs) showp (PInt cpus) filter_pair.

  (* a candidate row is dropped iff filter_pair is truthy on the filter values of the table rows its keys name *)
  Definition fcand_dropped (crow : list pyval) : bool :=
    fc_drop lcols rcols lkey rkey lattr rattr lsrc rsrc filter_pair kz (kz (fclk cc clk crow)) (kz (fcrk cc crk crow)).

  (* C06: exactly the candidate rows that are not dropped, all columns, original order -- for every n_jobs *)
  Theorem C06_code_filter_candset njobs cpus showp :
    fcand_call njobs cpus showp = sframe cc (filter (fun crow => negb (fcand_dropped crow)) csrc).
  Proof using All.
    destruct (filter_candset_rows_end_to_end lcols rcols cc lkey rkey lattr rattr clk crk lsrc rsrc csrc showp njobs cpus
                filter_pair kz Hlk Hla Hrk Hra Hclk Hcrk Hlsrc Hrsrc Hcsrc Hn HndL HndR HkzL HkzR Hfound Hfp)
      as (keep & EM & EW).
    unfold fcand_call. rewrite EW. f_equal.
    rewrite filter_candset_njobs_b in EM.
    2:{ unfold fc_cand. rewrite map_length. rewrite <- (enum_from_snd csrc 0%nat) in Hn at 1.
        rewrite map_length in Hn. exact Hn. }
    injection EM as <-. rewrite candset_rows. unfold fc_cand.
    rewrite (kept_positions_rows _ (fun crow => kz (fclk cc clk crow)) (fun crow => kz (fcrk cc crk crow)) csrc).
    - rewrite enum_from_snd. reflexivity.
    - intros ir Hir. destruct (enum_from_nth [] csrc 0%nat ir Hir) as [_ En]. now rewrite Nat.sub_0_r in En.
  Qed.

  (* the verdict, on the source rows of the two keys of a candidate row *)
  Theorem C06_code_drop (crow lrow rrow : list pyval) :
    In lrow lsrc -> In rrow rsrc ->
    kz (fkeyL lcols lkey lrow) = kz (fclk cc clk crow) -> kz (fkeyR rcols rkey rrow) = kz (fcrk cc crk crow) ->
    fcand_dropped crow = py_truth (filter_pair (cellv lcols lrow lattr) (cellv rcols rrow rattr)).
  Proof using HndL HndR.
    intros Hl Hr El Er. unfold fcand_dropped, fc_drop. rewrite <- El, <- Er.
    rewrite (find_unique_key (fun row => kz (fkeyL lcols lkey row)) lsrc lrow HndL Hl).
    rewrite (find_unique_key (fun row => kz (fkeyR rcols rkey row)) rsrc rrow HndR Hr). reflexivity.
  Qed.

  (* every candidate row has such source rows (no KeyError): the two statements characterise the output *)
  Lemma C06_code_sources crow : In crow csrc ->
    exists lrow rrow, In lrow lsrc /\ In rrow rsrc /\
      kz (fkeyL lcols lkey lrow) = kz (fclk cc clk crow) /\ kz (fkeyR rcols rkey rrow) = kz (fcrk cc crk crow).
  Proof using Hfound.
    intros Hc. destruct (Hfound crow Hc) as [H1 H2].
    apply in_map_iff in H1. destruct H1 as (lrow & E1 & Hl). apply in_map_iff in H2. destruct H2 as (rrow & E2 & Hr).
    exists lrow, rrow. repeat split; assumption.
  Qed.

  (* C10: the SAME frame for every n_jobs / cpu count / show_progress *)
  Theorem C10_code_njobs_filter_candset nj1 cp1 showp1 nj2 cp2 showp2 :
    fcand_call nj1 cp1 showp1 = fcand_call nj2 cp2 showp2.
  Proof using All. now rewrite !C06_code_filter_candset. Qed.
End CodeCandset.

(* ================================================================== apply_matcher_rows *)
Section NjobsMatcher.
  Variables (c : pcase) (cc : list string) (clk crk : string).
  Variables (lsrc rsrc csrc : list (list pyval)).
  Variables (op : string) (cf : pyval -> pyval -> pyval) (am : bool) (t tokv : pyval).
  Variables (tokenize : pyval -> pyval) (sim_fn : pyval -> pyval -> pyval).
  Variables (kz : pyval -> Z) (zk : Z -> pyval).

  (* the hypotheses of MatcherRefineEnd.apply_matcher_rows_end_to_end (= CodeLevelMatcher), verbatim *)
  Hypothesis Hwf : well_formed c.
  Hypothesis Hclk : In clk cc.
  Hypothesis Hcrk : In crk cc.
  Hypothesis Hlsrc : forall row, In row lsrc -> List.length row = List.length (p_lcols c) /\ row_ok row.
  Hypothesis Hrsrc : forall row, In row rsrc -> List.length row = List.length (p_rcols c) /\ row_ok row.
  Hypothesis Hcsrc : forall row, In row csrc -> List.length row = List.length cc /\ row_ok row.
  Hypothesis Hvout : is_exc (validate_output_attrs (py_opt_strs (p_lout c)) (py_strs (p_lcols c))
                                                   (py_opt_strs (p_rout c)) (py_strs (p_rcols c))) = false.
  Hypothesis Hop : comp_op_map op = Some cf.
  Hypothesis Htokv : is_exc tokv = false.
  Hypothesis Hn : Z.of_nat (List.length csrc) < 2^31.
  Hypothesis HndL : NoDup (map (fun row => kz (lkeyc c row)) lsrc).
  Hypothesis HndR : NoDup (map (fun row => kz (rkeyc c row)) rsrc).
  Hypothesis HkzL : forall row v, In row lsrc -> In v (map (lkeyc c) lsrc ++ map (clkc cc clk) csrc) ->
    pv_eqb (lkeyc c row) v = (kz (lkeyc c row) =? kz v).
  Hypothesis HkzR : forall row v, In row rsrc -> In v (map (rkeyc c) rsrc ++ map (crkc cc crk) csrc) ->
    pv_eqb (rkeyc c row) v = (kz (rkeyc c row) =? kz v).
  Hypothesis Hzk : forall v, In v (map (lkeyc c) lsrc ++ map (rkeyc c) rsrc ++ map (clkc cc clk) csrc ++ map (crkc cc crk) csrc) ->
    zk (kz v) = v.
  Hypothesis Hfound : forall crow, In crow csrc ->
    In (kz (clkc cc clk crow)) (map (fun row => kz (lkeyc c row)) lsrc) /\
    In (kz (crkc cc crk crow)) (map (fun row => kz (rkeyc c row)) rsrc).
  Hypothesis HscalL : forall row, In row lsrc -> scalar (lvalc c row).
  Hypothesis HscalR : forall row, In row rsrc -> scalar (rvalc c row).
  Hypothesis HtokL : m_tokb tokv = true -> forall row, In row lsrc -> cell_missing (lvalc c row) = false ->
    is_exc (tokenize (lvalc c row)) = false.
  Hypothesis HtokR : m_tokb tokv = true -> forall row, In row rsrc -> cell_missing (rvalc c row) = false ->
    is_exc (tokenize (rvalc c row)) = false.
  Hypothesis Hsim : forall lrow rrow, In lrow lsrc -> In rrow rsrc ->
    cell_missing (lvalc c lrow) = false -> cell_missing (rvalc c rrow) = false ->
    is_exc (sim_fn (e_tk tokv tokenize (lvalc c lrow)) (e_tk tokv tokenize (rvalc c rrow))) = false /\
    is_exc (cf (sim_fn (e_tk tokv tokenize (lvalc c lrow)) (e_tk tokv tokenize (rvalc c rrow))) t) = false.

  Theorem C10_code_njobs_apply_matcher nj1 cp1 showp1 nj2 cp2 showp2 :
    cm_call c cc clk crk lsrc rsrc csrc op am t tokv showp1 nj1 cp1 tokenize sim_fn
    = cm_call c cc clk crk lsrc rsrc csrc op am t tokv showp2 nj2 cp2 tokenize sim_fn.
  Proof using All.
    rewrite (C05_code_apply_matcher_rows c cc clk crk lsrc rsrc csrc op cf am t tokv showp1 nj1 cp1 tokenize sim_fn kz zk
               Hwf Hclk Hcrk Hlsrc Hrsrc Hcsrc Hvout Hop Htokv Hn HndL HndR HkzL HkzR Hzk Hfound HscalL HscalR HtokL HtokR Hsim).
    rewrite (C05_code_apply_matcher_rows c cc clk crk lsrc rsrc csrc op cf am t tokv showp2 nj2 cp2 tokenize sim_fn kz zk
               Hwf Hclk Hcrk Hlsrc Hrsrc Hcsrc Hvout Hop Htokv Hn HndL HndR HkzL HkzR Hzk Hfound HscalL HscalR HtokL HtokR Hsim).
    reflexivity.
  Qed.
End NjobsMatcher.

Print Assumptions C06_code_filter_candset.
Print Assumptions C06_code_drop.
Print Assumptions C10_code_njobs_filter_candset.
Print Assumptions C10_code_njobs_apply_matcher.
