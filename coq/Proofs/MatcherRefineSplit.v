(* Link between the explicit row-wise functions of MatcherRefineLoop / MatcherRefineCandLoop (what the GENERATED
   per-chunk loops compute) and the hand-written models of Model/Matcher.v.

   Abstraction of the concrete tables (any key encoding kz : cell -> Z that agrees with Python == on the key
   cells, with a decoding zk):
       mrows ki mi rows     the model's table: (kz key cell, value id), value id = the POSITION of the row,
                            None when the match cell is missing
       simz a b             sim_function(prepared match cell of left row a, of right row b)
       crow_of crow         (first cell, kz left key cell, kz right key cell)
   Results:
       split_link     flat_map row_out crows = map proj_row (matcher_split simz .. (map crow_of crows))
                      proj_row = the declared output projection: _id, the two key cells, the requested cells of
                      the two table rows with those keys, and the score (NaN when a match value is missing)
       candset_link   filter cand_keep crows = the rows at the positions candset_split dropz (cand_of crows)
   Lists / Z only; axiom-free.                                                                       *)
From Coq Require Import ZArith Bool List String Lia.
From SSJ Require Import F64 PyNum HelperGen Filters Api Matcher MatcherFacts ProjSpec ProjectionFacts JoinGenFacts
     Frame MatcherRefineBase MatcherRefineLoop MatcherRefineCandLoop.
Import ListNotations.
Open Scope Z_scope.

(* ---------------------------------------------------------------- generic list facts *)
Fixpoint enum_from {A : Type} (s : nat) (l : list A) : list (nat * A) :=
  match l with [] => [] | x :: t => (s, x) :: enum_from (S s) t end.

Lemma enum_from_snd {A} (l : list A) : forall s, map snd (enum_from s l) = l.
Proof. induction l as [|x l IH]; intros s; cbn [enum_from map snd]; [reflexivity | now rewrite IH]. Qed.

Lemma enum_from_nth {A} (d : A) (l : list A) : forall s ir, In ir (enum_from s l) ->
  (s <= fst ir)%nat /\ nth (fst ir - s) l d = snd ir.
Proof.
  induction l as [|x l IH]; intros s ir H; [destruct H|]. cbn [enum_from] in H.
  destruct H as [<-|H]; cbn [fst snd].
  - rewrite Nat.sub_diag. split; [lia | reflexivity].
  - destruct (IH (S s) ir H) as [Hle E]. split; [lia|].
    replace (fst ir - s)%nat with (S (fst ir - S s)) by lia. exact E.
Qed.

Lemma enum_from_filter {A} (q : A -> bool) (l : list A) : forall s,
  map snd (filter (fun ir : nat * A => q (snd ir)) (enum_from s l)) = filter q l.
Proof.
  induction l as [|x l IH]; intros s; [reflexivity|]. cbn [enum_from filter snd].
  destruct (q x); cbn [map snd]; [f_equal|]; apply IH.
Qed.

Lemma find_ext_in {A} (p q : A -> bool) (l : list A) :
  (forall x, In x l -> p x = q x) -> find p l = find q l.
Proof.
  induction l as [|x l IH]; intros H; [reflexivity|]. cbn [find].
  rewrite (H x (or_introl eq_refl)). destruct (q x); [reflexivity|].
  apply IH. intros y Hy. apply H. right. exact Hy.
Qed.

Lemma find_map {A B} (p : B -> bool) (g : A -> B) (l : list A) :
  find p (map g l) = option_map g (find (fun x => p (g x)) l).
Proof.
  induction l as [|x l IH]; [reflexivity|]. cbn [map find]. destruct (p (g x)); [reflexivity | exact IH].
Qed.

(* with distinct keys the dictionary's "last row wins" is "the first row with the key" *)
Lemma lookup_find (T : list mrow) k : NoDup (map fst T) ->
  lookup k T = option_map snd (find (fun e : mrow => fst e =? k) T).
Proof.
  induction T as [|[k' v] T IH]; intros Hnd; [reflexivity|].
  inversion Hnd as [|? ? Hni Hnd']; subst. cbn [lookup find fst].
  rewrite (Z.eqb_sym k k').
  destruct (Z.eqb_spec k' k) as [->|Hne].
  - assert (E : lookup k T = None) by (apply lookup_None; exact Hni). rewrite E. reflexivity.
  - rewrite (IH Hnd'). destruct (find _ T); reflexivity.
Qed.

Section Link.
  Variables (lc rc cc : list string) (lrows rrows : list (list pyval)).
  Variables (lk rk lm rm clk crk : string) (lo ro : option (list string)).
  Variables (ws am : bool) (op : string) (cf : pyval -> pyval -> pyval) (t tokv ltokv rtokv : pyval).
  Variables (tokenize : pyval -> pyval) (sim_fn : pyval -> pyval -> pyval).
  Variables (kz : pyval -> Z) (zk : Z -> pyval).

  Notation ki := (m_ki lc lk).
  Notation mi := (m_mi lc lm).
  Notation li := (m_li lc lo).
  Notation kj := (m_kj rc rk).
  Notation mj := (m_mj rc rm).
  Notation ri := (m_ri rc ro).
  Notation cki := (m_cki cc clk).
  Notation ckj := (m_ckj cc crk).
  Notation rowout := (row_out lc rc cc lrows rrows lk rk lm rm clk crk lo ro ws am cf t tokv ltokv rtokv tokenize sim_fn).
  Notation rowhyps := (row_hyps lc rc cc lrows rrows lk rk lm rm clk crk cf t tokv ltokv rtokv tokenize sim_fn).

  (* ---- the abstraction ---- *)
  Definition tk (cell : pyval) : pyval := if m_tokb tokv then tokenize cell else cell.
  Definition simz (a b : Z) : pyval :=
    sim_fn (tk (nth mi (nth (Z.to_nat a) lrows []) PNone)) (tk (nth mj (nth (Z.to_nat b) rrows []) PNone)).
  Definition vid (m i : nat) (row : list pyval) : option Z :=
    if cell_missing (nth m row PNone) then None else Some (Z.of_nat i).
  Definition mrows (k m : nat) (rows : list (list pyval)) : list mrow :=
    map (fun ir : nat * list pyval => (kz (nth k (snd ir) PNone), vid m (fst ir) (snd ir))) (enum_from 0 rows).
  Definition crow_of (crow : list pyval) : Matcher.crow :=
    (nth 0 crow PNone, kz (nth cki crow PNone), kz (nth ckj crow PNone)).
  Definition find_key (k : nat) (rows : list (list pyval)) (z : Z) : option (list pyval) :=
    find (fun row => kz (nth k row PNone) =? z) rows.

  (* the declared output projection of a model row *)
  Definition proj_row (r : pyval * Z * Z * pyval) : list pyval :=
    let '(id, lz, rz, s) := r in
    match find_key ki lrows lz, find_key kj rrows rz with
    | Some lrow, Some rrow =>
        (id :: zk lz :: zk rz
            :: (map (fun n => nth n lrow PNone) li ++ map (fun n => nth n rrow PNone) ri))
        ++ (if ws then [if cell_missing (nth mi lrow PNone) || cell_missing (nth mj rrow PNone)
                        then py_nan else s] else [])
    | _, _ => []
    end.

  (* ---- hypotheses ---- *)
  Hypothesis HndL : NoDup (map (fun row => kz (nth ki row PNone)) lrows).
  Hypothesis HndR : NoDup (map (fun row => kz (nth kj row PNone)) rrows).
  Hypothesis HzkL : forall row, In row lrows -> zk (kz (nth ki row PNone)) = nth ki row PNone.
  Hypothesis HzkR : forall row, In row rrows -> zk (kz (nth kj row PNone)) = nth kj row PNone.
  Hypothesis Hop : comp_op_map op = Some cf.

  (* a candidate row's key cells: == on them agrees with kz, and zk decodes them *)
  Definition key_hyps (crow : list pyval) : Prop :=
    (forall row, In row lrows ->
       pv_eqb (nth ki row PNone) (nth cki crow PNone) = (kz (nth ki row PNone) =? kz (nth cki crow PNone))) /\
    (forall row, In row rrows ->
       pv_eqb (nth kj row PNone) (nth ckj crow PNone) = (kz (nth kj row PNone) =? kz (nth ckj crow PNone))) /\
    zk (kz (nth cki crow PNone)) = nth cki crow PNone /\ zk (kz (nth ckj crow PNone)) = nth ckj crow PNone.

  (* the token cache, when it is used, holds tokenize(match value) under the candidate's key cells *)
  Definition cache_hyps (crow : list pyval) : Prop :=
    m_tokb tokv = true -> m_cacheb ltokv rtokv = true ->
    forall lrow rrow,
      find_row ki lrows (nth cki crow PNone) = Some lrow -> find_row kj rrows (nth ckj crow PNone) = Some rrow ->
      cell_missing (nth mi lrow PNone) || cell_missing (nth mj rrow PNone) = false ->
      py_getitem ltokv (nth cki crow PNone) = tokenize (nth mi lrow PNone) /\
      py_getitem rtokv (nth ckj crow PNone) = tokenize (nth mj rrow PNone).

  Lemma find_row_key k rows kc row :
    (forall r, In r rows -> pv_eqb (nth k r PNone) kc = (kz (nth k r PNone) =? kz kc)) ->
    find_row k rows kc = Some row -> find_key k rows (kz kc) = Some row.
  Proof. intros H F. unfold find_key. rewrite <- F. unfold find_row. symmetry. apply find_ext_in. exact H. Qed.

  Lemma find_enum_from (q : list pyval -> bool) rows : forall s row,
    find q rows = Some row ->
    exists i, find (fun ir : nat * list pyval => q (snd ir)) (enum_from s rows) = Some (i, row) /\
              (s <= i)%nat /\ nth (i - s) rows [] = row.
  Proof.
    induction rows as [|r rows IH]; intros s row F; [discriminate|]. cbn [find enum_from snd] in *.
    destruct (q r).
    - injection F as ->. exists s. split; [reflexivity|]. rewrite Nat.sub_diag. split; [lia | reflexivity].
    - destruct (IH (S s) row F) as (i & E & Hle & Hn). exists i. split; [exact E|]. split; [lia|].
      replace (i - s)%nat with (S (i - S s)) by lia. exact Hn.
  Qed.

  Lemma mrows_keys k m rows : map fst (mrows k m rows) = map (fun row => kz (nth k row PNone)) rows.
  Proof.
    unfold mrows. rewrite map_map. cbn [fst]. rewrite <- (enum_from_snd rows 0%nat) at 2. now rewrite map_map.
  Qed.

  (* the model's dictionary lookup finds the same row, and its value id is the row's position *)
  Lemma lookup_mrows k m rows z row : NoDup (map (fun r => kz (nth k r PNone)) rows) ->
    find_key k rows z = Some row ->
    exists i, lookup z (mrows k m rows) = Some (vid m i row) /\ nth i rows [] = row.
  Proof.
    intros Hnd F. rewrite lookup_find by (rewrite mrows_keys; exact Hnd).
    unfold mrows. rewrite find_map. cbn [fst].
    destruct (find_enum_from (fun r => kz (nth k r PNone) =? z) rows 0%nat row F) as (i & E & _ & Hn).
    rewrite E. cbn [option_map snd fst]. exists i. split; [reflexivity|]. now rewrite Nat.sub_0_r in Hn.
  Qed.

  Lemma find_key_kz k rows z row : find_key k rows z = Some row -> In row rows /\ kz (nth k row PNone) = z.
  Proof. unfold find_key. intros F. apply find_some in F. destruct F as [Hin E]. split; [exact Hin|]. now apply Z.eqb_eq. Qed.

  (* ---- one candidate row ---- *)
  Lemma row_link crow : rowhyps crow -> key_hyps crow -> cache_hyps crow ->
    rowout crow
    = map proj_row (match match_row simz t op am ws (mrows ki mi lrows) (mrows kj mj rrows) (crow_of crow) with
                    | Some r => [r] | None => [] end).
  Proof.
    intros (lrow & rrow & Fl & Fr & Sl & Sr & Hpres) (HkL & HkR & HzL & HzR) Hcache.
    pose proof (find_row_key ki lrows _ lrow HkL Fl) as Kl.
    pose proof (find_row_key kj rrows _ rrow HkR Fr) as Kr.
    destruct (lookup_mrows ki mi lrows _ lrow HndL Kl) as (i & Ll & Ni).
    destruct (lookup_mrows kj mj rrows _ rrow HndR Kr) as (j & Lr & Nj).
    destruct (find_key_kz _ _ _ _ Kl) as [Hl Zl]. destruct (find_key_kz _ _ _ _ Kr) as [Hr Zr].
    unfold row_out. rewrite Fl, Fr. cbv zeta.
    unfold match_row, crow_of. rewrite Ll, Lr. unfold vid.
    assert (Ecells : out_cells lc rc cc lk rk clk crk lo ro crow lrow rrow
                     = nth 0 crow PNone :: zk (kz (nth cki crow PNone)) :: zk (kz (nth ckj crow PNone))
                         :: (map (fun n => nth n lrow PNone) li ++ map (fun n => nth n rrow PNone) ri)).
    { unfold out_cells. destruct (m_has lo ro) eqn:Eh.
      - rewrite <- Zl, <- Zr, (HzkL lrow Hl), (HzkR rrow Hr). reflexivity.
      - rewrite HzL, HzR. unfold m_has in Eh. destruct lo; [discriminate|]. destruct ro; [discriminate|]. reflexivity. }
    destruct (cell_missing (nth mi lrow PNone)) eqn:Ma; [|destruct (cell_missing (nth mj rrow PNone)) eqn:Mb]; cbn [orb].
    - (* left value missing *)
      destruct am; [|destruct (cell_missing (nth mj rrow PNone)); reflexivity].
      assert (E : map proj_row [(nth 0 crow PNone, kz (nth cki crow PNone), kz (nth ckj crow PNone), PNone)]
                  = [scored ws py_nan (out_cells lc rc cc lk rk clk crk lo ro crow lrow rrow)]).
      { cbn [map proj_row]. rewrite Kl, Kr, Ma, Ecells. cbn [orb]. reflexivity. }
      destruct (cell_missing (nth mj rrow PNone)); symmetry; exact E.
    - (* right value missing *)
      destruct am; [|reflexivity]. cbn [map proj_row]. rewrite Kl, Kr, Ma, Mb, Ecells. cbn [orb]. reflexivity.
    - (* both present *)
      assert (Epres : cell_missing (nth mi lrow PNone) || cell_missing (nth mj rrow PNone) = false)
        by (rewrite Ma, Mb; reflexivity).
      assert (Es : pair_score lc rc cc lm rm clk crk tokv ltokv rtokv tokenize sim_fn crow lrow rrow
                   = simz (Z.of_nat i) (Z.of_nat j)).
      { unfold pair_score, simz, prep, tk. rewrite !Nat2Z.id, Ni, Nj.
        destruct (m_tokb tokv) eqn:Et; [|reflexivity].
        destruct (m_cacheb ltokv rtokv) eqn:Ec; [|reflexivity].
        destruct (Hcache Et Ec lrow rrow Fl Fr Epres) as [-> ->]. reflexivity. }
      rewrite Es. rewrite (cmp_op_cf op cf _ _ Hop).
      destruct (py_truth (cf (simz (Z.of_nat i) (Z.of_nat j)) t)); [|reflexivity].
      cbn [map proj_row]. rewrite Kl, Kr, Ma, Mb, Ecells. cbn [orb]. unfold scored.
      destruct ws; reflexivity.
  Qed.

  Theorem split_link crows :
    (forall crow, In crow crows -> rowhyps crow /\ key_hyps crow /\ cache_hyps crow) ->
    flat_map rowout crows
    = map proj_row (matcher_split simz t op am ws (mrows ki mi lrows) (mrows kj mj rrows) (map crow_of crows)).
  Proof.
    unfold matcher_split. induction crows as [|crow crows IH]; intros H; [reflexivity|].
    cbn [flat_map map]. rewrite map_app.
    destruct (H crow (or_introl eq_refl)) as (H1 & H2 & H3).
    rewrite <- (row_link crow H1 H2 H3). f_equal. apply IH. intros c Hc. apply H. right. exact Hc.
  Qed.
End Link.

(* ---------------------------------------------------------------- filter_candset *)
Section CandLink.
  Variables (lc rc cc : list string) (lrows rrows : list (list pyval)).
  Variables (lk rk lf rf clk crk : string) (filter_pair : pyval -> pyval -> pyval).
  Variables (kz : pyval -> Z).

  Notation ki := (c_ki lc lk).
  Notation fi := (c_fi lc lf).
  Notation kj := (c_kj rc rk).
  Notation fj := (c_fj rc rf).
  Notation cki := (c_cki cc clk).
  Notation ckj := (c_ckj cc crk).
  Notation keep := (cand_keep lc rc cc lrows rrows lk rk lf rf clk crk filter_pair).
  Notation chyps := (cand_hyps lc rc cc lrows rrows lk rk lf rf clk crk filter_pair).

  (* filter_pair on the filter values of the rows with keys (lz, rz) *)
  Definition dropz (lz rz : Z) : bool :=
    match find_key kz ki lrows lz, find_key kz kj rrows rz with
    | Some lrow, Some rrow => py_truth (filter_pair (nth fi lrow PNone) (nth fj rrow PNone))
    | _, _ => true
    end.
  (* the model's candidate set: (position, kz left key, kz right key) *)
  Definition cand_of (crows : list (list pyval)) : list (nat * Z * Z) :=
    map (fun ir : nat * list pyval => (fst ir, kz (nth cki (snd ir) PNone), kz (nth ckj (snd ir) PNone)))
        (enum_from 0 crows).

  Definition ckey_hyps (crow : list pyval) : Prop :=
    (forall row, In row lrows ->
       pv_eqb (nth ki row PNone) (nth cki crow PNone) = (kz (nth ki row PNone) =? kz (nth cki crow PNone))) /\
    (forall row, In row rrows ->
       pv_eqb (nth kj row PNone) (nth ckj crow PNone) = (kz (nth kj row PNone) =? kz (nth ckj crow PNone))).

  Lemma keep_dropz crow : chyps crow -> ckey_hyps crow ->
    keep crow = negb (dropz (kz (nth cki crow PNone)) (kz (nth ckj crow PNone))).
  Proof.
    intros (lrow & rrow & Fl & Fr & _) (HkL & HkR). unfold cand_keep, dropz.
    rewrite (find_row_key kz ki lrows _ lrow HkL Fl), (find_row_key kz kj rrows _ rrow HkR Fr), Fl, Fr.
    reflexivity.
  Qed.

  Lemma candset_split_enum (crows : list (list pyval)) : forall s,
    (forall crow, In crow crows -> chyps crow /\ ckey_hyps crow) ->
    candset_split dropz
      (map (fun ir : nat * list pyval => (fst ir, kz (nth cki (snd ir) PNone), kz (nth ckj (snd ir) PNone)))
           (enum_from s crows))
    = map fst (filter (fun ir : nat * list pyval => keep (snd ir)) (enum_from s crows)).
  Proof.
    unfold candset_split. induction crows as [|crow crows IH]; intros s H; [reflexivity|].
    cbn [enum_from map flat_map filter fst snd].
    destruct (H crow (or_introl eq_refl)) as [H1 H2]. rewrite (keep_dropz crow H1 H2).
    rewrite (IH (S s)) by (intros c Hc; apply H; right; exact Hc).
    destruct (dropz _ _); reflexivity.
  Qed.

  (* the generated function keeps exactly the candidate rows at the positions the model computes *)
  Theorem candset_link crows :
    (forall crow, In crow crows -> chyps crow /\ ckey_hyps crow) ->
    filter keep crows = map (fun i => nth i crows []) (candset_split dropz (cand_of crows)).
  Proof.
    intros H. unfold cand_of. rewrite (candset_split_enum crows 0%nat H). rewrite map_map.
    assert (E : map (fun ir : nat * list pyval => nth (fst ir) crows [])
                    (filter (fun ir : nat * list pyval => keep (snd ir)) (enum_from 0 crows))
                = map snd (filter (fun ir : nat * list pyval => keep (snd ir)) (enum_from 0 crows))).
    { apply map_ext_in. intros ir Hir. apply filter_In in Hir. destruct Hir as [Hir _].
      destruct (enum_from_nth [] crows 0%nat ir Hir) as [_ En]. now rewrite Nat.sub_0_r in En. }
    rewrite E. symmetry. apply enum_from_filter.
  Qed.
End CandLink.

Print Assumptions split_link.
Print Assumptions candset_link.
