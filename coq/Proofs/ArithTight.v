(* C14, arithmetic part: the size window of JACCARD / COSINE / DICE is TIGHT.
   F4: if the count b lies inside the window computed from the count a, the best similarity
   attainable with these two counts (one token set included in the other) is at least
   t - 1/10000 in the reals.  Contrapositive: SizeFilter drops every pair whose counts put the
   best attainable similarity more than 1e-4 below the threshold.
   Also: position-filter candidates are size-filter candidates (uses F5).
   Reals-based file: only the standard Reals/Flocq axioms appear in Print Assumptions.        *)
From Coq Require Import ZArith Reals Lia Lra Psatz SpecFloat Bool String List.
From Flocq Require Import Core BinarySingleNaN Relative.
From SSJ Require Import F64 F64Spec PyNum FilterUtilsGen Measures ArithSpec ArithCommon.
From SSJ Require Import ArithJ ArithC ArithD TokenOrdering Filters PyFacts FilterRefine.
Open Scope string_scope.
Open Scope R_scope.

(* ------------------------------------------------------------------ *)
(** * 0. Statements                                                    *)

Definition F4_stmt (m : string) (best : Z -> Z -> R) : Prop :=
  forall (t : f64) (a b lb ub : Z),
    env_t t = true -> (1 <= a < size_bound)%Z -> (1 <= b < size_bound)%Z ->
    lbZ m (PFloat t) a = Some lb -> ubZ m (PFloat t) a = Some ub -> (lb <= b <= ub)%Z ->
    best a b >= FR t - 1 / 10000.

(* best attainable similarity of two token sets with a and b elements: one included in the other *)
Definition bestJ (a b : Z) : R := IZR (Z.min a b) / IZR (Z.max a b).
Definition bestC (a b : Z) : R := sqrt (IZR (Z.min a b) / IZR (Z.max a b)).
Definition bestD (a b : Z) : R := 2 * IZR (Z.min a b) / IZR (a + b).

(* ------------------------------------------------------------------ *)
(** * 1. Converse rounding facts for round(v, 4), ceil, floor          *)

Lemma R4_lo : forall v, 0 <= v -> (v - / 20000) * (1 - eps) <= R4 v.
Proof.
intros v Hv. unfold R4.
pose proof (Znearest_half (fun n => negb (Z.even n)) (v * 10000)) as Hh.
apply Rabs_le_inv in Hh.
pose proof (ZnearestE_ge_0 (v * 10000) ltac:(lra)) as HN0.
set (N := ZnearestE (v * 10000)) in *.
pose proof eps_val as He. pose proof eps_pos as He0.
assert (Hd : 0 <= 1 - eps) by (rewrite He; lra).
destruct (Z.eq_dec N 0) as [E|E].
- rewrite E in *. unfold Rdiv. rewrite Rmult_0_l, RN_0.
  assert (v - / 20000 <= 0) by lra.
  assert ((v - / 20000) * (1 - eps) <= 0 * (1 - eps)) by (apply Rmult_le_compat_r; lra).
  lra.
- assert (H1 : 1 <= IZR N) by (apply IZR_le; lia).
  assert (Hx : / 1267650600228229401496703205376 <= IZR N / 10000) by lra.
  pose proof (RN_dn' _ Hx) as Hr.
  assert ((v - / 20000) * (1 - eps) <= IZR N / 10000 * (1 - eps))
    by (apply Rmult_le_compat_r; lra).
  lra.
Qed.

Lemma R4_hi : forall v, 0 <= v -> R4 v <= (v + / 20000) * (1 + eps).
Proof.
intros v Hv. unfold R4.
pose proof (Znearest_half (fun n => negb (Z.even n)) (v * 10000)) as Hh.
apply Rabs_le_inv in Hh.
pose proof (ZnearestE_ge_0 (v * 10000) ltac:(lra)) as HN0.
set (N := ZnearestE (v * 10000)) in *.
pose proof eps_val as He. pose proof eps_pos as He0.
destruct (Z.eq_dec N 0) as [E|E].
- rewrite E in *. unfold Rdiv. rewrite Rmult_0_l, RN_0.
  apply Rmult_le_pos; lra.
- assert (H1 : 1 <= IZR N) by (apply IZR_le; lia).
  assert (Hx : / 1267650600228229401496703205376 <= IZR N / 10000) by lra.
  pose proof (RN_up' _ Hx) as Hr.
  assert (IZR N / 10000 * (1 + eps) <= (v + / 20000) * (1 + eps))
    by (apply Rmult_le_compat_r; lra).
  lra.
Qed.

Lemma toZ_PInt : forall v z, toZ v = Some z -> v = PInt z.
Proof. intros v z0 H. destruct v; try discriminate. simpl in H. now injection H as ->. Qed.

(* lb <= b means  round(x,4) <= b,  hence  x <= b + 1/20000 (+ float noise) *)
Lemma lb_inv : forall m t n x lb b,
  lbZ m (PFloat t) n = toZ (py_int (py_ceil (PFloat (f_round_nd x 4)))) ->
  fin x -> 0 <= FR x <= B99 -> lbZ m (PFloat t) n = Some lb -> (lb <= b)%Z ->
  (FR x - / 20000) * (1 - eps) <= IZR b.
Proof.
intros m t n x lb b E Hf Hr Elb Hb. unfold B99 in Hr.
destruct (f_round_4_spec x Hf) as [[_ H1] H2].
{ rewrite Rabs_pos_eq by lra. lra. }
rewrite E, (toZ_int_ceil _ H1) in Elb. injection Elb as Elb.
rewrite f_ceil_spec, H2 in Elb.
pose proof (Zceil_ub (R4 (FR x))) as Hc. rewrite Elb in Hc.
pose proof (R4_lo (FR x) ltac:(lra)) as Hl.
apply IZR_le in Hb. lra.
Qed.

(* b <= ub means  b <= round(x,4),  hence  b <= x + 1/20000 (+ float noise) *)
Lemma ub_inv : forall m t n x ub b,
  ubZ m (PFloat t) n = toZ (py_int (py_floor (PFloat (f_round_nd x 4)))) ->
  fin x -> 0 <= FR x <= B99 -> ubZ m (PFloat t) n = Some ub -> (b <= ub)%Z ->
  IZR b <= (FR x + / 20000) * (1 + eps).
Proof.
intros m t n x ub b E Hf Hr Eub Hb. unfold B99 in Hr.
destruct (f_round_4_spec x Hf) as [[_ H1] H2].
{ rewrite Rabs_pos_eq by lra. lra. }
rewrite E, (toZ_int_floor _ H1) in Eub. injection Eub as Eub.
rewrite f_floor_spec, H2 in Eub.
pose proof (Zfloor_lb (R4 (FR x))) as Hc. rewrite Eub in Hc.
pose proof (R4_hi (FR x) ltac:(lra)) as Hl.
apply IZR_le in Hb. lra.
Qed.

Lemma ge_div : forall x a b, 0 < a -> x * a <= b -> b / a >= x.
Proof.
intros x a b Ha H. apply Rle_ge. apply le_of_mul_r with a. exact Ha.
rewrite div_mul by exact Ha. exact H.
Qed.

(* ------------------------------------------------------------------ *)
(** * 2. JACCARD, real level                                           *)

Lemma J4_lb_real : forall T a b v : R,
  / 1073741824 <= T <= 1 -> 1 <= a <= 1048575 ->
  v = RN (T * a) -> (v - / 20000) * (1 - eps) <= b ->
  (T - / 10000) * a <= b.
Proof.
intros T a b v HT Ha Hv H.
assert (HP : / 1073741824 * 1 <= T * a <= 1 * a) by (apply mul_bounds; lra).
assert (H0 : / 1267650600228229401496703205376 <= T * a) by lra.
pose proof (RN_dn' _ H0) as R1. rewrite <- Hv in R1.
pose proof eps_val as He. rewrite He in *.
set (P := T * a) in *.
replace ((T - / 10000) * a) with (P - a * / 10000) by (unfold P; ring).
assert (H1 : (P * (1 - / 9007199254740992) - / 20000) * (1 - / 9007199254740992) <= b).
{ assert ((P * (1 - / 9007199254740992) - / 20000) * (1 - / 9007199254740992)
          <= (v - / 20000) * (1 - / 9007199254740992)) by (apply Rmult_le_compat_r; lra).
  lra. }
lra.
Qed.

Lemma J4_ub_real : forall T a b v : R,
  / 1073741824 <= T <= 1 -> 1 <= a -> a <= b -> b <= 1048575 ->
  v = RN (a / T) -> b <= (v + / 20000) * (1 + eps) ->
  (T - / 10000) * b <= a.
Proof.
intros T a b v HT Ha Hab Hb Hv H.
assert (HT0 : 0 < T) by lra.
set (X := a / T) in *.
assert (HX : X * T = a) by (apply div_mul; lra).
assert (HXb : a <= X <= 1048575 * 1073741824).
{ apply div_bounds. lra. split.
  - assert (a * T <= a * 1) by (apply Rmult_le_compat_l; lra). lra.
  - assert (1048575 * 1073741824 * / 1073741824 <= 1048575 * 1073741824 * T)
      by (apply Rmult_le_compat_l; lra). lra. }
assert (H0 : / 1267650600228229401496703205376 <= X) by lra.
pose proof (RN_up' _ H0) as R1. rewrite <- Hv in R1.
pose proof eps_val as He. rewrite He in *.
set (u := 1 + / 9007199254740992) in *.
assert (H1 : b <= (X * u + / 20000) * u).
{ assert ((v + / 20000) * u <= (X * u + / 20000) * u)
    by (apply Rmult_le_compat_r; unfold u in *; lra). lra. }
assert (H2 : b * T <= (X * u + / 20000) * u * T) by (apply Rmult_le_compat_r; lra).
replace ((X * u + / 20000) * u * T) with ((X * T * u + / 20000 * T) * u) in H2 by ring.
rewrite HX in H2.
set (Q := b * T) in *.
replace ((T - / 10000) * b) with (Q - b * / 10000) by (unfold Q; ring).
unfold u in *. lra.
Qed.

(* ------------------------------------------------------------------ *)
(** * 3. DICE, real level                                              *)

Lemma D4_lb_real : forall T a b E Y w v : R,
  / 1073741824 <= T <= 1 -> 1 <= a <= 1048575 -> RN a = a -> 1 <= b -> b <= a ->
  E = RN (2 - T) -> Y = T / E -> w = RN Y -> v = RN (w * a) ->
  (v - / 20000) * (1 - eps) <= b ->
  (T - / 10000) * (a + b) <= 2 * b.
Proof.
intros T a b E Y w v HT Ha Haa Hb Hba HE HY Hw Hv H.
destruct (D_lb_range T a E Y w v HT ltac:(lra) Haa HE HY Hw Hv)
  as (_ & _ & _ & _ & HYE & HYb & [W1 _] & [V1 _]).
destruct (D_E T E HT HE) as (_ & E0 & [_ E1]).
clear HE HY Hw Hv Haa.
pose proof eps_val as He. pose proof eps_pos as He0.
set (d := 1 - eps) in *. set (u := 1 + eps) in *.
assert (Hd : 0 <= d <= 1) by (unfold d; rewrite He; lra).
assert (Hu : 1 <= u) by (unfold u; lra).
assert (A1 : Y * a * (d * d) <= v).
{ assert (Y * d * a <= w * a) by (apply Rmult_le_compat_r; lra).
  assert (Y * d * a * d <= w * a * d) by (apply Rmult_le_compat_r; lra).
  replace (Y * a * (d * d)) with (Y * d * a * d) by ring. lra. }
assert (A2 : Y * a * (d * d) * d <= b + / 20000 * d).
{ assert (Y * a * (d * d) * d <= v * d) by (apply Rmult_le_compat_r; lra).
  replace ((v - / 20000) * d) with (v * d - / 20000 * d) in H by ring. lra. }
assert (A3 : T <= Y * ((2 - T) * u)).
{ rewrite <- HYE at 1. apply Rmult_le_compat_l; lra. }
assert (A4 : T * (a * (d * d * d)) <= Y * ((2 - T) * u) * (a * (d * d * d))).
{ apply Rmult_le_compat_r; [ | lra].
  apply Rmult_le_pos. lra. apply Rmult_le_pos; [apply Rmult_le_pos | ]; lra. }
assert (A5 : Y * a * (d * d) * d * ((2 - T) * u) <= (b + / 20000 * d) * ((2 - T) * u)).
{ apply Rmult_le_compat_r; [ | lra]. apply Rmult_le_pos; lra. }
assert (A6 : T * a * (d * d * d) <= (b + / 20000 * d) * ((2 - T) * u)).
{ replace (T * a * (d * d * d)) with (T * (a * (d * d * d))) by ring.
  replace (Y * ((2 - T) * u) * (a * (d * d * d)))
    with (Y * a * (d * d) * d * ((2 - T) * u)) in A4 by ring. lra. }
assert (HP : 0 * 1 <= T * a <= 1 * a) by (apply mul_bounds; lra).
assert (HQ : 0 * 1 <= T * b <= 1 * b) by (apply mul_bounds; lra).
clear - A6 HP HQ He Ha Hb Hba HT. unfold d, u in *. rewrite He in *.
set (P := T * a) in *. set (Q := T * b) in *.
replace ((T - / 10000) * (a + b)) with (P + Q - (a + b) * / 10000) by (unfold P, Q; ring).
set (e := / 9007199254740992) in *.
replace (T * a * ((1 - e) * (1 - e) * (1 - e))) with (P * ((1 - e) * (1 - e) * (1 - e))) in A6
  by (unfold P; ring).
replace ((b + / 20000 * (1 - e)) * ((2 - T) * (1 + e)))
  with ((2 * b - Q + / 20000 * (1 - e) * (2 - T)) * (1 + e)) in A6 by (unfold Q; ring).
unfold e in *. lra.
Qed.

Lemma D4_ub_real : forall T a b E Z w v : R,
  / 1073741824 <= T <= 1 -> 1 <= a -> RN a = a -> a <= b -> b <= 1048575 ->
  E = RN (2 - T) -> Z = E / T -> w = RN Z -> v = RN (w * a) ->
  b <= (v + / 20000) * (1 + eps) ->
  (T - / 10000) * (a + b) <= 2 * a.
Proof.
intros T a b E Z w v HT Ha Haa Hab Hb HE HZ Hw Hv H.
destruct (D_ub_range T a E Z w v HT ltac:(lra) Haa HE HZ Hw Hv)
  as (_ & _ & _ & _ & HZT & HZb & [_ W2] & [_ V2]).
destruct (D_E T E HT HE) as (_ & E0 & [_ E1]).
clear HE HZ Hw Hv Haa.
pose proof eps_val as He. pose proof eps_pos as He0.
set (u := 1 + eps) in *.
assert (Hu : 1 <= u) by (unfold u; lra).
assert (A1 : v <= Z * a * (u * u)).
{ assert (w * a <= Z * u * a) by (apply Rmult_le_compat_r; lra).
  assert (w * a * u <= Z * u * a * u) by (apply Rmult_le_compat_r; lra).
  replace (Z * a * (u * u)) with (Z * u * a * u) by ring. lra. }
assert (A2 : b <= (Z * a * (u * u) + / 20000) * u).
{ assert ((v + / 20000) * u <= (Z * a * (u * u) + / 20000) * u)
    by (apply Rmult_le_compat_r; lra). lra. }
assert (A3 : b * T <= (Z * a * (u * u) + / 20000) * u * T) by (apply Rmult_le_compat_r; lra).
replace ((Z * a * (u * u) + / 20000) * u * T)
  with ((Z * T * (a * (u * u)) + / 20000 * T) * u) in A3 by ring.
rewrite HZT in A3.
assert (A4 : E * (a * (u * u)) <= (2 - T) * u * (a * (u * u))).
{ apply Rmult_le_compat_r; [ | lra]. apply Rmult_le_pos. lra. apply Rmult_le_pos; lra. }
assert (A5 : b * T <= ((2 - T) * u * (a * (u * u)) + / 20000 * T) * u).
{ assert ((E * (a * (u * u)) + / 20000 * T) * u
          <= ((2 - T) * u * (a * (u * u)) + / 20000 * T) * u)
    by (apply Rmult_le_compat_r; lra). lra. }
assert (HP : 0 * 1 <= T * a <= 1 * a) by (apply mul_bounds; lra).
clear - A5 HP He Ha Hb Hab HT. unfold u in *. rewrite He in *.
set (P := T * a) in *. set (Q := b * T) in *.
replace ((T - / 10000) * (a + b)) with (P + Q - (a + b) * / 10000) by (unfold P, Q; ring).
set (e := / 9007199254740992) in *.
replace (((2 - T) * (1 + e) * (a * ((1 + e) * (1 + e))) + / 20000 * T) * (1 + e))
  with ((2 * a - P) * ((1 + e) * (1 + e) * (1 + e) * (1 + e)) + / 20000 * T * (1 + e)) in A5
  by (unfold P; ring).
unfold e in *. lra.
Qed.

(* ------------------------------------------------------------------ *)
(** * 4. COSINE, real level                                            *)

Definition kC : R := 6 / 100000.

(* from  T^2 * big <= small * (1 + 6e-5)  to  sqrt (small / big) >= T - 1e-4 *)
Lemma cos_final : forall T big small : R,
  0 <= T -> 0 < small -> small <= big ->
  T * T * big <= small * (1 + kC) ->
  sqrt (small / big) >= T - / 10000.
Proof.
intros T big small HT Hs Hsb H. unfold kC in H.
assert (Hb : 0 < big) by lra.
set (r := small / big).
assert (Hrb : r * big = small) by (apply div_mul; exact Hb).
assert (Hr : 0 <= r <= 1) by (apply div_bounds; lra).
assert (Hss : sqrt r * sqrt r = r) by (apply sqrt_sqrt; lra).
assert (Hs0 : 0 <= sqrt r) by apply sqrt_pos.
assert (Hs1 : sqrt r <= 1) by (rewrite <- sqrt_1; apply sqrt_le_1_alt; lra).
set (s := sqrt r) in *.
assert (H1 : T * T <= r * (1 + 6 / 100000)).
{ apply le_of_mul_r with big. exact Hb.
  replace (r * (1 + 6 / 100000) * big) with (r * big * (1 + 6 / 100000)) by ring.
  rewrite Hrb. exact H. }
destruct (Rle_or_lt (T - / 10000) s) as [Hc|Hc]; [lra | exfalso].
assert (H2 : (s + / 10000) * (s + / 10000) < T * T) by nra.
assert (H3 : s * s <= s) by nra.
rewrite <- Hss in H1.
replace ((s + / 10000) * (s + / 10000)) with (s * s + 2 * / 10000 * s + / 10000 * / 10000) in H2 by ring.
lra.
Qed.

Lemma C4_lb_real : forall T a b q v : R,
  / 1073741824 <= T <= 1 -> 1 <= a <= 1048575 -> RN a = a -> 1 <= b ->
  q = RN (T * T) -> v = RN (q * a) ->
  (v - / 20000) * (1 - eps) <= b ->
  T * T * a <= b * (1 + kC).
Proof.
intros T a b q v HT Ha Haa Hb Hq Hv H.
destruct (C_lb_range T a q v HT ltac:(lra) Haa Hq Hv) as ([B1 _] & _ & _ & _).
destruct (C_q T q HT Hq) as (_ & Q0 & [Q1 _]).
pose proof (RN_pos_bounds _ B1) as [V1 _]. rewrite <- Hv in V1.
clear Hq Hv Haa. unfold d1 in Q1.
pose proof eps_val as He. pose proof eps_pos as He0.
set (d := 1 - eps) in *.
assert (Hd : 0 <= d <= 1) by (unfold d; rewrite He; lra).
assert (A1 : T * T * a * (d * d) <= v).
{ assert (T * T * d * a <= q * a) by (apply Rmult_le_compat_r; lra).
  assert (T * T * d * a * d <= q * a * d) by (apply Rmult_le_compat_r; lra).
  replace (T * T * a * (d * d)) with (T * T * d * a * d) by ring. lra. }
assert (A2 : T * T * a * (d * d) * d <= b + / 20000 * d).
{ assert (T * T * a * (d * d) * d <= v * d) by (apply Rmult_le_compat_r; lra).
  replace ((v - / 20000) * d) with (v * d - / 20000 * d) in H by ring. lra. }
assert (HS : 0 <= T * T * a).
{ apply Rmult_le_pos; [apply Rmult_le_pos | ]; lra. }
clear - A2 HS He Hb. unfold d, kC in *. rewrite He in *.
set (S := T * T * a) in *. lra.
Qed.

Lemma C4_ub_real : forall T a b q Z v : R,
  / 1073741824 <= T <= 1 -> 1 <= a -> RN a = a -> a <= b -> b <= 1048575 ->
  q = RN (T * T) -> Z = a / q -> v = RN Z ->
  b <= (v + / 20000) * (1 + eps) ->
  T * T * b <= a * (1 + kC).
Proof.
intros T a b q Z v HT Ha Haa Hab Hb Hq HZ Hv H.
destruct (C_ub_range T a q Z v HT ltac:(lra) Haa Hq HZ Hv)
  as (Hq0 & [B1 _] & _ & _ & HZq & _ & Z1).
destruct (C_q T q HT Hq) as (_ & Q0 & [Q1 _]).
pose proof (RN_pos_bounds _ B1) as [_ V2]. rewrite <- Hv in V2.
clear Hq Hv Haa HZ. unfold d1 in Q1.
pose proof eps_val as He. pose proof eps_pos as He0.
set (u := 1 + eps) in *. set (d := 1 - eps) in *.
assert (Hu : 1 <= u) by (unfold u; lra).
assert (Hd : 0 <= d <= 1) by (unfold d; rewrite He; lra).
assert (A1 : b <= (Z * u + / 20000) * u).
{ assert ((v + / 20000) * u <= (Z * u + / 20000) * u) by (apply Rmult_le_compat_r; lra). lra. }
assert (A2 : b * q <= (Z * u + / 20000) * u * q) by (apply Rmult_le_compat_r; lra).
replace ((Z * u + / 20000) * u * q) with ((Z * q * u + / 20000 * q) * u) in A2 by ring.
rewrite HZq in A2.
assert (A3 : T * T * d * b <= q * b) by (apply Rmult_le_compat_r; lra).
assert (A4 : (a * u + / 20000 * q) * u <= (a * u + / 20000 * 1) * u).
{ apply Rmult_le_compat_r. lra. lra. }
assert (HS : 0 <= T * T * b).
{ apply Rmult_le_pos; [apply Rmult_le_pos | ]; lra. }
assert (A5 : T * T * b * d <= (a * u + / 20000 * 1) * u).
{ replace (T * T * b * d) with (T * T * d * b) by ring. lra. }
clear - A5 HS He Ha. unfold d, u, kC in *. rewrite He in *.
set (S := T * T * b) in *. lra.
Qed.

(* ------------------------------------------------------------------ *)
(** * 5. The theorems                                                  *)

Lemma min_max_le : forall a b : Z, (a <= b)%Z -> Z.min a b = a /\ Z.max a b = b.
Proof. intros; lia. Qed.
Lemma min_max_ge : forall a b : Z, (b <= a)%Z -> Z.min a b = b /\ Z.max a b = a.
Proof. intros; lia. Qed.

Theorem F4_J : F4_stmt "JACCARD" bestJ.
Proof.
intros t a b lb ub Henv Ha Hb Elb Eub [H1 H2].
destruct (env_t_R t Henv) as [Ht HT].
pose proof (size_R a Ha) as Ha'. pose proof (size_R b Hb) as Hb'.
pose proof (size_21 a Ha) as Ha21.
unfold bestJ.
replace (FR t - 1 / 10000) with (FR t - / 10000) by lra.
destruct (Z_le_gt_dec b a) as [Hc|Hc].
- (* b <= a: the lower bound decides *)
  destruct (min_max_ge a b Hc) as [-> ->].
  destruct (xlbJ_spec t a Henv Ha21) as (Hf & Hx & Hlo & Hhi).
  assert (Hr : 0 <= FR (xlbJ t a) <= B99).
  { rewrite Hx. unfold B99, B100 in *. split. apply RN_ge_0. lra. lra. }
  pose proof (lb_inv "JACCARD" t a _ lb b (lbZ_J_eq t a) Hf Hr Elb H1) as Hi.
  rewrite Hx in Hi.
  apply ge_div. lra.
  apply (J4_lb_real (FR t) (IZR a) (IZR b) _ HT Ha' eq_refl Hi).
- (* a < b: the upper bound decides *)
  destruct (min_max_le a b ltac:(lia)) as [-> ->].
  destruct (xubJ_spec t a Henv Ha21) as (Hz & Hf & Hx & [Hlo Hhi] & Hge).
  destruct (RN_pos_crude _ Hlo) as [C1 C2].
  assert (Hr : 0 <= FR (xubJ t a) <= B99).
  { rewrite Hx. unfold B99, B100 in *. lra. }
  pose proof (ub_inv "JACCARD" t a _ ub b (ubZ_J_eq t a Hz) Hf Hr Eub H2) as Hi.
  rewrite Hx in Hi.
  apply ge_div. lra.
  assert (Hab : IZR a <= IZR b) by (apply IZR_le; lia).
  apply (J4_ub_real (FR t) (IZR a) (IZR b) (RN (IZR a / FR t)) HT);
    first [reflexivity | exact Hi | lra].
Qed.

Theorem F4_D : F4_stmt "DICE" bestD.
Proof.
intros t a b lb ub Henv Ha Hb Elb Eub [H1 H2].
destruct (env_t_R t Henv) as [Ht HT].
pose proof (size_R a Ha) as Ha'. pose proof (size_R b Hb) as Hb'.
pose proof (size_21 a Ha) as Ha21.
assert (Haa : RN (IZR a) = IZR a) by (apply RN_size; unfold size_bound in Ha; lia).
destruct (eD_spec t Henv) as (_ & _ & Hez).
assert (Htz : f_is_zero t = false) by (apply fin_pos_nz; [exact Ht | lra]).
unfold bestD. rewrite plus_IZR.
replace (FR t - 1 / 10000) with (FR t - / 10000) by lra.
destruct (Z_le_gt_dec b a) as [Hc|Hc].
- destruct (min_max_ge a b Hc) as [-> _].
  destruct (xlbD_spec t a Henv Ha21) as (Hf & Hx & Hr & _).
  pose proof (lb_inv "DICE" t a _ lb b (lbZ_D_eq t a Hez) Hf Hr Elb H1) as Hi.
  rewrite Hx in Hi.
  apply ge_div. lra.
  assert (Hba : IZR b <= IZR a) by (apply IZR_le; lia).
  apply (D4_lb_real (FR t) (IZR a) (IZR b) _ _ _ _ HT Ha' Haa ltac:(lra) Hba
           eq_refl eq_refl eq_refl eq_refl Hi).
- destruct (min_max_le a b ltac:(lia)) as [-> _].
  destruct (xubD_spec t a Henv Ha21) as (Hf & Hx & Hr & _).
  pose proof (ub_inv "DICE" t a _ ub b (ubZ_D_eq t a Htz) Hf Hr Eub H2) as Hi.
  rewrite Hx in Hi.
  apply ge_div. lra.
  assert (Hab : IZR a <= IZR b) by (apply IZR_le; lia).
  apply (D4_ub_real (FR t) (IZR a) (IZR b) _ _ _ _ HT ltac:(lra) Haa Hab ltac:(lra)
           eq_refl eq_refl eq_refl eq_refl Hi).
Qed.

Theorem F4_C : F4_stmt "COSINE" bestC.
Proof.
intros t a b lb ub Henv Ha Hb Elb Eub [H1 H2].
destruct (env_t_R t Henv) as [Ht HT].
pose proof (size_R a Ha) as Ha'. pose proof (size_R b Hb) as Hb'.
pose proof (size_21 a Ha) as Ha21.
assert (Haa : RN (IZR a) = IZR a) by (apply RN_size; unfold size_bound in Ha; lia).
destruct (qC_spec t Henv) as (_ & _ & Hqz).
unfold bestC.
replace (FR t - 1 / 10000) with (FR t - / 10000) by lra.
destruct (Z_le_gt_dec b a) as [Hc|Hc].
- destruct (min_max_ge a b Hc) as [-> ->].
  destruct (xlbC_spec t a Henv Ha21) as (Hf & Hx & Hr & _).
  pose proof (lb_inv "COSINE" t a _ lb b (lbZ_C_eq t a) Hf Hr Elb H1) as Hi.
  rewrite Hx in Hi.
  assert (Hba : IZR b <= IZR a) by (apply IZR_le; lia).
  apply cos_final; try lra.
  apply (C4_lb_real (FR t) (IZR a) (IZR b) _ _ HT Ha' Haa ltac:(lra) eq_refl eq_refl Hi).
- destruct (min_max_le a b ltac:(lia)) as [-> ->].
  destruct (xubC_spec t a Henv Ha21) as (Hf & Hx & Hr & _).
  pose proof (ub_inv "COSINE" t a _ ub b (ubZ_C_eq t a Hqz) Hf Hr Eub H2) as Hi.
  rewrite Hx in Hi.
  assert (Hab : IZR a <= IZR b) by (apply IZR_le; lia).
  apply cos_final; try lra.
  apply (C4_ub_real (FR t) (IZR a) (IZR b) _ _ _ HT ltac:(lra) Haa Hab ltac:(lra)
           eq_refl eq_refl eq_refl Hi).
Qed.

(* ------------------------------------------------------------------ *)
(** * 6. Consequences for the filter models                            *)

Definition setp (m : string) (t : f64) (q : Z) : fparams := {| fm := m; ft := PFloat t; fq := q |}.

(* SizeFilter.filter_pair drops every pair whose counts put the best attainable similarity
   more than 1e-4 below the threshold *)
Theorem F4_drop : forall m best, F4_stmt m best -> F5_stmt m ->
  forall (t : f64) (q : Z) (ae : bool) (a b : Z),
    env_t t = true -> (1 <= a < size_bound)%Z -> (1 <= b < size_bound)%Z ->
    best a b < FR t - 1 / 10000 ->
    size_filter_pair (setp m t q) ae a b = true.
Proof.
intros m best H4 H5 t q ae a b Henv Ha Hb Hlt.
destruct (H5 t q a Henv Ha) as (lb & ub & p & Elb & Eub & _).
unfold size_filter_pair.
assert (E : ((a =? 0)%Z && (b =? 0)%Z) = false).
{ destruct (Z.eqb_spec a 0); [lia | reflexivity]. }
rewrite E.
unfold g_lb, g_ub, setp. cbn [fm ft].
pose proof (toZ_PInt _ _ Elb) as Glb. pose proof (toZ_PInt _ _ Eub) as Gub.
unfold lbZ, ubZ in *. rewrite Glb, Gub, in_window_int.
destruct ((lb <=? b)%Z && (b <=? ub)%Z) eqn:W; [exfalso | reflexivity].
apply andb_prop in W. destruct W as [W1 W2].
apply Z.leb_le in W1. apply Z.leb_le in W2.
assert (Elb' : lbZ m (PFloat t) a = Some lb) by (unfold lbZ; rewrite Glb; reflexivity).
assert (Eub' : ubZ m (PFloat t) a = Some ub) by (unfold ubZ; rewrite Gub; reflexivity).
pose proof (H4 t a b lb ub Henv Ha Hb Elb' Eub' (conj W1 W2)) as Hge.
lra.
Qed.

Corollary F4_drop_J : forall t q ae a b,
  env_t t = true -> (1 <= a < size_bound)%Z -> (1 <= b < size_bound)%Z ->
  bestJ a b < FR t - 1 / 10000 -> size_filter_pair (setp "JACCARD" t q) ae a b = true.
Proof. exact (F4_drop "JACCARD" bestJ F4_J F5_J). Qed.
Corollary F4_drop_C : forall t q ae a b,
  env_t t = true -> (1 <= a < size_bound)%Z -> (1 <= b < size_bound)%Z ->
  bestC a b < FR t - 1 / 10000 -> size_filter_pair (setp "COSINE" t q) ae a b = true.
Proof. exact (F4_drop "COSINE" bestC F4_C F5_C). Qed.
Corollary F4_drop_D : forall t q ae a b,
  env_t t = true -> (1 <= a < size_bound)%Z -> (1 <= b < size_bound)%Z ->
  bestD a b < FR t - 1 / 10000 -> size_filter_pair (setp "DICE" t q) ae a b = true.
Proof. exact (F4_drop "DICE" bestD F4_D F5_D). Qed.

(* the same for the index-based candidate test (window from the probe count ny) *)
Theorem F4_cand : forall m best, F4_stmt m best -> F5_stmt m ->
  forall (t : f64) (q : Z) (nx ny : Z),
    env_t t = true -> (1 <= nx < size_bound)%Z -> (1 <= ny < size_bound)%Z ->
    size_cand (setp m t q) nx ny = true ->
    best ny nx >= FR t - 1 / 10000.
Proof.
intros m best H4 H5 t q nx ny Henv Hx Hy Hc.
destruct (H5 t q ny Henv Hy) as (lb & ub & p & Elb & Eub & _).
unfold size_cand in Hc. apply andb_prop in Hc. destruct Hc as [_ Hw].
unfold g_lb, g_ub, setp in Hw. cbn [fm ft] in Hw.
pose proof (toZ_PInt _ _ Elb) as Glb. pose proof (toZ_PInt _ _ Eub) as Gub.
rewrite Glb, Gub, in_window_int in Hw.
apply andb_prop in Hw. destruct Hw as [W1 W2].
apply Z.leb_le in W1. apply Z.leb_le in W2.
exact (H4 t ny nx lb ub Henv Hy Hx Elb Eub (conj W1 W2)).
Qed.

(* PositionFilter candidates are SizeFilter candidates for the set measures (uses F5:
   the lower bound never exceeds the probe size, so the early exit does not fire) *)
Theorem pos_cand_size_cand_set : forall m, F5_stmt m ->
  forall (t : f64) (q : Z) (x y : list Z) (v : Z),
    env_t t = true -> (len y < size_bound)%Z ->
    pos_cand (setp m t q) x y = Some v -> (0 < v)%Z ->
    size_cand (setp m t q) (len x) (len y) = true.
Proof.
intros m H5 t q x y v Henv Hy H Hv.
destruct (pos_cand_nonempty _ x y v H Hv) as [_ Hy0].
destruct (H5 t q (len y) Henv ltac:(lia)) as (lb & ub & p & Elb & _ & _ & Hr & _).
apply (pos_cand_size_cand_int (setp m t q) x y v lb H Hv).
- unfold g_lb, setp. cbn [fm ft]. apply toZ_PInt. exact Elb.
- lia.
Qed.

Corollary pos_cand_size_cand_J : forall t q x y v,
  env_t t = true -> (len y < size_bound)%Z ->
  pos_cand (setp "JACCARD" t q) x y = Some v -> (0 < v)%Z ->
  size_cand (setp "JACCARD" t q) (len x) (len y) = true.
Proof. exact (pos_cand_size_cand_set "JACCARD" F5_J). Qed.
Corollary pos_cand_size_cand_C : forall t q x y v,
  env_t t = true -> (len y < size_bound)%Z ->
  pos_cand (setp "COSINE" t q) x y = Some v -> (0 < v)%Z ->
  size_cand (setp "COSINE" t q) (len x) (len y) = true.
Proof. exact (pos_cand_size_cand_set "COSINE" F5_C). Qed.
Corollary pos_cand_size_cand_D : forall t q x y v,
  env_t t = true -> (len y < size_bound)%Z ->
  pos_cand (setp "DICE" t q) x y = Some v -> (0 < v)%Z ->
  size_cand (setp "DICE" t q) (len x) (len y) = true.
Proof. exact (pos_cand_size_cand_set "DICE" F5_D). Qed.

(* ------------------------------------------------------------------ *)
(** * 7. Non-vacuity                                                   *)
Open Scope Z_scope.

Definition t08 : f64 := mkF 3602879701896397 (-52).      (* 0.8 *)
Example env_t08 : env_t t08 = true. Proof. vm_compute. reflexivity. Qed.
Example win_J : lbZ "JACCARD" (PFloat t08) 10 = Some 8 /\ ubZ "JACCARD" (PFloat t08) 10 = Some 12.
Proof. vm_compute. split; reflexivity. Qed.
Example win_C : lbZ "COSINE" (PFloat t08) 10 = Some 7 /\ ubZ "COSINE" (PFloat t08) 10 = Some 15.
Proof. vm_compute. split; reflexivity. Qed.
Example win_D : lbZ "DICE" (PFloat t08) 10 = Some 7 /\ ubZ "DICE" (PFloat t08) 10 = Some 15.
Proof. vm_compute. split; reflexivity. Qed.
Example F4_J_inst : (bestJ 10 12 >= FR t08 - 1 / 10000)%R.
Proof.
destruct win_J as [E1 E2].
apply (F4_J t08 10 12 8 12 env_t08); try assumption; unfold size_bound; lia.
Qed.
Example drop_J_ex : size_filter_pair (setp "JACCARD" t08 2) false 10 13 = true
                 /\ size_filter_pair (setp "JACCARD" t08 2) false 10 12 = false.
Proof. vm_compute. split; reflexivity. Qed.

Print Assumptions F4_J.
Print Assumptions F4_D.
Print Assumptions F4_C.
Print Assumptions F4_drop_J.
Print Assumptions F4_cand.
Print Assumptions pos_cand_size_cand_J.
