(* Concrete instances (TWO jobs, missing join values on both sides, allow_missing) of
     WrapperRefineEd.edit_distance_join_rows_refines,
     FilterWrapperRefineOverlap.overlap_join_rows_refines (hence overlap_filter_tables_rows_refines),
     FilterWrapperRefine.size_filter_tables_rows_refines / position_filter_tables_rows_refines (OVERLAP, T = 1):
   every hypothesis (including the split hypothesis, by computation) is discharged, so the hypotheses of the
   refinement theorems are jointly satisfiable; the frames are computed with vm_compute.  Axiom-free.  *)
From Coq Require Import ZArith Bool List String Ascii Lia Permutation.
From SSJ Require Import F64 PyNum FilterUtilsGen HelperGen TokenOrderingGen ValidationGen IndexGen JoinGen
     TokenOrdering Measures Filters Joins Api Projection ProjSpec ProjectionFacts IndexGlue OverlapMeasure
     IndexPyFacts JoinGenFacts JoinGenLoop JoinRefine JoinRefineProj JoinRefineExample SplitFacts SplitRefineEd
     Frame WrapperGen FilterWrapperGen WrapperRefineFrame WrapperRefineMissing WrapperRefineCore WrapperRefine
     WrapperBody WrapperApiLink WrapperRefineEd FilterWrapperRefineOverlap FilterWrapperRefine.
Import ListNotations.
Open Scope Z_scope.

Definition fx_lsrc : list (list pyval) := (ex_lsrc ++ [[PInt 4; PNone; PStr "w"]])%list.
Definition fx_rsrc : list (list pyval) := ([[PInt 9; py_nan]] ++ ex_rsrc)%list.
Definition fx_bs : list (nat * nat) := [(0, 2); (2, 3)]%nat.
Definition fx_cf : pcase :=    (* ex_c without the score column: the filters *)
  {| p_lcols := p_lcols ex_c; p_rcols := p_rcols ex_c; p_lkey := p_lkey ex_c; p_rkey := p_rkey ex_c;
     p_ljoin := p_ljoin ex_c; p_rjoin := p_rjoin ex_c; p_lout := p_lout ex_c; p_rout := p_rout ex_c;
     p_lpre := p_lpre ex_c; p_rpre := p_rpre ex_c; p_score := false |}.

(* the code points of a string cell, and the edit distance on them *)
Definition fx_str (v : pyval) : list Z :=
  match v with PStr s => map (fun a => Z.of_N (N_of_ascii a)) (list_ascii_of_string s) | _ => [] end.
Definition fx_ed (a b : pyval) : pyval := ed_dist (fx_str a) (fx_str b).

Ltac rows4 := intros row [<- | [<- | [<- | [<- | []]]]]; (split; [reflexivity | apply row_okb_sound; reflexivity]).
Ltac split_ok := intros _; split; [reflexivity | vm_compute; reflexivity].
Ltac no_id := intros H; vm_compute in H; repeat (destruct H as [H|H]; [discriminate H|]); exact H.

Example fx_ed_refines :
  body_result ex_c true 2 4 fx_lsrc fx_rsrc fx_bs
    (chunk_ok ex_c fx_lsrc (ed_K ex_c 2 1 "<=" fx_lsrc ex_toks fx_str))
    (ed_call ex_c (PFloat (mkF 3 (-1))) 2 "<=" true 2 4 fx_lsrc fx_rsrc (PBool false) ex_tokenize fx_ed).
Proof.
  apply (edit_distance_join_rows_refines ex_c (PFloat (mkF 3 (-1))) 2 1 "<=" true 2 4 fx_lsrc fx_rsrc (PBool false)
           ex_tokenize fx_ed ex_toks fx_str py_le).
  - apply well_formedb_sound. reflexivity.
  - rows4.
  - rows4.
  - intros row _. reflexivity.
  - intros row _. reflexivity.
  - intros row Hr. vm_compute in Hr. destruct Hr as [<- | [<- | [<- | []]]]; reflexivity.
  - intros row Hr. vm_compute in Hr. destruct Hr as [<- | [<- | [<- | []]]]; reflexivity.
  - intros l r _ _. reflexivity.
  - reflexivity.
  - reflexivity.
  - reflexivity.
  - reflexivity.
  - vm_compute. reflexivity.
  - lia.
  - lia.
  - no_id.
  - split_ok.
Qed.

Example fx_overlap_join_refines :
  body_result ex_c true 2 4 fx_lsrc fx_rsrc fx_bs
    (chunk_ok ex_c fx_lsrc (ovf_K ex_c (PInt 1) ">=" fx_lsrc ex_toks))
    (ovj_call ex_c (PInt 1) ">=" true 2 4 fx_lsrc fx_rsrc (PBool false) ex_tokenize).
Proof.
  apply (overlap_join_rows_refines ex_c (PInt 1) ">=" true 2 4 fx_lsrc fx_rsrc (PBool false) ex_tokenize ex_toks py_ge).
  - apply well_formedb_sound. reflexivity.
  - rows4.
  - rows4.
  - intros row _. reflexivity.
  - intros row _. reflexivity.
  - reflexivity.
  - reflexivity.
  - discriminate.
  - no_id.
  - split_ok.
  - reflexivity.
  - reflexivity.
Qed.

Example fx_size_refines :
  body_result fx_cf true 2 4 fx_lsrc fx_rsrc fx_bs
    (chunk_ok fx_cf fx_lsrc (flt_K fx_cf (ovp 1 0) true fx_lsrc ex_toks KSize))
    (size_call fx_cf (ovp 1 0) true true 2 4 fx_lsrc fx_rsrc (PBool false) ex_tokenize).
Proof.
  apply (size_filter_tables_rows_refines fx_cf (ovp 1 0) true true 100 2 4 fx_lsrc fx_rsrc (PBool false) ex_tokenize ex_toks).
  - apply well_formedb_sound. reflexivity.
  - reflexivity.
  - rows4.
  - rows4.
  - intros row _. reflexivity.
  - intros row _. reflexivity.
  - reflexivity.
  - no_id.
  - apply formulas_ok_overlap.
  - intros row Hr. vm_compute in Hr. destruct Hr as [<- | [<- | [<- | []]]]; reflexivity.
  - split_ok.
Qed.

Example fx_position_refines :
  body_result fx_cf true 2 4 fx_lsrc fx_rsrc fx_bs
    (chunk_ok fx_cf fx_lsrc (flt_K fx_cf (ovp 1 0) true fx_lsrc ex_toks KPosition))
    (position_call fx_cf (ovp 1 0) true true 2 4 fx_lsrc fx_rsrc (PBool false) ex_tokenize).
Proof.
  apply (position_filter_tables_rows_refines fx_cf (ovp 1 0) true true 100 2 4 fx_lsrc fx_rsrc (PBool false) ex_tokenize ex_toks).
  - apply well_formedb_sound. reflexivity.
  - reflexivity.
  - rows4.
  - rows4.
  - intros row _. reflexivity.
  - intros row _. reflexivity.
  - reflexivity.
  - no_id.
  - apply formulas_ok_overlap.
  - intros row Hr. vm_compute in Hr. destruct Hr as [<- | [<- | [<- | []]]]; reflexivity.
  - intros row Hr. vm_compute in Hr. destruct Hr as [<- | [<- | [<- | []]]]; reflexivity.
  - split_ok.
Qed.

(* the frames the generated definitions return on this input *)
Eval vm_compute in ed_call ex_c (PFloat (mkF 3 (-1))) 2 "<=" true 2 4 fx_lsrc fx_rsrc (PBool false) ex_tokenize fx_ed.
Eval vm_compute in ovj_call ex_c (PInt 1) ">=" true 2 4 fx_lsrc fx_rsrc (PBool false) ex_tokenize.
Eval vm_compute in size_call fx_cf (ovp 1 0) true true 2 4 fx_lsrc fx_rsrc (PBool false) ex_tokenize.
Eval vm_compute in position_call fx_cf (ovp 1 0) true true 2 4 fx_lsrc fx_rsrc (PBool false) ex_tokenize.

Print Assumptions fx_ed_refines.
Print Assumptions fx_overlap_join_refines.
Print Assumptions fx_size_refines.
Print Assumptions fx_position_refines.
