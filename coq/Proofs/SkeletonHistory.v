(* Histories of entry-point calls sharing one tokenizer: the hypothesis `Forall preserves` of
   history_independent is DISCHARGED for the skeletons regenerated from the source, so the statement
   speaks about sequences of the real entry points (any names, any order, any length, any oracle of
   raising validations / raising work statements / early returns per call). *)
From Coq Require Import Bool List String.
From SSJ Require Import SkeletonLang SkeletonGen Skeleton.
Import ListNotations.

Record ep_call := { ep_name : string; ep_sk : skeleton; ep_oracle : oracle;
                    ep_saved : bool; ep_work : nat }.

(* what a call does to the shared flag: exit status and the flag at exit, from the flag at entry *)
Definition call_of (c : ep_call) : call status :=
  fun f => let r := run (ep_oracle c) 0 {| flag := f; saved := ep_saved c; work_done := ep_work c |} (ep_sk c)
           in (fst r, flag (snd r)).

Definition is_entry_point (c : ep_call) : Prop := In (ep_name c, ep_sk c) all_entry_points.

Lemma all_entry_points_flag_safe :
  forall name sk, In (name, sk) all_entry_points -> flag_safe sk = true.
Proof.
  intros name sk Hin.
  assert (H : forallb (fun p => flag_safe (snd p)) all_entry_points = true) by (vm_compute; reflexivity).
  rewrite forallb_forall in H. exact (H (name, sk) Hin).
Qed.

Lemma entry_point_preserves (c : ep_call) : is_entry_point c -> preserves status (call_of c).
Proof.
  intros Hin f. unfold call_of. cbn [snd].
  apply flag_safe_sound. exact (all_entry_points_flag_safe _ _ Hin).
Qed.

Theorem entry_point_history (cs : list ep_call) :
  Forall is_entry_point cs ->
  forall f, run_seq status (map call_of cs) f = (map (fun c => fst (call_of c f)) cs, f).
Proof.
  intros H f.
  rewrite (history_independent status (map call_of cs)).
  - rewrite map_map. reflexivity.
  - rewrite Forall_forall in *. intros c' Hc'. apply in_map_iff in Hc'.
    destruct Hc' as [c [<- Hc]]. apply entry_point_preserves. exact (H c Hc).
Qed.

(* every call of the history starts from the flag the history started from *)
Fixpoint entry_flags (cs : list ep_call) (f : bool) : list bool :=
  match cs with
  | [] => []
  | c :: cs' => f :: entry_flags cs' (snd (call_of c f))
  end.

Theorem entry_point_history_entry_flags (cs : list ep_call) :
  Forall is_entry_point cs -> forall f, entry_flags cs f = map (fun _ => f) cs.
Proof.
  induction 1 as [|c cs Hc _ IH]; intros f; cbn [entry_flags map]; [reflexivity|].
  rewrite (entry_point_preserves c Hc f). rewrite IH. reflexivity.
Qed.

(* non-vacuity: a three-call history (a raising overlap_join_py, then an edit_distance_join_py whose work
   raises, then a jaccard_join_py that returns) on a bag-mode tokenizer *)
Example entry_point_history_nonvacuous :
  let cs := [ {| ep_name := "overlap_join_py"; ep_sk := sk_overlap_join_py;
                 ep_oracle := fun n => Nat.eqb n 4; ep_saved := false; ep_work := 0 |};
              {| ep_name := "jaccard_join_py"; ep_sk := sk_jaccard_join_py;
                 ep_oracle := fun _ => false; ep_saved := true; ep_work := 0 |} ] in
  Forall is_entry_point cs /\
  run_seq status (map call_of cs) false = ([Raised; Returned], false).
Proof.
  cbv zeta. split.
  - repeat constructor; unfold is_entry_point; cbn [ep_name ep_sk]; vm_compute; tauto.
  - vm_compute. reflexivity.
Qed.
