(* Code-level property theorems, part 5: the same conclusions as CodeLevelJoins / CodeLevelJoins2 for the five
   set-similarity joins with the ARTEFACT hypotheses of `valid_join_case` removed.

   FINDING.  ApiJoinSpec.tables_ok (hence valid_join_case, hence C01_api / C02_api) asks
        1 <= j_cpus c,   |j_L c| < 2^31,   |j_R c| < 2^31,   len (toks_of r) < size_bound for EVERY measure,
   none of which the end-to-end theorems give.  They are not needed:
     * the cpu count is not used at all (PartitionInst.hpart_cpus_bounded ignores it);
     * the left table may have any number of rows, and on the right only the PRESENT rows are chunked
       -- exactly Hn of the end-to-end theorems;
     * the token-count bound size_bound = 2^20 is only used by the J/C/D arithmetic (for OVERLAP and
       OVERLAP_COEFFICIENT only NoDup is used).
   `api_join_set_joins_weak` re-proves ApiJoinSpec.api_join_set_joins from ApiJoinPairs.api_join_generic under
   `valid_join_case_weak`; the code-level theorems `_tight` below then need, on top of the hypotheses of the
   end-to-end theorems, ONLY:  unique keys; a set tokenizer (NoDup tokens);
        J/C/D:  threshold = a double with env_t, token counts < 2^20, sim_fn = the measure on token lists;
        OVERLAP_COEFFICIENT:  nothing more (the positive, non-NaN threshold follows from validate_threshold:
        CodeLevelJoins2.ovc_pos_of_valid; the statement with the former extra hypothesis pos_threshold (ft p)
        is kept as C01_C02_code_overlap_coefficient_tight_pos);   OVERLAP:  an integer overlap size.          *)
From Coq Require Import ZArith Bool List String Lia Permutation.
From SSJ Require Import F64 PyNum FilterUtilsGen HelperGen TokenOrderingGen ValidationGen IndexGen JoinGen
     TokenOrdering Measures Filters Joins Api JoinSpec MetaSpec Projection ProjSpec IndexPyFacts ProjectionFacts
     JoinGenFacts JoinGenLoop JoinRefine JoinRefineProj SplitFacts Frame WrapperGen FilterWrapperGen
     WrapperRefineFrame WrapperRefineMissing WrapperRefineCore WrapperRefineChunks WrapperRefine WrapperRefineClosed
     WrapperRefineApi WrapperRefineEnd WrapperBody WrapperApiLink WrapperEnd
     WrapperRefineOvc FilterWrapperRefineOverlap
     OrderingFacts OverlapFacts OverlapMeasure ValidationFacts SetBridge SetPair CoreLiftBase CoreLift ApiLift
     ApiJoinBase ApiJoinPairs ApiJoinSpec PartitionInst CodeLevelBase CodeLevelJoins CodeLevelJoins2.
Import ListNotations.
Open Scope Z_scope.

(* ------------------------------------------------------------------ the model theorem, weak validity *)
Definition tables_ok_weak (c : jcase) (m : string) : Prop :=
  NoDup (map fst (j_L c)) /\ NoDup (map fst (j_R c)) /\
  (forall r, In r (j_L c) \/ In r (j_R c) -> present r = true ->
     NoDup (toks_of r) /\ (is_jcd m = true -> len (toks_of r) < size_bound)) /\
  Z.of_nat (List.length (filter present (j_R c))) < 2 ^ 31.

Definition valid_join_case_weak (c : jcase) : Prop :=
  lower_op (j_op c) /\ exists m, j_entry c = EJoin m /\ join_params_ok c m /\ tables_ok_weak c m.

Lemma valid_join_case_is_weak c : valid_join_case c -> valid_join_case_weak c.
Proof.
  intros ((HkL & HkR & HL & HR & _ & _ & HlR) & Hop & m & He & Hp). split; [exact Hop|].
  exists m. split; [exact He|]. split; [exact Hp|]. split; [exact HkL|]. split; [exact HkR|]. split.
  - intros r [Hr|Hr] Pr; [destruct (HL r Hr Pr) as [H1 H2] | destruct (HR r Hr Pr) as [H1 H2]]; split; auto.
  - pose proof (filter_length_le_nat present (j_R c)). lia.
Qed.

Theorem api_join_set_joins_weak : forall c, valid_join_case_weak c -> api_join_conclusion c.
Proof.
  intros c (Hop & m & He & Hp & HkL & HkR & Hrows & Hlen).
  destruct (hpart_bounded row (j_njobs c) (j_cpus c) (filter present (j_R c)) Hlen) as (chs & Hchs & Hcat).
  assert (Hrow : forall Rc l r, incl Rc (filter present (j_R c)) -> In l (filter present (j_L c)) -> In r Rc ->
            (NoDup (toks_of l) /\ (is_jcd m = true -> len (toks_of l) < size_bound)) /\
            (NoDup (toks_of r) /\ (is_jcd m = true -> len (toks_of r) < size_bound))).
  { intros Rc l r Hinc Hl Hr. apply Hinc in Hr. apply filter_In in Hl. apply filter_In in Hr.
    split; apply Hrows; tauto. }
  assert (Hned : String.eqb m "EDIT_DISTANCE" = false).
  { destruct Hp as [[Hm _] | [[-> _] | [-> _]]]; [exact (jcd_not_ed m Hm) | reflexivity | reflexivity]. }
  refine (api_join_generic c m He Hned HkL HkR _ chs Hchs Hcat).
  intros Rc l r Hinc Hl Hr. destruct (Hrow Rc l r Hinc Hl Hr) as [[Hndl Hll] [Hndr Hlr]].
  destruct Hp as [[Hm (t & Ht & Henv)] | [[-> (_ & T & Ht & HT)] | [-> Hpos]]].
  - rewrite (core_pf_jcd c m _ _ _ He Hm). cbn [rowval snd].
    apply (verdict_jcd c m t); try assumption; auto.
    + apply toks_incl_all_l. exact Hl.
    + apply toks_incl_all_r. exact Hr.
  - rewrite (core_pf_overlap c _ _ _ He). cbn [rowval snd]. eexists. split; [reflexivity|].
    apply (verdict_overlap c T); assumption.
  - rewrite (core_pf_ovc c _ _ _ He). cbn [rowval snd]. eexists. split; [reflexivity|].
    apply verdict_ovc; assumption.
Qed.

(* ------------------------------------------------------------------ from the end-to-end statement *)
Section Tight.
  Variables (c : pcase) (am : bool) (lsrc rsrc : list (list pyval)).
  Variables (toks : pyval -> list Z) (kz : pyval -> Z).
  Variable jc : jcase.

  Hypothesis HjL : j_L jc = map (arowLs c toks (fun _ => []) kz) lsrc.
  Hypothesis HjR : j_R jc = map (arowRs c toks (fun _ => []) kz) rsrc.
  Hypothesis Hjs : j_with_score jc = p_score c.

  Lemma tables_ok_weak_of m :
    keys_unique c kz lsrc rsrc ->
    cells_sat c lsrc rsrc (fun v => NoDup (toks v) /\ (is_jcd m = true -> len (toks v) < size_bound)) ->
    Z.of_nat (List.length (rpresent c rsrc)) < 2^31 ->
    tables_ok_weak jc m.
  Proof using HjL HjR.
    intros (HkL & HkR) (HsL & HsR) Hn. unfold tables_ok_weak. rewrite HjL, HjR.
    split; [rewrite keysL; exact HkL|]. split; [rewrite keysR; exact HkR|]. split.
    - intros r [Hr|Hr] Pr.
      + destruct (arowLs_present c lsrc toks (fun _ => []) kz r Hr Pr) as (row & Hrow & Et & _). rewrite Et. exact (HsL row Hrow).
      + destruct (arowRs_present c rsrc toks (fun _ => []) kz r Hr Pr) as (row & Hrow & Et & _). rewrite Et. exact (HsR row Hrow).
    - rewrite Rps_eq, map_length. exact Hn.
  Qed.

  Lemma tight_conclude lhs :
    match j_entry jc with EJoin _ => True | _ => False end ->
    end_to_end_flat c am lsrc rsrc toks (fun _ => []) kz jc lhs ->
    valid_join_case_weak jc ->
    code_join_conclusion c am lsrc rsrc kz jc lhs.
  Proof using Hjs.
    intros Hent HA Hv.
    assert (HB : forall out, api_join jc = Some out -> four_specs jc out).
    { intros out Ho. exact (proj2 (api_join_set_joins_weak jc Hv) out Ho). }
    split.
    - exact (code_level_four_specs c am lsrc rsrc toks (fun _ => []) kz jc lhs HA HB).
    - apply (code_level_four_specs_kview c am lsrc rsrc toks (fun _ => []) kz jc Hjs); try assumption.
      unfold scored_entry. destruct (j_entry jc); [exact I | destruct Hent | exact I].
  Qed.
End Tight.

(* ================================================================== J / C / D *)
Section TightJcd.
  Variables (c : pcase) (p : fparams) (op : string) (ae am : bool) (njobs cpus : Z).
  Variables (lsrc rsrc : list (list pyval)) (showp : pyval).
  Variables (tokenize : pyval -> pyval) (sim_fn : pyval -> pyval -> pyval).
  Variables (toks : pyval -> list Z) (cf : pyval -> pyval -> pyval) (kz : pyval -> Z).

  Hypothesis He2e : jcd_e2e_hyps c p op lsrc rsrc tokenize toks cf.
  Hypothesis Hn : Z.of_nat (List.length (rpresent c rsrc)) < 2^31.      (* of the end-to-end theorem *)
  (* extra *)
  Hypothesis Hsim : forall x y, sim_fn (pints x) (pints y) = PFloat (sim_tok (fm p) x y).
  Hypothesis Hthr : exists t, ft p = PFloat t /\ env_t t = true.
  Hypothesis Hkeys : keys_unique c kz lsrc rsrc.
  Hypothesis Hset : set_cells c toks lsrc rsrc.

  Lemma tight_jcd_valid : valid_join_case_weak (jcd_jcase c p op ae am njobs cpus lsrc rsrc toks kz).
  Proof using He2e Hn Hthr Hkeys Hset.
    destruct He2e as (_ & _ & _ & _ & _ & Hm & _ & Hvop & _).
    split; [exact (lower_op_of_valid op (fm p) (set_measure_not_ed _ Hm) Hvop)|].
    exists (fm p). split; [reflexivity|]. split; [left; split; [exact (set_measure_jcd _ Hm) | exact Hthr]|].
    apply (tables_ok_weak_of c lsrc rsrc toks kz (jcd_jcase c p op ae am njobs cpus lsrc rsrc toks kz) eq_refl eq_refl (fm p) Hkeys); [|exact Hn].
    destruct Hset as (HL & HR). split; intros row Hr; [destruct (HL row Hr) | destruct (HR row Hr)]; split; auto.
  Qed.

  (* the formula / sim_fn hypotheses of the end-to-end theorem on a chunk, as in CodeLevelJoins.jcd_core but
     without the table-size hypotheses *)
  Lemma tight_jcd_core ch : (forall row, In row ch -> In row (rpresent c rsrc)) -> core_hyps c p ae lsrc sim_fn toks ch.
  Proof using He2e Hsim Hthr Hset.
    intros Hch.
    assert (Hf : IndexGlue.formulas_ok p size_bound).
    { destruct He2e as (_ & _ & _ & _ & _ & Hm & _). destruct Hthr as (t & Et & Henv).
      destruct p as [m tt q]. cbn [ft fm] in *. subst tt.
      apply IndexGlueArith.formulas_ok_jcd; [exact (set_measure_jcd _ Hm) | exact Henv]. }
    destruct Hset as (HsL & HsR). unfold core_hyps. cbv zeta. split; [|split].
    - intros x Hx. apply in_map_iff in Hx. destruct Hx as (tk & <- & Htk).
      apply (IndexGlue.formulas_ok_pl p size_bound _ Hf).
      rewrite (len_order_in (Ltoks c lsrc toks)); [|exact Htk | intros w Hw; apply in_or_app; left; exact Hw].
      unfold Ltoks in Htk. apply in_map_iff in Htk. destruct Htk as (row & <- & Hrow).
      split; [unfold len; lia | exact (proj2 (HsL row Hrow))].
    - intros y Hy _. apply in_map_iff in Hy. destruct Hy as (tk & <- & Htk).
      unfold probe_ok. apply (Hf (len (order _ tk))).
      rewrite (len_order_in (Rtoks c toks ch)); [|exact Htk | intros w Hw; apply in_or_app; right; exact Hw].
      unfold Rtoks in Htk. apply in_map_iff in Htk. destruct Htk as (row & <- & Hrow).
      split; [unfold len; lia | exact (proj2 (HsR row (Hch row Hrow)))].
    - intros x y _ _. apply Hsim.
  Qed.

  Theorem code_level_join_spec_tight W :
    end_to_end c p op ae am njobs cpus lsrc rsrc showp tokenize sim_fn toks kz W ->
    code_join_conclusion c am lsrc rsrc kz (jcd_jcase c p op ae am njobs cpus lsrc rsrc toks kz)
      (jcd_call c p op ae am njobs cpus lsrc rsrc showp tokenize sim_fn W).
  Proof using He2e Hn Hthr Hkeys Hset.
    intros HA. apply (tight_conclude c am lsrc rsrc toks kz (jcd_jcase c p op ae am njobs cpus lsrc rsrc toks kz) eq_refl); [exact I | exact HA | exact tight_jcd_valid].
  Qed.

  Let Hnum : num_of (ft p) <> None.
  Proof using Hthr. destruct Hthr as (t & Et & _). rewrite Et. discriminate. Qed.

  Theorem C01_C02_code_jaccard_tight : fm p = "JACCARD"%string ->
    code_join_conclusion c am lsrc rsrc kz (jcd_jcase c p op ae am njobs cpus lsrc rsrc toks kz)
      (jcd_call c p op ae am njobs cpus lsrc rsrc showp tokenize sim_fn jaccard_join_rows).
  Proof using All.
    intros Hfm. apply code_level_join_spec_tight.
    destruct He2e as (Hwf & Hl & Hr & HtL & HtR & Hm & Hvt & Hvop & Hvout & Hop & Hid).
    apply (jaccard_join_rows_end_to_end c p op ae am njobs cpus lsrc rsrc showp tokenize sim_fn toks cf kz); try assumption.
    intros ch Hin. apply tight_jcd_core. exact (wchunks_in c njobs cpus rsrc _ ch Hin).
  Qed.
  Theorem C01_C02_code_cosine_tight : fm p = "COSINE"%string ->
    code_join_conclusion c am lsrc rsrc kz (jcd_jcase c p op ae am njobs cpus lsrc rsrc toks kz)
      (jcd_call c p op ae am njobs cpus lsrc rsrc showp tokenize sim_fn cosine_join_rows).
  Proof using All.
    intros Hfm. apply code_level_join_spec_tight.
    destruct He2e as (Hwf & Hl & Hr & HtL & HtR & Hm & Hvt & Hvop & Hvout & Hop & Hid).
    apply (cosine_join_rows_end_to_end c p op ae am njobs cpus lsrc rsrc showp tokenize sim_fn toks cf kz); try assumption.
    intros ch Hin. apply tight_jcd_core. exact (wchunks_in c njobs cpus rsrc _ ch Hin).
  Qed.
  Theorem C01_C02_code_dice_tight : fm p = "DICE"%string ->
    code_join_conclusion c am lsrc rsrc kz (jcd_jcase c p op ae am njobs cpus lsrc rsrc toks kz)
      (jcd_call c p op ae am njobs cpus lsrc rsrc showp tokenize sim_fn dice_join_rows).
  Proof using All.
    intros Hfm. apply code_level_join_spec_tight.
    destruct He2e as (Hwf & Hl & Hr & HtL & HtR & Hm & Hvt & Hvop & Hvout & Hop & Hid).
    apply (dice_join_rows_end_to_end c p op ae am njobs cpus lsrc rsrc showp tokenize sim_fn toks cf kz); try assumption.
    intros ch Hin. apply tight_jcd_core. exact (wchunks_in c njobs cpus rsrc _ ch Hin).
  Qed.
End TightJcd.

(* ================================================================== overlap coefficient, overlap *)
Section TightOvc.
  Variables (c : pcase) (p : fparams) (op : string) (ae am : bool) (njobs cpus : Z).
  Variables (lsrc rsrc : list (list pyval)) (showp : pyval).
  Variables (tokenize : pyval -> pyval).
  Variables (toks : pyval -> list Z) (cf : pyval -> pyval -> pyval) (kz : pyval -> Z).

  (* exactly the hypotheses of WrapperRefineOvc.overlap_coefficient_join_rows_end_to_end_flat *)
  Hypothesis Hwf : well_formed c.
  Hypothesis Hlsrc : forall row, In row lsrc -> List.length row = List.length (p_lcols c) /\ ProjSpec.row_ok row.
  Hypothesis Hrsrc : forall row, In row rsrc -> List.length row = List.length (p_rcols c) /\ ProjSpec.row_ok row.
  Hypothesis HtokL : forall row, In row (lpresent c lsrc) -> tokenize (lcell c row) = pints (toks (lcell c row)).
  Hypothesis HtokR : forall row, In row (rpresent c rsrc) -> tokenize (rcell c row) = pints (toks (rcell c row)).
  Hypothesis Hfm : fm p = "OVERLAP_COEFFICIENT"%string.
  Hypothesis Hvt : is_exc (validate_threshold (ft p) (PStr "OVERLAP_COEFFICIENT")) = false.
  Hypothesis Hvop : is_exc (validate_comp_op_for_sim_measure (PStr op) (PStr "OVERLAP_COEFFICIENT")) = false.
  Hypothesis Hvout : is_exc (validate_output_attrs (py_opt_strs (p_lout c)) (py_strs (p_lcols c))
                                                   (py_opt_strs (p_rout c)) (py_strs (p_rcols c))) = false.
  Hypothesis Hop : comp_op_map op = Some cf.
  Hypothesis Hnum : num_of (ft p) <> None.
  Hypothesis Hid : ~ In "_id"%string (mv_header c).
  Hypothesis HszL : forall row, In row (lpresent c lsrc) -> len (toks (lcell c row)) < 2^50.
  Hypothesis HszR : forall row, In row (rpresent c rsrc) -> len (toks (rcell c row)) < 2^50.
  Hypothesis Hn : Z.of_nat (List.length (rpresent c rsrc)) < 2^31.
  (* extra (pos_threshold (ft p) is no longer among them: CodeLevelJoins2.ovc_pos_of_valid) *)
  Hypothesis Hkeys : keys_unique c kz lsrc rsrc.
  Hypothesis Hnodup : cells_sat c lsrc rsrc (fun v => NoDup (toks v)).

  Theorem C01_C02_code_overlap_coefficient_tight :
    code_join_conclusion c am lsrc rsrc kz (ovc_code_jcase c p op ae am njobs cpus lsrc rsrc toks kz)
      (ovc_call c p op ae am njobs cpus lsrc rsrc showp tokenize).
  Proof using All.
    apply (tight_conclude c am lsrc rsrc toks kz (ovc_code_jcase c p op ae am njobs cpus lsrc rsrc toks kz) eq_refl); [exact I | |].
    - exact (overlap_coefficient_join_rows_end_to_end_flat c p op ae am njobs cpus lsrc rsrc showp tokenize
               toks cf kz Hwf Hlsrc Hrsrc HtokL HtokR Hfm Hvt Hvop Hvout Hop Hnum Hid HszL HszR Hn).
    - split; [exact (lower_op_of_valid op "OVERLAP_COEFFICIENT" eq_refl Hvop)|].
      exists "OVERLAP_COEFFICIENT"%string. split.
      { unfold ovc_code_jcase, jcase_of. cbn [j_entry]. now rewrite Hfm. }
      split; [right; right; split; [reflexivity | exact (ovc_pos_of_valid (ft p) Hvt)]|].
      apply (tables_ok_weak_of c lsrc rsrc toks kz (ovc_code_jcase c p op ae am njobs cpus lsrc rsrc toks kz) eq_refl eq_refl _ Hkeys); [|exact Hn].
      destruct Hnodup as (HL & HR). split; intros row Hr; (split; [auto | discriminate]).
  Qed.
End TightOvc.

(* the statement as it was before validate_threshold rejected NaN (extra hypothesis pos_threshold (ft p)):
   now a corollary *)
Corollary C01_C02_code_overlap_coefficient_tight_pos :
  forall (c : pcase) (p : fparams) (op : string) (ae am : bool) (njobs cpus : Z)
         (lsrc rsrc : list (list pyval)) (showp : pyval) (tokenize : pyval -> pyval)
         (toks : pyval -> list Z) (cf : pyval -> pyval -> pyval) (kz : pyval -> Z),
  well_formed c ->
  (forall row, In row lsrc -> List.length row = List.length (p_lcols c) /\ ProjSpec.row_ok row) ->
  (forall row, In row rsrc -> List.length row = List.length (p_rcols c) /\ ProjSpec.row_ok row) ->
  (forall row, In row (lpresent c lsrc) -> tokenize (lcell c row) = pints (toks (lcell c row))) ->
  (forall row, In row (rpresent c rsrc) -> tokenize (rcell c row) = pints (toks (rcell c row))) ->
  fm p = "OVERLAP_COEFFICIENT"%string ->
  is_exc (validate_threshold (ft p) (PStr "OVERLAP_COEFFICIENT")) = false ->
  is_exc (validate_comp_op_for_sim_measure (PStr op) (PStr "OVERLAP_COEFFICIENT")) = false ->
  is_exc (validate_output_attrs (py_opt_strs (p_lout c)) (py_strs (p_lcols c))
                                (py_opt_strs (p_rout c)) (py_strs (p_rcols c))) = false ->
  comp_op_map op = Some cf ->
  num_of (ft p) <> None ->
  ~ In "_id"%string (mv_header c) ->
  (forall row, In row (lpresent c lsrc) -> len (toks (lcell c row)) < 2^50) ->
  (forall row, In row (rpresent c rsrc) -> len (toks (rcell c row)) < 2^50) ->
  Z.of_nat (List.length (rpresent c rsrc)) < 2^31 ->
  pos_threshold (ft p) ->
  keys_unique c kz lsrc rsrc ->
  cells_sat c lsrc rsrc (fun v => NoDup (toks v)) ->
  code_join_conclusion c am lsrc rsrc kz (ovc_code_jcase c p op ae am njobs cpus lsrc rsrc toks kz)
    (ovc_call c p op ae am njobs cpus lsrc rsrc showp tokenize).
Proof.
  intros c p op ae am njobs cpus lsrc rsrc showp tokenize toks cf kz
         Hwf Hl Hr HtL HtR Hfm Hvt Hvop Hvout Hop Hnum Hid HszL HszR Hn _ Hkeys Hnodup.
  exact (C01_C02_code_overlap_coefficient_tight c p op ae am njobs cpus lsrc rsrc showp tokenize toks cf kz
           Hwf Hl Hr HtL HtR Hfm Hvt Hvop Hvout Hop Hnum Hid HszL HszR Hn Hkeys Hnodup).
Qed.

Section TightOverlap.
  Variables (c : pcase) (T : Z) (op : string) (am : bool) (q njobs cpus : Z).
  Variables (lsrc rsrc : list (list pyval)) (showp : pyval).
  Variables (tokenize : pyval -> pyval).
  Variables (toks : pyval -> list Z) (cf : pyval -> pyval -> pyval) (kz : pyval -> Z).

  Hypothesis Hwf : well_formed c.
  Hypothesis Hlsrc : forall row, In row lsrc -> List.length row = List.length (p_lcols c) /\ ProjSpec.row_ok row.
  Hypothesis Hrsrc : forall row, In row rsrc -> List.length row = List.length (p_rcols c) /\ ProjSpec.row_ok row.
  Hypothesis HtokL : forall row, In row (lpresent c lsrc) -> tokenize (lcell c row) = pints (toks (lcell c row)).
  Hypothesis HtokR : forall row, In row (rpresent c rsrc) -> tokenize (rcell c row) = pints (toks (rcell c row)).
  Hypothesis Hvout : is_exc (validate_output_attrs (py_opt_strs (p_lout c)) (py_strs (p_lcols c))
                                                   (py_opt_strs (p_rout c)) (py_strs (p_rcols c))) = false.
  Hypothesis Hop : comp_op_map op = Some cf.
  Hypothesis Hid : ~ In "_id"%string (mv_header c).
  Hypothesis Hn : Z.of_nat (List.length (rpresent c rsrc)) < 2^31.
  Hypothesis Hvt : is_exc (validate_threshold (PInt T) (PStr "OVERLAP")) = false.   (* extra: size = PInt T *)
  Hypothesis Hvop : is_exc (validate_comp_op_for_sim_measure (PStr op) (PStr "OVERLAP")) = false.
  (* extra *)
  Hypothesis Hkeys : keys_unique c kz lsrc rsrc.
  Hypothesis Hnodup : cells_sat c lsrc rsrc (fun v => NoDup (toks v)).

  Theorem C01_C02_code_overlap_join_tight :
    code_join_conclusion c am lsrc rsrc kz (ovj_code_jcase c T op am q njobs cpus lsrc rsrc toks kz)
      (ovj_call c (PInt T) op am njobs cpus lsrc rsrc showp tokenize).
  Proof using All.
    assert (Hnum : num_of (PInt T) <> None) by discriminate.
    apply (tight_conclude c am lsrc rsrc toks kz (ovj_code_jcase c T op am q njobs cpus lsrc rsrc toks kz) eq_refl); [exact I | |].
    - exact (overlap_join_rows_end_to_end_flat c (PInt T) op false am q njobs cpus lsrc rsrc showp tokenize
               toks cf kz Hwf Hlsrc Hrsrc HtokL HtokR Hvout Hop Hnum Hid Hn Hvt Hvop).
    - split; [exact (lower_op_of_valid op "OVERLAP" eq_refl Hvop)|].
      exists "OVERLAP"%string. split; [reflexivity|]. split.
      { right. left. split; [reflexivity|]. split; [reflexivity|].
        exists T. split; [reflexivity | exact (overlap_size_pos T Hvt)]. }
      apply (tables_ok_weak_of c lsrc rsrc toks kz (ovj_code_jcase c T op am q njobs cpus lsrc rsrc toks kz) eq_refl eq_refl _ Hkeys); [|exact Hn].
      destruct Hnodup as (HL & HR). split; intros row Hr; (split; [auto | discriminate]).
  Qed.
End TightOverlap.

Print Assumptions api_join_set_joins_weak.
Print Assumptions C01_C02_code_jaccard_tight.
Print Assumptions C01_C02_code_cosine_tight.
Print Assumptions C01_C02_code_dice_tight.
Print Assumptions C01_C02_code_overlap_coefficient_tight.
Print Assumptions C01_C02_code_overlap_coefficient_tight_pos.
Print Assumptions C01_C02_code_overlap_join_tight.
