(* Closed instances of MatcherRefineEnd.apply_matcher_rows_end_to_end and
   MatcherRefineEndCand.filter_candset_rows_end_to_end: every hypothesis is discharged (by computation / by
   enumerating the rows), so the hypotheses are jointly satisfiable; the frames the generated functions return
   are computed with vm_compute.  TWO jobs (so the chunking and pd.concat paths are taken), missing match
   values on both sides with allow_missing, a tokenizer with the token cache on (3 + 2 < 2 * 6), output
   attributes on the left only.  The instances inherit the Reals axioms of the two theorems (chunk
   boundaries); the computations themselves are axiom-free.                                           *)
From Coq Require Import ZArith Bool List String Lia.
From SSJ Require Import F64 PyNum HelperGen Filters Api Matcher Projection ProjSpec ProjectionFacts Frame
     MatcherGen WrapperRefineFrame FilterPairRefineBase MatcherRefineLoop MatcherRefineEnd MatcherRefineEndCand.
Import ListNotations.
Open Scope string_scope.
Open Scope Z_scope.

Definition mx_c : pcase :=
  {| p_lcols := ["id"; "s"; "x"]; p_rcols := ["rid"; "t"]; p_lkey := "id"; p_rkey := "rid";
     p_ljoin := "s"; p_rjoin := "t"; p_lout := Some ["x"; "id"; "x"]; p_rout := None;
     p_lpre := "l_"; p_rpre := "r_"; p_score := true |}.
Definition mx_lsrc : list (list pyval) :=
  [[PInt 1; PStr "ab"; PInt 7]; [PInt 2; PNone; PInt 8]; [PInt 3; PStr "cd"; PInt 9]].
Definition mx_rsrc : list (list pyval) := [[PInt 10; PStr "ab"]; [PInt 11; py_nan]].
Definition mx_cc : list string := ["_id"; "l_id"; "r_rid"].
Definition mx_csrc : list (list pyval) :=
  [[PInt 0; PInt 1; PInt 10]; [PInt 1; PInt 2; PInt 10]; [PInt 2; PInt 3; PInt 11];
   [PInt 3; PInt 3; PInt 10]; [PInt 4; PInt 1; PInt 11]; [PInt 5; PInt 2; PInt 11]].
Definition mx_tokenize (v : pyval) : pyval :=
  match v with PStr s => PList [PStr s] | _ => PExc "TypeError" end.
Definition mx_sim (a b : pyval) : pyval := PInt (if pv_eqb a b then 1 else 0).
Definition mx_kz (v : pyval) : Z := match v with PInt z => z | _ => 0 end.

Ltac in_cases H := repeat (destruct H as [H|H]; [try subst|]); try destruct H.

Example mx_apply_matcher :
  exists rows,
    apply_matcher_model (e_sim mx_c mx_lsrc mx_rsrc (PStr "tokenizer") mx_tokenize mx_sim) (PInt 1) ">=" true true
      (e_L mx_c mx_lsrc mx_kz) (e_R mx_c mx_rsrc mx_kz) 2 4 (e_cand mx_cc "l_id" "r_rid" mx_csrc mx_kz) = Some rows /\
    apply_matcher_rows (sframe mx_cc mx_csrc) (PStr "l_id") (PStr "r_rid") (sframe (p_lcols mx_c) mx_lsrc)
      (sframe (p_rcols mx_c) mx_rsrc) (PStr "id") (PStr "rid") (PStr "s") (PStr "t") (PStr "tokenizer") (PInt 1)
      (PStr ">=") (PBool true) (py_opt_strs (p_lout mx_c)) (py_opt_strs (p_rout mx_c)) (PStr "l_") (PStr "r_")
      (PBool true) (PInt 2) (PBool false) (PInt 4) mx_tokenize mx_sim
    = sframe (header_spec mx_c) (map (e_proj mx_c mx_lsrc mx_rsrc mx_kz PInt) rows).
Proof.
  apply (apply_matcher_rows_end_to_end mx_c mx_cc "l_id" "r_rid" mx_lsrc mx_rsrc mx_csrc ">=" py_ge true (PInt 1)
           (PStr "tokenizer") (PBool false) 2 4 mx_tokenize mx_sim mx_kz PInt).
  - apply well_formedb_sound. reflexivity.
  - right. left. reflexivity.
  - right. right. left. reflexivity.
  - intros row H. in_cases H; (split; [reflexivity | apply row_okb_sound; reflexivity]).
  - intros row H. in_cases H; (split; [reflexivity | apply row_okb_sound; reflexivity]).
  - intros row H. in_cases H; (split; [reflexivity | apply row_okb_sound; reflexivity]).
  - reflexivity.
  - reflexivity.
  - reflexivity.
  - vm_compute. reflexivity.
  - vm_compute. repeat constructor; cbn; intuition discriminate.
  - vm_compute. repeat constructor; cbn; intuition discriminate.
  - intros row v Hrow Hv. in_cases Hrow; vm_compute in Hv; in_cases Hv; reflexivity.
  - intros row v Hrow Hv. in_cases Hrow; vm_compute in Hv; in_cases Hv; reflexivity.
  - intros v Hv. vm_compute in Hv. in_cases Hv; reflexivity.
  - intros crow H. in_cases H; vm_compute; intuition.
  - intros row H. in_cases H; exact I.
  - intros row H. in_cases H; exact I.
  - intros _ row H Hp. in_cases H; try discriminate Hp; reflexivity.
  - intros _ row H Hp. in_cases H; try discriminate Hp; reflexivity.
  - intros lrow rrow Hl Hr Hpl Hpr. in_cases Hl; in_cases Hr; try discriminate Hpl; try discriminate Hpr;
      split; reflexivity.
Qed.

(* the frame the generated function returns on this input, and the model's rows *)
Eval vm_compute in
  apply_matcher_rows (sframe mx_cc mx_csrc) (PStr "l_id") (PStr "r_rid") (sframe (p_lcols mx_c) mx_lsrc)
    (sframe (p_rcols mx_c) mx_rsrc) (PStr "id") (PStr "rid") (PStr "s") (PStr "t") (PStr "tokenizer") (PInt 1)
    (PStr ">=") (PBool true) (py_opt_strs (p_lout mx_c)) (py_opt_strs (p_rout mx_c)) (PStr "l_") (PStr "r_")
    (PBool true) (PInt 2) (PBool false) (PInt 4) mx_tokenize mx_sim.
Eval vm_compute in
  apply_matcher_model (e_sim mx_c mx_lsrc mx_rsrc (PStr "tokenizer") mx_tokenize mx_sim) (PInt 1) ">=" true true
    (e_L mx_c mx_lsrc mx_kz) (e_R mx_c mx_rsrc mx_kz) 2 4 (e_cand mx_cc "l_id" "r_rid" mx_csrc mx_kz).

(* the two sides of the theorem, computed (axiom-free) *)
Example mx_apply_matcher_computed :
  match apply_matcher_model (e_sim mx_c mx_lsrc mx_rsrc (PStr "tokenizer") mx_tokenize mx_sim) (PInt 1) ">=" true true
          (e_L mx_c mx_lsrc mx_kz) (e_R mx_c mx_rsrc mx_kz) 2 4 (e_cand mx_cc "l_id" "r_rid" mx_csrc mx_kz) with
  | Some rows =>
      apply_matcher_rows (sframe mx_cc mx_csrc) (PStr "l_id") (PStr "r_rid") (sframe (p_lcols mx_c) mx_lsrc)
        (sframe (p_rcols mx_c) mx_rsrc) (PStr "id") (PStr "rid") (PStr "s") (PStr "t") (PStr "tokenizer") (PInt 1)
        (PStr ">=") (PBool true) (py_opt_strs (p_lout mx_c)) (py_opt_strs (p_rout mx_c)) (PStr "l_") (PStr "r_")
        (PBool true) (PInt 2) (PBool false) (PInt 4) mx_tokenize mx_sim
      = sframe (header_spec mx_c) (map (e_proj mx_c mx_lsrc mx_rsrc mx_kz PInt) rows)
  | None => False
  end.
Proof. vm_compute. reflexivity. Qed.

(* ---- filter_candset ---- *)
Definition mx_fp (a b : pyval) : pyval :=      (* drop the pair unless both values are present and equal *)
  PBool (cell_missing a || cell_missing b || negb (pv_eqb a b)).

Example mx_filter_candset :
  exists keep,
    filter_candset_model (fc_drop (p_lcols mx_c) (p_rcols mx_c) "id" "rid" "s" "t" mx_lsrc mx_rsrc mx_fp mx_kz) 2 4
      (fc_cand mx_cc "l_id" "r_rid" mx_csrc mx_kz) = Some keep /\
    filter_candset_rows (sframe mx_cc mx_csrc) (PStr "l_id") (PStr "r_rid") (sframe (p_lcols mx_c) mx_lsrc)
      (sframe (p_rcols mx_c) mx_rsrc) (PStr "id") (PStr "rid") (PStr "s") (PStr "t") (PInt 2) (PBool false) (PInt 4) mx_fp
    = sframe mx_cc (map (fun i => nth i mx_csrc []) keep).
Proof.
  apply (filter_candset_rows_end_to_end (p_lcols mx_c) (p_rcols mx_c) mx_cc "id" "rid" "s" "t" "l_id" "r_rid"
           mx_lsrc mx_rsrc mx_csrc (PBool false) 2 4 mx_fp mx_kz).
  - left. reflexivity.
  - right. left. reflexivity.
  - left. reflexivity.
  - right. left. reflexivity.
  - right. left. reflexivity.
  - right. right. left. reflexivity.
  - intros row H. in_cases H; (split; [reflexivity | apply row_okb_sound; reflexivity]).
  - intros row H. in_cases H; (split; [reflexivity | apply row_okb_sound; reflexivity]).
  - intros row H. in_cases H; (split; [reflexivity | apply row_okb_sound; reflexivity]).
  - vm_compute. reflexivity.
  - vm_compute. repeat constructor; cbn; intuition discriminate.
  - vm_compute. repeat constructor; cbn; intuition discriminate.
  - intros row v Hrow Hv. in_cases Hrow; vm_compute in Hv; in_cases Hv; reflexivity.
  - intros row v Hrow Hv. in_cases Hrow; vm_compute in Hv; in_cases Hv; reflexivity.
  - intros crow H. in_cases H; vm_compute; intuition.
  - intros lrow rrow Hl Hr. reflexivity.
Qed.

Eval vm_compute in
  filter_candset_rows (sframe mx_cc mx_csrc) (PStr "l_id") (PStr "r_rid") (sframe (p_lcols mx_c) mx_lsrc)
    (sframe (p_rcols mx_c) mx_rsrc) (PStr "id") (PStr "rid") (PStr "s") (PStr "t") (PInt 2) (PBool false) (PInt 4) mx_fp.
Eval vm_compute in
  filter_candset_model (fc_drop (p_lcols mx_c) (p_rcols mx_c) "id" "rid" "s" "t" mx_lsrc mx_rsrc mx_fp mx_kz) 2 4
    (fc_cand mx_cc "l_id" "r_rid" mx_csrc mx_kz).

Print Assumptions mx_apply_matcher.            (* Reals axioms, through the end-to-end theorem *)
Print Assumptions mx_apply_matcher_computed.   (* closed *)
Print Assumptions mx_filter_candset.           (* Reals axioms, through the end-to-end theorem *)
