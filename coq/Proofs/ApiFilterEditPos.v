(* C04 under EDIT_DISTANCE for PositionFilter.filter_tables: on sorted BAGS (q-gram bags have
   repeated tokens) the position filter's loop never prunes a pair whose bag overlap reaches
   the overlap threshold, and counts at least one prefix/prefix match.  Closes
   `edf_complete_stmt` of ApiFilterEdit.v for all three filters.  Integers and lists only.   *)
From Coq Require Import ZArith Bool List String Lia Sorted Arith.
From SSJ Require Import F64 PyNum HelperGen TokenOrdering Measures Filters Lev Qgram Joins Api JoinSpec
                        MetaSpec Prefix BagFacts OrderingFacts PyFacts PositionSafe OverlapFacts
                        EditArith EditJoin EditFilters CoreLiftBase CoreLift ApiLift
                        ApiFilterBase ApiFilterTables ApiFilterEdit.
Import ListNotations.
Open Scope string_scope.
Open Scope list_scope.
Open Scope Z_scope.

(* ------------------------------------------------------------------ counting *)
Fixpoint pairsN (A C : list Z) : nat :=
  match C with [] => 0%nat | c :: C' => (cnt A c + pairsN A C')%nat end.

Lemma countZ_cnt w l : countZ w l = Z.of_nat (cnt l w).
Proof.
  induction l as [|h t IH]; [reflexivity|]. cbn [countZ]. rewrite cnt_cons, IH.
  destruct (Z.eqb_spec w h) as [E0|Hne]; destruct (Z.eq_dec h w) as [E|E]; try congruence; lia.
Qed.

Lemma overlap_count_pairsN A C : overlap_count A C = Z.of_nat (pairsN A C).
Proof.
  induction C as [|c C IH]; [reflexivity|]. rewrite overlap_count_cons, IH, countZ_cnt. cbn [pairsN]. lia.
Qed.

Lemma overlap_count_app x y1 y2 : overlap_count x (y1 ++ y2) = overlap_count x y1 + overlap_count x y2.
Proof.
  induction y1 as [|w y1 IH]; [reflexivity|]. rewrite <- app_comm_cons, !overlap_count_cons, IH. lia.
Qed.

Lemma countZ_app w a b : countZ w (a ++ b) = countZ w a + countZ w b.
Proof. induction a as [|h a IH]; simpl; [reflexivity|]. rewrite IH. lia. Qed.

Lemma pairsN_app_l A E C : pairsN (A ++ E) C = (pairsN A C + pairsN E C)%nat.
Proof. induction C as [|c C IH]; [reflexivity|]. cbn [pairsN]. rewrite count_occ_app, IH. lia. Qed.

Lemma pairsN_head w E C : (cnt C w <= pairsN (w :: E) C)%nat.
Proof.
  induction C as [|c C IH]; [simpl; lia|]. cbn [pairsN]. rewrite !cnt_cons.
  destruct (Z.eq_dec c w) as [E0|E0]; destruct (Z.eq_dec w c) as [E1|E1]; try congruence; lia.
Qed.

Lemma ovl_app_l A B Y : (ovl (A ++ B) Y <= ovl A Y + ovl B Y)%nat.
Proof.
  unfold ovl. rewrite <- app_length. apply cnt_le_length. intros v.
  rewrite count_occ_app, !cnt_binter, count_occ_app. lia.
Qed.

Lemma ovl_app_r X C D : (ovl X (C ++ D) <= ovl X C + ovl X D)%nat.
Proof. rewrite !(ovl_sym X). apply ovl_app_l. Qed.

Lemma ovl_single A c : (ovl A [c] <= cnt A c)%nat.
Proof.
  rewrite ovl_sym. unfold ovl. cbn [binter]. destruct (mem c A) eqn:E; [|simpl; lia].
  apply mem_In in E. apply (count_occ_In Z.eq_dec) in E. simpl. lia.
Qed.

Lemma ovl_le_pairs A C : (ovl A C <= pairsN A C)%nat.
Proof.
  induction C as [|c C IH]; [rewrite ovl_sym; unfold ovl; simpl; lia|].
  change (c :: C) with ([c] ++ C). pose proof (ovl_app_r A [c] C). pose proof (ovl_single A c).
  cbn [pairsN app] in *. lia.
Qed.

(* bags on the two sides of a pivot only share the pivot *)
Lemma ovl_cross A w : forall D,
  (forall a, In a A -> a <= w) -> (forall d, In d D -> w <= d) -> (ovl A D <= cnt A w)%nat.
Proof.
  induction A as [|a A IH]; intros D HA HD; [unfold ovl; simpl; lia|].
  unfold ovl. cbn [binter]. rewrite cnt_cons.
  assert (HA' : forall x, In x A -> x <= w) by (intros x Hx; apply HA; right; exact Hx).
  destruct (mem a D) eqn:E.
  - apply mem_In in E. assert (a = w) by (pose proof (HA a (or_introl eq_refl)); pose proof (HD a E); lia).
    subst a. destruct (Z.eq_dec w w); [|congruence]. cbn [List.length].
    apply le_n_S. apply (IH (rem1 w D) HA'). intros d Hd. apply HD. eapply rem1_In. exact Hd.
  - pose proof (IH D HA' HD) as H. unfold ovl in H. destruct (Z.eq_dec a w); lia.
Qed.

Lemma ovl_split_bound A B C D w :
  (forall a, In a A -> a <= w) -> (forall b, In b B -> w <= b) ->
  (forall c, In c C -> c <= w) -> (forall d, In d D -> w <= d) ->
  (ovl (A ++ B) (C ++ D) <= pairsN A C + cnt A w + cnt C w + Nat.min (List.length B) (List.length D))%nat.
Proof.
  intros HA HB HC HD.
  pose proof (ovl_app_l A B (C ++ D)). pose proof (ovl_app_r A C D). pose proof (ovl_app_r B C D).
  pose proof (ovl_le_pairs A C). pose proof (ovl_cross A w D HA HD).
  pose proof (ovl_cross C w B HC HB) as H5. rewrite ovl_sym in H5.
  pose proof (ovl_le_l B D). pose proof (ovl_le_r B D). lia.
Qed.

Lemma sorted_le_pivot A w R : Sorted Z.le (A ++ w :: R) ->
  (forall a, In a A -> a <= w) /\ (forall b, In b (w :: R) -> w <= b).
Proof.
  intros H. split.
  - intros a Ha. apply (sorted_app_le A (w :: R) H a w Ha). left; reflexivity.
  - intros b [<-|Hb]; [lia|]. replace (A ++ w :: R) with ((A ++ [w]) ++ R) in H
      by (rewrite <- app_assoc; reflexivity).
    apply (sorted_app_le (A ++ [w]) R H w b); [apply in_or_app; right; left; reflexivity|exact Hb].
Qed.

(* ------------------------------------------------------------------ the loop on sorted bags *)
Section BagLoop.
  Variable p : fparams.
  Variables xp XS Y : list Z.
  Let X := xp ++ XS.
  Variable al : Z.
  Hypothesis HsX : Sorted Z.le X.
  Hypothesis HsY : Sorted Z.le Y.
  Hypothesis Hwin : in_window (g_lb p (len Y)) (g_ub p (len Y)) (len X) = true.
  Hypothesis Hot : g_ot p (len X) (len Y) = PInt al.
  Hypothesis Hal : al <= Z.of_nat (ovl X Y).

  (* the pruning test passes at every posting met by the loop *)
  Lemma bag_bound A B' C D' w : xp = A ++ w :: B' -> Y = C ++ w :: D' ->
    al <= overlap_count xp C + countZ w A +
          Z.min (len Y - Z.of_nat (List.length C)) (len X - Z.of_nat (List.length A)).
  Proof.
    intros Ex Ey.
    assert (EX : X = A ++ w :: (B' ++ XS)) by (unfold X; rewrite Ex, <- app_assoc; reflexivity).
    pose proof HsX as HsX'. rewrite EX in HsX'. pose proof HsY as HsY'. rewrite Ey in HsY'.
    destruct (sorted_le_pivot _ _ _ HsX') as [HA HB]. destruct (sorted_le_pivot _ _ _ HsY') as [HC HD].
    pose proof (ovl_split_bound A (w :: B' ++ XS) C (w :: D') w HA HB HC HD) as Hb.
    rewrite <- EX, <- Ey in Hb.
    assert (Hp : (pairsN A C + cnt C w <= pairsN xp C)%nat).
    { rewrite Ex, pairsN_app_l. pose proof (pairsN_head w B' C). lia. }
    rewrite overlap_count_pairsN, countZ_cnt.
    assert (HlX : len X = Z.of_nat (List.length A) + Z.of_nat (List.length (w :: B' ++ XS))).
    { unfold len. rewrite EX, app_length. lia. }
    assert (HlY : len Y = Z.of_nat (List.length C) + Z.of_nat (List.length (w :: D'))).
    { unfold len. rewrite Ey, app_length. lia. }
    lia.
  Qed.

  Lemma bag_fold j w C D' : Y = C ++ w :: D' -> j = List.length C ->
    forall B A, xp = A ++ B ->
      fold_left (fun c i => pos_update p (len X) (len Y) c j i) (positions_from w B (List.length A))
                (overlap_count xp C + countZ w A)
      = overlap_count xp C + countZ w xp.
  Proof.
    intros Ey Ej. induction B as [|h B IH]; intros A Ex.
    - rewrite app_nil_r in Ex. subst A. reflexivity.
    - assert (Ex' : xp = (A ++ [h]) ++ B) by (rewrite <- app_assoc; exact Ex).
      specialize (IH (A ++ [h]) Ex'). rewrite app_length in IH. cbn [List.length] in IH.
      rewrite Nat.add_1_r in IH. rewrite countZ_app in IH. cbn [countZ] in IH.
      cbn [positions_from]. destruct (Z.eqb_spec w h) as [<-|Hne].
      + cbn [fold_left]. unfold X in *. rewrite (pos_update_ok p xp XS Y al Hwin Hot).
        * rewrite <- IH. f_equal. lia.
        * pose proof (overlap_count_nonneg xp C). pose proof (countZ_nonneg w A). lia.
        * subst j. apply (bag_bound A B C D' w Ex Ey).
      + rewrite <- IH. f_equal. lia.
  Qed.

  Lemma bag_loop : forall Y2 Y1 Y3 cur, Y = Y1 ++ Y2 ++ Y3 -> cur = overlap_count xp Y1 ->
    pos_loop p (len X) (len Y) xp Y2 (List.length Y1) cur = overlap_count xp (Y1 ++ Y2).
  Proof.
    induction Y2 as [|w Y2 IH]; intros Y1 Y3 cur Ey Ec.
    - rewrite app_nil_r. exact Ec.
    - cbn [pos_loop].
      assert (Ey' : Y = Y1 ++ w :: (Y2 ++ Y3)) by exact Ey.
      pose proof (bag_fold (List.length Y1) w Y1 (Y2 ++ Y3) Ey' eq_refl xp [] eq_refl) as Hf.
      cbn [List.length countZ] in Hf. rewrite Z.add_0_r in Hf. rewrite Ec, Hf.
      replace (Y1 ++ w :: Y2) with ((Y1 ++ [w]) ++ Y2) by (rewrite <- app_assoc; reflexivity).
      replace (S (List.length Y1)) with (List.length (Y1 ++ [w])) by (rewrite app_length; simpl; lia).
      apply (IH (Y1 ++ [w]) Y3).
      + rewrite <- app_assoc. exact Ey.
      + rewrite overlap_count_app, overlap_count_cons. change (overlap_count xp []) with 0. lia.
  Qed.

  Theorem bag_loop_result yp YS : Y = yp ++ YS ->
    pos_loop p (len X) (len Y) xp yp 0 0 = overlap_count xp yp.
  Proof. intros Ey. apply (bag_loop yp [] YS 0); [exact Ey|reflexivity]. Qed.
End BagLoop.

Lemma overlap_count_pos xp yp w : In w yp -> In w xp -> 1 <= overlap_count xp yp.
Proof.
  intros Hy Hx. apply in_split in Hy. destruct Hy as [y1 [y2 ->]].
  rewrite overlap_count_app, overlap_count_cons.
  pose proof (overlap_count_nonneg xp y1). pose proof (overlap_count_nonneg xp y2).
  rewrite countZ_cnt. apply (count_occ_In Z.eq_dec) in Hx. lia.
Qed.

(* PositionFilter.find_candidates on one (record, probe) pair of sorted bags *)
Theorem ed_pos_cand_safe q tau X Y : Sorted Z.le X -> Sorted Z.le Y -> 0 <= tau -> 1 <= q ->
  Z.max (len X) (len Y) - q * tau <= Z.of_nat (ovl X Y) -> (1 <= ovl X Y)%nat ->
  Z.abs (len X - len Y) <= tau ->
  exists v, pos_cand (edp q tau) X Y = Some v /\ 0 < v.
Proof.
  intros HsX HsY Ht Hq Hcf Hov Hlen.
  assert (HX : 0 <= len X) by (unfold len; lia). assert (HY : 0 <= len Y) by (unfold len; lia).
  unfold pos_cand. rewrite !g_pl_ed by assumption.
  rewrite !EditFilters.slice0_nonneg by lia. fold (edpl q tau X). fold (edpl q tau Y).
  set (xp := firstn (edpl q tau X) X). set (yp := firstn (edpl q tau Y) Y).
  assert (EX : xp ++ skipn (edpl q tau X) X = X) by apply firstn_skipn.
  assert (EY : Y = yp ++ skipn (edpl q tau Y) Y) by (symmetry; apply firstn_skipn).
  eexists. split; [reflexivity|].
  rewrite <- EX at 1.
  rewrite (bag_loop_result (edp q tau) xp (skipn (edpl q tau X) X) Y (Z.max (len X) (len Y) - q * tau))
    with (YS := skipn (edpl q tau Y) Y).
  - pose proof (ed_prefix_share q tau X Y HsX HsY Ht Hq Hcf Hov) as Hsh. fold xp yp in Hsh.
    apply EditArith.share_true_iff in Hsh. destruct Hsh as [w [Hwx Hwy]].
    pose proof (overlap_count_pos xp yp w Hwy Hwx). lia.
  - rewrite EX. exact HsX.
  - exact HsY.
  - rewrite EX, in_window_ed. apply andb_true_iff. split; apply Z.leb_le; lia.
  - rewrite EX. apply g_ot_ed'.
  - rewrite EX. exact Hcf.
  - exact EY.
Qed.

(* ------------------------------------------------------------------ API level *)
Section EdFilterPos.
  Hypothesis Hpart : part_hyp.
  Variable c : jcase.
  Variable k : fkind.
  Variable tau : Z.
  Hypothesis Hv : valid_edf_case c k tau.
  Hypothesis Hrows : edf_rows c.
  Local Notation Lp := (filter present (j_L c)).
  Local Notation Rp := (filter present (j_R c)).

  Theorem edf_complete_position : k = KPosition ->
    forall out, api_join c = Some out -> complete_spec c out = true.
  Proof.
    intros Ek out H.
    destruct Hv as [He [Hk3 [Htt [Ht [Hq [Hk Hsz]]]]]].
    apply (complete_spec_lift Hpart c Hsz Hk out H).
    intros Rc l r lst Hi Hl Hr Hn Epf. rewrite (edf_pf c k tau Hv) in Epf.
    unfold need_pair in Hn. rewrite He in Hn.
    change (String.eqb "EDIT_DISTANCE" "EDIT_DISTANCE") with true in Hn. cbv iota zeta in Hn.
    apply andb_true_iff in Hn. destruct Hn as [Hc Hsh]. rewrite Htt, ed_dist_rowval in Hc.
    pose proof (ed_dist_le "<=" tau (rowval l) (rowval r) (or_introl eq_refl) Ht Hc) as Hlev.
    cbn [rowval fst] in Hlev.
    pose proof (Hi r Hr) as Hrp. pose proof Hl as Hl'. apply filter_In in Hl', Hrp.
    destruct (Hrows l r (proj1 Hl') (proj1 Hrp) (proj2 Hl') (proj2 Hrp)) as [Hcf Hlen].
    set (all := all_of Lp Rc) in *.
    assert (Hla : forall w, In w (toks_of l) -> In w all) by apply (toks_all_l Lp Rc l Hl).
    assert (Hra : forall w, In w (toks_of r) -> In w all) by apply (toks_all_r Lp Rc r Hr).
    unfold cf in Hcf. cbn [rowval fst snd] in Hcf.
    assert (Hm : j_q c * lev (str_of l) (str_of r) <= j_q c * tau) by (apply Z.mul_le_mono_nonneg_l; lia).
    destruct (ed_pos_cand_safe (j_q c) tau (order all (toks_of l)) (order all (toks_of r)))
      as [v [Ev Hv0]]; try assumption; try apply order_sorted_le.
    - rewrite !EditJoin.len_order, order_ovl by assumption. lia.
    - rewrite order_ovl by assumption. apply share_ovl. exact Hsh.
    - rewrite !EditJoin.len_order by assumption. lia.
    - subst k. unfold filter_cand in Epf. rewrite Ev in Epf. cbn [option_map] in Epf.
      destruct (Z.ltb_spec 0 v); [|lia]. injection Epf as <-. discriminate.
  Qed.
End EdFilterPos.

(* the full C04 statement under EDIT_DISTANCE, for the three filters *)
Theorem edf_complete : forall k, k3 k -> edf_complete_stmt k.
Proof.
  intros k Hk Hpart c tau Hv Hrows out H. destruct Hk as [Ek | [Ek | Ek]].
  - apply (edf_complete_partial Hpart c k tau Hv Hrows (or_introl Ek) out H).
  - apply (edf_complete_partial Hpart c k tau Hv Hrows (or_intror Ek) out H).
  - apply (edf_complete_position Hpart c k tau Hv Hrows Ek out H).
Qed.

Example ed_pos_cand_ex :
  let X := [3; 3; 3; 5; 7] in let Y := [3; 3; 4; 5; 7] in
  ovl X Y = 4%nat /\ pos_cand (edp 2 1) X Y = Some 6.
Proof. vm_compute. split; reflexivity. Qed.

Print Assumptions ed_pos_cand_safe.
Print Assumptions edf_complete_position.
Print Assumptions edf_complete.
