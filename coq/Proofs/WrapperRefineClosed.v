(* The wrapper refinement with the chunk hypotheses discharged.

   * `*_join_rows_refines_seq` (step (d)): when min(get_num_processes_to_launch(n_jobs), rows) <= 1 the
     split hypothesis of WrapperRefine.v is vacuous: AXIOM-FREE.
   * `*_join_rows_refines_closed` (step (e)): for any n_jobs, with the chunk boundaries
     bs = SplitFacts.split_bs k n supplied by WrapperRefineChunks.split_table_chunks (tables with fewer
     than 2^31 rows).  This instance depends on the standard-library Reals axioms, exactly like
     SplitFacts.chunks_of_partition, because the boundaries are round(i * (1.0/k*n)) in binary64.
   * `wchunks_chunks_of`: the chunks of the generated wrapper are the chunks of Model/Api.v chunks_of. *)
From Coq Require Import ZArith Bool List String Lia Permutation.
From SSJ Require Import F64 PyNum FilterUtilsGen HelperGen TokenOrderingGen ValidationGen IndexGen JoinGen
     TokenOrdering Measures Filters Joins Api Projection ProjSpec IndexPyFacts ProjectionFacts
     JoinGenFacts JoinGenLoop JoinRefine JoinRefineProj SplitFacts Frame WrapperGen WrapperRefineFrame
     WrapperRefineMissing WrapperRefineCore WrapperRefineChunks WrapperRefine.
Import ListNotations.
Open Scope Z_scope.

Section Closed.
  Variables (c : pcase) (p : fparams) (op : string) (ae am : bool) (njobs cpus : Z).
  Variables (lsrc rsrc : list (list pyval)) (showp : pyval).
  Variables (tokenize : pyval -> pyval) (sim_fn : pyval -> pyval -> pyval).
  Variables (toks : pyval -> list Z) (cf : pyval -> pyval -> pyval).

  Let rpres := rpresent c rsrc.
  Let k := kjobs c njobs cpus rsrc.
  Let n := Z.of_nat (List.length rpres).
  Let bs := split_bs k n.

  Hypothesis Hwf : well_formed c.
  Hypothesis Hlsrc : forall row, In row lsrc ->
    List.length row = List.length (p_lcols c) /\ ProjSpec.row_ok row.
  Hypothesis Hrsrc : forall row, In row rsrc ->
    List.length row = List.length (p_rcols c) /\ ProjSpec.row_ok row.
  Hypothesis HtokL : forall row, In row (lpresent c lsrc) ->
    tokenize (cellv (p_lcols c) row (p_ljoin c)) = pints (toks (cellv (p_lcols c) row (p_ljoin c))).
  Hypothesis HtokR : forall row, In row rpres ->
    tokenize (cellv (p_rcols c) row (p_rjoin c)) = pints (toks (cellv (p_rcols c) row (p_rjoin c))).
  Hypothesis Hm : set_measure (fm p).
  Hypothesis Hvt : is_exc (validate_threshold (ft p) (PStr (fm p))) = false.
  Hypothesis Hvop : is_exc (validate_comp_op_for_sim_measure (PStr op) (PStr (fm p))) = false.
  Hypothesis Hvout : is_exc (validate_output_attrs (py_opt_strs (p_lout c)) (py_strs (p_lcols c))
                                                   (py_opt_strs (p_rout c)) (py_strs (p_rcols c))) = false.
  Hypothesis Hop : comp_op_map op = Some cf.
  Hypothesis Hnum : num_of (ft p) <> None.
  Hypothesis Hid : ~ In "_id"%string (mv_header c).

  Lemma k_le_n : k <= Z.max 1 n.
  Proof. unfold k, kjobs, nchunks, n, rpres. lia. Qed.

  (* the split hypothesis of WrapperRefine.v, from the float arithmetic of split_table *)
  Lemma split_hyp : n < 2^31 -> 1 < k ->
    List.length bs = Z.to_nat k /\
    split_table (PList (map PList (project_r c rpres))) (PInt k)
    = PList (map PList (map (slice_nat (map PList (project_r c rpres))) bs)).
  Proof.
    intros Hn Hk.
    assert (Hk' : 1 <= k < 2^31) by (pose proof k_le_n; lia).
    assert (El : List.length (map PList (project_r c rpres)) = List.length rpres)
      by (unfold project_r; now rewrite !map_length).
    split.
    - unfold bs, n. destruct (split_partition _ rpres k Hk' Hn) as (_ & _ & _ & Hl). exact Hl.
    - rewrite split_table_chunks by (rewrite ?El; assumption).
      rewrite El. fold n. fold bs. now rewrite map_map.
  Qed.

  (* the chunks of the generated wrapper are those of the API model *)
  Lemma wchunks_chunks_of : n < 2^31 ->
    exists chs, chunks_of njobs cpus rpres = Some chs /\ map snd chs = wchunks c njobs cpus rsrc bs /\
                List.concat (map snd chs) = rpres.
  Proof.
    intros Hn. destruct (chunks_of_partition _ njobs cpus rpres Hn) as (chs & E & Hc & _ & _).
    exists chs. split; [exact E|]. split; [|exact Hc].
    rewrite chunks_of_eval in E by exact Hn. injection E as <-.
    unfold wchunks. fold rpres. unfold kjobs. fold rpres.
    destruct (nchunks njobs cpus (List.length rpres) <=? 1); [reflexivity|].
    rewrite map_map. cbn [snd]. reflexivity.
  Qed.

  Section Par.
    Hypothesis Hn : n < 2^31.
    Hypothesis Hcore : forall ch, In ch (wchunks c njobs cpus rsrc bs) -> core_hyps c p ae lsrc sim_fn toks ch.

    Theorem jaccard_join_rows_refines_closed : fm p = "JACCARD"%string ->
      wrapper_result c p op ae am njobs cpus lsrc rsrc showp tokenize sim_fn toks bs jaccard_join_rows.
    Proof using All.
      intros Hfm. apply (jaccard_join_rows_refines c p op ae am njobs cpus lsrc rsrc showp tokenize sim_fn toks cf bs);
        try assumption. intros Hk. apply split_hyp; assumption.
    Qed.
    Theorem cosine_join_rows_refines_closed : fm p = "COSINE"%string ->
      wrapper_result c p op ae am njobs cpus lsrc rsrc showp tokenize sim_fn toks bs cosine_join_rows.
    Proof using All.
      intros Hfm. apply (cosine_join_rows_refines c p op ae am njobs cpus lsrc rsrc showp tokenize sim_fn toks cf bs);
        try assumption. intros Hk. apply split_hyp; assumption.
    Qed.
    Theorem dice_join_rows_refines_closed : fm p = "DICE"%string ->
      wrapper_result c p op ae am njobs cpus lsrc rsrc showp tokenize sim_fn toks bs dice_join_rows.
    Proof using All.
      intros Hfm. apply (dice_join_rows_refines c p op ae am njobs cpus lsrc rsrc showp tokenize sim_fn toks cf bs);
        try assumption. intros Hk. apply split_hyp; assumption.
    Qed.
  End Par.

  Section Seq.
    (* (d): at most one job -- no chunking, no float arithmetic, no axioms *)
    Hypothesis Hk : k <= 1.
    Hypothesis Hcore1 : core_hyps c p ae lsrc sim_fn toks rpres.

    Lemma seq_chunks : wchunks c njobs cpus rsrc [] = [rpres].
    Proof using Hk. unfold wchunks. fold k. fold rpres. assert (E : (k <=? 1) = true) by (apply Z.leb_le; exact Hk). now rewrite E. Qed.

    Lemma seq_core : forall ch, In ch (wchunks c njobs cpus rsrc []) -> core_hyps c p ae lsrc sim_fn toks ch.
    Proof using Hk Hcore1. intros ch Hin. rewrite seq_chunks in Hin. destruct Hin as [<-|[]]. exact Hcore1. Qed.

    Theorem jaccard_join_rows_refines_seq : fm p = "JACCARD"%string ->
      wrapper_result c p op ae am njobs cpus lsrc rsrc showp tokenize sim_fn toks [] jaccard_join_rows.
    Proof using Hwf Hlsrc Hrsrc HtokL HtokR Hm Hvt Hvop Hvout Hop Hnum Hid Hk Hcore1.
      intros Hfm. apply (jaccard_join_rows_refines c p op ae am njobs cpus lsrc rsrc showp tokenize sim_fn toks cf []);
        try assumption; [exact seq_core | fold k; lia].
    Qed.
    Theorem cosine_join_rows_refines_seq : fm p = "COSINE"%string ->
      wrapper_result c p op ae am njobs cpus lsrc rsrc showp tokenize sim_fn toks [] cosine_join_rows.
    Proof using Hwf Hlsrc Hrsrc HtokL HtokR Hm Hvt Hvop Hvout Hop Hnum Hid Hk Hcore1.
      intros Hfm. apply (cosine_join_rows_refines c p op ae am njobs cpus lsrc rsrc showp tokenize sim_fn toks cf []);
        try assumption; [exact seq_core | fold k; lia].
    Qed.
    Theorem dice_join_rows_refines_seq : fm p = "DICE"%string ->
      wrapper_result c p op ae am njobs cpus lsrc rsrc showp tokenize sim_fn toks [] dice_join_rows.
    Proof using Hwf Hlsrc Hrsrc HtokL HtokR Hm Hvt Hvop Hvout Hop Hnum Hid Hk Hcore1.
      intros Hfm. apply (dice_join_rows_refines c p op ae am njobs cpus lsrc rsrc showp tokenize sim_fn toks cf []);
        try assumption; [exact seq_core | fold k; lia].
    Qed.
  End Seq.
End Closed.

Print Assumptions jaccard_join_rows_refines_seq.      (* closed *)
Print Assumptions cosine_join_rows_refines_seq.       (* closed *)
Print Assumptions dice_join_rows_refines_seq.         (* closed *)
Print Assumptions jaccard_join_rows_refines_closed.   (* Reals axioms (split_table_chunks) *)
Print Assumptions wchunks_chunks_of.                  (* Reals axioms (chunks_of_partition) *)
