(* The GENERATED PrefixFilter._filter_tables_split (Gen/JoinGen.v:
   prefix_filter_tables_split_rows) refines Joins.filter_tables_core KPrefix.
   The candidates are a Python set (modelled as a dict with PNone values): the generated loop
   walks its keys in insertion order, the model the left rows in ascending order.
   (a) prefix_filter_rows_fold, (b) prefix_filter_tables_split_rows_refines.  Axiom-free.   *)
From Coq Require Import ZArith Bool List String Lia Permutation.
From SSJ Require Import F64 PyNum FilterUtilsGen HelperGen TokenOrderingGen ValidationGen IndexGen JoinGen
     TokenOrdering Measures Filters Joins Projection ProjSpec ProjectionFacts OrderingFacts OrderingGenFacts
     IndexPyFacts IndexBuildFacts IndexProbeFacts IndexRefine IndexInverted IndexPrefix IndexSize IndexGlue
     JoinGenFacts JoinGenLoop JoinRefine SplitRefineBase SplitRefineFilterBase.
Import ListNotations.
Open Scope Z_scope.

Section Prefix.
  Variables (p : fparams) (ae : bool) (bound : Z).
  Variables (lrows rrows : list (list pyval)).
  Variables (lcolumns rcolumns lkeya rkeya lfa rfa louta routa lpre rpre showp : pyval).
  Variables (ki ji kj jj : nat) (li ri : list nat) (has : bool) (hdr : list pyval).
  Variables (tokenize : pyval -> pyval) (tkL tkR : list pyval -> list Z).
  Let L := map tkL lrows.
  Let R := map tkR rrows.
  Let all := (List.concat L ++ List.concat R)%list.
  Let xof (r : list pyval) := order all (tkL r).
  Let yof (r : list pyval) := order all (tkR r).
  Let Lo := map xof lrows.
  Let he := f_he p ae.
  Let ordering := PDict (ordering_dict all).

  Hypothesis Hlk : py_index lcolumns lkeya = natpy ki.
  Hypothesis Hlj : py_index lcolumns lfa = natpy ji.
  Hypothesis Hlo : find_output_attribute_indices lcolumns louta = PList (map natpy li).
  Hypothesis Hrk : py_index rcolumns rkeya = natpy kj.
  Hypothesis Hrj : py_index rcolumns rfa = natpy jj.
  Hypothesis Hro : find_output_attribute_indices rcolumns routa = PList (map natpy ri).
  Hypothesis Hhas : py_or (py_is_not_none louta) (py_is_not_none routa) = PBool has.
  Hypothesis Hnohas : has = false -> li = [] /\ ri = [].
  Hypothesis Hhdr : get_output_header_from_tables lkeya rkeya louta routa lpre rpre = PList hdr.
  Hypothesis Hlrows : forall r, In r lrows -> cols_ok ki ji li r.
  Hypothesis Hrrows : forall r, In r rrows -> cols_ok kj jj ri r.
  Hypothesis HtokL : forall r, In r lrows -> tokenize (nth ji r PNone) = pints (tkL r).
  Hypothesis HtokR : forall r, In r rrows -> tokenize (nth jj r PNone) = pints (tkR r).
  Hypothesis Hf : formulas_ok p bound.
  Hypothesis HsL : forall r, In r lrows -> len (tkL r) < bound.
  Hypothesis HsR : forall r, In r rrows -> len (tkR r) < bound.

  Let a := pbuild_abs p he Lo.

  Lemma px_len_y r : In r rrows -> 0 <= len (yof r) < bound.
  Proof. exact (ft_len_y bound lrows rrows tkL tkR HsR r). Qed.
  Lemma px_plL : forall x, In x Lo -> exists k, g_pl p (len x) = PInt k.
  Proof. exact (ft_plL p bound lrows rrows tkL tkR Hf HsL). Qed.
  Lemma px_lrow_ok : Forall2 (IndexBuildFacts.row_ok (natpy ji) ordering tokenize) (map PList lrows) Lo.
  Proof. exact (ft_lrow_ok lrows rrows ki ji li tokenize tkL tkR Hlrows HtokL). Qed.

  (* the candidate set for a right row: keys, membership *)
  Lemma px_row (rrow : list pyval) : In rrow rrows ->
    prefix_filter_find_candidates (PStr (fm p)) (ft p) (pints (yof rrow)) (iidx_repr (p_idx a)) (PInt (fq p))
    = srepr (px_set p he Lo (yof rrow)) /\
    NoDup (px_keys p he Lo (yof rrow)) /\
    (forall c, In c (px_keys p he Lo (yof rrow)) -> 0 <= c < Z.of_nat (List.length lrows)) /\
    forall c, (c < List.length Lo)%nat ->
      prefix_cand p (nth c Lo []) (yof rrow) = Some (smem (px_set p he Lo (yof rrow)) (Z.of_nat c)).
  Proof. exact (px_row_gen p he bound lrows rrows ki ji li tokenize tkL tkR Hlrows HtokL Hf HsL HsR rrow). Qed.

  Definition Ipx_outer (acc : list (list pyval))
    (s : pyval * (pyval * (pyval * (pyval * (pyval * (pyval * (pyval * (pyval * pyval)))))))) : Prop :=
    exists t1 t2 t3 t4 t5 t7 t8,
      s = (PNone, (t1, (t2, (t3, (t4, (t5, (PList (map PList acc), (t7, t8)))))))).

  Definition px_rows_of (rrow : list pyval) : list (list pyval) :=
    map (fun cs : Z * pyval => out_row false ki kj li ri lrows (fst cs) rrow (snd cs))
        (f_row_pairs he Lo (px_keys p he Lo (yof rrow)) (yof rrow)).

  Theorem prefix_filter_rows_fold :
    prefix_filter_tables_split_rows (PList (map PList lrows)) (PList (map PList rrows)) lcolumns rcolumns
      lkeya rkeya lfa rfa (PStr (fm p)) (ft p) (PBool ae) louta routa lpre rpre showp (PInt (fq p)) tokenize
    = PTuple [PList (map PList (List.concat (map px_rows_of rrows))); PList hdr].
  Proof.
    unfold prefix_filter_tables_split_rows.
    rewrite Hlk, Hlj. cbv zeta. rewrite Hlo, Hrk, Hrj, Hro.
    repeat (rewrite bindx_ok by reflexivity).
    rewrite (ordering_eq p lrows rrows ki ji kj jj li ri tokenize tkL tkR Hlrows Hrrows HtokL HtokR).
    fold L R all ordering. rewrite (bindx_ok ordering) by reflexivity.
    rewrite handle_empty_eq. fold he. rewrite (bindx_ok (PBool he)) by reflexivity.
    rewrite (prefix_index_build_eq p (natpy ji) ordering tokenize (map PList lrows) Lo he px_lrow_ok px_plL).
    fold a. unfold pbuild_result.
    destruct (getitem_pair (iidx_repr (p_idx a))
                (PDict [PTuple [PStr "empty_records"%string; pints (p_empty a)]])) as (G0 & G1).
    rewrite (bindx_ok (PTuple _)) by reflexivity.
    rewrite G0, G1.
    repeat (rewrite bindx_ok by reflexivity).
    rewrite getitem_empty_records.
    repeat (rewrite bindx_ok by reflexivity).
    rewrite Hhas. rewrite (bindx_ok (PBool has)) by reflexivity.
    match goal with |- context [py_for (PList (map PList rrows)) ?r ?f ?b ?s0] =>
      pose proof (py_for_inv _ _ _ PList Ipx_outer r f b
                    (fun acc rrow => (acc ++ px_rows_of rrow)%list) rrows s0 []) as HI end.
    lapply HI; [clear HI; intros HI|].
    2:{ unfold Ipx_outer. do 7 eexists. reflexivity. }
    lapply HI; [clear HI; intros HI|].
    2:{ intros acc s (t1 & t2 & t3 & t4 & t5 & t7 & t8 & ->). reflexivity. }
    lapply HI; [clear HI; intros HI|].
    - destruct HI as (t1 & t2 & t3 & t4 & t5 & t7 & t8 & E). rewrite E. clear E.
      cbv beta iota. cbn [bindx]. rewrite Hhdr. rewrite (bindx_ok (PList hdr)) by reflexivity.
      rewrite fold_left_app_map. cbn [app]. reflexivity.
    - clear HI. intros acc s rrow Hin (t1 & t2 & t3 & t4 & t5 & t7 & t8 & ->).
      cbv beta iota.
      destruct (join_cell_ok _ _ _ _ (Hrrows rrow Hin)) as [Ecell Hcell].
      rewrite (bindx_ok (PList rrow)) by reflexivity.
      rewrite Ecell. rewrite (bindx_ok (nth jj rrow PNone)) by exact Hcell.
      rewrite (bindx_ok (tokenize _)) by (rewrite (HtokR rrow Hin); reflexivity).
      unfold ordering, all, L, R.
      rewrite (ordered_R lrows rrows jj tokenize tkL tkR HtokR rrow Hin).
      fold L R all ordering. fold (yof rrow).
      rewrite (bindx_ok (pints _)) by reflexivity.
      rewrite py_len_pints, py_eq_int_val, py_and_bools.
      rewrite (bindx_ok (PBool _)) by reflexivity. cbn [py_truth].
      unfold px_rows_of, f_row_pairs.
      destruct (he && (len (yof rrow) =? 0)) eqn:Ebr.
      + (* handle_empty and no tokens: the cached empty left records *)
        assert (Ehe : he = true) by (destruct he; [reflexivity | discriminate Ebr]).
        unfold a. rewrite pbuild_empty. rewrite Ehe. unfold pints at 1.
        match goal with |- context [py_for (PList (map PInt ?l)) ?r ?f ?b ?s0] =>
          pose proof (py_for_inv _ _ _ PInt Irows r f b
                        (fun acc' c => (acc' ++ [out_row false ki kj li ri lrows c rrow PNone])%list)
                        l s0 acc) as HI end.
        lapply HI; [clear HI; intros HI|].
        2:{ unfold Irows. eexists. reflexivity. }
        lapply HI; [clear HI; intros HI|].
        2:{ intros acc' s (u & ->). reflexivity. }
        lapply HI; [clear HI; intros HI|].
        * destruct HI as (u & E). rewrite E. clear E. cbv beta iota. cbn [bindx].
          rewrite fold_left_snoc_map, map_map. cbn [fst snd].
          unfold Ipx_outer. do 7 eexists. reflexivity.
        * clear HI. intros acc' s c Hc (u & ->). cbv beta iota. cbn [bindx].
          apply empty_from_bounds in Hc. unfold nrows, Lo in Hc. rewrite map_length in Hc.
          rewrite (getitem_rows lrows c) by lia.
          assert (Hlc : cols_ok ki ji li (nth (Z.to_nat c) lrows [])) by (apply Hlrows, nth_In; lia).
          pose proof (Hrrows rrow Hin) as Hrc.
          emit_row_noscore Hlc Hrc Hnohas has ki kj li ri ji jj ltac:(eexists; reflexivity).
      + (* candidates of the prefix filter: the keys of the set *)
        destruct (px_row rrow Hin) as (Efc & _ & Hkeys & _).
        rewrite Efc. rewrite (bindx_ok (srepr _)) by reflexivity.
        rewrite py_for_srepr. fold (px_keys p he Lo (yof rrow)).
        match goal with |- context [py_for (PList (map PInt ?l)) ?r ?f ?b ?s0] =>
          pose proof (py_for_inv _ _ _ PInt Irows r f b
                        (fun acc' c => (acc' ++ [out_row false ki kj li ri lrows c rrow PNone])%list)
                        l s0 acc) as HI end.
        lapply HI; [clear HI; intros HI|].
        2:{ unfold Irows. eexists. reflexivity. }
        lapply HI; [clear HI; intros HI|].
        2:{ intros acc' s (u & ->). reflexivity. }
        lapply HI; [clear HI; intros HI|].
        * destruct HI as (u & E). rewrite E. clear E. cbv beta iota. cbn [bindx].
          rewrite fold_left_snoc_map, map_map. cbn [fst snd].
          unfold Ipx_outer. do 7 eexists. reflexivity.
        * clear HI. intros acc' s c Hc (u & ->). cbv beta iota. cbn [bindx].
          specialize (Hkeys c Hc).
          rewrite (getitem_rows lrows c) by lia.
          assert (Hlc : cols_ok ki ji li (nth (Z.to_nat c) lrows [])) by (apply Hlrows, nth_In; lia).
          pose proof (Hrrows rrow Hin) as Hrc.
          emit_row_noscore Hlc Hrc Hnohas has ki kj li ri ji jj ltac:(eexists; reflexivity).
  Qed.

  (* ---------------------------------------------------------------- refinement *)
  Lemma px_row_perm (j : nat) (rrow : list pyval) : In rrow rrows ->
    Permutation (map (fun cs : Z * pyval => (Z.to_nat (fst cs), j, snd cs))
                     (f_row_pairs he Lo (px_keys p he Lo (yof rrow)) (yof rrow)))
                (f_model_row he Lo (px_cb p he Lo (yof rrow)) j (yof rrow)).
  Proof.
    intros Hin. apply f_row_perm. intros _.
    destruct (px_row rrow Hin) as (_ & Hnd & Hkeys & _).
    assert (El : List.length Lo = List.length lrows) by (unfold Lo; apply map_length).
    split; [exact Hnd|]. split; [rewrite El; exact Hkeys|].
    intros c _. unfold px_cb, px_keys. apply smem_keys.
  Qed.

  Theorem prefix_filter_tables_split_rows_refines :
    exists (T : list triple) (rows : list (list pyval)),
      filter_tables_core KPrefix p ae L R = Some T /\
      prefix_filter_tables_split_rows (PList (map PList lrows)) (PList (map PList rrows)) lcolumns rcolumns
        lkeya rkeya lfa rfa (PStr (fm p)) (ft p) (PBool ae) louta routa lpre rpre showp (PInt (fq p)) tokenize
      = PTuple [PList (map PList rows); PList hdr] /\
      Permutation rows (map (triple_row false lrows rrows ki kj li ri) T) /\
      forall tr, In tr T -> (fst (fst tr) < List.length lrows)%nat /\ (snd (fst tr) < List.length rrows)%nat.
  Proof.
    assert (El : List.length Lo = List.length lrows) by (unfold Lo; apply map_length).
    eexists. eexists. split; [|split; [exact prefix_filter_rows_fold | split]].
    - rewrite (f_model_eq KPrefix p ae L R (px_cb p he Lo)).
      + fold all. replace (map (order all) L) with Lo by (unfold Lo, L, xof; now rewrite map_map).
        unfold R. rewrite enumerate_map, flat_map_map. cbn [fst snd]. fold he. reflexivity.
      + fold all. replace (map (order all) L) with Lo by (unfold Lo, L, xof; now rewrite map_map).
        intros yraw Hy _ c Hc. unfold R in Hy. apply in_map_iff in Hy. destruct Hy as (rrow & <- & Hin).
        destruct (px_row rrow Hin) as (_ & _ & _ & Hpc). fold (yof rrow).
        unfold filter_cand. rewrite (Hpc c Hc). reflexivity.
    - unfold px_rows_of.
      apply (chunk_perm false ki kj li ri lrows rrows yof
               (fun y => f_row_pairs he Lo (px_keys p he Lo y) y)
               (fun j y => f_model_row he Lo (px_cb p he Lo y) j y)).
      intros j rrow Hin. apply px_row_perm. exact Hin.
    - apply (chunk_bounds lrows rrows yof (fun j y => f_model_row he Lo (px_cb p he Lo y) j y)).
      intros j y tr Htr. unfold f_model_row in Htr.
      destruct (he && (len y =? 0)); apply in_flat_map in Htr; destruct Htr as (x & Hx & Htr).
      + destruct (len (snd x) =? 0); [|destruct Htr]. destruct Htr as [<-|[]]. cbn [fst snd]. split; [|reflexivity].
        destruct x as [c xs]. apply in_combine_l in Hx. apply in_seq in Hx. cbn [fst]. lia.
      + apply in_seq in Hx. destruct (px_cb p he Lo y x); [|destruct Htr].
        destruct Htr as [<-|[]]. cbn [fst snd]. split; [lia | reflexivity].
  Qed.
End Prefix.

Print Assumptions prefix_filter_rows_fold.
Print Assumptions prefix_filter_tables_split_rows_refines.
