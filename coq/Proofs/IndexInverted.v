(* InvertedIndex.build / OverlapFilter.find_candidates (GENERATED: inverted_index_build,
   overlap_filter_find_candidates in Gen/IndexGen.v) refine the hand model
   Filters.overlap_count: the dict value at row c (absent = 0) is overlap_count (row c) probe.
   Axiom-free.                                                                            *)
From Coq Require Import ZArith Bool List String Lia.
From SSJ Require Import F64 PyNum FilterUtilsGen TokenOrderingGen IndexGen TokenOrdering Filters
     IndexPyFacts IndexBuildFacts IndexProbeFacts.
Import ListNotations.
Open Scope Z_scope.

Definition iidx_t := list (Z * list Z).
Definition iidx_repr (idx : iidx_t) : pyval := PDict (drepr pints idx).
Definition iidx_get (idx : iidx_t) (w : Z) : list Z := match aget idx w with Some l => l | None => [] end.
Definition iidx_add (idx : iidx_t) (w c : Z) : iidx_t := aset idx w (iidx_get idx w ++ [c])%list.

Record istate := { i_rid : Z; i_idx : iidx_t; i_sizes : list Z; i_empty : list Z }.
Definition iadd_row (flag ce : bool) (a : istate) (x : list Z) : istate :=
  {| i_rid := i_rid a + 1;
     i_idx := fold_left (fun idx w => iidx_add idx w (i_rid a)) x (i_idx a);
     i_sizes := if flag then (i_sizes a ++ [len x])%list else i_sizes a;
     i_empty := if ce && (len x =? 0) then (i_empty a ++ [i_rid a])%list else i_empty a |}.
Definition i_init : istate := {| i_rid := 0; i_idx := []; i_sizes := []; i_empty := [] |}.
Definition ibuild_abs flag ce (L : list (list Z)) : istate := fold_left (iadd_row flag ce) L i_init.
Definition ibuild_result (a : istate) : pyval :=
  PTuple [iidx_repr (i_idx a); pints (i_sizes a);
          PDict [PTuple [PStr "empty_records"%string; pints (i_empty a)]]].

Definition irow_ok (attr : pyval) (tokenize : pyval -> pyval) (row : pyval) (x : list Z) : Prop :=
  is_exc (py_getitem row attr) = false /\ tokenize (py_getitem row attr) = pints x.

Definition Iibuild (a : istate)
  (s : pyval * (pyval * (pyval * (pyval * (pyval * (pyval * (pyval * (pyval * pyval)))))))) : Prop :=
  exists t1 t2 t3 t5,
    s = (PNone, (t1, (t2, (t3, (iidx_repr (i_idx a), (t5, (pints (i_sizes a),
          (pints (i_empty a), PInt (i_rid a))))))))).

Definition Riinner (idx : iidx_t) : pyval * pyval := (PNone, iidx_repr idx).

Lemma py_dict_get2_iidx idx w :
  py_dict_get2 (iidx_repr idx) (PInt w)
  = match aget idx w with Some l => pints l | None => PNone end.
Proof.
  unfold py_dict_get2, py_dict_get3, iidx_repr, strict2. rewrite dict_lookup_drepr.
  destruct (aget idx w); reflexivity.
Qed.
Lemma py_dict_get3_iidx idx w :
  py_dict_get3 (iidx_repr idx) (PInt w) (PList []) = pints (iidx_get idx w).
Proof.
  unfold py_dict_get3, iidx_repr, strict2, iidx_get. rewrite dict_lookup_drepr.
  destruct (aget idx w); reflexivity.
Qed.

Theorem inverted_index_build_eq : forall attr tokenize rows L flag ce,
  Forall2 (irow_ok attr tokenize) rows L ->
  inverted_index_build (PList rows) attr (PBool flag) (PBool ce) tokenize
  = ibuild_result (ibuild_abs flag ce L).
Proof.
  intros attr tokenize rows L flag ce Hrows.
  unfold inverted_index_build. cbv zeta.
  destruct (forall2_combine _ _ _ Hrows) as (Er & Eo & Hrow).
  set (l := combine rows L) in *. clearbody l.
  assert (Hb : ibuild_abs flag ce L
               = fold_left (fun a (rb : pyval * list Z) => iadd_row flag ce a (snd rb)) l i_init).
  { unfold ibuild_abs. rewrite Eo at 1. clear. generalize i_init.
    induction l as [|b l' IH]; intros a0; cbn [map fold_left]; [reflexivity | apply IH]. }
  rewrite Er, Hb.
  match goal with |- context [py_for (PList (map fst l)) ?r ?f ?b ?s0] =>
    pose proof (py_for_inv _ _ _ fst Iibuild r f b
                  (fun a (rb : pyval * list Z) => iadd_row flag ce a (snd rb)) l s0 i_init) as HI end.
  lapply HI; [clear HI; intros HI|].
  2:{ unfold Iibuild. do 4 eexists. reflexivity. }
  lapply HI; [clear HI; intros HI|].
  2:{ intros a s (t1 & t2 & t3 & t5 & ->). reflexivity. }
  lapply HI; [clear HI; intros HI|].
  - destruct HI as (t1 & t2 & t3 & t5 & ->). reflexivity.
  - clear HI. intros a s [row x] Hin (t1 & t2 & t3 & t5 & ->).
    cbv beta iota. cbn [fst snd].
    destruct (Hrow _ Hin) as [Hne Htok]. cbn [fst snd] in Hne, Htok.
    rewrite (bindx_ok row) by (eapply getitem_not_exc; exact Hne).
    rewrite (bindx_ok (py_getitem row attr)) by exact Hne.
    rewrite Htok. rewrite (bindx_ok (pints x)) by reflexivity. unfold pints at 1.
    change (PNone, iidx_repr (i_idx a)) with (Riinner (i_idx a)).
    match goal with |- context [py_for (PList (map PInt ?xp)) ?r ?f ?b (Riinner ?a0)] =>
      rewrite (py_for_eq _ _ _ PInt Riinner r f b (fun idx w => iidx_add idx w (i_rid a)) xp a0) end.
    2:{ reflexivity. }
    2:{ intros idx w _. unfold Riinner. cbv beta iota. cbn [bindx].
        rewrite py_dict_get2_iidx. unfold iidx_add, iidx_get.
        destruct (aget idx w) as [ps|] eqn:E.
        - unfold pints at 1. cbn [py_is_none strict1 py_truth bindx].
          rewrite py_dict_get2_iidx, E, py_append_pints.
          unfold iidx_repr. rewrite py_setitem_drepr by reflexivity. reflexivity.
        - cbn [py_is_none strict1 py_truth bindx].
          change (PList []) with (pints []). unfold iidx_repr at 1.
          rewrite py_setitem_drepr by reflexivity. cbn [bindx]. fold (iidx_repr (aset idx w [])).
          rewrite py_dict_get2_iidx, aget_aset, Z.eqb_refl, py_append_pints.
          unfold iidx_repr. rewrite py_setitem_drepr by reflexivity. rewrite aset_aset. reflexivity. }
    unfold Riinner, iadd_row. cbv beta iota zeta. cbn [bindx].
    rewrite py_len_pints. cbn [bindx py_truth].
    destruct flag; cbv beta iota; cbn [bindx py_truth];
      rewrite ?py_append_pints, ?(bindx_ok (pints _)) by reflexivity;
      rewrite py_eq_int_val;
      destruct ce; cbn [py_and py_truth andb]; cbv beta iota; cbn [bindx py_truth];
      destruct (len x =? 0); cbv beta iota; cbn [bindx py_truth];
      rewrite ?py_append_pints, ?(bindx_ok (pints _)) by reflexivity;
      rewrite py_add_int; cbn [bindx];
      do 4 eexists; reflexivity.
Qed.

(* ------------------------------------------------------------------ facts *)
Lemma countZ_nonneg w x : 0 <= countZ w x.
Proof. induction x as [|h t IH]; cbn [countZ]; [lia | destruct (w =? h); lia]. Qed.

Fixpoint iposts_from (w c : Z) (xs : list (list Z)) : list Z :=
  match xs with
  | [] => []
  | x :: xs' => (repeat c (Z.to_nat (countZ w x)) ++ iposts_from w (c + 1) xs')%list
  end.

Lemma iidx_get_add idx w c w' :
  iidx_get (iidx_add idx w c) w' = if w =? w' then (iidx_get idx w' ++ [c])%list else iidx_get idx w'.
Proof.
  unfold iidx_add, iidx_get. rewrite aget_aset. destruct (Z.eqb_spec w w') as [->|]; reflexivity.
Qed.

Lemma iadd_tokens_get rid w : forall x idx,
  iidx_get (fold_left (fun idx w0 => iidx_add idx w0 rid) x idx) w
  = (iidx_get idx w ++ repeat rid (Z.to_nat (countZ w x)))%list.
Proof.
  induction x as [|h t IH]; intros idx; cbn [fold_left countZ].
  - cbn [Z.to_nat repeat]. now rewrite app_nil_r.
  - rewrite IH, iidx_get_add. rewrite (Z.eqb_sym h w). pose proof (countZ_nonneg w t).
    destruct (w =? h).
    + replace (Z.to_nat (1 + countZ w t)) with (S (Z.to_nat (countZ w t))) by lia.
      cbn [repeat]. now rewrite <- app_assoc.
    + reflexivity.
Qed.

Lemma ibuild_from flag ce : forall xs a0 w,
  let a := fold_left (iadd_row flag ce) xs a0 in
  i_rid a = i_rid a0 + nrows xs /\
  i_sizes a = (if flag then i_sizes a0 ++ map len xs else i_sizes a0)%list /\
  i_empty a = (if ce then i_empty a0 ++ empty_from (i_rid a0) xs else i_empty a0)%list /\
  iidx_get (i_idx a) w = (iidx_get (i_idx a0) w ++ iposts_from w (i_rid a0) xs)%list.
Proof.
  induction xs as [|x xs IH]; intros a0 w; cbn [fold_left map iposts_from empty_from].
  - unfold nrows. cbn [List.length Z.of_nat]. rewrite Z.add_0_r.
    repeat split; destruct flag, ce; now rewrite ?app_nil_r.
  - cbv zeta in IH. destruct (IH (iadd_row flag ce a0 x) w) as (H1 & H2 & H3 & H4).
    rewrite H1, H2, H3, H4. unfold iadd_row. cbn [i_rid i_idx i_sizes i_empty].
    rewrite iadd_tokens_get. repeat split.
    + unfold nrows. cbn [List.length]. lia.
    + destruct flag; [now rewrite <- app_assoc | reflexivity].
    + destruct ce; cbn [andb]; [|reflexivity].
      destruct (len x =? 0); [now rewrite <- app_assoc | reflexivity].
    + now rewrite <- app_assoc.
Qed.

Lemma ibuild_postings flag ce L w : iidx_get (i_idx (ibuild_abs flag ce L)) w = iposts_from w 0 L.
Proof. destruct (ibuild_from flag ce L i_init w) as (_ & _ & _ & H). exact H. Qed.
Lemma ibuild_sizes flag ce L : i_sizes (ibuild_abs flag ce L) = if flag then map len L else [].
Proof. destruct (ibuild_from flag ce L i_init 0) as (_ & H & _). exact H. Qed.
Lemma ibuild_empty flag ce L : i_empty (ibuild_abs flag ce L) = if ce then empty_from 0 L else [].
Proof. destruct (ibuild_from flag ce L i_init 0) as (_ & _ & H & _). exact H. Qed.

(* ------------------------------------------------------------------ find_candidates *)
Definition ocand_upd (d : list (Z * Z)) (c : Z) : list (Z * Z) := aset d c (cval d c + 1).
Definition oprobe_abs (idx : iidx_t) (Y : list Z) : list (Z * Z) :=
  fold_left (fun d w => fold_left ocand_upd (iidx_get idx w) d) Y [].

Definition Roouter (d : list (Z * Z)) : pyval * (pyval * pyval) :=
  (PNone, (PExc "UnboundLocalError"%string, PDict (drepr PInt d))).
Definition Roinner (d : list (Z * Z)) : pyval * pyval := (PNone, PDict (drepr PInt d)).

Lemma oprobe_nil idx Y : (forall w, iidx_get idx w = []) -> oprobe_abs idx Y = [].
Proof.
  intros Hnil. unfold oprobe_abs. induction Y as [|w Y IH]; cbn [fold_left]; [reflexivity|].
  rewrite Hnil. cbn [fold_left]. exact IH.
Qed.

Theorem overlap_find_candidates_eq idx Y :
  overlap_filter_find_candidates (pints Y) (iidx_repr idx) = PDict (drepr PInt (oprobe_abs idx Y)).
Proof.
  unfold overlap_filter_find_candidates. cbv zeta.
  assert (Hnot : py_not (iidx_repr idx) = PBool (match idx with [] => true | _ => false end))
    by (destruct idx; reflexivity).
  rewrite Hnot. cbn [bindx py_truth].
  destruct idx as [|e0 idx'] eqn:Eidx.
  { rewrite oprobe_nil by reflexivity. reflexivity. }
  rewrite <- Eidx. clear Hnot Eidx e0 idx'.
  unfold pints at 1.
  change (PNone, (PExc "UnboundLocalError"%string, PDict [])) with (Roouter []).
  match goal with |- context [py_for (PList (map PInt ?l)) ?r ?f ?b (Roouter ?a0)] =>
    rewrite (py_for_eq _ _ _ PInt Roouter r f b
               (fun d w => fold_left ocand_upd (iidx_get idx w) d) l a0) end.
  - reflexivity.
  - reflexivity.
  - intros d w _. unfold Roouter. cbv beta iota. cbn [bindx].
    rewrite py_dict_get3_iidx. unfold pints.
    change (PNone, PDict (drepr PInt d)) with (Roinner d).
    match goal with |- context [py_for (PList (map PInt ?l)) ?r ?f ?b (Roinner ?a0)] =>
      rewrite (py_for_eq _ _ _ PInt Roinner r f b ocand_upd l a0) end.
    + reflexivity.
    + reflexivity.
    + intros d' c _. unfold Roinner. cbv beta iota. cbn [bindx].
      rewrite py_dict_get3_cand, py_add_int, py_setitem_drepr by reflexivity. reflexivity.
Qed.

(* refinement: the value at row C is the hand model's overlap_count *)
Lemma ocand_upd_cval d c C : cval (ocand_upd d c) C = if c =? C then cval d C + 1 else cval d C.
Proof.
  unfold ocand_upd, cval. rewrite aget_aset. destruct (Z.eqb_spec c C) as [->|]; reflexivity.
Qed.
Lemma fold_repeat_cval c C n : forall d,
  cval (fold_left ocand_upd (repeat c n) d) C = if c =? C then cval d C + Z.of_nat n else cval d C.
Proof.
  induction n as [|n IH]; intros d; cbn [repeat fold_left].
  - destruct (c =? C); lia.
  - rewrite IH, ocand_upd_cval. destruct (c =? C); lia.
Qed.
Lemma fold_iposts w (C : nat) L : forall xs (c0 : nat) d,
  (forall n, (n < List.length xs)%nat -> nth n xs [] = nth (c0 + n) L []) ->
  cval (fold_left ocand_upd (iposts_from w (Z.of_nat c0) xs) d) (Z.of_nat C)
  = if (c0 <=? C)%nat && (C <? c0 + List.length xs)%nat
    then cval d (Z.of_nat C) + countZ w (nth C L []) else cval d (Z.of_nat C).
Proof.
  induction xs as [|x xs IH]; intros c0 d Hnth; cbn [iposts_from fold_left List.length].
  - replace ((c0 <=? C)%nat && (C <? c0 + 0)%nat) with false; [reflexivity|].
    symmetry. apply andb_false_iff.
    destruct (Nat.leb_spec c0 C); [right; apply Nat.ltb_ge; lia | left; reflexivity].
  - rewrite fold_left_app. replace (Z.of_nat c0 + 1) with (Z.of_nat (S c0)) by lia.
    rewrite IH.
    2:{ intros n Hn. specialize (Hnth (S n)). cbn [nth] in Hnth.
        rewrite Hnth by (cbn [List.length]; lia). f_equal. lia. }
    assert (Hx : x = nth c0 L []).
    { specialize (Hnth O). cbn [nth] in Hnth. rewrite Hnth by (cbn [List.length]; lia). f_equal. lia. }
    rewrite fold_repeat_cval. pose proof (countZ_nonneg w x).
    destruct (Nat.eq_dec c0 C) as [->|Hne].
    + rewrite Z.eqb_refl.
      replace ((S C <=? C)%nat && (C <? S C + List.length xs)%nat) with false
        by (symmetry; apply andb_false_iff; left; apply Nat.leb_gt; lia).
      replace ((C <=? C)%nat && (C <? C + S (List.length xs))%nat) with true
        by (symmetry; apply andb_true_iff; split; [apply Nat.leb_le | apply Nat.ltb_lt]; lia).
      rewrite <- Hx. lia.
    + destruct (Z.eqb_spec (Z.of_nat c0) (Z.of_nat C)); [lia|].
      replace ((c0 <=? C)%nat && (C <? c0 + S (List.length xs))%nat)
        with ((S c0 <=? C)%nat && (C <? S c0 + List.length xs)%nat); [reflexivity|].
      destruct (Nat.leb_spec (S c0) C), (Nat.leb_spec c0 C),
        (Nat.ltb_spec C (S c0 + List.length xs)), (Nat.ltb_spec C (c0 + S (List.length xs)));
        try reflexivity; lia.
Qed.

Theorem overlap_find_candidates_refines : forall attr tokenize rows L flag ce Y,
  Forall2 (irow_ok attr tokenize) rows L ->
  exists index size_cache ret d,
    inverted_index_build (PList rows) attr (PBool flag) (PBool ce) tokenize
      = PTuple [index; size_cache; ret] /\
    overlap_filter_find_candidates (pints Y) index = PDict (drepr PInt d) /\
    forall c, (c < List.length L)%nat -> cval d (Z.of_nat c) = overlap_count (nth c L []) Y.
Proof.
  intros attr tokenize rows L flag ce Y Hrows.
  set (a := ibuild_abs flag ce L).
  exists (iidx_repr (i_idx a)), (pints (i_sizes a)),
    (PDict [PTuple [PStr "empty_records"%string; pints (i_empty a)]]), (oprobe_abs (i_idx a) Y).
  split; [exact (inverted_index_build_eq attr tokenize rows L flag ce Hrows)|].
  split; [apply overlap_find_candidates_eq|].
  intros c Hc. unfold oprobe_abs, overlap_count.
  assert (G : forall Yl d, cval (fold_left (fun d w => fold_left ocand_upd (iidx_get (i_idx a) w) d) Yl d)
                               (Z.of_nat c)
                         = fold_left (fun cur w => cur + countZ w (nth c L [])) Yl (cval d (Z.of_nat c))).
  { induction Yl as [|w Yl IH]; intros d; cbn [fold_left]; [reflexivity|].
    rewrite IH. f_equal. unfold a. rewrite ibuild_postings. change 0 with (Z.of_nat 0).
    rewrite (fold_iposts w c L L 0 d) by (intros n _; reflexivity).
    replace ((0 <=? c)%nat && (c <? 0 + List.length L)%nat) with true; [reflexivity|].
    symmetry. apply andb_true_iff. split; [apply Nat.leb_le | apply Nat.ltb_lt]; lia. }
  rewrite G. reflexivity.
Qed.

Print Assumptions inverted_index_build_eq.
Print Assumptions overlap_find_candidates_refines.
