(* End-to-end refinement of the GENERATED public wrapper overlap_coefficient_join_rows (Gen/WrapperGen.v,
   from join/overlap_coefficient_join_py.py):

   * overlap_coefficient_join_rows_refines (axiom-free apart from the float fact "float(n) <> 0.0 for the
     positive token counts n < 2^50", SplitRefineOvcArith; chunk boundaries are a hypothesis): the wrapper
     returns header_spec c with rows numbered (concat of the chunks' rows ++ missing-value rows), the rows of
     chunk j being a permutation of spec_row applied to the triples of the MODEL core ovc_core on
     (present left rows, chunk j), every cell list the declarative projection cells_spec;
   * overlap_coefficient_join_rows_end_to_end: against Model/Api.v api_join with the entry
     EJoin "OVERLAP_COEFFICIENT" (WrapperEnd.end_to_end_chunks: per chunk and up to order within the chunk);
   * overlap_coefficient_join_rows_end_to_end_flat: exactly the shape of
     WrapperRefineEnd.jaccard_join_rows_end_to_end.                                                *)
From Coq Require Import ZArith Bool List String Lia Permutation.
From SSJ Require Import F64 PyNum FilterUtilsGen HelperGen TokenOrderingGen ValidationGen IndexGen JoinGen
     TokenOrdering Measures Filters Joins Api Projection ProjSpec IndexPyFacts ProjectionFacts
     JoinGenFacts JoinGenLoop JoinRefine JoinRefineProj SplitFacts SplitRefineProj SplitRefineProjAll
     SplitRefineOvcArith Frame WrapperGen WrapperRefineFrame
     WrapperRefineMissing WrapperRefineCore WrapperRefineChunks WrapperRefine WrapperRefineClosed
     WrapperRefineApi WrapperBody WrapperApiLink WrapperEnd.
Import ListNotations.
Open Scope Z_scope.

Section Ovc.
  Variables (c : pcase) (p : fparams) (op : string) (ae am : bool) (njobs cpus : Z).
  Variables (lsrc rsrc : list (list pyval)) (showp : pyval).
  Variables (tokenize : pyval -> pyval).
  Variables (toks : pyval -> list Z) (cf : pyval -> pyval -> pyval) (kz : pyval -> Z).

  Let lpres := lpresent c lsrc.
  Let rpres := rpresent c rsrc.

  Hypothesis Hwf : well_formed c.
  Hypothesis Hlsrc : forall row, In row lsrc ->
    List.length row = List.length (p_lcols c) /\ ProjSpec.row_ok row.
  Hypothesis Hrsrc : forall row, In row rsrc ->
    List.length row = List.length (p_rcols c) /\ ProjSpec.row_ok row.
  (* tokenizer_tokenize: tokenization in SET mode *)
  Hypothesis HtokL : forall row, In row lpres ->
    tokenize (cellv (p_lcols c) row (p_ljoin c)) = pints (toks (cellv (p_lcols c) row (p_ljoin c))).
  Hypothesis HtokR : forall row, In row rpres ->
    tokenize (cellv (p_rcols c) row (p_rjoin c)) = pints (toks (cellv (p_rcols c) row (p_rjoin c))).
  Hypothesis Hfm : fm p = "OVERLAP_COEFFICIENT"%string.
  Hypothesis Hvt : is_exc (validate_threshold (ft p) (PStr "OVERLAP_COEFFICIENT")) = false.
  Hypothesis Hvop : is_exc (validate_comp_op_for_sim_measure (PStr op) (PStr "OVERLAP_COEFFICIENT")) = false.
  Hypothesis Hvout : is_exc (validate_output_attrs (py_opt_strs (p_lout c)) (py_strs (p_lcols c))
                                                   (py_opt_strs (p_rout c)) (py_strs (p_rcols c))) = false.
  Hypothesis Hop : comp_op_map op = Some cf.
  Hypothesis Hnum : num_of (ft p) <> None.
  Hypothesis Hid : ~ In "_id"%string (mv_header c).
  (* token counts below 2^50 (so that float(count) is exact and non-zero for positive counts) *)
  Hypothesis HszL : forall row, In row lpres -> len (toks (cellv (p_lcols c) row (p_ljoin c))) < 2^50.
  Hypothesis HszR : forall row, In row rpres -> len (toks (cellv (p_rcols c) row (p_rjoin c))) < 2^50.

  (* the model's per-chunk core *)
  Definition ovc_K (ch : list (list pyval)) : option (list triple) :=
    ovc_core (ft p) op ae (Ltoks c lsrc toks) (Rtoks c toks ch).

  Lemma ovc_chunk (ch : list (list pyval)) (sp : pyval) : (forall row, In row ch -> In row rpres) ->
    exists rows,
      frame_of_core
        (overlap_coefficient_join_split_rows (PList (map PList (project_l c lpres))) (PList (map PList (project_r c ch)))
           (l_proj c) (r_proj c) (PStr (p_lkey c)) (PStr (p_rkey c)) (PStr (p_ljoin c)) (PStr (p_rjoin c))
           (ft p) (PStr op) (PBool ae) (l_out c) (r_out c) (PStr (p_lpre c)) (PStr (p_rpre c)) (PBool (p_score c))
           sp tokenize)
      = sframe (mv_header c) rows /\
      shaped (List.length (mv_header c)) rows /\ chunk_ok c lsrc ovc_K ch rows.
  Proof.
    intros Hch.
    destruct (overlap_coefficient_join_split_rows_refines_proj c lpres ch sp tokenize toks Hwf)
      with (t := ft p) (op := op) (ae := ae) (cf := cf)
      as (T & rows & header & ET & Egen & Ehdr & Perm & Hcells).
    - intros row Hr. apply Hlsrc. apply (lpresent_in c lsrc). exact Hr.
    - intros row Hr. apply Hrsrc. apply (rpresent_in c rsrc). apply Hch. exact Hr.
    - exact HtokL.
    - intros row Hr. apply HtokR, Hch, Hr.
    - exact Hop.
    - exact Hnum.
    - apply ovc_float_sizes. intros x [Hx|Hx]; apply in_map_iff in Hx; destruct Hx as (row & <- & Hr).
      + apply HszL. exact Hr.
      + apply HszR, Hch, Hr.
    - destruct (core_frame c lpres ch T rows header _ Egen Ehdr Perm Hcells) as [EF Hsh].
      exists rows. split; [exact EF|]. split; [exact Hsh|].
      exists T. split; [exact ET|]. split; [exact Perm | exact Hcells].
  Qed.

  Definition ovc_call : pyval :=
    overlap_coefficient_join_rows (sframe (p_lcols c) lsrc) (sframe (p_rcols c) rsrc)
      (PStr (p_lkey c)) (PStr (p_rkey c)) (PStr (p_ljoin c)) (PStr (p_rjoin c))
      (ft p) (PStr op) (PBool ae) (PBool am) (py_opt_strs (p_lout c)) (py_opt_strs (p_rout c))
      (PStr (p_lpre c)) (PStr (p_rpre c)) (PBool (p_score c)) (PInt njobs) showp (PInt cpus) tokenize.

  Section Split.
    Variable bs : list (nat * nat).
    Hypothesis Hsplit : 1 < kjobs c njobs cpus rsrc ->
      List.length bs = Z.to_nat (kjobs c njobs cpus rsrc) /\
      split_table (PList (map PList (project_r c rpres))) (PInt (kjobs c njobs cpus rsrc))
      = PList (map PList (map (slice_nat (map PList (project_r c rpres))) bs)).

    Theorem overlap_coefficient_join_rows_refines :
      body_result c am njobs cpus lsrc rsrc bs (chunk_ok c lsrc ovc_K) ovc_call.
    Proof using Hwf Hlsrc Hrsrc HtokL HtokR Hvt Hvop Hvout Hop Hnum Hid HszL HszR Hsplit.
      unfold ovc_call, overlap_coefficient_join_rows.
      wr_attrs c Hwf Hlsrc Hrsrc.
      wr_valid Hvt. wr_valid Hvop. wr_valid Hvout.
      wr_proj c njobs cpus lsrc rsrc Hwf Hlsrc Hrsrc.
      pose proof (body_eval c am njobs cpus lsrc rsrc showp bs
                    (fun la ra sp => frame_of_core
                       (overlap_coefficient_join_split_rows la ra (l_proj c) (r_proj c)
                          (PStr (p_lkey c)) (PStr (p_rkey c)) (PStr (p_ljoin c)) (PStr (p_rjoin c))
                          (ft p) (PStr op) (PBool ae) (l_out c) (r_out c) (PStr (p_lpre c)) (PStr (p_rpre c))
                          (PBool (p_score c)) sp tokenize))
                    (chunk_ok c lsrc ovc_K) Hwf Hlsrc Hrsrc Hid
                    (fun ch sp Hin => ovc_chunk ch sp (wchunks_in c njobs cpus rsrc bs ch Hin)) Hsplit) as H.
      unfold wbody in H. cbv beta in H. exact H.
    Qed.
  End Split.

  (* ---- against the API model ---- *)
  Definition ovc_jcase : jcase := jcase_of c p op ae am njobs cpus lsrc rsrc toks kz.

  Lemma ovc_core_of ch : (forall row, In row ch -> In row rpres) ->
    core_of ovc_jcase (map (arowLs c toks (fun _ => []) kz) lpres) (map (arowRs c toks (fun _ => []) kz) ch)
    = ovc_K ch.
  Proof.
    intros Hch. unfold core_of, ovc_jcase, jcase_of, ovc_K. cbn [j_entry j_op j_t j_q j_allow_empty].
    rewrite Hfm. cbn [String.eqb Ascii.eqb Bool.eqb]. cbv iota. unfold lpres.
    rewrite (toksLs c lsrc toks (fun _ => []) kz), (toksRs c rsrc toks (fun _ => []) kz ch Hch). reflexivity.
  Qed.

  Hypothesis Hn : Z.of_nat (List.length rpres) < 2^31.

  Theorem overlap_coefficient_join_rows_end_to_end :
    end_to_end_chunks c am lsrc rsrc toks (fun _ => []) kz ovc_jcase ovc_call.
  Proof using All.
    apply (end_of_body c am njobs cpus lsrc rsrc toks (fun _ => []) kz ovc_jcase ovc_K Hwf Hlsrc Hrsrc);
      try reflexivity.
    - exact ovc_core_of.
    - exact Hn.
    - apply overlap_coefficient_join_rows_refines. intros Hk. apply split_hyp; assumption.
  Qed.

  (* the shape of WrapperRefineEnd.jaccard_join_rows_end_to_end *)
  Theorem overlap_coefficient_join_rows_end_to_end_flat :
    exists (main : list (list pyval)) (main_api : list Api.out_row),
      ovc_call = sframe (header_spec c) (numbered (main ++ if am then mv_rows c lsrc rsrc else [])) /\
      api_join (jcase_of c p op ae am njobs cpus lsrc rsrc toks kz)
      = Some (main_api ++ if am then missing_pairs (map (arowL c toks kz) lsrc) (map (arowR c toks kz) rsrc) else [])%list /\
      Permutation (map (row_out c kz) main) main_api /\
      map (mv_out kz) (mv_rows c lsrc rsrc)
      = missing_pairs (map (arowL c toks kz) lsrc) (map (arowR c toks kz) rsrc).
  Proof using All.
    exact (chunks_flat c am lsrc rsrc toks (fun _ => []) kz ovc_jcase ovc_call overlap_coefficient_join_rows_end_to_end).
  Qed.
End Ovc.

Print Assumptions overlap_coefficient_join_rows_refines.
Print Assumptions overlap_coefficient_join_rows_end_to_end.
Print Assumptions overlap_coefficient_join_rows_end_to_end_flat.
