(* A concrete instance of WrapperRefine.jaccard_join_rows_refines with TWO jobs, missing join values on
   both sides and allow_missing: every hypothesis of the refinement theorem (including the split
   hypothesis Hsplit, by computation) is discharged, so the hypotheses are jointly satisfiable; the
   frame the generated wrapper returns is computed with vm_compute.  Axiom-free.            *)
From Coq Require Import ZArith Bool List String Lia Permutation.
From SSJ Require Import F64 PyNum FilterUtilsGen HelperGen TokenOrderingGen ValidationGen IndexGen JoinGen
     TokenOrdering Measures Filters Joins Api Projection ProjSpec ProjectionFacts
     IndexPyFacts JoinGenFacts JoinGenLoop JoinRefine JoinRefineProj JoinRefineExample SplitFacts
     Frame WrapperGen WrapperRefineFrame WrapperRefineMissing WrapperRefineCore WrapperRefine.
Import ListNotations.
Open Scope Z_scope.

Definition wx_lsrc : list (list pyval) := (ex_lsrc ++ [[PInt 4; PNone; PStr "w"]])%list.
Definition wx_rsrc : list (list pyval) := ([[PInt 9; py_nan]] ++ ex_rsrc)%list.
Definition wx_bs : list (nat * nat) := [(0, 2); (2, 3)]%nat.

Example wx_refines :
  wrapper_result ex_c ex_p ">=" true true 2 4 wx_lsrc wx_rsrc (PBool false) ex_tokenize ex_sim ex_toks wx_bs
                 jaccard_join_rows.
Proof.
  apply (jaccard_join_rows_refines ex_c ex_p ">=" true true 2 4 wx_lsrc wx_rsrc (PBool false)
           ex_tokenize ex_sim ex_toks py_ge wx_bs).
  - apply well_formedb_sound. reflexivity.
  - intros row [<- | [<- | [<- | [<- | []]]]]; (split; [reflexivity | apply row_okb_sound; reflexivity]).
  - intros row [<- | [<- | [<- | [<- | []]]]]; (split; [reflexivity | apply row_okb_sound; reflexivity]).
  - intros row _. reflexivity.
  - intros row _. reflexivity.
  - left. reflexivity.
  - reflexivity.
  - reflexivity.
  - reflexivity.
  - reflexivity.
  - discriminate.
  - intros H. vm_compute in H. repeat (destruct H as [H|H]; [discriminate H|]). exact H.
  - (* the per-chunk hypotheses, for the two chunks *)
    intros ch Hch. vm_compute in Hch. destruct Hch as [<- | [<- | []]].
    + split; [|split].
      * intros x Hx. vm_compute in Hx. destruct Hx as [<- | [<- | [<- | []]]]; eexists; vm_compute; reflexivity.
      * intros y Hy He. vm_compute in Hy.
        destruct Hy as [<- | [<- | []]]; try discriminate He.
        exists 1, 4, 2. split; [vm_compute; reflexivity|]. split; [vm_compute; reflexivity|]. split; [vm_compute; reflexivity|].
        intros s H0 Hs. assert (Es : s = 1 \/ s = 2 \/ s = 3 \/ s = 4) by lia.
        destruct Es as [-> | [-> | [-> | ->]]]; vm_compute; discriminate.
      * intros x y _ _. unfold ex_sim. now rewrite !ints_of_pints.
    + split; [|split].
      * intros x Hx. vm_compute in Hx. destruct Hx as [<- | [<- | [<- | []]]]; eexists; vm_compute; reflexivity.
      * intros y Hy He. vm_compute in Hy.
        destruct Hy as [<- | []]; try discriminate He.
        exists 1, 2, 1. split; [vm_compute; reflexivity|]. split; [vm_compute; reflexivity|]. split; [vm_compute; reflexivity|].
        intros s H0 Hs. assert (Es : s = 1 \/ s = 2) by lia.
        destruct Es as [-> | ->]; vm_compute; discriminate.
      * intros x y _ _. unfold ex_sim. now rewrite !ints_of_pints.
  - intros _. split; [reflexivity | vm_compute; reflexivity].
  - reflexivity.
Qed.

(* the frame the generated wrapper returns on this input *)
Eval vm_compute in
  jaccard_join_rows (sframe (p_lcols ex_c) wx_lsrc) (sframe (p_rcols ex_c) wx_rsrc)
    (PStr "id") (PStr "rid") (PStr "s") (PStr "t") (ft ex_p) (PStr ">=") (PBool true) (PBool true)
    (py_opt_strs (p_lout ex_c)) (py_opt_strs (p_rout ex_c)) (PStr "l_") (PStr "r_") (PBool true)
    (PInt 2) (PBool false) (PInt 4) (PInt 0) ex_tokenize ex_sim.

Print Assumptions wx_refines.
