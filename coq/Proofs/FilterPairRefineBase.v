(* Evaluation lemmas for the GENERATED pair-level filter path (Gen/FilterPairGen.v): the
   missing-value test, the "both token lists empty" verdict, the prelude's set primitives on
   integer token lists, and the pair-level token ordering.  Lists / Z only: axiom-free.   *)
From Coq Require Import ZArith Bool List String Lia.
From SSJ Require Import F64 PyNum FilterUtilsGen HelperGen TokenOrderingGen FilterPairGen TokenOrdering Filters
     PyFacts IndexPyFacts IndexProbeFacts OrderingFacts OrderingGenFacts.
Import ListNotations.
Open Scope Z_scope.

(* ---------------------------------------------------------------- missing values *)
(* pd.isnull on a cell: None and NaN *)
Definition missing (v : pyval) : bool :=
  match v with PNone => true | PFloat f => f_is_nan f | _ => false end.
(* cells: scalars (what a DataFrame cell / a user hands to filter_pair) *)
Definition scalar (v : pyval) : Prop :=
  match v with PList _ | PTuple _ | PDict _ | PExc _ => False | _ => True end.

Lemma py_isnull_scalar v : scalar v -> py_isnull v = PBool (missing v).
Proof. destruct v; cbn; intros H; try reflexivity; destruct H. Qed.

Lemma py_or_bools a b : py_or (PBool a) (PBool b) = PBool (a || b).
Proof. destruct a, b; reflexivity. Qed.
Lemma py_not_bool a : py_not (PBool a) = PBool (negb a).
Proof. reflexivity. Qed.

(* the head of every filter_pair: `if pd.isnull(lstring) or pd.isnull(rstring)` *)
Lemma isnull_test ls rs : scalar ls -> scalar rs ->
  py_or (py_isnull ls) (py_isnull rs) = PBool (missing ls || missing rs).
Proof. intros Hl Hr. rewrite (py_isnull_scalar _ Hl), (py_isnull_scalar _ Hr). apply py_or_bools. Qed.

(* ---------------------------------------------------------------- both lists empty *)
Lemma py_eq_str a b : py_eq (PStr a) (PStr b) = PBool (String.eqb a b).
Proof. reflexivity. Qed.

Lemma both_empty_test nl nr :
  py_and (py_eq (PInt nl) (PInt 0)) (py_eq (PInt nr) (PInt 0)) = PBool ((nl =? 0) && (nr =? 0)).
Proof. rewrite !py_eq_int_val. apply py_and_bools. Qed.

(* the three-way verdict `OVERLAP -> True | EDIT_DISTANCE -> False | not allow_empty` *)
Definition both_empty_gen (smt allow_empty : pyval) : pyval :=
  (bindx (py_eq smt (PStr "OVERLAP")) (fun x_ => x_) (fun c_ =>
   if py_truth c_ then (PBool true)
   else (bindx (py_eq smt (PStr "EDIT_DISTANCE")) (fun x_ => x_) (fun c_ =>
   if py_truth c_ then (PBool false)
   else (py_not allow_empty))))).

Lemma both_empty_gen_eq p (ae : bool) :
  both_empty_gen (PStr (fm p)) (PBool ae) = PBool (both_empty_verdict p ae).
Proof.
  unfold both_empty_gen, both_empty_verdict. rewrite !py_eq_str. cbn [bindx py_truth].
  destruct (String.eqb (fm p) "OVERLAP"); [reflexivity|].
  destruct (String.eqb (fm p) "EDIT_DISTANCE"); reflexivity.
Qed.

(* ---------------------------------------------------------------- sets of ints *)
(* set(tokens) for an int list: the distinct tokens in first-occurrence order *)
Definition zset (l : list Z) : pyval := PDict (map (fun w => PTuple [PInt w; PNone]) l).

Lemma dict_store_zset l w :
  dict_store (map (fun w => PTuple [PInt w; PNone]) l) (PInt w) PNone
  = map (fun w => PTuple [PInt w; PNone]) (if memZ w l then l else l ++ [w]).
Proof.
  induction l as [|h t IH]; [reflexivity|].
  cbn [map dict_store]. rewrite pv_eqb_int, memZ_cons, (Z.eqb_sym w h).
  destruct (h =? w); cbn [orb]; [reflexivity|].
  rewrite IH. destruct (memZ w t); reflexivity.
Qed.

(* insertion-ordered dedup, accumulator form *)
Definition zadd (acc : list Z) (w : Z) : list Z := if memZ w acc then acc else acc ++ [w].

Lemma py_set_of_pints_acc l : forall acc,
  fold_left py_set_add1 (map PInt l) (zset acc) = zset (fold_left zadd l acc).
Proof.
  induction l as [|w l IH]; intros acc; [reflexivity|].
  cbn [map fold_left]. unfold py_set_add1 at 2, py_setitem, zset at 1.
  rewrite dict_store_zset. apply IH.
Qed.

Lemma py_set_of_pints l : py_set_of (pints l) = zset (fold_left zadd l []).
Proof. unfold py_set_of, pints. cbn [py_iter]. apply (py_set_of_pints_acc l []). Qed.

Lemma zadd_fold_mem l : forall acc w, memZ w (fold_left zadd l acc) = memZ w acc || memZ w l.
Proof.
  induction l as [|h t IH]; intros acc w; cbn [fold_left].
  - cbn. now rewrite orb_false_r.
  - rewrite IH, memZ_cons. unfold zadd. destruct (memZ h acc) eqn:E.
    + destruct (Z.eqb_spec w h) as [->|Hne]; [rewrite E; reflexivity | reflexivity].
    + rewrite memZ_app. cbn [memZ existsb]. rewrite orb_false_r, orb_assoc. reflexivity.
Qed.

Lemma dict_keys_zset l : dict_keys (map (fun w => PTuple [PInt w; PNone]) l) = map PInt l.
Proof. induction l as [|h t IH]; [reflexivity|]. cbn [map dict_keys]. unfold dict_keys in *. cbn [map]. f_equal. exact IH. Qed.

Lemma mem_pv_pints w l : mem_pv (PInt w) (map PInt l) = memZ w l.
Proof.
  induction l as [|h t IH]; [reflexivity|].
  cbn [map mem_pv]. rewrite pv_eqb_int, memZ_cons, IH, (Z.eqb_sym h w). reflexivity.
Qed.

Lemma py_set_inter_zset a b :
  py_set_inter (zset a) (zset b) = zset (filter (fun w => memZ w b) a).
Proof.
  unfold py_set_inter, zset at 1 2. cbn [py_iter]. rewrite dict_keys_zset. unfold zset. f_equal.
  induction a as [|h t IH]; [reflexivity|].
  cbn [map filter]. rewrite mem_pv_pints. destruct (memZ h b); cbn [map]; [f_equal|]; exact IH.
Qed.

Lemma py_len_zset l : py_len (zset l) = PInt (len l).
Proof. unfold zset, py_len, strict1, len. now rewrite map_length. Qed.

(* the accumulator dedup is the model's dedup (first occurrences, in order) *)
Lemma zadd_fold_dedup l : forall seen, fold_left zadd l (dedup seen) = dedup (seen ++ l).
Proof.
  induction l as [|w l IH]; intros seen; cbn [fold_left].
  - now rewrite app_nil_r.
  - unfold zadd at 2. rewrite memZ_dedup, <- dedup_snoc, IH, <- app_assoc. reflexivity.
Qed.
Lemma zadd_dedup l : fold_left zadd l [] = dedup l.
Proof. exact (zadd_fold_dedup l []). Qed.

Lemma filter_len_pos (f : Z -> bool) l : (0 <? len (filter f l)) = existsb f l.
Proof.
  induction l as [|h t IH]; [reflexivity|].
  cbn [filter existsb]. destruct (f h); cbn [orb]; [|exact IH].
  unfold len. cbn [List.length]. apply Z.ltb_lt. lia.
Qed.

Lemma In_dedup w l : In w (dedup l) <-> In w l.
Proof. rewrite <- !memZ_In. now rewrite memZ_dedup. Qed.

(* `len(set(a).intersection(set(b))) > 0`  is the model's `share a b` *)
Lemma inter_pos_share a b :
  (0 <? len (filter (fun w => memZ w (fold_left zadd b [])) (fold_left zadd a []))) = share a b.
Proof.
  rewrite filter_len_pos, !zadd_dedup. unfold share.
  apply eq_true_iff_eq. rewrite !existsb_exists. split; intros (w & Hw & Hm); exists w.
  - rewrite memZ_dedup in Hm. split; [apply In_dedup; exact Hw | exact Hm].
  - rewrite memZ_dedup. split; [apply In_dedup; exact Hw | exact Hm].
Qed.

(* ---------------------------------------------------------------- pair-level ordering *)
(* gen_token_ordering_for_lists([ltokens, rtokens]) + order_using_token_ordering *)
Lemma pair_ordering_dict l r :
  gen_token_ordering_for_lists (PList [pints l; pints r]) = PDict (ordering_dict (l ++ r)).
Proof.
  change (PList [pints l; pints r]) with (enc_lists [l; r]).
  rewrite gen_ordering_lists_eq. cbn [List.concat]. now rewrite app_nil_r.
Qed.

Lemma pair_order_using l r toks :
  order_using_token_ordering (pints toks) (PDict (ordering_dict (l ++ r))) = pints (order (l ++ r) toks).
Proof. apply order_using_token_ordering_spec. apply ordering_dict_lookup. Qed.

Lemma order_len_sub all toks : (forall w, In w toks -> In w all) -> len (order all toks) = len toks.
Proof. intros H. unfold len. f_equal. apply order_length. exact H. Qed.

Lemma pints_not_exc l : is_exc (pints l) = false.
Proof. reflexivity. Qed.

Lemma len_nonneg' l : 0 <= len l.
Proof. unfold len. lia. Qed.

Print Assumptions isnull_test.
Print Assumptions both_empty_gen_eq.
Print Assumptions py_set_of_pints.
Print Assumptions py_set_inter_zset.
Print Assumptions inter_pos_share.
Print Assumptions pair_order_using.
