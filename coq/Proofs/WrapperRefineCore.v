(* Building blocks of the wrapper refinement (axiom-free):
   * frame_make / frame_concat / frame_insert0 on string-labelled frames,
   * the list comprehension over range(n_jobs),
   * one per-chunk core call: frame_of_core (set_sim_join_rows ...) on the projected chunk is the
     frame (header_spec minus "_id", rows) with rows a permutation of the specified rows
     (JoinRefineProj.set_sim_join_rows_refines_proj).                                          *)
From Coq Require Import ZArith Bool List String Lia Permutation.
From SSJ Require Import F64 PyNum FilterUtilsGen HelperGen TokenOrderingGen ValidationGen IndexGen JoinGen
     TokenOrdering Measures Filters Joins Api Projection ProjSpec IndexPyFacts ProjectionFacts
     JoinGenFacts JoinGenLoop JoinRefine JoinRefineProj Frame WrapperGen WrapperRefineFrame
     WrapperRefineMissing.
Import ListNotations.
Open Scope Z_scope.

(* ---------------------------------------------------------------- lists *)
Lemma all_some_length {A} : forall (l : list (option A)) r, all_some l = Some r -> List.length r = List.length l.
Proof.
  induction l as [|[x|] l IH]; intros r H; cbn [all_some] in H.
  - injection H as <-. reflexivity.
  - destruct (all_some l) as [r'|]; [|discriminate]. injection H as <-. cbn [List.length]. f_equal. now apply IH.
  - discriminate.
Qed.

Lemma slice_nat_map {A B} (f : A -> B) (l : list A) ab : slice_nat (map f l) ab = map f (slice_nat l ab).
Proof. unfold slice_nat. now rewrite skipn_map, firstn_map. Qed.

Lemma slice_nat_incl {A} (l : list A) ab x : In x (slice_nat l ab) -> In x l.
Proof.
  unfold slice_nat. intros H.
  assert (H1 : In x (skipn (fst ab) l)).
  { rewrite <- (firstn_skipn (snd ab - fst ab) (skipn (fst ab) l)). apply in_or_app. left. exact H. }
  rewrite <- (firstn_skipn (fst ab) l). apply in_or_app. right. exact H1.
Qed.

(* r_splits[job_index] *)
Lemma getitem_rows_chunk : forall (chs : list (list pyval)) (j : nat), (j < List.length chs)%nat ->
  py_getitem (PList (map PList chs)) (PInt (Z.of_nat j)) = PList (nth j chs []).
Proof.
  intros chs j Hj. cbn [py_getitem strict2]. rewrite norm_index_nat by (rewrite map_length; exact Hj).
  match goal with |- nth ?jj ?l ?d = _ => rewrite (nth_indep l d (PList [])) by (rewrite map_length; exact Hj) end.
  apply (map_nth PList).
Qed.

(* finite choice *)
Lemma finite_choice {A} (P : nat -> A -> Prop) (d : A) : forall n,
  (forall j, (j < n)%nat -> exists y, P j y) ->
  exists ys, List.length ys = n /\ forall j, (j < n)%nat -> P j (nth j ys d).
Proof.
  induction n as [|n IH]; intros H.
  - exists []. split; [reflexivity | intros j Hj; lia].
  - destruct IH as (ys & Hl & Hys); [intros j Hj; apply H; lia|].
    destruct (H n ltac:(lia)) as (y & Hy).
    exists (ys ++ [y])%list. split; [rewrite app_length, Hl; cbn; lia|].
    intros j Hj. destruct (Nat.eq_dec j n) as [->|Hne].
    + rewrite app_nth2 by lia. rewrite Hl, Nat.sub_diag. exact Hy.
    + rewrite app_nth1 by lia. apply Hys. lia.
Qed.

(* ---------------------------------------------------------------- comprehension *)
Lemma find_is_exc_none (l : list pyval) : (forall x, In x l -> is_exc x = false) -> find is_exc l = None.
Proof.
  induction l as [|x l IH]; intros H; [reflexivity|]. cbn [find].
  rewrite (H x (or_introl eq_refl)). apply IH. intros y Hy. apply H. right. exact Hy.
Qed.

Lemma py_listcomp_range (f : pyval -> pyval) (k : Z) (g : nat -> pyval) :
  (forall j, (j < Z.to_nat k)%nat -> f (PInt (Z.of_nat j)) = g j) ->
  (forall j, (j < Z.to_nat k)%nat -> is_exc (g j) = false) ->
  py_listcomp f (py_range (PInt 0) (PInt k)) = PList (map g (seq 0 (Z.to_nat k))).
Proof.
  intros Hf Hg. unfold py_listcomp. cbn [py_range py_iter]. rewrite Z.sub_0_r, map_map.
  assert (E : map (fun x : nat => f (PInt (0 + Z.of_nat x))) (seq 0 (Z.to_nat k)) = map g (seq 0 (Z.to_nat k))).
  { apply map_ext_in. intros j Hj. apply in_seq in Hj. apply Hf. lia. }
  rewrite E. rewrite find_is_exc_none; [reflexivity|].
  intros x Hx. apply in_map_iff in Hx. destruct Hx as (j & <- & Hj). apply in_seq in Hj. apply Hg. lia.
Qed.

(* ---------------------------------------------------------------- frames *)
Lemma frame_make_sframe rows hdr : shaped (List.length hdr) rows ->
  frame_make (PList (map PList rows)) (py_strs hdr) = sframe hdr rows.
Proof.
  intros H. unfold frame_make, py_strs. rewrite rows_of_PList.
  rewrite (shaped_forallb (List.length (map PStr hdr)) rows); [reflexivity|]. now rewrite map_length.
Qed.

Lemma pv_eqb_list_cons x xs y ys :
  pv_eqb (PList (x :: xs)) (PList (y :: ys)) = pv_eqb x y && pv_eqb (PList xs) (PList ys).
Proof. reflexivity. Qed.
Lemma pv_eqb_strs l : pv_eqb (PList (map PStr l)) (PList (map PStr l)) = true.
Proof.
  induction l as [|a l IH]; [reflexivity|]. cbn [map]. rewrite pv_eqb_list_cons, IH.
  cbn [pv_eqb]. now rewrite String.eqb_refl.
Qed.

Lemma frames_of_sframes hdr (rowss : list (list (list pyval))) :
  (forall rows, In rows rowss -> shaped (List.length hdr) rows) ->
  frames_of (map (sframe hdr) rowss)
  = Some (map (fun rows => {| fr_cols := map PStr hdr; fr_rows := rows |}) rowss).
Proof.
  induction rowss as [|rows rowss IH]; intros H; [reflexivity|].
  cbn [map frames_of]. unfold sframe at 1. rewrite as_frame_val.
  - rewrite IH; [reflexivity|]. intros r Hr. apply H. right. exact Hr.
  - cbn [fr_cols fr_rows]. rewrite map_length. apply H. left. reflexivity.
Qed.

Lemma frame_concat_sframes hdr (rowss : list (list (list pyval))) :
  rowss <> [] -> (forall rows, In rows rowss -> shaped (List.length hdr) rows) ->
  frame_concat (PList (map (sframe hdr) rowss)) = sframe hdr (List.concat rowss).
Proof.
  intros Hne Hs. unfold frame_concat.
  rewrite find_is_exc_none
    by (intros x Hx; apply in_map_iff in Hx; destruct Hx as (r & <- & _); reflexivity).
  rewrite (frames_of_sframes hdr rowss Hs).
  destruct rowss as [|r0 rest]; [contradiction|]. cbn [map].
  assert (E : forallb (fun f : frame => labels_same (fr_cols {| fr_cols := map PStr hdr; fr_rows := r0 |}) (fr_cols f))
                (map (fun rows : list (list pyval) => {| fr_cols := map PStr hdr; fr_rows := rows |}) rest) = true).
  { apply forallb_forall. intros f Hf. apply in_map_iff in Hf. destruct Hf as (r & <- & _).
    cbn [fr_cols]. unfold labels_same. apply pv_eqb_strs. }
  rewrite E. unfold sframe. cbn [fr_cols]. do 2 f_equal.
  cbn [map fr_rows List.concat]. f_equal. rewrite map_map. cbn [fr_rows]. now rewrite map_id.
Qed.

Lemma pos_of_notin a cols : ~ In a cols -> pos_of a cols = None.
Proof.
  induction cols as [|c cs IH]; intros H; [reflexivity|]. cbn [pos_of].
  destruct (String.eqb c a) eqn:E.
  - apply String.eqb_eq in E. subst. exfalso. apply H. left. reflexivity.
  - rewrite IH; [reflexivity|]. intros Hin. apply H. right. exact Hin.
Qed.

(* the _id column *)
Definition numbered (rows : list (list pyval)) : list (list pyval) :=
  map (fun xr : pyval * list pyval => fst xr :: snd xr)
      (combine (map (fun k => PInt (Z.of_nat k)) (seq 0 (List.length rows))) rows).

Lemma frame_insert0_sframe hdr rows : ~ In "_id"%string hdr -> shaped (List.length hdr) rows ->
  frame_insert0 (sframe hdr rows) (PStr "_id") (py_range (PInt 0) (frame_len (sframe hdr rows)))
  = sframe ("_id"%string :: hdr) (numbered rows).
Proof.
  intros Hid Hs. rewrite frame_len_sframe by exact Hs. cbn [py_range]. rewrite Z.sub_0_r, Nat2Z.id.
  unfold frame_insert0. unfold sframe at 1. cbv beta iota.
  change (frame_val {| fr_cols := map PStr hdr; fr_rows := rows |}) with (sframe hdr rows).
  rewrite with_sframe by exact Hs. cbn [is_label fr_cols fr_rows].
  rewrite col_pos_strs, (pos_of_notin _ _ Hid). rewrite map_length, seq_length, Nat.eqb_refl.
  unfold sframe, numbered. cbn [map]. reflexivity.
Qed.

Lemma numbered_shaped n rows : shaped n rows -> shaped (S n) (numbered rows).
Proof.
  intros H r Hr. unfold numbered in Hr. apply in_map_iff in Hr. destruct Hr as ([x r'] & <- & Hin).
  apply in_combine_r in Hin. cbn [fst snd List.length]. f_equal. apply H. exact Hin.
Qed.

(* ---------------------------------------------------------------- validators / small evaluations *)
Lemma mem_pv_strs a cols : mem_pv (PStr a) (map PStr cols) = mem_str a cols.
Proof.
  induction cols as [|c cs IH]; [reflexivity|]. cbn [map mem_pv]. rewrite IH. unfold mem_str. cbn [existsb].
  rewrite pv_eqb_str. now rewrite String.eqb_sym.
Qed.

Lemma validate_attr_ok a cols l1 l2 : In a cols ->
  validate_attr (PStr a) (py_strs cols) l1 l2 = PBool true.
Proof.
  intros Hin. unfold validate_attr, py_not_in, py_in, py_strs. cbn [strict2].
  rewrite mem_pv_strs. apply mem_str_In in Hin. rewrite Hin. reflexivity.
Qed.

Lemma py_le_int a b : py_le (PInt a) (PInt b) = PBool (a <=? b).
Proof. apply py_le_int_val'. Qed.

Lemma py_len_rows (rows : list (list pyval)) : py_len (PList (map PList rows)) = PInt (Z.of_nat (List.length rows)).
Proof. cbn [py_len strict1]. now rewrite map_length. Qed.

Lemma l_out_not_exc c : is_exc (l_out c) = false.
Proof. rewrite l_out_eq. destruct (dedupe_opt (p_lkey c) (p_lout c)); reflexivity. Qed.
Lemma r_out_not_exc c : is_exc (r_out c) = false.
Proof. rewrite r_out_eq. destruct (dedupe_opt (p_rkey c) (p_rout c)); reflexivity. Qed.

(* ---------------------------------------------------------------- one chunk *)
Section Chunk.
  Variables (c : pcase) (p : fparams) (op : string) (ae : bool).
  Variables (lsrc rsrc : list (list pyval)).
  Variables (tokenize : pyval -> pyval) (sim_fn : pyval -> pyval -> pyval).
  Variables (toks : pyval -> list Z) (cf : pyval -> pyval -> pyval).

  Hypothesis Hwf : well_formed c.
  Hypothesis Hlsrc : forall row, In row lsrc ->
    List.length row = List.length (p_lcols c) /\ ProjSpec.row_ok row.
  Hypothesis Hrsrc : forall row, In row rsrc ->
    List.length row = List.length (p_rcols c) /\ ProjSpec.row_ok row.

  Let lo := dedupe_out (p_lkey c) (p_lout c).
  Let ro := dedupe_out (p_rkey c) (p_rout c).
  Definition lproj : list string := proj_list (p_lkey c) (p_ljoin c) lo.
  Definition rproj : list string := proj_list (p_rkey c) (p_rjoin c) ro.
  Definition lpresent : list (list pyval) := filter (present_row (p_lcols c) (p_ljoin c)) lsrc.
  Definition rpresent : list (list pyval) := filter (present_row (p_rcols c) (p_rjoin c)) rsrc.
  Definition project_l (rows : list (list pyval)) := map (fun row => map (cellv (p_lcols c) row) lproj) rows.
  Definition project_r (rows : list (list pyval)) := map (fun row => map (cellv (p_rcols c) row) rproj) rows.
  Definition Ltoks : list (list Z) := map (fun row => toks (cellv (p_lcols c) row (p_ljoin c))) lpresent.
  Definition Rtoks (ch : list (list pyval)) : list (list Z) :=
    map (fun row => toks (cellv (p_rcols c) row (p_rjoin c))) ch.

  Hypothesis HtokL : forall row, In row lpresent ->
    tokenize (cellv (p_lcols c) row (p_ljoin c)) = pints (toks (cellv (p_lcols c) row (p_ljoin c))).
  Hypothesis HtokR : forall row, In row rpresent ->
    tokenize (cellv (p_rcols c) row (p_rjoin c)) = pints (toks (cellv (p_rcols c) row (p_rjoin c))).
  Hypothesis Hm : set_measure (fm p).
  Hypothesis Hvt : is_exc (validate_threshold (ft p) (PStr (fm p))) = false.
  Hypothesis Hop : comp_op_map op = Some cf.
  Hypothesis Hnum : num_of (ft p) <> None.

  (* what the per-chunk refinement theorem needs about the formulas and sim_fn on one chunk: the token
     order is computed from the whole (present) left table and THIS chunk of the right one *)
  Definition core_hyps (ch : list (list pyval)) : Prop :=
    let all := (List.concat Ltoks ++ List.concat (Rtoks ch))%list in
    (forall x, In x (map (order all) Ltoks) -> exists k, g_pl p (len x) = PInt k) /\
    (forall y, In y (map (order all) (Rtoks ch)) -> ae && (len y =? 0) = false -> probe_ok p y) /\
    (forall x y, In x (map (order all) Ltoks) -> In y (map (order all) (Rtoks ch)) ->
       sim_fn (pints x) (pints y) = PFloat (sim_tok (fm p) x y)).

  Lemma lpresent_in row : In row lpresent -> In row lsrc.
  Proof. intros H. apply filter_In in H. tauto. Qed.
  Lemma rpresent_in row : In row rpresent -> In row rsrc.
  Proof. intros H. apply filter_In in H. tauto. Qed.

  Lemma lproj_incl a : In a lproj -> In a (p_lcols c).
  Proof.
    destruct Hwf as [Hlk Hlj Hlo _ _ _]. intros Ha.
    eapply proj_list_incl; [exact Hlk | exact Hlj | | exact Ha].
    intros b Hb. apply Hlo. eapply dedupe_out_incl. exact Hb.
  Qed.
  Lemma rproj_incl a : In a rproj -> In a (p_rcols c).
  Proof.
    destruct Hwf as [_ _ _ Hrk Hrj Hro]. intros Ha.
    eapply proj_list_incl; [exact Hrk | exact Hrj | | exact Ha].
    intros b Hb. apply Hro. eapply dedupe_out_incl. exact Hb.
  Qed.

  Lemma cells_spec_length lrow rrow cells :
    cells_spec c lrow rrow = Some cells -> List.length cells = (2 + List.length lo + List.length ro)%nat.
  Proof.
    intros H. apply all_some_length in H. rewrite H. cbn [List.length]. rewrite app_length, !map_length.
    fold lo ro. lia.
  Qed.

  Lemma mv_header_length :
    List.length (mv_header c) = (2 + List.length lo + List.length ro + if p_score c then 1 else 0)%nat.
  Proof.
    unfold mv_header. fold lo ro. cbn [List.length]. rewrite !app_length, !map_length.
    destruct (p_score c); cbn [List.length]; lia.
  Qed.

  Theorem core_chunk (ch : list (list pyval)) (sp : pyval) :
    (forall row, In row ch -> In row rpresent) -> core_hyps ch ->
    exists (T : list triple) (rows : list (list pyval)),
      set_sim_join_core p op ae Ltoks (Rtoks ch) = Some T /\
      frame_of_core
        (set_sim_join_rows (PList (map PList (project_l lpresent))) (PList (map PList (project_r ch)))
           (l_proj c) (r_proj c) (PStr (p_lkey c)) (PStr (p_rkey c)) (PStr (p_ljoin c)) (PStr (p_rjoin c))
           (PStr (fm p)) (ft p) (PStr op) (PBool ae) (l_out c) (r_out c)
           (PStr (p_lpre c)) (PStr (p_rpre c)) (PBool (p_score c)) sp (PInt (fq p)) tokenize sim_fn)
      = sframe (mv_header c) rows /\
      shaped (List.length (mv_header c)) rows /\
      Permutation rows (map (spec_row c lpresent ch) T) /\
      forall t, In t T ->
        exists cells, out_cells c (nth (fst (fst t)) lpresent []) (nth (snd (fst t)) ch []) = Some cells /\
                      cells_spec c (nth (fst (fst t)) lpresent []) (nth (snd (fst t)) ch []) = Some cells.
  Proof.
    intros Hch (H1 & H2 & H3).
    destruct (set_sim_join_rows_refines_proj c p op ae lpresent ch sp tokenize sim_fn toks cf Hwf)
      as (T & rows & header & ET & Egen & Ehdr & Perm & Hcells).
    - intros row Hr. apply Hlsrc, lpresent_in, Hr.
    - intros row Hr. apply Hrsrc, rpresent_in, Hch, Hr.
    - exact HtokL.
    - intros row Hr. apply HtokR, Hch, Hr.
    - exact Hm.
    - exact Hvt.
    - exact Hop.
    - exact Hnum.
    - exact H1.
    - exact H2.
    - exact H3.
    - assert (Eh : header = py_strs (mv_header c)).
      { rewrite mv_header_spec in Ehdr. unfold py_strs in Ehdr. cbn [map] in Ehdr.
        destruct header; cbn [py_insert0 strict2] in Ehdr; try discriminate Ehdr.
        injection Ehdr as ->. reflexivity. }
      assert (Hsh : shaped (List.length (mv_header c)) rows).
      { intros r Hr. apply (Permutation_in _ Perm) in Hr. apply in_map_iff in Hr.
        destruct Hr as (t & <- & Ht). destruct (Hcells t Ht) as (cells & Eo & Es).
        destruct t as [[i j] s]. cbn [fst snd] in Eo, Es. unfold spec_row. rewrite Eo.
        rewrite app_length, (cells_spec_length _ _ _ Es), mv_header_length.
        destruct (p_score c); cbn [List.length]; lia. }
      exists T, rows. split; [exact ET|]. split; [|split; [exact Hsh | split; [exact Perm | exact Hcells]]].
      unfold project_l, project_r, lproj, rproj, lo, ro. rewrite Egen. cbn [frame_of_core].
      rewrite Eh. apply frame_make_sframe. exact Hsh.
  Qed.
End Chunk.

Print Assumptions core_chunk.
Print Assumptions frame_concat_sframes.
Print Assumptions frame_insert0_sframe.
