(* C17 (profiler), percentage clause: round((float(c)/float(n))*100, 2) is within
   0.005 + 1e-9 of 100*c/n, for all 1 <= n < 2^31, 0 <= c <= n; and the executable check
   spec_pct of Spec/ProfilerSpec.v decides exactly that inequality.
   Arithmetic file: depends on the Reals/Flocq axioms only.                                 *)
From Coq Require Import ZArith Reals Lia Lra Psatz SpecFloat Bool.
From Flocq Require Import Core BinarySingleNaN.
From SSJ Require Import F64 F64Spec Profiler ProfilerSpec.
Open Scope R_scope.

Definition T100 : R := 1267650600228229401496703205376.   (* 2^100 *)
Definition pct_tol : R := 5 / 1000 + / 1000000000.

Lemma RN_both : forall x, x = 0 \/ / T100 <= x ->
  x * (1 - eps) <= RN x <= x * (1 + eps).
Proof.
intros x [-> | H].
- rewrite RN_0. lra.
- split; [apply RN_dn' | apply RN_up']; exact H.
Qed.

Lemma RN_1 : RN 1 = 1.
Proof. apply (RN_int 1). simpl. lia. Qed.
Lemma RN_100 : RN 100 = 100.
Proof. apply (RN_int 100). simpl. lia. Qed.

Lemma ratio_bounds : forall c n : Z, (1 <= n < 2 ^ 31)%Z -> (0 <= c <= n)%Z ->
  let x := IZR c / IZR n in
  0 <= x <= 1 /\ (x = 0 \/ / 2147483648 <= x).
Proof.
intros c n Hn Hc x. subst x.
assert (Hn1 : 1 <= IZR n) by (apply IZR_le; lia).
assert (Hn2 : IZR n <= 2147483648) by (apply IZR_le; simpl in Hn; lia).
assert (Hc1 : 0 <= IZR c) by (apply IZR_le; lia).
assert (Hc2 : IZR c <= IZR n) by (apply IZR_le; lia).
assert (Hi : 0 < / IZR n) by (apply Rinv_0_lt_compat; lra).
assert (Hi2 : / 2147483648 <= / IZR n) by (apply Rinv_le_contravar; lra).
assert (Hnn : IZR n * / IZR n = 1) by (apply Rinv_r; lra).
unfold Rdiv. split.
- split.
  + apply Rmult_le_pos; lra.
  + rewrite <- Hnn. apply Rmult_le_compat_r; lra.
- assert (Hz : (c = 0 \/ 1 <= c)%Z) by lia. destruct Hz as [-> | Hz].
  + left. lra.
  + right. assert (1 <= IZR c) by (apply IZR_le; lia).
    apply Rle_trans with (1 * / IZR n); [lra | ].
    apply Rmult_le_compat_r; lra.
Qed.

(* the real-number core: four roundings *)
Lemma pct_real : forall x q P (N : Z) r,
  0 <= x <= 1 -> (x = 0 \/ / 2147483648 <= x) ->
  q = RN x -> P = RN (q * 100) -> N = ZnearestE (P * 100) -> r = RN (IZR N / 100) ->
  0 <= q <= 1 /\ 0 <= P <= 100 /\ (0 <= N <= 10000)%Z /\ 0 <= r <= 100 /\
  Rabs (r - 100 * x) <= pct_tol.
Proof.
intros x q P N r Hx Hx0 Hq HP HN Hr.
pose proof eps_val as He. pose proof eps_pos as He0.
assert (HT : / T100 <= / 2147483648).
{ unfold T100. apply Rinv_le_contravar; lra. }
assert (HTp : 0 < / T100) by (unfold T100; apply Rinv_0_lt_compat; lra).
(* q *)
assert (Hq1 : 0 <= q <= 1).
{ rewrite Hq. split; [apply RN_ge_0; lra | apply Rle_trans with (RN 1); [apply RN_le; lra | rewrite RN_1; lra]]. }
assert (Hq2 : x * (1 - eps) <= q <= x * (1 + eps)).
{ rewrite Hq. apply RN_both. destruct Hx0 as [H0 | H0]; [left; exact H0 | right; lra]. }
(* P *)
assert (HP1 : 0 <= P <= 100).
{ rewrite HP. split; [apply RN_ge_0; lra | apply Rle_trans with (RN 100); [apply RN_le; lra | rewrite RN_100; lra]]. }
assert (Hy0 : q * 100 = 0 \/ / T100 <= q * 100).
{ destruct Hx0 as [H0 | H0].
  - left. rewrite Hq, H0, RN_0. lra.
  - right. rewrite He in Hq2.
    assert (x * (1 - / 9007199254740992) >= / 2147483648 * (1 / 2)).
    { assert (1 / 2 <= 1 - / 9007199254740992) by lra. nra. }
    lra. }
assert (HP2 : q * 100 * (1 - eps) <= P <= q * 100 * (1 + eps)).
{ rewrite HP. apply RN_both. exact Hy0. }
(* N *)
pose proof (Znearest_half (fun n => negb (Z.even n)) (P * 100)) as Hh.
rewrite <- HN in Hh. apply Rabs_le_inv in Hh.
assert (HN1 : (0 <= N <= 10000)%Z).
{ split.
  - rewrite HN. apply ZnearestE_ge_0. lra.
  - assert (IZR N < IZR 10001) by lra. apply lt_IZR in H. lia. }
assert (HN2 : 0 <= IZR N <= 10000).
{ split; [apply (IZR_le 0) | apply (IZR_le _ 10000)]; lia. }
(* r *)
assert (Hw0 : IZR N / 100 = 0 \/ / T100 <= IZR N / 100).
{ assert (Hz : (N = 0 \/ 1 <= N)%Z) by lia. destruct Hz as [-> | Hz].
  - left. lra.
  - right. assert (1 <= IZR N) by (apply IZR_le; lia). lra. }
assert (Hr2 : IZR N / 100 * (1 - eps) <= r <= IZR N / 100 * (1 + eps)).
{ rewrite Hr. apply RN_both. exact Hw0. }
assert (Hr1 : 0 <= r <= 100).
{ rewrite Hr. split; [apply RN_ge_0; lra | apply Rle_trans with (RN 100); [apply RN_le; lra | rewrite RN_100; lra]]. }
split; [exact Hq1 | ]. split; [exact HP1 | ]. split; [exact HN1 | ]. split; [exact Hr1 | ].
unfold pct_tol. rewrite He in *. clear He He0 Hq HP HN Hr Hy0 Hw0 HT HTp Hx0.
apply Rabs_le.
(* linearise the three products with the constant 1 +- eps *)
set (e := / 9007199254740992) in *.
assert (He : 0 < e <= / 1000000000000000) by (unfold e; split; [apply Rinv_0_lt_compat | apply Rinv_le_contravar]; lra).
assert (A1 : Rabs (q - x) <= e).
{ apply Rabs_le. nra. }
assert (A2 : Rabs (P - q * 100) <= 100 * e).
{ apply Rabs_le. nra. }
assert (A3 : Rabs (r - IZR N / 100) <= 100 * e).
{ apply Rabs_le. nra. }
apply Rabs_le_inv in A1. apply Rabs_le_inv in A2. apply Rabs_le_inv in A3.
lra.
Qed.

(* the float computation, as a chain of RN *)
Lemma pct_FR : forall c n : Z, (1 <= n < 2 ^ 31)%Z -> (0 <= c <= n)%Z ->
  fin (pct c n) /\
  FR (pct c n) = RN (IZR (ZnearestE (RN (RN (IZR c / IZR n) * 100) * 100)) / 100).
Proof.
intros c n Hn Hc.
assert (H31 : (2 ^ 31 <= 2 ^ 53)%Z) by (apply Z.pow_le_mono_r; lia).
destruct (f_of_Z_exact c) as [Fc Rc]; [lia | ].
destruct (f_of_Z_exact n) as [Fn Rn]; [lia | ].
destruct (f_of_Z_exact 100) as [Fh Rh]; [simpl; lia | ].
destruct (ratio_bounds c n Hn Hc) as [Hx Hx0]. cbv zeta in Hx, Hx0.
destruct (pct_real _ _ _ _ _ Hx Hx0 eq_refl eq_refl eq_refl eq_refl)
  as (Hq & HP & HN & Hr & _).
assert (Hn0 : FR (f_of_Z n) <> 0).
{ rewrite Rn. assert (1 <= IZR n) by (apply IZR_le; lia). lra. }
assert (Hov : forall v, 0 <= v <= 100 -> Rabs v < bpow radix2 1024).
{ intros v Hv. rewrite Rabs_pos_eq by lra.
  apply Rle_lt_trans with (bpow radix2 7); [simpl; lra | apply bpow_lt; lia]. }
destruct (fdiv_spec (f_of_Z c) (f_of_Z n) Fc Fn Hn0) as [Fq Rq].
{ rewrite Rc, Rn. apply Hov. lra. }
rewrite Rc, Rn in Rq.
destruct (fmul_spec _ (f_of_Z 100) Fq Fh) as [FP RP].
{ rewrite Rq, Rh. apply Hov. exact HP. }
rewrite Rq, Rh in RP.
unfold pct.
destruct (f_round_nd_spec (fmul (fdiv (f_of_Z c) (f_of_Z n)) (f_of_Z 100)) 2) as [Fr Rr].
- apply FP.
- lia.
- rewrite RP. change (IZR (10 ^ 2)) with 100. apply Hov. exact Hr.
- split; [exact Fr | ].
  rewrite Rr, RP. reflexivity.
Qed.

Theorem C17_percent : forall c n : Z, (1 <= n < 2 ^ 31)%Z -> (0 <= c <= n)%Z ->
  fin (pct c n) /\ Rabs (FR (pct c n) - 100 * (IZR c / IZR n)) <= pct_tol.
Proof.
intros c n Hn Hc.
destruct (pct_FR c n Hn Hc) as [F R]. split; [exact F | ].
destruct (ratio_bounds c n Hn Hc) as [Hx Hx0]. cbv zeta in Hx, Hx0.
destruct (pct_real _ _ _ _ _ Hx Hx0 eq_refl eq_refl eq_refl eq_refl) as (_ & _ & _ & _ & H).
rewrite R. exact H.
Qed.

(* ------------------------------------------------------------------ *)
(** * spec_pct decides the inequality                                   *)

Lemma spec_pct_reflect : forall (n c : Z) (p : f64), (1 <= n)%Z -> f_is_finite p = true ->
  (spec_pct n c p = true <-> Rabs (FR p - 100 * (IZR c / IZR n)) <= pct_tol).
Proof.
intros n c p Hn Hf.
assert (Hn' : 0 < IZR n) by (apply IZR_lt; lia).
(* generic step: value v / d with d > 0 *)
assert (G : forall v d : Z, (0 < d)%Z ->
  ((Z.abs (v * n - 100 * c * d) * pct_tol_den <=? pct_tol_num * n * d)%Z = true <->
   Rabs (IZR v / IZR d - 100 * (IZR c / IZR n)) <= pct_tol)).
{ intros v d Hd. assert (Hd' : 0 < IZR d) by (apply IZR_lt; lia).
  rewrite Z.leb_le.
  replace (IZR v / IZR d - 100 * (IZR c / IZR n))
    with (IZR (v * n - 100 * c * d) / (IZR n * IZR d))
    by (rewrite minus_IZR, !mult_IZR; field; lra).
  assert (Hnd : 0 < IZR n * IZR d) by (apply Rmult_lt_0_compat; lra).
  unfold Rdiv. rewrite Rabs_mult, (Rabs_pos_eq (/ (IZR n * IZR d)))
    by (apply Rlt_le, Rinv_0_lt_compat; exact Hnd).
  rewrite <- abs_IZR. set (A := Z.abs (v * n - 100 * c * d)).
  unfold pct_tol, pct_tol_den, pct_tol_num.
  split.
  - intros H. apply IZR_le in H. rewrite !mult_IZR in H.
    apply Rmult_le_reg_r with (IZR n * IZR d); [exact Hnd | ].
    rewrite Rmult_assoc, Rinv_l by lra. lra.
  - intros H. apply le_IZR. rewrite !mult_IZR.
    apply Rmult_le_compat_r with (r := IZR n * IZR d) in H; [ | lra].
    rewrite Rmult_assoc, Rinv_l in H by lra. lra. }
destruct p as [s|s| |s m e]; try discriminate.
- (* zero *)
  unfold spec_pct. unfold FR. simpl SF2R.
  specialize (G 0%Z 1%Z ltac:(lia)).
  replace (IZR 0 / IZR 1) with 0 in G by (simpl; lra).
  rewrite <- G. rewrite !Z.leb_le. unfold pct_tol_den, pct_tol_num. lia.
- destruct e as [|q|q].
  + unfold spec_pct. rewrite FR_finite_nonneg by lia.
    specialize (G ((if s then Z.neg m else Z.pos m) * 2 ^ 0)%Z 1%Z ltac:(lia)).
    replace (IZR ((if s then Z.neg m else Z.pos m) * 2 ^ 0) / IZR 1)
      with (IZR ((if s then Z.neg m else Z.pos m) * 2 ^ 0)) in G by (simpl (IZR 1); lra).
    replace (cond_Zopp s (Z.pos m)) with (if s then Z.neg m else Z.pos m) by now destruct s.
    rewrite <- G. rewrite !Z.leb_le. lia.
  + unfold spec_pct. rewrite FR_finite_nonneg by lia.
    specialize (G ((if s then Z.neg m else Z.pos m) * 2 ^ Z.pos q)%Z 1%Z ltac:(lia)).
    replace (IZR ((if s then Z.neg m else Z.pos m) * 2 ^ Z.pos q) / IZR 1)
      with (IZR ((if s then Z.neg m else Z.pos m) * 2 ^ Z.pos q)) in G by (simpl (IZR 1); lra).
    replace (cond_Zopp s (Z.pos m)) with (if s then Z.neg m else Z.pos m) by now destruct s.
    rewrite <- G. rewrite !Z.leb_le. lia.
  + unfold spec_pct. rewrite FR_finite_neg.
    replace (cond_Zopp s (Z.pos m)) with (if s then Z.neg m else Z.pos m) by now destruct s.
    apply G. apply pow_pos_gt0.
Qed.

Theorem C17_percent_b : forall c n : Z, (1 <= n < 2 ^ 31)%Z -> (0 <= c <= n)%Z ->
  spec_pct n c (pct c n) = true.
Proof.
intros c n Hn Hc. destruct (C17_percent c n Hn Hc) as [[_ F] H].
apply spec_pct_reflect; [lia | exact F | exact H].
Qed.

Print Assumptions C17_percent.
Print Assumptions C17_percent_b.
