(* ARITHMETIC companion of Proofs/ModelLaws.v / ModelPipe.v (uses Flocq / Reals: the usual four
   standard-library axioms appear in Print Assumptions).  On token SETS within the proof envelope
   (NoDup, fewer than 2^20 tokens) every score a set-similarity join can report is a FINITE double:
   - JACCARD / COSINE / DICE: the raw similarity sim_sizes is finite with |.| <= 2^30 whenever it
     is not NaN (cosine with exactly one empty side is 0/0 = NaN), hence so is its 4-decimal
     rounding, and rounding twice is rounding once;
   - OVERLAP_COEFFICIENT: o / min(a,b) is finite whenever it is defined.
   This is what the side conditions `laxer` (threshold refinement) and `round_agrees` (pipeline)
   of the spec-level laws need on the rows of a valid case.                                  *)
From Coq Require Import ZArith Reals Lia Lra Psatz SpecFloat Bool String List.
From Flocq Require Import Core BinarySingleNaN Relative.
From SSJ Require Import F64 F64Spec PyNum FilterUtilsGen HelperGen TokenOrdering Measures Filters Joins Api
     JoinSpec MetaSpec ArithSpec ArithCommon ArithC SetBridge OverlapFacts ApiJoinPairs
     LawsScore LawsSpec Laws LawsPipe LawsArith.
Open Scope string_scope.
Open Scope R_scope.

Lemma fin_zero s : fin (S754_zero s) /\ FR (S754_zero s) = 0.
Proof. split; [split; reflexivity | reflexivity]. Qed.

(* ------------------------------------------------------------------ the three formulas, o >= 1 *)
Lemma simJ_fin a b o : sizes_ok a b o ->
  fin (sim_formula "JACCARD" a b o) /\ 0 <= FR (sim_formula "JACCARD" a b o) <= 2.
Proof.
intros Hs. destruct (sizes_R a b o Hs) as (Ho & Hoa & Hob & Ha & Hb & HU & _).
change (sim_formula "JACCARD" a b o) with (fdiv (f_of_Z o) (f_of_Z (a + b - o))).
destruct Hs as (S1 & S2 & S3 & S4 & S5). unfold size_bound in *.
destruct (f_of_size o) as [Hfo Hvo]. { lia. }
destruct (f_of_size (a + b - o)) as [HfU HvU]. { lia. }
set (U := IZR (a + b - o)) in *.
assert (HUb : IZR o <= U <= 2097150) by lra.
assert (HU0 : 0 < U) by lra.
assert (Hqb : / 2097150 <= IZR o / U <= 1) by (apply div_bounds; lra).
destruct (fdiv_pos (f_of_Z o) (f_of_Z (a + b - o)) Hfo HfU) as [H1 H2].
{ rewrite HvU. exact HU0. }
{ rewrite Hvo, HvU. unfold B100. lra. }
rewrite Hvo, HvU in H2. split; [exact H1|]. rewrite H2.
assert (Hlo : / B100 <= IZR o / U) by (unfold B100; lra).
destruct (RN_pos_crude _ Hlo) as [R1 R2]. lra.
Qed.

Lemma simD_fin a b o : sizes_ok a b o ->
  fin (sim_formula "DICE" a b o) /\ 0 <= FR (sim_formula "DICE" a b o) <= 2.
Proof.
intros Hs. destruct (sizes_R a b o Hs) as (Ho & Hoa & Hob & Ha & Hb & _ & HS).
change (sim_formula "DICE" a b o) with (fdiv (fmul (f_of_Z 2) (f_of_Z o)) (f_of_Z (a + b))).
destruct Hs as (S1 & S2 & S3 & S4 & S5). unfold size_bound in *.
destruct (f_of_size 2) as [Hf2 Hv2]. { lia. }
destruct (f_of_size o) as [Hfo Hvo]. { lia. }
destruct (f_of_size (a + b)) as [HfS HvS]. { lia. }
set (S := IZR (a + b)) in *.
assert (HSb : 2 * IZR o <= S <= 2097150) by lra.
assert (HS0 : 0 < S) by lra.
assert (H2o : RN (2 * IZR o) = 2 * IZR o).
{ rewrite <- mult_IZR. apply RN_size. lia. }
destruct (fmul_pos (f_of_Z 2) (f_of_Z o) Hf2 Hfo) as [N1 N2].
{ rewrite Hv2, Hvo. unfold B100. lra. }
rewrite Hv2, Hvo, H2o in N2.
assert (Hqb : / 2097150 <= 2 * IZR o / S <= 1) by (apply div_bounds; lra).
destruct (fdiv_pos (fmul (f_of_Z 2) (f_of_Z o)) (f_of_Z (a + b)) N1 HfS) as [H1 H2].
{ rewrite HvS. exact HS0. }
{ rewrite N2, HvS. unfold B100. lra. }
rewrite N2, HvS in H2. split; [exact H1|]. rewrite H2.
assert (Hlo : / B100 <= 2 * IZR o / S) by (unfold B100; lra).
destruct (RN_pos_crude _ Hlo) as [R1 R2]. lra.
Qed.

Lemma simC_fin a b o : sizes_ok a b o ->
  fin (sim_formula "COSINE" a b o) /\ 0 <= FR (sim_formula "COSINE" a b o) <= 2097152.
Proof.
intros Hs. destruct (sizes_R a b o Hs) as (Ho & Hoa & Hob & Ha & Hb & _ & _).
change (sim_formula "COSINE" a b o)
  with (fdiv (f_of_Z o) (fmul (fsqrt (f_of_Z a)) (fsqrt (f_of_Z b)))).
destruct Hs as (S1 & S2 & S3 & S4 & S5). unfold size_bound in *.
destruct (f_of_size o) as [Hfo Hvo]. { lia. }
destruct (f_of_size a) as [Hfa Hva]. { lia. }
destruct (f_of_size b) as [Hfb Hvb]. { lia. }
destruct (fsqrt_spec _ Hfa) as [A1 A2]. { rewrite Hva. lra. }
destruct (fsqrt_spec _ Hfb) as [B1 B2]. { rewrite Hvb. lra. }
rewrite Hva in A2. rewrite Hvb in B2.
destruct (C_sim_real (IZR a) (IZR b) (IZR o) _ _ _ _ Ho Hoa Hob Ha Hb
            eq_refl eq_refl eq_refl eq_refl) as (R1 & R2 & R3 & _).
destruct (fmul_pos _ _ A1 B1) as [P1 P2]. { rewrite A2, B2. exact R1. }
rewrite A2, B2 in P2.
destruct (fdiv_pos _ _ Hfo P1) as [Q1 Q2]; rewrite ?P2, ?Hvo; try assumption.
rewrite P2, Hvo in Q2. split; [exact Q1|]. rewrite Q2.
destruct (sqrt_size (IZR a) ltac:(lra)) as [[Sa1 _] _].
destruct (sqrt_size (IZR b) ltac:(lra)) as [[Sb1 _] _].
assert (HA : 1 <= RN (sqrt (IZR a))) by (rewrite <- RN_1; apply RN_le; exact Sa1).
assert (HB : 1 <= RN (sqrt (IZR b))) by (rewrite <- RN_1; apply RN_le; exact Sb1).
set (A := RN (sqrt (IZR a))) in *. set (B := RN (sqrt (IZR b))) in *.
assert (HAB : 1 <= A * B) by nra.
assert (HP : 1 <= RN (A * B)) by (rewrite <- RN_1; apply RN_le; exact HAB).
set (P := RN (A * B)) in *.
assert (HQ : IZR o / P <= IZR o).
{ apply Rmult_le_reg_r with P; [lra|]. rewrite div_mul by lra. nra. }
destruct (RN_pos_crude _ (proj1 R3)) as [C1 C2].
assert (0 < IZR o / P) by (unfold B100 in R3; lra). lra.
Qed.

(* ------------------------------------------------------------------ sim_sizes on all sizes *)
Lemma jcd_cases' m : is_jcd m = true -> m = "JACCARD" \/ m = "COSINE" \/ m = "DICE".
Proof. unfold is_jcd. rewrite !orb_true_iff, !String.eqb_eq. tauto. Qed.

Theorem sim_sizes_fin m a b o : is_jcd m = true ->
  (0 <= o)%Z -> (o <= a)%Z -> (o <= b)%Z -> (a < size_bound)%Z -> (b < size_bound)%Z ->
  sim_sizes m a b o <> S754_nan ->
  fin (sim_sizes m a b o) /\ Rabs (FR (sim_sizes m a b o)) <= 1073741824.
Proof.
intros Hm Ho Hoa Hob Ha Hb Hn. unfold sim_sizes in *.
destruct ((o =? a)%Z && (o =? b)%Z).
{ destruct f_one_spec as [H1 H2]. split; [exact H1|]. rewrite H2, Rabs_pos_eq; lra. }
destruct (Z.eq_dec o 0) as [->|Hne].
{ pose proof (sim_formula_o0 m a b) as Hz.
  destruct (sim_formula m a b 0) as [s|s| |s mm e]; try contradiction; try congruence.
  destruct (fin_zero s) as [H1 H2]. split; [exact H1|]. rewrite H2, Rabs_R0. lra. }
assert (Hs : sizes_ok a b o) by (unfold sizes_ok; lia).
destruct (jcd_cases' m Hm) as [-> | [-> | ->]].
- destruct (simJ_fin a b o Hs) as [H1 H2]. split; [exact H1|]. rewrite Rabs_pos_eq; lra.
- destruct (simC_fin a b o Hs) as [H1 H2]. split; [exact H1|]. rewrite Rabs_pos_eq; lra.
- destruct (simD_fin a b o Hs) as [H1 H2]. split; [exact H1|]. rewrite Rabs_pos_eq; lra.
Qed.

Lemma f_round_nan : f_round_nd S754_nan 4 = S754_nan.
Proof. reflexivity. Qed.

(* ------------------------------------------------------------------ token sets in the envelope *)
Definition toks_ok (x : list Z) : Prop := NoDup x /\ (len x < size_bound)%Z.

Section OnSets.
Variables (x y : list Z).
Hypothesis Hx : toks_ok x.
Hypothesis Hy : toks_ok y.

Lemma sizes_of_sets :
  len (dedup x) = len x /\ len (dedup y) = len y /\
  (0 <= overlap_sets x y)%Z /\ (overlap_sets x y <= len x)%Z /\ (overlap_sets x y <= len y)%Z.
Proof.
  destruct Hx as [Nx _]. destruct Hy as [Ny _].
  rewrite (dedup_nodup_id x Nx), (dedup_nodup_id y Ny).
  split; [reflexivity|]. split; [reflexivity|].
  split; [apply overlap_sets_nonneg|]. split; [apply overlap_sets_le_l | apply overlap_sets_le_r].
Qed.

(* J/C/D: a pair whose reported score satisfies a comparison has a finite raw score (<= 2^30)
   and a finite reported score *)
Theorem reported_fin_jcd m op t : is_jcd m = true -> lower_op op ->
  cmp_op op (reported_score m x y) t = true ->
  let f := sim_sizes m (len (dedup x)) (len (dedup y)) (overlap_sets x y) in
  fin f /\ Rabs (FR f) <= 1073741824 /\
  reported_score m x y = PFloat (f_round_nd f 4) /\ fin (f_round_nd f 4).
Proof.
  intros Hm Hop Hc f.
  assert (Er : reported_score m x y = PFloat (f_round_nd f 4)).
  { unfold reported_score, score4. rewrite Hm. reflexivity. }
  assert (Hn : f <> S754_nan).
  { intros E. rewrite Er, E, f_round_nan, (cmp_nan_false op t Hop) in Hc. discriminate. }
  destruct sizes_of_sets as (Ea & Eb & O1 & O2 & O3).
  unfold f in *. rewrite Ea, Eb in *.
  destruct (sim_sizes_fin m (len x) (len y) (overlap_sets x y) Hm O1 O2 O3 (proj2 Hx) (proj2 Hy) Hn)
    as [F1 F2].
  split; [exact F1|]. split; [exact F2|]. split; [exact Er|].
  apply f_round_4_spec; [exact F1 | lra].
Qed.

(* OVERLAP_COEFFICIENT: o / min(a,b) is a finite double when the comparison holds *)
Theorem reported_fin_ovc op t : lower_op op ->
  cmp_op op (reported_score "OVERLAP_COEFFICIENT" x y) t = true ->
  exists g, reported_score "OVERLAP_COEFFICIENT" x y = PFloat g /\ fin g.
Proof.
  intros Hop Hc.
  destruct sizes_of_sets as (Ea & Eb & O1 & O2 & O3).
  unfold reported_score, raw_score in *. cbn [is_jcd String.eqb Ascii.eqb Bool.eqb orb] in *.
  rewrite Ea, Eb in *. rewrite !py_float_int, LawsSpec.py_truediv_ff in *.
  set (n := Z.min (len x) (len y)) in *. set (o := overlap_sets x y) in *.
  destruct (f_is_zero (f_of_Z n)) eqn:Ez.
  { unfold ZeroDivisionError in Hc. rewrite (cmp_exc_false op _ t Hop) in Hc. discriminate. }
  assert (Hn0 : n <> 0%Z).
  { intros E. rewrite E in Ez. vm_compute in Ez. discriminate. }
  destruct Hx as [_ Bx]. destruct Hy as [_ By]. unfold size_bound in *.
  assert (Hn : (1 <= n < 2 ^ 20)%Z) by (unfold n in *; lia).
  assert (Hon : (o <= n)%Z) by (unfold n; lia).
  destruct (f_of_size o) as [Hfo Hvo]. { lia. }
  destruct (f_of_size n) as [Hfn Hvn]. { lia. }
  assert (N1 : 1 <= IZR n) by (apply IZR_le; lia).
  assert (N2 : 0 <= IZR o <= IZR n) by (split; apply IZR_le; lia).
  assert (Hq : 0 <= IZR o / IZR n <= 1) by (apply div_bounds; lra).
  exists (fdiv (f_of_Z o) (f_of_Z n)). split; [reflexivity|].
  apply fdiv_spec; try assumption.
  - rewrite Hvn. lra.
  - rewrite Hvo, Hvn. apply RN_no_overflow'. lra.
Qed.

(* every float-valued set measure *)
Corollary reported_fin m op t : set_measure m = true -> String.eqb m "OVERLAP" = false ->
  lower_op op -> cmp_op op (reported_score m x y) t = true ->
  exists g, reported_score m x y = PFloat g /\ fin g.
Proof.
  intros Hm Hno Hop Hc. destruct (set_measure_cases m Hm) as [E|[E|[E|[E|E]]]]; subst m;
    try discriminate Hno.
  - destruct (reported_fin_jcd "JACCARD" op t eq_refl Hop Hc) as (_ & _ & E & F). eauto.
  - destruct (reported_fin_jcd "COSINE" op t eq_refl Hop Hc) as (_ & _ & E & F). eauto.
  - destruct (reported_fin_jcd "DICE" op t eq_refl Hop Hc) as (_ & _ & E & F). eauto.
  - exact (reported_fin_ovc op t Hop Hc).
Qed.

(* rounding the reported score again gives the rounded raw score (J/C/D) *)
Theorem round_agrees_sets_jcd m op t : is_jcd m = true -> lower_op op ->
  cmp_op op (reported_score m x y) t = true ->
  score_same (round_score (reported_score m x y)) (round_score (raw_score m x y)) = true.
Proof.
  intros Hm Hop Hc. destruct (reported_fin_jcd m op t Hm Hop Hc) as (F1 & F2 & _ & _).
  unfold reported_score, raw_score, score4. rewrite Hm. unfold round_score. simpl.
  rewrite (round4_idem _ F1 F2). reflexivity.
Qed.
End OnSets.

(* ------------------------------------------------------------------ comparisons against finite
   float thresholds are monotone in the threshold *)
Lemma cmp_float_mono op f t1 t2 : fin f -> fin t1 -> fin t2 -> FR t1 <= FR t2 ->
  op = ">=" \/ op = ">" ->
  cmp_op op (PFloat f) (PFloat t2) = true -> cmp_op op (PFloat f) (PFloat t1) = true.
Proof.
  intros Ff F1 F2 Hle [->| ->] Hc.
  - apply (cmp_ge_ff f t1 Ff F1). apply (cmp_ge_ff f t2 Ff F2) in Hc. lra.
  - apply (cmp_gt_ff f t1 Ff F1). apply (cmp_gt_ff f t2 Ff F2) in Hc. lra.
Qed.

Print Assumptions sim_sizes_fin.
Print Assumptions reported_fin.
Print Assumptions round_agrees_sets_jcd.
