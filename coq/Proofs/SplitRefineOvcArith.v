(* Arithmetic companion of SplitRefineOvc.v: the hypothesis "float(n) is not 0.0 for the positive
   token counts n that occur" of overlap_coefficient_join_split_rows_refines holds for all token
   counts below 2^50.  Uses the binary64 specification (Num/F64Spec.v, Proofs/ArithCommon.v), so the
   standard-library axioms of Reals / Flocq come in here and ONLY here.                     *)
From Coq Require Import ZArith Bool List String Lia Reals Lra Permutation.
From SSJ Require Import F64 PyNum F64Spec ArithCommon HelperGen JoinGen Filters Joins
     JoinGenFacts JoinRefine SplitRefineOvc.
Import ListNotations.
Open Scope Z_scope.

Lemma f_of_Z_pos_nz n : 0 < n < 2^50 -> f_is_zero (f_of_Z n) = false.
Proof.
  intros Hn. destruct (f_of_size n) as [Hf Hv]; [lia|].
  apply fin_pos_nz; [exact Hf|]. rewrite Hv. apply (IZR_lt 0). lia.
Qed.

Lemma ovc_float_sizes (L R : list (list Z)) :
  (forall x, In x L \/ In x R -> len x < 2^50) ->
  forall x, In x L \/ In x R -> 0 < len x -> f_is_zero (f_of_Z (len x)) = false.
Proof. intros Hb x Hx Hpos. apply f_of_Z_pos_nz. split; [exact Hpos | apply Hb; exact Hx]. Qed.

(* the refinement theorem with the size bound in place of the float hypothesis *)
Theorem overlap_coefficient_join_split_rows_refines_bounded :
  forall (t : pyval) (op : string) (ae sc : bool) (lrows rrows : list (list pyval))
         (lcolumns rcolumns lkeya rkeya ljoina rjoina louta routa lpre rpre showp : pyval)
         (ki ji kj jj : nat) (li ri : list nat) (has : bool) (hdr : list pyval)
         (tokenize : pyval -> pyval) (tkL tkR : list pyval -> list Z) (cf : pyval -> pyval -> pyval),
    py_index lcolumns lkeya = ProjectionFacts.natpy ki ->
    py_index lcolumns ljoina = ProjectionFacts.natpy ji ->
    find_output_attribute_indices lcolumns louta = PList (map ProjectionFacts.natpy li) ->
    py_index rcolumns rkeya = ProjectionFacts.natpy kj ->
    py_index rcolumns rjoina = ProjectionFacts.natpy jj ->
    find_output_attribute_indices rcolumns routa = PList (map ProjectionFacts.natpy ri) ->
    py_or (py_is_not_none louta) (py_is_not_none routa) = PBool has ->
    (has = false -> li = [] /\ ri = []) ->
    get_output_header_from_tables lkeya rkeya louta routa lpre rpre = PList hdr ->
    (forall r, In r lrows -> cols_ok ki ji li r) ->
    (forall r, In r rrows -> cols_ok kj jj ri r) ->
    (forall r, In r lrows -> tokenize (nth ji r PNone) = IndexPyFacts.pints (tkL r)) ->
    (forall r, In r rrows -> tokenize (nth jj r PNone) = IndexPyFacts.pints (tkR r)) ->
    comp_op_map op = Some cf ->
    num_of t <> None ->
    (forall r, In r lrows -> len (tkL r) < 2^50) ->
    (forall r, In r rrows -> len (tkR r) < 2^50) ->
    exists (T : list triple) (rows : list (list pyval)),
      ovc_core t op ae (map tkL lrows) (map tkR rrows) = Some T /\
      overlap_coefficient_join_split_rows (PList (map PList lrows)) (PList (map PList rrows)) lcolumns rcolumns
        lkeya rkeya ljoina rjoina t (PStr op) (PBool ae) louta routa lpre rpre (PBool sc) showp tokenize
      = PTuple [PList (map PList rows); PList (hdr ++ if sc then [PStr "_sim_score"%string] else [])%list] /\
      Permutation rows (map (triple_row sc lrows rrows ki kj li ri) T) /\
      forall tr, In tr T -> (fst (fst tr) < List.length lrows)%nat /\ (snd (fst tr) < List.length rrows)%nat.
Proof.
  intros t op ae sc lrows rrows lcolumns rcolumns lkeya rkeya ljoina rjoina louta routa lpre rpre showp
         ki ji kj jj li ri has hdr tokenize tkL tkR cf
         Hlk Hlj Hlo Hrk Hrj Hro Hhas Hnohas Hhdr Hlrows Hrrows HtokL HtokR Hop Hnum HbL HbR.
  apply (overlap_coefficient_join_split_rows_refines t op ae sc lrows rrows lcolumns rcolumns lkeya rkeya
           ljoina rjoina louta routa lpre rpre showp ki ji kj jj li ri has hdr tokenize tkL tkR cf); try assumption.
  apply ovc_float_sizes. intros x [Hx|Hx]; apply in_map_iff in Hx; destruct Hx as (r & <- & Hr);
    [apply HbL | apply HbR]; exact Hr.
Qed.

Print Assumptions f_of_Z_pos_nz.
Print Assumptions overlap_coefficient_join_split_rows_refines_bounded.
