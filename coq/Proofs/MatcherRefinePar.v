(* The tail shared by the GENERATED apply_matcher_rows and filter_candset_rows (Gen/MatcherGen.v):

     if n_jobs <= 1:  output_table = CORE(candset, .., show_progress, ..)
     else:            candset_splits = split_table(candset, n_jobs)
                      results = [CORE(candset_splits[job_index], .., show_progress and job_index == n_jobs-1, ..)
                                 for job_index in range(n_jobs)]
                      output_table = pd.concat(results)
     return output_table

   as a function `par_block` of the per-chunk function CORE (the generated text is convertible with it), and
   its value: the frame whose rows are the concatenation of the per-chunk rows over the chunks
       [csrc]                         if k <= 1
       [slice_nat csrc ab | ab <- bs] otherwise, bs = the boundaries split_table_frame cuts at (a HYPOTHESIS
                                      here, so this file is axiom-free; MatcherRefineChunks discharges it).   *)
From Coq Require Import ZArith Bool List String Lia.
From SSJ Require Import F64 PyNum HelperGen Api IndexPyFacts Frame WrapperGen MatcherGen WrapperRefineFrame
     WrapperRefineCore MatcherRefineBase.
Import ListNotations.
Open Scope Z_scope.

(* candset_splits[job_index] *)
Lemma getitem_frames : forall (fs : list pyval) (j : nat), (j < List.length fs)%nat ->
  py_getitem (PList fs) (PInt (Z.of_nat j)) = nth j fs IndexError.
Proof.
intros fs j Hj. cbn [py_getitem strict2]. unfold norm_index.
assert (E1 : Z.of_nat j <? 0 = false) by (apply Z.ltb_ge; lia).
assert (E2 : Z.of_nat j <? Z.of_nat (List.length fs) = true) by (apply Z.ltb_lt; lia).
rewrite E1. cbv beta iota zeta. rewrite E1, E2, Nat2Z.id. reflexivity.
Qed.

Definition Unbound : pyval := PExc "UnboundLocalError".

Definition par_block (core : pyval -> pyval -> pyval) (cand showp : pyval) (k : pyval) : pyval :=
  bindx (py_le k (PInt 1)) (fun x_ => x_) (fun c_ =>
    let '(e_, (v_output_table, (v_candset_splits, v_results))) :=
      if py_truth c_ then
        bindx (core cand showp) (fun x_ => (x_, (Unbound, (Unbound, Unbound))))
              (fun v_output_table => (PNone, (v_output_table, (Unbound, Unbound))))
      else
        bindx (split_table_frame cand k) (fun x_ => (x_, (Unbound, (Unbound, Unbound)))) (fun v_candset_splits =>
        bindx (py_listcomp (fun v_job_index =>
                 core (py_getitem v_candset_splits v_job_index)
                      (py_and showp (py_eq v_job_index (py_sub k (PInt 1)))))
                 (py_range (PInt 0) k))
              (fun x_ => (x_, (Unbound, (v_candset_splits, Unbound)))) (fun v_results =>
        bindx (frame_concat v_results) (fun x_ => (x_, (Unbound, (v_candset_splits, v_results))))
              (fun v_output_table => (PNone, (v_output_table, (v_candset_splits, v_results)))))) in
    bindx e_ (fun e_ => e_) (fun _ => v_output_table)).

Section Par.
  Variables (core : pyval -> pyval -> pyval) (cc hdr : list string) (csrc : list (list pyval)).
  Variables (F : list (list pyval) -> list (list pyval)) (showp : pyval) (k : Z) (bs : list (nat * nat)).

  Definition par_chunks : list (list (list pyval)) :=
    if k <=? 1 then [csrc] else map (slice_nat csrc) bs.

  Hypothesis Hcore : forall ch sp, In ch par_chunks ->
    core (sframe cc ch) sp = sframe hdr (F ch) /\ shaped (List.length hdr) (F ch).
  Hypothesis Hsplit : 1 < k ->
    List.length bs = Z.to_nat k /\
    split_table_frame (sframe cc csrc) (PInt k) = PList (map (fun ab => sframe cc (slice_nat csrc ab)) bs).

  Theorem par_block_eq :
    par_block core (sframe cc csrc) showp (PInt k) = sframe hdr (List.concat (map F par_chunks)).
  Proof.
    unfold par_block. rewrite py_le_int. rewrite (IndexPyFacts.bindx_ok (PBool _)) by reflexivity.
    cbn [py_truth]. unfold par_chunks in *.
    destruct (k <=? 1) eqn:Ek.
    - destruct (Hcore csrc showp (or_introl eq_refl)) as [E _]. rewrite E.
      rewrite (IndexPyFacts.bindx_ok (sframe _ _)) by reflexivity. cbv beta iota.
      rewrite (IndexPyFacts.bindx_ok PNone) by reflexivity.
      cbn [map List.concat]. now rewrite app_nil_r.
    - apply Z.leb_gt in Ek. destruct (Hsplit Ek) as [Hbs Esp]. rewrite Esp.
      rewrite (IndexPyFacts.bindx_ok (PList _)) by reflexivity.
      set (n := List.length bs) in *.
      rewrite (py_listcomp_range _ k (fun j => sframe hdr (F (slice_nat csrc (nth j bs (0%nat, 0%nat)))))).
      + rewrite (IndexPyFacts.bindx_ok (PList _)) by reflexivity.
        rewrite <- Hbs. fold n.
        assert (Enth : map (fun j => sframe hdr (F (slice_nat csrc (nth j bs (0%nat, 0%nat))))) (seq 0 n)
                       = map (sframe hdr) (map F (map (slice_nat csrc) bs))).
        { rewrite !map_map. unfold n. clear. induction bs as [|x l IH] using rev_ind; [reflexivity|].
          rewrite app_length. cbn [List.length]. rewrite Nat.add_1_r, seq_S, !map_app. cbn [map plus].
          rewrite app_nth2 by lia. rewrite Nat.sub_diag. cbn [nth]. f_equal.
          rewrite <- IH. apply map_ext_in. intros j Hj. apply in_seq in Hj. rewrite app_nth1 by lia. reflexivity. }
        rewrite Enth. rewrite frame_concat_sframes.
        * rewrite (IndexPyFacts.bindx_ok (sframe _ _)) by reflexivity. cbv beta iota.
          rewrite (IndexPyFacts.bindx_ok PNone) by reflexivity. reflexivity.
        * intros Hnil. apply (f_equal (@List.length _)) in Hnil. rewrite !map_length in Hnil. fold n in Hnil.
          cbn [List.length] in Hnil. lia.
        * intros r Hr. apply in_map_iff in Hr. destruct Hr as (ch & <- & Hch). apply (Hcore ch showp Hch).
      + intros j Hj. cbv beta.
        rewrite (getitem_frames _ j) by (rewrite map_length; fold n; lia).
        rewrite (nth_indep _ IndexError (sframe cc (slice_nat csrc (0%nat, 0%nat)))) by (rewrite map_length; fold n; lia).
        rewrite (map_nth (fun ab => sframe cc (slice_nat csrc ab))).
        apply Hcore. apply in_map. apply nth_In. fold n. lia.
      + intros j Hj. reflexivity.
  Qed.
End Par.

Print Assumptions par_block_eq.
