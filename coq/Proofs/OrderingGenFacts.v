(* The GENERATED token-ordering code (Gen/TokenOrderingGen.v, from utils/token_ordering.py)
   computes exactly the ranks of the hand model Model/TokenOrdering.v.  Tokens are integers
   (`PInt w`).  Axiom-free (see Print Assumptions at the end).

   Main results
     gen_lists_freq_dict       (1) the counting loops build the frequency dictionary
     gen_ordering_lists_eq     (2) explicit result dict of gen_token_ordering_for_lists
     gen_ordering_lists_spec   (2) ... as a lookup specification (holds for ALL inputs, also
                                   without any token: the result is then the empty dict)
     gen_ordering_tables_eq / gen_ordering_tables_spec   (3) the same for tables
     order_using_token_ordering_spec                     (4)
     order_using_gen_lists / order_using_gen_tables      the corollaries other files use.   *)
From Coq Require Import ZArith Bool List String Lia Sorted Permutation.
From SSJ Require Import F64 PyNum TokenOrderingGen TokenOrdering Prefix PositionSafe OrderingFacts.
Import ListNotations.
Open Scope list_scope.
Open Scope Z_scope.

(* ---------- ints as Python values ---------- *)
Lemma pv_eqb_int a b : pv_eqb (PInt a) (PInt b) = (a =? b).
Proof. cbn. rewrite Z.eqb_compare. reflexivity. Qed.

Lemma pv_leb_int a b : pv_leb (PInt a) (PInt b) = (a <=? b).
Proof. reflexivity. Qed.

Lemma bindx_nexc (A : Type) v (f k : pyval -> A) : is_exc v = false -> bindx v f k = k v.
Proof. intros Hv. destruct v; try reflexivity. discriminate. Qed.

(* ---------- a `for` loop whose state is a function of the processed prefix ---------- *)
Lemma py_for_prefix (S B : Type) (f : B -> pyval) (R : list B -> S) (raised : S -> bool)
      fail body (l : list B) (s0 : S) :
  s0 = R [] ->
  (forall p, raised (R p) = false) ->
  (forall p x q, l = p ++ x :: q -> body (R p) (f x) = R (p ++ [x])) ->
  py_for (PList (map f l)) raised fail body s0 = R l.
Proof.
  intros Hs Hr Hb. subst s0. unfold py_for. cbn [py_iter].
  assert (G : forall q p, l = p ++ q ->
            fold_left (fun s x => if raised s then s else body s x) (map f q) (R p) = R l).
  { induction q as [|x q IH]; intros p Hl; cbn [map fold_left].
    - rewrite app_nil_r in Hl. subst p. reflexivity.
    - rewrite Hr, (Hb p x q Hl). apply IH. rewrite <- app_assoc. exact Hl. }
  apply (G l []). reflexivity.
Qed.

Lemma py_for_prefix0 (S : Type) (R : list pyval -> S) (raised : S -> bool)
      fail body (l : list pyval) (s0 : S) :
  s0 = R [] ->
  (forall p, raised (R p) = false) ->
  (forall p x q, l = p ++ x :: q -> body (R p) x = R (p ++ [x])) ->
  py_for (PList l) raised fail body s0 = R l.
Proof.
  intros Hs Hr Hb.
  pose proof (py_for_prefix S pyval (fun x => x) R raised fail body l s0 Hs Hr Hb) as H.
  rewrite map_id in H. exact H.
Qed.

(* ---------- membership helpers ---------- *)
Lemma memZ_In w l : memZ w l = true <-> In w l.
Proof. rewrite memZ_mem. apply mem_In. Qed.

Lemma memZ_false w l : memZ w l = false <-> ~ In w l.
Proof. rewrite <- memZ_In. destruct (memZ w l); split; congruence. Qed.

Lemma memZ_ext w a b : (In w a <-> In w b) -> memZ w a = memZ w b.
Proof. intros H. apply eq_true_iff_eq. rewrite !memZ_In. exact H. Qed.

Lemma memZ_cons w k l : memZ w (k :: l) = (w =? k) || memZ w l.
Proof. reflexivity. Qed.

Lemma memZ_app w a b : memZ w (a ++ b) = memZ w a || memZ w b.
Proof. unfold memZ. apply existsb_app. Qed.

(* ---------- dictionaries with integer keys and values ---------- *)
Definition ent (f : Z -> Z) (w : Z) : pyval := PTuple [PInt w; PInt (f w)].

Lemma dict_lookup_ent f ks w :
  dict_lookup (map (ent f) ks) (PInt w) = if memZ w ks then Some (PInt (f w)) else None.
Proof.
  induction ks as [|k ks IH]; [reflexivity|].
  cbn [map ent dict_lookup]. rewrite pv_eqb_int, memZ_cons, (Z.eqb_sym w k).
  destruct (Z.eqb_spec k w) as [->|Hne]; cbn [orb]; [reflexivity|exact IH].
Qed.

Lemma dict_store_ent f f' ks w :
  NoDup ks -> (forall x, x <> w -> f' x = f x) ->
  dict_store (map (ent f) ks) (PInt w) (PInt (f' w))
  = map (ent f') (if memZ w ks then ks else ks ++ [w]).
Proof.
  intros Hnd Hf. induction ks as [|k ks IH]; [reflexivity|].
  inversion Hnd as [|? ? Hk Hnd']; subst.
  cbn [map ent dict_store]. rewrite pv_eqb_int, memZ_cons, (Z.eqb_sym w k).
  destruct (Z.eqb_spec k w) as [->|Hne]; cbn [orb].
  - cbn [map]. unfold ent at 2. f_equal. apply map_ext_in. intros x Hx.
    unfold ent. rewrite Hf; [reflexivity|]. intros ->. contradiction.
  - fold (ent f k). rewrite (IH Hnd').
    destruct (memZ w ks); cbn [map app]; f_equal; unfold ent; rewrite (Hf k Hne); reflexivity.
Qed.

(* ---------- stable insertion sort by an integer key (the shape of PyNum.sort_by) ---------- *)
Section SortK.
  Context {A : Type} (kz : A -> Z).

  Fixpoint insK (x : A) (l : list A) : list A :=
    match l with
    | [] => [x]
    | y :: l' => if kz y <=? kz x then y :: insK x l' else x :: l
    end.
  Definition sortK (l : list A) : list A := fold_left (fun acc x => insK x acc) l [].

  Lemma insK_perm x l : Permutation (insK x l) (x :: l).
  Proof.
    induction l as [|h t IH]; cbn [insK]; [apply Permutation_refl|].
    destruct (kz h <=? kz x); [|apply Permutation_refl].
    eapply perm_trans; [apply perm_skip; exact IH|apply perm_swap].
  Qed.

  Lemma foldK_perm l : forall acc,
    Permutation (fold_left (fun acc x => insK x acc) l acc) (acc ++ l).
  Proof.
    induction l as [|x l IH]; intros acc; cbn [fold_left].
    - rewrite app_nil_r. apply Permutation_refl.
    - eapply perm_trans; [apply IH|].
      eapply perm_trans; [apply Permutation_app_tail; apply insK_perm|].
      change (Permutation ((x :: acc) ++ l) (acc ++ x :: l)). apply Permutation_middle.
  Qed.

  Lemma sortK_perm l : Permutation (sortK l) l.
  Proof. apply (foldK_perm l []). Qed.

  (* stability: a list already ordered by R ends up ordered by (key, R) lexicographically *)
  Variable R : A -> A -> Prop.
  Definition lexK (a b : A) : Prop := kz a < kz b \/ (kz a = kz b /\ R a b).

  Lemma insK_lex x acc :
    StronglySorted lexK acc -> (forall a, In a acc -> R a x) -> StronglySorted lexK (insK x acc).
  Proof.
    induction acc as [|y l IH]; intros Hs Hr; cbn [insK].
    - constructor; constructor.
    - inversion Hs as [|? ? Hsl Hall]; subst. rewrite Forall_forall in Hall.
      destruct (Z.leb_spec (kz y) (kz x)) as [Hle|Hgt].
      + constructor.
        * apply IH; [exact Hsl|]. intros a Ha. apply Hr. right; exact Ha.
        * rewrite Forall_forall. intros z Hz.
          apply (Permutation_in _ (insK_perm x l)) in Hz. destruct Hz as [<-|Hz].
          -- assert (Hyx : R y x) by (apply Hr; left; reflexivity).
             destruct (Z.eq_dec (kz y) (kz x)) as [E|E]; [right; split; assumption|left; lia].
          -- apply Hall. exact Hz.
      + constructor; [exact Hs|]. rewrite Forall_forall. intros z [<-|Hz].
        * left. lia.
        * left. destruct (Hall z Hz) as [H|[H _]]; lia.
  Qed.

  Lemma foldK_lex l : forall acc,
    StronglySorted lexK acc -> StronglySorted R l ->
    (forall a b, In a acc -> In b l -> R a b) ->
    StronglySorted lexK (fold_left (fun acc x => insK x acc) l acc).
  Proof.
    induction l as [|x l IH]; intros acc Hacc Hl Hr; cbn [fold_left]; [exact Hacc|].
    inversion Hl as [|? ? Hsl Hall]; subst. rewrite Forall_forall in Hall.
    apply IH.
    - apply insK_lex; [exact Hacc|]. intros a Ha. apply Hr; [exact Ha|left; reflexivity].
    - exact Hsl.
    - intros a b Ha Hb. apply (Permutation_in _ (insK_perm x acc)) in Ha.
      destruct Ha as [<-|Ha]; [apply Hall; exact Hb|]. apply Hr; [exact Ha|right; exact Hb].
  Qed.

  Lemma sortK_lex l : StronglySorted R l -> StronglySorted lexK (sortK l).
  Proof.
    intros Hl. apply foldK_lex; [constructor|exact Hl|]. intros a b [].
  Qed.
End SortK.

Lemma SS_impl (A : Type) (R R' : A -> A -> Prop) l :
  (forall a b, R a b -> R' a b) -> StronglySorted R l -> StronglySorted R' l.
Proof.
  intros H. induction 1 as [|a l Hs IH Hall]; constructor; [exact IH|].
  eapply Forall_impl; [|exact Hall]. intros b. apply H.
Qed.

Lemma SS_map (A B : Type) (g : A -> B) (R : B -> B -> Prop) l :
  StronglySorted (fun a b => R (g a) (g b)) l -> StronglySorted R (map g l).
Proof.
  induction 1 as [|a l Hs IH Hall]; cbn [map]; constructor; [exact IH|].
  rewrite Forall_forall in *. intros b Hb. apply in_map_iff in Hb.
  destruct Hb as [x [<- Hx]]. apply Hall. exact Hx.
Qed.

Lemma NoDup_SS_neq (l : list Z) : NoDup l -> StronglySorted (fun a b => a <> b) l.
Proof.
  induction 1 as [|a l Hn Hnd IH]; constructor; [exact IH|].
  rewrite Forall_forall. intros b Hb ->. contradiction.
Qed.

Lemma SS_all_true (A : Type) (l : list A) : StronglySorted (fun _ _ => True) l.
Proof. induction l; constructor; [assumption|]. rewrite Forall_forall. intros; exact I. Qed.

Lemma SS_split (A : Type) (R : A -> A -> Prop) p x q :
  StronglySorted R (p ++ x :: q) ->
  (forall a, In a p -> R a x) /\ (forall b, In b q -> R x b).
Proof.
  induction p as [|h p IH]; cbn [app]; intros Hs;
    inversion Hs as [|? ? Hsl Hall]; subst; rewrite Forall_forall in Hall.
  - split; [intros a []|exact Hall].
  - destruct (IH Hsl) as [H1 H2]. split; [|exact H2].
    intros a [<-|Ha]; [|apply H1; exact Ha]. apply Hall. apply in_or_app. right. left. reflexivity.
Qed.

(* sorted permutations of integer lists are unique; hence sortK id = the model's sortZ *)
Lemma SS_le_perm_eq : forall l l',
  StronglySorted Z.le l -> StronglySorted Z.le l' -> Permutation l l' -> l = l'.
Proof.
  induction l as [|a l IH]; intros l' Hs Hs' Hp.
  - apply Permutation_nil in Hp. symmetry; exact Hp.
  - destruct l' as [|b l']; [apply Permutation_sym, Permutation_nil in Hp; discriminate|].
    inversion Hs as [|? ? Hsl Hall]; subst. inversion Hs' as [|? ? Hsl' Hall']; subst.
    rewrite Forall_forall in Hall, Hall'.
    assert (a = b).
    { assert (Ha : In a (b :: l')) by (apply (Permutation_in _ Hp); left; reflexivity).
      assert (Hb : In b (a :: l))
        by (apply (Permutation_in _ (Permutation_sym Hp)); left; reflexivity).
      destruct Ha as [E|Ha]; [congruence|]. destruct Hb as [E|Hb]; [congruence|].
      specialize (Hall _ Hb). specialize (Hall' _ Ha). lia. }
    subst b. f_equal. apply IH; [exact Hsl|exact Hsl'|].
    eapply Permutation_cons_inv. exact Hp.
Qed.

Lemma sortK_id_sortZ l : sortK (fun x => x) l = sortZ l.
Proof.
  apply SS_le_perm_eq.
  - eapply SS_impl; [|apply (sortK_lex (fun x => x) (fun _ _ => True)); apply SS_all_true].
    intros a b. unfold lexK. lia.
  - apply Sorted_StronglySorted; [intros a b c; lia|]. apply sortZ_sorted.
  - eapply perm_trans; [apply sortK_perm|]. apply Permutation_sym. apply sortZ_perm.
Qed.

(* ---------- PyNum.sort_by / py_sorted_by on embedded values with integer keys ---------- *)
Section SortBridge.
  Context {A : Type} (emb : A -> pyval) (key : pyval -> pyval) (kz : A -> Z).
  Hypothesis Hkey : forall a, key (emb a) = PInt (kz a).

  Lemma ins_by_map x l : ins_by key (emb x) (map emb l) = map emb (insK kz x l).
  Proof.
    induction l as [|y l IH]; [reflexivity|].
    cbn [map ins_by insK]. rewrite !Hkey, pv_leb_int.
    destruct (kz y <=? kz x); cbn [map]; [rewrite IH|]; reflexivity.
  Qed.

  Lemma sort_by_map l : sort_by key (map emb l) = map emb (sortK kz l).
  Proof.
    unfold sort_by, sortK. change (@nil pyval) with (map emb []). generalize (@nil A).
    induction l as [|x l IH]; intros acc; cbn [map fold_left]; [reflexivity|].
    rewrite ins_by_map. apply IH.
  Qed.

  Lemma py_sorted_by_map l : py_sorted_by key (PList (map emb l)) = PList (map emb (sortK kz l)).
  Proof.
    unfold py_sorted_by. cbn [strict1].
    assert (Hk : map key (map emb l) = map (fun a => PInt (kz a)) l).
    { rewrite map_map. apply map_ext. exact Hkey. }
    rewrite Hk.
    assert (Hf : find is_exc (map (fun a => PInt (kz a)) l) = None).
    { induction l as [|a t IH]; [reflexivity|]. cbn [map find is_exc]. apply IH.
      rewrite map_map. apply map_ext. exact Hkey. }
    rewrite Hf.
    assert (Ho : all_orderable (map (fun a => PInt (kz a)) l) = true).
    { destruct l as [|a t]; [reflexivity|]. cbn [map all_orderable orderable_kind].
      cbn [Z.eqb negb andb forallb orderable_kind].
      clear. induction t as [|b t IH]; [reflexivity|]. cbn [map forallb orderable_kind Z.eqb andb].
      exact IH. }
    rewrite Ho. rewrite sort_by_map. reflexivity.
  Qed.
End SortBridge.

(* unconditional: PyNum.sort_by is a permutation for any key function *)
Lemma ins_by_perm key x l : Permutation (ins_by key x l) (x :: l).
Proof.
  induction l as [|h t IH]; cbn [ins_by]; [apply Permutation_refl|].
  destruct (pv_leb (key h) (key x)); [|apply Permutation_refl].
  eapply perm_trans; [apply perm_skip; exact IH|apply perm_swap].
Qed.

Lemma sort_by_perm key l : Permutation (sort_by key l) l.
Proof.
  unfold sort_by. change l with ([] ++ l) at 2. generalize (@nil pyval).
  induction l as [|x l IH]; intros acc; cbn [fold_left].
  - rewrite app_nil_r. apply Permutation_refl.
  - eapply perm_trans; [apply IH|].
    eapply perm_trans; [apply Permutation_app_tail; apply ins_by_perm|].
    change (Permutation ((x :: acc) ++ l) (acc ++ x :: l)). apply Permutation_middle.
Qed.

(* ---------- (1) the frequency dictionary ---------- *)
Lemma countZ_app w a b : countZ w (a ++ b) = countZ w a + countZ w b.
Proof. induction a as [|h a IH]; cbn [app countZ]; [reflexivity|]. rewrite IH. lia. Qed.

Lemma countZ_notin w l : memZ w l = false -> countZ w l = 0.
Proof.
  induction l as [|h l IH]; [reflexivity|]. rewrite memZ_cons. intros H.
  apply orb_false_iff in H as [H1 H2]. cbn [countZ]. rewrite H1, (IH H2). reflexivity.
Qed.

Lemma dedup_snoc l w : dedup (l ++ [w]) = if memZ w l then dedup l else dedup l ++ [w].
Proof.
  induction l as [|h l IH]; [reflexivity|].
  cbn [app dedup]. rewrite IH, memZ_cons.
  destruct (Z.eqb_spec w h) as [->|Hne]; cbn [orb].
  - destruct (memZ h l); [reflexivity|].
    rewrite filter_app. cbn [filter]. rewrite Z.eqb_refl. cbn [negb]. rewrite app_nil_r. reflexivity.
  - destruct (memZ w l); [reflexivity|].
    rewrite filter_app. cbn [filter]. destruct (Z.eqb_spec w h); [contradiction|]. reflexivity.
Qed.

Lemma memZ_dedup w l : memZ w (dedup l) = memZ w l.
Proof. apply memZ_ext. apply dedup_In. Qed.

(* token -> number of occurrences, distinct tokens in first-occurrence order *)
Definition fdict (seen : list Z) : list pyval := map (ent (fun w => countZ w seen)) (dedup seen).

Lemma freq_step seen w :
  py_setitem (PDict (fdict seen)) (PInt w)
             (py_add (py_dict_get3 (PDict (fdict seen)) (PInt w) (PInt 0)) (PInt 1))
  = PDict (fdict (seen ++ [w])).
Proof.
  assert (Hget : py_dict_get3 (PDict (fdict seen)) (PInt w) (PInt 0) = PInt (countZ w seen)).
  { unfold py_dict_get3, fdict. cbn [strict2]. rewrite dict_lookup_ent, memZ_dedup.
    destruct (memZ w seen) eqn:Hm; [reflexivity|]. rewrite (countZ_notin _ _ Hm). reflexivity. }
  rewrite Hget.
  change (py_add (PInt (countZ w seen)) (PInt 1)) with (PInt (countZ w seen + 1)).
  cbn [py_setitem]. f_equal. unfold fdict.
  replace (countZ w seen + 1) with ((fun x => countZ x (seen ++ [w])) w)
    by (cbv beta; rewrite countZ_app; cbn [countZ]; rewrite Z.eqb_refl; lia).
  rewrite (dict_store_ent (fun x => countZ x seen) (fun x => countZ x (seen ++ [w]))).
  - rewrite memZ_dedup, dedup_snoc. reflexivity.
  - apply dedup_NoDup.
  - intros x Hx. rewrite countZ_app. cbn [countZ].
    destruct (Z.eqb_spec x w); [contradiction|]. lia.
Qed.

Definition unbound : pyval := PExc "UnboundLocalError".
(* the value of `order_idx` after the counting loops of gen_token_ordering_for_lists *)
Definition oidx (seen : list Z) : pyval := match seen with [] => unbound | _ => PInt 1 end.

Lemma oidx_snoc seen w : oidx (seen ++ [w]) = PInt 1.
Proof. destruct seen; reflexivity. Qed.

Definition enc_lists (lists : list (list Z)) : pyval :=
  PList (map (fun l => PList (map PInt l)) lists).

Lemma concat_snoc (A : Type) (p : list (list A)) x : List.concat (p ++ [x]) = List.concat p ++ x.
Proof. rewrite concat_app. cbn [List.concat]. rewrite app_nil_r. reflexivity. Qed.

(* ---------- the common tail: two stable sorts and the enumeration loop ---------- *)
(* a verbatim copy of the tail shared by both generated functions; the equalities
   `lists_count_phase` / `tables_count_phase` below are closed by conversion, so this copy is
   checked against the generated text by Coq *)
Definition rank_phase (v_token_freq_dict v_order_idx : pyval) : pyval :=
 (bindx (py_sorted_item 0 (py_list (py_items v_token_freq_dict))) (fun x_ => x_) (fun v_ordered_tokens =>
 (let v_token_ordering := (PDict []) in
 (let '(e_, (v_token_ordering, v_order_idx)) := py_for (py_sorted_item 1 v_ordered_tokens) (fun s_ => is_exc (fst s_)) (fun x_ => (x_, (v_token_ordering, v_order_idx)))
  (fun s_ x_it => let '(_, (v_token_ordering, v_order_idx)) := s_ in (bindx x_it (fun x_ => (x_, (v_token_ordering, v_order_idx))) (fun v_token_freq_tuple =>
 (bindx (py_setitem v_token_ordering (py_getitem v_token_freq_tuple (PInt 0)) v_order_idx) (fun x_ => (x_, (v_token_ordering, v_order_idx))) (fun v_token_ordering =>
 (bindx (py_add v_order_idx (PInt 1)) (fun x_ => (x_, (v_token_ordering, v_order_idx))) (fun v_order_idx =>
 (PNone, (v_token_ordering, v_order_idx))))))))) (PNone, (v_token_ordering, v_order_idx)) in
 bindx e_ (fun e_ => e_) (fun _ => v_token_ordering))))).

Lemma lists_count_phase lists :
  gen_token_ordering_for_lists (enc_lists lists)
  = rank_phase (PDict (fdict (List.concat lists))) (oidx (List.concat lists)).
Proof.
  unfold gen_token_ordering_for_lists, enc_lists.
  rewrite (py_for_prefix _ _ (fun l => PList (map PInt l))
             (fun p => (PNone, (unbound, (PDict (fdict (List.concat p)), oidx (List.concat p)))))
             _ _ _ lists).
  - reflexivity.
  - reflexivity.
  - reflexivity.
  - intros p l q _. cbv beta iota. cbn [bindx].
    rewrite (py_for_prefix _ _ PInt
               (fun t => (PNone, (PDict (fdict (List.concat p ++ t)), oidx (List.concat p ++ t))))
               _ _ _ l).
    + cbv beta iota. cbn [bindx]. rewrite concat_snoc. reflexivity.
    + rewrite app_nil_r. reflexivity.
    + reflexivity.
    + intros t w r _. cbv beta iota. cbn [bindx]. rewrite freq_step. cbn [bindx]. cbv zeta.
      rewrite !app_assoc, oidx_snoc. reflexivity.
Qed.

(* (1) as a statement about the dictionary alone *)
Theorem gen_lists_freq_dict : forall lists,
  let all := List.concat lists in
  gen_token_ordering_for_lists (enc_lists lists)
  = rank_phase (PDict (map (fun w => PTuple [PInt w; PInt (countZ w all)]) (dedup all))) (oidx all).
Proof. intros lists all. apply lists_count_phase. Qed.

(* the distinct tokens sorted by token, then (stably) by frequency *)
Definition ksort (all : list Z) : list Z :=
  sortK (fun w => countZ w all) (sortK (fun w => w) (dedup all)).

Lemma ksort_perm all : Permutation (ksort all) (dedup all).
Proof. unfold ksort. eapply perm_trans; apply sortK_perm. Qed.

Lemma ksort_sorted all : StronglySorted (fun a b => key_lt all a b = true) (ksort all).
Proof.
  unfold ksort.
  eapply SS_impl; [|apply (sortK_lex (fun w => countZ w all) Z.lt)].
  - intros a b H. apply key_lt_spec. exact H.
  - eapply SS_impl; [|apply (sortK_lex (fun w => w) (fun a b => a <> b))].
    + intros a b. unfold lexK. lia.
    + apply NoDup_SS_neq. apply dedup_NoDup.
Qed.

Lemma ksort_NoDup all : NoDup (ksort all).
Proof. apply (Permutation_NoDup (Permutation_sym (ksort_perm all))). apply dedup_NoDup. Qed.

Lemma ksort_In all w : In w (ksort all) <-> In w all.
Proof.
  split; intros H.
  - apply dedup_In. apply (Permutation_in _ (ksort_perm all)). exact H.
  - apply (Permutation_in _ (Permutation_sym (ksort_perm all))). apply dedup_In. exact H.
Qed.

Lemma NoDup_app_l (a b : list Z) : NoDup (a ++ b) -> NoDup a.
Proof.
  induction a as [|h a IH]; cbn [app]; intros H; [constructor|].
  inversion H as [|? ? Hn Hnd]; subst. constructor; [|apply IH; exact Hnd].
  intro Hin. apply Hn. apply in_or_app. left; exact Hin.
Qed.

Lemma filter_none (f : Z -> bool) l : (forall x, In x l -> f x = false) -> filter f l = [].
Proof.
  induction l as [|h t IH]; intros H; cbn [filter]; [reflexivity|].
  rewrite (H h (or_introl eq_refl)). apply IH. intros x Hx. apply H. right; exact Hx.
Qed.

(* the rank of a token is its 1-based position in ksort *)
Lemma rank_ksort_pos all p w q :
  ksort all = p ++ w :: q -> rank all w = 1 + Z.of_nat (List.length p).
Proof.
  intros Hk. unfold rank.
  rewrite <- (perm_filter_len _ _ _ (ksort_perm all)), Hk.
  pose proof (ksort_sorted all) as Hs. rewrite Hk in Hs. apply SS_split in Hs as [Hp Hq].
  rewrite filter_app, app_length.
  rewrite (filter_all _ p) by exact Hp.
  rewrite (filter_none _ (w :: q)); [cbn [List.length]; lia|].
  intros x [<-|Hx]; [apply key_lt_irrefl|].
  destruct (key_lt all x w) eqn:E; [|reflexivity].
  pose proof (key_lt_trans all w x w (Hq x Hx) E) as Hc. rewrite key_lt_irrefl in Hc. discriminate.
Qed.

Definition ordering_dict (all : list Z) : list pyval := map (ent (rank all)) (ksort all).

Lemma rank_phase_spec all oi :
  (all <> [] -> oi = PInt 1) ->
  rank_phase (PDict (fdict all)) oi = PDict (ordering_dict all).
Proof.
  intros Hoi. unfold rank_phase, fdict, ordering_dict.
  cbn [py_items py_list strict1]. unfold py_sorted_item.
  rewrite (py_sorted_by_map _ _ (fun w => w)) by reflexivity.
  cbn [bindx].
  rewrite (py_sorted_by_map _ _ (fun w => countZ w all)) by reflexivity.
  fold (ksort all). cbv zeta.
  destruct all as [|a0 all'] eqn:Eall; [reflexivity|]. rewrite <- Eall in *.
  rewrite Hoi by (rewrite Eall; discriminate).
  rewrite (py_for_prefix _ _ (ent (fun w => countZ w all))
             (fun p => (PNone, (PDict (map (ent (rank all)) p), PInt (1 + Z.of_nat (List.length p)))))
             _ _ _ (ksort all)).
  - reflexivity.
  - reflexivity.
  - reflexivity.
  - intros p w q Hk. cbv beta iota.
    change (bindx (ent (fun w0 => countZ w0 all) w)) with
        (fun (f k : pyval -> (pyval * (pyval * pyval))) => k (ent (fun w0 => countZ w0 all) w)).
    cbv beta.
    change (py_getitem (ent (fun w0 => countZ w0 all) w) (PInt 0)) with (PInt w).
    cbn [py_setitem bindx].
    pose proof (rank_ksort_pos all p w q Hk) as Hr. rewrite <- Hr.
    pose proof (ksort_NoDup all) as Hnd. rewrite Hk in Hnd.
    rewrite (dict_store_ent (rank all) (rank all)).
    + assert (Hm : memZ w p = false).
      { apply memZ_false. intro Hin. apply NoDup_remove_2 in Hnd. apply Hnd.
        apply in_or_app. left; exact Hin. }
      rewrite Hm. cbn [bindx]. rewrite Hr.
      change (py_add (PInt (1 + Z.of_nat (List.length p))) (PInt 1))
        with (PInt (1 + Z.of_nat (List.length p) + 1)).
      cbn [bindx]. rewrite app_length. cbn [List.length].
      do 3 f_equal. lia.
    + apply NoDup_app_l in Hnd. exact Hnd.
    + reflexivity.
Qed.

(* ---------- (2) gen_token_ordering_for_lists ---------- *)
Theorem gen_ordering_lists_eq : forall lists,
  gen_token_ordering_for_lists (enc_lists lists) = PDict (ordering_dict (List.concat lists)).
Proof.
  intros lists. rewrite lists_count_phase. apply rank_phase_spec.
  intros Hne. destruct (List.concat lists); [contradiction|reflexivity].
Qed.

Lemma ordering_dict_lookup all w :
  dict_lookup (ordering_dict all) (PInt w) = if memZ w all then Some (PInt (rank all w)) else None.
Proof.
  unfold ordering_dict. rewrite dict_lookup_ent.
  rewrite (memZ_ext w (ksort all) all (ksort_In all w)). reflexivity.
Qed.

Theorem gen_ordering_lists_spec : forall lists, let all := List.concat lists in
  exists d, gen_token_ordering_for_lists (PList (map (fun l => PList (map PInt l)) lists)) = PDict d /\
            forall w, dict_lookup d (PInt w) = if memZ w all then Some (PInt (rank all w)) else None.
Proof.
  intros lists all. exists (ordering_dict all). split.
  - apply gen_ordering_lists_eq.
  - apply ordering_dict_lookup.
Qed.

(* the honest empty case: `order_idx` is unbound but never read; the result is {} *)
Corollary gen_ordering_lists_no_tokens : forall lists,
  List.concat lists = [] -> gen_token_ordering_for_lists (enc_lists lists) = PDict [].
Proof. intros lists H. rewrite gen_ordering_lists_eq, H. reflexivity. Qed.

(* the result dict has the entries of the model's ordering_assoc (in sorted instead of
   first-occurrence order) *)
Lemma ordering_dict_assoc all :
  Permutation (ordering_dict all)
              (map (fun p => PTuple [PInt (fst p); PInt (snd p)]) (ordering_assoc all)).
Proof.
  unfold ordering_dict, ordering_assoc. rewrite map_map. cbn [fst snd].
  apply (Permutation_map (ent (rank all))). apply ksort_perm.
Qed.

(* ---------- (4) order_using_token_ordering ---------- *)
Definition ranks_of (all p : list Z) : list Z := map (rank all) (filter (fun w => memZ w all) p).
(* the last value of the local `order` (irrelevant for the result) *)
Definition last_order (all p : list Z) : pyval :=
  match rev p with
  | [] => unbound
  | w :: _ => if memZ w all then PInt (rank all w) else PNone
  end.

Theorem order_using_token_ordering_spec : forall all d toks,
  (forall w, dict_lookup d (PInt w) = if memZ w all then Some (PInt (rank all w)) else None) ->
  order_using_token_ordering (PList (map PInt toks)) (PDict d) = PList (map PInt (order all toks)).
Proof.
  intros all d toks Hd. unfold order_using_token_ordering. cbv zeta.
  rewrite (py_for_prefix _ _ PInt
             (fun p => (PNone, (last_order all p, PList (map PInt (ranks_of all p)))))
             _ _ _ toks).
  - cbv beta iota. cbn [bindx]. unfold py_sort.
    rewrite (py_sorted_by_map PInt (fun x => x) (fun x => x)) by reflexivity.
    cbn [bindx]. rewrite sortK_id_sortZ. reflexivity.
  - reflexivity.
  - reflexivity.
  - intros p w q _. cbv beta iota. cbn [bindx].
    unfold py_dict_get2, py_dict_get3. cbn [strict2]. rewrite Hd.
    unfold last_order, ranks_of. rewrite rev_unit, filter_app, map_app. cbn [filter].
    destruct (memZ w all); cbn [bindx py_is_not_none strict1 py_truth py_append strict2 map].
    + rewrite map_app. reflexivity.
    + rewrite !app_nil_r. reflexivity.
Qed.

Corollary order_using_gen_lists : forall lists toks,
  order_using_token_ordering (PList (map PInt toks))
    (gen_token_ordering_for_lists (PList (map (fun l => PList (map PInt l)) lists)))
  = PList (map PInt (order (List.concat lists) toks)).
Proof.
  intros lists toks. fold (enc_lists lists). rewrite gen_ordering_lists_eq.
  apply order_using_token_ordering_spec. apply ordering_dict_lookup.
Qed.

(* ---------- (3) gen_token_ordering_for_tables ---------- *)
(* tk i row = the tokens of row[attr_list[i]] for a row of the i-th table *)
Fixpoint tab_tokens (tk : nat -> pyval -> list Z) (i : nat) (tables : list (list pyval)) : list Z :=
  match tables with
  | [] => []
  | t :: ts => List.concat (map (tk i) t) ++ tab_tokens tk (S i) ts
  end.

Lemma tab_tokens_app tk p : forall i q,
  tab_tokens tk i (p ++ q) = tab_tokens tk i p ++ tab_tokens tk (i + List.length p) q.
Proof.
  induction p as [|t p IH]; intros i q; cbn [app tab_tokens List.length].
  - rewrite Nat.add_0_r. reflexivity.
  - rewrite IH, <- app_assoc. replace (S i + List.length p)%nat with (i + S (List.length p))%nat by lia.
    reflexivity.
Qed.

Definition enc_tables (tables : list (list pyval)) : pyval := PList (map PList tables).

(* the hypothesis on the tokenizer: on every cell the loops look at it returns a list of ints *)
Definition tokenizes (tables : list (list pyval)) (attr_list : pyval) (tokenize : pyval -> pyval)
           (tk : nat -> pyval -> list Z) : Prop :=
  forall i t row, nth_error tables i = Some t -> In row t ->
    is_exc row = false /\
    tokenize (py_getitem row (py_getitem attr_list (PInt (Z.of_nat i)))) = PList (map PInt (tk i row)).

Lemma tables_count_phase tables attr_list smt tokenize tk :
  tokenizes tables attr_list tokenize tk ->
  gen_token_ordering_for_tables (enc_tables tables) attr_list smt tokenize
  = rank_phase (PDict (fdict (tab_tokens tk 0 tables))) (PInt 1).
Proof.
  intros Htk. unfold gen_token_ordering_for_tables, enc_tables. cbv zeta.
  rewrite (py_for_prefix _ _ PList
             (fun p => (PNone, (unbound, (unbound, (PDict (fdict (tab_tokens tk 0 p)),
                                                   PInt (Z.of_nat (List.length p)))))))
             _ _ _ tables).
  - reflexivity.
  - reflexivity.
  - reflexivity.
  - intros p t q Hl. cbv beta iota. cbn [bindx].
    assert (Hnth : nth_error tables (List.length p) = Some t).
    { rewrite Hl, nth_error_app2 by lia. rewrite Nat.sub_diag. reflexivity. }
    rewrite (py_for_prefix0 _
               (fun rp => (PNone, (unbound, PDict (fdict (tab_tokens tk 0 p ++
                                      List.concat (map (tk (List.length p)) rp))))))
               _ _ _ t).
    + cbv beta iota. cbn [bindx].
      change (py_add (PInt (Z.of_nat (List.length p))) (PInt 1))
        with (PInt (Z.of_nat (List.length p) + 1)).
      cbn [bindx]. rewrite tab_tokens_app. cbn [tab_tokens]. rewrite !app_nil_r.
      rewrite app_length. cbn [List.length plus]. do 5 f_equal. lia.
    + cbn [map List.concat]. rewrite app_nil_r. reflexivity.
    + reflexivity.
    + intros rp row rq Ht. cbv beta iota.
      assert (Hin : In row t) by (rewrite Ht; apply in_or_app; right; left; reflexivity).
      destruct (Htk _ _ _ Hnth Hin) as [Hrow Htok].
      rewrite (bindx_nexc _ row) by exact Hrow. rewrite Htok.
      rewrite (py_for_prefix _ _ PInt
                 (fun ws => (PNone, PDict (fdict ((tab_tokens tk 0 p ++
                                List.concat (map (tk (List.length p)) rp)) ++ ws))))
                 _ _ _ (tk (List.length p) row)).
      * cbv beta iota. cbn [bindx]. rewrite map_app, concat_app. cbn [map List.concat].
        rewrite !app_nil_r, !app_assoc. reflexivity.
      * rewrite app_nil_r. reflexivity.
      * reflexivity.
      * intros ws w wq _. cbv beta iota. cbn [bindx]. rewrite freq_step. cbn [bindx].
        rewrite !app_assoc. reflexivity.
Qed.

Theorem gen_ordering_tables_eq : forall tables attr_list smt tokenize tk,
  tokenizes tables attr_list tokenize tk ->
  gen_token_ordering_for_tables (enc_tables tables) attr_list smt tokenize
  = PDict (ordering_dict (tab_tokens tk 0 tables)).
Proof.
  intros tables attr_list smt tokenize tk Htk.
  rewrite (tables_count_phase _ _ _ _ tk Htk). apply rank_phase_spec. reflexivity.
Qed.

Theorem gen_ordering_tables_spec : forall tables attr_list smt tokenize tk,
  tokenizes tables attr_list tokenize tk ->
  let all := tab_tokens tk 0 tables in
  exists d, gen_token_ordering_for_tables (PList (map PList tables)) attr_list smt tokenize = PDict d /\
            forall w, dict_lookup d (PInt w) = if memZ w all then Some (PInt (rank all w)) else None.
Proof.
  intros tables attr_list smt tokenize tk Htk all. exists (ordering_dict all). split.
  - apply gen_ordering_tables_eq. exact Htk.
  - apply ordering_dict_lookup.
Qed.

Corollary order_using_gen_tables : forall tables attr_list smt tokenize tk toks,
  tokenizes tables attr_list tokenize tk ->
  order_using_token_ordering (PList (map PInt toks))
    (gen_token_ordering_for_tables (PList (map PList tables)) attr_list smt tokenize)
  = PList (map PInt (order (tab_tokens tk 0 tables) toks)).
Proof.
  intros tables attr_list smt tokenize tk toks Htk. fold (enc_tables tables).
  rewrite (gen_ordering_tables_eq _ _ _ _ tk Htk).
  apply order_using_token_ordering_spec. apply ordering_dict_lookup.
Qed.

(* a convenient way to establish `tokenizes`: no row is a raised exception and the tokenizer
   returns int lists on the cells row[attr_list[i]] *)
Lemma tokenizes_intro tables attr_list tokenize (tokens_of : pyval -> list Z) :
  (forall t row, In t tables -> In row t -> is_exc row = false) ->
  (forall i t row, nth_error tables i = Some t -> In row t ->
     let c := py_getitem row (py_getitem attr_list (PInt (Z.of_nat i))) in
     tokenize c = PList (map PInt (tokens_of c))) ->
  tokenizes tables attr_list tokenize
            (fun i row => tokens_of (py_getitem row (py_getitem attr_list (PInt (Z.of_nat i))))).
Proof.
  intros Hrow Htok i t row Hn Hin. split.
  - apply (Hrow t row); [eapply nth_error_In; exact Hn|exact Hin].
  - apply (Htok i t row Hn Hin).
Qed.

(* ---------- examples ---------- *)
Definition ex_lists : list (list Z) := [[5;3;5];[7;3;5];[];[9;1]].

Example ex_gen_lists :
  gen_token_ordering_for_lists (enc_lists ex_lists)
  = PDict [PTuple [PInt 1; PInt 1]; PTuple [PInt 7; PInt 2]; PTuple [PInt 9; PInt 3];
           PTuple [PInt 3; PInt 4]; PTuple [PInt 5; PInt 5]].
Proof. vm_compute. reflexivity. Qed.

Example ex_model_lists :
  ordering_dict (List.concat ex_lists)
  = [PTuple [PInt 1; PInt 1]; PTuple [PInt 7; PInt 2]; PTuple [PInt 9; PInt 3];
     PTuple [PInt 3; PInt 4]; PTuple [PInt 5; PInt 5]].
Proof. vm_compute. reflexivity. Qed.

Example ex_fdict :
  fdict (List.concat ex_lists)
  = [PTuple [PInt 5; PInt 3]; PTuple [PInt 3; PInt 2]; PTuple [PInt 7; PInt 1];
     PTuple [PInt 9; PInt 1]; PTuple [PInt 1; PInt 1]].
Proof. vm_compute. reflexivity. Qed.

Example ex_gen_lists_empty :
  gen_token_ordering_for_lists (enc_lists [[]; []]) = PDict [] /\
  gen_token_ordering_for_lists (enc_lists []) = PDict [].
Proof. split; vm_compute; reflexivity. Qed.

Example ex_order :
  order_using_token_ordering (PList (map PInt [9;5;4;3;5]))
                             (gen_token_ordering_for_lists (enc_lists ex_lists))
  = PList (map PInt [3;4;5;5]) /\ order (List.concat ex_lists) [9;5;4;3;5] = [3;4;5;5].
Proof. split; vm_compute; reflexivity. Qed.

Definition ex_tok (v : pyval) : pyval :=
  match v with PInt z => PList [PInt z; PInt (z + 1)] | _ => PExc "TypeError" end.
Definition ex_tok_of (v : pyval) : list Z := match v with PInt z => [z; z + 1] | _ => [] end.
Definition ex_tables : list (list pyval) :=
  [[PTuple [PInt 1; PInt 2]; PList [PInt 2; PInt 5]]; [PTuple [PInt 1; PInt 2]]].
Definition ex_attrs : pyval := PList [PInt 0; PInt 1].

Example ex_gen_tables :
  gen_token_ordering_for_tables (enc_tables ex_tables) ex_attrs (PStr "OVERLAP") ex_tok
  = PDict [PTuple [PInt 1; PInt 1]; PTuple [PInt 3; PInt 2]; PTuple [PInt 2; PInt 3]].
Proof. vm_compute. reflexivity. Qed.

(* the hypothesis of the tables theorems is satisfiable: the same instance through the theorem *)
Example ex_gen_tables_thm :
  gen_token_ordering_for_tables (enc_tables ex_tables) ex_attrs (PStr "OVERLAP") ex_tok
  = PDict (ordering_dict [1; 2; 2; 3; 2; 3]).
Proof.
  rewrite (gen_ordering_tables_eq ex_tables ex_attrs (PStr "OVERLAP") ex_tok
             (fun i row => ex_tok_of (py_getitem row (py_getitem ex_attrs (PInt (Z.of_nat i)))))).
  - reflexivity.
  - apply tokenizes_intro.
    + intros t row Ht Hr. cbn in Ht.
      destruct Ht as [<-|[<-|[]]]; cbn in Hr;
        repeat (destruct Hr as [<-|Hr]; [reflexivity|]); destruct Hr.
    + intros i t row Hn Hr.
      destruct i as [|[|i]]; cbn in Hn; [| |destruct i; discriminate];
        injection Hn as <-; cbn in Hr;
        repeat (destruct Hr as [<-|Hr]; [reflexivity|]); destruct Hr.
Qed.

Print Assumptions gen_lists_freq_dict.
Print Assumptions gen_ordering_lists_eq.
Print Assumptions gen_ordering_lists_spec.
Print Assumptions gen_ordering_tables_eq.
Print Assumptions gen_ordering_tables_spec.
Print Assumptions order_using_token_ordering_spec.
Print Assumptions order_using_gen_lists.
Print Assumptions order_using_gen_tables.
