(* Safety of the position filter on SETS (strictly sorted rank lists): if the size window holds
   and the required overlap alpha does not exceed the real overlap, the loop of
   PositionFilter.find_candidates never writes -1 and ends with the number of probe-prefix
   tokens found in the candidate's prefix.  Combined with the prefix lemma this gives > 0.  *)
From Coq Require Import ZArith Bool List Lia Sorted.
From SSJ Require Import F64 PyNum FilterUtilsGen TokenOrdering Filters Prefix PyFacts.
Import ListNotations.
Open Scope Z_scope.

Lemma memZ_mem v l : memZ v l = mem v l.
Proof. reflexivity. Qed.

(* ---------- strictly sorted lists ---------- *)
Lemma ssorted_app_lt A : forall B, StronglySorted Z.lt (A ++ B) ->
  forall a b, In a A -> In b B -> a < b.
Proof.
  induction A as [|h A IH]; intros B H a b Ha Hb; [destruct Ha|].
  simpl in H. inversion H as [|? ? Hss Hall]; subst.
  destruct Ha as [->|Ha].
  - rewrite Forall_forall in Hall. apply Hall. apply in_or_app. right; exact Hb.
  - eapply IH; eassumption.
Qed.
Lemma ssorted_app_l A B : StronglySorted Z.lt (A ++ B) -> StronglySorted Z.lt A.
Proof.
  induction A as [|h A IH]; intros H; [constructor|].
  simpl in H. inversion H as [|? ? Hss Hall]; subst. constructor; [apply IH; exact Hss|].
  rewrite Forall_forall in *. intros x Hx. apply Hall. apply in_or_app. left; exact Hx.
Qed.
Lemma ssorted_app_r A B : StronglySorted Z.lt (A ++ B) -> StronglySorted Z.lt B.
Proof.
  induction A as [|h A IH]; intros H; [exact H|].
  simpl in H. inversion H; subst. apply IH; assumption.
Qed.
Lemma ssorted_nodup l : StronglySorted Z.lt l -> NoDup l.
Proof.
  induction 1 as [|h l Hs IH Hall]; constructor; [|exact IH].
  intro Hin. rewrite Forall_forall in Hall. specialize (Hall h Hin). lia.
Qed.
Lemma ssorted_sorted_le l : StronglySorted Z.lt l -> Sorted Z.le l.
Proof.
  intros H. apply StronglySorted_Sorted.
  induction H as [|h l Hs IH Hall]; constructor; [exact IH|].
  rewrite Forall_forall in *. intros x Hx. specialize (Hall x Hx). lia.
Qed.

(* ---------- positions in a duplicate-free list ---------- *)
Lemma positions_from_notin w l : forall k, ~ In w l -> positions_from w l k = [].
Proof.
  induction l as [|h t IH]; intros k H; [reflexivity|]. simpl.
  destruct (Z.eqb_spec w h) as [->|Hne]; [exfalso; apply H; left; reflexivity|].
  apply IH. intro Hin. apply H. right; exact Hin.
Qed.
Lemma positions_from_nodup w l : forall k, NoDup l -> In w l ->
  exists A B, l = A ++ w :: B /\ positions_from w l k = [(k + length A)%nat].
Proof.
  induction l as [|h t IH]; intros k Hnd Hin; [destruct Hin|].
  inversion Hnd as [|? ? Hnotin Hnd']; subst. simpl.
  destruct (Z.eqb_spec w h) as [->|Hne].
  - exists [], t. split; [reflexivity|]. rewrite positions_from_notin by exact Hnotin.
    simpl. f_equal. lia.
  - destruct Hin as [->|Hin]; [congruence|].
    destruct (IH (S k) Hnd' Hin) as [A [B [-> Hp]]].
    exists (h :: A), B. split; [reflexivity|]. rewrite Hp. simpl. f_equal. lia.
Qed.

(* ---------- counting ---------- *)
Lemma hits_cons_in X y Y : mem y X = true -> hits X (y :: Y) = S (hits X Y).
Proof. intros H. unfold hits. simpl. rewrite H. reflexivity. Qed.
Lemma hits_cons_notin X y Y : mem y X = false -> hits X (y :: Y) = hits X Y.
Proof. intros H. unfold hits. simpl. rewrite H. reflexivity. Qed.

Lemma hits_bound_incl X Y S : NoDup Y ->
  (forall y, In y Y -> In y X -> In y S) -> (hits X Y <= length S)%nat.
Proof.
  intros Hnd Hincl. unfold hits.
  apply NoDup_incl_length; [apply NoDup_filter; exact Hnd|].
  intros y Hy. apply filter_In in Hy. destruct Hy as [Hy Hm].
  apply mem_In in Hm. apply Hincl; assumption.
Qed.

Lemma hits_restrict X X' Y :
  (forall y, In y Y -> In y X -> In y X') -> (forall y, In y X' -> In y X) ->
  hits X Y = hits X' Y.
Proof.
  intros H1 H2. unfold hits. f_equal. apply filter_ext_in. intros y Hy.
  destruct (mem y X) eqn:E1, (mem y X') eqn:E2; try reflexivity.
  - apply mem_In in E1. specialize (H1 y Hy E1). apply mem_In in H1. congruence.
  - apply mem_In in E2. specialize (H2 y E2). apply mem_In in H2. congruence.
Qed.

(* ---------- the loop ---------- *)
Section Loop.
  Variable p : fparams.
  Variables XP XS Y : list Z.             (* candidate = XP ++ XS, XP its indexed prefix *)
  Let X := (XP ++ XS)%list.
  Variable al : Z.
  Hypothesis HsX : StronglySorted Z.lt X.
  Hypothesis HsY : StronglySorted Z.lt Y.
  Hypothesis Hwin : in_window (g_lb p (len Y)) (g_ub p (len Y)) (len X) = true.
  Hypothesis Hot : g_ot p (len X) (len Y) = PInt al.
  Hypothesis Hal : al <= Z.of_nat (hits X Y).

  Lemma pos_update_ok cur j i :
    0 <= cur -> al <= cur + Z.min (len Y - Z.of_nat j) (len X - Z.of_nat i) ->
    pos_update p (len X) (len Y) cur j i = cur + 1.
  Proof.
    intros Hc Hb. unfold pos_update.
    destruct (Z.eqb_spec cur (-1)); [lia|].
    rewrite Hwin, Hot, py_ge_int.
    destruct (Z.leb_spec (len Y - Z.of_nat j) (len X - Z.of_nat i));
      match goal with |- (if ?c then _ else _) = _ => destruct c eqn:E end;
      try reflexivity; apply Z.leb_gt in E; lia.
  Qed.

  Lemma pos_loop_counts : forall Y2 Y1 Y3 cur,
    Y = (Y1 ++ Y2 ++ Y3)%list ->
    cur = Z.of_nat (hits XP Y1) ->
    pos_loop p (len X) (len Y) XP Y2 (length Y1) cur = Z.of_nat (hits XP (Y1 ++ Y2)).
  Proof.
    induction Y2 as [|w Y2 IH]; intros Y1 Y3 cur HY Hcur.
    - simpl. rewrite app_nil_r. exact Hcur.
    - cbn [pos_loop].
      assert (HndXP : NoDup XP) by (apply ssorted_nodup; eapply ssorted_app_l; exact HsX).
      replace (Y1 ++ w :: Y2)%list with ((Y1 ++ [w]) ++ Y2)%list by (rewrite <- app_assoc; reflexivity).
      replace (S (length Y1)) with (length (Y1 ++ [w])) by (rewrite app_length; simpl; lia).
      destruct (mem w XP) eqn:Ew.
      + (* the probe token occurs in the indexed prefix *)
        apply mem_In in Ew.
        destruct (positions_from_nodup w XP 0 HndXP Ew) as [A [B [HXP Hpos]]].
        rewrite Hpos. cbn [fold_left].
        assert (Hupd : pos_update p (len X) (len Y) cur (length Y1) (0 + length A) = cur + 1).
        { apply pos_update_ok; [lia|].
          (* overlap = hits among Y1 + hits among the rest *)
          assert (Ho : hits X Y = (hits X Y1 + hits X (w :: Y2 ++ Y3))%nat).
          { rewrite HY. rewrite hits_app. reflexivity. }
          (* elements of Y1 are < w; those in X lie in XP *)
          assert (H1 : hits X Y1 = hits XP Y1).
          { apply hits_restrict.
            - intros y Hy HyX. unfold X in HyX. apply in_app_or in HyX. destruct HyX as [H|H]; [exact H|].
              exfalso.
              assert (y < w).
              { rewrite HY in HsY. eapply (ssorted_app_lt Y1); [exact HsY|exact Hy|left; reflexivity]. }
              assert (w < y) by (eapply (ssorted_app_lt XP XS); [exact HsX|exact Ew|exact H]).
              lia.
            - intros y Hy. unfold X. apply in_or_app. left; exact Hy. }
          (* the rest of Y is >= w; its members of X lie in w :: B ++ XS *)
          assert (H2 : (hits X (w :: Y2 ++ Y3) <= length (w :: B ++ XS))%nat).
          { apply hits_bound_incl.
            - rewrite HY in HsY. apply ssorted_nodup. eapply ssorted_app_r. exact HsY.
            - intros y Hy HyX. unfold X in HyX. rewrite HXP in HyX.
              rewrite <- app_assoc in HyX. apply in_app_or in HyX. destruct HyX as [HA|HB]; [|exact HB].
              exfalso.
              assert (y < w).
              { assert (Hs' : StronglySorted Z.lt (A ++ (w :: B) ++ XS)).
                { unfold X in HsX. rewrite HXP, <- app_assoc in HsX. exact HsX. }
                eapply (ssorted_app_lt A); [exact Hs'|exact HA|left; reflexivity]. }
              assert (w <= y).
              { destruct Hy as [->|Hy]; [lia|].
                rewrite HY in HsY. apply ssorted_app_r in HsY.
                inversion HsY as [|? ? _ Hall]; subst. rewrite Forall_forall in Hall.
                specialize (Hall y Hy). lia. }
              lia. }
          assert (H3 : (hits X (w :: Y2 ++ Y3) <= length (w :: Y2 ++ Y3))%nat) by apply hits_le.
          assert (HlenY : len Y = Z.of_nat (length Y1) + Z.of_nat (length (w :: Y2 ++ Y3))).
          { unfold len. rewrite HY, app_length. simpl. lia. }
          assert (HlenX : len X = Z.of_nat (length A) + Z.of_nat (length (w :: B ++ XS))).
          { unfold len, X. rewrite HXP, <- app_assoc, app_length. simpl. lia. }
          lia. }
        rewrite Hupd.
        eapply IH with (Y3 := Y3).
        * rewrite HY, <- app_assoc. reflexivity.
        * rewrite hits_app. rewrite hits_cons_in by (apply mem_In; exact Ew).
          unfold hits at 2. simpl. lia.
      + (* not in the prefix: nothing happens *)
        rewrite positions_from_notin.
        2:{ intro H. apply mem_In in H. congruence. }
        cbn [fold_left].
        eapply IH with (Y3 := Y3).
        * rewrite HY, <- app_assoc. reflexivity.
        * rewrite hits_app. rewrite hits_cons_notin by exact Ew.
          unfold hits at 2. simpl. lia.
  Qed.

  (* with YP the probe prefix: the loop ends with the number of prefix/prefix matches *)
  Theorem pos_loop_result YP YS :
    Y = (YP ++ YS)%list ->
    pos_loop p (len X) (len Y) XP YP 0 0 = Z.of_nat (hits XP YP).
  Proof.
    intros HY. apply (pos_loop_counts YP [] YS 0); [exact HY | reflexivity].
  Qed.
End Loop.
