(* (a) What the GENERATED PositionIndex.build (Gen/IndexGen.v: position_index_build) returns.
   `position_index_build_eq`: under the row hypotheses the generated function equals the
   representation of a small functional program `build_abs` over integer lists; the facts below
   characterise every component of `build_abs` (size cache, min/max length, posting lists,
   cached tokens, empty records).  The formulas stay opaque (only g_pl = get_prefix_length
   is mentioned, never unfolded).  Axiom-free.                                            *)
From Coq Require Import ZArith Bool List String Lia.
From SSJ Require Import F64 PyNum FilterUtilsGen TokenOrderingGen IndexGen TokenOrdering Filters IndexPyFacts.
Import ListNotations.
Open Scope Z_scope.

Definition posting := (Z * Z)%type.
Definition post_repr (e : posting) : pyval := PTuple [PInt (fst e); PInt (snd e)].
Definition plist_repr (ps : list posting) : pyval := PList (map post_repr ps).
Definition idx_t := list (Z * list posting).
Definition idx_repr (idx : idx_t) : pyval := PDict (drepr plist_repr idx).
Definition idx_get (idx : idx_t) (w : Z) : list posting :=
  match aget idx w with Some ps => ps | None => [] end.
Definition idx_add (idx : idx_t) (w : Z) (e : posting) : idx_t := aset idx w (idx_get idx w ++ [e])%list.
Definition plen (p : fparams) (n : Z) : Z := match g_pl p n with PInt k => k | _ => 0 end.

Record bstate := { b_rid : Z; b_idx : idx_t; b_sizes : list Z; b_min : Z; b_max : Z;
                   b_cached : list (list Z); b_empty : list Z }.
Definition add_tokens (rid : Z) (idx : idx_t) (xp : list Z) : idx_t * Z :=
  fold_left (fun ip w => (idx_add (fst ip) w (rid, snd ip), snd ip + 1)) xp (idx, 0).
Definition add_row (p : fparams) (ce ct : bool) (a : bstate) (x : list Z) : bstate :=
  let n := len x in
  {| b_rid := b_rid a + 1;
     b_idx := fst (add_tokens (b_rid a) (b_idx a) (slice0z (plen p n) x));
     b_sizes := (b_sizes a ++ [n])%list;
     b_min := if n <? b_min a then n else b_min a;
     b_max := if b_max a <? n then n else b_max a;
     b_cached := if ct then (b_cached a ++ [x])%list else b_cached a;
     b_empty := if ce && (n =? 0) then (b_empty a ++ [b_rid a])%list else b_empty a |}.
Definition b_init : bstate :=
  {| b_rid := 0; b_idx := []; b_sizes := []; b_min := 9223372036854775807; b_max := 0;
     b_cached := []; b_empty := [] |}.
Definition build_abs p ce ct (ordered : list (list Z)) : bstate := fold_left (add_row p ce ct) ordered b_init.

Definition build_result (a : bstate) : pyval :=
  PTuple [idx_repr (b_idx a); pints (b_sizes a); PInt (b_min a); PInt (b_max a);
          PDict [PTuple [PStr "cached_tokens"%string; PList (map pints (b_cached a))];
                 PTuple [PStr "empty_records"%string; pints (b_empty a)]]].

Definition row_ok (attr ordering : pyval) (tokenize : pyval -> pyval) (row : pyval) (x : list Z) : Prop :=
  is_exc (py_getitem row attr) = false /\
  order_using_token_ordering (tokenize (py_getitem row attr)) ordering = pints x.

Definition Ibuild (a : bstate)
  (s : pyval * (pyval * (pyval * (pyval * (pyval * (pyval * (pyval * (pyval * (pyval * (pyval * (pyval * (pyval * (pyval * pyval)))))))))))))
  : Prop :=
  exists t1 t2 t3 t4 t5 t6,
    s = (PNone, (t1, (t2, (t3, (t4, (t5, (t6, (idx_repr (b_idx a), (pints (b_sizes a),
          (PInt (b_min a), (PInt (b_max a), (PList (map pints (b_cached a)),
          (pints (b_empty a), PInt (b_rid a)))))))))))))).

Lemma forall2_combine {A B} (R : A -> B -> Prop) l1 l2 :
  Forall2 R l1 l2 ->
  l1 = map fst (combine l1 l2) /\ l2 = map snd (combine l1 l2) /\
  forall b, In b (combine l1 l2) -> R (fst b) (snd b).
Proof.
  induction 1 as [|x y l1 l2 Hxy H IH]; cbn [combine map].
  - repeat split; intros b [].
  - destruct IH as (E1 & E2 & IH). repeat split; [now f_equal | now f_equal |].
    intros b [<-|Hb]; [exact Hxy | apply IH; exact Hb].
Qed.

Lemma py_dict_get2_idx idx w :
  py_dict_get2 (idx_repr idx) (PInt w)
  = match aget idx w with Some ps => plist_repr ps | None => PNone end.
Proof.
  unfold py_dict_get2, py_dict_get3, idx_repr, strict2. rewrite dict_lookup_drepr.
  destruct (aget idx w); reflexivity.
Qed.

Lemma aset_aset {V} (d : list (Z * V)) k v v' : aset (aset d k v) k v' = aset d k v'.
Proof.
  induction d as [|[k0 v0] d IH]; cbn [aset].
  - now rewrite Z.eqb_refl.
  - destruct (Z.eqb_spec k0 k) as [->|Hne]; cbn [aset].
    + now rewrite Z.eqb_refl.
    + destruct (Z.eqb_spec k0 k); [congruence|]. now rewrite IH.
Qed.

Lemma py_append_plist ps e : py_append (plist_repr ps) (post_repr e) = plist_repr (ps ++ [e])%list.
Proof. unfold plist_repr, py_append, strict2, post_repr. now rewrite map_app. Qed.
Lemma py_append_pints l n : py_append (pints l) (PInt n) = pints (l ++ [n])%list.
Proof. unfold pints, py_append, strict2. now rewrite map_app. Qed.
Lemma py_append_plists l x : py_append (PList (map pints l)) (pints x) = PList (map pints (l ++ [x])%list).
Proof. unfold py_append, strict2, pints. now rewrite map_app. Qed.
Lemma py_add_int a b : py_add (PInt a) (PInt b) = PInt (a + b).
Proof. reflexivity. Qed.

Definition Rinner (ip : idx_t * Z) : pyval * (pyval * pyval) :=
  (PNone, (idx_repr (fst ip), PInt (snd ip))).

Theorem position_index_build_eq : forall p attr ordering tokenize rows ordered ce ct,
  Forall2 (row_ok attr ordering tokenize) rows ordered ->
  (forall x, In x ordered -> exists k, g_pl p (len x) = PInt k) ->
  position_index_build (PList rows) attr (PStr (fm p)) (ft p) ordering (PBool ce) (PBool ct)
                       (PInt (fq p)) tokenize
  = build_result (build_abs p ce ct ordered).
Proof.
  intros p attr ordering tokenize rows ordered ce ct Hrows Hpl.
  unfold position_index_build. cbv zeta.
  destruct (forall2_combine _ _ _ Hrows) as (Er & Eo & Hrow).
  set (l := combine rows ordered) in *. clearbody l.
  assert (Hb : build_abs p ce ct ordered
               = fold_left (fun a (rb : pyval * list Z) => add_row p ce ct a (snd rb)) l b_init).
  { unfold build_abs. rewrite Eo at 1. clear. generalize b_init.
    induction l as [|b l' IH]; intros a0; cbn [map fold_left]; [reflexivity | apply IH]. }
  rewrite Er, Hb.
  match goal with |- context [py_for (PList (map fst l)) ?r ?f ?b ?s0] =>
    pose proof (py_for_inv _ _ _ fst Ibuild r f b
                  (fun a (rb : pyval * list Z) => add_row p ce ct a (snd rb)) l s0 b_init) as HI end.
  lapply HI; [clear HI; intros HI|].
  2:{ unfold Ibuild. do 6 eexists. reflexivity. }
  lapply HI; [clear HI; intros HI|].
  2:{ intros a s (t1 & t2 & t3 & t4 & t5 & t6 & ->). reflexivity. }
  lapply HI; [clear HI; intros HI|].
  - destruct HI as (t1 & t2 & t3 & t4 & t5 & t6 & ->). reflexivity.
  - clear HI. intros a s [row x] Hin (t1 & t2 & t3 & t4 & t5 & t6 & ->).
    cbv beta iota. cbn [fst snd].
    destruct (Hrow _ Hin) as [Hne Hord]. cbn [fst snd] in Hne, Hord.
    rewrite (bindx_ok row) by (eapply getitem_not_exc; exact Hne).
    rewrite (bindx_ok (py_getitem row attr)) by exact Hne.
    rewrite Hord. unfold pints at 1. cbn [bindx]. fold (pints x).
    rewrite py_len_pints. cbn [bindx].
    change (get_prefix_length (PInt (len x)) (PStr (fm p)) (ft p) (PInt (fq p))) with (g_pl p (len x)).
    destruct (Hpl x) as [k Hk].
    { rewrite Eo. apply (in_map snd l (row, x)). exact Hin. }
    rewrite Hk. cbn [bindx]. rewrite py_slice_pints. unfold pints at 1.
    change (PNone, (idx_repr (b_idx a), PInt 0)) with (Rinner (b_idx a, 0)).
    match goal with |- context [py_for (PList (map PInt ?xp)) ?r ?f ?b (Rinner ?a0)] =>
      rewrite (py_for_eq _ _ _ PInt Rinner
                 r f b (fun ip w => (idx_add (fst ip) w (b_rid a, snd ip), snd ip + 1)) xp a0) end.
    2:{ reflexivity. }
    2:{ intros [idx pos] w _. unfold Rinner. cbv beta iota. cbn [fst snd bindx].
        rewrite py_dict_get2_idx. unfold idx_add, idx_get.
        change (PTuple [PInt (b_rid a); PInt pos]) with (post_repr (b_rid a, pos)).
        destruct (aget idx w) as [ps|] eqn:E.
        - cbn [py_is_none strict1 plist_repr py_truth bindx].
          rewrite py_dict_get2_idx, E, py_append_plist.
          unfold idx_repr. rewrite py_setitem_drepr by reflexivity. reflexivity.
        - cbn [py_is_none strict1 py_truth bindx].
          change (PList []) with (plist_repr []). unfold idx_repr at 1.
          rewrite py_setitem_drepr by reflexivity. cbn [bindx]. fold (idx_repr (aset idx w [])).
          rewrite py_dict_get2_idx, aget_aset, Z.eqb_refl, py_append_plist.
          unfold idx_repr. rewrite py_setitem_drepr by reflexivity. rewrite aset_aset. reflexivity. }
    fold (add_tokens (b_rid a) (b_idx a) (slice0z k x)).
    assert (Hplen : plen p (len x) = k) by (unfold plen; now rewrite Hk).
    unfold add_row. rewrite Hplen.
    destruct (add_tokens (b_rid a) (b_idx a) (slice0z k x)) as [idx' pos'].
    unfold Rinner. cbv beta iota zeta. cbn [bindx fst snd].
    rewrite py_append_pints. rewrite (bindx_ok (pints _)) by reflexivity.
    rewrite py_lt_int_val, py_gt_int_val. cbn [bindx py_truth].
    destruct (len x <? b_min a); cbv beta iota; cbn [bindx py_truth];
    destruct (b_max a <? len x); cbv beta iota; cbn [bindx py_truth].
    all: rewrite py_append_plists, py_eq_int_val.
    all: destruct ct; cbv beta iota; cbn [bindx py_truth].
    all: destruct ce; cbn [py_and py_truth andb]; cbv beta iota; cbn [bindx py_truth].
    all: destruct (len x =? 0); cbv beta iota; cbn [bindx py_truth].
    all: rewrite ?py_append_pints; rewrite ?(bindx_ok (pints _)) by reflexivity.
    all: rewrite py_add_int; cbn [bindx].
    all: do 6 eexists; reflexivity.
Qed.


(* ------------------------------------------------------------------ facts about build_abs *)
Definition maxsizeZ : Z := 9223372036854775807.
Definition nrows (xs : list (list Z)) : Z := Z.of_nat (List.length xs).

(* postings of token w contributed by rows xs numbered from c: (row, position) for every
   position i inside the row's prefix with x[i] = w; rows ascending, positions ascending *)
Fixpoint posts_from (p : fparams) (w : Z) (c : Z) (xs : list (list Z)) : list posting :=
  match xs with
  | [] => []
  | x :: xs' =>
      (map (fun i : nat => (c, Z.of_nat i)) (positions_from w (slice0z (plen p (len x)) x) 0)
       ++ posts_from p w (c + 1) xs')%list
  end.

Fixpoint empty_from (c : Z) (xs : list (list Z)) : list Z :=
  match xs with
  | [] => []
  | x :: xs' => if len x =? 0 then c :: empty_from (c + 1) xs' else empty_from (c + 1) xs'
  end.

Lemma idx_get_add idx w e w' :
  idx_get (idx_add idx w e) w' = if w =? w' then (idx_get idx w' ++ [e])%list else idx_get idx w'.
Proof.
  unfold idx_add, idx_get. rewrite aget_aset.
  destruct (Z.eqb_spec w w') as [->|Hne]; reflexivity.
Qed.

Lemma add_tokens_from rid w : forall xp idx (i0 : nat),
  let r := fold_left (fun (ip : idx_t * Z) w0 => (idx_add (fst ip) w0 (rid, snd ip), snd ip + 1))
                     xp (idx, Z.of_nat i0) in
  idx_get (fst r) w
  = (idx_get idx w ++ map (fun i : nat => (rid, Z.of_nat i)) (positions_from w xp i0))%list.
Proof.
  induction xp as [|h t IH]; intros idx i0; cbn [fold_left positions_from fst snd].
  - cbn [map]. now rewrite app_nil_r.
  - replace (Z.of_nat i0 + 1) with (Z.of_nat (S i0)) by lia.
    cbv zeta in IH. rewrite IH, idx_get_add.
    rewrite (Z.eqb_sym h w).
    destruct (w =? h); cbn [map]; [now rewrite <- app_assoc | reflexivity].
Qed.

Lemma add_tokens_get rid idx xp w :
  idx_get (fst (add_tokens rid idx xp)) w
  = (idx_get idx w ++ map (fun i : nat => (rid, Z.of_nat i)) (positions_from w xp 0))%list.
Proof. exact (add_tokens_from rid w xp idx 0). Qed.

Section BuildAbs.
  Variables (p : fparams) (ce ct : bool).

  Lemma build_from : forall xs a0 w,
    let a := fold_left (add_row p ce ct) xs a0 in
    b_rid a = b_rid a0 + nrows xs /\
    b_sizes a = (b_sizes a0 ++ map len xs)%list /\
    b_min a = fold_left Z.min (map len xs) (b_min a0) /\
    b_max a = fold_left Z.max (map len xs) (b_max a0) /\
    b_cached a = (if ct then b_cached a0 ++ xs else b_cached a0)%list /\
    b_empty a = (if ce then b_empty a0 ++ empty_from (b_rid a0) xs else b_empty a0)%list /\
    idx_get (b_idx a) w = (idx_get (b_idx a0) w ++ posts_from p w (b_rid a0) xs)%list.
  Proof.
    induction xs as [|x xs IH]; intros a0 w; cbn [fold_left map posts_from empty_from].
    - unfold nrows. cbn [List.length Z.of_nat]. rewrite !app_nil_r, Z.add_0_r.
      repeat split; destruct ct, ce; now rewrite ?app_nil_r.
    - cbv zeta in IH. destruct (IH (add_row p ce ct a0 x) w) as (H1 & H2 & H3 & H4 & H5 & H6 & H7).
      rewrite H1, H2, H3, H4, H5, H6, H7. unfold add_row.
      cbn [b_rid b_idx b_sizes b_min b_max b_cached b_empty].
      rewrite add_tokens_get.
      repeat split.
      + unfold nrows. cbn [List.length]. lia.
      + now rewrite <- app_assoc.
      + f_equal. destruct (Z.ltb_spec (len x) (b_min a0)); lia.
      + f_equal. destruct (Z.ltb_spec (b_max a0) (len x)); lia.
      + destruct ct; [now rewrite <- app_assoc | reflexivity].
      + destruct ce; cbn [andb]; [|reflexivity].
        destruct (len x =? 0); [now rewrite <- app_assoc | reflexivity].
      + now rewrite <- app_assoc.
  Qed.

  Variable ordered : list (list Z).
  Let a := build_abs p ce ct ordered.

  Lemma build_rid : b_rid a = nrows ordered.
  Proof. destruct (build_from ordered b_init 0) as (H & _). exact H. Qed.
  Lemma build_sizes : b_sizes a = map len ordered.
  Proof. destruct (build_from ordered b_init 0) as (_ & H & _). exact H. Qed.
  Lemma build_min : b_min a = fold_left Z.min (map len ordered) maxsizeZ.
  Proof. destruct (build_from ordered b_init 0) as (_ & _ & H & _). exact H. Qed.
  Lemma build_max : b_max a = fold_left Z.max (map len ordered) 0.
  Proof. destruct (build_from ordered b_init 0) as (_ & _ & _ & H & _). exact H. Qed.
  Lemma build_cached : b_cached a = if ct then ordered else [].
  Proof. destruct (build_from ordered b_init 0) as (_ & _ & _ & _ & H & _). exact H. Qed.
  Lemma build_empty : b_empty a = if ce then empty_from 0 ordered else [].
  Proof. destruct (build_from ordered b_init 0) as (_ & _ & _ & _ & _ & H & _). exact H. Qed.
  Lemma build_postings w : idx_get (b_idx a) w = posts_from p w 0 ordered.
  Proof. destruct (build_from ordered b_init w) as (_ & _ & _ & _ & _ & _ & H). exact H. Qed.

  Lemma fold_min_le : forall l m, fold_left Z.min l m <= m /\ forall n, In n l -> fold_left Z.min l m <= n.
  Proof.
    induction l as [|h t IH]; intros m; cbn [fold_left].
    - split; [lia | intros n []].
    - destruct (IH (Z.min m h)) as [H1 H2]. split; [lia|].
      intros n [<-|Hn]; [lia | apply H2; exact Hn].
  Qed.
  Lemma fold_max_ge : forall l m, m <= fold_left Z.max l m /\ forall n, In n l -> n <= fold_left Z.max l m.
  Proof.
    induction l as [|h t IH]; intros m; cbn [fold_left].
    - split; [lia | intros n []].
    - destruct (IH (Z.max m h)) as [H1 H2]. split; [lia|].
      intros n [<-|Hn]; [lia | apply H2; exact Hn].
  Qed.

  (* every indexed size lies inside [min_length, max_length] *)
  Lemma build_min_max_bounds : forall x, In x ordered -> b_min a <= len x <= b_max a.
  Proof.
    intros x Hx. rewrite build_min, build_max. split.
    - apply fold_min_le. apply in_map. exact Hx.
    - apply fold_max_ge. apply in_map. exact Hx.
  Qed.
  Lemma build_min_max_nth : forall c, (c < List.length ordered)%nat ->
    b_min a <= len (nth c ordered []) <= b_max a.
  Proof. intros c Hc. apply build_min_max_bounds. apply nth_In. exact Hc. Qed.
  (* an empty table leaves the initial values of __init__ *)
  Lemma build_min_max_empty : ordered = [] -> b_min a = maxsizeZ /\ b_max a = 0.
  Proof. intros E. rewrite build_min, build_max, E. split; reflexivity. Qed.
  (* for a non-empty table (sizes below maxsize) both bounds are attained by some row *)
  Lemma fold_min_cases : forall l m, fold_left Z.min l m = m \/ In (fold_left Z.min l m) l.
  Proof.
    induction l as [|h t IH]; intros m; cbn [fold_left]; [left; reflexivity|].
    destruct (IH (Z.min m h)) as [E|Hin]; [|right; right; exact Hin].
    rewrite E. destruct (Z.le_gt_cases m h); [left | right; left]; lia.
  Qed.
  Lemma fold_max_cases : forall l m, fold_left Z.max l m = m \/ In (fold_left Z.max l m) l.
  Proof.
    induction l as [|h t IH]; intros m; cbn [fold_left]; [left; reflexivity|].
    destruct (IH (Z.max m h)) as [E|Hin]; [|right; right; exact Hin].
    rewrite E. destruct (Z.le_gt_cases h m); [left | right; left]; lia.
  Qed.
  Lemma build_min_attained : ordered <> [] -> (forall x, In x ordered -> len x <= maxsizeZ) ->
    exists x, In x ordered /\ b_min a = len x.
  Proof.
    intros Hne Hle. rewrite build_min.
    destruct (fold_min_cases (map len ordered) maxsizeZ) as [E|Hin].
    - destruct ordered as [|x0 xs]; [congruence|]. exists x0. split; [left; reflexivity|].
      destruct (fold_min_le (map len (x0 :: xs)) maxsizeZ) as [_ H].
      specialize (H (len x0) (in_map len (x0 :: xs) x0 (or_introl eq_refl))).
      specialize (Hle x0 (or_introl eq_refl)). lia.
    - apply in_map_iff in Hin. destruct Hin as (x & Hx & Hin). exists x. split; [exact Hin | now symmetry].
  Qed.
  Lemma build_max_attained : ordered <> [] -> exists x, In x ordered /\ b_max a = len x.
  Proof.
    intros Hne. rewrite build_max.
    destruct (fold_max_cases (map len ordered) 0) as [E|Hin].
    - destruct ordered as [|x0 xs]; [congruence|]. exists x0. split; [left; reflexivity|].
      destruct (fold_max_ge (map len (x0 :: xs)) 0) as [_ H].
      specialize (H (len x0) (in_map len (x0 :: xs) x0 (or_introl eq_refl))).
      assert (0 <= len x0) by (unfold len; lia). lia.
    - apply in_map_iff in Hin. destruct Hin as (x & Hx & Hin). exists x. split; [exact Hin | now symmetry].
  Qed.
End BuildAbs.

(* filtering the postings of w by candidate row c gives the positions of w in c's prefix *)
Lemma posts_from_rows p w : forall xs c0 e, In e (posts_from p w c0 xs) ->
  c0 <= fst e < c0 + nrows xs.
Proof.
  induction xs as [|x xs IH]; intros c0 e; cbn [posts_from]; [intros []|].
  rewrite in_app_iff, in_map_iff. unfold nrows in *. cbn [List.length].
  intros [(i & <- & _)|Hin]; cbn [fst]; [lia|].
  specialize (IH (c0 + 1) e Hin). lia.
Qed.

Print Assumptions position_index_build_eq.
Print Assumptions build_postings.
Print Assumptions build_min_max_bounds.
