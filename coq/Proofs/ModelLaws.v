(* The metamorphic laws of C10 and C13 about the API-level MODEL ITSELF: no hypothesis about outputs.
   Proofs/Laws*.v derive the laws from the single-call specifications for ARBITRARY outputs, under
   side conditions on the scores (wf_scores / typed_scores) and on the thresholds (laxer);
   Proofs/ApiJoinSpec.v proves the single-call specifications of `api_join`; Proofs/ModelScores.v
   proves that the model's scores are well-typed; Proofs/ModelArith.v that they are finite.
   Here the pieces are put together: every theorem below is about `api_join c = Some out`.

   (2) C10: results for two n_jobs / cpu counts / row orders of one valid call agree (gray pairs of
       JACCARD / COSINE / DICE set aside; exactly for OVERLAP / OVERLAP_COEFFICIENT);
   (3) C13: transposition (all five joins, OVERLAP included), threshold refinement (float and
       integer thresholds, operators >= and >), operator partition (non-gray / exact).
   The chunk partition fact is instantiated (hpart_cpus_bounded), so the usual four Reals/Flocq
   axioms appear (split_table is float arithmetic; so are the J/C/D pair verdicts).            *)
From Coq Require Import ZArith Reals Bool List String Lia SpecFloat Permutation.
From SSJ Require Import F64 F64Spec PyNum HelperGen TokenOrdering Measures Filters Joins Api JoinSpec MetaSpec
     OverlapFacts ApiLift ApiJoinBase ApiJoinPairs ApiJoinSpec PartitionInst ArithCommon
     LawsBase LawsScore LawsSpec Laws LawsArith ModelScores ModelArith.
Import ListNotations.
Open Scope string_scope.
Open Scope list_scope.
Open Scope Z_scope.

(* ================================================================== (2) C10 *)
(* two calls that differ in n_jobs / cpus / q / the order of the rows *)
Theorem C10_model_same_call : forall c c' o1 o2,
  valid_join_case c -> same_call c c' -> 1 <= j_cpus c' -> j_with_score c = true ->
  api_join c = Some o1 -> api_join c' = Some o2 ->
  same_rows_nongray_spec c o1 o2 = true /\ (no_gray_case c = true -> same_rows_spec c o1 o2 = true).
Proof.
  intros c c' o1 o2 Hv Hsc Hcpu Hws H1 H2.
  pose proof (valid_same_call c c' Hv Hsc Hcpu) as Hv'.
  destruct (model_call c o1 Hv H1) as (A1 & A2 & A3 & A4 & _ & A6).
  destruct (model_call c' o2 Hv' H2) as (B1 & B2 & B3 & B4 & _ & B6).
  pose proof (valid_set_case c Hv) as Hset.
  destruct Hv as [[HkL [HkR _]] _].
  exact (c10_law c c' o1 o2 Hsc HkL HkR Hset Hws A1 A2 A3 A4 A6 B1 B2 B3 B4 B6).
Qed.

(* ... and when no score column is requested *)
Theorem C10_model_same_call_noscore : forall c c' o1 o2,
  valid_join_case c -> same_call c c' -> 1 <= j_cpus c' -> j_with_score c = false ->
  api_join c = Some o1 -> api_join c' = Some o2 ->
  same_rows_nongray_spec c o1 o2 = true /\ (no_gray_case c = true -> same_rows_spec c o1 o2 = true).
Proof.
  intros c c' o1 o2 Hv Hsc Hcpu Hws H1 H2.
  pose proof (valid_same_call c c' Hv Hsc Hcpu) as Hv'.
  assert (Hws' : j_with_score c' = false).
  { destruct Hsc as [_ [_ [_ [_ [_ [E _]]]]]]. rewrite E. exact Hws. }
  destruct (model_call c o1 Hv H1) as (A1 & A2 & A3 & A4 & _ & _).
  destruct (model_call c' o2 Hv' H2) as (B1 & B2 & B3 & B4 & _ & _).
  pose proof (api_join_no_scores c o1 Hv Hws H1) as N1.
  pose proof (api_join_no_scores c' o2 Hv' Hws' H2) as N2.
  pose proof (valid_set_case c Hv) as Hset.
  destruct Hv as [[HkL [HkR _]] _].
  destruct (specs_perm c c' o2 Hsc HkL HkR) as [E1 [E2 [E3 E4]]].
  rewrite E1 in B1. rewrite E2 in B2. rewrite E3 in B3. rewrite E4 in B4.
  apply same_rows_noscore_law; assumption.
Qed.

Lemma same_call_njobs2 c n1 k1 n2 k2 : same_call (with_njobs c n1 k1) (with_njobs c n2 k2).
Proof. unfold same_call, with_njobs; cbn. repeat split; apply Permutation_refl. Qed.

(* every valid set-similarity join, any two n_jobs / cpu counts *)
Theorem C10_model_njobs : forall c n1 k1 n2 k2 o1 o2,
  valid_join_case c -> j_with_score c = true -> 1 <= k1 -> 1 <= k2 ->
  api_join (with_njobs c n1 k1) = Some o1 -> api_join (with_njobs c n2 k2) = Some o2 ->
  same_rows_nongray_spec c o1 o2 = true /\ (no_gray_case c = true -> same_rows_spec c o1 o2 = true).
Proof.
  intros c n1 k1 n2 k2 o1 o2 Hv Hws Hk1 Hk2 H1 H2.
  exact (C10_model_same_call (with_njobs c n1 k1) (with_njobs c n2 k2) o1 o2
           (valid_with_njobs c n1 k1 Hv Hk1) (same_call_njobs2 c n1 k1 n2 k2) Hk2 Hws H1 H2).
Qed.

(* JACCARD / COSINE / DICE: the results for two n_jobs agree outside the gray pairs
   (the full-strength statement is refuted: Properties/C10.v, C10_jcd_njobs_refuted) *)
Theorem C10_jcd_njobs_nongray : forall c m n1 k1 n2 k2 o1 o2,
  valid_join_case c -> j_entry c = EJoin m -> is_jcd m = true -> j_with_score c = true ->
  1 <= k1 -> 1 <= k2 ->
  api_join (with_njobs c n1 k1) = Some o1 -> api_join (with_njobs c n2 k2) = Some o2 ->
  same_rows_nongray_spec c o1 o2 = true.
Proof.
  intros c m n1 k1 n2 k2 o1 o2 Hv _ _ Hws Hk1 Hk2 H1 H2.
  exact (proj1 (C10_model_njobs c n1 k1 n2 k2 o1 o2 Hv Hws Hk1 Hk2 H1 H2)).
Qed.

(* OVERLAP / OVERLAP_COEFFICIENT: the same multiset of rows, scores included *)
Theorem C10_nogray_njobs_exact : forall c n1 k1 n2 k2 o1 o2,
  valid_join_case c -> no_gray_case c = true -> j_with_score c = true -> 1 <= k1 -> 1 <= k2 ->
  api_join (with_njobs c n1 k1) = Some o1 -> api_join (with_njobs c n2 k2) = Some o2 ->
  multiset_eqb o1 o2 = true.
Proof.
  intros c n1 k1 n2 k2 o1 o2 Hv Hng Hws Hk1 Hk2 H1 H2.
  exact (proj2 (C10_model_njobs c n1 k1 n2 k2 o1 o2 Hv Hws Hk1 Hk2 H1 H2) Hng).
Qed.

(* permuting the rows of both tables (and changing n_jobs): keys are unique in a valid case *)
Theorem C10_model_rows : forall c L' R' n k o1 o2,
  valid_join_case c -> j_with_score c = true -> 1 <= k ->
  Permutation (j_L c) L' -> Permutation (j_R c) R' ->
  api_join c = Some o1 -> api_join (with_rows (with_njobs c n k) L' R') = Some o2 ->
  same_rows_nongray_spec c o1 o2 = true /\ (no_gray_case c = true -> same_rows_spec c o1 o2 = true).
Proof.
  intros c L' R' n k o1 o2 Hv Hws Hk PL PR H1 H2.
  apply (C10_model_same_call c (with_rows (with_njobs c n k) L' R') o1 o2 Hv); try assumption.
  eapply same_call_trans; [apply (same_call_njobs c n k)|].
  apply same_call_rows; assumption.
Qed.

Corollary C10_jcd_rows_nongray : forall c m L' R' n k o1 o2,
  valid_join_case c -> j_entry c = EJoin m -> is_jcd m = true -> j_with_score c = true -> 1 <= k ->
  Permutation (j_L c) L' -> Permutation (j_R c) R' ->
  api_join c = Some o1 -> api_join (with_rows (with_njobs c n k) L' R') = Some o2 ->
  same_rows_nongray_spec c o1 o2 = true.
Proof.
  intros c m L' R' n k o1 o2 Hv _ _ Hws Hk PL PR H1 H2.
  exact (proj1 (C10_model_rows c L' R' n k o1 o2 Hv Hws Hk PL PR H1 H2)).
Qed.

(* ================================================================== (3) C13 transposition *)
Lemma valid_swap c : valid_join_case c -> valid_join_case (swap_case c).
Proof.
  intros [[HkL [HkR [HL [HR [Hcpu [HlL HlR]]]]]] [Hop [m [He Hp]]]].
  split; [|split; [exact Hop | exists m; split; [exact He | exact Hp]]].
  unfold tables_ok, swap_case; cbn [j_L j_R j_cpus].
  split; [exact HkR|]. split; [exact HkL|]. split; [exact HR|]. split; [exact HL|].
  split; [exact Hcpu|]. split; assumption.
Qed.

(* all five set-similarity joins, OVERLAP (integer scores) included *)
Theorem C13_transpose_model_all : forall c out out',
  valid_join_case c -> j_with_score c = true ->
  api_join c = Some out -> api_join (swap_case c) = Some out' ->
  transpose_spec c out out' = true.
Proof.
  intros c out out' Hv Hws Ho Ho'.
  destruct (model_call c out Hv Ho) as (A1 & A2 & A3 & _ & _ & A6).
  destruct (model_call (swap_case c) out' (valid_swap c Hv) Ho') as (B1 & B2 & B3 & _ & _ & B6).
  apply transpose_law; try assumption. exact (valid_set_case c Hv).
Qed.

Corollary C13_transpose_model_overlap : forall c out out',
  valid_join_case c -> j_entry c = EJoin "OVERLAP" -> j_with_score c = true ->
  api_join c = Some out -> api_join (swap_case c) = Some out' ->
  transpose_spec c out out' = true.
Proof. intros c out out' Hv _. exact (C13_transpose_model_all c out out' Hv). Qed.

(* ================================================================== (3) C13 threshold refinement *)
(* refine_law with the threshold condition restricted to the rows of the tables *)
Definition laxer_rows (c1 c2 : jcase) : Prop :=
  forall l r, In l (j_L c1) -> In r (j_R c1) -> present l = true -> present r = true ->
    cmp_op (j_op c1) (exp_sc c1 (toks_of l) (toks_of r)) (j_t c2) = true ->
    cmp_op (j_op c1) (exp_sc c1 (toks_of l) (toks_of r)) (j_t c1) = true.

Lemma laxer_laxer_rows c1 c2 : laxer c1 c2 -> laxer_rows c1 c2.
Proof. intros H l r _ _ _ _. apply H. Qed.

Theorem refine_law_rows c1 c2 o1 o2 :
  set_case c1 = true -> same_but_t c1 c2 -> laxer_rows c1 c2 ->
  j_with_score c1 = true -> j_with_score c2 = true ->
  complete_spec c1 o1 = true -> sound_spec c1 o1 = true -> missing_spec c1 o1 = true ->
  typed_scores c1 o1 = true ->
  complete_spec c2 o2 = true -> sound_spec c2 o2 = true -> missing_spec c2 o2 = true ->
  typed_scores c2 o2 = true ->
  refine_spec c1 c2 o1 o2 = true.
Proof.
  intros Hset [Ee [Eo [Em [EL ER]]]] Hlax Hw1 Hw2 Hc1 Hs1 Hm1 Ht1 Hc2 Hs2 Hm2 Ht2.
  assert (set_case c2 = true) as Hset2 by (rewrite (set_case_entry c1 c2 Ee); exact Hset).
  assert (forall c', In c' [c1; c2] -> same_tables c1 c') as Hst1.
  { intros c' [<-|[<-|[]]]; split; auto. }
  assert (forall c', In c' [c1; c2] -> same_tables c2 c') as Hst2.
  { intros c' [<-|[<-|[]]]; split; auto. }
  pose proof (keep_determined_typed c1 [c1; c2] o1 Hset Hw1 Hc1 Hs1 Hm1 Ht1 (or_introl eq_refl) Hst1) as D1.
  pose proof (keep_determined_typed c2 [c1; c2] o2 Hset2 Hw2 Hc2 Hs2 Hm2 Ht2 (or_intror (or_introl eq_refl)) Hst2) as D2.
  rewrite EL, ER in D2.
  unfold refine_spec. unfold keep_rows at 1. rewrite filter_comm. fold (keep_rows [c1; c2] o1).
  set (fs := fun o : out_row => is_missing_row c1 o || cmp_op (j_op c2) (snd o) (eff_threshold c2)).
  pose (h := fun l r : row => negb (present l && present r) || cmp_op (j_op c2) (exp_score c1 l r) (j_t c2)).
  assert (determined (j_L c1) (j_R c1) trel (fun l r => negb (exclg [c1; c2] l r))
            (fun l r => exp_in c1 l r && h l r) (exp_score c1) (filter fs (keep_rows [c1; c2] o1))) as D1'.
  { apply determined_filter_score; [exact D1|].
    intros o l r _ Hl Hr _ Hrel. unfold fs, h, is_missing_row. rewrite Hl, Hr.
    rewrite (eff_threshold_set c2 Hset2). f_equal. apply seq_cmp_op. apply trel_seq; exact Hrel. }
  eapply (determined_eq _ _ _ _ _ _ _ _ _ _ _ D1' D2).
  - intros l r [Hfl Hfr] Hg. apply negb_true_iff in Hg. apply (exclg_in c1) in Hg; [|left; reflexivity].
    apply excl1_false in Hg. destruct Hg as [Hbe _].
    destruct (find_row_some _ _ _ Hfl) as [Hl _]. destruct (find_row_some _ _ _ Hfr) as [Hr _].
    unfold h, exp_in, exp_score. destruct (present l && present r) eqn:Ep.
    + destruct (both_empty l r) eqn:Eb; [simpl in Hbe; discriminate Hbe|]. simpl negb. simpl orb.
      apply andb_true_iff in Ep. destruct Ep as [Pl Pr].
      unfold exp_cmp. pose proof (Hlax l r Hl Hr Pl Pr) as Hlax'.
      unfold exp_sc in *. rewrite Ee, Eo. destruct (j_entry c1) as [m|k m|].
      * destruct (cmp_op (j_op c1) (reported_score m (toks_of l) (toks_of r)) (j_t c2));
          [rewrite Hlax' by reflexivity; reflexivity | apply andb_false_r].
      * reflexivity.
      * destruct (cmp_op (j_op c1) (PInt (overlap_sets (toks_of l) (toks_of r))) (j_t c2));
          [rewrite Hlax' by reflexivity; rewrite !andb_true_r; reflexivity | rewrite !andb_false_r; reflexivity].
    + simpl. rewrite andb_true_r. symmetry; exact Em.
  - intros l r s s' _ _ _ H1 H2. rewrite (exp_score_entry c1 c2 l r Ee) in H2.
    exact (trel_exp_score_same c1 l r s s' Hset H1 H2).
Qed.

(* float thresholds t1 <= t2 (as reals), operators >= and >: JACCARD / COSINE / DICE /
   OVERLAP_COEFFICIENT.  The stricter join = the rows of the laxer join whose score meets t2 *)
Lemma valid_laxer_rows_float c1 c2 t1 t2 : valid_join_case c1 ->
  j_t c1 = PFloat t1 -> j_t c2 = PFloat t2 -> fin t1 -> fin t2 -> (FR t1 <= FR t2)%R ->
  (j_op c1 = ">=" \/ j_op c1 = ">") -> laxer_rows c1 c2.
Proof.
  intros [[_ [_ [HL [HR _]]]] [Hop [m [He Hp]]]] E1 E2 F1 F2 Hle Hopc l r Hl Hr Pl Pr.
  pose proof (params_set_measure c1 m Hp) as Hmm.
  assert (Hno : String.eqb m "OVERLAP" = false).
  { destruct Hp as [[Hj _]|[[-> [_ [T [ET _]]]]|[-> _]]]; [|congruence|reflexivity].
    destruct (jcd_cases m Hj) as [-> | [-> | ->]]; reflexivity. }
  unfold exp_sc. rewrite He, E1, E2. intros Hc.
  destruct (reported_fin (toks_of l) (toks_of r) (HL l Hl Pl) (HR r Hr Pr) m (j_op c1) (PFloat t2)
              Hmm Hno Hop Hc) as [g [Eg Fg]].
  rewrite Eg in *. exact (cmp_float_mono (j_op c1) g t1 t2 Fg F1 F2 Hle Hopc Hc).
Qed.

Theorem C13_refine_model_float : forall c1 c2 t1 t2 o1 o2,
  valid_join_case c1 -> valid_join_case c2 -> same_but_t c1 c2 ->
  (j_op c1 = ">=" \/ j_op c1 = ">") ->
  j_t c1 = PFloat t1 -> j_t c2 = PFloat t2 -> fin t1 -> fin t2 -> (FR t1 <= FR t2)%R ->
  j_with_score c1 = true -> j_with_score c2 = true ->
  api_join c1 = Some o1 -> api_join c2 = Some o2 ->
  refine_spec c1 c2 o1 o2 = true.
Proof.
  intros c1 c2 t1 t2 o1 o2 Hv1 Hv2 Hsb Hopc E1 E2 F1 F2 Hle Hw1 Hw2 Ho1 Ho2.
  destruct (model_call c1 o1 Hv1 Ho1) as (A1 & A2 & A3 & _ & A5 & _).
  destruct (model_call c2 o2 Hv2 Ho2) as (B1 & B2 & B3 & _ & B5 & _).
  apply refine_law_rows; try assumption.
  - exact (valid_set_case c1 Hv1).
  - exact (valid_laxer_rows_float c1 c2 t1 t2 Hv1 E1 E2 F1 F2 Hle Hopc).
Qed.

(* JACCARD / COSINE / DICE: the thresholds of valid cases are finite doubles *)
Corollary C13_refine_model_jcd : forall c1 c2 m t1 t2 o1 o2,
  valid_join_case c1 -> valid_join_case c2 -> same_but_t c1 c2 ->
  j_entry c1 = EJoin m -> is_jcd m = true ->
  (j_op c1 = ">=" \/ j_op c1 = ">") ->
  j_t c1 = PFloat t1 -> j_t c2 = PFloat t2 -> (FR t1 <= FR t2)%R ->
  j_with_score c1 = true -> j_with_score c2 = true ->
  api_join c1 = Some o1 -> api_join c2 = Some o2 ->
  refine_spec c1 c2 o1 o2 = true.
Proof.
  intros c1 c2 m t1 t2 o1 o2 Hv1 Hv2 Hsb He Hj Hopc E1 E2 Hle Hw1 Hw2 Ho1 Ho2.
  assert (Henv : forall c t, valid_join_case c -> j_entry c = EJoin m -> j_t c = PFloat t -> fin t).
  { intros c t [_ [_ [m' [He' Hp]]]] Hem Et. rewrite Hem in He'. injection He' as <-.
    destruct Hp as [[_ [t' [Et' Henv]]]|[[-> _]|[-> _]]]; try discriminate Hj.
    rewrite Et in Et'. injection Et' as <-. exact (proj1 (env_t_R t Henv)). }
  assert (He2 : j_entry c2 = EJoin m) by (destruct Hsb as [-> _]; exact He).
  exact (C13_refine_model_float c1 c2 t1 t2 o1 o2 Hv1 Hv2 Hsb Hopc E1 E2
           (Henv c1 t1 Hv1 He E1) (Henv c2 t2 Hv2 He2 E2) Hle Hw1 Hw2 Ho1 Ho2).
Qed.

(* OVERLAP: integer thresholds *)
Theorem C13_refine_model_overlap : forall c1 c2 t1 t2 o1 o2,
  valid_join_case c1 -> valid_join_case c2 -> same_but_t c1 c2 ->
  j_entry c1 = EJoin "OVERLAP" -> (j_op c1 = ">=" \/ j_op c1 = ">") ->
  j_t c1 = PInt t1 -> j_t c2 = PInt t2 -> t1 <= t2 ->
  j_with_score c1 = true -> j_with_score c2 = true ->
  api_join c1 = Some o1 -> api_join c2 = Some o2 ->
  refine_spec c1 c2 o1 o2 = true.
Proof.
  intros c1 c2 t1 t2 o1 o2 Hv1 Hv2 Hsb He Hopc E1 E2 Hle Hw1 Hw2 Ho1 Ho2.
  destruct (model_call c1 o1 Hv1 Ho1) as (A1 & A2 & A3 & _ & A5 & _).
  destruct (model_call c2 o2 Hv2 Ho2) as (B1 & B2 & B3 & _ & B5 & _).
  pose proof (valid_set_case c1 Hv1) as Hset.
  apply refine_law; try assumption.
  apply (laxer_int c1 c2 t1 t2); try assumption.
  rewrite (int_case_join c1 "OVERLAP" He). reflexivity.
Qed.

(* ================================================================== (3) C13 operator partition *)
Definition with_op (c : jcase) (op : string) : jcase :=
  {| j_entry := j_entry c; j_t := j_t c; j_q := j_q c; j_op := op;
     j_allow_empty := j_allow_empty c; j_allow_missing := j_allow_missing c;
     j_with_score := j_with_score c; j_njobs := j_njobs c; j_cpus := j_cpus c;
     j_L := j_L c; j_R := j_R c |}.

Lemma valid_with_op c op : valid_join_case c -> lower_op op -> valid_join_case (with_op c op).
Proof.
  intros [Htab [_ [m [He Hp]]]] Hop. split; [exact Htab|]. split; [exact Hop|].
  exists m. split; [exact He | exact Hp].
Qed.

Lemma with_op_facts c op out : valid_join_case c -> lower_op op ->
  api_join (with_op c op) = Some out ->
  complete_spec (with_op c op) out = true /\ sound_spec (with_op c op) out = true /\
  missing_spec (with_op c op) out = true /\ wf_scores (with_op c op) out = true.
Proof.
  intros Hv Hop Ho.
  destruct (model_call (with_op c op) out (valid_with_op c op Hv Hop) Ho) as (A1 & A2 & A3 & _ & _ & A6).
  repeat split; assumption.
Qed.

Lemma lower_ge : lower_op ">=". Proof. left; reflexivity. Qed.
Lemma lower_gt : lower_op ">". Proof. right; left; reflexivity. Qed.
Lemma lower_eq : lower_op "=". Proof. right; right; reflexivity. Qed.

(* the three operator variants of one valid case, allow_missing = false: `>=` is the disjoint union
   of `>` and `=`, outside the pairs that are gray for one of the three calls *)
Theorem C13_partition_model_nongray : forall c oge ogt oeq,
  valid_join_case c -> j_allow_missing c = false -> j_with_score c = true ->
  api_join (with_op c ">=") = Some oge -> api_join (with_op c ">") = Some ogt ->
  api_join (with_op c "=") = Some oeq ->
  let cs := [with_op c ">="; with_op c ">"; with_op c "="] in
  multiset_eqb (keep_rows cs oge) (keep_rows cs ogt ++ keep_rows cs oeq) = true.
Proof.
  intros c oge ogt oeq Hv Ham Hws Hge Hgt Heq cs.
  apply (partition_nongray (with_op c ">=") (with_op c ">") (with_op c "=") oge ogt oeq);
    try reflexivity; try exact Ham; try exact Hws.
  - exact (valid_set_case _ (valid_with_op c ">=" Hv lower_ge)).
  - repeat split.
  - repeat split.
  - exact (with_op_facts c ">=" oge Hv lower_ge Hge).
  - exact (with_op_facts c ">" ogt Hv lower_gt Hgt).
  - exact (with_op_facts c "=" oeq Hv lower_eq Heq).
Qed.

(* OVERLAP / OVERLAP_COEFFICIENT (no gray pairs): the law exactly as stated in Spec/MetaSpec.v *)
Theorem C13_partition_model_exact : forall c oge ogt oeq,
  valid_join_case c -> no_gray_case c = true -> j_allow_missing c = false -> j_with_score c = true ->
  api_join (with_op c ">=") = Some oge -> api_join (with_op c ">") = Some ogt ->
  api_join (with_op c "=") = Some oeq ->
  partition_spec (with_op c ">=") oge ogt oeq = true.
Proof.
  intros c oge ogt oeq Hv Hng Ham Hws Hge Hgt Heq.
  apply (partition_law_exact (with_op c ">=") (with_op c ">") (with_op c "=") oge ogt oeq);
    try reflexivity; try exact Ham; try exact Hws; try exact Hng.
  - exact (valid_set_case _ (valid_with_op c ">=" Hv lower_ge)).
  - repeat split.
  - repeat split.
  - exact (with_op_facts c ">=" oge Hv lower_ge Hge).
  - exact (with_op_facts c ">" ogt Hv lower_gt Hgt).
  - exact (with_op_facts c "=" oeq Hv lower_eq Heq).
Qed.

(* the same with the executable comparison of the two thresholds *)
Corollary C13_refine_model_jcd_b : forall c1 c2 m t1 t2 o1 o2,
  valid_join_case c1 -> valid_join_case c2 -> same_but_t c1 c2 ->
  j_entry c1 = EJoin m -> is_jcd m = true ->
  (j_op c1 = ">=" \/ j_op c1 = ">") ->
  j_t c1 = PFloat t1 -> j_t c2 = PFloat t2 -> fleb t1 t2 = true ->
  j_with_score c1 = true -> j_with_score c2 = true ->
  api_join c1 = Some o1 -> api_join c2 = Some o2 ->
  refine_spec c1 c2 o1 o2 = true.
Proof.
  intros c1 c2 m t1 t2 o1 o2 Hv1 Hv2 Hsb He Hj Hopc E1 E2 Hle.
  assert (Henv : forall c t, valid_join_case c -> j_entry c = EJoin m -> j_t c = PFloat t -> fin t).
  { intros c t [_ [_ [m' [He' Hp]]]] Hem Et. rewrite Hem in He'. injection He' as <-.
    destruct Hp as [[_ [t' [Et' Henv]]]|[[-> _]|[-> _]]]; try discriminate Hj.
    rewrite Et in Et'. injection Et' as <-. exact (proj1 (env_t_R t Henv)). }
  assert (He2 : j_entry c2 = EJoin m) by (destruct Hsb as [-> _]; exact He).
  apply (C13_refine_model_jcd c1 c2 m t1 t2 o1 o2 Hv1 Hv2 Hsb He Hj Hopc E1 E2).
  exact (fleb_true t1 t2 (Henv c1 t1 Hv1 He E1) (Henv c2 t2 Hv2 He2 E2) Hle).
Qed.

(* ================================================================== non-vacuity: the concrete
   3 x 3 cases of ApiJoinSpec.v (3 left rows, one with a missing value; 3 right rows) *)
Definition exJ (t : f64) (am : bool) (nj : Z) : jcase := with_missing (ex3 "JACCARD" (PFloat t) true nj) am.
Definition exO (T : Z) (am : bool) (nj : Z) : jcase := with_missing (ex3 "OVERLAP" (PInt T) false nj) am.
Definition exC (t : f64) (am : bool) (nj : Z) : jcase := with_missing (ex3 "OVERLAP_COEFFICIENT" (PFloat t) true nj) am.

Lemma exJ_valid t am nj : env_t t = true -> valid_join_case (exJ t am nj).
Proof.
  intros Ht. split; [apply ex3_tables|]. split; [left; reflexivity|].
  exists "JACCARD". split; [reflexivity|]. left. split; [reflexivity|].
  exists t. split; [reflexivity | exact Ht].
Qed.
Lemma exO_valid T am nj : 1 <= T -> valid_join_case (exO T am nj).
Proof.
  intros HT. split; [apply ex3_tables|]. split; [left; reflexivity|].
  exists "OVERLAP". split; [reflexivity|]. right. left. split; [reflexivity|].
  split; [reflexivity|]. exists T. split; [reflexivity | exact HT].
Qed.
Lemma exC_valid am nj : valid_join_case (exC (mkF 1 (-1)) am nj).
Proof.
  split; [apply ex3_tables|]. split; [left; reflexivity|].
  exists "OVERLAP_COEFFICIENT". split; [reflexivity|]. right. right. split; [reflexivity|].
  vm_compute. reflexivity.
Qed.

Definition check2 (f : list out_row -> list out_row -> bool) (a b : option (list out_row)) : bool :=
  match a, b with
  | Some x, Some y => f x y && negb (Nat.eqb (List.length x) 0) && negb (Nat.eqb (List.length y) 0)
  | _, _ => false
  end.
Definition check3 (f : list out_row -> list out_row -> list out_row -> bool)
           (a b c : option (list out_row)) : bool :=
  match a, b, c with
  | Some x, Some y, Some z => f x y z && negb (Nat.eqb (List.length x) 0)
  | _, _, _ => false
  end.

Definition half : f64 := mkF 1 (-1).
Definition three_q : f64 := mkF 3 (-2).

(* the conclusions, by computation *)
Example ex_checks :
  check2 (same_rows_nongray_spec (exJ half true 2))
         (api_join (with_njobs (exJ half true 2) 1 4)) (api_join (with_njobs (exJ half true 2) 3 4)) = true /\
  check2 multiset_eqb
         (api_join (with_njobs (exO 2 true 2) 1 4)) (api_join (with_njobs (exO 2 true 2) 3 2)) = true /\
  check2 (transpose_spec (exO 2 true 3)) (api_join (exO 2 true 3)) (api_join (swap_case (exO 2 true 3))) = true /\
  check2 (refine_spec (exJ half true 2) (exJ three_q true 2))
         (api_join (exJ half true 2)) (api_join (exJ three_q true 2)) = true /\
  check2 (refine_spec (exO 2 true 2) (exO 3 true 2))
         (api_join (exO 2 true 2)) (api_join (exO 3 true 2)) = true /\
  check3 (partition_spec (with_op (exO 2 false 2) ">="))
         (api_join (with_op (exO 2 false 2) ">=")) (api_join (with_op (exO 2 false 2) ">"))
         (api_join (with_op (exO 2 false 2) "=")) = true /\
  check3 (partition_spec (with_op (exC half false 2) ">="))
         (api_join (with_op (exC half false 2) ">=")) (api_join (with_op (exC half false 2) ">"))
         (api_join (with_op (exC half false 2) "=")) = true.
Proof. vm_compute. repeat split; reflexivity. Qed.

(* the theorems applied to the concrete cases *)
Example ex_c10_jaccard : forall o1 o2,
  api_join (with_njobs (exJ half true 2) 1 4) = Some o1 ->
  api_join (with_njobs (exJ half true 2) 3 4) = Some o2 ->
  same_rows_nongray_spec (exJ half true 2) o1 o2 = true.
Proof.
  intros o1 o2 H1 H2.
  apply (C10_jcd_njobs_nongray (exJ half true 2) "JACCARD" 1 4 3 4 o1 o2); try reflexivity; try lia; try assumption.
  apply exJ_valid. vm_compute. reflexivity.
Qed.

Example ex_c13_transpose_overlap : forall o o',
  api_join (exO 2 true 3) = Some o -> api_join (swap_case (exO 2 true 3)) = Some o' ->
  transpose_spec (exO 2 true 3) o o' = true.
Proof.
  intros o o' H1 H2. apply C13_transpose_model_overlap; try reflexivity; try assumption.
  apply exO_valid. lia.
Qed.

Example ex_c13_refine_jaccard : forall o1 o2,
  api_join (exJ half true 2) = Some o1 -> api_join (exJ three_q true 2) = Some o2 ->
  refine_spec (exJ half true 2) (exJ three_q true 2) o1 o2 = true.
Proof.
  intros o1 o2 H1 H2.
  apply (C13_refine_model_jcd_b _ _ "JACCARD" half three_q); try reflexivity; try assumption.
  - apply exJ_valid. vm_compute. reflexivity.
  - apply exJ_valid. vm_compute. reflexivity.
  - repeat split.
  - left. reflexivity.
Qed.

Example ex_c13_partition_ovc : forall oge ogt oeq,
  api_join (with_op (exC half false 2) ">=") = Some oge ->
  api_join (with_op (exC half false 2) ">") = Some ogt ->
  api_join (with_op (exC half false 2) "=") = Some oeq ->
  partition_spec (with_op (exC half false 2) ">=") oge ogt oeq = true.
Proof.
  intros oge ogt oeq H1 H2 H3. apply C13_partition_model_exact; try reflexivity; try assumption.
  apply exC_valid.
Qed.

Print Assumptions C10_model_same_call.
Print Assumptions C10_model_same_call_noscore.
Print Assumptions C10_jcd_njobs_nongray.
Print Assumptions C10_nogray_njobs_exact.
Print Assumptions C10_model_rows.
Print Assumptions C13_transpose_model_all.
Print Assumptions refine_law_rows.
Print Assumptions C13_refine_model_float.
Print Assumptions C13_refine_model_jcd.
Print Assumptions C13_refine_model_overlap.
Print Assumptions C13_partition_model_nongray.
Print Assumptions C13_partition_model_exact.
