(* C14 (refine_filters_spec of Spec/MetaSpec.v) at the API level of the model: on the same tables,
   n_jobs and flags, the rows listed by PositionFilter.filter_tables are listed by
   PrefixFilter.filter_tables (no hypothesis at all) and by SizeFilter.filter_tables (when the
   size filter's early exit "lower bound > probe size" cannot fire on a position candidate:
   J/C/D in the envelope, OVERLAP, EDIT_DISTANCE).  No partition hypothesis is needed: the
   three calls split the right table the same way.                                          *)
From Coq Require Import ZArith Bool List String Lia.
From SSJ Require Import F64 PyNum HelperGen TokenOrdering Measures ArithSpec Filters Joins Api JoinSpec
                        MetaSpec OrderingFacts PyFacts FilterRefine OverlapMeasure SetBridge
                        CoreLiftBase CoreLift ApiLift ApiFilterBase ApiFilterTables.
Import ListNotations.
Open Scope string_scope.
Open Scope list_scope.
Open Scope Z_scope.

Definition with_entry (c : jcase) (e : entry) : jcase :=
  {| j_entry := e; j_t := j_t c; j_q := j_q c; j_op := j_op c;
     j_allow_empty := j_allow_empty c; j_allow_missing := j_allow_missing c;
     j_with_score := j_with_score c; j_njobs := j_njobs c; j_cpus := j_cpus c;
     j_L := j_L c; j_R := j_R c |}.

(* ------------------------------------------------------------------ two calls on the same tables *)
Lemma subset_rows_lift c1 c2 o1 o2 :
  j_L c1 = j_L c2 -> j_R c1 = j_R c2 -> j_njobs c1 = j_njobs c2 -> j_cpus c1 = j_cpus c2 ->
  j_allow_missing c1 = j_allow_missing c2 ->
  api_join c1 = Some o1 -> api_join c2 = Some o2 ->
  (forall Rc l r lst1 lst2, incl Rc (filter present (j_R c2)) -> In l (filter present (j_L c2)) -> In r Rc ->
     core_pf c1 (all_of (filter present (j_L c2)) Rc) (rowval l) (rowval r) = Some lst1 -> lst1 <> [] ->
     core_pf c2 (all_of (filter present (j_L c2)) Rc) (rowval l) (rowval r) = Some lst2 -> lst2 <> []) ->
  subset_rows o1 o2 = true.
Proof.
  intros HL HR Hn Hc Ham H1 H2 Hp. rewrite api_join_eq in H1, H2. rewrite HL, HR, Hn, Hc in H1.
  destruct (chunks_of (j_njobs c2) (j_cpus c2) (filter present (j_R c2))) as [chs|] eqn:Ech; [|discriminate].
  destruct (opt_concat (map (fun ch : nat * list row => kcore c1 (filter present (j_L c2)) (snd ch)) chs))
    as [rows1|] eqn:Eo1; [|discriminate].
  destruct (opt_concat (map (fun ch : nat * list row => kcore c2 (filter present (j_L c2)) (snd ch)) chs))
    as [rows2|] eqn:Eo2; [|discriminate].
  simpl in H1, H2. injection H1 as <-. injection H2 as <-.
  unfold subset_rows. apply forallb_forall. intros [[lk rk] s] Hin. cbn [fst snd].
  apply has_pair_In. apply post_In in Hin. rewrite HL, HR, Ham in Hin.
  destruct Hin as [[s0 [Hin _]]|Hm].
  2:{ exists s. apply post_In. right. exact Hm. }
  rewrite (opt_concat_In _ _ Eo1) in Hin. destruct Hin as [x [Hx Hin]].
  apply in_map_iff in Hx. destruct Hx as [ch [Ek Hch]].
  rewrite (kcore_In _ _ _ _ Ek) in Hin. destruct Hin as [l [r [lst1 [Hl [Hr [-> [-> [Epf Hs]]]]]]]].
  destruct (kcore c2 (filter present (j_L c2)) (snd ch)) as [res2|] eqn:Ek2.
  2:{ exfalso. assert (Hn' : In None (map (fun ch : nat * list row => kcore c2 (filter present (j_L c2)) (snd ch)) chs)).
      { apply in_map_iff. exists ch. auto. }
      apply opt_concat_None_iff in Hn'. congruence. }
  pose proof Ek2 as Ek2'. rewrite kcore_kloop in Ek2'. destruct (core_ok c2); [|discriminate].
  destruct (core_pf c2 (all_of (filter present (j_L c2)) (snd ch)) (rowval l) (rowval r)) as [lst2|] eqn:E2.
  2:{ exfalso. assert (Hn' : kloop (core_pf c2 (all_of (filter present (j_L c2)) (snd ch)))
                                  (fun r : row => fst r) (fun r : row => fst r) rowval rowval
                                  (filter present (j_L c2)) (snd ch) = None).
      { apply kloop_None_iff. exists l, r. auto. }
      congruence. }
  assert (Hne : lst2 <> []).
  { apply (Hp (snd ch) l r lst1 lst2); try assumption.
    - apply (chunks_of_incl _ _ _ _ _ Ech Hch).
    - intros E. subst lst1. destruct Hs. }
  destruct lst2 as [|s2 lst2]; [congruence|].
  exists (rep_score c2 s2). apply post_In. left. exists s2. split; [|reflexivity].
  rewrite (opt_concat_In _ _ Eo2). exists res2. split; [apply in_map_iff; exists ch; auto|].
  rewrite (kcore_In _ _ _ _ Ek2). exists l, r, (s2 :: lst2). repeat split; try assumption. left; reflexivity.
Qed.

(* ------------------------------------------------------------------ pair level *)
Lemma ft_pair_pos_prefix p ae X Y lst1 lst2 :
  ft_pair KPosition p ae X Y = Some lst1 -> lst1 <> [] -> ft_pair KPrefix p ae X Y = Some lst2 -> lst2 <> [].
Proof.
  unfold ft_pair. destruct (ft_handle_empty p ae && (len Y =? 0)); [congruence|].
  unfold filter_cand. destruct (pos_cand p X Y) as [v|] eqn:Ev; [|discriminate]. cbn [option_map].
  destruct (Z.ltb_spec 0 v) as [Hv|Hv]; [|intros H; injection H as <-; congruence].
  rewrite (pos_cand_prefix_cand p X Y v Ev Hv). cbn [option_map]. intros _ _ H. injection H as <-. discriminate.
Qed.

Lemma ft_pair_pos_size p ae X Y lst1 lst3 :
  (forall v, pos_cand p X Y = Some v -> 0 < v -> size_cand p (len X) (len Y) = true) ->
  ft_pair KPosition p ae X Y = Some lst1 -> lst1 <> [] -> ft_pair KSize p ae X Y = Some lst3 -> lst3 <> [].
Proof.
  intros Hps. unfold ft_pair. destruct (ft_handle_empty p ae && (len Y =? 0)); [congruence|].
  unfold filter_cand. destruct (pos_cand p X Y) as [v|] eqn:Ev; [|discriminate]. cbn [option_map].
  destruct (Z.ltb_spec 0 v) as [Hv|Hv]; [|intros H; injection H as <-; congruence].
  rewrite (Hps v eq_refl Hv). cbn [option_map]. intros _ _ H. injection H as <-. discriminate.
Qed.

(* the early exit of SizeFilter.find_candidates cannot fire on a position candidate *)
Lemma pos_size_jcd m t q X Y v : is_jcd m = true -> env_t t = true -> len Y < size_bound ->
  let p := {| fm := m; ft := PFloat t; fq := q |} in
  pos_cand p X Y = Some v -> 0 < v -> size_cand p (len X) (len Y) = true.
Proof.
  intros Hm Ht Hb p Ev Hv. destruct (pos_cand_nonempty p X Y v Ev Hv) as [_ HY].
  destruct (jcd_F m Hm) as [_ [_ [_ H5]]].
  destruct (g_total m H5 t q Ht (len Y)) as [lb [ub [pl [Elb [_ [_ [Hlb _]]]]]]]; [lia|].
  apply (pos_cand_size_cand_int p X Y v lb Ev Hv Elb). lia.
Qed.

Lemma pos_size_ed q tau X Y v : 0 <= tau ->
  pos_cand (FilterRefine.edp q tau) X Y = Some v -> 0 < v ->
  size_cand (FilterRefine.edp q tau) (len X) (len Y) = true.
Proof. intros Ht. apply pos_cand_size_cand_ed. exact Ht. Qed.

Lemma pos_size_ov T q X Y v :
  pos_cand (ovp T q) X Y = Some v -> 0 < v -> size_cand (ovp T q) (len X) (len Y) = true.
Proof.
  intros Ev Hv. destruct (pos_cand_nonempty _ X Y v Ev Hv) as [_ HY].
  destruct (Z.le_gt_cases T (len Y)) as [Hle|Hgt].
  - apply (pos_cand_size_cand_int _ X Y v T Ev Hv (g_lb_ov T q (len Y)) Hle).
  - exfalso. unfold pos_cand in Ev. rewrite (g_pl_ov T q (len Y)) in Ev.
    destruct (Z.eqb_spec (len Y) 0) as [E0|_]; [lia|].
    replace (Z.max (len Y - T + 1) 0) with 0 in Ev by lia.
    destruct (slice0 (g_pl (ovp T q) (len X)) X) as [xp|]; [|discriminate].
    cbn [slice0 Z.ltb Z.compare Z.to_nat firstn pos_loop] in Ev. injection Ev as <-. lia.
Qed.

(* ------------------------------------------------------------------ API level *)
Section Refine.
  Variable c : jcase.
  Variable m : string.
  Let cP := with_entry c (EFilter KPosition m).
  Let cR := with_entry c (EFilter KPrefix m).
  Let cS := with_entry c (EFilter KSize m).
  Local Notation Lp := (filter present (j_L c)).
  Local Notation Rp := (filter present (j_R c)).

  Theorem refine_prefix : forall o1 o2, api_join cP = Some o1 -> api_join cR = Some o2 ->
    subset_rows o1 o2 = true.
  Proof.
    intros o1 o2 H1 H2. apply (subset_rows_lift cP cR o1 o2); try reflexivity; try assumption.
    intros Rc l r lst1 lst2 _ _ _ E1 Hne E2.
    rewrite (ft_core_pf cP KPosition m) in E1 by reflexivity.
    rewrite (ft_core_pf cR KPrefix m) in E2 by reflexivity.
    apply (ft_pair_pos_prefix _ _ _ _ lst1 lst2 E1 Hne E2).
  Qed.

  Theorem refine_size_gen :
    (forall Rc l r v, incl Rc Rp -> In l Lp -> In r Rc ->
       pos_cand (jparams c m) (order (all_of Lp Rc) (toks_of l)) (order (all_of Lp Rc) (toks_of r)) = Some v ->
       0 < v ->
       size_cand (jparams c m) (len (order (all_of Lp Rc) (toks_of l)))
                 (len (order (all_of Lp Rc) (toks_of r))) = true) ->
    forall o1 o3, api_join cP = Some o1 -> api_join cS = Some o3 -> subset_rows o1 o3 = true.
  Proof.
    intros Hps o1 o3 H1 H3. apply (subset_rows_lift cP cS o1 o3); try reflexivity; try assumption.
    intros Rc l r lst1 lst3 Hi Hl Hr E1 Hne E3.
    rewrite (ft_core_pf cP KPosition m) in E1 by reflexivity.
    rewrite (ft_core_pf cS KSize m) in E3 by reflexivity.
    apply (ft_pair_pos_size _ _ _ _ lst1 lst3 (fun v => Hps Rc l r v Hi Hl Hr) E1 Hne E3).
  Qed.
End Refine.

(* measures and thresholds for which the size part holds *)
Inductive thr3 (c : jcase) (m : string) : Prop :=
| thr3_jcd tf : is_jcd m = true -> j_t c = PFloat tf -> env_t tf = true ->
                (forall r, In r (j_R c) -> len (toks_of r) < size_bound) -> thr3 c m
| thr3_ov T : m = "OVERLAP" -> j_t c = PInt T -> thr3 c m
| thr3_ed tau : m = "EDIT_DISTANCE" -> j_t c = PInt tau -> 0 <= tau -> thr3 c m.

Theorem C14_refine_filters : forall c m o1 o2 o3, thr3 c m ->
  api_join (with_entry c (EFilter KPosition m)) = Some o1 ->
  api_join (with_entry c (EFilter KPrefix m)) = Some o2 ->
  api_join (with_entry c (EFilter KSize m)) = Some o3 ->
  refine_filters_spec o1 o2 o3 = true.
Proof.
  intros c m o1 o2 o3 Ht H1 H2 H3. unfold refine_filters_spec.
  rewrite (refine_prefix c m o1 o2 H1 H2). cbn [andb].
  apply (refine_size_gen c m); [|exact H1|exact H3].
  intros Rc l r v Hi Hl Hr Ev Hv. unfold jparams in *.
  destruct Ht as [tf Hm Et Henv Hb | T -> Et | tau -> Et Htau]; rewrite Et in *.
  - apply (pos_size_jcd m tf (j_q c) _ _ v Hm Henv); [|exact Ev|exact Hv].
    rewrite len_order by (apply toks_incl_all_r; exact Hr).
    apply Hi in Hr. apply filter_In in Hr. apply Hb. tauto.
  - apply (pos_size_ov T (j_q c) _ _ v Ev Hv).
  - apply (pos_size_ed (j_q c) tau _ _ v Htau Ev Hv).
Qed.

(* ------------------------------------------------------------------ example *)
Definition rf_ex (m : string) (t : pyval) : jcase :=
  {| j_entry := EOverlapFilter; j_t := t; j_q := 2; j_op := ">="; j_allow_empty := true;
     j_allow_missing := true; j_with_score := false; j_njobs := 3; j_cpus := 4;
     j_L := [(1, Some ([], [1; 2; 3; 4])); (2, None); (3, Some ([], [])); (4, Some ([], [5; 2; 1]));
             (5, Some ([], [9; 8; 7; 6]))];
     j_R := [(7, Some ([], [2; 1; 9; 4])); (8, Some ([], [])); (9, None); (6, Some ([], [3; 5]));
             (10, Some ([], [6; 7; 8; 1]))] |}.

Example rf_ex_check :
  forallb (fun mt : string * pyval =>
    let c := rf_ex (fst mt) (snd mt) in
    match api_join (with_entry c (EFilter KPosition (fst mt))),
          api_join (with_entry c (EFilter KPrefix (fst mt))),
          api_join (with_entry c (EFilter KSize (fst mt))) with
    | Some o1, Some o2, Some o3 => refine_filters_spec o1 o2 o3 && negb (Nat.eqb (List.length o1) 0)
    | _, _, _ => false
    end) [("JACCARD", PFloat (mkF 1 (-1))); ("COSINE", PFloat (mkF 1 (-1))); ("OVERLAP", PInt 2);
          ("EDIT_DISTANCE", PInt 1)] = true.
Proof. vm_compute. reflexivity. Qed.

Print Assumptions subset_rows_lift.
Print Assumptions refine_prefix.
Print Assumptions refine_size_gen.
Print Assumptions C14_refine_filters.
