(* C11 stated about the frame a GENERATED wrapper returns, part 1: the generic step.

   Every generated wrapper's result is described by WrapperBody.body_result with Q = WrapperApiLink.chunk_ok
   (the three set-similarity wrappers through WrapperRefine.wrapper_result, converted here):

       sframe (header_spec c) (numbered (concat RS ++ missing-value rows)).

   This file reads that description CELL BY CELL:

   * `header_spec_spelled`  : the header, spelled out (_id, prefixed keys, the two requested lists with the key
                              and repeats removed, order kept, prefixed, _sim_score iff requested);
                              `header_at_lpos` / `header_at_rpos`: the header position of a requested attribute;
   * `cells_spec_nth_*`     : reading one cell of `cells_spec` at the position of an attribute;
   * `projects c i lrow rrow s row` : row = [PInt i] ++ cells ++ [s if p_score], cells_spec c lrow rrow = Some cells;
     `row_reads`            : the same, position by position -- `nth 0` is the row number, `nth 1` / `nth 2` are
                              the key cells of the two source rows, the cell under the header of every requested
                              attribute IS the cell of that attribute in the source row, the last cell is the score;
   * `C11_frame`            : the returned value is `sframe (header_spec c) rows` and EVERY row (by position) has a
                              left source row in lsrc and a right source row in rsrc with `projects` + `row_reads`,
                              and is either a row of the model core on some chunk (`core_row`: normal rows AND the
                              rows of the empty-set branch -- they are ordinary triples of the core K) or a row of
                              the missing-value branch (`missing_row`: score NaN, one of the join values missing);
   * `C11_body_cells`       : body_result ... (chunk_ok c lsrc K) lhs -> C11_frame lhs;
   * `wrapper_result_body`  : WrapperRefine.wrapper_result -> body_result (for jaccard / cosine / dice);
   * `C11_sources_unique`   : with unique keys, the two source rows are THE rows identified by the row's key cells.
   Axiom-free.                                                                                              *)
From Coq Require Import ZArith Bool List String Lia Permutation PeanoNat.
From SSJ Require Import F64 PyNum FilterUtilsGen HelperGen Measures Filters Joins
     Projection ProjSpec ProjectionFacts JoinRefineProj Frame WrapperRefineFrame WrapperRefineMissing
     WrapperRefineCore WrapperRefine WrapperBody WrapperApiLink CodeLevelBase CodeLevelRelBase.
Import ListNotations.
Open Scope string_scope.
Open Scope list_scope.
Open Scope Z_scope.

(* ------------------------------------------------------------------ the header, spelled out *)
Lemma header_spec_spelled c :
  header_spec c
  = ["_id"; (p_lpre c ++ p_lkey c)%string; (p_rpre c ++ p_rkey c)%string]
    ++ map (append (p_lpre c)) (dedupe_out (p_lkey c) (p_lout c))
    ++ map (append (p_rpre c)) (dedupe_out (p_rkey c) (p_rout c))
    ++ (if p_score c then ["_sim_score"] else []).
Proof. reflexivity. Qed.

(* "no attribute at all is requested" *)
Lemma dedupe_out_None key : dedupe_out key None = [].
Proof. reflexivity. Qed.
Lemma header_spec_no_attrs c : p_lout c = None -> p_rout c = None ->
  header_spec c = ["_id"; (p_lpre c ++ p_lkey c)%string; (p_rpre c ++ p_rkey c)%string]
                  ++ (if p_score c then ["_sim_score"] else []).
Proof. intros El Er. rewrite header_spec_spelled, El, Er. reflexivity. Qed.

(* header position of a requested left / right attribute *)
Definition lpos (c : pcase) (a : string) : nat := 3 + posn a (dedupe_out (p_lkey c) (p_lout c)).
Definition rpos (c : pcase) (a : string) : nat :=
  3 + List.length (dedupe_out (p_lkey c) (p_lout c)) + posn a (dedupe_out (p_rkey c) (p_rout c)).
(* position of the score column *)
Definition spos (c : pcase) : nat :=
  3 + List.length (dedupe_out (p_lkey c) (p_lout c)) + List.length (dedupe_out (p_rkey c) (p_rout c)).

Lemma header_spec_length c :
  List.length (header_spec c) = (spos c + if p_score c then 1 else 0)%nat.
Proof.
  rewrite header_spec_spelled. unfold spos. rewrite !app_length, !map_length. cbn [List.length].
  destruct (p_score c); cbn [List.length]; lia.
Qed.

Lemma nth_posn_map_str (f : string -> string) a l d : In a l -> nth (posn a l) (map f l) d = f a.
Proof.
  induction l as [|x l IH]; intros Hin; [destruct Hin|].
  rewrite posn_cons. cbn [map].
  destruct (String.eqb x a) eqn:Hc.
  - apply String.eqb_eq in Hc. now subst.
  - destruct Hin as [->|Hin]; [now rewrite String.eqb_refl in Hc|].
    rewrite (pos_of_In _ _ Hin). cbn [nth]. apply IH. exact Hin.
Qed.

Lemma header_at_lpos c a : In a (dedupe_out (p_lkey c) (p_lout c)) ->
  nth (lpos c a) (header_spec c) "" = (p_lpre c ++ a)%string.
Proof.
  intros Ha. rewrite header_spec_spelled. unfold lpos. cbn [app plus nth].
  rewrite app_nth1 by (rewrite map_length; apply posn_lt; exact Ha).
  apply nth_posn_map_str. exact Ha.
Qed.
Lemma header_at_rpos c a : In a (dedupe_out (p_rkey c) (p_rout c)) ->
  nth (rpos c a) (header_spec c) "" = (p_rpre c ++ a)%string.
Proof.
  intros Ha. rewrite header_spec_spelled. unfold rpos. cbn [app plus nth].
  rewrite app_nth2 by (rewrite map_length; lia). rewrite map_length.
  replace (List.length (dedupe_out (p_lkey c) (p_lout c)) + posn a (dedupe_out (p_rkey c) (p_rout c))
           - List.length (dedupe_out (p_lkey c) (p_lout c)))%nat
    with (posn a (dedupe_out (p_rkey c) (p_rout c))) by lia.
  rewrite app_nth1 by (rewrite map_length; apply posn_lt; exact Ha).
  apply nth_posn_map_str. exact Ha.
Qed.
Lemma header_at_keys c :
  nth 0 (header_spec c) "" = "_id" /\
  nth 1 (header_spec c) "" = (p_lpre c ++ p_lkey c)%string /\
  nth 2 (header_spec c) "" = (p_rpre c ++ p_rkey c)%string.
Proof. repeat split; reflexivity. Qed.
Lemma header_at_spos c : p_score c = true -> nth (spos c) (header_spec c) "" = "_sim_score".
Proof.
  intros Hs. rewrite header_spec_spelled, Hs. unfold spos. cbn [app plus nth].
  rewrite app_nth2 by (rewrite map_length; lia). rewrite map_length.
  rewrite app_nth2 by (rewrite map_length; lia). rewrite map_length.
  match goal with |- nth ?n _ _ = _ => replace n with 0%nat by lia end. reflexivity.
Qed.

(* ------------------------------------------------------------------ reading a cell of cells_spec *)
Lemma all_some_nth {A} (l : list (option A)) (r : list A) (n : nat) (d : A) :
  all_some l = Some r -> (n < List.length l)%nat -> nth n l None = Some (nth n r d).
Proof.
  revert r n. induction l as [|o l IH]; intros r n H Hn; [cbn [List.length] in Hn; lia|].
  cbn [all_some] in H. destruct o as [x|]; [|discriminate H].
  destruct (all_some l) as [r'|] eqn:E; [|discriminate H]. injection H as <-.
  destruct n as [|n]; [reflexivity|]. cbn [nth]. apply IH; [reflexivity | cbn [List.length] in Hn; lia].
Qed.
Lemma all_some_length {A} (l : list (option A)) (r : list A) :
  all_some l = Some r -> List.length r = List.length l.
Proof.
  revert r. induction l as [|o l IH]; intros r H.
  - injection H as <-. reflexivity.
  - cbn [all_some] in H. destruct o as [x|]; [|discriminate H].
    destruct (all_some l) as [r'|] eqn:E; [|discriminate H]. injection H as <-.
    cbn [List.length]. now rewrite (IH r' eq_refl).
Qed.

Section CellsSpecNth.
  Variables (c : pcase) (lrow rrow cells : list pyval).
  Hypothesis Es : cells_spec c lrow rrow = Some cells.
  Let lo := dedupe_out (p_lkey c) (p_lout c).
  Let ro := dedupe_out (p_rkey c) (p_rout c).

  Lemma cells_spec_len : List.length cells = (2 + List.length lo + List.length ro)%nat.
  Proof.
    unfold cells_spec in Es. rewrite (all_some_length _ _ Es). cbn [List.length].
    rewrite app_length, !map_length. reflexivity.
  Qed.
  (* the key cells *)
  Lemma cells_spec_nth_lkey : cell_of (p_lcols c) lrow (p_lkey c) = Some (nth 0 cells PNone).
  Proof.
    unfold cells_spec in Es. rewrite <- (all_some_nth _ _ 0 PNone Es); [reflexivity | cbn [List.length]; lia].
  Qed.
  Lemma cells_spec_nth_rkey : cell_of (p_rcols c) rrow (p_rkey c) = Some (nth 1 cells PNone).
  Proof.
    unfold cells_spec in Es. rewrite <- (all_some_nth _ _ 1 PNone Es); [reflexivity | cbn [List.length]; lia].
  Qed.
  (* a requested left attribute: the cell at its position is the cell NAMED a of the left source row *)
  Lemma cells_spec_nth_l a : In a lo ->
    cell_of (p_lcols c) lrow a = Some (nth (2 + posn a lo) cells PNone).
  Proof.
    intros Ha. unfold cells_spec in Es. fold lo ro in Es.
    rewrite <- (all_some_nth _ _ (2 + posn a lo) PNone Es).
    - cbn [plus nth]. rewrite app_nth1 by (rewrite map_length; apply posn_lt; exact Ha).
      clear Es. induction lo as [|x l IH]; [destruct Ha|].
      rewrite posn_cons. cbn [map]. destruct (String.eqb x a) eqn:Hc.
      + apply String.eqb_eq in Hc. now subst.
      + destruct Ha as [->|Ha]; [now rewrite String.eqb_refl in Hc|].
        rewrite (pos_of_In _ _ Ha). cbn [nth]. apply IH. exact Ha.
    - cbn [List.length]. rewrite app_length, !map_length. pose proof (posn_lt a lo Ha). lia.
  Qed.
  Lemma cells_spec_nth_r a : In a ro ->
    cell_of (p_rcols c) rrow a = Some (nth (2 + List.length lo + posn a ro) cells PNone).
  Proof.
    intros Ha. unfold cells_spec in Es. fold lo ro in Es.
    rewrite <- (all_some_nth _ _ (2 + List.length lo + posn a ro) PNone Es).
    - cbn [plus nth]. rewrite app_nth2 by (rewrite map_length; lia). rewrite map_length.
      replace (List.length lo + posn a ro - List.length lo)%nat with (posn a ro) by lia.
      clear Es. induction ro as [|x l IH]; [destruct Ha|].
      rewrite posn_cons. cbn [map]. destruct (String.eqb x a) eqn:Hc.
      + apply String.eqb_eq in Hc. now subst.
      + destruct Ha as [->|Ha]; [now rewrite String.eqb_refl in Hc|].
        rewrite (pos_of_In _ _ Ha). cbn [nth]. apply IH. exact Ha.
    - cbn [List.length]. rewrite app_length, !map_length. pose proof (posn_lt a ro Ha). lia.
  Qed.
End CellsSpecNth.

(* cells_spec of a source row that does not exist is undefined *)
Lemma cell_of_nil cols a : cell_of cols [] a = None.
Proof. destruct cols; reflexivity. Qed.
Lemma cells_spec_nil_l c rrow : cells_spec c [] rrow = None.
Proof. unfold cells_spec. cbn [all_some]. now rewrite cell_of_nil. Qed.
Lemma cells_spec_nil_r c lrow : cells_spec c lrow [] = None.
Proof.
  unfold cells_spec. cbn [all_some]. rewrite (cell_of_nil (p_rcols c)).
  destruct (cell_of (p_lcols c) lrow (p_lkey c)); reflexivity.
Qed.

(* ------------------------------------------------------------------ one row of a returned frame *)
(* row = [_id] ++ declarative projection of the two source rows ++ [score iff requested] *)
Definition projects (c : pcase) (i : nat) (lrow rrow : list pyval) (s : pyval) (row : list pyval) : Prop :=
  exists cells, cells_spec c lrow rrow = Some cells /\
    row = PInt (Z.of_nat i) :: cells ++ (if p_score c then [s] else []).

(* the same, position by position *)
Definition row_reads (c : pcase) (i : nat) (lrow rrow : list pyval) (s : pyval) (row : list pyval) : Prop :=
  List.length row = List.length (header_spec c) /\
  nth 0 row PNone = PInt (Z.of_nat i) /\
  nth 1 row PNone = cellv (p_lcols c) lrow (p_lkey c) /\
  nth 2 row PNone = cellv (p_rcols c) rrow (p_rkey c) /\
  (forall a, In a (dedupe_out (p_lkey c) (p_lout c)) ->
     nth (lpos c a) (header_spec c) "" = (p_lpre c ++ a)%string /\
     nth (lpos c a) row PNone = cellv (p_lcols c) lrow a) /\
  (forall a, In a (dedupe_out (p_rkey c) (p_rout c)) ->
     nth (rpos c a) (header_spec c) "" = (p_rpre c ++ a)%string /\
     nth (rpos c a) row PNone = cellv (p_rcols c) rrow a) /\
  (p_score c = true ->
     nth (spos c) (header_spec c) "" = "_sim_score" /\ nth (spos c) row PNone = s /\ last row PNone = s) /\
  (p_score c = false -> List.length row = spos c).

Lemma Some_inj {A} (x y : A) : Some x = Some y -> x = y.
Proof. intros H. now injection H. Qed.

Lemma projects_reads c i lrow rrow s row : well_formed c ->
  List.length lrow = List.length (p_lcols c) -> List.length rrow = List.length (p_rcols c) ->
  projects c i lrow rrow s row -> row_reads c i lrow rrow s row.
Proof.
  intros Hwf Hl Hr (cells & Es & ->).
  pose proof (cells_spec_len c lrow rrow cells Es) as Hlen.
  destruct Hwf as [Hlk Hlj Hlo Hrk Hrj Hro].
  assert (Lt : forall n d, (n < List.length cells)%nat ->
            nth n (cells ++ (if p_score c then [s] else [])) d = nth n cells d)
    by (intros n d Hn; apply app_nth1; exact Hn).
  unfold row_reads. split; [|split; [|split; [|split; [|split; [|split; [|split]]]]]].
  - rewrite header_spec_length. cbn [List.length]. rewrite app_length, Hlen. unfold spos.
    destruct (p_score c); cbn [List.length]; lia.
  - reflexivity.
  - cbn [nth]. rewrite Lt by lia. apply Some_inj.
    rewrite <- (cells_spec_nth_lkey c lrow rrow cells Es). apply cell_of_cellv; assumption.
  - cbn [nth]. rewrite Lt by lia. apply Some_inj.
    rewrite <- (cells_spec_nth_rkey c lrow rrow cells Es). apply cell_of_cellv; assumption.
  - intros a Ha. split; [apply header_at_lpos; exact Ha|].
    unfold lpos. cbn [plus nth].
    pose proof (posn_lt a _ Ha) as Hp. rewrite Lt by lia. apply Some_inj.
    pose proof (cells_spec_nth_l c lrow rrow cells Es a Ha) as E. cbn [plus] in E. rewrite <- E.
    apply cell_of_cellv; [|exact Hl]. apply Hlo. eapply dedupe_out_incl. exact Ha.
  - intros a Ha. split; [apply header_at_rpos; exact Ha|].
    unfold rpos. cbn [plus nth].
    pose proof (posn_lt a _ Ha) as Hp. rewrite Lt by lia. apply Some_inj.
    pose proof (cells_spec_nth_r c lrow rrow cells Es a Ha) as E. cbn [plus] in E. rewrite <- E.
    apply cell_of_cellv; [|exact Hr]. apply Hro. eapply dedupe_out_incl. exact Ha.
  - intros Hs. split; [apply header_at_spos; exact Hs|]. rewrite Hs. split.
    + unfold spos. cbn [plus nth]. rewrite app_nth2 by lia.
      match goal with |- nth ?n _ _ = _ => replace n with 0%nat by lia end. reflexivity.
    + change (PInt (Z.of_nat i) :: cells ++ [s]) with ((PInt (Z.of_nat i) :: cells) ++ [s]). apply last_last.
  - intros Hs. rewrite Hs, app_nil_r. cbn [List.length]. rewrite Hlen. unfold spos. lia.
Qed.

(* "including when the join attribute itself is requested", and the key: for EVERY name in the list passed
   as l_out_attrs there is a column with the prefixed name holding the source cell *)
Lemma requested_left c i lrow rrow s row l a : row_reads c i lrow rrow s row ->
  p_lout c = Some l -> In a l ->
  exists k, nth k (header_spec c) "" = (p_lpre c ++ a)%string /\ nth k row PNone = cellv (p_lcols c) lrow a.
Proof.
  intros (_ & _ & Hk & _ & Hlo & _) El Ha.
  destruct (String.eqb a (p_lkey c)) eqn:E.
  - apply String.eqb_eq in E. subst a. exists 1%nat. split; [reflexivity | exact Hk].
  - apply String.eqb_neq in E. exists (lpos c a). apply Hlo. rewrite El. apply dedupe_out_In. split; assumption.
Qed.
Lemma requested_right c i lrow rrow s row l a : row_reads c i lrow rrow s row ->
  p_rout c = Some l -> In a l ->
  exists k, nth k (header_spec c) "" = (p_rpre c ++ a)%string /\ nth k row PNone = cellv (p_rcols c) rrow a.
Proof.
  intros (_ & _ & _ & Hk & _ & Hro & _) El Ha.
  destruct (String.eqb a (p_rkey c)) eqn:E.
  - apply String.eqb_eq in E. subst a. exists 2%nat. split; [reflexivity | exact Hk].
  - apply String.eqb_neq in E. exists (rpos c a). apply Hro. rewrite El. apply dedupe_out_In. split; assumption.
Qed.

(* ------------------------------------------------------------------ the _id column, by position *)
Lemma nth_numbered_gen (rows : list (list pyval)) : forall k i, (i < List.length rows)%nat ->
  nth i (map (fun xr : pyval * list pyval => fst xr :: snd xr)
             (combine (map (fun k => PInt (Z.of_nat k)) (seq k (List.length rows))) rows)) []
  = PInt (Z.of_nat (k + i)) :: nth i rows [].
Proof.
  induction rows as [|r rows IH]; intros k i Hi; [cbn [List.length] in Hi; lia|].
  cbn [List.length]. rewrite numbered_from_cons. destruct i as [|i].
  - cbn [nth]. now rewrite Nat.add_0_r.
  - cbn [nth]. rewrite IH by (cbn [List.length] in Hi; lia). f_equal. f_equal. lia.
Qed.
Lemma nth_numbered rows i : (i < List.length rows)%nat ->
  nth i (numbered rows) [] = PInt (Z.of_nat i) :: nth i rows [].
Proof. intros Hi. unfold numbered. now rewrite nth_numbered_gen. Qed.

(* ------------------------------------------------------------------ the frame of a wrapper body *)
Section BodyCells.
  Variables (c : pcase) (am : bool) (njobs cpus : Z).
  Variables (lsrc rsrc : list (list pyval)).
  Variable bs : list (nat * nat).
  Variable K : list (list pyval) -> option (list triple).
  (* what is known of the scores of the model core (e.g. "is a float") *)
  Variable Sc : pyval -> Prop.

  Hypothesis Hwf : well_formed c.
  Hypothesis Hlsrc : forall row, In row lsrc -> List.length row = List.length (p_lcols c) /\ ProjSpec.row_ok row.
  Hypothesis Hrsrc : forall row, In row rsrc -> List.length row = List.length (p_rcols c) /\ ProjSpec.row_ok row.
  Hypothesis HSc : forall ch T tr, In ch (wchunks c njobs cpus rsrc bs) -> K ch = Some T -> In tr T -> Sc (snd tr).

  (* a row computed by the per-chunk core: triple (a, b, s) of the MODEL core K on chunk ch, i.e. left row number
     a of the rows with a present join value and row number b of the chunk.  Rows of the empty-set branch
     (allow_empty) are such rows: the branch is part of K. *)
  Definition core_row (lrow rrow : list pyval) (s : pyval) : Prop :=
    exists ch T a b,
      In ch (wchunks c njobs cpus rsrc bs) /\ K ch = Some T /\ In (a, b, s) T /\
      (a < List.length (lpresent c lsrc))%nat /\ (b < List.length ch)%nat /\
      lrow = nth a (lpresent c lsrc) [] /\ rrow = nth b ch [] /\
      In lrow (lpresent c lsrc) /\ In rrow (rpresent c rsrc) /\ Sc s.
  (* a row of the missing-value branch: allow_missing, a missing join value on one side, score NaN *)
  Definition missing_row (lrow rrow : list pyval) (s : pyval) : Prop :=
    am = true /\ s = py_nan /\ (l_missing c lrow = true \/ r_missing c rrow = true).

  Definition C11_frame (lhs : pyval) : Prop :=
    exists rows : list (list pyval),
      lhs = sframe (header_spec c) rows /\
      forall i, (i < List.length rows)%nat ->
        exists lrow rrow s,
          In lrow lsrc /\ In rrow rsrc /\
          projects c i lrow rrow s (nth i rows []) /\
          row_reads c i lrow rrow s (nth i rows []) /\
          (core_row lrow rrow s \/ missing_row lrow rrow s).

  (* a present row has a present join value *)
  Lemma lpresent_not_missing row : In row (lpresent c lsrc) -> l_missing c row = false.
  Proof. intros H. apply filter_In in H. destruct H as [_ H]. unfold present_row in H. now apply negb_true_iff in H. Qed.
  Lemma rpresent_not_missing row : In row (rpresent c rsrc) -> r_missing c row = false.
  Proof. intros H. apply filter_In in H. destruct H as [_ H]. unfold present_row in H. now apply negb_true_iff in H. Qed.

  (* the rows of one chunk *)
  Lemma chunk_rows_cells ch rows : In ch (wchunks c njobs cpus rsrc bs) -> chunk_ok c lsrc K ch rows ->
    forall r, In r rows ->
      exists lrow rrow s cells, In lrow lsrc /\ In rrow rsrc /\ cells_spec c lrow rrow = Some cells /\
        r = cells ++ (if p_score c then [s] else []) /\ core_row lrow rrow s.
  Proof using HSc.
    intros Hin (T & ET & Perm & Hcells) r Hr.
    apply (Permutation_in _ Perm) in Hr. apply in_map_iff in Hr. destruct Hr as (tr & <- & Htr).
    destruct (Hcells tr Htr) as (cells & Eo & Es).
    pose proof (HSc ch T tr Hin ET Htr) as Hs.
    destruct tr as [[a b] s]. cbn [fst snd] in Eo, Es, Hs.
    assert (Ha : (a < List.length (lpresent c lsrc))%nat).
    { destruct (Nat.lt_ge_cases a (List.length (lpresent c lsrc))) as [H|H]; [exact H|].
      rewrite (nth_overflow _ _ H), cells_spec_nil_l in Es. discriminate Es. }
    assert (Hb : (b < List.length ch)%nat).
    { destruct (Nat.lt_ge_cases b (List.length ch)) as [H|H]; [exact H|].
      rewrite (nth_overflow ch _ H), cells_spec_nil_r in Es. discriminate Es. }
    assert (Hl : In (nth a (lpresent c lsrc) []) (lpresent c lsrc)) by (apply nth_In; exact Ha).
    assert (Hr : In (nth b ch []) (rpresent c rsrc))
      by (apply (wchunks_in c njobs cpus rsrc bs ch Hin); apply nth_In; exact Hb).
    exists (nth a (lpresent c lsrc) []), (nth b ch []), s, cells.
    split; [apply (lpresent_in c lsrc); exact Hl|]. split; [apply (rpresent_in c rsrc); exact Hr|].
    split; [exact Es|]. split; [unfold spec_row; now rewrite Eo|].
    exists ch, T, a, b. repeat split; assumption.
  Qed.

  (* the missing-value rows *)
  Lemma mv_rows_cells r : am = true -> In r (mv_rows c lsrc rsrc) ->
    exists lrow rrow s cells, In lrow lsrc /\ In rrow rsrc /\ cells_spec c lrow rrow = Some cells /\
      r = cells ++ (if p_score c then [s] else []) /\ missing_row lrow rrow s.
  Proof using Hwf Hlsrc Hrsrc.
    intros Ham Hr.
    assert (Hrow : forall l r0, In l lsrc -> In r0 rsrc -> (l_missing c l = true \/ r_missing c r0 = true) ->
              exists lrow rrow s cells, In lrow lsrc /\ In rrow rsrc /\ cells_spec c lrow rrow = Some cells /\
                mv_row c l r0 = cells ++ (if p_score c then [s] else []) /\ missing_row lrow rrow s).
    { intros l r0 Hl Hr0 Hm. destruct (Hlsrc l Hl) as [Ll _]. destruct (Hrsrc r0 Hr0) as [Lr _].
      exists l, r0, py_nan, (cells_list c l r0).
      split; [exact Hl|]. split; [exact Hr0|]. split; [exact (cells_spec_eq c l r0 Hwf Ll Lr)|].
      split; [reflexivity|]. split; [exact Ham|]. split; [reflexivity | exact Hm]. }
    unfold mv_rows in Hr. apply in_app_or in Hr. destruct Hr as [Hr|Hr];
      apply in_flat_map in Hr; destruct Hr as (x & Hx & Hr); apply in_map_iff in Hr; destruct Hr as (y & <- & Hy);
      apply filter_In in Hx; destruct Hx as [Hx Hmx].
    - apply (Hrow x y Hx Hy). left. exact Hmx.
    - apply filter_In in Hy. destruct Hy as [Hy _]. apply (Hrow y x Hy Hx). right. exact Hmx.
  Qed.

  Theorem C11_body_cells lhs :
    body_result c am njobs cpus lsrc rsrc bs (chunk_ok c lsrc K) lhs -> C11_frame lhs.
  Proof using All.
    intros (RS & Hlen & Hfacts & ->).
    set (X := List.concat RS ++ (if am then mv_rows c lsrc rsrc else [])).
    exists (numbered X). split; [reflexivity|].
    intros i Hi. rewrite numbered_length in Hi. rewrite (nth_numbered X i Hi).
    assert (Hr : In (nth i X []) X) by (apply nth_In; exact Hi).
    assert (H : exists lrow rrow s cells, In lrow lsrc /\ In rrow rsrc /\ cells_spec c lrow rrow = Some cells /\
                  nth i X [] = cells ++ (if p_score c then [s] else []) /\
                  (core_row lrow rrow s \/ missing_row lrow rrow s)).
    { unfold X in Hr. apply in_app_or in Hr. destruct Hr as [Hr|Hr].
      - apply in_concat in Hr. destruct Hr as (rs & Hrs & Hr).
        apply (In_nth _ _ []) in Hrs. destruct Hrs as (j & Hj & <-). rewrite Hlen in Hj.
        destruct (chunk_rows_cells (nth j (wchunks c njobs cpus rsrc bs) []) (nth j RS [])
                    (nth_In _ _ Hj) (Hfacts j Hj) _ Hr) as (lrow & rrow & s & cells & H1 & H2 & H3 & H4 & H5).
        exists lrow, rrow, s, cells. repeat split; try assumption. left. exact H5.
      - destruct am eqn:Eam; [|destruct Hr].
        destruct (mv_rows_cells _ Eam Hr) as (lrow & rrow & s & cells & H1 & H2 & H3 & H4 & H5).
        exists lrow, rrow, s, cells. repeat split; try assumption. right. exact H5. }
    destruct H as (lrow & rrow & s & cells & Hl & Hr' & Es & E & Ho).
    exists lrow, rrow, s. split; [exact Hl|]. split; [exact Hr'|].
    assert (P : projects c i lrow rrow s (PInt (Z.of_nat i) :: nth i X [])) by (exists cells; split; [exact Es | now rewrite E]).
    split; [exact P|]. split; [|exact Ho].
    apply projects_reads; [exact Hwf | apply Hlsrc; exact Hl | apply Hrsrc; exact Hr' | exact P].
  Qed.

  (* the same, for the rows as a set: every row of the returned frame ... *)
  Corollary C11_frame_rows lhs : C11_frame lhs ->
    forall row, In row (CodeLevelRelBase.frame_rows_of lhs) ->
      exists i lrow rrow s, In lrow lsrc /\ In rrow rsrc /\
        projects c i lrow rrow s row /\ row_reads c i lrow rrow s row /\
        (core_row lrow rrow s \/ missing_row lrow rrow s).
  Proof.
    intros (rows & -> & H) row Hrow. rewrite CodeLevelRelBase.frame_rows_sframe in Hrow.
    apply (In_nth _ _ []) in Hrow. destruct Hrow as (i & Hi & <-).
    destruct (H i Hi) as (lrow & rrow & s & H1). exists i, lrow, rrow, s. exact H1.
  Qed.
End BodyCells.

(* the score predicate can be weakened *)
Lemma C11_frame_weaken c am njobs cpus lsrc rsrc bs K (Sc Sc' : pyval -> Prop) lhs :
  (forall s, Sc s -> Sc' s) ->
  C11_frame c am njobs cpus lsrc rsrc bs K Sc lhs -> C11_frame c am njobs cpus lsrc rsrc bs K Sc' lhs.
Proof.
  intros HS (rows & E & H). exists rows. split; [exact E|]. intros i Hi.
  destruct (H i Hi) as (lrow & rrow & s & H1 & H2 & H3 & H4 & H5). exists lrow, rrow, s.
  split; [exact H1|]. split; [exact H2|]. split; [exact H3|]. split; [exact H4|].
  destruct H5 as [H5|H5]; [left | right; exact H5].
  destruct H5 as (ch & T & a & b & G1 & G2 & G3 & G4 & G5 & G6 & G7 & G8 & G9 & G10).
  exists ch, T, a, b. split; [exact G1|]. split; [exact G2|]. split; [exact G3|]. split; [exact G4|].
  split; [exact G5|]. split; [exact G6|]. split; [exact G7|]. split; [exact G8|]. split; [exact G9|].
  apply HS. exact G10.
Qed.

(* ------------------------------------------------------------------ wrapper_result is a body_result *)
Lemma wrapper_result_body c p op ae am njobs cpus lsrc rsrc showp tokenize sim_fn toks bs W :
  wrapper_result c p op ae am njobs cpus lsrc rsrc showp tokenize sim_fn toks bs W ->
  body_result c am njobs cpus lsrc rsrc bs
    (chunk_ok c lsrc (fun ch => set_sim_join_core p op ae (Ltoks c lsrc toks) (Rtoks c toks ch)))
    (W (sframe (p_lcols c) lsrc) (sframe (p_rcols c) rsrc)
       (PStr (p_lkey c)) (PStr (p_rkey c)) (PStr (p_ljoin c)) (PStr (p_rjoin c))
       (ft p) (PStr op) (PBool ae) (PBool am) (py_opt_strs (p_lout c)) (py_opt_strs (p_rout c))
       (PStr (p_lpre c)) (PStr (p_rpre c)) (PBool (p_score c)) (PInt njobs) showp (PInt cpus)
       (PInt (fq p)) tokenize sim_fn).
Proof.
  intros (TR & Hlen & Hfacts & EW). exists (map snd TR).
  split; [rewrite map_length; exact Hlen|]. split; [|exact EW].
  intros j Hj. destruct (Hfacts j Hj) as (H1 & H2 & H3).
  change (@nil (list pyval)) with (snd (@nil triple, @nil (list pyval))). rewrite map_nth.
  exists (fst (nth j TR ([], []))). split; [exact H1|]. split; [exact H2 | exact H3].
Qed.

(* ------------------------------------------------------------------ unique keys: THE source rows *)
Lemma NoDup_map_In_inj {A B} (f : A -> B) (l : list A) x y :
  NoDup (map f l) -> In x l -> In y l -> f x = f y -> x = y.
Proof.
  induction l as [|a l IH]; intros Hnd Hx Hy E; [destruct Hx|].
  cbn [map] in Hnd. inversion Hnd as [|? ? Hnot Hnd']; subst.
  destruct Hx as [->|Hx], Hy as [->|Hy].
  - reflexivity.
  - exfalso. apply Hnot. rewrite E. apply in_map. exact Hy.
  - exfalso. apply Hnot. rewrite <- E. apply in_map. exact Hx.
  - apply IH; assumption.
Qed.

(* if the key cells are pairwise different (through any abstraction f of the key values, e.g. the kz of
   CodeLevelBase.keys_unique), the source rows of a frame row are THE rows of the two tables whose key is the
   row's key cell *)
Theorem C11_sources_unique {X} (f : pyval -> X) c lsrc rsrc i lrow rrow s row :
  NoDup (map (fun r => f (cellv (p_lcols c) r (p_lkey c))) lsrc) ->
  NoDup (map (fun r => f (cellv (p_rcols c) r (p_rkey c))) rsrc) ->
  In lrow lsrc -> In rrow rsrc -> row_reads c i lrow rrow s row ->
  forall l' r', In l' lsrc -> In r' rsrc ->
    f (cellv (p_lcols c) l' (p_lkey c)) = f (nth 1 row PNone) ->
    f (cellv (p_rcols c) r' (p_rkey c)) = f (nth 2 row PNone) ->
    l' = lrow /\ r' = rrow.
Proof.
  intros NL NR Hl Hr (_ & _ & E1 & E2 & _) l' r' Hl' Hr' F1 F2. rewrite E1 in F1. rewrite E2 in F2. split.
  - exact (NoDup_map_In_inj _ lsrc l' lrow NL Hl' Hl F1).
  - exact (NoDup_map_In_inj _ rsrc r' rrow NR Hr' Hr F2).
Qed.
Corollary C11_sources_unique_kz kz c lsrc rsrc i lrow rrow s row :
  keys_unique c kz lsrc rsrc ->
  In lrow lsrc -> In rrow rsrc -> row_reads c i lrow rrow s row ->
  forall l' r', In l' lsrc -> In r' rsrc ->
    lkeyz c kz l' = kz (nth 1 row PNone) -> rkeyz c kz r' = kz (nth 2 row PNone) ->
    l' = lrow /\ r' = rrow.
Proof. intros [NL NR]. exact (C11_sources_unique kz c lsrc rsrc i lrow rrow s row NL NR). Qed.

(* every row of a C11_frame, with unique keys: its source rows are determined by its two key cells *)
Corollary C11_frame_rows_unique kz c am njobs cpus lsrc rsrc bs K Sc lhs :
  C11_frame c am njobs cpus lsrc rsrc bs K Sc lhs -> keys_unique c kz lsrc rsrc ->
  forall row, In row (frame_rows_of lhs) ->
    exists i lrow rrow s, In lrow lsrc /\ In rrow rsrc /\
      projects c i lrow rrow s row /\ row_reads c i lrow rrow s row /\
      (core_row c njobs cpus lsrc rsrc bs K Sc lrow rrow s \/ missing_row c am lrow rrow s) /\
      (forall l' r', In l' lsrc -> In r' rsrc ->
         lkeyz c kz l' = kz (nth 1 row PNone) -> rkeyz c kz r' = kz (nth 2 row PNone) ->
         l' = lrow /\ r' = rrow).
Proof.
  intros HC Hk row Hrow.
  destruct (C11_frame_rows c am njobs cpus lsrc rsrc bs K Sc lhs HC row Hrow)
    as (i & lrow & rrow & s & H1 & H2 & H3 & H4 & H5).
  exists i, lrow, rrow, s. split; [exact H1|]. split; [exact H2|]. split; [exact H3|]. split; [exact H4|].
  split; [exact H5|]. exact (C11_sources_unique_kz kz c lsrc rsrc i lrow rrow s row Hk H1 H2 H4).
Qed.

(* the token lists the per-chunk cores see are those of the join cells of the source rows *)
Lemma Ltoks_nth c lsrc toks a : (a < List.length (lpresent c lsrc))%nat ->
  nth a (Ltoks c lsrc toks) [] = toks (cellv (p_lcols c) (nth a (lpresent c lsrc) []) (p_ljoin c)).
Proof.
  intros Ha. unfold Ltoks.
  rewrite (nth_indep _ [] (toks (cellv (p_lcols c) [] (p_ljoin c)))) by (rewrite map_length; exact Ha).
  exact (map_nth (fun row => toks (cellv (p_lcols c) row (p_ljoin c))) (lpresent c lsrc) [] a).
Qed.
Lemma Rtoks_nth c toks ch b : (b < List.length ch)%nat ->
  nth b (Rtoks c toks ch) [] = toks (cellv (p_rcols c) (nth b ch []) (p_rjoin c)).
Proof.
  intros Hb. unfold Rtoks.
  rewrite (nth_indep _ [] (toks (cellv (p_rcols c) [] (p_rjoin c)))) by (rewrite map_length; exact Hb).
  exact (map_nth (fun row => toks (cellv (p_rcols c) row (p_rjoin c))) ch [] b).
Qed.

Print Assumptions header_spec_spelled.
Print Assumptions C11_frame_rows_unique.
Print Assumptions projects_reads.
Print Assumptions C11_body_cells.
Print Assumptions wrapper_result_body.
Print Assumptions C11_sources_unique_kz.
