(* Structural theorems about the API-level model `api_join` (Model/Api.v): the missing-value
   pairs (C08), the per-chunk core as a keyed nested loop over a pair function, independence
   of the chunking / n_jobs (C10) and of the order of the rows (C10).  Generic in the
   arithmetic of the pair functions.  Pure list reasoning, axiom-free.                     *)
From Coq Require Import ZArith Bool List String Lia Permutation.
From SSJ Require Import F64 PyNum HelperGen TokenOrdering Filters Joins Api
                        OrderingFacts CoreLiftBase CoreLift.
Import ListNotations.
Open Scope string_scope.
Open Scope list_scope.
Open Scope Z_scope.

(* ------------------------------------------------------------------ flat_map helpers *)
Lemma flat_map_nil {A B} (l : list A) : flat_map (fun _ : A => @nil B) l = [].
Proof. induction l; simpl; auto. Qed.

Lemma map_as_flat_map {A B} (f : A -> B) l : map f l = flat_map (fun a => [f a]) l.
Proof. induction l as [|a l IH]; simpl; [reflexivity|]. rewrite IH. reflexivity. Qed.

Lemma flat_map_app_perm {A B} (g h : A -> list B) l :
  Permutation (flat_map (fun a => g a ++ h a) l) (flat_map g l ++ flat_map h l).
Proof.
  induction l as [|a l IH]; simpl; [constructor|].
  rewrite <- !app_assoc. apply Permutation_app_head.
  eapply Permutation_trans; [apply Permutation_app_head; exact IH|].
  rewrite !app_assoc. apply Permutation_app_tail. apply Permutation_app_comm.
Qed.

Lemma flat_map_pointwise_perm {A B} (g h : A -> list B) l :
  (forall a, In a l -> Permutation (g a) (h a)) -> Permutation (flat_map g l) (flat_map h l).
Proof.
  induction l as [|a l IH]; intros H; simpl; [constructor|].
  apply Permutation_app; [apply H; left; reflexivity| apply IH; intros b Hb; apply H; right; exact Hb].
Qed.

Lemma flat_map_swap {A B C} (f : A -> B -> list C) la lb :
  Permutation (flat_map (fun a => flat_map (fun b => f a b) lb) la)
              (flat_map (fun b => flat_map (fun a => f a b) la) lb).
Proof.
  induction la as [|a la IH]; simpl; [rewrite flat_map_nil; constructor|].
  eapply Permutation_trans; [apply Permutation_app_head; exact IH|].
  apply Permutation_sym. apply (flat_map_app_perm (fun b => f a b) (fun b => flat_map (fun a => f a b) la)).
Qed.

Lemma map_flat_map {A B C} (g : B -> C) (f : A -> list B) l :
  map g (flat_map f l) = flat_map (fun a => map g (f a)) l.
Proof. induction l as [|a l IH]; simpl; [reflexivity|]. rewrite map_app, IH. reflexivity. Qed.

Lemma NoDup_flat_map_keyed {A B K} (f : A -> list B) (h : B -> K) (ka : A -> K) l :
  NoDup (map ka l) -> (forall a, In a l -> NoDup (f a)) ->
  (forall a b, In a l -> In b (f a) -> h b = ka a) -> NoDup (flat_map f l).
Proof.
  induction l as [|a l IH]; intros Hnd Hf Hk; simpl; [constructor|].
  simpl in Hnd. inversion Hnd as [|? ? Hni Hnd']; subst.
  apply NoDup_app_intro.
  - apply Hf. left; reflexivity.
  - apply IH; [exact Hnd'| |]; intros; [apply Hf|eapply Hk]; try right; eassumption.
  - intros b Hb Hb'. apply in_flat_map in Hb'. destruct Hb' as [a' [Ha' Hb']].
    apply Hni. apply in_map_iff. exists a'. split; [|exact Ha'].
    rewrite <- (Hk a' b (or_intror Ha') Hb'). apply Hk; [left; reflexivity|exact Hb].
Qed.

Lemma Permutation_filter {A} (f : A -> bool) l l' :
  Permutation l l' -> Permutation (filter f l) (filter f l').
Proof.
  induction 1 as [|x l l' _ IH|x y l|l l' l'' _ IH1 _ IH2]; simpl.
  - constructor.
  - destruct (f x); [apply perm_skip|]; exact IH.
  - destruct (f x), (f y); try apply Permutation_refl. apply perm_swap.
  - eapply Permutation_trans; eassumption.
Qed.

(* ------------------------------------------------------------------ missing pairs (C08) *)
Theorem missing_pairs_spec : forall L R lk rk s,
  In (lk, rk, s) (missing_pairs L R) <->
  s = PNone /\ exists l r, In l L /\ In r R /\ fst l = lk /\ fst r = rk /\
                           (present l = false \/ present r = false).
Proof.
  intros L R lk rk s. unfold missing_pairs. rewrite in_app_iff, !in_flat_map. split.
  - intros [[l [Hl H]]|[r [Hr H]]].
    + destruct (present l) eqn:El; [destruct H|]. apply in_map_iff in H.
      destruct H as [r [E Hr]]. injection E as <- <- <-. split; [reflexivity|].
      exists l, r. auto 10.
    + destruct (present r) eqn:Er; [destruct H|]. apply in_flat_map in H.
      destruct H as [l [Hl H]]. destruct (present l); [|destruct H].
      destruct H as [E|[]]. injection E as <- <- <-. split; [reflexivity|].
      exists l, r. auto 10.
  - intros [-> [l [r [Hl [Hr [<- [<- Hm]]]]]]].
    destruct (present l) eqn:El.
    + right. exists r. split; [exact Hr|]. destruct Hm as [Hm|Hm]; [discriminate|]. rewrite Hm.
      apply in_flat_map. exists l. split; [exact Hl|]. rewrite El. left; reflexivity.
    + left. exists l. split; [exact Hl|]. rewrite El. apply in_map_iff. exists r. auto.
Qed.

(* every position pair with a missing side, exactly once: the list is a permutation of the
   row-major enumeration of those pairs *)
Definition missing_canon (L R : list row) : list out_row :=
  flat_map (fun l => flat_map (fun r =>
    if present l && present r then [] else [(fst l, fst r, PNone)]) R) L.

Theorem missing_pairs_positions : forall L R,
  Permutation (missing_pairs L R) (missing_canon L R).
Proof.
  intros L R. unfold missing_pairs, missing_canon.
  set (g := fun (l r : row) => if present l then [] else [(fst l, fst r, PNone)]).
  set (h := fun (l r : row) => if present r then []
                               else if present l then [(fst l, fst r, PNone)] else []).
  assert (E1 : flat_map (fun l => if present l then []
                                  else map (fun r => (fst l, fst r, PNone)) R) L
               = flat_map (fun l => flat_map (g l) R) L).
  { apply flat_map_ext. intros l. unfold g. destruct (present l).
    - rewrite flat_map_nil. reflexivity.
    - apply map_as_flat_map. }
  assert (E2 : flat_map (fun r => if present r then []
                 else flat_map (fun l => if present l then [(fst l, fst r, PNone)] else []) L) R
               = flat_map (fun r => flat_map (fun l => h l r) L) R).
  { apply flat_map_ext. intros r. unfold h. destruct (present r).
    - rewrite flat_map_nil. reflexivity.
    - reflexivity. }
  rewrite E1, E2.
  eapply Permutation_trans;
    [apply Permutation_app_head; apply Permutation_sym; apply (flat_map_swap h L R)|].
  eapply Permutation_trans; [apply Permutation_sym; apply flat_map_app_perm|].
  apply flat_map_pointwise_perm. intros l _.
  eapply Permutation_trans; [apply Permutation_sym; apply flat_map_app_perm|].
  apply flat_map_pointwise_perm. intros r _. unfold g, h.
  destruct (present l), (present r); apply Permutation_refl.
Qed.

Theorem missing_pairs_keys_NoDup : forall L R,
  NoDup (map fst L) -> NoDup (map fst R) -> NoDup (map fst (missing_pairs L R)).
Proof.
  intros L R HL HR.
  apply (Permutation_NoDup (Permutation_map fst (Permutation_sym (missing_pairs_positions L R)))).
  unfold missing_canon. rewrite map_flat_map.
  apply (NoDup_flat_map_keyed _ (fun kk : Z * Z => fst kk) (fun l : row => fst l)); [exact HL| |].
  - intros l _. rewrite map_flat_map.
    apply (NoDup_flat_map_keyed _ (fun kk : Z * Z => snd kk) (fun r : row => fst r)); [exact HR| |].
    + intros r _. destruct (present l && present r); simpl; repeat constructor. intros [].
    + intros r kk _ H. destruct (present l && present r); simpl in H; [destruct H|].
      destruct H as [<-|[]]. reflexivity.
  - intros l kk _ H. apply in_map_iff in H. destruct H as [o [<- H]].
    apply in_flat_map in H. destruct H as [r [_ H]].
    destruct (present l && present r); simpl in H; [destruct H|]. destruct H as [<-|[]]. reflexivity.
Qed.

Theorem missing_pairs_perm : forall L L' R R', Permutation L L' -> Permutation R R' ->
  Permutation (missing_pairs L R) (missing_pairs L' R').
Proof.
  intros L L' R R' HL HR.
  eapply Permutation_trans; [apply missing_pairs_positions|].
  eapply Permutation_trans; [|apply Permutation_sym; apply missing_pairs_positions].
  unfold missing_canon.
  eapply Permutation_trans; [apply Permutation_flat_map; exact HL|].
  apply flat_map_pointwise_perm. intros l _. apply Permutation_flat_map. exact HR.
Qed.

Example missing_pairs_ex :
  missing_pairs [(1, Some ([], [5])); (2, None)] [(7, None); (8, Some ([], [5]))]
  = [(2, 7, PNone); (2, 8, PNone); (1, 7, PNone)].
Proof. reflexivity. Qed.

(* ------------------------------------------------------------------ record updates *)
Definition with_missing (c : jcase) (b : bool) : jcase :=
  {| j_entry := j_entry c; j_t := j_t c; j_q := j_q c; j_op := j_op c;
     j_allow_empty := j_allow_empty c; j_allow_missing := b; j_with_score := j_with_score c;
     j_njobs := j_njobs c; j_cpus := j_cpus c; j_L := j_L c; j_R := j_R c |}.
Definition with_njobs (c : jcase) (n cpus : Z) : jcase :=
  {| j_entry := j_entry c; j_t := j_t c; j_q := j_q c; j_op := j_op c;
     j_allow_empty := j_allow_empty c; j_allow_missing := j_allow_missing c;
     j_with_score := j_with_score c;
     j_njobs := n; j_cpus := cpus; j_L := j_L c; j_R := j_R c |}.
Definition with_rows (c : jcase) (L R : list row) : jcase :=
  {| j_entry := j_entry c; j_t := j_t c; j_q := j_q c; j_op := j_op c;
     j_allow_empty := j_allow_empty c; j_allow_missing := j_allow_missing c;
     j_with_score := j_with_score c;
     j_njobs := j_njobs c; j_cpus := j_cpus c; j_L := L; j_R := R |}.

(* ------------------------------------------------------------------ the keyed per-chunk core *)
Definition kcore (c : jcase) (Lp Rc : list row) : option (list out_row) :=
  option_map (keyed Lp Rc 0) (core_of c Lp Rc).

Definition rowval (r : row) : list Z * list Z := (str_of r, toks_of r).
Definition all_of (Lp Rc : list row) : list Z :=
  (List.concat (map toks_of Lp) ++ List.concat (map toks_of Rc))%list.
Definition jparams (c : jcase) (m : string) : fparams := {| fm := m; ft := j_t c; fq := j_q c |}.

(* the only way a core is undefined independently of the rows: EDIT_DISTANCE with a threshold
   whose floor is not an integer *)
Definition core_ok (c : jcase) : bool :=
  match j_entry c with
  | EJoin m =>
      if String.eqb m "OVERLAP" then true
      else if String.eqb m "OVERLAP_COEFFICIENT" then true
      else if String.eqb m "EDIT_DISTANCE"
           then match py_int (py_floor (j_t c)) with PInt _ => true | _ => false end
           else true
  | _ => true
  end.

(* the pair function of entry c on two rows (string, tokens), given the token universe `all` *)
Definition core_pf (c : jcase) (all : list Z) (x y : list Z * list Z) : option (list pyval) :=
  match j_entry c with
  | EJoin m =>
      if String.eqb m "OVERLAP" then Some (ovl_pair (j_op c) (j_t c) (snd x) (snd y))
      else if String.eqb m "OVERLAP_COEFFICIENT"
           then Some (ovc_pair (j_t c) (j_op c) (j_allow_empty c) (snd x) (snd y))
      else if String.eqb m "EDIT_DISTANCE"
           then match py_int (py_floor (j_t c)) with
                | PInt tau => ed_pair (j_q c) tau (j_op c) (ed_row all x) (ed_row all y)
                | _ => None
                end
      else ssj_pair_e (jparams c m) (j_op c) (j_allow_empty c) (order all (snd x)) (order all (snd y))
  | EFilter k m => ft_pair k (jparams c m) (j_allow_empty c) (order all (snd x)) (order all (snd y))
  | EOverlapFilter => Some (ovl_pair (j_op c) (j_t c) (snd x) (snd y))
  end.

Notation kl c all := (kloop (core_pf c all) (fun r : row => fst r) (fun r : row => fst r) rowval rowval).

Lemma keyed_rekey Lp Rc off ts :
  keyed Lp Rc off ts = rekey (fun r : row => fst r) (fun r : row => fst r) (0, None) (0, None) Lp Rc ts.
Proof. unfold keyed, rekey. apply map_ext. intros [[c j] s]. reflexivity. Qed.

Lemma option_map_ext {A B} (f g : A -> B) (o : option A) :
  (forall a, f a = g a) -> option_map f o = option_map g o.
Proof. intros H. destruct o; simpl; [rewrite H|]; reflexivity. Qed.

Lemma all_of_rowval Lp Rc :
  allk snd rowval rowval Lp Rc = all_of Lp Rc.
Proof. unfold allk, allc, all_of. rewrite !map_map. reflexivity. Qed.

Lemma all_of_toks Lp Rc :
  allk (fun x : list Z => x) toks_of toks_of Lp Rc = all_of Lp Rc.
Proof. unfold allk, allc, all_of. rewrite !map_id. reflexivity. Qed.

(* the per-chunk core of every entry is the keyed nested loop over its pair function *)
Theorem kcore_kloop : forall c Lp Rc,
  kcore c Lp Rc = if core_ok c then kl c (all_of Lp Rc) Lp Rc else None.
Proof.
  intros c Lp Rc. unfold kcore.
  rewrite (option_map_ext _ _ _ (keyed_rekey Lp Rc 0%nat)).
  unfold out_row. unfold core_of, core_ok, core_pf. destruct (j_entry c) as [m|k m|].
  - destruct (String.eqb m "OVERLAP").
    { rewrite ovl_core_loop, loop2_rekey. apply kloop_ext. reflexivity. }
    destruct (String.eqb m "OVERLAP_COEFFICIENT").
    { rewrite ovc_core_loop, loop2_rekey. apply kloop_ext. reflexivity. }
    destruct (String.eqb m "EDIT_DISTANCE").
    { destruct (py_int (py_floor (j_t c))); try reflexivity.
      change (map (fun r : row => (str_of r, toks_of r))) with (map rowval).
      rewrite ed_core_acore, acore_keyed, all_of_rowval. reflexivity. }
    fold (jparams c m). rewrite ssj_core_acore, acore_keyed, all_of_toks. apply kloop_ext.
    reflexivity.
  - fold (jparams c m). rewrite ft_core_acore, acore_keyed, all_of_toks. apply kloop_ext.
    reflexivity.
  - rewrite ovl_core_loop, loop2_rekey. apply kloop_ext. reflexivity.
Qed.

Lemma all_of_perm Lp Lp' Rc Rc' : Permutation Lp Lp' -> Permutation Rc Rc' ->
  Permutation (all_of Lp Rc) (all_of Lp' Rc').
Proof.
  intros HL HR. unfold all_of.
  apply Permutation_app; apply Permutation_concat; apply Permutation_map; assumption.
Qed.

Lemma core_pf_perm c all all' x y : Permutation all all' -> core_pf c all x y = core_pf c all' x y.
Proof.
  intros H. unfold core_pf, ed_row.
  rewrite (order_perm _ _ (snd x) H), (order_perm _ _ (snd y) H). reflexivity.
Qed.

(* C10 at the level of one chunk: permuting the rows permutes the keyed result *)
Theorem kcore_perm : forall c Lp Lp' Rc Rc', Permutation Lp Lp' -> Permutation Rc Rc' ->
  operm (kcore c Lp Rc) (kcore c Lp' Rc').
Proof.
  intros c Lp Lp' Rc Rc' HL HR. rewrite !kcore_kloop. destruct (core_ok c); [|exact I].
  eapply operm_trans; [|apply kloop_perm; eassumption].
  apply operm_eq. apply kloop_ext. intros l r _ _. apply core_pf_perm.
  apply all_of_perm; assumption.
Qed.

(* every row of a chunk result carries the keys of a left row and of a row of the chunk,
   with a score produced by the pair function *)
Theorem kcore_In : forall c Lp Rc res, kcore c Lp Rc = Some res ->
  forall lk rk s, In (lk, rk, s) res <->
    exists l r lst, In l Lp /\ In r Rc /\ lk = fst l /\ rk = fst r /\
      core_pf c (all_of Lp Rc) (rowval l) (rowval r) = Some lst /\ In s lst.
Proof.
  intros c Lp Rc res H. rewrite kcore_kloop in H. destruct (core_ok c); [|discriminate].
  apply (kloop_In _ _ _ _ _ _ _ _ H).
Qed.

(* ------------------------------------------------------------------ api_join through kcore *)
Definition post (c : jcase) (rows : list out_row) : list out_row :=
  ((if j_with_score c then rows else map (fun r : out_row => (fst r, PNone)) rows) ++
   (if j_allow_missing c then missing_pairs (j_L c) (j_R c) else []))%list.

Lemma api_join_eq c :
  api_join c =
  match chunks_of (j_njobs c) (j_cpus c) (filter present (j_R c)) with
  | None => None
  | Some chs => option_map (post c)
      (opt_concat (map (fun ch : nat * list row => kcore c (filter present (j_L c)) (snd ch)) chs))
  end.
Proof.
  unfold api_join. cbv zeta. destruct (chunks_of _ _ _) as [chs|]; [|reflexivity].
  change (map (fun ch : nat * list row =>
            option_map (keyed (filter present (j_L c)) (snd ch) (fst ch))
                       (core_of c (filter present (j_L c)) (snd ch))) chs)
    with (map (fun ch : nat * list row => kcore c (filter present (j_L c)) (snd ch)) chs).
  destruct (opt_concat _); reflexivity.
Qed.

Lemma firstn_incl {A} n (l : list A) : incl (firstn n l) l.
Proof. intros x H. rewrite <- (firstn_skipn n l). apply in_or_app. left; exact H. Qed.
Lemma skipn_incl {A} n (l : list A) : incl (skipn n l) l.
Proof. intros x H. rewrite <- (firstn_skipn n l). apply in_or_app. right; exact H. Qed.

(* every chunk consists of rows of the table (no assumption on the split function) *)
Lemma chunks_of_incl {A} njobs cpus (Rp : list A) chs ch :
  chunks_of njobs cpus Rp = Some chs -> In ch chs -> incl (snd ch) Rp.
Proof.
  unfold chunks_of. destruct (py_min _ _) as [k| | | | | | | |]; try discriminate.
  destruct (k <=? 1).
  - intros H. injection H as <-. intros [<-|[]]. apply incl_refl.
  - destruct (bounds_of _) as [bs|]; [|discriminate]. intros H. injection H as <-.
    intros Hin. apply in_map_iff in Hin. destruct Hin as [ab [<- _]]. cbn [snd].
    unfold slice_nat. eapply incl_tran; [apply firstn_incl|apply skipn_incl].
Qed.

Lemma chunks_of_one {A} cpus (Rp : list A) : chunks_of 1 cpus Rp = Some [(0%nat, Rp)].
Proof.
  unfold chunks_of.
  assert (E : get_num_processes_to_launch_with_cpus (PInt 1) (PInt cpus) = PInt 1) by reflexivity.
  rewrite E. unfold py_min, py_lt, py_ord. cbn.
  destruct (Z.compare_spec (Z.of_nat (List.length Rp)) 1) as [H|H|H]; try reflexivity.
  destruct (Z.leb_spec (Z.of_nat (List.length Rp)) 1); [reflexivity|lia].
Qed.

(* ------------------------------------------------------------------ C08 *)
Theorem api_join_missing_absent : forall c out,
  j_allow_missing c = false -> api_join c = Some out ->
  forall lk rk s, In (lk, rk, s) out ->
    exists l r, In l (j_L c) /\ In r (j_R c) /\ present l = true /\ present r = true /\
                fst l = lk /\ fst r = rk.
Proof.
  intros c out Ham H lk rk s Hin. rewrite api_join_eq in H.
  destruct (chunks_of _ _ _) as [chs|] eqn:Ech; [|discriminate].
  destruct (opt_concat _) as [rows|] eqn:Ero; [|discriminate].
  simpl in H. injection H as <-. unfold post in Hin. rewrite Ham, app_nil_r in Hin.
  assert (Hrows : exists s', In (lk, rk, s') rows).
  { destruct (j_with_score c); [exists s; exact Hin|].
    apply in_map_iff in Hin. destruct Hin as [[[a b] s'] [E Hin]]. simpl in E.
    injection E as -> -> _. exists s'. exact Hin. }
  destruct Hrows as [s' Hrows]. rewrite (opt_concat_In _ _ Ero) in Hrows.
  destruct Hrows as [x [Hx Hrows]]. apply in_map_iff in Hx. destruct Hx as [ch [Ek Hch]].
  rewrite (kcore_In _ _ _ _ Ek) in Hrows.
  destruct Hrows as [l [r [lst [Hl [Hr [-> [-> _]]]]]]].
  apply (chunks_of_incl _ _ _ _ _ Ech Hch) in Hr.
  apply filter_In in Hl. apply filter_In in Hr. exists l, r. tauto.
Qed.

Lemma kcore_with_missing c b Lp Rc : kcore (with_missing c b) Lp Rc = kcore c Lp Rc.
Proof. reflexivity. Qed.
Lemma kcore_with_njobs c n cp Lp Rc : kcore (with_njobs c n cp) Lp Rc = kcore c Lp Rc.
Proof. reflexivity. Qed.
Lemma kcore_with_rows c L R Lp Rc : kcore (with_rows c L R) Lp Rc = kcore c Lp Rc.
Proof. reflexivity. Qed.

Theorem api_join_missing_true : forall c,
  api_join (with_missing c true) =
  option_map (fun out0 => (out0 ++ missing_pairs (j_L c) (j_R c))%list)
             (api_join (with_missing c false)).
Proof.
  intros c. rewrite !api_join_eq. cbn [with_missing j_njobs j_cpus j_L j_R].
  destruct (chunks_of _ _ _) as [chs|]; [|reflexivity].
  rewrite (map_ext _ _ (fun ch => kcore_with_missing c true _ (snd ch))).
  rewrite (map_ext _ _ (fun ch => kcore_with_missing c false (filter present (j_L c)) (snd ch))).
  destruct (opt_concat _) as [rows|]; [|reflexivity].
  unfold post. cbn [option_map with_missing j_allow_missing j_with_score j_L j_R].
  rewrite app_nil_r. reflexivity.
Qed.

Corollary api_join_missing_true_iff : forall c out1,
  api_join (with_missing c true) = Some out1 <->
  exists out0, api_join (with_missing c false) = Some out0 /\
               out1 = (out0 ++ missing_pairs (j_L c) (j_R c))%list.
Proof.
  intros c out1. rewrite api_join_missing_true.
  destruct (api_join (with_missing c false)) as [out0|]; simpl.
  - split; [intros H; injection H as <-; eauto| intros [o [E ->]]; congruence].
  - split; [discriminate| intros [o [E _]]; discriminate].
Qed.

(* ------------------------------------------------------------------ C10: chunking *)
Definition chunk_indep_on (c : jcase) (Lp Rp : list row) : Prop :=
  kcore c Lp [] = Some [] /\
  forall R1 R2, incl (R1 ++ R2) Rp ->
    operm (kcore c Lp (R1 ++ R2)) (oapp (kcore c Lp R1) (kcore c Lp R2)).
Definition chunk_indep (c : jcase) : Prop := forall Lp Rp, chunk_indep_on c Lp Rp.

(* the pair function's verdict on rows of Lp x Rp does not depend on which chunk the right
   row is in *)
Definition pf_chunk_indep (c : jcase) (Lp Rp : list row) : Prop :=
  forall Rc Rc' l r, incl Rc Rp -> incl Rc' Rp -> In l Lp -> In r Rc -> In r Rc' ->
    core_pf c (all_of Lp Rc) (rowval l) (rowval r) = core_pf c (all_of Lp Rc') (rowval l) (rowval r).

Theorem chunk_indep_of_pf : forall c Lp Rp,
  core_ok c = true -> pf_chunk_indep c Lp Rp -> chunk_indep_on c Lp Rp.
Proof.
  intros c Lp Rp Hok Hpf. split.
  - rewrite kcore_kloop, Hok. reflexivity.
  - intros R1 R2 Hincl. rewrite !kcore_kloop, Hok, kloop_app_R. apply operm_eq.
    assert (H1 : incl R1 Rp) by (intros x Hx; apply Hincl; apply in_or_app; auto).
    assert (H2 : incl R2 Rp) by (intros x Hx; apply Hincl; apply in_or_app; auto).
    f_equal; apply kloop_ext; intros l r Hl Hr.
    + apply (Hpf (R1 ++ R2)%list R1 l r Hincl H1 Hl); [apply in_or_app; auto|exact Hr].
    + apply (Hpf (R1 ++ R2)%list R2 l r Hincl H2 Hl); [apply in_or_app; auto|exact Hr].
Qed.

Lemma chunks_concat c Lp Rp : chunk_indep_on c Lp Rp ->
  forall chs : list (nat * list row), incl (List.concat (map snd chs)) Rp ->
  operm (opt_concat (map (fun ch => kcore c Lp (snd ch)) chs))
        (kcore c Lp (List.concat (map snd chs))).
Proof.
  intros [Hnil Happ]. induction chs as [|ch chs IH]; intros Hincl.
  - simpl. rewrite Hnil. apply Permutation_refl.
  - cbn [map List.concat] in *. rewrite opt_concat_cons.
    eapply operm_trans; [|apply operm_sym; apply Happ; exact Hincl].
    apply operm_oapp; [apply operm_refl|]. apply IH.
    intros x Hx. apply Hincl. apply in_or_app. auto.
Qed.

Lemma post_perm c rows rows' : Permutation rows rows' -> Permutation (post c rows) (post c rows').
Proof.
  intros H. unfold post. apply Permutation_app_tail.
  destruct (j_with_score c); [exact H| apply Permutation_map; exact H].
Qed.

Section Chunks.
  Hypothesis Hpart : forall (A : Type) njobs cpus (Rp : list A),
    exists chs, chunks_of njobs cpus Rp = Some chs /\ List.concat (map snd chs) = Rp.

  Definition unchunked (c : jcase) : option (list out_row) :=
    option_map (post c) (kcore c (filter present (j_L c)) (filter present (j_R c))).

  Theorem api_join_unchunked : forall c,
    chunk_indep_on c (filter present (j_L c)) (filter present (j_R c)) ->
    operm (api_join c) (unchunked c).
  Proof.
    intros c Hci. rewrite api_join_eq.
    destruct (Hpart row (j_njobs c) (j_cpus c) (filter present (j_R c))) as [chs [E Hc]].
    rewrite E. unfold unchunked. apply operm_option_map; [apply post_perm|].
    pose proof (chunks_concat c _ _ Hci chs) as Hcc. rewrite Hc in Hcc.
    apply Hcc. apply incl_refl.
  Qed.

  Lemma api_join_njobs1 c cpus : api_join (with_njobs c 1 cpus) = unchunked c.
  Proof.
    rewrite api_join_eq. cbn [with_njobs j_njobs j_cpus j_L j_R]. rewrite chunks_of_one.
    cbn [map snd]. rewrite opt_concat_cons. cbn [opt_concat]. rewrite oapp_nil_r.
    rewrite kcore_with_njobs. reflexivity.
  Qed.

  (* C10: the result is, as a multiset, the result of the single-process run *)
  Theorem api_join_chunks : forall c,
    chunk_indep_on c (filter present (j_L c)) (filter present (j_R c)) ->
    operm (api_join c) (api_join (with_njobs c 1 (j_cpus c))).
  Proof. intros c Hci. rewrite api_join_njobs1. apply api_join_unchunked. exact Hci. Qed.

  Corollary api_join_njobs_indep : forall c n1 c1 n2 c2,
    chunk_indep_on c (filter present (j_L c)) (filter present (j_R c)) ->
    operm (api_join (with_njobs c n1 c1)) (api_join (with_njobs c n2 c2)).
  Proof.
    intros c n1 c1 n2 c2 Hci.
    eapply operm_trans; [apply api_join_unchunked; exact Hci|].
    apply operm_sym. apply (api_join_unchunked (with_njobs c n2 c2)). exact Hci.
  Qed.

  (* C10: permuting the rows of the input tables permutes the result *)
  Theorem api_join_rows_perm : forall c L' R',
    Permutation (j_L c) L' -> Permutation (j_R c) R' ->
    chunk_indep_on c (filter present (j_L c)) (filter present (j_R c)) ->
    chunk_indep_on c (filter present L') (filter present R') ->
    operm (api_join c) (api_join (with_rows c L' R')).
  Proof.
    intros c L' R' HL HR Hci Hci'.
    eapply operm_trans; [apply api_join_unchunked; exact Hci|].
    eapply operm_trans; [|apply operm_sym; apply (api_join_unchunked (with_rows c L' R')); exact Hci'].
    unfold unchunked. cbn [with_rows j_L j_R]. rewrite kcore_with_rows.
    pose proof (kcore_perm c _ _ _ _ (Permutation_filter present _ _ HL)
                           (Permutation_filter present _ _ HR)) as Hk.
    destruct (kcore c (filter present (j_L c)) (filter present (j_R c))) as [a|],
             (kcore c (filter present L') (filter present R')) as [b|]; simpl in *; try tauto.
    unfold post. cbn [with_rows j_with_score j_allow_missing j_L j_R].
    apply Permutation_app.
    - destruct (j_with_score c); [exact Hk| apply Permutation_map; exact Hk].
    - destruct (j_allow_missing c); [apply missing_pairs_perm; assumption|constructor].
  Qed.
End Chunks.

(* ------------------------------------------------------------------ chunk-independent entries *)
Lemma pf_no_all_indep c Lp Rp :
  (forall all all' x y, core_pf c all x y = core_pf c all' x y) -> pf_chunk_indep c Lp Rp.
Proof. intros H Rc Rc' l r _ _ _ _ _. apply H. Qed.

Theorem chunk_indep_overlap_filter : forall c, j_entry c = EOverlapFilter -> chunk_indep c.
Proof.
  intros c He Lp Rp. apply chunk_indep_of_pf; [unfold core_ok; rewrite He; reflexivity|].
  apply pf_no_all_indep. intros. unfold core_pf. rewrite He. reflexivity.
Qed.

Theorem chunk_indep_overlap_join : forall c, j_entry c = EJoin "OVERLAP" -> chunk_indep c.
Proof.
  intros c He Lp Rp. apply chunk_indep_of_pf; [unfold core_ok; rewrite He; reflexivity|].
  apply pf_no_all_indep. intros. unfold core_pf. rewrite He. reflexivity.
Qed.

Theorem chunk_indep_ovc_join : forall c, j_entry c = EJoin "OVERLAP_COEFFICIENT" -> chunk_indep c.
Proof.
  intros c He Lp Rp. apply chunk_indep_of_pf; [unfold core_ok; rewrite He; reflexivity|].
  apply pf_no_all_indep. intros. unfold core_pf. rewrite He. reflexivity.
Qed.

(* the size filter only looks at the lengths, which ordering preserves for rows of the tables *)
Lemma ft_pair_size_len p ae x y x' y' : len x = len x' -> len y = len y' ->
  ft_pair KSize p ae x y = ft_pair KSize p ae x' y'.
Proof. intros Hx Hy. unfold ft_pair, filter_cand. rewrite Hx, Hy. reflexivity. Qed.

Lemma toks_incl_all_l Lp Rc l : In l Lp -> incl (toks_of l) (all_of Lp Rc).
Proof.
  intros H. unfold all_of. apply incl_appl. apply incl_concat_row. apply in_map. exact H.
Qed.
Lemma toks_incl_all_r Lp Rc r : In r Rc -> incl (toks_of r) (all_of Lp Rc).
Proof.
  intros H. unfold all_of. apply incl_appr. apply incl_concat_row. apply in_map. exact H.
Qed.

Theorem chunk_indep_size_filter : forall c m, j_entry c = EFilter KSize m -> chunk_indep c.
Proof.
  intros c m He Lp Rp. apply chunk_indep_of_pf; [unfold core_ok; rewrite He; reflexivity|].
  intros Rc Rc' l r _ _ Hl Hr Hr'. unfold core_pf. rewrite He. cbn [rowval snd].
  apply ft_pair_size_len.
  - rewrite !len_order; [reflexivity| |]; apply toks_incl_all_l; exact Hl.
  - rewrite !len_order; [reflexivity| |]; apply toks_incl_all_r; assumption.
Qed.

(* the size filter's chunk result, directly on the raw token counts *)
Theorem kcore_size_filter : forall c m Lp Rc, j_entry c = EFilter KSize m ->
  kcore c Lp Rc =
  kloop (ft_pair KSize (jparams c m) (j_allow_empty c)) (fun r : row => fst r) (fun r : row => fst r)
        toks_of toks_of Lp Rc.
Proof.
  intros c m Lp Rc He. rewrite kcore_kloop. unfold core_ok. rewrite He.
  apply kloop_ext. intros l r Hl Hr. unfold core_pf. rewrite He. cbn [rowval snd].
  apply ft_pair_size_len; apply len_order; [apply toks_incl_all_l|apply toks_incl_all_r]; assumption.
Qed.

(* ------------------------------------------------------------------ examples *)
Definition ex_c (m : string) (nj : Z) (am : bool) : jcase :=
  {| j_entry := EJoin m; j_t := PInt 1; j_q := 0; j_op := ">="; j_allow_empty := true;
     j_allow_missing := am; j_with_score := true; j_njobs := nj; j_cpus := 4;
     j_L := [(1, Some ([], [1; 2])); (2, None); (3, Some ([], [3]))];
     j_R := [(7, Some ([], [2; 5])); (8, Some ([], [3; 1])); (9, None)] |}.

Example api_join_missing_ex :
  api_join (ex_c "OVERLAP" 1 false) = Some [(1, 7, PInt 1); (1, 8, PInt 1); (3, 8, PInt 1)] /\
  api_join (ex_c "OVERLAP" 1 true) =
  option_map (fun o => (o ++ missing_pairs (j_L (ex_c "OVERLAP" 1 true)) (j_R (ex_c "OVERLAP" 1 true)))%list)
             (api_join (ex_c "OVERLAP" 1 false)) /\
  api_join (ex_c "OVERLAP" 2 false) = api_join (ex_c "OVERLAP" 1 false).
Proof. vm_compute. repeat split. Qed.

Example kcore_kloop_ex :
  let c := ex_c "OVERLAP" 1 false in
  kcore c (filter present (j_L c)) (filter present (j_R c)) =
  kl c (all_of (filter present (j_L c)) (filter present (j_R c)))
     (filter present (j_L c)) (filter present (j_R c)).
Proof. vm_compute. reflexivity. Qed.

Definition ex_f (e : entry) (t : pyval) (nj : Z) : jcase :=
  {| j_entry := e; j_t := t; j_q := 2; j_op := ">="; j_allow_empty := true;
     j_allow_missing := true; j_with_score := true; j_njobs := nj; j_cpus := 4;
     j_L := [(1, Some ([1; 2; 3], [12; 23])); (2, None); (3, Some ([], [])); (4, Some ([1; 2], [12]))];
     j_R := [(7, Some ([1; 2; 4], [12; 24])); (8, Some ([], [])); (9, None); (6, Some ([1; 2; 3], [23; 12]))] |}.

Definition kcore_kloop_check (c : jcase) : bool :=
  let Lp := filter present (j_L c) in let Rp := filter present (j_R c) in
  match kcore c Lp Rp, (if core_ok c then kl c (all_of Lp Rp) Lp Rp else None) with
  | Some a, Some b => multiset_eqb a b && negb (Nat.eqb (List.length a) 0)
  | _, _ => false
  end.

Example kcore_kloop_ex2 :
  forallb kcore_kloop_check
    [ex_f (EJoin "JACCARD") (PFloat (mkF 1 (-1))) 1; ex_f (EJoin "OVERLAP_COEFFICIENT") (PFloat (mkF 1 (-1))) 1;
     ex_f (EFilter KSize "COSINE") (PFloat (mkF 1 (-1))) 1; ex_f (EFilter KPrefix "DICE") (PFloat (mkF 1 (-1))) 1;
     ex_f EOverlapFilter (PInt 1) 1] = true.
Proof. vm_compute. reflexivity. Qed.

Definition same_result (a b : option (list out_row)) : bool :=
  match a, b with Some x, Some y => multiset_eqb x y | None, None => true | _, _ => false end.

Example api_join_chunks_perm_ex :
  let c := ex_f (EFilter KSize "JACCARD") (PFloat (mkF 1 (-1))) 3 in
  same_result (api_join c) (api_join (with_njobs c 1 4)) &&
  same_result (api_join c) (api_join (with_rows c (rev (j_L c)) (rev (j_R c)))) = true.
Proof. vm_compute. reflexivity. Qed.

Example missing_pairs_count_ex :
  let c := ex_f EOverlapFilter (PInt 1) 1 in
  missing_pairs (j_L c) (j_R c) =
  [(2, 7, PNone); (2, 8, PNone); (2, 9, PNone); (2, 6, PNone); (1, 9, PNone); (3, 9, PNone); (4, 9, PNone)] /\
  List.length (missing_pairs (j_L c) (j_R c)) = List.length (missing_canon (j_L c) (j_R c)).
Proof. vm_compute. split; reflexivity. Qed.

Print Assumptions missing_pairs_spec.
Print Assumptions missing_pairs_positions.
Print Assumptions missing_pairs_keys_NoDup.
Print Assumptions kcore_kloop.
Print Assumptions kcore_perm.
Print Assumptions kcore_In.
Print Assumptions api_join_missing_absent.
Print Assumptions api_join_missing_true.
Print Assumptions chunk_indep_of_pf.
Print Assumptions api_join_chunks.
Print Assumptions api_join_njobs_indep.
Print Assumptions api_join_rows_perm.
Print Assumptions chunk_indep_overlap_filter.
Print Assumptions chunk_indep_overlap_join.
Print Assumptions chunk_indep_ovc_join.
Print Assumptions chunk_indep_size_filter.
Print Assumptions kcore_size_filter.
