(* `required` (Spec/VariantSpec.v) is exactly the guard of complete_spec: a result lists every
   required pair iff it satisfies complete_spec.  Hence, for two results that agree on the required
   pairs (same_required_spec), one satisfies complete_spec iff the other does.  Axiom-free. *)
From Coq Require Import ZArith Bool List String.
From SSJ Require Import F64 PyNum FilterUtilsGen TokenOrdering Measures Filters Lev Qgram Joins Api JoinSpec VariantSpec.
Import ListNotations.
Open Scope Z_scope.

Lemma if_same (b : bool) (x : bool) : (if b then x else x) = x.
Proof. destruct b; reflexivity. Qed.

Lemma required_guard c obs l r :
  (if required c l r then has_pair (fst l) (fst r) obs else true) =
  (if present l && present r then
      let x := toks_of l in let y := toks_of r in
      match j_entry c with
      | EJoin m =>
          if String.eqb m "EDIT_DISTANCE" then
            if cmp_op (j_op c) (ed_dist l r) (PInt (ed_tau (j_t c))) && share x y
            then has_pair (fst l) (fst r) obs else true
          else if (len x =? 0) && (len y =? 0) then true
          else if qualifies m (j_op c) (j_t c) x y then has_pair (fst l) (fst r) obs else true
      | EFilter k m =>
          if String.eqb m "EDIT_DISTANCE" then
            if cmp_op "<=" (ed_dist l r) (j_t c) && share x y
            then has_pair (fst l) (fst r) obs else true
          else if (len x =? 0) && (len y =? 0) then true
          else if qualifies m ">=" (j_t c) x y then has_pair (fst l) (fst r) obs else true
      | EOverlapFilter =>
          if (0 <? overlap_sets x y) && cmp_op (j_op c) (PInt (overlap_sets x y)) (j_t c)
          then has_pair (fst l) (fst r) obs else true
      end
    else true).
Proof.
  unfold required, complete_spec, with_tables. cbn [j_L j_R j_entry j_t j_op forallb has_pair existsb].
  rewrite !andb_true_r.
  destruct (present l && present r); [|reflexivity].
  cbv zeta.
  destruct (j_entry c) as [m|k m|].
  - destruct (String.eqb m "EDIT_DISTANCE").
    + destruct (cmp_op (j_op c) (ed_dist l r) (PInt (ed_tau (j_t c))) && share (toks_of l) (toks_of r)); reflexivity.
    + destruct ((len (toks_of l) =? 0) && (len (toks_of r) =? 0)); [reflexivity|].
      destruct (qualifies m (j_op c) (j_t c) (toks_of l) (toks_of r)); reflexivity.
  - destruct (String.eqb m "EDIT_DISTANCE").
    + destruct (cmp_op "<=" (ed_dist l r) (j_t c) && share (toks_of l) (toks_of r)); reflexivity.
    + destruct ((len (toks_of l) =? 0) && (len (toks_of r) =? 0)); [reflexivity|].
      destruct (qualifies m ">=" (j_t c) (toks_of l) (toks_of r)); reflexivity.
  - destruct ((0 <? overlap_sets (toks_of l) (toks_of r)) &&
              cmp_op (j_op c) (PInt (overlap_sets (toks_of l) (toks_of r))) (j_t c)); reflexivity.
Qed.

Lemma forallb_eq_ext (A : Type) (f g : A -> bool) (l : list A) :
  (forall x, f x = g x) -> forallb f l = forallb g l.
Proof. intros H. induction l as [|x l IH]; [reflexivity|]. cbn [forallb]. rewrite H, IH. reflexivity. Qed.

Theorem lists_required_is_complete c obs : lists_required c obs = complete_spec c obs.
Proof.
  unfold lists_required, complete_spec.
  apply forallb_eq_ext. intros l. apply forallb_eq_ext. intros r. apply required_guard.
Qed.

(* two results that agree on the required pairs: completeness transfers *)
Lemma forallb_impl_eq (A : Type) (p f g : A -> bool) (l : list A) :
  forallb (fun x => if p x then Bool.eqb (f x) (g x) else true) l = true ->
  forallb (fun x => if p x then f x else true) l = forallb (fun x => if p x then g x else true) l.
Proof.
  induction l as [|x l IH]; [reflexivity|]. cbn [forallb]. intros H. apply andb_prop in H.
  destruct H as [Ha Hb]. rewrite (IH Hb). f_equal. destruct (p x); [|reflexivity]. apply eqb_prop. exact Ha.
Qed.

Theorem same_required_complete c o0 ov :
  same_required_spec c o0 ov = true -> complete_spec c o0 = complete_spec c ov.
Proof.
  rewrite <- !lists_required_is_complete. unfold same_required_spec, lists_required. intros H.
  rewrite forallb_forall in H.
  induction (j_L c) as [|l L IH]; [reflexivity|]. cbn [forallb].
  rewrite IH by (intros x Hx; apply H; right; exact Hx). f_equal.
  apply (forallb_impl_eq row (required c l) (fun r => has_pair (fst l) (fst r) o0)
                         (fun r => has_pair (fst l) (fst r) ov)).
  apply H. left. reflexivity.
Qed.

Theorem same_required_refl c o : same_required_spec c o o = true.
Proof.
  unfold same_required_spec. apply forallb_forall. intros l _. apply forallb_forall. intros r _.
  destruct (required c l r); [apply eqb_reflx|reflexivity].
Qed.

Print Assumptions lists_required_is_complete.
Print Assumptions same_required_complete.
