(* Shared part of the refinement proofs for the three GENERATED _filter_tables_split functions
   (size / prefix / position _filter_tables_split_rows in Gen/JoinGen.v) against the hand model
   Joins.filter_tables_core: the handle_empty flag, the per-right-row list of the generated loop and
   of the model as functions of the candidate KEYS and of the candidate TEST, their permutation,
   the model equation, sets built by folding `add`, and injectivity of the set representation.
   Axiom-free.                                                                            *)
From Coq Require Import ZArith Bool List String Lia Permutation.
From SSJ Require Import F64 PyNum FilterUtilsGen HelperGen TokenOrderingGen ValidationGen IndexGen JoinGen
     TokenOrdering Measures Filters Joins Projection ProjSpec ProjectionFacts OrderingFacts OrderingGenFacts
     IndexPyFacts IndexBuildFacts IndexProbeFacts IndexRefine IndexInverted IndexPrefix IndexSize IndexGlue
     JoinGenFacts JoinGenLoop JoinRefine SplitRefineBase.
Import ListNotations.
Open Scope Z_scope.

(* handle_empty = allow_empty and sim_measure_type not in ['OVERLAP', 'EDIT_DISTANCE'] *)
Definition f_he (p : fparams) (ae : bool) : bool :=
  ae && negb (String.eqb (fm p) "OVERLAP") && negb (String.eqb (fm p) "EDIT_DISTANCE").

Lemma handle_empty_eq p ae :
  py_and (PBool ae) (py_not_in (PStr (fm p)) (PList [PStr "OVERLAP"%string; PStr "EDIT_DISTANCE"%string]))
  = PBool (f_he p ae).
Proof. rewrite py_not_in_oe, py_and_bools. unfold f_he. now rewrite andb_assoc. Qed.

(* all tokens of the two tables *)
Definition f_all (tkL tkR : list pyval -> list Z) (lrows rrows : list (list pyval)) : list Z :=
  (List.concat (map tkL lrows) ++ List.concat (map tkR rrows))%list.

Lemma f_len_l tkL tkR lrows rrows r : In r lrows -> len (order (f_all tkL tkR lrows rrows) (tkL r)) = len (tkL r).
Proof.
  intros Hr. unfold len. f_equal. apply order_length. intros w Hw. unfold f_all. apply in_or_app. left.
  apply in_concat. exists (tkL r). split; [apply in_map; exact Hr | exact Hw].
Qed.
Lemma f_len_r tkL tkR lrows rrows r : In r rrows -> len (order (f_all tkL tkR lrows rrows) (tkR r)) = len (tkR r).
Proof.
  intros Hr. unfold len. f_equal. apply order_length. intros w Hw. unfold f_all. apply in_or_app. right.
  apply in_concat. exists (tkR r). split; [apply in_map; exact Hr | exact Hw].
Qed.

(* sizes, prefix lengths and the indexed rows of the two tables *)
Section FilterTables.
  Variables (p : fparams) (bound : Z) (lrows rrows : list (list pyval)).
  Variables (ki ji : nat) (li : list nat) (tokenize : pyval -> pyval) (tkL tkR : list pyval -> list Z).
  Let all := f_all tkL tkR lrows rrows.
  Hypothesis Hlrows : forall r, In r lrows -> cols_ok ki ji li r.
  Hypothesis HtokL : forall r, In r lrows -> tokenize (nth ji r PNone) = pints (tkL r).
  Hypothesis Hf : IndexGlue.formulas_ok p bound.
  Hypothesis HsL : forall r, In r lrows -> len (tkL r) < bound.
  Hypothesis HsR : forall r, In r rrows -> len (tkR r) < bound.

  Lemma ft_len_x r : In r lrows -> 0 <= len (order all (tkL r)) < bound.
  Proof.
    intros Hr. unfold all. rewrite f_len_l by exact Hr. split; [unfold len; lia | apply HsL; exact Hr].
  Qed.
  Lemma ft_len_y r : In r rrows -> 0 <= len (order all (tkR r)) < bound.
  Proof.
    intros Hr. unfold all. rewrite f_len_r by exact Hr. split; [unfold len; lia | apply HsR; exact Hr].
  Qed.
  Lemma ft_plL : forall x, In x (map (fun r => order all (tkL r)) lrows) -> exists k, g_pl p (len x) = PInt k.
  Proof.
    intros x Hx. apply in_map_iff in Hx. destruct Hx as (r & <- & Hr).
    apply (IndexGlue.formulas_ok_pl p bound); [exact Hf | apply ft_len_x; exact Hr].
  Qed.
  Lemma ft_lrow_ok :
    Forall2 (IndexBuildFacts.row_ok (natpy ji) (PDict (ordering_dict all)) tokenize)
            (map PList lrows) (map (fun r => order all (tkL r)) lrows).
  Proof.
    apply forall2_map_l. intros r Hr. unfold IndexBuildFacts.row_ok.
    destruct (join_cell_ok _ _ _ _ (Hlrows r Hr)) as [E Hne]. rewrite E. split; [exact Hne|].
    apply (ordered_L lrows rrows ji tokenize tkL tkR HtokL r Hr).
  Qed.
End FilterTables.

(* ---------------------------------------------------------------- one right row *)
(* generated loop: (left row, PNone) in output order, from the candidate keys *)
Definition f_row_pairs (he : bool) (Lo : list (list Z)) (keys : list Z) (y : list Z) : list (Z * pyval) :=
  if he && (len y =? 0) then map (fun c => (c, PNone)) (empty_from 0 Lo)
  else map (fun c => (c, PNone)) keys.
(* model: from the candidate test *)
Definition f_model_row (he : bool) (Lo : list (list Z)) (cb : nat -> bool) (j : nat) (y : list Z) : list triple :=
  if he && (len y =? 0) then
    flat_map (fun cx : nat * list Z => if len (snd cx) =? 0 then [(fst cx, j, PNone)] else []) (enumerate Lo)
  else flat_map (fun c => if cb c then [(c, j, PNone)] else []) (seq 0 (List.length Lo)).

Lemma f_row_perm he Lo keys cb j y :
  (he && (len y =? 0) = false ->
     NoDup keys /\ (forall c, In c keys -> 0 <= c < Z.of_nat (List.length Lo)) /\
     forall c, (c < List.length Lo)%nat -> (cb c = true <-> In (Z.of_nat c) keys)) ->
  Permutation (map (fun cs : Z * pyval => (Z.to_nat (fst cs), j, snd cs)) (f_row_pairs he Lo keys y))
              (f_model_row he Lo cb j y).
Proof.
  intros H. unfold f_row_pairs, f_model_row. destruct (he && (len y =? 0)).
  - rewrite map_map. cbn [fst snd]. change 0 with (Z.of_nat 0).
    rewrite (empty_from_enumerate (fun c => (c, j, PNone)) Lo 0). apply Permutation_refl.
  - destruct (H eq_refl) as (Hnd & Hk & Hcb).
    set (tri := fun c : nat => if cb c then [(c, j, PNone)] else [] : list triple).
    replace (map (fun cs : Z * pyval => (Z.to_nat (fst cs), j, snd cs)) (map (fun c => (c, PNone)) keys))
      with (flat_map tri (map Z.to_nat keys)).
    + apply keys_row_perm; [exact Hnd | exact Hk |].
      intros c Hc Hnot. unfold tri. destruct (cb c) eqn:E; [|reflexivity].
      exfalso. apply Hnot. apply (Hcb c Hc). exact E.
    + rewrite flat_map_concat_map, !map_map.
      assert (G : forall l : list Z, (forall c, In c l -> In c keys) ->
                    List.concat (map (fun x => tri (Z.to_nat x)) l)
                    = map (fun x => (Z.to_nat (fst (x, PNone)), j, snd (x, PNone))) l).
      { induction l as [|c l IH]; intros Hl; cbn [map List.concat]; [reflexivity|].
        rewrite IH by (intros c' Hc'; apply Hl; right; exact Hc').
        assert (Hin : In c keys) by (apply Hl; left; reflexivity).
        pose proof (Hk c Hin) as Hr. unfold tri at 1.
        assert (E : cb (Z.to_nat c) = true).
        { apply Hcb; [lia|]. rewrite Z2Nat.id by lia. exact Hin. }
        rewrite E. reflexivity. }
      apply G. auto.
Qed.

(* ---------------------------------------------------------------- the model *)
Lemma f_model_eq (k : fkind) (p : fparams) (ae : bool) (L R : list (list Z)) (cb : list Z -> nat -> bool) :
  let all := (List.concat L ++ List.concat R)%list in
  let Lo := map (order all) L in
  (forall yraw, In yraw R -> f_he p ae && (len (order all yraw) =? 0) = false ->
     forall c, (c < List.length Lo)%nat ->
       filter_cand k p (nth c Lo []) (order all yraw) = Some (cb (order all yraw) c)) ->
  filter_tables_core k p ae L R
  = Some (flat_map (fun jy : nat * list Z =>
                      f_model_row (f_he p ae) Lo (cb (order all (snd jy))) (fst jy) (order all (snd jy)))
                   (enumerate R)).
Proof.
  intros all Lo H. unfold filter_tables_core. fold all. cbv zeta. fold Lo.
  apply opt_concat_all_some. intros [j yraw] Hjy. cbn [fst snd].
  assert (Hin : In yraw R) by (apply in_combine_r in Hjy; exact Hjy).
  unfold f_model_row. fold (f_he p ae).
  destruct (f_he p ae && (len (order all yraw) =? 0)) eqn:Ebr; [reflexivity|].
  unfold enumerate at 1. rewrite (enumerate_as_map [] Lo), map_map. cbn [fst snd].
  apply opt_concat_all_some. intros c Hc. apply in_seq in Hc.
  rewrite (H yraw Hin Ebr c) by lia. reflexivity.
Qed.

(* ---------------------------------------------------------------- sets of row positions *)
Lemma srepr_inj : forall d d' : sset, srepr d = srepr d' -> d = d'.
Proof.
  unfold srepr, drepr. intros d d' H. injection H as H. revert d' H.
  induction d as [|[c []] d IH]; intros [|[c' []] d'] H; cbn [map fst snd] in H; try discriminate H; [reflexivity|].
  injection H as -> H. f_equal. apply IH. exact H.
Qed.

Definition skeys_ok (n : Z) (d : sset) : Prop :=
  NoDup (map fst d) /\ forall c, In c (map fst d) -> 0 <= c < n.

Lemma sfold_ok {W} (n : Z) (g : W -> list Z) : (forall w c, In c (g w) -> 0 <= c < n) ->
  forall ws, skeys_ok n (fold_left (fun d w => fold_left sadd (g w) d) ws []).
Proof.
  intros Hg ws.
  assert (H0 : skeys_ok n []) by (split; [constructor | intros c []]).
  revert H0. generalize ([] : sset) as d.
  induction ws as [|w ws IH]; intros d Hd; cbn [fold_left]; [exact Hd|].
  apply IH. specialize (Hg w). revert d Hd.
  induction (g w) as [|c l IHl]; intros d Hd; cbn [fold_left]; [exact Hd|].
  apply IHl; [intros c' Hc'; apply Hg; right; exact Hc'|].
  destruct Hd as [Hnd Hk]. unfold sadd. split; [apply aset_nodup; exact Hnd|].
  intros c' Hc'. apply aset_keys in Hc'. destruct Hc' as [->|Hc']; [apply Hg; left; reflexivity | apply Hk; exact Hc'].
Qed.

Lemma smem_keys (d : sset) c : smem d c = true <-> In c (map fst d).
Proof.
  unfold smem. split.
  - destruct (aget d c) as [u|] eqn:E; [intros _; eapply aget_in_keys; exact E | discriminate].
  - intros Hin. destruct (aget d c) as [u|] eqn:E; [reflexivity|].
    exfalso. revert E. induction d as [|[k u] d IH]; [destruct Hin|]. cbn [aget].
    destruct (Z.eqb_spec k c) as [->|Hne]; [discriminate|].
    destruct Hin as [Hk|Hin]; [cbn [fst] in Hk; congruence | apply IH; exact Hin].
Qed.

Lemma zempty_from_len : forall xs c, zempty_from c (map len xs) = empty_from c xs.
Proof. induction xs as [|x xs IH]; intros c; cbn [map zempty_from empty_from]; [reflexivity|]. now rewrite IH. Qed.

(* ---------------------------------------------------------------- PrefixFilter candidates *)
(* the candidate set of PrefixFilter.find_candidates *)
Definition px_set (p : fparams) (he : bool) (Lo : list (list Z)) (y : list Z) : sset :=
  pprobe_abs (p_idx (pbuild_abs p he Lo)) (slice0z (plen p (len y)) y).
Definition px_keys (p : fparams) (he : bool) (Lo : list (list Z)) (y : list Z) : list Z :=
  map fst (px_set p he Lo y).
Definition px_cb (p : fparams) (he : bool) (Lo : list (list Z)) (y : list Z) (c : nat) : bool :=
  smem (px_set p he Lo y) (Z.of_nat c).

Lemma pposts_from_range p w : forall xs c0 c, In c (pposts_from p w c0 xs) -> c0 <= c < c0 + nrows xs.
Proof.
  induction xs as [|x xs IH]; intros c0 c; cbn [pposts_from]; [intros []|].
  unfold nrows in *. cbn [List.length]. intros Hin. apply in_app_or in Hin. destruct Hin as [H|H].
  - apply repeat_spec in H. subst. lia.
  - specialize (IH _ _ H). lia.
Qed.

Section PrefixRow.
  Variables (p : fparams) (he : bool) (bound : Z) (lrows rrows : list (list pyval)).
  Variables (ki ji : nat) (li : list nat) (tokenize : pyval -> pyval) (tkL tkR : list pyval -> list Z).
  Let all := f_all tkL tkR lrows rrows.
  Let xof (r : list pyval) := order all (tkL r).
  Let yof (r : list pyval) := order all (tkR r).
  Let Lo := map xof lrows.
  Let ordering := PDict (ordering_dict all).
  Let a := pbuild_abs p he Lo.
  Hypothesis Hlrows : forall r, In r lrows -> cols_ok ki ji li r.
  Hypothesis HtokL : forall r, In r lrows -> tokenize (nth ji r PNone) = pints (tkL r).
  Hypothesis Hf : IndexGlue.formulas_ok p bound.
  Hypothesis HsL : forall r, In r lrows -> len (tkL r) < bound.
  Hypothesis HsR : forall r, In r rrows -> len (tkR r) < bound.

  Lemma px_row_gen (rrow : list pyval) : In rrow rrows ->
    prefix_filter_find_candidates (PStr (fm p)) (ft p) (pints (yof rrow)) (iidx_repr (p_idx a)) (PInt (fq p))
    = srepr (px_set p he Lo (yof rrow)) /\
    NoDup (px_keys p he Lo (yof rrow)) /\
    (forall c, In c (px_keys p he Lo (yof rrow)) -> 0 <= c < Z.of_nat (List.length lrows)) /\
    forall c, (c < List.length Lo)%nat ->
      prefix_cand p (nth c Lo []) (yof rrow) = Some (smem (px_set p he Lo (yof rrow)) (Z.of_nat c)).
  Proof.
    pose proof (ft_plL p bound lrows rrows tkL tkR Hf HsL) as px_plL.
    pose proof (ft_lrow_ok lrows rrows ki ji li tokenize tkL tkR Hlrows HtokL) as px_lrow_ok.
    fold all xof Lo ordering in px_plL, px_lrow_ok.
    intros Hin. set (y := yof rrow).
    destruct (IndexGlue.formulas_ok_pl p bound (len y) Hf (ft_len_y bound lrows rrows tkL tkR HsR rrow Hin)) as [k Hk].
    assert (Ek : plen p (len y) = k) by (unfold plen; now rewrite Hk).
    pose proof (prefix_find_candidates_eq p (p_idx a) y k Hk) as Efc.
    unfold px_keys, px_set. fold a. rewrite Ek.
    split; [exact Efc|].
    assert (Hok : skeys_ok (Z.of_nat (List.length lrows)) (pprobe_abs (p_idx a) (slice0z k y))).
    { unfold pprobe_abs. apply (sfold_ok _ (iidx_get (p_idx a))). intros w c Hc.
      unfold a in Hc. rewrite pbuild_postings in Hc. apply pposts_from_range in Hc.
      unfold nrows, Lo in Hc. rewrite map_length in Hc. lia. }
    destruct Hok as [Hnd Hkeys]. split; [exact Hnd|]. split; [exact Hkeys|].
    destruct (prefix_find_candidates_refines p (natpy ji) ordering tokenize (map PList lrows) Lo he y k
                px_lrow_ok px_plL Hk) as (index & ret & d & Hb & Hc & _ & Hmem).
    rewrite (prefix_index_build_eq p (natpy ji) ordering tokenize (map PList lrows) Lo he px_lrow_ok px_plL) in Hb.
    fold a in Hb. unfold pbuild_result in Hb. injection Hb as <- _.
    rewrite Efc in Hc. apply srepr_inj in Hc. subst d. exact Hmem.
  Qed.
End PrefixRow.

Print Assumptions f_row_perm.
Print Assumptions px_row_gen.
Print Assumptions f_model_eq.
Print Assumptions sfold_ok.
