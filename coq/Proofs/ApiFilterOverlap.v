(* C06 (and C08/C09 for this entry) at the API level of the model: OverlapFilter.filter_tables
   (`j_entry c = EOverlapFilter`) lists exactly the pairs of present rows whose token sets
   satisfy the comparison with the overlap size, each once, with the overlap as score.
   Integers and lists only, axiom-free.                                                    *)
From Coq Require Import ZArith Bool List String Lia.
From SSJ Require Import F64 PyNum HelperGen TokenOrdering Filters Joins Api JoinSpec MetaSpec
                        OrderingFacts OverlapFacts CoreLiftBase CoreLift ApiLift ApiFilterBase.
Import ListNotations.
Open Scope string_scope.
Open Scope list_scope.
Open Scope Z_scope.

Definition toks_nodup (c : jcase) : Prop :=
  (forall l, In l (j_L c) -> NoDup (toks_of l)) /\ (forall r, In r (j_R c) -> NoDup (toks_of r)).

Definition valid_ovf_case (c : jcase) : Prop :=
  j_entry c = EOverlapFilter /\ size_ok c /\ keys_ok c /\ toks_nodup c /\
  exists T, j_t c = PInt T /\ 1 <= T /\ lower_op (j_op c).

Lemma score_same_int z : score_same (PInt z) (PInt z) = true.
Proof. cbn. rewrite Z.compare_refl. reflexivity. Qed.

Lemma ovf_core_pf c all l r : j_entry c = EOverlapFilter ->
  core_pf c all (rowval l) (rowval r) = Some (ovl_pair (j_op c) (j_t c) (toks_of l) (toks_of r)).
Proof. intros He. unfold core_pf. rewrite He. reflexivity. Qed.

Lemma ovl_pair_sets op t x y : NoDup x -> NoDup y ->
  ovl_pair op t x y =
  if (0 <? overlap_sets x y) && cmp_op op (PInt (overlap_sets x y)) t then [PInt (overlap_sets x y)] else [].
Proof. intros Hx Hy. unfold ovl_pair. cbv zeta. rewrite (overlap_count_sets x y Hx Hy). reflexivity. Qed.

Section OverlapFilterApi.
  Hypothesis Hpart : part_hyp.
  Variable c : jcase.
  Hypothesis Hv : valid_ovf_case c.

  Let He : j_entry c = EOverlapFilter. Proof. exact (proj1 Hv). Qed.
  Let Hsz : size_ok c. Proof. exact (proj1 (proj2 Hv)). Qed.
  Let Hk : keys_ok c. Proof. exact (proj1 (proj2 (proj2 Hv))). Qed.
  Let HndL : forall l, In l (filter present (j_L c)) -> NoDup (toks_of l).
  Proof. intros l H. apply filter_In in H. apply (proj1 (proj1 (proj2 (proj2 (proj2 Hv))))). tauto. Qed.
  Let HndR : forall Rc r, incl Rc (filter present (j_R c)) -> In r Rc -> NoDup (toks_of r).
  Proof.
    intros Rc r Hi H. apply Hi in H. apply filter_In in H.
    apply (proj2 (proj1 (proj2 (proj2 (proj2 Hv))))). tauto.
  Qed.

  Theorem ovf_total : exists out, api_join c = Some out.
  Proof.
    apply (api_total Hpart c Hsz); [unfold core_ok; rewrite He; reflexivity|].
    intros Rc l r _ _ _. rewrite ovf_core_pf by exact He. discriminate.
  Qed.

  Theorem ovf_complete : forall out, api_join c = Some out -> complete_spec c out = true.
  Proof.
    intros out H. apply (complete_spec_lift Hpart c Hsz Hk out H).
    intros Rc l r lst Hi Hl Hr Hn Epf. rewrite ovf_core_pf in Epf by exact He. injection Epf as <-.
    rewrite ovl_pair_sets by (eauto using HndL, HndR).
    unfold need_pair in Hn. rewrite He in Hn. cbv zeta in Hn. rewrite Hn. discriminate.
  Qed.

  Theorem ovf_sound : forall out, api_join c = Some out -> sound_spec c out = true.
  Proof.
    intros out H. apply (sound_spec_lift Hpart c Hsz Hk out H).
    intros Rc l r lst s0 Hi Hl Hr Epf Hs. rewrite ovf_core_pf in Epf by exact He. injection Epf as <-.
    rewrite ovl_pair_sets in Hs by (eauto using HndL, HndR).
    apply In_if_single in Hs. destruct Hs as [Hc ->].
    unfold sound_pres. rewrite He. cbv zeta. rewrite Hc. cbn [andb]. unfold rep_score.
    destruct (j_with_score c); [apply score_same_int|reflexivity].
  Qed.

  Theorem ovf_missing : forall out, api_join c = Some out -> missing_spec c out = true.
  Proof. intros out H. apply (missing_spec_holds Hpart c Hsz Hk out H). Qed.

  Theorem ovf_empty : forall out, api_join c = Some out -> empty_spec c out = true.
  Proof.
    intros out H. apply (empty_spec_lift Hpart c Hsz Hk out H).
    intros Rc l r lst Hi Hl Hr Epf. rewrite ovf_core_pf in Epf by exact He. injection Epf as <-. split.
    - intros Hb b Eb. unfold empty_expected in Eb. rewrite He in Eb. injection Eb as <-.
      unfold both_empty in Hb. apply andb_true_iff in Hb. destruct Hb as [H1 H2].
      apply len_zero_nil in H1, H2. rewrite H1, H2. reflexivity.
    - intros _ Ho. unfold is_set_join in Ho. rewrite He, andb_false_r in Ho. discriminate.
  Qed.

  (* C06, exactness: a pair of present rows is listed iff its overlap satisfies the comparison *)
  Theorem ovf_exact : forall out, api_join c = Some out ->
    forall l r, In l (j_L c) -> In r (j_R c) -> present l = true -> present r = true ->
      has_pair (fst l) (fst r) out = cmp_op (j_op c) (PInt (overlap_sets (toks_of l) (toks_of r))) (j_t c).
  Proof.
    intros out H l r Hl Hr Pl Pr.
    destruct (pair_chunk Hpart c Hsz Hk out l r H Hl Hr Pl Pr) as [Rc [lst [Hi [Hrc [Epf ->]]]]].
    rewrite ovf_core_pf in Epf by exact He. injection Epf as <-.
    assert (Hlp : In l (filter present (j_L c))) by (apply filter_In; auto).
    rewrite ovl_pair_sets by (eauto using HndL, HndR).
    destruct Hv as [_ [_ [_ [_ [T [Ht [HT Hop]]]]]]]. rewrite Ht.
    destruct (cmp_op (j_op c) (PInt (overlap_sets (toks_of l) (toks_of r))) (PInt T)) eqn:Ec.
    - pose proof (lower_op_pos _ _ _ Hop HT Ec) as Hpos.
      destruct (Z.ltb_spec 0 (overlap_sets (toks_of l) (toks_of r))); [reflexivity|lia].
    - rewrite andb_false_r. reflexivity.
  Qed.
End OverlapFilterApi.

(* ------------------------------------------------------------------ example *)
Definition ovf_ex : jcase :=
  {| j_entry := EOverlapFilter; j_t := PInt 2; j_q := 0; j_op := ">="; j_allow_empty := true;
     j_allow_missing := true; j_with_score := true; j_njobs := 2; j_cpus := 4;
     j_L := [(1, Some ([], [1; 2; 3])); (2, None); (3, Some ([], [])); (4, Some ([], [5; 2; 1]))];
     j_R := [(7, Some ([], [2; 1; 9])); (8, Some ([], [])); (9, None); (6, Some ([], [3; 5]))] |}.

Example ovf_ex_valid : valid_ovf_case ovf_ex.
Proof.
  split; [reflexivity|]. split; [vm_compute; reflexivity|].
  split; [split; simpl; repeat constructor; simpl; intuition discriminate|].
  split.
  - split; intros x Hx; simpl in Hx;
      repeat (destruct Hx as [<-|Hx]; [simpl; repeat constructor; simpl; intuition discriminate|]);
      destruct Hx.
  - exists 2. split; [reflexivity|]. split; [lia|left; reflexivity].
Qed.

Example ovf_ex_check :
  match api_join ovf_ex with
  | Some out => complete_spec ovf_ex out && sound_spec ovf_ex out && missing_spec ovf_ex out &&
                empty_spec ovf_ex out && has_pair 1 7 out && has_pair 4 7 out && negb (has_pair 1 6 out)
  | None => false
  end = true.
Proof. vm_compute. reflexivity. Qed.

Print Assumptions ovf_total.
Print Assumptions ovf_complete.
Print Assumptions ovf_sound.
Print Assumptions ovf_missing.
Print Assumptions ovf_empty.
Print Assumptions ovf_exact.
