(* split_table / chunks_of form a partition (property C10 core): the chunks handed to the
   per-chunk core, concatenated, are the table; no row is lost or duplicated at a chunk
   boundary; the recorded offset of a chunk is the position where it starts.
   Part 1 (lists, nat; axiom-free): slices along a monotone boundary sequence.
   Part 2: the boundaries of the GENERATED split_bounds (uses Proofs/SplitArith.v, hence the
           Reals/Flocq axioms).
   Part 3: chunks_of, with the GENERATED get_num_processes_to_launch_with_cpus.            *)
From Coq Require Import ZArith Lia List Bool.
From SSJ Require Import F64 PyNum HelperGen Api PyFacts SplitArith.
Import ListNotations.
Open Scope Z_scope.

(* ------------------------------------------------------------------ *)
(** * 1. Slices along a monotone sequence of boundaries (axiom-free)   *)

Section Slices.
Context {A : Type}.
Open Scope nat_scope.

Lemma firstn_add_skipn : forall (x y : nat) (l : list A),
  firstn x l ++ firstn y (skipn x l) = firstn (x + y) l.
Proof.
induction x as [|x IH]; intros y l.
- reflexivity.
- destruct l as [|h l].
  + simpl. now rewrite firstn_nil.
  + simpl. f_equal. apply IH.
Qed.

Lemma skipn_add : forall (y x : nat) (l : list A), skipn x (skipn y l) = skipn (y + x) l.
Proof.
induction y as [|y IH]; intros x l.
- reflexivity.
- destruct l as [|h l].
  + cbn [skipn Nat.add]. now rewrite skipn_nil.
  + cbn [skipn Nat.add]. apply IH.
Qed.

Lemma slice_glue : forall (l : list A) a b c, a <= b -> b <= c ->
  slice_nat l (a, b) ++ slice_nat l (b, c) = slice_nat l (a, c).
Proof.
intros l a b c Hab Hbc. unfold slice_nat. cbn [fst snd].
replace (skipn b l) with (skipn (b - a) (skipn a l))
  by (rewrite skipn_add; f_equal; lia).
rewrite firstn_add_skipn. f_equal. lia.
Qed.

Lemma slice_length : forall (l : list A) a b, a <= b -> b <= length l ->
  length (slice_nat l (a, b)) = b - a.
Proof.
intros l a b Hab Hb. unfold slice_nat. cbn [fst snd].
rewrite firstn_length, skipn_length. lia.
Qed.

Lemma slice_all : forall l : list A, slice_nat l (0, length l) = l.
Proof.
intros l. unfold slice_nat. cbn [fst snd skipn]. rewrite Nat.sub_0_r. apply firstn_all.
Qed.

Lemma mono_chain : forall (f : nat -> nat) m a,
  (forall i, a <= i < a + m -> f i <= f (S i)) -> f a <= f (a + m).
Proof.
intros f m. induction m as [|m IH]; intros a H.
- rewrite Nat.add_0_r. lia.
- apply Nat.le_trans with (f (S a)).
  + apply H. lia.
  + replace (a + S m) with (S a + m) by lia. apply IH. intros i Hi. apply H. lia.
Qed.

(* consecutive slices glue to one slice *)
Lemma concat_slices : forall (l : list A) (f : nat -> nat) m a,
  (forall i, a <= i < a + m -> f i <= f (S i)) ->
  concat (map (fun i => slice_nat l (f i, f (S i))) (seq a m)) = slice_nat l (f a, f (a + m)).
Proof.
intros l f m. induction m as [|m IH]; intros a H.
- rewrite Nat.add_0_r. unfold slice_nat. cbn [fst snd]. now rewrite Nat.sub_diag.
- cbn [seq map concat]. rewrite IH by (intros i Hi; apply H; lia).
  replace (a + S m) with (S a + m) by lia.
  apply slice_glue.
  + apply H. lia.
  + apply mono_chain. intros i Hi. apply H. lia.
Qed.

(* a monotone sequence 0 = f 0 <= f 1 <= ... <= f k = length l cuts l into a partition *)
Theorem slices_partition : forall (l : list A) (f : nat -> nat) k,
  f 0 = 0 -> f k = length l ->
  (forall i, i < k -> f i <= f (S i)) ->
  concat (map (fun i => slice_nat l (f i, f (S i))) (seq 0 k)) = l.
Proof.
intros l f k H0 Hk Hm.
rewrite concat_slices by (intros i Hi; apply Hm; lia).
rewrite H0. cbn [Nat.add]. rewrite Hk. apply slice_all.
Qed.

(* the recorded offset of every chunk is the total length of the chunks before it *)
Fixpoint offsets_from (off : nat) (chs : list (nat * list A)) : Prop :=
  match chs with
  | [] => True
  | ch :: r => fst ch = off /\ offsets_from (off + length (snd ch)) r
  end.

Lemma slices_offsets : forall (l : list A) (f : nat -> nat) m a,
  (forall i, a <= i < a + m -> f i <= f (S i)) -> f (a + m) <= length l ->
  offsets_from (f a)
    (map (fun i => (f i, slice_nat l (f i, f (S i)))) (seq a m)).
Proof.
intros l f m. induction m as [|m IH]; intros a H Hl.
- exact I.
- cbn [seq map offsets_from fst snd]. split; [reflexivity | ].
  replace (a + S m) with (S a + m) in Hl by lia.
  assert (H1 : f a <= f (S a)) by (apply H; lia).
  assert (H2 : f (S a) <= f (S a + m)) by (apply mono_chain; intros i Hi; apply H; lia).
  rewrite slice_length by lia.
  replace (f a + (f (S a) - f a)) with (f (S a)) by lia.
  apply IH; [intros i Hi; apply H; lia | exact Hl].
Qed.

End Slices.

(* ------------------------------------------------------------------ *)
(** * 2. The boundaries of split_bounds                                *)

(* boundary j as a natural number, and the list of (lo, hi) pairs *)
Definition bnat (k n : Z) (j : nat) : nat := Z.to_nat (beta k n (Z.of_nat j)).
Definition split_bs (k n : Z) : list (nat * nat) :=
  map (fun j => (bnat k n j, bnat k n (S j))) (seq 0 (Z.to_nat k)).

Lemma bounds_of_map : forall (b : Z -> Z) (zs : list Z),
  bounds_of (PList (map (fun i => PTuple [PInt (b i); PInt (b (i + 1))]) zs)) =
  Some (map (fun i => (Z.to_nat (b i), Z.to_nat (b (i + 1)))) zs).
Proof.
intros b zs. unfold bounds_of. induction zs as [|z zs IH].
- reflexivity.
- cbn [map fold_right]. rewrite IH. do 3 f_equal; lia.
Qed.

Theorem split_bounds_bs : forall k n, 1 <= k < 2^31 -> 0 <= n < 2^31 ->
  bounds_of (split_bounds (PInt n) (PInt k)) = Some (split_bs k n).
Proof.
intros k n Hk Hn. rewrite split_bounds_shape by assumption.
rewrite bounds_of_map. unfold split_bs, idx, bnat. rewrite map_map.
f_equal. apply map_ext. intros j. now rewrite Nat2Z.inj_succ, <- Z.add_1_r.
Qed.

Lemma bnat_0 : forall k n, 1 <= k < 2^31 -> 0 <= n < 2^31 -> bnat k n 0 = 0%nat.
Proof. intros k n Hk Hn. unfold bnat. change (Z.of_nat 0) with 0. now rewrite beta_0. Qed.

Lemma bnat_last : forall k n, 1 <= k < 2^31 -> 0 <= n < 2^31 ->
  bnat k n (Z.to_nat k) = Z.to_nat n.
Proof. intros k n Hk Hn. unfold bnat. rewrite Z2Nat.id by lia. now rewrite beta_last. Qed.

Lemma bnat_step : forall k n j, 1 <= k < 2^31 -> 0 <= n < 2^31 -> (j < Z.to_nat k)%nat ->
  (bnat k n j <= bnat k n (S j))%nat.
Proof.
intros k n j Hk Hn Hj. unfold bnat.
apply Z2Nat.inj_le.
- apply beta_nonneg; lia.
- apply beta_nonneg; lia.
- apply beta_mono; lia.
Qed.

(* the chunks of split_table(l, k) concatenate to l, for every k >= 1 *)
Theorem split_partition : forall (A : Type) (l : list A) (k : Z),
  1 <= k < 2^31 -> Z.of_nat (length l) < 2^31 ->
  bounds_of (split_bounds (PInt (Z.of_nat (length l))) (PInt k))
    = Some (split_bs k (Z.of_nat (length l))) /\
  concat (map (slice_nat l) (split_bs k (Z.of_nat (length l)))) = l /\
  offsets_from 0 (map (fun ab => (fst ab, slice_nat l ab)) (split_bs k (Z.of_nat (length l)))) /\
  length (split_bs k (Z.of_nat (length l))) = Z.to_nat k.
Proof.
intros A l k Hk Hl. set (n := Z.of_nat (length l)).
assert (Hn : 0 <= n < 2^31) by (unfold n; lia).
assert (Hlast : bnat k n (Z.to_nat k) = length l).
{ rewrite bnat_last by assumption. unfold n. apply Nat2Z.id. }
split; [ | split; [ | split]].
- now apply split_bounds_bs.
- unfold split_bs. rewrite map_map.
  apply (slices_partition l (bnat k n) (Z.to_nat k)).
  + now apply bnat_0.
  + exact Hlast.
  + intros i Hi. now apply bnat_step.
- unfold split_bs. rewrite map_map. cbn [fst].
  assert (Ho : offsets_from (bnat k n 0)
            (map (fun i => (bnat k n i, slice_nat l (bnat k n i, bnat k n (S i))))
                 (seq 0 (Z.to_nat k)))).
  { apply slices_offsets.
    + intros i Hi. apply bnat_step; try assumption. lia.
    + cbn [Nat.add]. rewrite Hlast. lia. }
  rewrite bnat_0 in Ho by assumption. exact Ho.
- unfold split_bs. now rewrite map_length, seq_length.
Qed.

(* ------------------------------------------------------------------ *)
(** * 3. chunks_of                                                     *)

Lemma py_lt_int_val : forall a b, py_lt (PInt a) (PInt b) = PBool (a <? b).
Proof.
intros a b. unfold py_lt, py_ord, strict2, ord_cmp, num_of, num_cmp.
destruct (Z.compare_spec a b); destruct (Z.ltb_spec a b); try reflexivity; lia.
Qed.
Lemma py_gt_int_val : forall a b, py_gt (PInt a) (PInt b) = PBool (b <? a).
Proof.
intros a b. unfold py_gt, py_ord, strict2, ord_cmp, num_of, num_cmp.
destruct (Z.compare_spec a b); destruct (Z.ltb_spec b a); try reflexivity; lia.
Qed.
Lemma py_max_int : forall a b, py_max (PInt a) (PInt b) = PInt (Z.max a b).
Proof.
intros a b. unfold py_max. rewrite py_gt_int_val. cbn [py_truth].
destruct (Z.ltb_spec a b); f_equal; lia.
Qed.
Lemma py_min_int : forall a b, py_min (PInt a) (PInt b) = PInt (Z.min a b).
Proof.
intros a b. unfold py_min. rewrite py_lt_int_val. cbn [py_truth].
destruct (Z.ltb_spec b a); f_equal; lia.
Qed.

(* number of worker processes: n_jobs, or cpu_count + 1 + n_jobs if negative; at least 1 *)
Definition nprocs (njobs cpus : Z) : Z :=
  Z.max (if njobs <? 0 then cpus + 1 + njobs else njobs) 1.

Lemma nprocs_eval : forall njobs cpus,
  get_num_processes_to_launch_with_cpus (PInt njobs) (PInt cpus) = PInt (nprocs njobs cpus).
Proof.
intros njobs cpus. unfold get_num_processes_to_launch_with_cpus, nprocs.
rewrite py_lt_int_val. cbn [bindx py_truth].
destruct (njobs <? 0).
- rewrite !py_add_ii. cbn [bindx]. apply py_max_int.
- cbn [bindx]. apply py_max_int.
Qed.

(* the number of chunks *)
Definition nchunks (njobs cpus : Z) (len : nat) : Z := Z.min (nprocs njobs cpus) (Z.of_nat len).

Theorem chunks_of_eval : forall (A : Type) (njobs cpus : Z) (Rp : list A),
  Z.of_nat (length Rp) < 2^31 ->
  chunks_of njobs cpus Rp =
  Some (if nchunks njobs cpus (length Rp) <=? 1 then [(0%nat, Rp)]
        else map (fun ab => (fst ab, slice_nat Rp ab))
                 (split_bs (nchunks njobs cpus (length Rp)) (Z.of_nat (length Rp)))).
Proof.
intros A njobs cpus Rp Hl. unfold chunks_of.
rewrite nprocs_eval, py_min_int. fold (nchunks njobs cpus (length Rp)).
set (k := nchunks njobs cpus (length Rp)).
destruct (Z.leb_spec k 1) as [Hk|Hk]; [reflexivity | ].
assert (Hk' : 1 <= k < 2^31) by (unfold k, nchunks in *; lia).
destruct (split_partition A Rp k Hk' Hl) as [-> _]. reflexivity.
Qed.

Theorem chunks_of_partition : forall (A : Type) (njobs cpus : Z) (Rp : list A),
  Z.of_nat (length Rp) < 2^31 ->
  exists chs, chunks_of njobs cpus Rp = Some chs /\
              concat (map snd chs) = Rp /\
              offsets_from 0 chs /\
              length chs = Z.to_nat (Z.max 1 (nchunks njobs cpus (length Rp))).
Proof.
intros A njobs cpus Rp Hl. rewrite chunks_of_eval by exact Hl.
set (k := nchunks njobs cpus (length Rp)).
eexists. split; [reflexivity | ].
destruct (Z.leb_spec k 1) as [Hk|Hk].
- cbn [map snd concat offsets_from fst length]. rewrite app_nil_r.
  repeat split. lia.
- assert (Hk' : 1 <= k < 2^31) by (unfold k, nchunks in *; lia).
  destruct (split_partition A Rp k Hk' Hl) as (_ & Hc & Ho & Hn).
  split; [ | split].
  + rewrite map_map. cbn [snd]. exact Hc.
  + exact Ho.
  + rewrite map_length, Hn. lia.
Qed.

(* ------------------------------------------------------------------ *)
(** * Examples and assumptions                                         *)

Example bounds_10_3 :
  bounds_of (split_bounds (PInt 10) (PInt 3)) = Some [(0, 3); (3, 7); (7, 10)]%nat.
Proof. vm_compute. reflexivity. Qed.

Example chunks_10_3 :
  chunks_of 3 4 [1; 2; 3; 4; 5; 6; 7; 8; 9; 10] =
  Some [(0%nat, [1; 2; 3]); (3%nat, [4; 5; 6; 7]); (7%nat, [8; 9; 10])].
Proof. vm_compute. reflexivity. Qed.

Example chunks_all_cpus :     (* n_jobs = -1 on 4 cpus: 4 chunks *)
  chunks_of (-1) 4 [1; 2; 3; 4; 5; 6; 7; 8; 9; 10] =
  Some [(0%nat, [1; 2]); (2%nat, [3; 4; 5]); (5%nat, [6; 7; 8]); (8%nat, [9; 10])].
Proof. vm_compute. reflexivity. Qed.

Print Assumptions slices_partition.    (* closed *)
Print Assumptions slices_offsets.      (* closed *)
Print Assumptions nprocs_eval.         (* closed *)
Print Assumptions split_bounds_bs.
Print Assumptions split_partition.
Print Assumptions chunks_of_eval.
Print Assumptions chunks_of_partition.
