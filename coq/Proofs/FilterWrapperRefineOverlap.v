(* End-to-end refinement of the GENERATED OverlapFilter.filter_tables and overlap_join_py
   (Gen/FilterWrapperGen.v: overlap_filter_tables_rows, overlap_join_rows).

   * overlap_filter_tables_rows_refines (AXIOM-FREE; chunk boundaries are a hypothesis): the frame returned
     is header_spec c with rows numbered (concat of the chunks' rows ++ missing-value rows), the rows of chunk
     j being a permutation of spec_row applied to the triples of the MODEL core overlap_tables_core op size
     on (present left rows, chunk j), every cell list the declarative projection cells_spec;
   * overlap_filter_tables_rows_end_to_end: against Model/Api.v api_join, entry EOverlapFilter;
   * overlap_join_rows_end_to_end: overlap_join_py = its two validators + OverlapFilter.filter_tables;
     against api_join with the entry EJoin "OVERLAP".
   (`_flat`: the shape of WrapperRefineEnd.jaccard_join_rows_end_to_end.)  The end-to-end theorems depend on
   the Reals axioms through the chunk boundaries only.                                             *)
From Coq Require Import ZArith Bool List String Lia Permutation.
From SSJ Require Import F64 PyNum FilterUtilsGen HelperGen TokenOrderingGen ValidationGen IndexGen JoinGen
     TokenOrdering Measures Filters Joins Api Projection ProjSpec IndexPyFacts ProjectionFacts
     JoinGenFacts JoinGenLoop JoinRefine JoinRefineProj SplitFacts SplitRefineProj SplitRefineProjAll
     Frame WrapperGen FilterWrapperGen WrapperRefineFrame
     WrapperRefineMissing WrapperRefineCore WrapperRefineChunks WrapperRefine WrapperRefineClosed
     WrapperRefineApi WrapperBody WrapperApiLink WrapperEnd.
Import ListNotations.
Open Scope Z_scope.

Section OverlapFilter.
  Variables (c : pcase) (size : pyval) (op : string) (ae am : bool) (q njobs cpus : Z).
  Variables (lsrc rsrc : list (list pyval)) (showp : pyval).
  Variables (tokenize : pyval -> pyval).
  Variables (toks : pyval -> list Z) (cf : pyval -> pyval -> pyval) (kz : pyval -> Z).

  Let lpres := lpresent c lsrc.
  Let rpres := rpresent c rsrc.

  Hypothesis Hwf : well_formed c.
  Hypothesis Hlsrc : forall row, In row lsrc ->
    List.length row = List.length (p_lcols c) /\ ProjSpec.row_ok row.
  Hypothesis Hrsrc : forall row, In row rsrc ->
    List.length row = List.length (p_rcols c) /\ ProjSpec.row_ok row.
  (* self.tokenizer.tokenize in whatever mode the filter's tokenizer is in (overlap_join_py: set mode) *)
  Hypothesis HtokL : forall row, In row lpres ->
    tokenize (cellv (p_lcols c) row (p_ljoin c)) = pints (toks (cellv (p_lcols c) row (p_ljoin c))).
  Hypothesis HtokR : forall row, In row rpres ->
    tokenize (cellv (p_rcols c) row (p_rjoin c)) = pints (toks (cellv (p_rcols c) row (p_rjoin c))).
  Hypothesis Hvout : is_exc (validate_output_attrs (py_opt_strs (p_lout c)) (py_strs (p_lcols c))
                                                   (py_opt_strs (p_rout c)) (py_strs (p_rcols c))) = false.
  Hypothesis Hop : comp_op_map op = Some cf.
  Hypothesis Hnum : num_of size <> None.
  Hypothesis Hid : ~ In "_id"%string (mv_header c).

  (* the model's per-chunk core *)
  Definition ovf_K (ch : list (list pyval)) : option (list triple) :=
    overlap_tables_core op size (Ltoks c lsrc toks) (Rtoks c toks ch).

  Lemma ovf_chunk (ch : list (list pyval)) (sp : pyval) : (forall row, In row ch -> In row rpres) ->
    exists rows,
      frame_of_core
        (overlap_filter_tables_split_rows (PList (map PList (project_l c lpres))) (PList (map PList (project_r c ch)))
           (l_proj c) (r_proj c) (PStr (p_lkey c)) (PStr (p_rkey c)) (PStr (p_ljoin c)) (PStr (p_rjoin c))
           size (PStr op) (l_out c) (r_out c) (PStr (p_lpre c)) (PStr (p_rpre c)) (PBool (p_score c))
           sp tokenize)
      = sframe (mv_header c) rows /\
      shaped (List.length (mv_header c)) rows /\ chunk_ok c lsrc ovf_K ch rows.
  Proof.
    intros Hch.
    assert (H1 : forall row, In row lpres -> List.length row = List.length (p_lcols c) /\ ProjSpec.row_ok row)
      by (intros row Hr; apply Hlsrc; apply (lpresent_in c lsrc); exact Hr).
    assert (H2 : forall row, In row ch -> List.length row = List.length (p_rcols c) /\ ProjSpec.row_ok row)
      by (intros row Hr; apply Hrsrc; apply (rpresent_in c rsrc); apply Hch; exact Hr).
    destruct (overlap_filter_tables_split_rows_refines_proj c lpres ch sp tokenize toks Hwf H1 H2 HtokL
                (fun row Hr => HtokR row (Hch row Hr)) op size cf Hop Hnum)
      as (T & rows & header & ET & Egen & Ehdr & Perm & Hcells).
    destruct (core_frame c lpres ch T rows header _ Egen Ehdr Perm Hcells) as [EF Hsh].
    exists rows. split; [exact EF|]. split; [exact Hsh|].
    exists T. split; [exact ET|]. split; [exact Perm | exact Hcells].
  Qed.

  Definition ovf_call : pyval :=
    overlap_filter_tables_rows (sframe (p_lcols c) lsrc) (sframe (p_rcols c) rsrc)
      (PStr (p_lkey c)) (PStr (p_rkey c)) (PStr (p_ljoin c)) (PStr (p_rjoin c))
      (py_opt_strs (p_lout c)) (py_opt_strs (p_rout c)) (PStr (p_lpre c)) (PStr (p_rpre c))
      (PBool (p_score c)) (PInt njobs) showp (PInt cpus) size (PStr op) (PBool am) tokenize.

  Definition ovj_call : pyval :=
    overlap_join_rows (sframe (p_lcols c) lsrc) (sframe (p_rcols c) rsrc)
      (PStr (p_lkey c)) (PStr (p_rkey c)) (PStr (p_ljoin c)) (PStr (p_rjoin c))
      size (PStr op) (PBool am) (py_opt_strs (p_lout c)) (py_opt_strs (p_rout c))
      (PStr (p_lpre c)) (PStr (p_rpre c)) (PBool (p_score c)) (PInt njobs) showp (PInt cpus) tokenize.

  Section Split.
    Variable bs : list (nat * nat).
    Hypothesis Hsplit : 1 < kjobs c njobs cpus rsrc ->
      List.length bs = Z.to_nat (kjobs c njobs cpus rsrc) /\
      split_table (PList (map PList (project_r c rpres))) (PInt (kjobs c njobs cpus rsrc))
      = PList (map PList (map (slice_nat (map PList (project_r c rpres))) bs)).

    Theorem overlap_filter_tables_rows_refines :
      body_result c am njobs cpus lsrc rsrc bs (chunk_ok c lsrc ovf_K) ovf_call.
    Proof using Hwf Hlsrc Hrsrc HtokL HtokR Hvout Hop Hnum Hid Hsplit.
      unfold ovf_call, overlap_filter_tables_rows.
      wr_attrs c Hwf Hlsrc Hrsrc.
      wr_valid Hvout.
      wr_proj c njobs cpus lsrc rsrc Hwf Hlsrc Hrsrc.
      pose proof (body_eval c am njobs cpus lsrc rsrc showp bs
                    (fun la ra sp => frame_of_core
                       (overlap_filter_tables_split_rows la ra (l_proj c) (r_proj c)
                          (PStr (p_lkey c)) (PStr (p_rkey c)) (PStr (p_ljoin c)) (PStr (p_rjoin c))
                          size (PStr op) (l_out c) (r_out c) (PStr (p_lpre c)) (PStr (p_rpre c))
                          (PBool (p_score c)) sp tokenize))
                    (chunk_ok c lsrc ovf_K) Hwf Hlsrc Hrsrc Hid
                    (fun ch sp Hin => ovf_chunk ch sp (wchunks_in c njobs cpus rsrc bs ch Hin)) Hsplit) as H.
      unfold wbody in H. cbv beta in H. exact H.
    Qed.

    (* overlap_join_py: validate_threshold / validate_comp_op_for_sim_measure of the OverlapFilter
       constructor, then filter_tables *)
    Hypothesis Hvt : is_exc (validate_threshold size (PStr "OVERLAP")) = false.
    Hypothesis Hvop : is_exc (validate_comp_op_for_sim_measure (PStr op) (PStr "OVERLAP")) = false.

    Lemma overlap_join_rows_eq : ovj_call = ovf_call.
    Proof using Hwf Hlsrc Hrsrc HtokL HtokR Hvout Hop Hnum Hid Hsplit Hvt Hvop.
      destruct overlap_filter_tables_rows_refines as (RS & _ & _ & E).
      unfold ovj_call, overlap_join_rows. wr_valid Hvt. wr_valid Hvop.
      fold ovf_call. rewrite E. rewrite (bindx_ok _ (sframe _ _)) by reflexivity. reflexivity.
    Qed.

    Theorem overlap_join_rows_refines :
      body_result c am njobs cpus lsrc rsrc bs (chunk_ok c lsrc ovf_K) ovj_call.
    Proof using Hwf Hlsrc Hrsrc HtokL HtokR Hvout Hop Hnum Hid Hsplit Hvt Hvop.
      rewrite overlap_join_rows_eq. exact overlap_filter_tables_rows_refines.
    Qed.
  End Split.

  (* ---- against the API model ---- *)
  Definition ovf_jcase (e : entry) : jcase :=
    {| j_entry := e; j_t := size; j_q := q; j_op := op; j_allow_empty := ae;
       j_allow_missing := am; j_with_score := p_score c; j_njobs := njobs; j_cpus := cpus;
       j_L := map (arowL c toks kz) lsrc; j_R := map (arowR c toks kz) rsrc |}.

  Lemma ovf_core_of e ch : e = EOverlapFilter \/ e = EJoin "OVERLAP" ->
    (forall row, In row ch -> In row rpres) ->
    core_of (ovf_jcase e) (map (arowLs c toks (fun _ => []) kz) lpres) (map (arowRs c toks (fun _ => []) kz) ch)
    = ovf_K ch.
  Proof.
    intros He Hch. unfold core_of, ovf_jcase, ovf_K. cbn [j_entry j_op j_t j_q j_allow_empty]. unfold lpres.
    rewrite (toksLs c lsrc toks (fun _ => []) kz), (toksRs c rsrc toks (fun _ => []) kz ch Hch).
    destruct He as [-> | ->]; reflexivity.
  Qed.

  Hypothesis Hn : Z.of_nat (List.length rpres) < 2^31.

  Theorem overlap_filter_tables_rows_end_to_end :
    end_to_end_chunks c am lsrc rsrc toks (fun _ => []) kz (ovf_jcase EOverlapFilter) ovf_call.
  Proof using Hwf Hlsrc Hrsrc HtokL HtokR Hvout Hop Hnum Hid Hn.
    apply (end_of_body c am njobs cpus lsrc rsrc toks (fun _ => []) kz (ovf_jcase EOverlapFilter) ovf_K Hwf Hlsrc Hrsrc);
      try reflexivity.
    - intros ch Hch. apply ovf_core_of; [left; reflexivity | exact Hch].
    - exact Hn.
    - apply overlap_filter_tables_rows_refines. intros Hk. apply split_hyp; assumption.
  Qed.

  Theorem overlap_filter_tables_rows_end_to_end_flat :
    end_to_end_flat c am lsrc rsrc toks (fun _ => []) kz (ovf_jcase EOverlapFilter) ovf_call.
  Proof using Hwf Hlsrc Hrsrc HtokL HtokR Hvout Hop Hnum Hid Hn.
    apply chunks_flat. exact overlap_filter_tables_rows_end_to_end.
  Qed.

  Hypothesis Hvt : is_exc (validate_threshold size (PStr "OVERLAP")) = false.
  Hypothesis Hvop : is_exc (validate_comp_op_for_sim_measure (PStr op) (PStr "OVERLAP")) = false.

  Theorem overlap_join_rows_end_to_end :
    end_to_end_chunks c am lsrc rsrc toks (fun _ => []) kz (ovf_jcase (EJoin "OVERLAP")) ovj_call.
  Proof using All.
    apply (end_of_body c am njobs cpus lsrc rsrc toks (fun _ => []) kz (ovf_jcase (EJoin "OVERLAP")) ovf_K Hwf Hlsrc Hrsrc);
      try reflexivity.
    - intros ch Hch. apply ovf_core_of; [right; reflexivity | exact Hch].
    - exact Hn.
    - apply overlap_join_rows_refines; try assumption. intros Hk. apply split_hyp; assumption.
  Qed.

  Theorem overlap_join_rows_end_to_end_flat :
    end_to_end_flat c am lsrc rsrc toks (fun _ => []) kz (ovf_jcase (EJoin "OVERLAP")) ovj_call.
  Proof using All. apply chunks_flat. exact overlap_join_rows_end_to_end. Qed.
End OverlapFilter.

Print Assumptions overlap_filter_tables_rows_refines.
Print Assumptions overlap_join_rows_refines.
Print Assumptions overlap_filter_tables_rows_end_to_end.
Print Assumptions overlap_join_rows_end_to_end.
