(* PositionFilter.filter_pair: the GENERATED position_filter_pair_gen (Gen/FilterPairGen.v, with
   the dict of prefix positions and the position loop that returns from inside the loop) refines
   the hand model position_filter_pair of Model/Filters.v.  The formulas stay opaque
   (`formulas_ok p bound` + "the overlap threshold of the two sizes is a number").
   Lists / Z only: axiom-free.                                                           *)
From Coq Require Import ZArith Bool List String Lia.
From SSJ Require Import F64 PyNum FilterUtilsGen HelperGen TokenOrderingGen FilterPairGen TokenOrdering Filters
     PyFacts IndexPyFacts IndexBuildFacts IndexProbeFacts OrderingFacts OrderingGenFacts IndexGlue
     FilterPairRefineBase FilterPairRefine.
Import ListNotations.
Open Scope Z_scope.

(* ---------------------------------------------------------------- a loop that can return *)
(* invariant form for loops whose `raised` test also stops on an early return: states on which
   `raised` holds are absorbing, so the abstract step must be the identity on them *)
Lemma py_for_inv_stop : forall (S A B : Type) (f : B -> pyval) (I : A -> S -> Prop)
                               (raised : S -> bool) fail body (step : A -> B -> A) (l : list B) s0 a0,
  I a0 s0 ->
  (forall a s b, In b l -> I a s -> raised s = false -> I (step a b) (body s (f b))) ->
  (forall a s b, In b l -> I a s -> raised s = true -> I (step a b) s) ->
  I (fold_left step l a0) (py_for (PList (map f l)) raised fail body s0).
Proof.
  intros S A B f I raised fail body step l s0 a0 H0 Hb Hs.
  rewrite py_for_PList'. revert s0 a0 H0.
  induction l as [|b l IH]; intros s0 a0 H0; cbn [fold_left map]; [exact H0|].
  apply IH.
  - intros a s b' Hb'. apply Hb. right; exact Hb'.
  - intros a s b' Hb'. apply Hs. right; exact Hb'.
  - destruct (raised s0) eqn:E.
    + apply Hs; [left; reflexivity | exact H0 | exact E].
    + apply Hb; [left; reflexivity | exact H0 | exact E].
Qed.

(* ---------------------------------------------------------------- the dict of prefix positions *)
(* l_prefix_dict: every prefix token |-> 0 (l_pos is never advanced in the source) *)
Definition pdict (xp : list Z) : list (Z * Z) := fold_left (fun a w => aset a w 0) xp [].

Lemma pdict_fold_get xp : forall a w,
  aget (fold_left (fun a w => aset a w 0) xp a) w = if memZ w xp then Some 0 else aget a w.
Proof.
  induction xp as [|h t IH]; intros a w; cbn [fold_left]; [reflexivity|].
  rewrite IH, aget_aset, memZ_cons, (Z.eqb_sym w h).
  destruct (memZ w t); [now rewrite orb_true_r|]. rewrite orb_false_r. reflexivity.
Qed.
Lemma pdict_get xp w : aget (pdict xp) w = if memZ w xp then Some 0 else None.
Proof. unfold pdict. now rewrite pdict_fold_get. Qed.

Lemma py_dict_get2_pdict xp w :
  py_dict_get2 (PDict (drepr PInt (pdict xp))) (PInt w) = if memZ w xp then PInt 0 else PNone.
Proof.
  unfold py_dict_get2, py_dict_get3, strict2. rewrite dict_lookup_drepr, pdict_get.
  destruct (memZ w xp); reflexivity.
Qed.

Definition Rdict (a : list (Z * Z)) : pyval * pyval := (PNone, PDict (drepr PInt a)).

Lemma py_lt_num a v : num_of v <> None -> exists b, py_lt (PInt a) v = PBool b.
Proof.
  intros Hv. unfold py_lt, py_ord, strict2, ord_cmp.
  destruct v; cbn [num_of] in *; try congruence;
    match goal with |- context [match ?c with Some _ => _ | None => _ end] => destruct c as [[]|] end;
    eexists; reflexivity.
Qed.

(* ---------------------------------------------------------------- the model's loop as a fold *)
Definition pstep (nl nr : Z) (alpha : pyval) (lp : list Z) (st : option (Z * Z)) (w : Z)
  : option (Z * Z) :=
  match st with
  | None => None
  | Some (cur, j) =>
      if memZ w lp then
        let ub := 1 + Z.min (nl - 0 - 1) (nr - j - 1) in
        if py_truth (py_lt (PInt (cur + ub)) alpha) then None else Some (cur + 1, j + 1)
      else Some (cur, j + 1)
  end.

Lemma pstep_none nl nr alpha lp rp : fold_left (pstep nl nr alpha lp) rp None = None.
Proof. induction rp as [|w rp IH]; [reflexivity | exact IH]. Qed.

Lemma posfp_loop_fold nl nr alpha lp : forall rp j cur,
  posfp_loop nl nr alpha lp rp j cur
  = option_map fst (fold_left (pstep nl nr alpha lp) rp (Some (cur, j))).
Proof.
  induction rp as [|w rp IH]; intros j cur; cbn [posfp_loop fold_left]; [reflexivity|].
  unfold pstep at 2. destruct (memZ w lp); [|apply IH]. cbv zeta.
  destruct (py_truth (py_lt (PInt (cur + (1 + Z.min (nl - 0 - 1) (nr - j - 1)))) alpha)).
  - now rewrite pstep_none.
  - apply IH.
Qed.

(* concrete loop state: (exception, (returned value, (l_pos, (overlap_upper_bound, (current_overlap, r_pos))))) *)
Definition Ipos (a : option (Z * Z))
           (s : pyval * (option pyval * (pyval * (pyval * (pyval * pyval))))) : Prop :=
  match a with
  | None => exists t1 t2 t3 t4, s = (PNone, (Some (PBool true), (t1, (t2, (t3, t4)))))
  | Some (cur, j) => exists t1 t2, s = (PNone, (None, (t1, (t2, (PInt cur, PInt j)))))
  end.

Section Pair.
  Variables (tokenize : pyval -> pyval) (ls rs : pyval) (l r : list Z).
  Hypothesis Hsl : scalar ls.
  Hypothesis Hsr : scalar rs.
  Hypothesis Hml : missing ls = false.
  Hypothesis Hmr : missing rs = false.
  Hypothesis Hl : tokenize ls = pints l.
  Hypothesis Hr : tokenize rs = pints r.

  Theorem position_filter_pair_gen_refines p bound (ae am : bool) :
    formulas_ok p bound -> len l < bound -> len r < bound ->
    num_of (g_ot p (len l) (len r)) <> None ->
    exists b, position_filter_pair p ae l r = Some b /\
      position_filter_pair_gen (PStr (fm p)) (ft p) (PBool ae) (PBool am) ls rs (PInt (fq p)) tokenize
      = PBool b.
  Proof.
    intros Hf Hbl Hbr Hot.
    destruct (formulas_ok_pl p bound (len l) Hf (conj (len_nonneg' l) Hbl)) as [kl Hkl].
    destruct (formulas_ok_pl p bound (len r) Hf (conj (len_nonneg' r) Hbr)) as [kr Hkr].
    unfold position_filter_pair_gen, position_filter_pair.
    rewrite (head_present ls rs Hsl Hsr Hml Hmr). cbn [bindx py_truth].
    rewrite Hl, Hr. rewrite (bindx_ok (pints l)), (bindx_ok (pints r)) by reflexivity.
    rewrite !py_len_pints. cbn [bindx]. rewrite both_empty_test. cbn [bindx py_truth].
    destruct ((len l =? 0) && (len r =? 0)).
    { eexists. split; [reflexivity|]. exact (both_empty_gen_eq p ae). }
    rewrite pair_ordering_dict. cbn [bindx]. rewrite (order_l l r), (order_r l r).
    rewrite (bindx_ok (pints (order (l ++ r) l))), (bindx_ok (pints (order (l ++ r) r))) by reflexivity.
    change (get_prefix_length (PInt (len l)) (PStr (fm p)) (ft p) (PInt (fq p))) with (g_pl p (len l)).
    change (get_prefix_length (PInt (len r)) (PStr (fm p)) (ft p) (PInt (fq p))) with (g_pl p (len r)).
    cbv zeta. rewrite Hkl, Hkr. cbn [bindx].
    rewrite !py_le_int_val', py_or_bools. cbn [bindx py_truth].
    destruct ((kl <=? 0) || (kr <=? 0)).
    { eexists. split; reflexivity. }
    rewrite !slice0_PInt, !py_slice_pints.
    set (xp := slice0z kl (order (l ++ r) l)). set (yp := slice0z kr (order (l ++ r) r)).
    change (get_overlap_threshold (PInt (len l)) (PInt (len r)) (PStr (fm p)) (ft p) (PInt (fq p)))
      with (g_ot p (len l) (len r)).
    set (alpha := g_ot p (len l) (len r)) in *.
    (* first loop: the dict *)
    unfold pints at 1.
    change (PNone, PDict []) with (Rdict []).
    match goal with |- context [py_for (PList (map PInt xp)) ?rz ?fl ?b (Rdict ?a0)] =>
      rewrite (py_for_eq _ _ _ PInt Rdict rz fl b (fun a w => aset a w 0) xp a0) end.
    2:{ reflexivity. }
    2:{ intros a w _. unfold Rdict. cbv beta iota. cbn [bindx].
        rewrite (py_setitem_drepr PInt a w 0) by reflexivity. reflexivity. }
    fold (pdict xp). unfold Rdict. cbv beta iota. cbn [bindx].
    rewrite (bindx_ok alpha) by (apply num_not_exc; exact Hot).
    (* second loop *)
    unfold pints at 1.
    match goal with |- context [py_for (PList (map PInt yp)) ?rz ?fl ?b ?s0] =>
      pose proof (py_for_inv_stop _ _ _ PInt Ipos rz fl b (pstep (len l) (len r) alpha xp) yp s0
                    (Some (0, 0))) as HI end.
    lapply HI; [clear HI; intros HI|].
    2:{ unfold Ipos. do 2 eexists. reflexivity. }
    lapply HI; [clear HI; intros HI|].
    2:{ intros [[cur j]|] s w _ HIa Hraised.
        2:{ destruct HIa as (t1 & t2 & t3 & t4 & ->). discriminate Hraised. }
        destruct HIa as (t1 & t2 & ->). clear Hraised.
        cbv beta iota. cbn [bindx]. rewrite py_dict_get2_pdict. unfold pstep.
        destruct (memZ w xp); cbn [bindx py_is_not_none strict1 py_truth].
        - rewrite !py_sub_int, py_min_int, py_add_int.
          rewrite (bindx_ok (PInt _)) by reflexivity. cbv beta. rewrite py_add_int. cbv zeta.
          destruct (py_lt_num (cur + (1 + Z.min (len l - 0 - 1) (len r - j - 1))) alpha Hot) as [b Hb].
          rewrite Hb. cbn [bindx py_truth]. destruct b; cbv beta iota; cbn [bindx].
          + unfold Ipos. do 4 eexists. reflexivity.
          + unfold Ipos. do 2 eexists. reflexivity.
        - rewrite py_add_int. cbn [bindx]. unfold Ipos. do 2 eexists. reflexivity. }
    lapply HI; [clear HI; intros HI|].
    2:{ intros [[cur j]|] s w _ HIa Hraised.
        - destruct HIa as (t1 & t2 & ->). discriminate Hraised.
        - exact HIa. }
    rewrite posfp_loop_fold.
    destruct (fold_left (pstep (len l) (len r) alpha xp) yp (Some (0, 0))) as [[c j]|].
    - destruct HI as (t1 & t2 & ->). cbv beta iota. cbn [bindx option_map fst].
      eexists. split; [reflexivity|]. rewrite py_gt_int_val. cbn [bindx py_truth].
      destruct (0 <? c); reflexivity.
    - destruct HI as (t1 & t2 & t3 & t4 & ->). cbv beta iota. cbn [bindx option_map].
      eexists. split; reflexivity.
  Qed.
End Pair.

Print Assumptions py_for_inv_stop.
Print Assumptions posfp_loop_fold.
Print Assumptions position_filter_pair_gen_refines.
