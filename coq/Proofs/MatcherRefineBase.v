(* Evaluation lemmas for the prelude and the helper functions of the GENERATED Gen/MatcherGen.v on
   string-labelled frames (WrapperRefineFrame.sframe):

     frame_empty / frame_slice / series_zip_dict      the primitives added by harness/translate/matchers.py
     build_dict_from_table (generated)                = the association list key cell -> row tuple, when
                                                        the key cells are pairwise different (validate_key_attr)
     dict_lookup on that list                         = the first row whose key cell equals the probe
     generate_tokens (generated)                      = key cell -> tokenize(match cell) for the rows whose
                                                        match cell is present

   Lists only; axiom-free.  (split_table_frame, whose chunk boundaries are float arithmetic, is in
   MatcherRefineChunks.v.)                                                                          *)
From Coq Require Import ZArith Bool List String Lia.
From SSJ Require Import F64 PyNum HelperGen Projection ProjSpec ProjectionFacts IndexPyFacts Frame WrapperGen
     FilterPairGen MatcherGen WrapperRefineFrame WrapperRefineCore FilterPairRefineBase.
Import ListNotations.
Open Scope Z_scope.

(* ---------------------------------------------------------------- frame_empty / frame_slice *)
Lemma frame_empty_sframe cols rows : shaped (List.length cols) rows ->
  frame_empty (sframe cols rows)
  = PBool (Nat.eqb (List.length rows) 0 || Nat.eqb (List.length cols) 0).
Proof.
  intros H. unfold frame_empty. rewrite with_sframe by exact H. cbn [fr_rows fr_cols].
  now rewrite map_length.
Qed.

Lemma frame_empty_nonempty cols rows : shaped (List.length cols) rows -> rows <> [] -> cols <> [] ->
  frame_empty (sframe cols rows) = PBool false.
Proof.
  intros H Hr Hc. rewrite frame_empty_sframe by exact H.
  destruct rows; [contradiction|]. destruct cols; [contradiction|]. reflexivity.
Qed.

Lemma frame_empty_norows cols : frame_empty (sframe cols []) = PBool true.
Proof. rewrite frame_empty_sframe by (intros r []). reflexivity. Qed.

Lemma shaped_slice n ab (rows : list (list pyval)) : shaped n rows -> shaped n (Api.slice_nat rows ab).
Proof. intros H r Hr. apply H. exact (slice_nat_incl rows ab r Hr). Qed.

(* T[a:b] with non-negative bounds is the model's slice of the rows *)
Lemma frame_slice_sframe cols rows a b : shaped (List.length cols) rows -> 0 <= a -> 0 <= b ->
  frame_slice (sframe cols rows) (PInt a) (PInt b)
  = sframe cols (Api.slice_nat rows (Z.to_nat a, Z.to_nat b)).
Proof.
  intros Hs Ha Hb. unfold frame_slice. unfold sframe at 1. unfold frame_val at 1. cbv beta iota.
  change (PTuple [PList (map PList (fr_rows {| fr_cols := map PStr cols; fr_rows := rows |}));
                  PList (fr_cols {| fr_cols := map PStr cols; fr_rows := rows |})])
    with (sframe cols rows).
  rewrite with_sframe by exact Hs. cbn [fr_rows fr_cols]. unfold sframe. do 2 f_equal.
  unfold Api.slice_nat, clamp. cbn [fst snd].
  assert (Ea : a <? 0 = false) by (apply Z.ltb_ge; lia).
  assert (Eb : b <? 0 = false) by (apply Z.ltb_ge; lia).
  rewrite Ea, Eb.
  set (n := List.length rows).
  destruct (Z_le_gt_dec a (Z.of_nat n)) as [Han|Han].
  - replace (Z.to_nat (Z.min a (Z.of_nat n))) with (Z.to_nat a) by lia.
    destruct (Z_le_gt_dec b (Z.of_nat n)) as [Hbn|Hbn].
    + replace (Z.to_nat (Z.min b (Z.of_nat n))) with (Z.to_nat b) by lia. reflexivity.
    + replace (Z.to_nat (Z.min b (Z.of_nat n))) with n by lia.
      rewrite !firstn_all2; [reflexivity | rewrite skipn_length; fold n; lia | rewrite skipn_length; fold n; lia].
  - replace (Z.to_nat (Z.min a (Z.of_nat n))) with n by lia.
    rewrite (skipn_all2 rows) by (fold n; lia).
    rewrite (skipn_all2 rows) by (fold n; lia).
    now rewrite !firstn_nil.
Qed.

(* ---------------------------------------------------------------- the key -> row dictionary *)
(* the entry build_dict_from_table stores for a row: key cell -> tuple(row) *)
Definition dict_entry (ki : nat) (row : list pyval) : pyval := PTuple [nth ki row PNone; PTuple row].
Definition dict_rows (ki : nat) (rows : list (list pyval)) : list pyval := map (dict_entry ki) rows.

(* key cells pairwise different under Python == (what validate_key_attr's uniqueness check gives) *)
Fixpoint distinct_keys (ki : nat) (rows : list (list pyval)) : Prop :=
  match rows with
  | [] => True
  | r :: t => (forall r', In r' t -> pv_eqb (nth ki r PNone) (nth ki r' PNone) = false) /\ distinct_keys ki t
  end.

(* the first row whose key cell equals the probe *)
Definition find_row (ki : nat) (rows : list (list pyval)) (kc : pyval) : option (list pyval) :=
  find (fun row => pv_eqb (nth ki row PNone) kc) rows.

Lemma dict_lookup_rows ki rows kc :
  dict_lookup (dict_rows ki rows) kc = option_map PTuple (find_row ki rows kc).
Proof.
  unfold dict_rows, find_row. induction rows as [|r rows IH]; [reflexivity|].
  cbn [map dict_lookup dict_entry find]. destruct (pv_eqb (nth ki r PNone) kc); [reflexivity | exact IH].
Qed.

Lemma dict_store_fresh ki rows r :
  (forall r', In r' rows -> pv_eqb (nth ki r' PNone) (nth ki r PNone) = false) ->
  dict_store (dict_rows ki rows) (nth ki r PNone) (PTuple r) = dict_rows ki (rows ++ [r]).
Proof.
  unfold dict_rows. induction rows as [|r0 rows IH]; intros H; [reflexivity|].
  cbn [map dict_store dict_entry app]. rewrite (H r0 (or_introl eq_refl)).
  f_equal. apply IH. intros r' Hr'. apply H. right. exact Hr'.
Qed.

Lemma distinct_keys_app ki a r :
  distinct_keys ki (a ++ [r]) <->
  distinct_keys ki a /\ forall r', In r' a -> pv_eqb (nth ki r' PNone) (nth ki r PNone) = false.
Proof.
  induction a as [|x a IH]; cbn [app distinct_keys].
  - split; [intros _; split; [exact I | intros r' []] | intros _; split; [intros r' [] | exact I]].
  - rewrite IH. split.
    + intros (Hx & Ha & Hr). split; [split; [|exact Ha]|].
      * intros r' Hr'. apply Hx. apply in_or_app. left. exact Hr'.
      * intros r' [<-|Hr']; [apply Hx; apply in_or_app; right; left; reflexivity | apply Hr; exact Hr'].
    + intros ((Hx & Ha) & Hr). split; [|split; [exact Ha|]].
      * intros r' Hr'. apply in_app_or in Hr'. destruct Hr' as [Hr'|[<-|[]]]; [apply Hx; exact Hr'|].
        apply Hr. left. reflexivity.
      * intros r' Hr'. apply Hr. right. exact Hr'.
Qed.

Lemma distinct_keys_prefix ki a b : distinct_keys ki (a ++ b) -> distinct_keys ki a.
Proof.
  induction a as [|x a IH]; cbn [app distinct_keys]; [intros _; exact I|].
  intros (Hx & Ha). split; [|apply IH; exact Ha].
  intros r' Hr'. apply Hx. apply in_or_app. left. exact Hr'.
Qed.

(* a left fold whose state is a function R of the processed prefix *)
Lemma fold_prefix {A B S : Type} (F : S -> B -> S) (f : A -> B) (R : list A -> S) (P : list A -> Prop) :
  (forall pre x, P (pre ++ [x])%list -> F (R pre) (f x) = R (pre ++ [x])%list) ->
  (forall pre rest, P (pre ++ rest)%list -> P pre) ->
  forall rest pre, P (pre ++ rest)%list -> fold_left F (map f rest) (R pre) = R (pre ++ rest)%list.
Proof.
  intros HF HP. induction rest as [|x rest IH]; intros pre H; cbn [map fold_left].
  - now rewrite app_nil_r.
  - assert (H' : P ((pre ++ [x]) ++ rest)%list) by (rewrite <- app_assoc; exact H).
    rewrite HF by (apply (HP _ rest); exact H').
    rewrite (IH (pre ++ [x])%list H'). now rewrite <- app_assoc.
Qed.

(* build_dict_from_table(table, key_attr_index, join_attr_index, remove_null=False) *)
Theorem build_dict_from_table_eq cols rows ki mi :
  shaped (List.length cols) rows -> (ki < List.length cols)%nat ->
  (forall r, In r rows -> is_exc (nth ki r PNone) = false) ->
  distinct_keys ki rows ->
  build_dict_from_table (sframe cols rows) (natpy ki) mi (PBool false) = PDict (dict_rows ki rows).
Proof.
  intros Hs Hki Hok Hd. unfold build_dict_from_table. cbv zeta.
  rewrite frame_itertuples_sframe by exact Hs. rewrite py_for_PList.
  match goal with |- context [fold_left ?F _ _] => set (F0 := F) end.
  set (P := fun l : list (list pyval) =>
              distinct_keys ki l /\ forall r, In r l -> (ki < List.length r)%nat /\ is_exc (nth ki r PNone) = false).
  assert (HF : forall pre r, P (pre ++ [r])%list ->
            F0 (PNone, PDict (dict_rows ki pre)) (PTuple r) = (PNone, PDict (dict_rows ki (pre ++ [r])))).
  { intros pre r (Hdk & Hrows). unfold F0. cbn [fst is_exc bindx py_and py_truth].
    assert (Hin : In r (pre ++ [r])%list) by (apply in_or_app; right; left; reflexivity).
    destruct (Hrows r Hin) as [Hlen Hk].
    rewrite (getrow_tuple r ki Hlen). change (py_tuple (PTuple r)) with (PTuple r).
    apply distinct_keys_app in Hdk. destruct Hdk as [_ Hfresh].
    assert (Est : py_setitem (PDict (dict_rows ki pre)) (nth ki r PNone) (PTuple r)
                  = PDict (dict_rows ki (pre ++ [r]))).
    { rewrite <- (dict_store_fresh ki pre r Hfresh).
      destruct (nth ki r PNone); try discriminate Hk; reflexivity. }
    rewrite Est. reflexivity. }
  assert (HP : forall pre rest, P (pre ++ rest)%list -> P pre).
  { intros pre rest (Hdk & Hrows). split; [exact (distinct_keys_prefix _ _ _ Hdk)|].
    intros r Hr. apply Hrows. apply in_or_app. left. exact Hr. }
  assert (H0 : P ([] ++ rows)%list).
  { split; [exact Hd|]. intros r Hr. split; [rewrite (Hs r Hr); exact Hki | apply Hok; exact Hr]. }
  pose proof (fold_prefix F0 PTuple (fun pre => (PNone, PDict (dict_rows ki pre))) P HF HP rows [] H0) as E.
  cbn [dict_rows map app] in E. rewrite E. reflexivity.
Qed.


(* ---------------------------------------------------------------- the token cache *)
Lemma py_listcomp_list (f : pyval -> pyval) (xs : list pyval) :
  (forall x, In x xs -> is_exc (f x) = false) -> py_listcomp f (PList xs) = PList (map f xs).
Proof.
  intros H. unfold py_listcomp. cbn [py_iter]. rewrite find_is_exc_none; [reflexivity|].
  intros y Hy. apply in_map_iff in Hy. destruct Hy as (x & <- & Hx). apply H. exact Hx.
Qed.

Lemma combine_map {A B C} (f : A -> B) (g : A -> C) (l : list A) :
  combine (map f l) (map g l) = map (fun x => (f x, g x)) l.
Proof. induction l as [|x l IH]; cbn [map combine]; [reflexivity | now rewrite IH]. Qed.

Lemma find_filter {A} (p q : A -> bool) (l : list A) x :
  find p l = Some x -> q x = true -> find p (filter q l) = Some x.
Proof.
  induction l as [|y l IH]; cbn [find filter]; [discriminate|].
  destruct (p y) eqn:Ep.
  - intros E Hq. injection E as ->. rewrite Hq. cbn [find]. now rewrite Ep.
  - intros E Hq. destruct (q y); [cbn [find]; rewrite Ep|]; apply IH; assumption.
Qed.

Lemma distinct_keys_filter ki (q : list pyval -> bool) rows :
  distinct_keys ki rows -> distinct_keys ki (filter q rows).
Proof.
  induction rows as [|r rows IH]; cbn [filter distinct_keys]; [tauto|].
  intros (Hr & Hd). destruct (q r); [cbn [distinct_keys]; split|]; try (apply IH; exact Hd).
  intros r' Hr'. apply Hr. apply filter_In in Hr'. tauto.
Qed.

Section Tokens.
  Variables (cols : list string) (key join : string) (tokenize : pyval -> pyval).
  Let ki := posn key cols.

  (* the entry generate_tokens stores for a row with a present match value *)
  Definition tok_entry (row : list pyval) : pyval :=
    PTuple [cellv cols row key; tokenize (cellv cols row join)].

  Lemma tokens_lookup rows kc :
    dict_lookup (map tok_entry rows) kc
    = option_map (fun row => tokenize (cellv cols row join)) (find_row ki rows kc).
  Proof.
    unfold find_row. induction rows as [|r rows IH]; [reflexivity|].
    cbn [map dict_lookup tok_entry find]. unfold ki at 1. fold (cellv cols r key).
    destruct (pv_eqb (cellv cols r key) kc); [reflexivity | exact IH].
  Qed.

  Theorem generate_tokens_eq rows :
    shaped (List.length cols) rows -> In key cols -> In join cols ->
    (forall r, In r rows -> is_exc (cellv cols r key) = false) ->
    distinct_keys ki rows ->
    (forall r, In r rows -> cell_missing (cellv cols r join) = false ->
               is_exc (tokenize (cellv cols r join)) = false) ->
    generate_tokens (sframe cols rows) (PStr key) (PStr join) tokenize
    = PDict (map tok_entry (filter (present_row cols join) rows)).
  Proof.
    intros Hs Hk Hj Hok Hd Htok. unfold generate_tokens.
    rewrite frame_mask_notnull by assumption.
    fold (present_row cols join).
    set (pres := filter (present_row cols join) rows).
    assert (Hsp : shaped (List.length cols) pres) by (apply shaped_filter; exact Hs).
    rewrite (bindx_ok (sframe cols pres)) by reflexivity.
    rewrite !frame_col_sframe by assumption.
    rewrite py_listcomp_list.
    2:{ intros x Hx. apply in_map_iff in Hx. destruct Hx as (r & <- & Hr). unfold pres in Hr.
        apply filter_In in Hr. destruct Hr as [Hr Hp]. apply Htok; [exact Hr|].
        unfold present_row in Hp. now apply negb_true_iff in Hp. }
    unfold series_zip_dict. rewrite map_map, combine_map.
    set (P := fun l : list (list pyval) =>
                distinct_keys ki l /\ forall r, In r l -> is_exc (cellv cols r key) = false /\
                                                          is_exc (tokenize (cellv cols r join)) = false).
    match goal with |- fold_left ?F _ _ = _ => set (F1 := F) end.
    assert (HF : forall pre r, P (pre ++ [r])%list ->
              F1 (PDict (map tok_entry pre)) (cellv cols r key, tokenize (cellv cols r join))
              = PDict (map tok_entry (pre ++ [r]))).
    { intros pre r (Hdk & Hrows). unfold F1. cbn [fst snd].
      assert (Hin : In r (pre ++ [r])%list) by (apply in_or_app; right; left; reflexivity).
      destruct (Hrows r Hin) as [Hkr Htr].
      apply distinct_keys_app in Hdk. destruct Hdk as [_ Hfresh].
      assert (Est : dict_store (map tok_entry pre) (cellv cols r key) (tokenize (cellv cols r join))
                    = map tok_entry (pre ++ [r])).
      { assert (Hf' : forall r', In r' pre -> pv_eqb (cellv cols r' key) (cellv cols r key) = false)
          by exact Hfresh.
        clear - Hf'.
        induction pre as [|r0 pre IH]; [reflexivity|].
        cbn [map dict_store tok_entry app].
        rewrite (Hf' r0 (or_introl eq_refl)). f_equal. apply IH. intros r' Hr'. apply Hf'. right. exact Hr'. }
      destruct (cellv cols r key) eqn:Ek; try discriminate Hkr;
        destruct (tokenize (cellv cols r join)) eqn:Et; try discriminate Htr;
        cbn [py_setitem]; rewrite Est; reflexivity. }
    assert (HP : forall pre rest, P (pre ++ rest)%list -> P pre).
    { intros pre rest (Hdk & Hrows). split; [exact (distinct_keys_prefix _ _ _ Hdk)|].
      intros r Hr. apply Hrows. apply in_or_app. left. exact Hr. }
    assert (H0 : P ([] ++ pres)%list).
    { split; [apply distinct_keys_filter; exact Hd|]. intros r Hr. unfold pres in Hr.
      apply filter_In in Hr. destruct Hr as [Hr Hp]. split; [apply Hok; exact Hr|].
      apply Htok; [exact Hr|]. unfold present_row in Hp. now apply negb_true_iff in Hp. }
    exact (fold_prefix F1 (fun r => (cellv cols r key, tokenize (cellv cols r join)))
                       (fun pre => PDict (map tok_entry pre)) P HF HP pres [] H0).
  Qed.
End Tokens.

Print Assumptions build_dict_from_table_eq.
Print Assumptions generate_tokens_eq.
