(* Generic lifting of pair-level facts to the API-level model `api_join` (Model/Api.v) and the
   executable specs of Spec/JoinSpec.v / Spec/MetaSpec.v: under unique keys every pair of
   present rows lives in exactly one chunk, the output lists a key pair at most once, and
   `has_pair` is decided by the pair function on that chunk.  `missing_spec` (C08) holds for
   every entry.  Pure list reasoning, axiom-free.                                           *)
From Coq Require Import ZArith Bool List String Lia Permutation.
From SSJ Require Import F64 PyNum HelperGen TokenOrdering Filters Joins Api JoinSpec MetaSpec
                        OrderingFacts CoreLiftBase CoreLift ApiLift.
Import ListNotations.
Open Scope string_scope.
Open Scope list_scope.
Open Scope Z_scope.

(* ------------------------------------------------------------------ list helpers *)
Definition olist {A} (o : option (list A)) : list A := match o with Some v => v | None => [] end.

Lemma opt_concat_Some_flat {A B} (f : A -> option (list B)) l r :
  opt_concat (map f l) = Some r -> r = flat_map (fun a => olist (f a)) l.
Proof.
  revert r. induction l as [|a l IH]; intros r H.
  - simpl in H. injection H as <-. reflexivity.
  - cbn [map] in H. rewrite opt_concat_cons in H. destruct (f a) as [x|] eqn:Ea; [|discriminate].
    destruct (opt_concat (map f l)) as [r'|] eqn:E; [|discriminate]. simpl in H. injection H as <-.
    cbn [flat_map]. rewrite Ea. cbn [olist]. f_equal. apply IH. reflexivity.
Qed.

Lemma NoDup_app_l {A} (a b : list A) : NoDup (a ++ b) -> NoDup a.
Proof.
  induction a as [|h t IH]; intros H; [constructor|]. simpl in H. inversion H; subst.
  constructor; [|apply IH; assumption]. intros Hin. apply H2. apply in_or_app. left; exact Hin.
Qed.
Lemma NoDup_app_r {A} (a b : list A) : NoDup (a ++ b) -> NoDup b.
Proof. induction a as [|h t IH]; intros H; [exact H|]. simpl in H. inversion H; subst. auto. Qed.
Lemma NoDup_app_disj {A} (a b : list A) x : NoDup (a ++ b) -> In x a -> In x b -> False.
Proof.
  induction a as [|h t IH]; intros H Ha Hb; [destruct Ha|]. simpl in H. inversion H; subst.
  destruct Ha as [->|Ha]; [apply H2; apply in_or_app; right; exact Hb| apply IH; assumption].
Qed.

Lemma NoDup_concat_same {A} (LL : list (list A)) a b x :
  NoDup (List.concat LL) -> In a LL -> In b LL -> In x a -> In x b -> a = b.
Proof.
  induction LL as [|h LL IH]; intros Hnd Ha Hb Hxa Hxb; [destruct Ha|]. simpl in Hnd.
  destruct Ha as [->|Ha], Hb as [->|Hb]; [reflexivity| | |].
  - exfalso. apply (NoDup_app_disj _ _ x Hnd Hxa). apply in_concat. exists b. auto.
  - exfalso. apply (NoDup_app_disj _ _ x Hnd Hxb). apply in_concat. exists a. auto.
  - apply IH; try assumption. apply (NoDup_app_r _ _ Hnd).
Qed.

Lemma NoDup_flat_map_tagged {A B K T} (f : A -> list B) (key : B -> K) (tg : K -> T)
      (S : A -> list T) l :
  NoDup (List.concat (map S l)) ->
  (forall a, In a l -> NoDup (S a) -> NoDup (map key (f a))) ->
  (forall a b, In a l -> In b (f a) -> In (tg (key b)) (S a)) ->
  NoDup (map key (flat_map f l)).
Proof.
  induction l as [|a l IH]; intros Hnd Hf Ht; [constructor|]. cbn [map List.concat flat_map] in *.
  rewrite map_app. apply NoDup_app_intro.
  - apply Hf; [left; reflexivity| apply (NoDup_app_l _ _ Hnd)].
  - apply IH; [apply (NoDup_app_r _ _ Hnd)| |]; intros; [apply Hf|eapply Ht]; try right; eassumption.
  - intros k Hk Hk'. apply in_map_iff in Hk. destruct Hk as [b [<- Hb]].
    apply in_map_iff in Hk'. destruct Hk' as [b' [E Hb']]. apply in_flat_map in Hb'.
    destruct Hb' as [a' [Ha' Hb']].
    apply (NoDup_app_disj _ _ (tg (key b)) Hnd).
    + apply (Ht a b); [left; reflexivity|exact Hb].
    + apply in_concat. exists (S a'). split; [apply in_map; exact Ha'|].
      rewrite <- E. apply (Ht a' b'); [right; exact Ha'|exact Hb'].
Qed.

Lemma forallb_ext' {A} (f g : A -> bool) l : (forall a, f a = g a) -> forallb f l = forallb g l.
Proof. intros H. induction l as [|a l IH]; simpl; [reflexivity|]. rewrite H, IH. reflexivity. Qed.

Lemma key_inj (T : list row) a b :
  NoDup (map fst T) -> In a T -> In b T -> fst a = fst b -> a = b.
Proof.
  induction T as [|h T IH]; intros Hnd Ha Hb E; [destruct Ha|]. simpl in Hnd. inversion Hnd; subst.
  destruct Ha as [->|Ha], Hb as [->|Hb]; [reflexivity| | |].
  - exfalso. apply H1. rewrite E. apply in_map. exact Hb.
  - exfalso. apply H1. rewrite <- E. apply in_map. exact Ha.
  - apply IH; assumption.
Qed.

Lemma find_row_In (T : list row) r : NoDup (map fst T) -> In r T -> find_row (fst r) T = Some r.
Proof.
  induction T as [|h T IH]; intros Hnd Hr; [destruct Hr|]. simpl in Hnd. inversion Hnd; subst.
  unfold find_row. cbn [find]. destruct (Z.eqb_spec (fst h) (fst r)) as [E|E].
  - f_equal. apply (key_inj (h :: T)); [exact Hnd|left; reflexivity|exact Hr|exact E].
  - destruct Hr as [->|Hr]; [congruence|]. apply IH; assumption.
Qed.

Lemma NoDup_keys_filter (T : list row) f : NoDup (map fst T) -> NoDup (map fst (filter f T)).
Proof.
  induction T as [|h T IH]; intros H; [constructor|]. simpl in H. inversion H; subst. simpl.
  destruct (f h); [|apply IH; assumption]. simpl. constructor; [|apply IH; assumption].
  intros Hin. apply H2. apply in_map_iff in Hin. destruct Hin as [x [E Hx]].
  apply filter_In in Hx. apply in_map_iff. exists x. tauto.
Qed.

(* ------------------------------------------------------------------ has_pair / count_pair *)
Lemma has_pair_In lk rk obs : has_pair lk rk obs = true <-> exists s, In (lk, rk, s) obs.
Proof.
  unfold has_pair. rewrite existsb_exists. split.
  - intros [[[a b] s] [Hin H]]. cbn [fst snd] in H. apply andb_true_iff in H.
    destruct H as [H1 H2]. apply Z.eqb_eq in H1, H2. subst. exists s. exact Hin.
  - intros [s Hin]. exists (lk, rk, s). split; [exact Hin|]. cbn [fst snd].
    rewrite !Z.eqb_refl. reflexivity.
Qed.

Lemma has_pair_false lk rk obs : (forall s, ~ In (lk, rk, s) obs) -> has_pair lk rk obs = false.
Proof.
  intros H. destruct (has_pair lk rk obs) eqn:E; [|reflexivity].
  apply has_pair_In in E. destruct E as [s Hs]. destruct (H s Hs).
Qed.

Lemma count_pair_zero lk rk obs : (forall s, ~ In (lk, rk, s) obs) -> count_pair lk rk obs = 0%nat.
Proof.
  intros H. unfold count_pair.
  set (kp := fun o : out_row => Z.eqb (fst (fst o)) lk && Z.eqb (snd (fst o)) rk).
  destruct (filter kp obs) as [|[[a b] s] t] eqn:E; [reflexivity|exfalso].
  assert (Hin : In (a, b, s) (filter kp obs)) by (rewrite E; left; reflexivity).
  apply filter_In in Hin. destruct Hin as [Hin Hk]. unfold kp in Hk. cbn [fst snd] in Hk.
  apply andb_true_iff in Hk. destruct Hk as [H1 H2]. apply Z.eqb_eq in H1, H2. subst.
  apply (H s Hin).
Qed.

Lemma count_pair_one lk rk s (obs : list out_row) :
  NoDup (map fst obs) -> In (lk, rk, s) obs -> count_pair lk rk obs = 1%nat.
Proof.
  induction obs as [|[[a b] s'] obs IH]; intros Hnd Hin; [destruct Hin|].
  simpl in Hnd. inversion Hnd as [|? ? Hni Hnd']; subst.
  unfold count_pair. cbn [filter fst snd]. fold (count_pair lk rk obs) in *.
  destruct Hin as [E|Hin].
  - injection E as -> -> ->. rewrite !Z.eqb_refl. cbn [andb List.length].
    fold (count_pair lk rk obs). rewrite count_pair_zero; [reflexivity|].
    intros s0 Hs0. apply Hni. apply in_map_iff. exists (lk, rk, s0). auto.
  - destruct (Z.eqb_spec a lk) as [->|Ha]; [destruct (Z.eqb_spec b rk) as [->|Hb]|]; cbn [andb].
    + exfalso. apply Hni. apply in_map_iff. exists (lk, rk, s). auto.
    + fold (count_pair lk rk obs). apply IH; assumption.
    + fold (count_pair lk rk obs). apply IH; assumption.
Qed.

(* ------------------------------------------------------------------ every pair function: <= 1 score *)
Lemma core_pf_len c all x y lst : core_pf c all x y = Some lst -> (List.length lst <= 1)%nat.
Proof.
  unfold core_pf. destruct (j_entry c) as [m|k m|].
  - destruct (String.eqb m "OVERLAP"); [intros H; injection H as <-; apply ovl_pair_len|].
    destruct (String.eqb m "OVERLAP_COEFFICIENT"); [intros H; injection H as <-; apply ovc_pair_len|].
    destruct (String.eqb m "EDIT_DISTANCE").
    + destruct (py_int (py_floor (j_t c))); try discriminate. apply ed_pair_len.
    + apply ssj_pair_e_len.
  - apply ft_pair_len.
  - intros H; injection H as <-; apply ovl_pair_len.
Qed.

Section KKeys.
  Context {A B K X Y : Type}.
  Variable pf : X -> Y -> option (list pyval).
  Variable kx : A -> K.
  Variable ky : B -> K.
  Variable gx : A -> X.
  Variable gy : B -> Y.
  Hypothesis Hlen : forall x y lst, pf x y = Some lst -> (List.length lst <= 1)%nat.

  Lemma kloop_keys_NoDup L R res :
    kloop pf kx ky gx gy L R = Some res -> NoDup (map kx L) -> NoDup (map ky R) ->
    NoDup (map fst res).
  Proof.
    intros H HL HR. unfold kloop in H. apply opt_concat_Some_flat in H. subst res.
    rewrite map_flat_map.
    apply (NoDup_flat_map_keyed _ (fun kk : K * K => snd kk) ky); [exact HR| |].
    - intros r _.
      destruct (opt_concat (map (fun l => option_map (map (fun s => (kx l, ky r, s))) (pf (gx l) (gy r))) L))
        as [v|] eqn:E; cbn [olist map]; [|constructor].
      apply opt_concat_Some_flat in E. subst v. rewrite map_flat_map.
      apply (NoDup_flat_map_keyed _ (fun kk : K * K => fst kk) kx); [exact HL| |].
      + intros l _. destruct (pf (gx l) (gy r)) as [lst|] eqn:Epf; cbn [option_map olist map]; [|constructor].
        rewrite map_map. cbn [fst]. pose proof (Hlen _ _ _ Epf) as Hl.
        destruct lst as [|s [|s' lst]]; simpl; [constructor| |simpl in Hl; lia].
        constructor; [intros []|constructor].
      + intros l kk _ Hin. apply in_map_iff in Hin. destruct Hin as [o [<- Hin]].
        destruct (pf (gx l) (gy r)); cbn [option_map olist] in Hin; [|destruct Hin].
        apply in_map_iff in Hin. destruct Hin as [s [<- _]]. reflexivity.
    - intros r kk _ Hin. apply in_map_iff in Hin. destruct Hin as [o [<- Hin]].
      destruct (opt_concat (map (fun l => option_map (map (fun s => (kx l, ky r, s))) (pf (gx l) (gy r))) L))
        as [v|] eqn:E; cbn [olist] in Hin; [|destruct Hin].
      apply opt_concat_Some_flat in E. subst v. apply in_flat_map in Hin. destruct Hin as [l [_ Hin]].
      destruct (pf (gx l) (gy r)); cbn [option_map olist] in Hin; [|destruct Hin].
      apply in_map_iff in Hin. destruct Hin as [s [<- _]]. reflexivity.
  Qed.
End KKeys.

(* ------------------------------------------------------------------ the reported score *)
Definition rep_score (c : jcase) (s : pyval) : pyval := if j_with_score c then s else PNone.

Lemma post_In c rows lk rk s :
  In (lk, rk, s) (post c rows) <->
  (exists s0, In (lk, rk, s0) rows /\ s = rep_score c s0) \/
  (j_allow_missing c = true /\ In (lk, rk, s) (missing_pairs (j_L c) (j_R c))).
Proof.
  unfold post, rep_score. rewrite in_app_iff.
  assert (H1 : In (lk, rk, s) (if j_with_score c then rows else map (fun r : out_row => (fst r, PNone)) rows)
               <-> exists s0, In (lk, rk, s0) rows /\ s = (if j_with_score c then s0 else PNone)).
  { destruct (j_with_score c).
    - split; [intros H; exists s; auto| intros [s0 [H ->]]; exact H].
    - rewrite in_map_iff. split.
      + intros [[[a b] s0] [E H]]. cbn [fst] in E. injection E as -> -> <-. exists s0. auto.
      + intros [s0 [H ->]]. exists (lk, rk, s0). auto. }
  rewrite H1. destruct (j_allow_missing c); simpl; intuition discriminate.
Qed.

Lemma post_keys c rows :
  map fst (post c rows) =
  map fst rows ++ (if j_allow_missing c then map fst (missing_pairs (j_L c) (j_R c)) else []).
Proof.
  unfold post. rewrite map_app. f_equal.
  - destruct (j_with_score c); [reflexivity|]. rewrite map_map. reflexivity.
  - destruct (j_allow_missing c); reflexivity.
Qed.

(* ------------------------------------------------------------------ the specs, pointwise *)
Definition keys_ok (c : jcase) : Prop := NoDup (map fst (j_L c)) /\ NoDup (map fst (j_R c)).

(* the condition under which complete_spec asks for the pair *)
Definition need_pair (c : jcase) (l r : row) : bool :=
  let x := toks_of l in let y := toks_of r in
  match j_entry c with
  | EJoin m =>
      if String.eqb m "EDIT_DISTANCE"
      then cmp_op (j_op c) (ed_dist l r) (PInt (ed_tau (j_t c))) && share x y
      else negb ((len x =? 0) && (len y =? 0)) && qualifies m (j_op c) (j_t c) x y
  | EFilter k m =>
      if String.eqb m "EDIT_DISTANCE"
      then cmp_op "<=" (ed_dist l r) (j_t c) && share x y
      else negb ((len x =? 0) && (len y =? 0)) && qualifies m ">=" (j_t c) x y
  | EOverlapFilter =>
      (0 <? overlap_sets x y) && cmp_op (j_op c) (PInt (overlap_sets x y)) (j_t c)
  end.

Lemma complete_spec_intro c obs :
  (forall l r, In l (j_L c) -> In r (j_R c) -> present l = true -> present r = true ->
     need_pair c l r = true -> has_pair (fst l) (fst r) obs = true) ->
  complete_spec c obs = true.
Proof.
  intros H. unfold complete_spec. apply forallb_forall. intros l Hl.
  apply forallb_forall. intros r Hr.
  destruct (present l) eqn:Pl; [|reflexivity]. destruct (present r) eqn:Pr; [|reflexivity].
  cbn [andb]. specialize (H l r Hl Hr Pl Pr). unfold need_pair in H. cbv zeta in H.
  destruct (j_entry c) as [m|k m|].
  - destruct (String.eqb m "EDIT_DISTANCE").
    + destruct (cmp_op _ _ _ && share _ _); [apply H; reflexivity|reflexivity].
    + destruct ((len (toks_of l) =? 0) && (len (toks_of r) =? 0)); [reflexivity|]. cbn [negb andb] in H.
      destruct (qualifies _ _ _ _ _); [apply H; reflexivity|reflexivity].
  - destruct (String.eqb m "EDIT_DISTANCE").
    + destruct (cmp_op _ _ _ && share _ _); [apply H; reflexivity|reflexivity].
    + destruct ((len (toks_of l) =? 0) && (len (toks_of r) =? 0)); [reflexivity|]. cbn [negb andb] in H.
      destruct (qualifies _ _ _ _ _); [apply H; reflexivity|reflexivity].
  - destruct ((0 <? _) && cmp_op _ _ _); [apply H; reflexivity|reflexivity].
Qed.

(* what sound_row asks of a row over two present values *)
Definition sound_pres (c : jcase) (l r : row) (s : pyval) : bool :=
  let x := toks_of l in let y := toks_of r in
  match j_entry c with
  | EJoin m =>
      if String.eqb m "EDIT_DISTANCE" then
        cmp_op (j_op c) (ed_dist l r) (PInt (ed_tau (j_t c))) &&
        (if j_with_score c then score_same s (ed_dist l r) else true)
      else if (len x =? 0) && (len y =? 0) then
        j_allow_empty c && negb (String.eqb m "OVERLAP") &&
        (if j_with_score c then score_same s (PFloat Measures.f_one) else true)
      else
        cmp_op (j_op c) (reported_score m x y) (j_t c) &&
        (if j_with_score c then score_same s (reported_score m x y) else true)
  | EFilter k m =>
      if (len x =? 0) && (len y =? 0) then
        j_allow_empty c && negb (String.eqb m "OVERLAP") && negb (String.eqb m "EDIT_DISTANCE")
      else match k with
           | KPrefix | KPosition => share x y
           | _ => true
           end
  | EOverlapFilter =>
      (0 <? overlap_sets x y) && cmp_op (j_op c) (PInt (overlap_sets x y)) (j_t c) &&
      (if j_with_score c then score_same s (PInt (overlap_sets x y)) else true)
  end.

Lemma sound_row_eq c obs lk rk s l r :
  find_row lk (j_L c) = Some l -> find_row rk (j_R c) = Some r ->
  sound_row c obs (lk, rk, s) =
  Nat.eqb (count_pair lk rk obs) 1 &&
  (if present l && present r then sound_pres c l r s else j_allow_missing c && score_same s PNone).
Proof. intros H1 H2. unfold sound_row. rewrite H1, H2. reflexivity. Qed.

(* ------------------------------------------------------------------ api_join, structurally *)
(* the split function partitions a table of fewer than 2^31 rows (proved of the generated
   split_table text in Proofs/SplitFacts.v; kept abstract here so that this file stays
   axiom-free) *)
Definition part_hyp : Prop :=
  forall (A : Type) (njobs cpus : Z) (Rp : list A), Z.of_nat (List.length Rp) < 2 ^ 31 ->
    exists chs, chunks_of njobs cpus Rp = Some chs /\ List.concat (map snd chs) = Rp.
Definition size_ok (c : jcase) : Prop := Z.of_nat (List.length (j_R c)) < 2 ^ 31.

Lemma filter_length_le_all {A} (f : A -> bool) l : (List.length (filter f l) <= List.length l)%nat.
Proof. induction l as [|a l IH]; simpl; [lia|]. destruct (f a); simpl; lia. Qed.

Section Api.
  Hypothesis Hpart : part_hyp.
  Variable c : jcase.
  Hypothesis Hsz : size_ok c.
  Local Notation Lp := (filter present (j_L c)).
  Local Notation Rp := (filter present (j_R c)).
  Local Notation pf Rc l r := (core_pf c (all_of Lp Rc) (rowval l) (rowval r)).

  Lemma api_struct : exists chs : list (nat * list row),
    List.concat (map snd chs) = Rp /\ (forall ch, In ch chs -> incl (snd ch) Rp) /\
    api_join c = option_map (post c) (opt_concat (map (fun ch => kcore c Lp (snd ch)) chs)).
  Proof.
    assert (Hlt : Z.of_nat (List.length Rp) < 2 ^ 31).
    { pose proof (filter_length_le_all present (j_R c)). unfold size_ok in Hsz. lia. }
    destruct (Hpart row (j_njobs c) (j_cpus c) Rp Hlt) as [chs [E Hc]]. exists chs.
    split; [exact Hc|]. split.
    - intros ch Hch. apply (chunks_of_incl _ _ _ _ _ E Hch).
    - rewrite api_join_eq, E. reflexivity.
  Qed.

  Lemma rows_In (chs : list (nat * list row)) rows :
    opt_concat (map (fun ch => kcore c Lp (snd ch)) chs) = Some rows ->
    forall lk rk s0, In (lk, rk, s0) rows <->
      exists ch l r lst, In ch chs /\ In l Lp /\ In r (snd ch) /\ lk = fst l /\ rk = fst r /\
                         pf (snd ch) l r = Some lst /\ In s0 lst.
  Proof.
    intros H lk rk s0. rewrite (opt_concat_In _ _ H). split.
    - intros [x [Hx Hin]]. apply in_map_iff in Hx. destruct Hx as [ch [Ek Hch]].
      rewrite (kcore_In _ _ _ _ Ek) in Hin. destruct Hin as [l [r [lst Hin]]].
      exists ch, l, r, lst. tauto.
    - intros [ch [l [r [lst [Hch [Hl [Hr [-> [-> [Epf Hs]]]]]]]]]].
      destruct (kcore c Lp (snd ch)) as [res|] eqn:Ek.
      + exists res. split; [apply in_map_iff; exists ch; auto|].
        rewrite (kcore_In _ _ _ _ Ek). exists l, r, lst. auto 10.
      + exfalso. assert (Hn : In None (map (fun ch : nat * list row => kcore c Lp (snd ch)) chs)).
        { apply in_map_iff. exists ch. auto. }
        apply opt_concat_None_iff in Hn. congruence.
  Qed.

  (* totality from the pair function *)
  Theorem api_total :
    core_ok c = true ->
    (forall Rc l r, incl Rc Rp -> In l Lp -> In r Rc -> pf Rc l r <> None) ->
    exists out, api_join c = Some out.
  Proof.
    intros Hok H. destruct api_struct as [chs [Hcat [Hincl E]]]. rewrite E.
    destruct (opt_concat _) as [rows|] eqn:Eo; [eexists; reflexivity|exfalso].
    apply opt_concat_None_iff in Eo. apply in_map_iff in Eo. destruct Eo as [ch [Ek Hch]].
    rewrite kcore_kloop, Hok in Ek. apply kloop_None_iff in Ek.
    destruct Ek as [l [r [Hl [Hr En]]]]. apply (H (snd ch) l r (Hincl ch Hch) Hl Hr En).
  Qed.

  (* where a row of the output comes from *)
  Theorem api_out_In out : api_join c = Some out ->
    forall lk rk s, In (lk, rk, s) out ->
      (exists l r Rc lst s0, In l Lp /\ incl Rc Rp /\ In r Rc /\ lk = fst l /\ rk = fst r /\
                             pf Rc l r = Some lst /\ In s0 lst /\ s = rep_score c s0) \/
      (j_allow_missing c = true /\ In (lk, rk, s) (missing_pairs (j_L c) (j_R c))).
  Proof.
    intros H lk rk s Hin. destruct api_struct as [chs [Hcat [Hincl E]]]. rewrite E in H.
    destruct (opt_concat _) as [rows|] eqn:Eo; [|discriminate]. simpl in H. injection H as <-.
    apply post_In in Hin. destruct Hin as [[s0 [Hin ->]]|Hm]; [left|right; exact Hm].
    apply (rows_In _ _ Eo) in Hin. destruct Hin as [ch [l [r [lst [Hch [Hl [Hr [-> [-> [Epf Hs]]]]]]]]]].
    exists l, r, (snd ch), lst, s0. repeat split; try assumption. apply Hincl. exact Hch.
  Qed.

  Theorem api_missing_in_out out : api_join c = Some out -> j_allow_missing c = true ->
    forall o, In o (missing_pairs (j_L c) (j_R c)) -> In o out.
  Proof.
    intros H Ham o Ho. destruct api_struct as [chs [Hcat [Hincl E]]]. rewrite E in H.
    destruct (opt_concat _) as [rows|] eqn:Eo; [|discriminate]. simpl in H. injection H as <-.
    destruct o as [[lk rk] s]. apply post_In. right. auto.
  Qed.

  Hypothesis Hkeys : keys_ok c.

  Lemma present_not_missing l r s : In l (j_L c) -> In r (j_R c) ->
    present l = true -> present r = true ->
    ~ In (fst l, fst r, s) (missing_pairs (j_L c) (j_R c)).
  Proof.
    intros Hl Hr Pl Pr Hin. destruct Hkeys as [HL HR].
    apply missing_pairs_spec in Hin. destruct Hin as [_ [l' [r' [Hl' [Hr' [El [Er Hm]]]]]]].
    apply (key_inj _ _ _ HL Hl' Hl) in El. apply (key_inj _ _ _ HR Hr' Hr) in Er. subst.
    destruct Hm; congruence.
  Qed.

  (* each key pair at most once *)
  Theorem api_out_keys_NoDup out : api_join c = Some out -> NoDup (map fst out).
  Proof.
    intros H. destruct Hkeys as [HL HR]. destruct api_struct as [chs [Hcat [Hincl E]]]. rewrite E in H.
    destruct (opt_concat _) as [rows|] eqn:Eo; [|discriminate]. simpl in H. injection H as <-.
    rewrite post_keys. apply NoDup_app_intro.
    - pose proof (rows_In _ _ Eo) as HIn. apply opt_concat_Some_flat in Eo. subst rows.
      apply (NoDup_flat_map_tagged _ _ (fun kk : Z * Z => snd kk) (fun ch : nat * list row => map fst (snd ch))).
      + assert (Ec : List.concat (map (fun ch : nat * list row => map fst (snd ch)) chs)
                     = map fst (List.concat (map snd chs))) by (rewrite concat_map, map_map; reflexivity).
        rewrite Ec, Hcat. apply NoDup_keys_filter. exact HR.
      + intros ch _ Hnd. destruct (kcore c Lp (snd ch)) as [res|] eqn:Ek; cbn [olist map]; [|constructor].
        rewrite kcore_kloop in Ek. destruct (core_ok c); [|discriminate].
        apply (kloop_keys_NoDup _ _ _ _ _ (fun x y lst => core_pf_len c _ x y lst) _ _ _ Ek).
        * apply NoDup_keys_filter. exact HL.
        * exact Hnd.
      + intros ch [[lk rk] s] Hch Hb. destruct (kcore c Lp (snd ch)) as [res|] eqn:Ek; cbn [olist] in Hb;
          [|destruct Hb]. rewrite (kcore_In _ _ _ _ Ek) in Hb.
        destruct Hb as [l [r [lst [_ [Hr [_ [-> _]]]]]]]. cbn [fst snd]. apply in_map. exact Hr.
    - destruct (j_allow_missing c); [|constructor]. apply missing_pairs_keys_NoDup; assumption.
    - intros [lk rk] Hk Hk'. destruct (j_allow_missing c); [|destruct Hk'].
      apply in_map_iff in Hk. destruct Hk as [[[a b] s0] [Ek Hk]]. cbn [fst] in Ek. injection Ek as -> ->.
      apply (rows_In _ _ Eo) in Hk. destruct Hk as [ch [l [r [lst [Hch [Hl [Hr [-> [-> _]]]]]]]]].
      apply in_map_iff in Hk'. destruct Hk' as [[[a b] s1] [Ek Hk']]. cbn [fst] in Ek. injection Ek as -> ->.
      apply (Hincl ch Hch) in Hr. apply filter_In in Hl, Hr.
      apply (present_not_missing l r s1); tauto.
  Qed.

  (* the chunk of a pair of present rows decides has_pair *)
  Theorem pair_chunk out l r : api_join c = Some out ->
    In l (j_L c) -> In r (j_R c) -> present l = true -> present r = true ->
    exists Rc lst, incl Rc Rp /\ In r Rc /\ pf Rc l r = Some lst /\
      has_pair (fst l) (fst r) out = negb (match lst with [] => true | _ => false end).
  Proof.
    intros H Hl Hr Pl Pr. destruct Hkeys as [HL HR].
    destruct api_struct as [chs [Hcat [Hincl E]]]. rewrite E in H.
    destruct (opt_concat _) as [rows|] eqn:Eo; [|discriminate]. simpl in H. injection H as <-.
    assert (Hlp : In l Lp) by (apply filter_In; auto).
    assert (Hrp : In r Rp) by (apply filter_In; auto).
    pose proof Hrp as Hrc. rewrite <- Hcat in Hrc. apply in_concat in Hrc.
    destruct Hrc as [Rc [HRc Hrc]]. apply in_map_iff in HRc. destruct HRc as [ch [<- Hch]].
    destruct (kcore c Lp (snd ch)) as [res|] eqn:Ek.
    2:{ exfalso. assert (Hn : In None (map (fun ch : nat * list row => kcore c Lp (snd ch)) chs)).
        { apply in_map_iff. exists ch. auto. }
        apply opt_concat_None_iff in Hn. congruence. }
    pose proof Ek as Ek'. rewrite kcore_kloop in Ek'. destruct (core_ok c); [|discriminate].
    destruct (pf (snd ch) l r) as [lst|] eqn:Epf.
    2:{ exfalso. assert (Hn : kloop (core_pf c (all_of Lp (snd ch))) (fun r : row => fst r)
                                    (fun r : row => fst r) rowval rowval Lp (snd ch) = None).
        { apply kloop_None_iff. exists l, r. auto. }
        congruence. }
    exists (snd ch), lst. split; [apply Hincl; exact Hch|]. split; [exact Hrc|]. split; [exact Epf|].
    destruct lst as [|s0 lst]; cbn [negb].
    - apply has_pair_false. intros s Hin. apply post_In in Hin. destruct Hin as [[s0 [Hin _]]|[_ Hm]].
      + apply (rows_In _ _ Eo) in Hin.
        destruct Hin as [ch' [l' [r' [lst' [Hch' [Hl' [Hr' [El [Er [Epf' Hs]]]]]]]]]].
        assert (Hr'p : In r' Rp) by (apply (Hincl ch' Hch'); exact Hr').
        apply filter_In in Hl', Hr'p.
        apply (key_inj _ _ _ HL Hl (proj1 Hl')) in El. apply (key_inj _ _ _ HR Hr (proj1 Hr'p)) in Er.
        subst l' r'.
        assert (Es : snd ch = snd ch').
        { apply (NoDup_concat_same (map snd chs) _ _ r).
          - rewrite Hcat. apply (NoDup_map_inv fst). apply NoDup_keys_filter. exact HR.
          - apply in_map. exact Hch.
          - apply in_map. exact Hch'.
          - exact Hrc.
          - exact Hr'. }
        rewrite <- Es, Epf in Epf'. injection Epf' as <-. destruct Hs.
      + apply (present_not_missing l r s Hl Hr Pl Pr Hm).
    - apply has_pair_In. exists (rep_score c s0). apply post_In. left. exists s0. split; [|reflexivity].
      apply (rows_In _ _ Eo). exists ch, l, r, (s0 :: lst). repeat split; try assumption. left; reflexivity.
  Qed.

  (* ---------------------------------------------------------------- the specs *)
  Theorem complete_spec_lift out : api_join c = Some out ->
    (forall Rc l r lst, incl Rc Rp -> In l Lp -> In r Rc -> need_pair c l r = true ->
       pf Rc l r = Some lst -> lst <> []) ->
    complete_spec c out = true.
  Proof.
    intros H Hp. apply complete_spec_intro. intros l r Hl Hr Pl Pr Hn.
    destruct (pair_chunk out l r H Hl Hr Pl Pr) as [Rc [lst [Hi [Hrc [Epf ->]]]]].
    assert (Hne : lst <> []) by (apply (Hp Rc l r lst); try assumption; apply filter_In; auto).
    destruct lst; [congruence|reflexivity].
  Qed.

  Theorem sound_spec_lift out : api_join c = Some out ->
    (forall Rc l r lst s0, incl Rc Rp -> In l Lp -> In r Rc -> pf Rc l r = Some lst -> In s0 lst ->
       sound_pres c l r (rep_score c s0) = true) ->
    sound_spec c out = true.
  Proof.
    intros H Hp. destruct Hkeys as [HL HR]. pose proof (api_out_keys_NoDup out H) as Hnd.
    unfold sound_spec. apply forallb_forall. intros [[lk rk] s] Hin.
    destruct (api_out_In out H lk rk s Hin)
      as [[l [r [Rc [lst [s0 [Hl [Hi [Hr [-> [-> [Epf [Hs ->]]]]]]]]]]]]|[Ham Hm]].
    - pose proof (Hi r Hr) as Hrp. pose proof Hl as Hl'. apply filter_In in Hl', Hrp.
      rewrite (sound_row_eq c out _ _ _ l r) by (apply find_row_In; tauto).
      rewrite (count_pair_one _ _ _ _ Hnd Hin). rewrite (proj2 Hl'), (proj2 Hrp). cbn [Nat.eqb andb].
      apply (Hp Rc l r lst s0); assumption.
    - pose proof Hm as Hm'. apply missing_pairs_spec in Hm'.
      destruct Hm' as [-> [l [r [Hl [Hr [<- [<- Hmiss]]]]]]].
      rewrite (sound_row_eq c out _ _ _ l r) by (apply find_row_In; assumption).
      rewrite (count_pair_one _ _ _ _ Hnd Hin), Ham. cbn [Nat.eqb andb score_same].
      destruct Hmiss as [-> | ->]; [reflexivity| rewrite andb_false_r; reflexivity].
  Qed.

  (* C08: holds for every entry *)
  Theorem missing_spec_holds out : api_join c = Some out -> missing_spec c out = true.
  Proof.
    intros H. destruct Hkeys as [HL HR]. pose proof (api_out_keys_NoDup out H) as Hnd.
    unfold missing_spec, forall_pairs. apply forallb_forall. intros l Hl.
    apply forallb_forall. intros r Hr.
    destruct (present l && present r) eqn:Pb; [reflexivity|].
    assert (Hmiss : present l = false \/ present r = false).
    { destruct (present l); [right; exact Pb|left; reflexivity]. }
    destruct (j_allow_missing c) eqn:Ham.
    - assert (Hin : In (fst l, fst r, PNone) out).
      { apply (api_missing_in_out out H Ham). apply missing_pairs_spec. split; [reflexivity|].
        exists l, r. auto. }
      rewrite (count_pair_one _ _ _ _ Hnd Hin). reflexivity.
    - rewrite count_pair_zero; [reflexivity|]. intros s Hin.
      destruct (api_out_In out H _ _ s Hin)
        as [[l' [r' [Rc [lst [s0 [Hl' [Hi [Hr' [El [Er _]]]]]]]]]]|[Hf _]]; [|congruence].
      apply Hi in Hr'. apply filter_In in Hl', Hr'.
      apply (key_inj _ _ _ HL Hl (proj1 Hl')) in El. apply (key_inj _ _ _ HR Hr (proj1 Hr')) in Er.
      subst l' r'. destruct Hmiss; intuition congruence.
  Qed.

  (* C09 *)
  Theorem empty_spec_lift out : api_join c = Some out ->
    (forall Rc l r lst, incl Rc Rp -> In l Lp -> In r Rc -> pf Rc l r = Some lst ->
       (both_empty l r = true -> forall b, empty_expected c = Some b ->
          negb (match lst with [] => true | _ => false end) = b) /\
       (both_empty l r = false -> one_empty l r && is_set_join c = true -> lst = [])) ->
    empty_spec c out = true.
  Proof.
    intros H Hp. unfold empty_spec, forall_pairs. apply forallb_forall. intros l Hl.
    apply forallb_forall. intros r Hr.
    destruct (present l) eqn:Pl; [|reflexivity]. destruct (present r) eqn:Pr; [|reflexivity].
    cbn [andb].
    destruct (pair_chunk out l r H Hl Hr Pl Pr) as [Rc [lst [Hi [Hrc [Epf ->]]]]].
    assert (Hlp : In l Lp) by (apply filter_In; auto).
    destruct (Hp Rc l r lst Hi Hlp Hrc Epf) as [H1 H2].
    destruct (both_empty l r) eqn:Eb.
    - destruct (empty_expected c) as [b|] eqn:Ee; [|reflexivity].
      rewrite (H1 eq_refl b eq_refl). destruct b; reflexivity.
    - destruct (one_empty l r && is_set_join c) eqn:Eo; [|reflexivity].
      rewrite (H2 eq_refl eq_refl). reflexivity.
  Qed.
End Api.

(* every token of a row of the tables occurs in the token universe of its chunk *)
Lemma toks_all_l Lp Rc l : In l Lp -> forall w, In w (toks_of l) -> In w (all_of Lp Rc).
Proof. intros H w Hw. apply (toks_incl_all_l Lp Rc l H w Hw). Qed.
Lemma toks_all_r Lp Rc r : In r Rc -> forall w, In w (toks_of r) -> In w (all_of Lp Rc).
Proof. intros H w Hw. apply (toks_incl_all_r Lp Rc r H w Hw). Qed.

Lemma len_zero_nil (l : list Z) : (len l =? 0) = true <-> l = [].
Proof.
  unfold len. destruct l; simpl; split; intros H; try reflexivity; try discriminate.
Qed.

Print Assumptions api_total.
Print Assumptions api_out_In.
Print Assumptions api_out_keys_NoDup.
Print Assumptions pair_chunk.
Print Assumptions complete_spec_lift.
Print Assumptions sound_spec_lift.
Print Assumptions missing_spec_holds.
Print Assumptions empty_spec_lift.
