(* Score-level facts for the metamorphic laws:
   - `score_same` (numeric equality of reported scores) is right-Euclidean around a scalar pivot
     (two scores that both equal the specified score equal each other), provided that, when the
     pivot is an INTEGER and both scores are floats, the floats are valid (canonical) doubles;
   - the strict relation `seq` (same kind, floats structurally equal up to the sign of zero) is a
     congruence for score_same, cmp_op and round_score;
   - (1) raw_score / reported_score / qualifies / gray are symmetric in the two token lists.
   Axiom-free.                                                                              *)
From Coq Require Import ZArith Bool List String Lia SpecFloat.
From SSJ Require Import F64 PyNum FilterUtilsGen HelperGen TokenOrdering Measures Filters Joins Api JoinSpec MetaSpec
                        OverlapFacts LawsCanon.
Import ListNotations.
Open Scope string_scope.
Open Scope Z_scope.

(* ------------------------------------------------------------------ numbers *)
Definition neq (x y : num) : bool := match num_cmp x y with Some Eq => true | _ => false end.
Definition nseq (x y : num) : bool :=
  match x, y with NI a, NI b => Z.eqb a b | NF f, NF g => feq f g | _, _ => false end.

Lemma opp_eq o : option_map CompOpp o = Some Eq <-> o = Some Eq.
Proof. destruct o as [[]|]; simpl; split; intros H; try discriminate; reflexivity. Qed.

Lemma neq_iff x y : neq x y = true <-> num_cmp x y = Some Eq.
Proof. unfold neq. destruct (num_cmp x y) as [[]|]; split; intros H; try discriminate; reflexivity. Qed.

Lemma num_cmp_nseq_l x x' y : nseq x x' = true -> num_cmp x y = num_cmp x' y.
Proof.
  destruct x as [a|f], x' as [a'|f']; simpl; try discriminate; intros H.
  - apply Z.eqb_eq in H. subst. reflexivity.
  - destruct y as [b|g]; simpl.
    + rewrite (cmp_Z_f_feq b _ _ H). reflexivity.
    + apply SFcompare_feq_l; exact H.
Qed.

Lemma num_cmp_nseq_r x y y' : nseq y y' = true -> num_cmp x y = num_cmp x y'.
Proof.
  destruct y as [a|f], y' as [a'|f']; simpl; try discriminate; intros H.
  - apply Z.eqb_eq in H. subst. reflexivity.
  - destruct x as [b|g]; simpl.
    + apply cmp_Z_f_feq; exact H.
    + apply SFcompare_feq_r; exact H.
Qed.

Definition canon_num (x : num) : bool :=
  match x with NF f => valid_binary prec emax f | NI _ => true end.
Definition euclid_ok (v x y : num) : bool :=
  match v, x, y with NI _, NF _, NF _ => canon_num x && canon_num y | _, _, _ => true end.

Lemma some_cmp_eq a c : Some (a ?= c) = Some Eq -> a = c.
Proof. intros H. injection H as H. apply Z.compare_eq; exact H. Qed.
Lemma some_cmp_refl a : Some (a ?= a) = Some Eq.
Proof. rewrite Z.compare_refl. reflexivity. Qed.

Lemma neq_euclid v x y : neq x v = true -> neq y v = true -> euclid_ok v x y = true -> neq x y = true.
Proof.
  rewrite !neq_iff. destruct v as [c|f], x as [a|g], y as [b|h]; simpl; intros Hx Hy Hok.
  - apply some_cmp_eq in Hx. apply some_cmp_eq in Hy. subst. apply some_cmp_refl.
  - apply some_cmp_eq in Hx. subst. apply (proj1 (opp_eq _)) in Hy. exact Hy.
  - apply some_cmp_eq in Hy. subst. exact Hx.
  - apply (proj1 (opp_eq _)) in Hx. apply (proj1 (opp_eq _)) in Hy. apply andb_true_iff in Hok. destruct Hok as [Vg Vh].
    eapply cmp_Z_f_canon; eassumption.
  - rewrite (cmp_Z_f_eq_inj _ _ _ Hx Hy). apply some_cmp_refl.
  - apply SFcompare_eq_feq in Hy. rewrite (cmp_Z_f_feq a _ _ Hy). exact Hx.
  - apply SFcompare_eq_feq in Hx. apply (proj2 (opp_eq _)). rewrite (cmp_Z_f_feq b _ _ Hx). exact Hy.
  - destruct (SFcompare_some_not_nan _ _ _ Hx) as [_ Hn].
    apply SFcompare_eq_feq in Hx. apply SFcompare_eq_feq in Hy.
    rewrite (SFcompare_feq_l _ _ _ Hx), (SFcompare_feq_r _ _ f Hy). apply SFcompare_refl; exact Hn.
Qed.

(* ------------------------------------------------------------------ score_same through num_of *)
Lemma pv_eqb_num_l a b x : num_of a = Some x ->
  pv_eqb a b = match num_of b with Some y => neq x y | None => false end.
Proof.
  destruct a; simpl; try discriminate; intros H; injection H as <-; destruct b; reflexivity.
Qed.

Lemma score_same_num_l a b x : num_of a = Some x ->
  score_same a b = match num_of b with Some y => neq x y | None => false end.
Proof.
  intros H. unfold score_same. destruct a; try discriminate H;
    (destruct b; try reflexivity; rewrite (pv_eqb_num_l _ _ _ H); reflexivity).
Qed.

Lemma score_same_num_r a b y : num_of b = Some y ->
  score_same a b = match num_of a with Some x => neq x y | None => false end.
Proof.
  intros H. destruct (num_of a) as [x|] eqn:Ea.
  - rewrite (score_same_num_l _ _ _ Ea), H. reflexivity.
  - destruct b; try discriminate H; destruct a; try discriminate Ea; reflexivity.
Qed.

(* the pivots: what a specified score can be *)
Definition pivot (v : pyval) : bool :=
  match v with PNone | PInt _ | PFloat _ | PExc _ => true | _ => false end.
Definition canon_score (s : pyval) : bool :=
  match s with PFloat f => valid_binary prec emax f | _ => true end.
(* only needed when the pivot is an int and both scores are floats *)
Definition euclid_okv (v a b : pyval) : bool :=
  match v, a, b with PInt _, PFloat _, PFloat _ => canon_score a && canon_score b | _, _, _ => true end.

Theorem score_same_euclid v a b : pivot v = true ->
  score_same a v = true -> score_same b v = true -> euclid_okv v a b = true -> score_same a b = true.
Proof.
  intros Hp Ha Hb Hok. destruct v; try discriminate Hp.
  - (* PInt *)
    rewrite (score_same_num_r a (PInt z) (NI z) eq_refl) in Ha. rewrite (score_same_num_r b (PInt z) (NI z) eq_refl) in Hb.
    destruct (num_of a) as [x|] eqn:Ea; [|discriminate]. destruct (num_of b) as [y|] eqn:Eb; [|discriminate].
    rewrite (score_same_num_l _ _ _ Ea), Eb. eapply neq_euclid; [exact Ha | exact Hb |].
    destruct a; try discriminate Ea; destruct b; try discriminate Eb; simpl in *;
      injection Ea as <-; injection Eb as <-; try reflexivity. exact Hok.
  - (* PFloat *)
    rewrite (score_same_num_r a (PFloat f) (NF f) eq_refl) in Ha. rewrite (score_same_num_r b (PFloat f) (NF f) eq_refl) in Hb.
    destruct (num_of a) as [x|] eqn:Ea; [|discriminate]. destruct (num_of b) as [y|] eqn:Eb; [|discriminate].
    rewrite (score_same_num_l _ _ _ Ea), Eb. eapply neq_euclid; [exact Ha | exact Hb |].
    destruct x, y; reflexivity.
  - (* PNone *)
    destruct a; try discriminate Ha. destruct b; try discriminate Hb. reflexivity.
  - (* PExc *)
    destruct a; try discriminate Ha. destruct b; try discriminate Hb. simpl in *.
    apply String.eqb_eq in Ha. apply String.eqb_eq in Hb. subst. apply String.eqb_refl.
Qed.

Lemma score_same_pivot_refl a v : pivot v = true -> score_same a v = true -> score_same v v = true.
Proof.
  intros Hp Ha. destruct v; try discriminate Hp.
  - simpl. rewrite Z.compare_refl. reflexivity.
  - rewrite (score_same_num_r a (PFloat f) (NF f) eq_refl) in Ha. destruct (num_of a) as [x|]; [|discriminate].
    apply neq_iff in Ha. simpl. destruct x as [z|g]; simpl in Ha.
    + assert (f_is_nan f = false) as Hn by (destruct f; simpl in *; try discriminate; reflexivity).
      rewrite SFcompare_refl by exact Hn. reflexivity.
    + destruct (SFcompare_some_not_nan _ _ _ Ha) as [_ Hn]. rewrite SFcompare_refl by exact Hn. reflexivity.
  - reflexivity.
  - simpl. apply String.eqb_refl.
Qed.

(* ------------------------------------------------------------------ the strict relation *)
Definition seq (a b : pyval) : bool :=
  match a, b with
  | PNone, PNone => true
  | PInt x, PInt y => Z.eqb x y
  | PFloat f, PFloat g => feq f g
  | _, _ => false
  end.
Definition same_kind (a b : pyval) : bool :=
  match a, b with
  | PNone, PNone | PInt _, PInt _ | PFloat _, PFloat _ => true
  | _, _ => false
  end.

Lemma score_same_seq a v : score_same a v = true -> same_kind a v = true -> seq a v = true.
Proof.
  destruct a, v; simpl; try discriminate; intros H _.
  - destruct (z ?= z0) eqn:E; try discriminate. apply Z.compare_eq in E. subst. apply Z.eqb_refl.
  - destruct (SFcompare f f0) as [[]|] eqn:E; try discriminate. apply SFcompare_eq_feq; exact E.
  - reflexivity.
Qed.

Lemma seq_sym a b : seq a b = true -> seq b a = true.
Proof.
  destruct a, b; simpl; try discriminate; intros H; [rewrite Z.eqb_sym; exact H | apply feq_sym; exact H | reflexivity].
Qed.

Lemma seq_trans a b c : seq a b = true -> seq b c = true -> seq a c = true.
Proof.
  destruct a, b; simpl; try discriminate; destruct c; simpl; try discriminate; intros H1 H2.
  - apply Z.eqb_eq in H1. subst. exact H2.
  - eapply feq_trans; eassumption.
  - reflexivity.
Qed.

Lemma seq_cases a b : seq a b = true ->
  (a = PNone /\ b = PNone) \/
  (exists x y, num_of a = Some x /\ num_of b = Some y /\ nseq x y = true).
Proof.
  destruct a, b; simpl; try discriminate; intros H.
  - right. exists (NI z), (NI z0). auto.
  - right. exists (NF f), (NF f0). auto.
  - left. auto.
Qed.

Theorem seq_score_same a a' b b' : seq a a' = true -> seq b b' = true -> score_same a b = score_same a' b'.
Proof.
  intros Ha Hb.
  destruct (seq_cases _ _ Ha) as [[-> ->]|[x [x' [Ex [Ex' Hx]]]]];
  destruct (seq_cases _ _ Hb) as [[-> ->]|[y [y' [Ey [Ey' Hy]]]]].
  - reflexivity.
  - destruct b; try discriminate Ey; destruct b'; try discriminate Ey'; reflexivity.
  - rewrite (score_same_num_l _ _ _ Ex), (score_same_num_l _ _ _ Ex'). reflexivity.
  - rewrite (score_same_num_l _ _ _ Ex), (score_same_num_l _ _ _ Ex'), Ey, Ey'. unfold neq.
    rewrite (num_cmp_nseq_l _ _ _ Hx), (num_cmp_nseq_r _ _ _ Hy). reflexivity.
Qed.

(* around a common pivot that some score equals *)
Lemma seq_pivot_score_same s s' s0 v : pivot v = true -> score_same s0 v = true ->
  seq s v = true -> seq s' v = true -> score_same s s' = true.
Proof.
  intros Hp H0 Hs Hs'. rewrite (seq_score_same _ _ _ _ Hs Hs'). eapply score_same_pivot_refl; eassumption.
Qed.

Lemma py_ord_seq test a a' t : seq a a' = true -> py_ord test a t = py_ord test a' t.
Proof.
  intros H. destruct (seq_cases _ _ H) as [[-> ->]|[x [x' [Ex [Ex' Hx]]]]]; [reflexivity|].
  assert (forall y, num_cmp x y = num_cmp x' y) as Hn by (intros y; apply num_cmp_nseq_l; exact Hx).
  destruct a; try discriminate Ex; destruct a'; try discriminate Ex'; simpl in Ex, Ex';
    injection Ex as <-; injection Ex' as <-; try discriminate Hx;
    unfold py_ord, strict2; destruct t; cbn [ord_cmp num_of]; rewrite ?Hn; reflexivity.
Qed.

Lemma pv_eqb_seq a a' t : seq a a' = true -> pv_eqb a t = pv_eqb a' t.
Proof.
  intros H. destruct (seq_cases _ _ H) as [[-> ->]|[x [x' [Ex [Ex' Hx]]]]]; [reflexivity|].
  rewrite (pv_eqb_num_l _ _ _ Ex), (pv_eqb_num_l _ _ _ Ex'). destruct (num_of t) as [y|]; [|reflexivity].
  unfold neq. rewrite (num_cmp_nseq_l _ _ _ Hx). reflexivity.
Qed.

Lemma seq_not_exc a a' : seq a a' = true -> is_exc a = false /\ is_exc a' = false.
Proof. destruct a, a'; simpl; try discriminate; auto. Qed.

Theorem seq_cmp_op op a a' t : seq a a' = true -> cmp_op op a t = cmp_op op a' t.
Proof.
  intros H. unfold cmp_op, comp_op_map.
  destruct (String.eqb op ">="); [unfold py_ge; rewrite (py_ord_seq _ _ _ t H); reflexivity|].
  destruct (String.eqb op ">"); [unfold py_gt; rewrite (py_ord_seq _ _ _ t H); reflexivity|].
  destruct (String.eqb op "<="); [unfold py_le; rewrite (py_ord_seq _ _ _ t H); reflexivity|].
  destruct (String.eqb op "<"); [unfold py_lt; rewrite (py_ord_seq _ _ _ t H); reflexivity|].
  destruct (seq_not_exc _ _ H) as [E1 E2].
  destruct (String.eqb op "=").
  { unfold py_eq, strict2. destruct a; try discriminate E1; destruct a'; try discriminate H;
      destruct t; try reflexivity; rewrite (pv_eqb_seq _ _ _ H); reflexivity. }
  destruct (String.eqb op "!="); [|reflexivity].
  unfold py_ne, strict2. destruct a; try discriminate E1; destruct a'; try discriminate H;
    destruct t; try reflexivity; rewrite (pv_eqb_seq _ _ _ H); reflexivity.
Qed.

Theorem seq_round a a' : seq a a' = true -> seq (round_score a) (round_score a') = true.
Proof.
  destruct a, a'; simpl; try discriminate; auto. intros H.
  destruct (feq_cases _ _ H) as [->|[s [s' [-> ->]]]]; [apply feq_refl | reflexivity].
Qed.

(* ------------------------------------------------------------------ the comparison operators *)
(* >= is the exclusive union of > and =, for every left operand that is not a string/container *)
Definition scalar_score (v : pyval) : bool :=
  match v with PInt _ | PFloat _ | PExc _ | PBool _ => true | _ => false end.

Lemma cmp_ge_split a t : scalar_score a = true ->
  cmp_op ">=" a t = cmp_op ">" a t || cmp_op "=" a t.
Proof.
  intros Ha. unfold cmp_op. cbn [comp_op_map String.eqb Ascii.eqb Bool.eqb].
  unfold py_ge, py_gt, py_eq, py_ord, strict2.
  destruct a; try discriminate Ha; try reflexivity; destruct t; try reflexivity;
    unfold ord_cmp; cbn [num_of];
    match goal with
    | |- context [pv_eqb ?a ?b] => rewrite (pv_eqb_num_l a b _ eq_refl); cbn [num_of]; unfold neq
    end;
    match goal with |- context [num_cmp ?x ?y] => destruct (num_cmp x y) as [[]|]; reflexivity end.
Qed.

Lemma cmp_gt_eq_excl a t : scalar_score a = true -> cmp_op ">" a t && cmp_op "=" a t = false.
Proof.
  intros Ha. unfold cmp_op. cbn [comp_op_map String.eqb Ascii.eqb Bool.eqb].
  unfold py_ge, py_gt, py_eq, py_ord, strict2.
  destruct a; try discriminate Ha; try reflexivity; destruct t; try reflexivity;
    unfold ord_cmp; cbn [num_of];
    match goal with
    | |- context [pv_eqb ?a ?b] => rewrite (pv_eqb_num_l a b _ eq_refl); cbn [num_of]; unfold neq
    end;
    match goal with |- context [num_cmp ?x ?y] => destruct (num_cmp x y) as [[]|]; reflexivity end.
Qed.

(* ------------------------------------------------------------------ (1) symmetry of the measures *)
Lemma fmul_comm x y : fmul x y = fmul y x.
Proof.
  unfold fmul, SFmul.
  destruct x as [sx|sx| |sx mx ex], y as [sy|sy| |sy my ey]; try reflexivity;
    try (rewrite (xorb_comm sx sy); reflexivity).
  rewrite (xorb_comm sx sy), (Pos.mul_comm mx my), (Z.add_comm ex ey). reflexivity.
Qed.

Lemma sim_sizes_sym m a b o : sim_sizes m a b o = sim_sizes m b a o.
Proof.
  unfold sim_sizes, sim_formula. rewrite (andb_comm (o =? a) (o =? b)).
  rewrite (Z.add_comm a b), (fmul_comm (fsqrt (f_of_Z a)) (fsqrt (f_of_Z b))). reflexivity.
Qed.

Theorem raw_score_sym m x y : raw_score m x y = raw_score m y x.
Proof.
  unfold raw_score. rewrite (overlap_sets_sym x y), (sim_sizes_sym m (len (dedup x)) (len (dedup y))),
    (Z.min_comm (len (dedup x)) (len (dedup y))). reflexivity.
Qed.

Theorem reported_score_sym m x y : reported_score m x y = reported_score m y x.
Proof.
  unfold reported_score, score4. rewrite (raw_score_sym m x y), (overlap_sets_sym x y),
    (sim_sizes_sym m (len (dedup x)) (len (dedup y))). reflexivity.
Qed.

Theorem qualifies_sym m op t x y : qualifies m op t x y = qualifies m op t y x.
Proof. unfold qualifies. rewrite (raw_score_sym m x y), (reported_score_sym m x y). reflexivity. Qed.

Theorem gray_sym m op t x y : gray m op t x y = gray m op t y x.
Proof. unfold gray. rewrite (raw_score_sym m x y), (reported_score_sym m x y). reflexivity. Qed.

Print Assumptions score_same_euclid.
Print Assumptions seq_score_same.
Print Assumptions seq_cmp_op.
Print Assumptions seq_round.
Print Assumptions cmp_ge_split.
Print Assumptions qualifies_sym.
Print Assumptions gray_sym.
