(* Code-level property theorems, part 4: C05 stated DIRECTLY about the GENERATED apply_matcher_rows
   (Gen/MatcherGen.v, from matcher/apply_matcher.py).

   (A) MatcherRefineEnd.apply_matcher_rows_end_to_end  (generated code = e_proj of apply_matcher_model's rows)
   (B) MatcherChunks.apply_matcher_rows_b (= C05_rows + C05_njobs: the model returns, for every n_jobs, the
       candidate set filtered IN ORDER by `keep`, each kept row mapped by `out`), MatcherFacts.keep_out_present /
       keep_out_missing (C05_present / C05_missing).

   Result: the frame apply_matcher_rows returns consists of exactly the candidate rows that satisfy the
   predicate, in the order of the candidate set, whatever n_jobs; and the predicate on a candidate row
   whose keys are those of source rows lrow / rrow is
       allow_missing                                             if a match value is missing,
       comp_op (sim_function (tok lvalue) (tok rvalue)) threshold otherwise
   (`C05_code_keep`: stated on the SOURCE rows, not on the model's value ids).
   No hypothesis is added to those of (A); both halves compose as they are.                            *)
From Coq Require Import ZArith Bool List String Lia.
From SSJ Require Import F64 PyNum HelperGen ValidationGen Filters Api Matcher MatcherFacts MatcherChunks
     Projection ProjSpec ProjectionFacts IndexPyFacts JoinGenFacts SplitFacts Frame WrapperGen MatcherGen
     WrapperRefineFrame WrapperRefineCore FilterPairRefineBase MatcherRefineBase MatcherRefineLoop MatcherRefineSplit
     MatcherRefinePar MatcherRefineChunks MatcherRefine MatcherRefineBridge MatcherRefineEnd.
Import ListNotations.
Open Scope Z_scope.

(* ---- lookups in the model's table built from the source rows ---- *)
Lemma enum_from_In {A} (d : A) (l : list A) : forall s i, (i < List.length l)%nat ->
  In ((s + i)%nat, nth i l d) (enum_from s l).
Proof.
  induction l as [|x l IH]; intros s i Hi; [cbn in Hi; lia|]. cbn [enum_from].
  destruct i as [|i]; [left; now rewrite Nat.add_0_r|].
  right. replace (s + S i)%nat with (S s + i)%nat by lia. apply IH. cbn in Hi. lia.
Qed.

Lemma src_mrows_keys cols key val rows kz :
  map fst (src_mrows cols key val rows kz) = map (fun row => kz (cellv cols row key)) rows.
Proof.
  unfold src_mrows. rewrite map_map. cbn [fst]. rewrite <- (enum_from_snd rows 0%nat) at 2. now rewrite map_map.
Qed.

Lemma src_lookup cols key val rows kz row :
  NoDup (map (fun row => kz (cellv cols row key)) rows) -> In row rows ->
  exists i : nat, nth i rows [] = row /\
    lookup (kz (cellv cols row key)) (src_mrows cols key val rows kz)
    = Some (if cell_missing (cellv cols row val) then None else Some (Z.of_nat i)).
Proof.
  intros Hnd Hin. destruct (In_nth rows row [] Hin) as (i & Hi & En). exists i. split; [exact En|].
  apply lookup_spec; [rewrite src_mrows_keys; exact Hnd|].
  unfold src_mrows. apply in_map_iff. exists (i, row). split; [reflexivity|].
  rewrite <- En. exact (enum_from_In [] rows 0%nat i Hi).
Qed.

Section CodeMatcher.
  Variables (c : pcase) (cc : list string) (clk crk : string).
  Variables (lsrc rsrc csrc : list (list pyval)).
  Variables (op : string) (cf : pyval -> pyval -> pyval) (am : bool) (t tokv showp : pyval) (njobs cpus : Z).
  Variables (tokenize : pyval -> pyval) (sim_fn : pyval -> pyval -> pyval).
  Variables (kz : pyval -> Z) (zk : Z -> pyval).

  (* the hypotheses of MatcherRefineEnd.End2End, verbatim *)
  Hypothesis Hwf : well_formed c.
  Hypothesis Hclk : In clk cc.
  Hypothesis Hcrk : In crk cc.
  Hypothesis Hlsrc : forall row, In row lsrc -> List.length row = List.length (p_lcols c) /\ row_ok row.
  Hypothesis Hrsrc : forall row, In row rsrc -> List.length row = List.length (p_rcols c) /\ row_ok row.
  Hypothesis Hcsrc : forall row, In row csrc -> List.length row = List.length cc /\ row_ok row.
  Hypothesis Hvout : is_exc (validate_output_attrs (py_opt_strs (p_lout c)) (py_strs (p_lcols c))
                                                   (py_opt_strs (p_rout c)) (py_strs (p_rcols c))) = false.
  Hypothesis Hop : comp_op_map op = Some cf.
  Hypothesis Htokv : is_exc tokv = false.
  Hypothesis Hn : Z.of_nat (List.length csrc) < 2^31.
  Hypothesis HndL : NoDup (map (fun row => kz (lkeyc c row)) lsrc).
  Hypothesis HndR : NoDup (map (fun row => kz (rkeyc c row)) rsrc).
  Hypothesis HkzL : forall row v, In row lsrc -> In v (map (lkeyc c) lsrc ++ map (clkc cc clk) csrc) ->
    pv_eqb (lkeyc c row) v = (kz (lkeyc c row) =? kz v).
  Hypothesis HkzR : forall row v, In row rsrc -> In v (map (rkeyc c) rsrc ++ map (crkc cc crk) csrc) ->
    pv_eqb (rkeyc c row) v = (kz (rkeyc c row) =? kz v).
  Hypothesis Hzk : forall v, In v (map (lkeyc c) lsrc ++ map (rkeyc c) rsrc ++ map (clkc cc clk) csrc ++ map (crkc cc crk) csrc) ->
    zk (kz v) = v.
  Hypothesis Hfound : forall crow, In crow csrc ->
    In (kz (clkc cc clk crow)) (map (fun row => kz (lkeyc c row)) lsrc) /\
    In (kz (crkc cc crk crow)) (map (fun row => kz (rkeyc c row)) rsrc).
  Hypothesis HscalL : forall row, In row lsrc -> scalar (lvalc c row).
  Hypothesis HscalR : forall row, In row rsrc -> scalar (rvalc c row).
  Hypothesis HtokL : m_tokb tokv = true -> forall row, In row lsrc -> cell_missing (lvalc c row) = false ->
    is_exc (tokenize (lvalc c row)) = false.
  Hypothesis HtokR : m_tokb tokv = true -> forall row, In row rsrc -> cell_missing (rvalc c row) = false ->
    is_exc (tokenize (rvalc c row)) = false.
  Hypothesis Hsim : forall lrow rrow, In lrow lsrc -> In rrow rsrc ->
    cell_missing (lvalc c lrow) = false -> cell_missing (rvalc c rrow) = false ->
    is_exc (sim_fn (e_tk tokv tokenize (lvalc c lrow)) (e_tk tokv tokenize (rvalc c rrow))) = false /\
    is_exc (cf (sim_fn (e_tk tokv tokenize (lvalc c lrow)) (e_tk tokv tokenize (rvalc c rrow))) t) = false.

  Definition cm_sim : Z -> Z -> pyval := e_sim c lsrc rsrc tokv tokenize sim_fn.
  Definition cm_L : list mrow := e_L c lsrc kz.
  Definition cm_R : list mrow := e_R c rsrc kz.
  Definition cm_cand : list crow := e_cand cc clk crk csrc kz.
  Definition cm_keep : crow -> bool := keep cm_sim t op am cm_L cm_R.
  Definition cm_call : pyval :=
    apply_matcher_rows (sframe cc csrc) (PStr clk) (PStr crk) (sframe (p_lcols c) lsrc) (sframe (p_rcols c) rsrc)
      (PStr (p_lkey c)) (PStr (p_rkey c)) (PStr (p_ljoin c)) (PStr (p_rjoin c)) tokv t (PStr op) (PBool am)
      (py_opt_strs (p_lout c)) (py_opt_strs (p_rout c)) (PStr (p_lpre c)) (PStr (p_rpre c)) (PBool (p_score c))
      (PInt njobs) showp (PInt cpus) tokenize sim_fn.

  (* C05 (+ C10 for n_jobs): the returned frame is, IN ORDER, the projection of the candidate rows that
     satisfy the predicate -- for every n_jobs / cpu count *)
  Theorem C05_code_apply_matcher_rows :
    cm_call = sframe (match csrc with [] => cc | _ => header_spec c end)
                (map (e_proj c lsrc rsrc kz zk)
                     (map (out cm_sim (p_score c) cm_L cm_R) (filter cm_keep cm_cand))).
  Proof using All.
    destruct (apply_matcher_rows_end_to_end c cc clk crk lsrc rsrc csrc op cf am t tokv showp njobs cpus tokenize
                sim_fn kz zk Hwf Hclk Hcrk Hlsrc Hrsrc Hcsrc Hvout Hop Htokv Hn HndL HndR HkzL HkzR Hzk Hfound
                HscalL HscalR HtokL HtokR Hsim) as (rows & EM & EW).
    fold cm_call in EW. rewrite EW. f_equal. f_equal.
    rewrite apply_matcher_rows_b in EM.
    - injection EM as <-. reflexivity.
    - unfold e_cand. rewrite map_length. exact Hn.
  Qed.

  (* the predicate, on the source rows of a candidate row's two keys *)
  Theorem C05_code_keep (crow lrow rrow : list pyval) :
    In lrow lsrc -> In rrow rsrc ->
    kz (lkeyc c lrow) = kz (clkc cc clk crow) -> kz (rkeyc c rrow) = kz (crkc cc crk crow) ->
    cm_keep (nth 0 crow PNone, kz (clkc cc clk crow), kz (crkc cc crk crow))
    = if cell_missing (lvalc c lrow) || cell_missing (rvalc c rrow) then am
      else cmp_op op (sim_fn (e_tk tokv tokenize (lvalc c lrow)) (e_tk tokv tokenize (rvalc c rrow))) t.
  Proof using HndL HndR.
    intros Hl Hr El Er.
    destruct (src_lookup (p_lcols c) (p_lkey c) (p_ljoin c) lsrc kz lrow HndL Hl) as (i & Ei & Li).
    destruct (src_lookup (p_rcols c) (p_rkey c) (p_rjoin c) rsrc kz rrow HndR Hr) as (j & Ej & Lj).
    unfold cm_keep, keep, cm_L, cm_R, e_L, e_R. unfold lkeyc in El. unfold rkeyc in Er.
    rewrite <- El, <- Er, Li, Lj. fold (lvalc c lrow) (rvalc c rrow).
    destruct (cell_missing (lvalc c lrow)); [reflexivity|].
    destruct (cell_missing (rvalc c rrow)); [reflexivity|]. cbn [orb].
    unfold cm_sim, e_sim. rewrite !Nat2Z.id, Ei, Ej. reflexivity.
  Qed.

  (* every row of the candidate set has such source rows (no KeyError), so the two statements together
     characterise the output completely *)
  Lemma C05_code_sources crow : In crow csrc ->
    exists lrow rrow, In lrow lsrc /\ In rrow rsrc /\
      kz (lkeyc c lrow) = kz (clkc cc clk crow) /\ kz (rkeyc c rrow) = kz (crkc cc crk crow).
  Proof using Hfound.
    intros Hc. destruct (Hfound crow Hc) as [H1 H2].
    apply in_map_iff in H1. destruct H1 as (lrow & E1 & Hl). apply in_map_iff in H2. destruct H2 as (rrow & E2 & Hr).
    exists lrow, rrow. repeat split; assumption.
  Qed.

  (* the _id column of the result: the _ids of the kept candidate rows, in order *)
  Corollary C05_code_kept_rows :
    map (fun r : pyval * Z * Z * pyval => fst (fst (fst r)))
        (map (out cm_sim (p_score c) cm_L cm_R) (filter cm_keep cm_cand))
    = map (fun cr : crow => fst (fst cr)) (filter cm_keep cm_cand).
  Proof using Hfound.
    unfold cm_keep. rewrite <- (matcher_rows cm_sim t op am (p_score c) cm_L cm_R cm_cand).
    apply matcher_ids. intros cr Hcr.
    unfold cm_cand, e_cand in Hcr. apply in_map_iff in Hcr. destruct Hcr as (crow & <- & Hc).
    destruct (Hfound crow Hc) as [H1 H2]. split; cbn [fst snd].
    - unfold cm_L, e_L. rewrite src_mrows_keys. exact H1.
    - unfold cm_R, e_R. rewrite src_mrows_keys. exact H2.
  Qed.
End CodeMatcher.

Print Assumptions C05_code_apply_matcher_rows.
Print Assumptions C05_code_keep.
Print Assumptions C05_code_kept_rows.
