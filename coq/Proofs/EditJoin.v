(* Property C03 on the model: the edit-distance join core `ed_core` (Model/Joins.v) is total,
   sound (the reported score is the Levenshtein distance and satisfies the comparison), reports
   each pair once, and is complete for pairs that share a q-gram (under the q-gram count filter,
   which holds for q-gram bags by Proofs/QgramFacts.v).  Integers and lists only (axiom-free). *)
From Coq Require Import ZArith Bool List String Lia Sorted SpecFloat Arith.
From SSJ Require Import F64 PyNum FilterUtilsGen HelperGen TokenOrdering Filters Lev Qgram Joins
                        Prefix BagFacts LevFacts QgramFacts OrderingFacts PyFacts PositionSafe
                        EditArith.
Import ListNotations.
Open Scope string_scope.
Open Scope Z_scope.

(* ------------------------------------------------------------------ *)
(* generic list facts                                                  *)

Lemma opt_concat_flat {A B : Type} (f : A -> option (list B)) (g : A -> list B) l :
  (forall x, In x l -> f x = Some (g x)) -> opt_concat (map f l) = Some (flat_map g l).
Proof.
  induction l as [|a l IH]; intros H; [reflexivity|].
  cbn [map opt_concat flat_map]. rewrite (H a (or_introl eq_refl)).
  rewrite IH by (intros x Hx; apply H; right; exact Hx). reflexivity.
Qed.

Lemma combine_seq_map {A B : Type} (g : A -> B) (l : list A) : forall s,
  combine (seq s (List.length (map g l))) (map g l)
  = map (fun cx : nat * A => (fst cx, g (snd cx))) (combine (seq s (List.length l)) l).
Proof. induction l as [|a l IH]; intros s; [reflexivity|]. simpl. f_equal. apply IH. Qed.

Lemma enumerate_map {A B : Type} (g : A -> B) (l : list A) :
  enumerate (map g l) = map (fun cx : nat * A => (fst cx, g (snd cx))) (enumerate l).
Proof. apply combine_seq_map. Qed.

Lemma In_combine_seq {A : Type} (l : list A) : forall s c x,
  In (c, x) (combine (seq s (List.length l)) l) <-> (s <= c)%nat /\ nth_error l (c - s) = Some x.
Proof.
  induction l as [|a l IH]; intros s c x.
  - simpl. split; [tauto|]. intros [_ H]. destruct (c - s)%nat; discriminate.
  - cbn [List.length seq combine In]. rewrite IH. split.
    + intros [E|[Hle Hn]].
      * injection E as <- <-. split; [lia|]. rewrite Nat.sub_diag. reflexivity.
      * split; [lia|]. replace (c - s)%nat with (S (c - S s)) by lia. exact Hn.
    + intros [Hle Hn]. destruct (Nat.eq_dec s c) as [->|Hne].
      * rewrite Nat.sub_diag in Hn. simpl in Hn. injection Hn as ->. left; reflexivity.
      * right. split; [lia|]. replace (c - s)%nat with (S (c - S s)) in Hn by lia. exact Hn.
Qed.

Lemma enumerate_In {A : Type} (l : list A) c x : In (c, x) (enumerate l) <-> nth_error l c = Some x.
Proof.
  unfold enumerate. rewrite In_combine_seq, Nat.sub_0_r. split; [tauto|]. intros H; split; [lia|exact H].
Qed.

Lemma map_fst_combine_seq {A : Type} (l : list A) : forall s,
  map fst (combine (seq s (List.length l)) l) = seq s (List.length l).
Proof. induction l as [|a l IH]; intros s; [reflexivity|]. simpl. f_equal. apply IH. Qed.

Lemma enumerate_NoDup {A : Type} (l : list A) : NoDup (enumerate l).
Proof.
  apply (NoDup_map_inv fst). unfold enumerate. rewrite map_fst_combine_seq. apply seq_NoDup.
Qed.

Lemma enumerate_fst_inj {A : Type} (l : list A) a b :
  In a (enumerate l) -> In b (enumerate l) -> fst a = fst b -> a = b.
Proof.
  destruct a as [c x], b as [c' x']. cbn [fst]. intros Ha Hb <-.
  apply enumerate_In in Ha, Hb. congruence.
Qed.

Lemma NoDup_app_disj {A : Type} (l1 l2 : list A) :
  NoDup l1 -> NoDup l2 -> (forall x, In x l1 -> In x l2 -> False) -> NoDup (l1 ++ l2).
Proof.
  induction l1 as [|a l1 IH]; intros H1 H2 Hd; [exact H2|].
  inversion H1 as [|? ? Hna Hnd]; subst. simpl. constructor.
  - intro Hin. apply in_app_or in Hin. destruct Hin as [Hin|Hin]; [contradiction|].
    apply (Hd a); [left; reflexivity|exact Hin].
  - apply IH; [exact Hnd|exact H2|]. intros x Hx. apply Hd. right; exact Hx.
Qed.

Lemma NoDup_flat_map_disj {A B : Type} (f : A -> list B) (l : list A) :
  NoDup l -> (forall a, In a l -> NoDup (f a)) ->
  (forall a a' b, In a l -> In a' l -> In b (f a) -> In b (f a') -> a = a') ->
  NoDup (flat_map f l).
Proof.
  induction l as [|a l IH]; intros Hnd Hf Hd; [constructor|].
  inversion Hnd as [|? ? Hna Hnd']; subst. cbn [flat_map]. apply NoDup_app_disj.
  - apply Hf. left; reflexivity.
  - apply IH; [exact Hnd'| |].
    + intros x Hx. apply Hf. right; exact Hx.
    + intros x x' b Hx Hx'. apply Hd; right; assumption.
  - intros b Hb Hb'. apply in_flat_map in Hb'. destruct Hb' as [a' [Ha' Hb']].
    assert (a = a') by (apply (Hd a a' b); [left; reflexivity|right; exact Ha'|exact Hb|exact Hb']).
    subst a'. contradiction.
Qed.

Lemma map_flat_map {A B C : Type} (g : B -> C) (f : A -> list B) (l : list A) :
  map g (flat_map f l) = flat_map (fun x => map g (f x)) l.
Proof. induction l as [|a l IH]; [reflexivity|]. cbn [flat_map]. rewrite map_app, IH. reflexivity. Qed.

Lemma list_eqbZ_eq : forall a b, list_eqbZ a b = true -> a = b.
Proof.
  induction a as [|x a IH]; intros [|y b] H; simpl in H; try discriminate; [reflexivity|].
  apply andb_true_iff in H. destruct H as [H1 H2]. apply Z.eqb_eq in H1. f_equal; auto.
Qed.

Lemma list_eqbZ_refl : forall a, list_eqbZ a a = true.
Proof. induction a as [|x a IH]; [reflexivity|]. simpl. rewrite Z.eqb_refl. exact IH. Qed.

(* ------------------------------------------------------------------ *)
(* comparison operators of the edit-distance join                      *)

Definition ed_op (op : string) : Prop := op = "<=" \/ op = "<" \/ op = "=".

Lemma cmp_op_le a b : cmp_op "<=" a b = py_truth (py_le a b). Proof. reflexivity. Qed.
Lemma cmp_op_lt a b : cmp_op "<" a b = py_truth (py_lt a b). Proof. reflexivity. Qed.
Lemma cmp_op_eq a b : cmp_op "=" a b = py_truth (py_eq a b). Proof. reflexivity. Qed.

Lemma cmp_op_int_le op a tau : ed_op op -> cmp_op op (PInt a) (PInt tau) = true -> a <= tau.
Proof.
  intros [ -> | [ -> | -> ] ].
  - rewrite cmp_op_le, py_le_int. intros H. apply Z.leb_le in H. exact H.
  - rewrite cmp_op_lt, py_lt_int. intros H. apply Z.ltb_lt in H. lia.
  - rewrite cmp_op_eq, py_eq_int. intros H. apply Z.eqb_eq in H. lia.
Qed.

(* ------------------------------------------------------------------ *)
(* the model as a comprehension                                        *)

Definition erow := (list Z * list Z)%type.         (* (code points, q-gram bag) *)

Definition ed_dist (l r : erow) : pyval :=
  if list_eqbZ (fst l) (fst r) then PFloat (S754_zero false) else PInt (lev (fst l) (fst r)).

Definition ed_all (L R : list erow) : list Z := (List.concat (map snd L) ++ List.concat (map snd R))%list.

Definition ed_pref (q tau : Z) (all : list Z) (l r : erow) : bool :=
  share (firstn (edpl q tau (order all (snd r))) (order all (snd r)))
        (firstn (edpl q tau (order all (snd l))) (order all (snd l))).

Definition ed_lenf (tau : Z) (l r : erow) : bool :=
  (len (fst r) - tau <=? len (fst l)) && (len (fst l) <=? len (fst r) + tau).

Definition ed_ok (q tau : Z) (op : string) (all : list Z) (l r : erow) : bool :=
  ed_pref q tau all l r && ed_lenf tau l r && cmp_op op (ed_dist l r) (PInt tau).

Definition ed_cells (q tau : Z) (op : string) (all : list Z) (L : list erow) (j : nat) (r : erow)
  : list triple :=
  flat_map (fun cx : nat * erow =>
              if ed_ok q tau op all (snd cx) r then [(fst cx, j, ed_dist (snd cx) r)] else [])
           (enumerate L).

Lemma ed_core_eq q tau op L R : 0 <= tau -> 1 <= q ->
  ed_core q tau op L R =
  Some (flat_map (fun jy : nat * erow => ed_cells q tau op (ed_all L R) L (fst jy) (snd jy))
                 (enumerate R)).
Proof.
  intros Ht Hq. unfold ed_core. cbv zeta. fold (edp q tau). fold (ed_all L R).
  apply opt_concat_flat. intros [j yr] _. cbv beta iota.
  rewrite enumerate_map, map_map. unfold ed_cells. apply opt_concat_flat. intros [c l] _.
  cbn [fst snd]. rewrite prefix_cand_ed by assumption.
  unfold ed_ok, ed_pref, ed_lenf, ed_dist.
  destruct (share _ _); [|reflexivity]. cbn [andb].
  destruct ((_ <=? _) && (_ <=? _)); [|reflexivity].
  destruct (cmp_op _ _ _); reflexivity.
Qed.

Theorem ed_core_total q tau op L R : 0 <= tau -> 1 <= q -> exists res, ed_core q tau op L R = Some res.
Proof. intros Ht Hq. eexists. apply ed_core_eq; assumption. Qed.

Lemma ed_core_In q tau op L R res : 0 <= tau -> 1 <= q ->
  ed_core q tau op L R = Some res ->
  forall c j d,
  In (c, j, d) res <->
  exists l r, nth_error L c = Some l /\ nth_error R j = Some r /\
              ed_ok q tau op (ed_all L R) l r = true /\ d = ed_dist l r.
Proof.
  intros Ht Hq Hres c j d. rewrite ed_core_eq in Hres by assumption. injection Hres as <-.
  rewrite in_flat_map. split.
  - intros [[j' r] [Hr Hin]]. cbn [fst snd] in Hin. unfold ed_cells in Hin.
    apply in_flat_map in Hin. destruct Hin as [[c' l] [Hl Hin]]. cbn [fst snd] in Hin.
    destruct (ed_ok q tau op (ed_all L R) l r) eqn:Eok; [|destruct Hin].
    destruct Hin as [E|[]]. injection E as <- <- <-.
    apply enumerate_In in Hr, Hl. exists l, r. auto.
  - intros [l [r [Hl [Hr [Hok ->]]]]]. exists (j, r). split; [apply enumerate_In; exact Hr|].
    cbn [fst snd]. unfold ed_cells. apply in_flat_map. exists (c, l).
    split; [apply enumerate_In; exact Hl|]. cbn [fst snd]. rewrite Hok. left; reflexivity.
Qed.

(* ------------------------------------------------------------------ *)
(* soundness and uniqueness                                            *)

Theorem ed_core_sound q tau op L R res : 0 <= tau -> 1 <= q ->
  ed_core q tau op L R = Some res ->
  forall c j d, In (c, j, d) res ->
  exists l r, nth_error L c = Some l /\ nth_error R j = Some r /\
              d = (if list_eqbZ (fst l) (fst r) then PFloat (S754_zero false)
                   else PInt (lev (fst l) (fst r))) /\
              cmp_op op d (PInt tau) = true.
Proof.
  intros Ht Hq Hres c j d Hin. apply (ed_core_In q tau op L R res Ht Hq Hres) in Hin.
  destruct Hin as [l [r [Hl [Hr [Hok ->]]]]]. exists l, r.
  unfold ed_ok in Hok. apply andb_true_iff in Hok. destruct Hok as [_ Hc].
  repeat split; assumption.
Qed.

(* the reported integer IS the Levenshtein distance of the specification *)
Corollary ed_core_sound_spec q tau op L R res : 0 <= tau -> 1 <= q -> ed_op op ->
  ed_core q tau op L R = Some res ->
  forall c j d, In (c, j, d) res ->
  exists l r, nth_error L c = Some l /\ nth_error R j = Some r /\
              (Z.of_nat (lev_spec (fst l) (fst r)) <= tau) /\
              (d = PInt (Z.of_nat (lev_spec (fst l) (fst r))) \/
               (fst l = fst r /\ d = PFloat (S754_zero false))).
Proof.
  intros Ht Hq Hop Hres c j d Hin.
  destruct (ed_core_sound q tau op L R res Ht Hq Hres c j d Hin) as [l [r [Hl [Hr [Hd Hc]]]]].
  exists l, r. split; [exact Hl|]. split; [exact Hr|].
  destruct (list_eqbZ (fst l) (fst r)) eqn:E.
  - apply list_eqbZ_eq in E. rewrite E, lev_spec_refl. split; [simpl; lia|]. right. auto.
  - subst d. rewrite lev_dp_correct in *. split; [|left; reflexivity].
    apply (cmp_op_int_le op _ _ Hop Hc).
Qed.

Lemma ed_cells_keys q tau op all L j r :
  NoDup (map fst (ed_cells q tau op all L j r)) /\
  (forall b, In b (map fst (ed_cells q tau op all L j r)) -> snd b = j).
Proof.
  unfold ed_cells. rewrite map_flat_map. split.
  - apply NoDup_flat_map_disj.
    + apply enumerate_NoDup.
    + intros a _. destruct (ed_ok q tau op all (snd a) r); simpl; repeat constructor. intros [].
    + intros a a' b Ha Ha' Hb Hb'. apply (enumerate_fst_inj L a a' Ha Ha').
      destruct (ed_ok q tau op all (snd a) r); [|destruct Hb].
      destruct (ed_ok q tau op all (snd a') r); [|destruct Hb'].
      destruct Hb as [<-|[]]. destruct Hb' as [E|[]]. cbn [fst] in E. congruence.
  - intros b Hb. apply in_flat_map in Hb. destruct Hb as [a [_ Hb]].
    destruct (ed_ok q tau op all (snd a) r); [|destruct Hb]. destruct Hb as [<-|[]]. reflexivity.
Qed.

Theorem ed_core_once q tau op L R res : 0 <= tau -> 1 <= q ->
  ed_core q tau op L R = Some res -> NoDup (map fst res).
Proof.
  intros Ht Hq Hres. rewrite ed_core_eq in Hres by assumption. injection Hres as <-.
  rewrite map_flat_map. apply NoDup_flat_map_disj.
  - apply enumerate_NoDup.
  - intros a _. apply ed_cells_keys.
  - intros a a' b Ha Ha' Hb Hb'. apply (enumerate_fst_inj R a a' Ha Ha').
    cbv beta in Hb, Hb'.
    pose proof (proj2 (ed_cells_keys _ _ _ _ _ _ _) b Hb) as E1.
    pose proof (proj2 (ed_cells_keys _ _ _ _ _ _ _) b Hb') as E2.
    transitivity (snd b); [symmetry; exact E1|exact E2].
Qed.

(* a pair is reported with at most one score *)
Corollary ed_core_score_unique q tau op L R res : 0 <= tau -> 1 <= q ->
  ed_core q tau op L R = Some res ->
  forall c j d d', In (c, j, d) res -> In (c, j, d') res -> d = d'.
Proof.
  intros Ht Hq Hres c j d d' H1 H2.
  apply (ed_core_In q tau op L R res Ht Hq Hres) in H1, H2.
  destruct H1 as [l [r [Hl [Hr [_ ->]]]]]. destruct H2 as [l' [r' [Hl' [Hr' [_ ->]]]]]. congruence.
Qed.

(* ------------------------------------------------------------------ *)
(* completeness                                                        *)

(* the q-gram count filter for one pair of rows *)
Definition cf (q : Z) (l r : erow) : Prop :=
  Z.max (len (snd l)) (len (snd r)) - q * lev (fst l) (fst r) <= Z.of_nat (ovl (snd l) (snd r)).

Lemma ed_dist_le op tau l r : ed_op op -> 0 <= tau ->
  cmp_op op (ed_dist l r) (PInt tau) = true -> 0 <= lev (fst l) (fst r) <= tau.
Proof.
  intros Hop Ht. unfold ed_dist. rewrite lev_dp_correct.
  destruct (list_eqbZ (fst l) (fst r)) eqn:E.
  - intros _. apply list_eqbZ_eq in E. rewrite E, lev_spec_refl. simpl. lia.
  - intros H. apply (cmp_op_int_le op _ _ Hop) in H. lia.
Qed.

Lemma ed_lenf_ok tau l r : lev (fst l) (fst r) <= tau -> ed_lenf tau l r = true.
Proof.
  rewrite lev_dp_correct. intros H. unfold ed_lenf, len.
  pose proof (lev_spec_len_diff (fst l) (fst r)) as [H1 H2].
  apply andb_true_iff. split; apply Z.leb_le; lia.
Qed.

Lemma in_ed_all_l L R c l w : nth_error L c = Some l -> In w (snd l) -> In w (ed_all L R).
Proof.
  intros Hl Hw. unfold ed_all. apply in_or_app. left. apply in_concat. exists (snd l).
  split; [|exact Hw]. apply in_map. eapply nth_error_In. exact Hl.
Qed.

Lemma in_ed_all_r L R j r w : nth_error R j = Some r -> In w (snd r) -> In w (ed_all L R).
Proof.
  intros Hr Hw. unfold ed_all. apply in_or_app. right. apply in_concat. exists (snd r).
  split; [|exact Hw]. apply in_map. eapply nth_error_In. exact Hr.
Qed.

Lemma len_order all x : (forall w, In w x -> In w all) -> len (order all x) = len x.
Proof. intros H. unfold len. rewrite order_length by exact H. reflexivity. Qed.

(* the prefix test in terms of the raw bags *)
Lemma ed_pref_complete q tau all l r : 0 <= tau -> 1 <= q ->
  (forall w, In w (snd l) -> In w all) -> (forall w, In w (snd r) -> In w all) ->
  Z.max (len (snd l)) (len (snd r)) - q * tau <= Z.of_nat (ovl (snd l) (snd r)) ->
  share (snd l) (snd r) = true ->
  ed_pref q tau all l r = true.
Proof.
  intros Ht Hq Hl Hr Hcf Hsh. unfold ed_pref. rewrite share_sym.
  apply ed_prefix_share; try assumption; try apply order_sorted_le.
  - rewrite !len_order, order_ovl by assumption. exact Hcf.
  - rewrite order_ovl by assumption. apply share_ovl. exact Hsh.
Qed.

Lemma share_order all a b : share (order all a) (order all b) = true -> share a b = true.
Proof.
  rewrite !share_true_iff. intros [v [Ha Hb]].
  apply order_In in Ha, Hb. destruct Ha as [w [Hwa [Hall E]]]. destruct Hb as [w' [Hwb [Hall' E']]].
  assert (w = w') by (apply (rank_inj all); [assumption|assumption|congruence]). subst w'.
  exists w. auto.
Qed.

Lemma ed_pref_share q tau all l r : ed_pref q tau all l r = true -> share (snd l) (snd r) = true.
Proof.
  unfold ed_pref. intros H. apply share_firstn_l in H. rewrite share_sym in H.
  apply share_firstn_l in H. apply share_order in H. exact H.
Qed.

Theorem ed_core_complete q tau op L R res : 0 <= tau -> 1 <= q -> ed_op op ->
  ed_core q tau op L R = Some res ->
  forall c j l r, nth_error L c = Some l -> nth_error R j = Some r ->
  cf q l r ->
  share (snd l) (snd r) = true ->
  cmp_op op (ed_dist l r) (PInt tau) = true ->
  In (c, j, ed_dist l r) res.
Proof.
  intros Ht Hq Hop Hres c j l r Hl Hr Hcf Hsh Hc.
  apply (ed_core_In q tau op L R res Ht Hq Hres). exists l, r.
  split; [exact Hl|]. split; [exact Hr|]. split; [|reflexivity].
  pose proof (ed_dist_le op tau l r Hop Ht Hc) as Hlev.
  unfold ed_ok. rewrite Hc, (ed_lenf_ok tau l r) by lia. rewrite !andb_true_r.
  apply ed_pref_complete; try assumption.
  - intros w. apply (in_ed_all_l L R c l w Hl).
  - intros w. apply (in_ed_all_r L R j r w Hr).
  - unfold cf in Hcf. assert (q * lev (fst l) (fst r) <= q * tau) by (apply Z.mul_le_mono_nonneg_l; lia).
    lia.
Qed.

(* the result is characterised without any reference to the token order *)
Theorem ed_core_char q tau op L R res : 0 <= tau -> 1 <= q -> ed_op op ->
  (forall c j l r, nth_error L c = Some l -> nth_error R j = Some r -> cf q l r) ->
  ed_core q tau op L R = Some res ->
  forall c j d,
  In (c, j, d) res <->
  exists l r, nth_error L c = Some l /\ nth_error R j = Some r /\
              share (snd l) (snd r) = true /\
              cmp_op op (ed_dist l r) (PInt tau) = true /\ d = ed_dist l r.
Proof.
  intros Ht Hq Hop Hcf Hres c j d. split.
  - intros Hin. apply (ed_core_In q tau op L R res Ht Hq Hres) in Hin.
    destruct Hin as [l [r [Hl [Hr [Hok ->]]]]]. exists l, r.
    unfold ed_ok in Hok. apply andb_true_iff in Hok. destruct Hok as [Hok Hc].
    apply andb_true_iff in Hok. destruct Hok as [Hp _].
    repeat split; try assumption. eapply ed_pref_share. exact Hp.
  - intros [l [r [Hl [Hr [Hsh [Hc ->]]]]]].
    apply (ed_core_complete q tau op L R res Ht Hq Hop Hres c j l r Hl Hr); try assumption.
    apply (Hcf c j l r Hl Hr).
Qed.

(* consequence used for n_jobs independence (C10): membership does not depend on which other
   rows are in the chunk R (nor on L's other rows) *)
Corollary ed_core_chunk_indep q tau op L R R' res res' : 0 <= tau -> 1 <= q -> ed_op op ->
  (forall c j l r, nth_error L c = Some l -> nth_error R j = Some r -> cf q l r) ->
  (forall c j l r, nth_error L c = Some l -> nth_error R' j = Some r -> cf q l r) ->
  ed_core q tau op L R = Some res -> ed_core q tau op L R' = Some res' ->
  forall c j j' d, nth_error R j = nth_error R' j' -> (In (c, j, d) res <-> In (c, j', d) res').
Proof.
  intros Ht Hq Hop Hcf Hcf' Hres Hres' c j j' d Hjj.
  rewrite (ed_core_char q tau op L R res Ht Hq Hop Hcf Hres).
  rewrite (ed_core_char q tau op L R' res' Ht Hq Hop Hcf' Hres').
  rewrite Hjj. tauto.
Qed.

(* ------------------------------------------------------------------ *)
(* (C) rows built by a q-gram tokenizer and an injective interning     *)

Definition qrow_ok (tk : qgram_tok) (f : Z -> Z) (row : erow) : Prop :=
  snd row = map f (qgram_bag tk (fst row)).

Definition qrow (tk : qgram_tok) (f : Z -> Z) (s : list Z) : erow := (s, map f (qgram_bag tk s)).

Lemma qrow_is_ok tk f s : qrow_ok tk f (qrow tk f s).
Proof. reflexivity. Qed.

Lemma ovl_map_inj (f : Z -> Z) x y : (forall a b, f a = f b -> a = b) ->
  ovl (map f x) (map f y) = ovl x y.
Proof.
  intros Hinj. unfold ovl.
  rewrite (binter_map_inj f (fun _ => True)); [apply map_length| |auto|auto].
  intros a b _ _. apply Hinj.
Qed.

Lemma qrow_cf tk f l r : (forall a b, f a = f b -> a = b) -> 1 <= qq tk ->
  qrow_ok tk f l -> qrow_ok tk f r -> cf (qq tk) l r.
Proof.
  intros Hinj Hq Hl Hr. unfold cf, len. rewrite Hl, Hr, !map_length, (ovl_map_inj f _ _ Hinj).
  apply count_filter_lev. exact Hq.
Qed.

Lemma Forall_nth_error {A : Type} (P : A -> Prop) l c x :
  Forall P l -> nth_error l c = Some x -> P x.
Proof. intros H Hn. rewrite Forall_forall in H. apply H. eapply nth_error_In. exact Hn. Qed.

Theorem ed_core_char_qgram tk f tau op L R res :
  (forall a b, f a = f b -> a = b) -> 0 <= tau -> 1 <= qq tk -> ed_op op ->
  Forall (qrow_ok tk f) L -> Forall (qrow_ok tk f) R ->
  ed_core (qq tk) tau op L R = Some res ->
  forall c j d,
  In (c, j, d) res <->
  exists l r, nth_error L c = Some l /\ nth_error R j = Some r /\
              share (qgram_bag tk (fst l)) (qgram_bag tk (fst r)) = true /\
              cmp_op op (ed_dist l r) (PInt tau) = true /\ d = ed_dist l r.
Proof.
  intros Hinj Ht Hq Hop HL HR Hres c j d.
  assert (Hcf : forall c j l r, nth_error L c = Some l -> nth_error R j = Some r -> cf (qq tk) l r).
  { intros c' j' l r Hl Hr. apply (qrow_cf tk f); try assumption.
    - apply (Forall_nth_error _ _ _ _ HL Hl).
    - apply (Forall_nth_error _ _ _ _ HR Hr). }
  rewrite (ed_core_char (qq tk) tau op L R res Ht Hq Hop Hcf Hres).
  split; intros [l [r [Hl [Hr [Hsh H]]]]]; exists l, r; (split; [exact Hl|]; split; [exact Hr|]);
    (split; [|exact H]);
    pose proof (Forall_nth_error _ _ _ _ HL Hl) as El; pose proof (Forall_nth_error _ _ _ _ HR Hr) as Er;
    unfold qrow_ok in El, Er.
  - rewrite El, Er in Hsh. apply share_ovl in Hsh. rewrite ovl_map_inj in Hsh by exact Hinj.
    apply share_ovl. exact Hsh.
  - rewrite El, Er. apply share_ovl. rewrite ovl_map_inj by exact Hinj. apply share_ovl. exact Hsh.
Qed.

(* ------------------------------------------------------------------ *)
(* (E) padded tokenizer: long enough strings within distance tau always share a q-gram *)

Lemma padded_share tk s t tau : 1 <= qq tk -> qpad tk = true -> 0 <= tau ->
  lev s t <= tau ->
  qq tk * tau - qq tk + 2 <= Z.max (len s) (len t) ->
  share (qgram_bag tk s) (qgram_bag tk t) = true.
Proof.
  intros Hq Hpad Ht Hlev Hlen. apply share_ovl.
  pose proof (count_filter_lev tk s t Hq) as Hcf.
  rewrite !qgram_bag_length, Hpad in Hcf by exact Hq.
  assert (qq tk * lev s t <= qq tk * tau) by (apply Z.mul_le_mono_nonneg_l; lia).
  unfold len in Hlen. lia.
Qed.

Theorem C03_padded tk f tau op L R res :
  (forall a b, f a = f b -> a = b) -> 0 <= tau -> 1 <= qq tk -> qpad tk = true -> ed_op op ->
  Forall (qrow_ok tk f) L -> Forall (qrow_ok tk f) R ->
  ed_core (qq tk) tau op L R = Some res ->
  forall c j l r, nth_error L c = Some l -> nth_error R j = Some r ->
  qq tk * tau - qq tk + 2 <= Z.max (len (fst l)) (len (fst r)) ->
  cmp_op op (ed_dist l r) (PInt tau) = true ->
  In (c, j, ed_dist l r) res.
Proof.
  intros Hinj Ht Hq Hpad Hop HL HR Hres c j l r Hl Hr Hlen Hc.
  apply (ed_core_char_qgram tk f tau op L R res Hinj Ht Hq Hop HL HR Hres). exists l, r.
  split; [exact Hl|]. split; [exact Hr|]. split; [|split; [exact Hc|reflexivity]].
  apply (padded_share tk _ _ tau Hq Hpad Ht); [|exact Hlen].
  apply (ed_dist_le op tau l r Hop Ht Hc).
Qed.

(* ------------------------------------------------------------------ *)
(* non-vacuity                                                         *)

Definition tk2 : qgram_tok := {| qq := 2; qpad := true; qpre := 35; qsuf := 36 |}.
Definition idZ (z : Z) : Z := z.
Definition s_abc : list Z := [97; 98; 99].
Definition s_abd : list Z := [97; 98; 100].
Definition s_xyz : list Z := [120; 121; 122].
Definition s_a : list Z := [97].
Definition s_b : list Z := [98].
Definition exL : list erow := map (qrow tk2 idZ) [s_abc; s_xyz; s_a].
Definition exR : list erow := map (qrow tk2 idZ) [s_abd; s_abc; s_b].

Example ed_core_ex :
  ed_core 2 1 "<=" exL exR = Some [(0%nat, 0%nat, PInt 1); (0%nat, 1%nat, PFloat (S754_zero false))].
Proof. vm_compute. reflexivity. Qed.

(* the hypotheses of C03_padded are satisfiable: "abc" / "abd", q = 2, tau = 1 *)
Example C03_padded_ex : exists res, ed_core 2 1 "<=" exL exR = Some res /\ In (0%nat, 0%nat, PInt 1) res.
Proof.
  destruct (ed_core_total 2 1 "<=" exL exR) as [res Hres]; [lia|lia|]. exists res. split; [exact Hres|].
  change (PInt 1) with (ed_dist (qrow tk2 idZ s_abc) (qrow tk2 idZ s_abd)).
  apply (C03_padded tk2 idZ 1 "<=" exL exR res); try (simpl; lia); try reflexivity.
  - intros a b H. exact H.
  - left; reflexivity.
  - repeat constructor.
  - repeat constructor.
  - exact Hres.
  - apply Z.leb_le. vm_compute. reflexivity.
Qed.

(* the side condition "share a q-gram" cannot be dropped: "a" / "b" are at distance 1 <= tau but
   have no common 2-gram (#a a$ vs #b b$) and the pair (2, 2) is not returned *)
Example ed_core_short_strings_missed :
  exists res, ed_core 2 1 "<=" exL exR = Some res /\
              lev s_a s_b = 1 /\ share (qgram_bag tk2 s_a) (qgram_bag tk2 s_b) = false /\
              forall d, ~ In (2%nat, 2%nat, d) res.
Proof.
  eexists. split; [apply ed_core_ex|]. split; [reflexivity|]. split; [vm_compute; reflexivity|].
  intros d [H|[H|[]]]; discriminate.
Qed.

Print Assumptions ed_core_total.
Print Assumptions ed_core_sound.
Print Assumptions ed_core_sound_spec.
Print Assumptions ed_core_once.
Print Assumptions ed_core_complete.
Print Assumptions ed_core_char.
Print Assumptions ed_core_chunk_indep.
Print Assumptions ed_core_char_qgram.
Print Assumptions C03_padded.
