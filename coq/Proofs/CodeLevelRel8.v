(* Code-level RELATIONAL property theorems, part 9: C07 (join = filter_tables ; apply_matcher) for the GENERATED
   overlap_join_rows.

   `MatcherLink`: the second half of CodeLevelRel6.C07_code_pipeline_jcd, made independent of the measure and of
     the kind of threshold: for ANY frame lhsF = sframe (header of the no-score case) (numbered rowsF) whose
     key-level view is sound for a filter_tables case on the tables of the join case jc (sound_spec: every row names
     a key of each table, once), whose rows are header-long and exception-free, the key-level view of the frame the
     GENERATED apply_matcher_rows returns on lhsF is the matcher stage  map (gpS jc m) (filter (kpS jc m) view(lhsF))
     (CodeLevelRel5.matcher_view_link).
   `C07_code_pipeline_overlap_join`: pipeline_spec between the view of the frame of the GENERATED overlap_join_rows
     (integer threshold T) and the view of the frame of the GENERATED apply_matcher_rows applied to the frame
     returned by the GENERATED Size/Prefix/Position filter_tables_rows with sim_measure_type "OVERLAP" and the same
     threshold T.  No residual hypothesis about the candidate frame (CodeLevelRel7.filter_tables_rows_frame_shaped);
     round_agrees is LawsPipe.round_agrees_overlap (integer scores).                                           *)
From Coq Require Import ZArith Bool List String Lia Permutation PeanoNat.
From SSJ Require Import F64 PyNum FilterUtilsGen HelperGen TokenOrderingGen ValidationGen IndexGen JoinGen
     TokenOrdering Measures Filters Joins Api Matcher MatcherFacts MatcherChunks JoinSpec MetaSpec
     Projection ProjSpec IndexPyFacts ProjectionFacts
     JoinGenFacts JoinGenLoop JoinRefine JoinRefineProj SplitFacts Frame WrapperGen FilterWrapperGen MatcherGen
     WrapperRefineFrame WrapperRefineMissing WrapperRefineCore WrapperRefineChunks WrapperRefine WrapperRefineClosed
     WrapperRefineApi WrapperRefineEnd WrapperBody WrapperApiLink WrapperEnd
     FilterWrapperRefineOverlap FilterWrapperRefine IndexGlue IndexGlueArith
     FilterPairRefineBase MatcherRefineBase MatcherRefineLoop MatcherRefineBridge MatcherRefineEnd
     OrderingFacts OverlapFacts OverlapMeasure ValidationFacts
     ApiLift ApiJoinBase ApiJoinPairs ApiJoinSpec ApiFilterTables ApiFilterClosed
     LawsBase LawsScore LawsSpec Laws LawsPipe ModelScores ModelArith ModelLaws ModelPipe
     CodeLevelBase CodeLevelJoins CodeLevelJoins2 CodeLevelFilters CodeLevelMatcher CodeLevelTight
     CodeLevelRelBase CodeLevelRelCalls CodeLevelRel CodeLevelRel4 CodeLevelRel5 CodeLevelRel6 CodeLevelRel7.
Import ListNotations.
Open Scope string_scope.
Open Scope list_scope.
Open Scope Z_scope.

(* ================================================================== apply_matcher on a sound candidate frame *)
Section MatcherLink.
  Variables (c : pcase) (lsrc rsrc : list (list pyval)).
  Variables (op : string) (am : bool) (t tokv : pyval) (m : string) (njM cpM : Z) (showpM : pyval).
  Variables (tokenizeM : pyval -> pyval) (simM : pyval -> pyval -> pyval).
  Variables (toks : pyval -> list Z) (cf : pyval -> pyval -> pyval) (kz : pyval -> Z) (zk : Z -> pyval).
  Variables (jc cfc : jcase) (k : fkind).
  Variable lhsF : pyval.

  Let cF : pcase := noscore_pcase c.
  Let cc : list string := header_spec cF.
  Let clk : string := (p_lpre c ++ p_lkey c)%string.
  Let crk : string := (p_rpre c ++ p_rkey c)%string.
  Let csrc : list (list pyval) := frame_rows_of lhsF.

  Definition pipe_frame_of : pyval :=
    apply_matcher_rows lhsF (PStr clk) (PStr crk) (sframe (p_lcols c) lsrc) (sframe (p_rcols c) rsrc)
      (PStr (p_lkey c)) (PStr (p_rkey c)) (PStr (p_ljoin c)) (PStr (p_rjoin c)) tokv t (PStr op) (PBool am)
      (py_opt_strs (p_lout c)) (py_opt_strs (p_rout c)) (PStr (p_lpre c)) (PStr (p_rpre c)) (PBool (p_score c))
      (PInt njM) showpM (PInt cpM) tokenizeM simM.

  (* the tables / the projection case *)
  Hypothesis Hwf : well_formed c.
  Hypothesis Hsc : p_score c = true.
  Hypothesis Hl : forall row, In row lsrc -> List.length row = List.length (p_lcols c) /\ ProjSpec.row_ok row.
  Hypothesis Hr : forall row, In row rsrc -> List.length row = List.length (p_rcols c) /\ ProjSpec.row_ok row.
  Hypothesis Hvout : is_exc (validate_output_attrs (py_opt_strs (p_lout c)) (py_strs (p_lcols c))
                                                   (py_opt_strs (p_rout c)) (py_strs (p_rcols c))) = false.
  Hypothesis Hop : comp_op_map op = Some cf.
  Hypothesis Hlow : lower_op op.
  Hypothesis Hid : ~ In "_id" (mv_header c).
  Hypothesis HndL : NoDup (map (fun row => kz (lkeyc c row)) lsrc).
  Hypothesis HndR : NoDup (map (fun row => kz (rkeyc c row)) rsrc).
  (* the join case *)
  Hypothesis HjL : j_L jc = map (arowLs c toks (fun _ => []) kz) lsrc.
  Hypothesis HjR : j_R jc = map (arowRs c toks (fun _ => []) kz) rsrc.
  Hypothesis Hjop : j_op jc = op.
  Hypothesis Hjt : j_t jc = t.
  Hypothesis Hjam : j_allow_missing jc = am.
  (* the candidate frame: sound for a filter_tables case on the same tables; header-long exception-free rows *)
  Hypothesis Hfo : filter_of jc cfc k m.
  Hypothesis HF : exists rowsF, lhsF = sframe cc (numbered rowsF) /\ sound_spec cfc (map (kview cF kz) rowsF) = true.
  Hypothesis HcsrcOk : forall row, In row csrc -> List.length row = List.length cc /\ ProjSpec.row_ok row.
  Hypothesis Hsmall : Z.of_nat (List.length lsrc) * Z.of_nat (List.length rsrc) < 2^31.
  Hypothesis Hdist : clk <> crk.
  (* the hypotheses of C05 that do not follow from the above *)
  Hypothesis Htokv : is_exc tokv = false.
  Hypothesis HkzL : forall row v, In row lsrc -> In v (map (lkeyc c) lsrc ++ map (clkc cc clk) csrc) ->
    pv_eqb (lkeyc c row) v = (kz (lkeyc c row) =? kz v).
  Hypothesis HkzR : forall row v, In row rsrc -> In v (map (rkeyc c) rsrc ++ map (crkc cc crk) csrc) ->
    pv_eqb (rkeyc c row) v = (kz (rkeyc c row) =? kz v).
  Hypothesis Hzk : forall v, In v (map (lkeyc c) lsrc ++ map (rkeyc c) rsrc ++ map (clkc cc clk) csrc ++ map (crkc cc crk) csrc) ->
    zk (kz v) = v.
  Hypothesis HscalL : forall row, In row lsrc -> scalar (lvalc c row).
  Hypothesis HscalR : forall row, In row rsrc -> scalar (rvalc c row).
  Hypothesis HtokL : m_tokb tokv = true -> forall row, In row lsrc -> cell_missing (lvalc c row) = false ->
    is_exc (tokenizeM (lvalc c row)) = false.
  Hypothesis HtokR : m_tokb tokv = true -> forall row, In row rsrc -> cell_missing (rvalc c row) = false ->
    is_exc (tokenizeM (rvalc c row)) = false.
  Hypothesis Hsim : forall lrow rrow, In lrow lsrc -> In rrow rsrc ->
    cell_missing (lvalc c lrow) = false -> cell_missing (rvalc c rrow) = false ->
    is_exc (simM (e_tk tokv tokenizeM (lvalc c lrow)) (e_tk tokv tokenizeM (rvalc c rrow))) = false /\
    is_exc (cf (simM (e_tk tokv tokenizeM (lvalc c lrow)) (e_tk tokv tokenizeM (rvalc c rrow))) t) = false.
  Hypothesis HsimEq : forall lrow rrow, In lrow lsrc -> In rrow rsrc ->
    cell_missing (lvalc c lrow) = false -> cell_missing (rvalc c rrow) = false ->
    simM (e_tk tokv tokenizeM (lvalc c lrow)) (e_tk tokv tokenizeM (rvalc c rrow))
    = matcher_raw_score m (toks (lvalc c lrow)) (toks (rvalc c rrow)).

  Theorem matcher_link : matcher_view_link c cF kz jc m lhsF pipe_frame_of.
  Proof using All.
    unfold matcher_view_link.
    destruct HF as (rowsF & EF & F2).
    assert (HidF : ~ In "_id" (mv_header cF)) by (intros X; apply Hid; exact (mv_header_noscore c "_id" X)).
    assert (Ecs : csrc = numbered rowsF) by (unfold csrc; rewrite EF; apply frame_rows_sframe).
    assert (Hncand : Z.of_nat (List.length csrc) < 2^31).
    { rewrite Ecs, numbered_length.
      pose proof (st_cands_length jc cfc k m _ Hfo F2) as X.
      rewrite HjL, HjR, !map_length in X. lia. }
    assert (Hview : forall crow, In crow csrc ->
              exists l r, JoinSpec.find_row (fst (fst (kview cF kz (tl crow)))) (j_L jc) = Some l /\
                          JoinSpec.find_row (snd (fst (kview cF kz (tl crow)))) (j_R jc) = Some r).
    { intros crow Hc.
      assert (Hin : In (kview cF kz (tl crow)) (map (kview cF kz) rowsF)).
      { rewrite <- (numbered_tl rowsF), <- Ecs, map_map. apply in_map_iff. exists crow. split; [reflexivity | exact Hc]. }
      destruct (st_view jc cfc k m _ Hfo F2 _ Hin) as (l & r & Fl & Fr & _). exists l, r. split; assumption. }
    assert (HzkC : forall crow, In crow csrc ->
              zk (kz (clkc cc clk crow)) = clkc cc clk crow /\ zk (kz (crkc cc crk crow)) = crkc cc crk crow).
    { intros crow Hc. split; apply Hzk; apply in_or_app; right; apply in_or_app; right; apply in_or_app;
        [left | right]; apply in_map; exact Hc. }
    assert (Hfound : forall crow, In crow csrc ->
              In (kz (clkc cc clk crow)) (map (fun row => kz (lkeyc c row)) lsrc) /\
              In (kz (crkc cc crk crow)) (map (fun row => kz (rkeyc c row)) rsrc)).
    { intros crow Hc. destruct (Hview crow Hc) as (l & r & Fl & Fr).
      rewrite (cand_view c kz HidF Hdist crow : kview cF kz (tl crow) = (kz (clkc cc clk crow), kz (crkc cc crk crow), PNone)) in Fl, Fr.
      cbn [fst snd] in Fl, Fr.
      destruct (srcL c lsrc toks kz jc HjL l _ Fl) as (lrow & Hlr & El & _).
      destruct (srcR c rsrc toks kz jc HjR r _ Fr) as (rrow & Hrr & Er & _).
      split; apply in_map_iff; [exists lrow | exists rrow]; split; assumption. }
    assert (EM : pipe_frame_of = cm_call c cc clk crk lsrc rsrc csrc op am t tokv showpM njM cpM tokenizeM simM).
    { unfold pipe_frame_of, cm_call. rewrite EF at 1. rewrite Ecs. reflexivity. }
    rewrite EM.
    rewrite (C05_code_apply_matcher_rows c cc clk crk lsrc rsrc csrc op cf am t tokv showpM njM cpM tokenizeM simM kz zk
               Hwf ltac:(right; left; reflexivity) ltac:(right; right; left; reflexivity) Hl Hr HcsrcOk Hvout Hop Htokv Hncand
               HndL HndR HkzL HkzR Hzk Hfound HscalL HscalR HtokL HtokR Hsim).
    unfold code_view at 1. rewrite frame_rows_sframe.
    exact (pipe_view_link c lsrc rsrc csrc op am t tokv m tokenizeM simM toks kz zk jc
             Hsc HjL HjR Hjop Hjt Hjam Hlow HndL HndR HidF Hdist HzkC HsimEq Hview).
  Qed.
End MatcherLink.

(* ================================================================== C07 on the generated code, overlap_join *)
Section PipelineOvj.
  Variables (c : pcase) (T : Z) (op : string) (am : bool) (qJ qF : Z).
  Variables (njJ cpJ njF cpF njM cpM : Z) (k : fkind) (aeF : bool).
  Variables (lsrc rsrc : list (list pyval)) (showpJ showpF showpM : pyval).
  Variables (tokenize : pyval -> pyval).                                           (* of the join and the filter *)
  Variables (tokv : pyval) (tokenizeM : pyval -> pyval) (simM : pyval -> pyval -> pyval).   (* of the matcher *)
  Variables (toks : pyval -> list Z) (cf : pyval -> pyval -> pyval) (kz : pyval -> Z) (zk : Z -> pyval).

  Let cF : pcase := noscore_pcase c.
  Let cc : list string := header_spec cF.
  Let clk : string := (p_lpre c ++ p_lkey c)%string.
  Let crk : string := (p_rpre c ++ p_rkey c)%string.

  (* the three calls: overlap_join(threshold T); X_filter.filter_tables with sim_measure_type OVERLAP, threshold T,
     no score column; apply_matcher on its frame with threshold T and the same operator / allow_missing *)
  Definition ovj_join_frame : pyval := ovj_call c (PInt T) op am njJ cpJ lsrc rsrc showpJ tokenize.
  Definition ovj_filter_frame : pyval := flt_call (noscore_pcase c) (ovp T qF) aeF am njF cpF lsrc rsrc showpF tokenize k.
  Definition ovj_pipe_frame : pyval :=
    pipe_frame_of c lsrc rsrc op am (PInt T) tokv njM cpM showpM tokenizeM simM ovj_filter_frame.

  Let csrc : list (list pyval) := frame_rows_of ovj_filter_frame.

  (* the join call (the hypotheses of C01_C02_code_overlap_join_tight) *)
  Hypothesis HJ : ovj_call_hyps c T op lsrc rsrc tokenize toks cf kz.
  Hypothesis Hsc : p_score c = true.
  (* the filter_tables call: of the hypotheses of C04_code_filter_tables_overlap the bound on the whole right table and
     the size envelope of the token sets (< 2^20) are not among those of the join call *)
  Hypothesis Hk : k3 k.
  Hypothesis HlenRt : Z.of_nat (List.length rsrc) < 2^31.
  Hypothesis Hset : set_cells c toks lsrc rsrc.
  (* the candidate set fits apply_matcher's chunking envelope *)
  Hypothesis Hsmall : Z.of_nat (List.length lsrc) * Z.of_nat (List.length rsrc) < 2^31.
  Hypothesis Hdist : clk <> crk.
  (* the hypotheses of C05 *)
  Hypothesis Htokv : is_exc tokv = false.
  Hypothesis HkzL : forall row v, In row lsrc -> In v (map (lkeyc c) lsrc ++ map (clkc cc clk) csrc) ->
    pv_eqb (lkeyc c row) v = (kz (lkeyc c row) =? kz v).
  Hypothesis HkzR : forall row v, In row rsrc -> In v (map (rkeyc c) rsrc ++ map (crkc cc crk) csrc) ->
    pv_eqb (rkeyc c row) v = (kz (rkeyc c row) =? kz v).
  Hypothesis Hzk : forall v, In v (map (lkeyc c) lsrc ++ map (rkeyc c) rsrc ++ map (clkc cc clk) csrc ++ map (crkc cc crk) csrc) ->
    zk (kz v) = v.
  Hypothesis HscalL : forall row, In row lsrc -> scalar (lvalc c row).
  Hypothesis HscalR : forall row, In row rsrc -> scalar (rvalc c row).
  Hypothesis HtokL : m_tokb tokv = true -> forall row, In row lsrc -> cell_missing (lvalc c row) = false ->
    is_exc (tokenizeM (lvalc c row)) = false.
  Hypothesis HtokR : m_tokb tokv = true -> forall row, In row rsrc -> cell_missing (rvalc c row) = false ->
    is_exc (tokenizeM (rvalc c row)) = false.
  Hypothesis Hsim : forall lrow rrow, In lrow lsrc -> In rrow rsrc ->
    cell_missing (lvalc c lrow) = false -> cell_missing (rvalc c rrow) = false ->
    is_exc (simM (e_tk tokv tokenizeM (lvalc c lrow)) (e_tk tokv tokenizeM (rvalc c rrow))) = false /\
    is_exc (cf (simM (e_tk tokv tokenizeM (lvalc c lrow)) (e_tk tokv tokenizeM (rvalc c rrow))) (PInt T)) = false.
  (* the similarity parameter of apply_matcher is the overlap of the tokenizer's sets *)
  Hypothesis HsimEq : forall lrow rrow, In lrow lsrc -> In rrow rsrc ->
    cell_missing (lvalc c lrow) = false -> cell_missing (rvalc c rrow) = false ->
    simM (e_tk tokv tokenizeM (lvalc c lrow)) (e_tk tokv tokenizeM (rvalc c rrow))
    = matcher_raw_score "OVERLAP" (toks (lvalc c lrow)) (toks (rvalc c rrow)).

  Theorem C07_code_pipeline_overlap_join :
    pipeline_spec (ovj_code_jcase c T op am qJ njJ cpJ lsrc rsrc toks kz)
      (code_view c kz ovj_join_frame) (code_view c kz ovj_pipe_frame) = true.
  Proof using All.
    set (jc := ovj_code_jcase c T op am qJ njJ cpJ lsrc rsrc toks kz).
    set (cfc := flt_code_jcase cF (ovp T qF) op aeF am njF cpF lsrc rsrc toks (fun _ => []) kz k).
    pose proof (ovj_call_valid c T op am qJ njJ cpJ lsrc rsrc tokenize toks cf kz HJ) as Hv.
    destruct (weak_keys _ Hv) as (NL & NR).
    destruct (proj1 (ovj_call_facts c T op am qJ njJ cpJ lsrc rsrc showpJ tokenize toks cf kz HJ))
      as (_ & _ & A1 & A2 & A3 & _ & A5 & _).
    destruct HJ as (Hwf & Hl & Hr & HtL' & HtR' & Hvout & Hop & Hid & Hn & Hvt & Hvop & Hkeys & Hnodup).
    assert (HT : 1 <= T) by exact (overlap_size_pos T Hvt).
    assert (Hlow : lower_op op) by exact (lower_op_of_valid op "OVERLAP" eq_refl Hvop).
    assert (HidF : ~ In "_id" (mv_header cF)) by (intros X; apply Hid; exact (mv_header_noscore c "_id" X)).
    destruct Hkeys as (HndL & HndR).
    assert (Hfo : filter_of jc cfc k "OVERLAP") by (repeat split).
    (* the filter's frame *)
    pose proof (C04_code_filter_tables_overlap cF op aeF am njF cpF lsrc rsrc showpF tokenize toks kz
                  (well_formed_noscore c Hwf) eq_refl Hl Hr HtL' HtR' Hvout HidF HlenRt (conj HndL HndR) Hset T qF k Hk HT) as HF.
    apply proj2 in HF. destruct HF as (rowsF & EF & (F1 & F2 & F3 & _)).
    change (flt_call cF (ovp T qF) aeF am njF cpF lsrc rsrc showpF tokenize k) with ovj_filter_frame in EF.
    fold cc in EF. fold cfc in F1, F2, F3.
    (* (R1): the shape of the candidate frame *)
    destruct (set_cells_below cF toks lsrc rsrc size_bound ltac:(lia) Hset) as (HszL & HszR).
    pose proof (filter_tables_rows_frame_shaped cF (ovp T qF) aeF am njF cpF lsrc rsrc showpF tokenize toks
                  (well_formed_noscore c Hwf) eq_refl Hl Hr HtL' HtR' Hvout HidF HlenRt size_bound k Hk
                  (formulas_ok_overlap T qF size_bound) HszL HszR) as HcsrcOk.
    change (flt_call cF (ovp T qF) aeF am njF cpF lsrc rsrc showpF tokenize k) with ovj_filter_frame in HcsrcOk.
    (* the matcher's frame *)
    pose proof (matcher_link c lsrc rsrc op am (PInt T) tokv "OVERLAP" njM cpM showpM tokenizeM simM toks cf kz zk
                  jc cfc k ovj_filter_frame Hwf Hsc Hl Hr Hvout Hop Hlow Hid HndL HndR eq_refl eq_refl eq_refl eq_refl eq_refl
                  Hfo (ex_intro _ rowsF (conj EF F2)) HcsrcOk Hsmall Hdist Htokv HkzL HkzR Hzk HscalL HscalR HtokL HtokR
                  Hsim HsimEq) as Hlink.
    unfold matcher_view_link in Hlink. unfold ovj_pipe_frame. rewrite Hlink. clear Hlink.
    rewrite EF, code_view_sframe.
    apply (stage_pipeline_law jc cfc k "OVERLAP"); try assumption; try reflexivity.
    exact (round_agrees_to_rows jc "OVERLAP" (round_agrees_overlap jc)).
  Qed.
End PipelineOvj.

Print Assumptions matcher_link.
Print Assumptions C07_code_pipeline_overlap_join.
