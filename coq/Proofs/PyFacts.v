(* Small computation lemmas about the Python-semantics library on integer arguments. *)
From Coq Require Import ZArith Bool List String Lia.
From SSJ Require Import F64 PyNum.
Import ListNotations.
Open Scope Z_scope.

Lemma py_ge_int a b : py_truth (py_ge (PInt a) (PInt b)) = (b <=? a).
Proof.
  unfold py_ge, py_ord, strict2, ord_cmp, num_of, num_cmp, py_truth.
  destruct (Z.compare_spec a b); destruct (Z.leb_spec b a); try reflexivity; lia.
Qed.
Lemma py_gt_int a b : py_truth (py_gt (PInt a) (PInt b)) = (b <? a).
Proof.
  unfold py_gt, py_ord, strict2, ord_cmp, num_of, num_cmp, py_truth.
  destruct (Z.compare_spec a b); destruct (Z.ltb_spec b a); try reflexivity; lia.
Qed.
Lemma py_le_int a b : py_truth (py_le (PInt a) (PInt b)) = (a <=? b).
Proof.
  unfold py_le, py_ord, strict2, ord_cmp, num_of, num_cmp, py_truth.
  destruct (Z.compare_spec a b); destruct (Z.leb_spec a b); try reflexivity; lia.
Qed.
Lemma py_lt_int a b : py_truth (py_lt (PInt a) (PInt b)) = (a <? b).
Proof.
  unfold py_lt, py_ord, strict2, ord_cmp, num_of, num_cmp, py_truth.
  destruct (Z.compare_spec a b); destruct (Z.ltb_spec a b); try reflexivity; lia.
Qed.
Lemma py_eq_int a b : py_truth (py_eq (PInt a) (PInt b)) = (a =? b).
Proof.
  unfold py_eq, strict2, py_truth, pv_eqb, num_of, num_cmp.
  destruct (Z.compare_spec a b); destruct (Z.eqb_spec a b); try reflexivity; lia.
Qed.
Lemma py_le_int_val a b : py_le (PInt a) (PInt b) = PBool (a <=? b).
Proof.
  unfold py_le, py_ord, strict2, ord_cmp, num_of, num_cmp.
  destruct (Z.compare_spec a b); destruct (Z.leb_spec a b); try reflexivity; lia.
Qed.
Lemma py_and_bool a b : py_truth (py_and (PBool a) (PBool b)) = (a && b).
Proof. destruct a, b; reflexivity. Qed.
