(* Code-level RELATIONAL property theorems, part 3: C13 operator partition, stated DIRECTLY about the frames
   returned by THREE calls (operators >=, >, =) of a GENERATED set-similarity wrapper.

   The hypotheses are those of ONE call (`jcd_call_hyps` / `ovc_call_hyps` / `ovj_call_hyps` for some accepted
   operator op0): the only hypotheses of a call that mention the operator are "the operator validator does not
   raise" and "COMP_OP_MAP[op] = cf", and both hold of >=, >, = by computation (`*_call_hyps_op`).
   J/C/D: the law holds outside the pairs that are gray for one of the three calls (keep_rows; whether a gray
   pair is found is not fixed by the specifications -- Laws.partition_gray_refuted);
   OVERLAP_COEFFICIENT / OVERLAP: exactly MetaSpec.partition_spec.                                        *)
From Coq Require Import ZArith Bool List String Lia Permutation.
From SSJ Require Import F64 PyNum FilterUtilsGen HelperGen TokenOrderingGen ValidationGen IndexGen JoinGen
     TokenOrdering Measures Filters Joins Api JoinSpec MetaSpec Projection ProjSpec IndexPyFacts ProjectionFacts
     JoinGenFacts JoinGenLoop JoinRefine JoinRefineProj SplitFacts Frame WrapperGen FilterWrapperGen
     WrapperRefineFrame WrapperRefineMissing WrapperRefineCore WrapperRefineChunks WrapperRefine WrapperRefineClosed
     WrapperRefineApi WrapperRefineEnd WrapperBody WrapperApiLink WrapperEnd
     WrapperRefineOvc FilterWrapperRefineOverlap
     OrderingFacts OverlapFacts OverlapMeasure ValidationFacts
     ApiLift ApiJoinBase ApiJoinPairs ApiJoinSpec PartitionInst LawsBase LawsScore LawsSpec Laws ModelScores ModelLaws
     CodeLevelBase CodeLevelJoins CodeLevelJoins2 CodeLevelTight CodeLevelRelBase CodeLevelRelCalls.
Import ListNotations.
Open Scope string_scope.
Open Scope list_scope.
Open Scope Z_scope.

(* ------------------------------------------------------------------ changing the operator of a call *)
Lemma vco_lower op m : String.eqb m "EDIT_DISTANCE" = false -> lower_op op ->
  is_exc (validate_comp_op_for_sim_measure (PStr op) (PStr m)) = false.
Proof. intros Hm [-> | [-> | ->]]; rewrite (vco_other _ m Hm); reflexivity. Qed.

Lemma jcd_call_hyps_op c p op op' lsrc rsrc tokenize sim_fn toks cf cf' kz :
  jcd_call_hyps c p op lsrc rsrc tokenize sim_fn toks cf kz -> lower_op op' -> comp_op_map op' = Some cf' ->
  jcd_call_hyps c p op' lsrc rsrc tokenize sim_fn toks cf' kz.
Proof.
  intros ((Hwf & Hl & Hr & HtL & HtR & Hm & Hvt & Hvop & Hvout & Hop & Hid) & Hrest) Hlow Hop'.
  split; [|exact Hrest]. repeat (split; [assumption|]). split; [|split; [exact Hvout | split; [exact Hop' | exact Hid]]].
  exact (vco_lower op' (fm p) (set_measure_not_ed _ Hm) Hlow).
Qed.

Lemma ovc_call_hyps_op c p op op' lsrc rsrc tokenize toks cf cf' kz :
  ovc_call_hyps c p op lsrc rsrc tokenize toks cf kz -> lower_op op' -> comp_op_map op' = Some cf' ->
  ovc_call_hyps c p op' lsrc rsrc tokenize toks cf' kz.
Proof.
  intros (Hwf & Hl & Hr & HtL & HtR & Hfm & Hvt & Hvop & Hvout & Hop & Hrest) Hlow Hop'.
  repeat (split; [assumption|]). split; [exact (vco_lower op' "OVERLAP_COEFFICIENT" eq_refl Hlow)|].
  split; [exact Hvout|]. split; [exact Hop' | exact Hrest].
Qed.

Lemma ovj_call_hyps_op c T op op' lsrc rsrc tokenize toks cf cf' kz :
  ovj_call_hyps c T op lsrc rsrc tokenize toks cf kz -> lower_op op' -> comp_op_map op' = Some cf' ->
  ovj_call_hyps c T op' lsrc rsrc tokenize toks cf' kz.
Proof.
  intros (Hwf & Hl & Hr & HtL & HtR & Hvout & Hop & Hid & Hn & Hvt & Hvop & Hrest) Hlow Hop'.
  repeat (split; [assumption|]). split; [exact (vco_lower op' "OVERLAP" eq_refl Hlow) | exact Hrest].
Qed.

(* ================================================================== J / C / D *)
Section PartitionJcd.
  Variables (c : pcase) (p : fparams) (op0 : string) (ae : bool).
  Variables (nj1 cp1 nj2 cp2 nj3 cp3 : Z) (lsrc rsrc : list (list pyval)) (showp1 showp2 showp3 : pyval).
  Variables (tokenize : pyval -> pyval) (sim_fn : pyval -> pyval -> pyval).
  Variables (toks : pyval -> list Z) (cf0 : pyval -> pyval -> pyval) (kz : pyval -> Z).

  Hypothesis H : jcd_call_hyps c p op0 lsrc rsrc tokenize sim_fn toks cf0 kz.
  Hypothesis Hsc : p_score c = true.

  (* the three calls: allow_missing = False, the same tables, threshold, allow_empty; any n_jobs *)
  Let jc (op : string) (nj cp : Z) : jcase := jcd_jcase c p op ae false nj cp lsrc rsrc toks kz.
  Let call (op : string) (nj cp : Z) (showp : pyval) : pyval :=
    jcd_wrapper_call c p op ae false nj cp lsrc rsrc showp tokenize sim_fn.

  Theorem C13_code_partition_jcd :
    let cs := [jc ">=" nj1 cp1; jc ">" nj2 cp2; jc "=" nj3 cp3] in
    multiset_eqb (keep_rows cs (code_view c kz (call ">=" nj1 cp1 showp1)))
                 (keep_rows cs (code_view c kz (call ">" nj2 cp2 showp2)) ++
                  keep_rows cs (code_view c kz (call "=" nj3 cp3 showp3))) = true.
  Proof using H Hsc.
    pose proof (jcd_call_hyps_op c p op0 ">=" lsrc rsrc tokenize sim_fn toks cf0 py_ge kz H lower_ge eq_refl) as Hge.
    pose proof (jcd_call_hyps_op c p op0 ">" lsrc rsrc tokenize sim_fn toks cf0 py_gt kz H lower_gt eq_refl) as Hgt.
    pose proof (jcd_call_hyps_op c p op0 "=" lsrc rsrc tokenize sim_fn toks cf0 py_eq kz H lower_eq eq_refl) as Heq.
    cbv zeta. unfold jc, call.
    apply (code_partition_nongray_law c c c kz); try reflexivity; try exact Hsc.
    - exact (weak_set_case _ (jcd_call_valid c p ">=" ae false nj1 cp1 lsrc rsrc tokenize sim_fn toks py_ge kz Hge)).
    - repeat split.
    - repeat split.
    - exact (proj1 (jcd_call_facts c p ">=" ae false nj1 cp1 lsrc rsrc showp1 tokenize sim_fn toks py_ge kz Hge)).
    - exact (proj1 (jcd_call_facts c p ">" ae false nj2 cp2 lsrc rsrc showp2 tokenize sim_fn toks py_gt kz Hgt)).
    - exact (proj1 (jcd_call_facts c p "=" ae false nj3 cp3 lsrc rsrc showp3 tokenize sim_fn toks py_eq kz Heq)).
  Qed.
End PartitionJcd.

(* ================================================================== overlap coefficient *)
Section PartitionOvc.
  Variables (c : pcase) (t : pyval) (q : Z) (op0 : string) (ae : bool).
  Variables (nj1 cp1 nj2 cp2 nj3 cp3 : Z) (lsrc rsrc : list (list pyval)) (showp1 showp2 showp3 : pyval).
  Variables (tokenize : pyval -> pyval).
  Variables (toks : pyval -> list Z) (cf0 : pyval -> pyval -> pyval) (kz : pyval -> Z).

  Let p : fparams := {| fm := "OVERLAP_COEFFICIENT"; ft := t; fq := q |}.
  Hypothesis H : ovc_call_hyps c p op0 lsrc rsrc tokenize toks cf0 kz.
  Hypothesis Hsc : p_score c = true.

  Let jc (op : string) (nj cp : Z) : jcase := ovc_code_jcase c p op ae false nj cp lsrc rsrc toks kz.
  Let call (op : string) (nj cp : Z) (showp : pyval) : pyval := ovc_call c p op ae false nj cp lsrc rsrc showp tokenize.

  Theorem C13_code_partition_overlap_coefficient :
    partition_spec (jc ">=" nj1 cp1)
      (code_view c kz (call ">=" nj1 cp1 showp1)) (code_view c kz (call ">" nj2 cp2 showp2))
      (code_view c kz (call "=" nj3 cp3 showp3)) = true.
  Proof using H Hsc.
    pose proof (ovc_call_hyps_op c p op0 ">=" lsrc rsrc tokenize toks cf0 py_ge kz H lower_ge eq_refl) as Hge.
    pose proof (ovc_call_hyps_op c p op0 ">" lsrc rsrc tokenize toks cf0 py_gt kz H lower_gt eq_refl) as Hgt.
    pose proof (ovc_call_hyps_op c p op0 "=" lsrc rsrc tokenize toks cf0 py_eq kz H lower_eq eq_refl) as Heq.
    unfold jc, call.
    apply (code_partition_exact_law c c c kz _ (ovc_code_jcase c p ">" ae false nj2 cp2 lsrc rsrc toks kz)
             (ovc_code_jcase c p "=" ae false nj3 cp3 lsrc rsrc toks kz)); try reflexivity; try exact Hsc.
    - repeat split.
    - repeat split.
    - exact (proj1 (ovc_call_facts c p ">=" ae false nj1 cp1 lsrc rsrc showp1 tokenize toks py_ge kz Hge)).
    - exact (proj1 (ovc_call_facts c p ">" ae false nj2 cp2 lsrc rsrc showp2 tokenize toks py_gt kz Hgt)).
    - exact (proj1 (ovc_call_facts c p "=" ae false nj3 cp3 lsrc rsrc showp3 tokenize toks py_eq kz Heq)).
  Qed.
End PartitionOvc.

(* ================================================================== overlap join *)
Section PartitionOvj.
  Variables (c : pcase) (T : Z) (op0 : string) (q : Z).
  Variables (nj1 cp1 nj2 cp2 nj3 cp3 : Z) (lsrc rsrc : list (list pyval)) (showp1 showp2 showp3 : pyval).
  Variables (tokenize : pyval -> pyval).
  Variables (toks : pyval -> list Z) (cf0 : pyval -> pyval -> pyval) (kz : pyval -> Z).

  Hypothesis H : ovj_call_hyps c T op0 lsrc rsrc tokenize toks cf0 kz.
  Hypothesis Hsc : p_score c = true.

  Let jc (op : string) (nj cp : Z) : jcase := ovj_code_jcase c T op false q nj cp lsrc rsrc toks kz.
  Let call (op : string) (nj cp : Z) (showp : pyval) : pyval := ovj_call c (PInt T) op false nj cp lsrc rsrc showp tokenize.

  Theorem C13_code_partition_overlap_join :
    partition_spec (jc ">=" nj1 cp1)
      (code_view c kz (call ">=" nj1 cp1 showp1)) (code_view c kz (call ">" nj2 cp2 showp2))
      (code_view c kz (call "=" nj3 cp3 showp3)) = true.
  Proof using H Hsc.
    pose proof (ovj_call_hyps_op c T op0 ">=" lsrc rsrc tokenize toks cf0 py_ge kz H lower_ge eq_refl) as Hge.
    pose proof (ovj_call_hyps_op c T op0 ">" lsrc rsrc tokenize toks cf0 py_gt kz H lower_gt eq_refl) as Hgt.
    pose proof (ovj_call_hyps_op c T op0 "=" lsrc rsrc tokenize toks cf0 py_eq kz H lower_eq eq_refl) as Heq.
    unfold jc, call.
    apply (code_partition_exact_law c c c kz _ (ovj_code_jcase c T ">" false q nj2 cp2 lsrc rsrc toks kz)
             (ovj_code_jcase c T "=" false q nj3 cp3 lsrc rsrc toks kz)); try reflexivity; try exact Hsc.
    - repeat split.
    - repeat split.
    - exact (proj1 (ovj_call_facts c T ">=" false q nj1 cp1 lsrc rsrc showp1 tokenize toks py_ge kz Hge)).
    - exact (proj1 (ovj_call_facts c T ">" false q nj2 cp2 lsrc rsrc showp2 tokenize toks py_gt kz Hgt)).
    - exact (proj1 (ovj_call_facts c T "=" false q nj3 cp3 lsrc rsrc showp3 tokenize toks py_eq kz Heq)).
  Qed.
End PartitionOvj.

Print Assumptions C13_code_partition_jcd.
Print Assumptions C13_code_partition_overlap_coefficient.
Print Assumptions C13_code_partition_overlap_join.
