(* Facts about the frame primitives of Model/Frame.v on frames with STRING labels, and step (a) of
   the wrapper refinement:

     convert_dataframe_to_array (GENERATED, Gen/WrapperGen.v) = project o filter present

   i.e. dataframe[proj_attrs].dropna(axis=0, subset=[join_attr]).values is the list of the projected
   rows (ProjectionFacts.cellv, the declarative "cell of the first column of that name") of the rows
   whose join cell is not missing, in order.  Axiom-free.                                        *)
From Coq Require Import ZArith Bool List String Lia.
From SSJ Require Import F64 PyNum HelperGen Projection ProjSpec ProjectionFacts Frame WrapperGen.
Import ListNotations.
Open Scope Z_scope.

(* a frame whose labels are strings *)
Definition sframe (cols : list string) (rows : list (list pyval)) : pyval :=
  frame_val {| fr_cols := map PStr cols; fr_rows := rows |}.

Definition shaped (n : nat) (rows : list (list pyval)) : Prop :=
  forall r, In r rows -> List.length r = n.

Lemma rows_of_PList rows : rows_of (map PList rows) = Some rows.
Proof. induction rows as [|r rows IH]; cbn [map rows_of]; [reflexivity | now rewrite IH]. Qed.

Lemma shaped_forallb n rows : shaped n rows ->
  forallb (fun r : list pyval => Nat.eqb (List.length r) n) rows = true.
Proof.
  intros H. apply forallb_forall. intros r Hr. apply Nat.eqb_eq. apply H. exact Hr.
Qed.

Lemma as_frame_val f : shaped (List.length (fr_cols f)) (fr_rows f) -> as_frame (frame_val f) = Some f.
Proof.
  intros H. unfold as_frame, frame_val. rewrite rows_of_PList, (shaped_forallb _ _ H).
  destruct f; reflexivity.
Qed.

Lemma with_frame_val f k : shaped (List.length (fr_cols f)) (fr_rows f) -> with_frame (frame_val f) k = k f.
Proof. intros H. unfold with_frame. change (frame_val f) with (PTuple [PList (map PList (fr_rows f)); PList (fr_cols f)]) at 1.
  cbv beta iota. rewrite (as_frame_val f H). reflexivity. Qed.

Lemma with_sframe cols rows k : shaped (List.length cols) rows ->
  with_frame (sframe cols rows) k = k {| fr_cols := map PStr cols; fr_rows := rows |}.
Proof. intros H. unfold sframe. apply with_frame_val. cbn [fr_cols fr_rows]. now rewrite map_length. Qed.

Lemma shaped_filter n (f : list pyval -> bool) rows : shaped n rows -> shaped n (filter f rows).
Proof. intros H r Hr. apply filter_In in Hr. apply H. tauto. Qed.

Lemma shaped_app n a b : shaped n a -> shaped n b -> shaped n (a ++ b).
Proof. intros Ha Hb r Hr. apply in_app_or in Hr. destruct Hr; auto. Qed.

(* ---- labels ---- *)
Lemma pv_eqb_str a b : pv_eqb (PStr a) (PStr b) = String.eqb a b.
Proof. reflexivity. Qed.

Lemma col_pos_strs a cols : col_pos (PStr a) (map PStr cols) = pos_of a cols.
Proof.
  induction cols as [|c cs IH]; cbn [map col_pos pos_of]; [reflexivity|].
  rewrite pv_eqb_str. destruct (String.eqb c a); [reflexivity|]. now rewrite IH.
Qed.

Lemma col_pos_In a cols : In a cols -> col_pos (PStr a) (map PStr cols) = Some (posn a cols).
Proof. intros H. rewrite col_pos_strs. apply pos_of_In. exact H. Qed.

Lemma all_some_nat_map (l : list nat) : all_some_nat (map Some l) = Some l.
Proof. induction l as [|x l IH]; cbn [map all_some_nat]; [reflexivity | now rewrite IH]. Qed.

Lemma forallb_is_label_strs l : forallb is_label (map PStr l) = true.
Proof. induction l as [|a l IH]; cbn [map forallb is_label]; [reflexivity | exact IH]. Qed.

(* ---- the primitives on string frames ---- *)
Lemma frame_columns_sframe cols rows : shaped (List.length cols) rows ->
  frame_columns (sframe cols rows) = py_strs cols.
Proof. intros H. unfold frame_columns. rewrite with_sframe by exact H. reflexivity. Qed.

Lemma frame_select_sframe cols rows proj : shaped (List.length cols) rows ->
  (forall a, In a proj -> In a cols) ->
  frame_select (sframe cols rows) (py_strs proj) = sframe proj (map (fun row => map (cellv cols row) proj) rows).
Proof.
  intros Hs Hin. unfold frame_select, py_strs. rewrite with_sframe by exact Hs.
  cbn [fr_cols fr_rows]. rewrite forallb_is_label_strs.
  assert (E : map (fun k => col_pos k (map PStr cols)) (map PStr proj) = map Some (map (fun a => posn a cols) proj)).
  { rewrite !map_map. apply map_ext_in. intros a Ha. apply col_pos_In. apply Hin. exact Ha. }
  rewrite E, all_some_nat_map. unfold sframe. do 2 f_equal.
  apply map_ext. intros row. rewrite map_map. reflexivity.
Qed.

Lemma shaped_select cols rows proj : shaped (List.length proj) (map (fun row : list pyval => map (cellv cols row) proj) rows).
Proof. intros r Hr. apply in_map_iff in Hr. destruct Hr as (row & <- & _). apply map_length. Qed.

Lemma frame_dropna_sframe cols rows a : shaped (List.length cols) rows -> In a cols ->
  frame_dropna (sframe cols rows) (PStr a)
  = sframe cols (filter (fun row => negb (cell_missing (cellv cols row a))) rows).
Proof.
  intros Hs Hin. unfold frame_dropna. rewrite with_sframe by exact Hs.
  cbn [is_label fr_cols fr_rows]. rewrite (col_pos_In _ _ Hin). reflexivity.
Qed.

Lemma frame_values_sframe cols rows : shaped (List.length cols) rows ->
  frame_values (sframe cols rows) = PList (map PList rows).
Proof. intros H. unfold frame_values. rewrite with_sframe by exact H. reflexivity. Qed.

Lemma frame_len_sframe cols rows : shaped (List.length cols) rows ->
  frame_len (sframe cols rows) = PInt (Z.of_nat (List.length rows)).
Proof. intros H. unfold frame_len. rewrite with_sframe by exact H. reflexivity. Qed.

Lemma frame_itertuples_sframe cols rows : shaped (List.length cols) rows ->
  frame_itertuples (sframe cols rows) = PList (map PTuple rows).
Proof. intros H. unfold frame_itertuples. rewrite with_sframe by exact H. reflexivity. Qed.

Lemma frame_col_sframe cols rows a : shaped (List.length cols) rows -> In a cols ->
  frame_col (sframe cols rows) (PStr a) = PList (map (fun row => cellv cols row a) rows).
Proof.
  intros Hs Hin. unfold frame_col. rewrite with_sframe by exact Hs.
  cbn [is_label fr_cols fr_rows]. rewrite (col_pos_In _ _ Hin). reflexivity.
Qed.

Lemma mask_of_bools (bs : list bool) : mask_of (map PBool bs) = Some bs.
Proof. induction bs as [|b bs IH]; cbn [map mask_of]; [reflexivity | now rewrite IH]. Qed.

Lemma select_mask_filter {A} (f : A -> bool) (rows : list A) : select_mask rows (map f rows) = filter f rows.
Proof.
  induction rows as [|r rows IH]; cbn [map select_mask filter]; [reflexivity|].
  destruct (f r); now rewrite IH.
Qed.

(* table[pd.isnull(table[a])] / table[pd.notnull(table[a])] *)
Lemma frame_mask_isnull cols rows a : shaped (List.length cols) rows -> In a cols ->
  frame_mask (sframe cols rows) (series_isnull (frame_col (sframe cols rows) (PStr a)))
  = sframe cols (filter (fun row => cell_missing (cellv cols row a)) rows).
Proof.
  intros Hs Hin. rewrite frame_col_sframe by assumption. cbn [series_isnull].
  rewrite map_map. unfold frame_mask.
  rewrite with_sframe by exact Hs.
  change (map (fun x : list pyval => PBool (cell_missing (cellv cols x a))) rows)
    with (map (fun x : list pyval => PBool ((fun row => cell_missing (cellv cols row a)) x)) rows).
  rewrite <- (map_map (fun row => cell_missing (cellv cols row a)) PBool).
  rewrite mask_of_bools. cbn [fr_rows fr_cols]. rewrite map_length, Nat.eqb_refl.
  rewrite select_mask_filter. reflexivity.
Qed.

Lemma frame_mask_notnull cols rows a : shaped (List.length cols) rows -> In a cols ->
  frame_mask (sframe cols rows) (series_notnull (frame_col (sframe cols rows) (PStr a)))
  = sframe cols (filter (fun row => negb (cell_missing (cellv cols row a))) rows).
Proof.
  intros Hs Hin. rewrite frame_col_sframe by assumption. cbn [series_notnull].
  rewrite map_map. unfold frame_mask.
  rewrite with_sframe by exact Hs.
  change (map (fun x : list pyval => PBool (negb (cell_missing (cellv cols x a)))) rows)
    with (map (fun x : list pyval => PBool ((fun row => negb (cell_missing (cellv cols row a))) x)) rows).
  rewrite <- (map_map (fun row => negb (cell_missing (cellv cols row a))) PBool).
  rewrite mask_of_bools. cbn [fr_rows fr_cols]. rewrite map_length, Nat.eqb_refl.
  rewrite select_mask_filter. reflexivity.
Qed.

Lemma sframe_not_exc cols rows : is_exc (sframe cols rows) = false.
Proof. reflexivity. Qed.

(* ---- (a) convert_dataframe_to_array = project o filter present ---- *)
Definition present_row (cols : list string) (join : string) (row : list pyval) : bool :=
  negb (cell_missing (cellv cols row join)).

Theorem convert_dataframe_to_array_eq cols rows proj join :
  shaped (List.length cols) rows ->
  (forall a, In a proj -> In a cols) -> In join proj ->
  convert_dataframe_to_array (sframe cols rows) (py_strs proj) (PStr join) (PBool true)
  = PList (map PList (map (fun row => map (cellv cols row) proj) (filter (present_row cols join) rows))).
Proof.
  intros Hs Hin Hj. unfold convert_dataframe_to_array.
  cbn [bindx py_truth].
  rewrite frame_select_sframe by assumption.
  rewrite frame_dropna_sframe by (try apply shaped_select; exact Hj).
  rewrite (bindx_ok _ (sframe proj _)) by reflexivity.
  cbn [bindx].
  rewrite frame_values_sframe by (apply shaped_filter, shaped_select).
  do 2 f_equal.
  (* filter after projection = projection after filter *)
  induction rows as [|row rows IH]; [reflexivity|].
  cbn [map filter]. unfold present_row at 1.
  rewrite (positional_index cols row proj join Hj).
  destruct (negb (cell_missing (cellv cols row join))).
  - cbn [map]. f_equal. apply IH. intros r Hr. apply Hs. right. exact Hr.
  - apply IH. intros r Hr. apply Hs. right. exact Hr.
Qed.

Print Assumptions convert_dataframe_to_array_eq.
