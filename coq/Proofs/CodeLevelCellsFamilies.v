(* C11 about the generated code, part 3: the closing theorems, one per generated wrapper.

   Under the hypotheses of the corresponding end-to-end theorem (WrapperRefineEnd.End2End, WrapperRefineOvc.Ovc,
   WrapperRefineEd.Ed, FilterWrapperRefineOverlap.OverlapFilter, FilterWrapperRefine.Filters -- copied verbatim),
   the value returned by the GENERATED wrapper satisfies CodeLevelCells.C11_frame:

       it is  sframe (header_spec c) rows  (header_spec spelled out: CodeLevelCells.header_spec_spelled), and for
       EVERY position i < |rows| there are  lrow in lsrc, rrow in rsrc, s  with
         projects  c i lrow rrow s (nth i rows [])   -- row = [PInt i] ++ cells ++ [s iff p_score],
                                                        cells_spec c lrow rrow = Some cells
         row_reads c i lrow rrow s (nth i rows [])   -- nth 0 = PInt i, nth 1 / nth 2 = the key cells of lrow / rrow,
                                                        the cell under the header of every requested attribute a is
                                                        cellv cols row a of the source row, the last cell is s
         core_row .. lrow rrow s  \/  missing_row .. lrow rrow s
       core_row: (a, b, s) is a triple of the model core K on a chunk, lrow / rrow are row a of the present left rows
       and row b of the chunk, and the score s is a number of the kind the measure produces (Sc);
       missing_row: allow_missing, s = NaN, and the join value of lrow or of rrow is missing.

   C11_code_cells_jaccard / _cosine / _dice            through WrapperRefine.wrapper_result
   C11_code_cells_overlap_coefficient / _edit_distance / _overlap_join
   C11_code_cells_overlap_filter / _size_filter / _prefix_filter / _position_filter   (the four filter_tables)
   through WrapperBody.body_result.

   `jcd_empty_branch` / `ovc_empty_branch` / `flt_empty_branch`: a core_row whose right join cell has no token, with
   allow_empty, has a left join cell without token (and score 1.0 in the joins) -- the rows of the empty-set branch
   are core rows, so the theorems above cover them.
   Unique keys: CodeLevelCells.C11_frame_rows_unique applies to every C11_frame.
   Reals axioms only through the chunk boundaries (WrapperRefineClosed.split_hyp) and, for OVERLAP_COEFFICIENT,
   float(n) <> 0.                                                                                             *)
From Coq Require Import ZArith Bool List String Lia Permutation.
From SSJ Require Import F64 PyNum FilterUtilsGen HelperGen TokenOrderingGen ValidationGen IndexGen JoinGen
     TokenOrdering Measures Filters Joins Api Projection ProjSpec IndexPyFacts ProjectionFacts
     JoinGenFacts JoinGenLoop JoinRefine JoinRefineProj SplitFacts Frame WrapperGen FilterWrapperGen WrapperRefineFrame
     WrapperRefineMissing WrapperRefineCore WrapperRefineChunks WrapperRefine WrapperRefineClosed
     WrapperBody WrapperApiLink WrapperRefineOvc WrapperRefineEd FilterWrapperRefineOverlap FilterWrapperRefine
     SplitRefineEd IndexGlue CoreLift CodeLevelBase CodeLevelCells CodeLevelCellsScores.
Import ListNotations.
Open Scope string_scope.
Open Scope list_scope.
Open Scope Z_scope.

(* ================================================================== JACCARD / COSINE / DICE *)
Section CellsJcd.
  Variables (c : pcase) (p : fparams) (op : string) (ae am : bool) (njobs cpus : Z).
  Variables (lsrc rsrc : list (list pyval)) (showp : pyval).
  Variables (tokenize : pyval -> pyval) (sim_fn : pyval -> pyval -> pyval).
  Variables (toks : pyval -> list Z) (cf : pyval -> pyval -> pyval).

  Let rpres := rpresent c rsrc.
  Let k := kjobs c njobs cpus rsrc.
  Let n := Z.of_nat (List.length rpres).
  Let bs := split_bs k n.

  (* the hypotheses of WrapperRefineEnd.End2End *)
  Hypothesis Hwf : well_formed c.
  Hypothesis Hlsrc : forall row, In row lsrc -> List.length row = List.length (p_lcols c) /\ ProjSpec.row_ok row.
  Hypothesis Hrsrc : forall row, In row rsrc -> List.length row = List.length (p_rcols c) /\ ProjSpec.row_ok row.
  Hypothesis HtokL : forall row, In row (lpresent c lsrc) ->
    tokenize (cellv (p_lcols c) row (p_ljoin c)) = pints (toks (cellv (p_lcols c) row (p_ljoin c))).
  Hypothesis HtokR : forall row, In row rpres ->
    tokenize (cellv (p_rcols c) row (p_rjoin c)) = pints (toks (cellv (p_rcols c) row (p_rjoin c))).
  Hypothesis Hm : set_measure (fm p).
  Hypothesis Hvt : is_exc (validate_threshold (ft p) (PStr (fm p))) = false.
  Hypothesis Hvop : is_exc (validate_comp_op_for_sim_measure (PStr op) (PStr (fm p))) = false.
  Hypothesis Hvout : is_exc (validate_output_attrs (py_opt_strs (p_lout c)) (py_strs (p_lcols c))
                                                   (py_opt_strs (p_rout c)) (py_strs (p_rcols c))) = false.
  Hypothesis Hop : comp_op_map op = Some cf.
  Hypothesis Hnum : num_of (ft p) <> None.
  Hypothesis Hid : ~ In "_id" (mv_header c).
  Hypothesis Hn : n < 2^31.
  Hypothesis Hcore : forall ch, In ch (wchunks c njobs cpus rsrc bs) -> core_hyps c p ae lsrc sim_fn toks ch.

  (* the model's per-chunk core *)
  Definition jcd_K (ch : list (list pyval)) : option (list triple) :=
    set_sim_join_core p op ae (Ltoks c lsrc toks) (Rtoks c toks ch).

  Definition C11_code_cells_jcd
      (W : pyval -> pyval -> pyval -> pyval -> pyval -> pyval -> pyval -> pyval -> pyval ->
           pyval -> pyval -> pyval -> pyval -> pyval -> pyval -> pyval -> pyval -> pyval ->
           pyval -> (pyval -> pyval) -> (pyval -> pyval -> pyval) -> pyval) : Prop :=
    C11_frame c am njobs cpus lsrc rsrc bs jcd_K float_score
      (W (sframe (p_lcols c) lsrc) (sframe (p_rcols c) rsrc)
         (PStr (p_lkey c)) (PStr (p_rkey c)) (PStr (p_ljoin c)) (PStr (p_rjoin c))
         (ft p) (PStr op) (PBool ae) (PBool am) (py_opt_strs (p_lout c)) (py_opt_strs (p_rout c))
         (PStr (p_lpre c)) (PStr (p_rpre c)) (PBool (p_score c)) (PInt njobs) showp (PInt cpus)
         (PInt (fq p)) tokenize sim_fn).

  (* from the statement of WrapperRefine.v, for any chunk boundaries *)
  Lemma C11_of_wrapper_result bs0 W :
    wrapper_result c p op ae am njobs cpus lsrc rsrc showp tokenize sim_fn toks bs0 W ->
    C11_frame c am njobs cpus lsrc rsrc bs0 jcd_K float_score
      (W (sframe (p_lcols c) lsrc) (sframe (p_rcols c) rsrc)
         (PStr (p_lkey c)) (PStr (p_rkey c)) (PStr (p_ljoin c)) (PStr (p_rjoin c))
         (ft p) (PStr op) (PBool ae) (PBool am) (py_opt_strs (p_lout c)) (py_opt_strs (p_rout c))
         (PStr (p_lpre c)) (PStr (p_rpre c)) (PBool (p_score c)) (PInt njobs) showp (PInt cpus)
         (PInt (fq p)) tokenize sim_fn).
  Proof using Hwf Hlsrc Hrsrc.
    intros HW. apply (C11_body_cells c am njobs cpus lsrc rsrc bs0 jcd_K float_score Hwf Hlsrc Hrsrc).
    - intros ch T tr _ EK Htr. exact (ssj_core_scores p op ae _ _ T tr EK Htr).
    - exact (wrapper_result_body c p op ae am njobs cpus lsrc rsrc showp tokenize sim_fn toks bs0 W HW).
  Qed.

  Theorem C11_code_cells_jaccard : fm p = "JACCARD" -> C11_code_cells_jcd jaccard_join_rows.
  Proof using All.
    intros Hfm. apply C11_of_wrapper_result.
    apply (jaccard_join_rows_refines_closed c p op ae am njobs cpus lsrc rsrc showp tokenize sim_fn toks cf); assumption.
  Qed.
  Theorem C11_code_cells_cosine : fm p = "COSINE" -> C11_code_cells_jcd cosine_join_rows.
  Proof using All.
    intros Hfm. apply C11_of_wrapper_result.
    apply (cosine_join_rows_refines_closed c p op ae am njobs cpus lsrc rsrc showp tokenize sim_fn toks cf); assumption.
  Qed.
  Theorem C11_code_cells_dice : fm p = "DICE" -> C11_code_cells_jcd dice_join_rows.
  Proof using All.
    intros Hfm. apply C11_of_wrapper_result.
    apply (dice_join_rows_refines_closed c p op ae am njobs cpus lsrc rsrc showp tokenize sim_fn toks cf); assumption.
  Qed.

  (* the rows of the empty-set branch are core rows: right join cell without token => left one too, score 1.0 *)
  Lemma jcd_empty_branch bs0 Sc lrow rrow s : ae = true ->
    core_row c njobs cpus lsrc rsrc bs0 jcd_K Sc lrow rrow s ->
    toks (rcell c rrow) = [] -> toks (lcell c lrow) = [] /\ s = PFloat f_one.
  Proof.
    intros Hae (ch & T & a & b & _ & EK & Htr & Ha & Hb & -> & -> & _) Hy.
    unfold jcd_K in EK. rewrite Hae in EK. unfold lcell, rcell in *.
    rewrite <- (Ltoks_nth c lsrc toks a Ha). rewrite <- (Rtoks_nth c toks ch b Hb) in Hy.
    exact (ssj_core_empty_branch p op _ _ T a b s EK Htr Hy).
  Qed.
End CellsJcd.

(* ================================================================== OVERLAP_COEFFICIENT *)
Section CellsOvc.
  Variables (c : pcase) (p : fparams) (op : string) (ae am : bool) (njobs cpus : Z).
  Variables (lsrc rsrc : list (list pyval)) (showp : pyval).
  Variables (tokenize : pyval -> pyval).
  Variables (toks : pyval -> list Z) (cf : pyval -> pyval -> pyval).

  Let lpres := lpresent c lsrc.
  Let rpres := rpresent c rsrc.
  Let bs := split_bs (kjobs c njobs cpus rsrc) (Z.of_nat (List.length rpres)).

  (* the hypotheses of WrapperRefineOvc.Ovc *)
  Hypothesis Hwf : well_formed c.
  Hypothesis Hlsrc : forall row, In row lsrc -> List.length row = List.length (p_lcols c) /\ ProjSpec.row_ok row.
  Hypothesis Hrsrc : forall row, In row rsrc -> List.length row = List.length (p_rcols c) /\ ProjSpec.row_ok row.
  Hypothesis HtokL : forall row, In row lpres ->
    tokenize (cellv (p_lcols c) row (p_ljoin c)) = pints (toks (cellv (p_lcols c) row (p_ljoin c))).
  Hypothesis HtokR : forall row, In row rpres ->
    tokenize (cellv (p_rcols c) row (p_rjoin c)) = pints (toks (cellv (p_rcols c) row (p_rjoin c))).
  Hypothesis Hvt : is_exc (validate_threshold (ft p) (PStr "OVERLAP_COEFFICIENT")) = false.
  Hypothesis Hvop : is_exc (validate_comp_op_for_sim_measure (PStr op) (PStr "OVERLAP_COEFFICIENT")) = false.
  Hypothesis Hvout : is_exc (validate_output_attrs (py_opt_strs (p_lout c)) (py_strs (p_lcols c))
                                                   (py_opt_strs (p_rout c)) (py_strs (p_rcols c))) = false.
  Hypothesis Hop : comp_op_map op = Some cf.
  Hypothesis Hnum : num_of (ft p) <> None.
  Hypothesis Hid : ~ In "_id" (mv_header c).
  Hypothesis HszL : forall row, In row lpres -> len (toks (cellv (p_lcols c) row (p_ljoin c))) < 2^50.
  Hypothesis HszR : forall row, In row rpres -> len (toks (cellv (p_rcols c) row (p_rjoin c))) < 2^50.
  Hypothesis Hn : Z.of_nat (List.length rpres) < 2^31.

  Theorem C11_code_cells_overlap_coefficient :
    C11_frame c am njobs cpus lsrc rsrc bs (ovc_K c p op ae lsrc toks) float_score
      (ovc_call c p op ae am njobs cpus lsrc rsrc showp tokenize).
  Proof using All.
    apply (C11_body_cells c am njobs cpus lsrc rsrc bs _ float_score Hwf Hlsrc Hrsrc).
    - intros ch T tr Hch EK Htr. apply (ovc_core_scores (ft p) op ae (Ltoks c lsrc toks) (Rtoks c toks ch) T tr); [|exact EK | exact Htr].
      intros x [Hx|Hx]; apply in_map_iff in Hx; destruct Hx as (row & <- & Hr).
      + apply HszL. exact Hr.
      + apply HszR. exact (wchunks_in c njobs cpus rsrc bs ch Hch row Hr).
    - apply (overlap_coefficient_join_rows_refines c p op ae am njobs cpus lsrc rsrc showp tokenize toks cf);
        try assumption.
      intros Hk. apply split_hyp; assumption.
  Qed.

  Lemma ovc_empty_branch bs0 Sc lrow rrow s : ae = true ->
    core_row c njobs cpus lsrc rsrc bs0 (ovc_K c p op ae lsrc toks) Sc lrow rrow s ->
    toks (rcell c rrow) = [] -> toks (lcell c lrow) = [] /\ s = PFloat f_one.
  Proof.
    intros Hae (ch & T & a & b & _ & EK & Htr & Ha & Hb & -> & -> & _) Hy.
    unfold ovc_K in EK. rewrite Hae in EK. unfold lcell, rcell in *.
    rewrite <- (Ltoks_nth c lsrc toks a Ha). rewrite <- (Rtoks_nth c toks ch b Hb) in Hy.
    exact (ovc_core_empty_branch (ft p) op _ _ T a b s EK Htr Hy).
  Qed.
End CellsOvc.

(* ================================================================== EDIT_DISTANCE *)
Section CellsEd.
  Variables (c : pcase) (t : pyval) (q tau : Z) (op : string) (am : bool) (njobs cpus : Z).
  Variables (lsrc rsrc : list (list pyval)) (showp : pyval).
  Variables (tokenize : pyval -> pyval) (sim_fn : pyval -> pyval -> pyval).
  Variables (toks str : pyval -> list Z) (cf : pyval -> pyval -> pyval).

  Let lpres := lpresent c lsrc.
  Let rpres := rpresent c rsrc.
  Let bs := split_bs (kjobs c njobs cpus rsrc) (Z.of_nat (List.length rpres)).

  (* the hypotheses of WrapperRefineEd.Ed *)
  Hypothesis Hwf : well_formed c.
  Hypothesis Hlsrc : forall row, In row lsrc -> List.length row = List.length (p_lcols c) /\ ProjSpec.row_ok row.
  Hypothesis Hrsrc : forall row, In row rsrc -> List.length row = List.length (p_rcols c) /\ ProjSpec.row_ok row.
  Hypothesis HtokL : forall row, In row lpres -> tokenize (lcell c row) = pints (toks (lcell c row)).
  Hypothesis HtokR : forall row, In row rpres -> tokenize (rcell c row) = pints (toks (rcell c row)).
  Hypothesis HlenL : forall row, In row lpres -> py_len (lcell c row) = PInt (len (str (lcell c row))).
  Hypothesis HlenR : forall row, In row rpres -> py_len (rcell c row) = PInt (len (str (rcell c row))).
  Hypothesis Hsim : forall l r, In l lpres -> In r rpres ->
    sim_fn (lcell c l) (rcell c r) = SplitRefineEd.ed_dist (str (lcell c l)) (str (rcell c r)).
  Hypothesis Hvt : is_exc (validate_threshold t (PStr "EDIT_DISTANCE")) = false.
  Hypothesis Hvop : is_exc (validate_comp_op_for_sim_measure (PStr op) (PStr "EDIT_DISTANCE")) = false.
  Hypothesis Hvout : is_exc (validate_output_attrs (py_opt_strs (p_lout c)) (py_strs (p_lcols c))
                                                   (py_opt_strs (p_rout c)) (py_strs (p_rcols c))) = false.
  Hypothesis Hop : comp_op_map op = Some cf.
  Hypothesis Hfloor : py_int (py_floor t) = PInt tau.
  Hypothesis Htau : 0 <= tau.
  Hypothesis Hq : 1 <= q.
  Hypothesis Hid : ~ In "_id" (mv_header c).
  Hypothesis Hn : Z.of_nat (List.length rpres) < 2^31.

  Theorem C11_code_cells_edit_distance :
    C11_frame c am njobs cpus lsrc rsrc bs (ed_K c q tau op lsrc toks str) ed_score
      (ed_call c t q op am njobs cpus lsrc rsrc showp tokenize sim_fn).
  Proof using All.
    apply (C11_body_cells c am njobs cpus lsrc rsrc bs _ ed_score Hwf Hlsrc Hrsrc).
    - intros ch T tr _ EK Htr. exact (ed_core_scores q tau op _ _ T tr EK Htr).
    - apply (edit_distance_join_rows_refines c t q tau op am njobs cpus lsrc rsrc showp tokenize sim_fn toks str cf);
        try assumption.
      intros Hk. apply split_hyp; assumption.
  Qed.
End CellsEd.

(* ================================================================== OVERLAP join and OverlapFilter.filter_tables *)
Section CellsOverlap.
  Variables (c : pcase) (size : pyval) (op : string) (am : bool) (njobs cpus : Z).
  Variables (lsrc rsrc : list (list pyval)) (showp : pyval).
  Variables (tokenize : pyval -> pyval).
  Variables (toks : pyval -> list Z) (cf : pyval -> pyval -> pyval).

  Let lpres := lpresent c lsrc.
  Let rpres := rpresent c rsrc.
  Let bs := split_bs (kjobs c njobs cpus rsrc) (Z.of_nat (List.length rpres)).

  (* the hypotheses of FilterWrapperRefineOverlap.OverlapFilter *)
  Hypothesis Hwf : well_formed c.
  Hypothesis Hlsrc : forall row, In row lsrc -> List.length row = List.length (p_lcols c) /\ ProjSpec.row_ok row.
  Hypothesis Hrsrc : forall row, In row rsrc -> List.length row = List.length (p_rcols c) /\ ProjSpec.row_ok row.
  Hypothesis HtokL : forall row, In row lpres ->
    tokenize (cellv (p_lcols c) row (p_ljoin c)) = pints (toks (cellv (p_lcols c) row (p_ljoin c))).
  Hypothesis HtokR : forall row, In row rpres ->
    tokenize (cellv (p_rcols c) row (p_rjoin c)) = pints (toks (cellv (p_rcols c) row (p_rjoin c))).
  Hypothesis Hvout : is_exc (validate_output_attrs (py_opt_strs (p_lout c)) (py_strs (p_lcols c))
                                                   (py_opt_strs (p_rout c)) (py_strs (p_rcols c))) = false.
  Hypothesis Hop : comp_op_map op = Some cf.
  Hypothesis Hnum : num_of size <> None.
  Hypothesis Hid : ~ In "_id" (mv_header c).
  Hypothesis Hn : Z.of_nat (List.length rpres) < 2^31.

  Theorem C11_code_cells_overlap_filter :
    C11_frame c am njobs cpus lsrc rsrc bs (ovf_K c size op lsrc toks) int_score
      (ovf_call c size op am njobs cpus lsrc rsrc showp tokenize).
  Proof using Hwf Hlsrc Hrsrc HtokL HtokR Hvout Hop Hnum Hid Hn.
    apply (C11_body_cells c am njobs cpus lsrc rsrc bs _ int_score Hwf Hlsrc Hrsrc).
    - intros ch T tr _ EK Htr. exact (ovl_core_scores op size _ _ T tr EK Htr).
    - apply (overlap_filter_tables_rows_refines c size op am njobs cpus lsrc rsrc showp tokenize toks cf);
        try assumption.
      intros Hk. apply split_hyp; assumption.
  Qed.

  Hypothesis Hvt : is_exc (validate_threshold size (PStr "OVERLAP")) = false.
  Hypothesis Hvop : is_exc (validate_comp_op_for_sim_measure (PStr op) (PStr "OVERLAP")) = false.

  Theorem C11_code_cells_overlap_join :
    C11_frame c am njobs cpus lsrc rsrc bs (ovf_K c size op lsrc toks) int_score
      (ovj_call c size op am njobs cpus lsrc rsrc showp tokenize).
  Proof using All.
    apply (C11_body_cells c am njobs cpus lsrc rsrc bs _ int_score Hwf Hlsrc Hrsrc).
    - intros ch T tr _ EK Htr. exact (ovl_core_scores op size _ _ T tr EK Htr).
    - apply (overlap_join_rows_refines c size op am njobs cpus lsrc rsrc showp tokenize toks cf); try assumption.
      intros Hk. apply split_hyp; assumption.
  Qed.
End CellsOverlap.

(* ================================================================== Size / Prefix / Position filter_tables *)
Section CellsFilters.
  Variables (c : pcase) (p : fparams) (ae am : bool) (bound njobs cpus : Z).
  Variables (lsrc rsrc : list (list pyval)) (showp : pyval).
  Variables (tokenize : pyval -> pyval).
  Variables (toks : pyval -> list Z).

  Let lpres := lpresent c lsrc.
  Let rpres := rpresent c rsrc.
  Let bs := split_bs (kjobs c njobs cpus rsrc) (Z.of_nat (List.length rpres)).

  (* the hypotheses of FilterWrapperRefine.Filters *)
  Hypothesis Hwf : well_formed c.
  Hypothesis Hns : p_score c = false.
  Hypothesis Hlsrc : forall row, In row lsrc -> List.length row = List.length (p_lcols c) /\ ProjSpec.row_ok row.
  Hypothesis Hrsrc : forall row, In row rsrc -> List.length row = List.length (p_rcols c) /\ ProjSpec.row_ok row.
  Hypothesis HtokL : forall row, In row lpres ->
    tokenize (cellv (p_lcols c) row (p_ljoin c)) = pints (toks (cellv (p_lcols c) row (p_ljoin c))).
  Hypothesis HtokR : forall row, In row rpres ->
    tokenize (cellv (p_rcols c) row (p_rjoin c)) = pints (toks (cellv (p_rcols c) row (p_rjoin c))).
  Hypothesis Hvout : is_exc (validate_output_attrs (py_opt_strs (p_lout c)) (py_strs (p_lcols c))
                                                   (py_opt_strs (p_rout c)) (py_strs (p_rcols c))) = false.
  Hypothesis Hid : ~ In "_id" (mv_header c).
  Hypothesis Hf : formulas_ok p bound.
  Hypothesis HszL : forall row, In row lpres -> len (toks (cellv (p_lcols c) row (p_ljoin c))) < bound.
  Hypothesis HszR : forall row, In row rpres -> len (toks (cellv (p_rcols c) row (p_rjoin c))) < bound.
  Hypothesis Hn : Z.of_nat (List.length rpres) < 2^31.

  (* no score column: the model's triples carry None and the rows stop after the requested attributes *)
  Definition no_score (s : pyval) : Prop := s = PNone.

  Lemma flt_scores k ch T tr : flt_K c p ae lsrc toks k ch = Some T -> In tr T -> no_score (snd tr).
  Proof. intros EK Htr. exact (ft_core_scores k p ae _ _ T tr EK Htr). Qed.

  Theorem C11_code_cells_size_filter :
    C11_frame c am njobs cpus lsrc rsrc bs (flt_K c p ae lsrc toks KSize) no_score
      (size_call c p ae am njobs cpus lsrc rsrc showp tokenize).
  Proof using Hwf Hns Hlsrc Hrsrc HtokL HtokR Hvout Hid Hf HszR Hn.
    apply (C11_body_cells c am njobs cpus lsrc rsrc bs _ no_score Hwf Hlsrc Hrsrc).
    - intros ch T tr _. apply flt_scores.
    - apply (size_filter_tables_rows_refines c p ae am bound njobs cpus lsrc rsrc showp tokenize toks); try assumption.
      intros Hk. apply split_hyp; assumption.
  Qed.
  Theorem C11_code_cells_prefix_filter :
    C11_frame c am njobs cpus lsrc rsrc bs (flt_K c p ae lsrc toks KPrefix) no_score
      (prefix_call c p ae am njobs cpus lsrc rsrc showp tokenize).
  Proof using All.
    apply (C11_body_cells c am njobs cpus lsrc rsrc bs _ no_score Hwf Hlsrc Hrsrc).
    - intros ch T tr _. apply flt_scores.
    - apply (prefix_filter_tables_rows_refines c p ae am bound njobs cpus lsrc rsrc showp tokenize toks); try assumption.
      intros Hk. apply split_hyp; assumption.
  Qed.
  Theorem C11_code_cells_position_filter :
    C11_frame c am njobs cpus lsrc rsrc bs (flt_K c p ae lsrc toks KPosition) no_score
      (position_call c p ae am njobs cpus lsrc rsrc showp tokenize).
  Proof using All.
    apply (C11_body_cells c am njobs cpus lsrc rsrc bs _ no_score Hwf Hlsrc Hrsrc).
    - intros ch T tr _. apply flt_scores.
    - apply (position_filter_tables_rows_refines c p ae am bound njobs cpus lsrc rsrc showp tokenize toks); try assumption.
      intros Hk. apply split_hyp; assumption.
  Qed.

  (* a row of a filter_tables frame is exactly [_id] ++ the projected cells: there is no score cell *)
  Lemma flt_row_no_score_cell i lrow rrow s row : projects c i lrow rrow s row ->
    exists cells, cells_spec c lrow rrow = Some cells /\ row = PInt (Z.of_nat i) :: cells.
  Proof using Hns.
    intros (cells & Es & ->). exists cells. split; [exact Es|]. now rewrite Hns, app_nil_r.
  Qed.

  Lemma flt_empty_branch k bs0 Sc lrow rrow s : ft_handle_empty p ae = true ->
    core_row c njobs cpus lsrc rsrc bs0 (flt_K c p ae lsrc toks k) Sc lrow rrow s ->
    toks (rcell c rrow) = [] -> toks (lcell c lrow) = [].
  Proof.
    intros Hae (ch & T & a & b & _ & EK & Htr & Ha & Hb & -> & -> & _) Hy.
    unfold flt_K in EK. unfold lcell, rcell in *.
    rewrite <- (Ltoks_nth c lsrc toks a Ha). rewrite <- (Rtoks_nth c toks ch b Hb) in Hy.
    exact (ft_core_empty_branch k p ae _ _ T a b s EK Htr Hae Hy).
  Qed.
End CellsFilters.

Print Assumptions C11_of_wrapper_result.
Print Assumptions C11_code_cells_jaccard.
Print Assumptions C11_code_cells_cosine.
Print Assumptions C11_code_cells_dice.
Print Assumptions C11_code_cells_overlap_coefficient.
Print Assumptions C11_code_cells_edit_distance.
Print Assumptions C11_code_cells_overlap_filter.
Print Assumptions C11_code_cells_overlap_join.
Print Assumptions C11_code_cells_size_filter.
Print Assumptions C11_code_cells_prefix_filter.
Print Assumptions C11_code_cells_position_filter.
Print Assumptions jcd_empty_branch.
Print Assumptions flt_empty_branch.
