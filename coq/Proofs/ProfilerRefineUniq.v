(* Counting facts for the profiler refinement (Gen/ProfilerGen.v vs Model/Profiler.v):

     nunique_spec      the AVL-accelerated ProfFrame.nunique is the length of the reference
                       first-occurrence list uniq_cells (pandas' hashtable equality)
     abstracts         a column of cells is represented by a column of value ids (Model/Profiler.v):
                       same length, id None exactly where pd.isnull holds, and on the PRESENT cells ids
                       equal exactly where the cells are equal under the hashtable equality (two missing
                       cells may be spelled differently -- None and NaN -- both have the id None)
     nunique_present_abstracts / nmissing_abstracts   then
                       len(S.dropna().unique()) + (1 if sum(pd.isnull(S)) > 0 else 0) = n_unique and
                       sum(pd.isnull(S)) = n_missing of the model.
     nunique_abstracts the old count len(S.unique()) = n_unique, under the additional hypothesis that the
                       hashtable equality also agrees with the ids on the missing cells (one spelling).
   Lists / Z only: axiom-free.                                                                 *)
From Coq Require Import ZArith Bool List String SpecFloat Lia SetoidList.
From SSJ Require Import F64 PyNum Frame ProfFrame Profiler.
Import ListNotations.
Open Scope Z_scope.

(* ------------------------------------------------------------------ first occurrences, generically *)
Fixpoint dedup_by {A : Type} (e : A -> A -> bool) (l : list A) : list A :=
  match l with
  | [] => []
  | x :: l' => x :: filter (fun y => negb (e x y)) (dedup_by e l')
  end.

Lemma uniq_cells_dedup_by l : uniq_cells l = dedup_by cell_key_eq l.
Proof. induction l as [|x l IH]; cbn [uniq_cells dedup_by]; [reflexivity | now rewrite IH]. Qed.

Lemma dedup_dedup_by l : dedup l = dedup_by oz_eqb l.
Proof. induction l as [|x l IH]; cbn [dedup dedup_by]; [reflexivity | now rewrite IH]. Qed.

Lemma dedup_by_incl {A} (e : A -> A -> bool) l x : In x (dedup_by e l) -> In x l.
Proof.
  revert x. induction l as [|a l IH]; intros x; cbn [dedup_by In]; [tauto|].
  intros [H | H]; [left; exact H | right]. apply filter_In in H. apply IH. tauto.
Qed.

Lemma filter_ext_in' {A} (f g : A -> bool) l : (forall x, In x l -> f x = g x) -> filter f l = filter g l.
Proof.
  induction l as [|a l IH]; intros H; cbn [filter]; [reflexivity|].
  rewrite (H a (or_introl eq_refl)), IH; [reflexivity|]. intros x Hx. apply H. right; exact Hx.
Qed.

(* two equalities that agree on the elements of the list give the same first occurrences *)
Lemma dedup_by_ext_in {A} (e1 e2 : A -> A -> bool) l :
  (forall x y, In x l -> In y l -> e1 x y = e2 x y) -> dedup_by e1 l = dedup_by e2 l.
Proof.
  induction l as [|a l IH]; intros H; cbn [dedup_by]; [reflexivity|].
  rewrite <- IH by (intros x y Hx Hy; apply H; right; assumption). f_equal.
  apply filter_ext_in'. intros y Hy. f_equal. apply H; [left; reflexivity | right].
  apply (dedup_by_incl e1). exact Hy.
Qed.

Lemma filter_map_comm {A B} (f : A -> B) (p : B -> bool) l : filter p (map f l) = map f (filter (fun x => p (f x)) l).
Proof.
  induction l as [|a l IH]; cbn [map filter]; [reflexivity|].
  destruct (p (f a)); cbn [map]; now rewrite IH.
Qed.

Lemma dedup_by_map {A B} (f : A -> B) (e : B -> B -> bool) l :
  dedup_by e (map f l) = map f (dedup_by (fun x y => e (f x) (f y)) l).
Proof.
  induction l as [|a l IH]; cbn [map dedup_by]; [reflexivity|].
  rewrite IH, filter_map_comm. reflexivity.
Qed.

Lemma filter_comm {A} (p q : A -> bool) l : filter p (filter q l) = filter q (filter p l).
Proof.
  induction l as [|a l IH]; cbn [filter]; [reflexivity|].
  destruct (q a) eqn:Eq, (p a) eqn:Ep; cbn [filter]; rewrite ?Eq, ?Ep, IH; reflexivity.
Qed.

(* a predicate that separates classes commutes with taking first occurrences *)
Lemma dedup_by_filter {A} (e : A -> A -> bool) (p : A -> bool) l :
  (forall a b, In a l -> In b l -> p a = false -> p b = true -> e a b = false) ->
  filter p (dedup_by e l) = dedup_by e (filter p l).
Proof.
  induction l as [|a l IH]; intros H; cbn [dedup_by filter]; [reflexivity|].
  assert (IH' : filter p (dedup_by e l) = dedup_by e (filter p l)).
  { apply IH. intros x y Hx Hy. apply H; right; assumption. }
  destruct (p a) eqn:Ea; cbn [dedup_by].
  - rewrite filter_comm, IH'. reflexivity.
  - rewrite filter_comm. rewrite <- IH'.
    rewrite (filter_ext_in' (fun y => negb (e a y)) (fun _ => true)).
    + clear. induction (filter p (dedup_by e l)) as [|x r IHr]; cbn [filter]; [reflexivity | now rewrite IHr].
    + intros y Hy. apply filter_In in Hy. destruct Hy as [Hy Hp].
      rewrite (H a y); [reflexivity | left; reflexivity | right; apply (dedup_by_incl e); exact Hy | exact Ea | exact Hp].
Qed.

Lemma filter_length_split {A} (p : A -> bool) l :
  List.length l = (List.length (filter p l) + List.length (filter (fun x => negb (p x)) l))%nat.
Proof.
  induction l as [|a l IH]; cbn [filter List.length]; [reflexivity|].
  destruct (p a); cbn [negb List.length]; lia.
Qed.

(* for an equality test that decides Leibniz equality: no duplicates, same members *)
Lemma NoDup_filter' {A} (f : A -> bool) l : NoDup l -> NoDup (filter f l).
Proof.
  intros H. induction H as [|a l Hn Hd IH]; cbn [filter]; [constructor|].
  destruct (f a); [|assumption]. constructor; [|assumption].
  intros Hin. apply filter_In in Hin. apply Hn. apply Hin.
Qed.

Lemma dedup_by_NoDup {A} (e : A -> A -> bool) l : (forall x, e x x = true) -> NoDup (dedup_by e l).
Proof.
  intros Hr. induction l as [|a l IH]; cbn [dedup_by]; constructor.
  - intros Hin. apply filter_In in Hin. destruct Hin as [_ H]. rewrite Hr in H. discriminate.
  - now apply NoDup_filter'.
Qed.

Lemma dedup_by_In {A} (e : A -> A -> bool) l x :
  (forall a b, e a b = true -> a = b) -> (In x (dedup_by e l) <-> In x l).
Proof.
  intros He. split; [apply dedup_by_incl|].
  induction l as [|a l IH]; cbn [dedup_by In]; [tauto|].
  intros [H | H]; [left; exact H|].
  destruct (e a x) eqn:E; [left; now apply He | right].
  apply filter_In. split; [now apply IH | now rewrite E].
Qed.

(* ------------------------------------------------------------------ the AVL count of the ints *)
Fixpoint ints_of (l : list pyval) : list Z :=
  match l with
  | [] => []
  | PInt z :: t => z :: ints_of t
  | _ :: t => ints_of t
  end.

Lemma filter_is_pint l : filter is_pint l = map PInt (ints_of l).
Proof.
  induction l as [|c l IH]; cbn [filter ints_of map]; [reflexivity|].
  destruct c; cbn [is_pint map]; rewrite IH; reflexivity.
Qed.

Lemma fold_add_int_In l : forall s z,
  ZS.In z (fold_left add_int l s) <-> ZS.In z s \/ In z (ints_of l).
Proof.
  induction l as [|c l IH]; intros s z; cbn [fold_left ints_of].
  - cbn [In]. tauto.
  - rewrite IH. destruct c; cbn [add_int ints_of In]; try tauto.
    rewrite ZS.add_spec. intuition congruence.
Qed.

Lemma InA_eq_In {A} (x : A) l : InA eq x l <-> In x l.
Proof.
  induction l as [|a l IH]; [split; intros H; inversion H|].
  rewrite InA_cons, IH. cbn [In]. intuition congruence.
Qed.

Lemma NoDupA_eq_NoDup {A} (l : list A) : NoDupA eq l -> NoDup l.
Proof.
  intros H. induction H as [|a l Hn Hd IH]; constructor; [|exact IH].
  intros Hin. apply Hn. now apply InA_eq_In.
Qed.

Lemma NoDup_same_length {A} (l1 l2 : list A) :
  NoDup l1 -> NoDup l2 -> (forall x, In x l1 <-> In x l2) -> List.length l1 = List.length l2.
Proof.
  intros N1 N2 H. apply Nat.le_antisymm; apply NoDup_incl_length; try assumption; intros x Hx; now apply H.
Qed.

Lemma avl_cardinal l :
  ZS.cardinal (fold_left add_int l ZS.empty) = List.length (dedup_by Z.eqb (ints_of l)).
Proof.
  rewrite ZS.cardinal_spec. apply NoDup_same_length.
  - apply NoDupA_eq_NoDup. apply ZS.elements_spec2w.
  - apply dedup_by_NoDup. apply Z.eqb_refl.
  - intros z. rewrite <- InA_eq_In, ZS.elements_spec1, fold_add_int_In.
    rewrite dedup_by_In by (intros a b; apply Z.eqb_eq).
    split; [intros [H | H]; [|exact H] | intros H; right; exact H].
    exfalso. revert H. apply ZS.empty_spec.
Qed.

Lemma cell_key_eq_int a b : cell_key_eq (PInt a) (PInt b) = Z.eqb a b.
Proof.
  unfold cell_key_eq. cbn [cell_nan andb orb pv_eqb num_of num_cmp].
  destruct (Z.compare_spec a b) as [H | H | H]; symmetry; [apply Z.eqb_eq; exact H | apply Z.eqb_neq; lia | apply Z.eqb_neq; lia].
Qed.

Lemma cmp_Z_f_nan z f : f_is_nan f = true -> cmp_Z_f z f = None.
Proof. destruct f; cbn [f_is_nan]; intros H; try discriminate; reflexivity. Qed.

(* an int-free cell is never equal to an int, in either direction *)
Lemma int_free_sep z c : int_free c = true ->
  cell_key_eq (PInt z) c = false /\ cell_key_eq c (PInt z) = false.
Proof.
  unfold cell_key_eq. destruct c; cbn [int_free]; intros H; try discriminate;
    cbn [cell_nan andb orb pv_eqb num_of num_cmp]; try (split; reflexivity).
  rewrite (cmp_Z_f_nan z f H). cbn [option_map]. rewrite andb_false_r. split; reflexivity.
Qed.

Theorem nunique_spec : forall cells, nunique cells = List.length (uniq_cells cells).
Proof.
  intros cells. unfold nunique.
  destruct (forallb int_free (filter (fun c => negb (is_pint c)) cells)) eqn:Hf; [|reflexivity].
  rewrite forallb_forall in Hf.
  assert (Hsep : forall a b, In a cells -> In b cells -> is_pint a = true -> is_pint b = false ->
                 cell_key_eq a b = false /\ cell_key_eq b a = false).
  { intros a b Ha Hb Pa Pb. destruct a; try discriminate. apply int_free_sep.
    apply Hf. apply filter_In. split; [exact Hb | now rewrite Pb]. }
  rewrite !uniq_cells_dedup_by.
  rewrite (filter_length_split is_pint (dedup_by cell_key_eq cells)).
  rewrite !dedup_by_filter.
  - f_equal. rewrite filter_is_pint, dedup_by_map, map_length, avl_cardinal.
    f_equal. apply dedup_by_ext_in. intros x y _ _. symmetry. apply cell_key_eq_int.
  - intros a b Ha Hb Pa Pb. apply negb_false_iff in Pa. apply negb_true_iff in Pb.
    apply (Hsep a b Ha Hb Pa Pb).
  - intros a b Ha Hb Pa Pb. apply (Hsep b a Hb Ha Pb Pa).
Qed.

(* ------------------------------------------------------------------ cells vs value ids *)
Definition present (c : pyval) : bool := negb (cell_missing c).

Definition abstracts (cells : list pyval) (col : column) : Prop :=
  List.length cells = List.length col /\
  (forall p q, In p (combine cells col) -> In q (combine cells col) ->
     cell_missing (fst p) = false -> cell_missing (fst q) = false ->
     cell_key_eq (fst p) (fst q) = oz_eqb (snd p) (snd q)) /\
  (forall p, In p (combine cells col) -> cell_missing (fst p) = is_missing (snd p)).

(* the hashtable equality agrees with the ids on ALL cells: every missing cell is spelled the same way *)
Definition one_spelling (cells : list pyval) (col : column) : Prop :=
  forall p q, In p (combine cells col) -> In q (combine cells col) ->
    cell_key_eq (fst p) (fst q) = oz_eqb (snd p) (snd q).

(* executable form, for closed instances *)
Definition abstracts_b (cells : list pyval) (col : column) : bool :=
  let ps := combine cells col in
  Nat.eqb (List.length cells) (List.length col) &&
  forallb (fun p => forallb (fun q => cell_missing (fst p) || cell_missing (fst q) ||
                                      Bool.eqb (cell_key_eq (fst p) (fst q)) (oz_eqb (snd p) (snd q))) ps) ps &&
  forallb (fun p => Bool.eqb (cell_missing (fst p)) (is_missing (snd p))) ps.

Lemma abstracts_b_sound cells col : abstracts_b cells col = true -> abstracts cells col.
Proof.
  unfold abstracts_b, abstracts. intros H.
  apply andb_prop in H. destruct H as [H H3]. apply andb_prop in H. destruct H as [H1 H2].
  apply Nat.eqb_eq in H1. rewrite forallb_forall in H2, H3.
  split; [exact H1|]. split.
  - intros p q Hp Hq Mp Mq. specialize (H2 p Hp). rewrite forallb_forall in H2.
    specialize (H2 q Hq). rewrite Mp, Mq in H2. cbn [orb] in H2. apply eqb_prop. exact H2.
  - intros p Hp. apply eqb_prop. apply H3. exact Hp.
Qed.

Lemma map_fst_combine {A B} (l : list A) (r : list B) :
  List.length l = List.length r -> map fst (combine l r) = l.
Proof.
  revert r. induction l as [|a l IH]; intros [|b r] H; cbn [combine map]; try discriminate; [reflexivity|].
  cbn [List.length] in H. cbn [fst]. now rewrite IH by lia.
Qed.

Lemma map_snd_combine {A B} (l : list A) (r : list B) :
  List.length l = List.length r -> map snd (combine l r) = r.
Proof.
  revert r. induction l as [|a l IH]; intros [|b r] H; cbn [combine map]; try discriminate; [reflexivity|].
  cbn [List.length] in H. cbn [snd]. now rewrite IH by lia.
Qed.

(* the old count, len(S.unique()): needs one spelling of the missing value *)
Theorem nunique_abstracts : forall cells col, abstracts cells col -> one_spelling cells col ->
  Z.of_nat (nunique cells) = n_unique col.
Proof.
  intros cells col (Hlen & _ & _) Heq. unfold n_unique. f_equal.
  rewrite nunique_spec, uniq_cells_dedup_by, dedup_dedup_by.
  rewrite <- (map_fst_combine cells col Hlen) at 1.
  rewrite <- (map_snd_combine cells col Hlen) at 2.
  rewrite !dedup_by_map, !map_length. f_equal.
  apply dedup_by_ext_in. exact Heq.
Qed.

Lemma filter_map_length {A B} (f : A -> B) (p : B -> bool) l :
  List.length (filter p (map f l)) = List.length (filter (fun x => p (f x)) l).
Proof. now rewrite filter_map_comm, map_length. Qed.

Theorem nmissing_abstracts : forall cells col, abstracts cells col ->
  Z.of_nat (List.length (filter cell_missing cells)) = n_missing col.
Proof.
  intros cells col (Hlen & _ & Hm). unfold n_missing. f_equal.
  rewrite <- (map_fst_combine cells col Hlen) at 1.
  rewrite <- (map_snd_combine cells col Hlen) at 2.
  rewrite !filter_map_length. f_equal. apply filter_ext_in'. exact Hm.
Qed.

(* ------------------------------------------------------------------ the present cells + one missing value *)
Lemma oz_eqb_missing_sep a b : is_missing a = false -> is_missing b = true -> oz_eqb a b = false.
Proof. destruct a, b; cbn [is_missing oz_eqb]; intros; try discriminate; reflexivity. Qed.

Lemma oz_eqb_missing_sep' a b : negb (is_missing a) = false -> negb (is_missing b) = true -> oz_eqb a b = false.
Proof. destruct a, b; cbn [is_missing oz_eqb negb]; intros; try discriminate; reflexivity. Qed.

Lemma filter_true {A} (p : A -> bool) l : (forall x, In x l -> p x = true) -> filter p l = l.
Proof.
  induction l as [|a l IH]; intros H; cbn [filter]; [reflexivity|].
  rewrite (H a (or_introl eq_refl)), IH; [reflexivity|]. intros x Hx. apply H. right; exact Hx.
Qed.

Lemma filter_false {A} (p : A -> bool) l : (forall x, In x l -> p x = false) -> filter p l = [].
Proof.
  induction l as [|a l IH]; intros H; cbn [filter]; [reflexivity|].
  rewrite (H a (or_introl eq_refl)), IH; [reflexivity|]. intros x Hx. apply H. right; exact Hx.
Qed.

(* first occurrences among missing ids only: one if there is any *)
Lemma dedup_all_missing (l : column) : (forall x, In x l -> x = None) ->
  List.length (dedup_by oz_eqb l) = match l with [] => O | _ :: _ => 1%nat end.
Proof.
  destruct l as [|a l]; intros H; cbn [dedup_by]; [reflexivity|].
  rewrite filter_false; [reflexivity|].
  intros x Hx. apply dedup_by_incl in Hx.
  rewrite (H a (or_introl eq_refl)), (H x (or_intror Hx)). reflexivity.
Qed.

(* the model's count = distinct present ids + one for the missing value, if it occurs *)
Lemma n_unique_split (col : column) :
  n_unique col
  = Z.of_nat (List.length (dedup_by oz_eqb (filter (fun c => negb (is_missing c)) col)))
    + (if 0 <? n_missing col then 1 else 0).
Proof.
  unfold n_unique, n_missing. rewrite dedup_dedup_by.
  rewrite (filter_length_split is_missing (dedup_by oz_eqb col)).
  rewrite !dedup_by_filter.
  - rewrite dedup_all_missing.
    + destruct (filter is_missing col) as [|a t]; cbn [List.length]; [cbn; lia|].
      replace (0 <? Z.of_nat (S (List.length t))) with true by (symmetry; apply Z.ltb_lt; lia). lia.
    + intros x Hx. apply filter_In in Hx. destruct Hx as [_ Hx]. destruct x; [discriminate | reflexivity].
  - intros a b _ _. apply oz_eqb_missing_sep'.
  - intros a b _ _. apply oz_eqb_missing_sep.
Qed.

(* len(S.dropna().unique()) (+ 1 if sum(pd.isnull(S)) > 0) is the model's number of distinct values, a
   missing value counting as one -- however the missing cells are spelled *)
Theorem nunique_present_abstracts : forall cells col, abstracts cells col ->
  Z.of_nat (nunique_present cells) + (if 0 <? n_missing col then 1 else 0) = n_unique col.
Proof.
  intros cells col (Hlen & Heq & Hm). rewrite n_unique_split. f_equal. f_equal.
  unfold nunique_present. rewrite nunique_spec, uniq_cells_dedup_by.
  rewrite <- (map_fst_combine cells col Hlen) at 1.
  rewrite <- (map_snd_combine cells col Hlen) at 2.
  rewrite !filter_map_comm, !dedup_by_map, !map_length.
  rewrite (filter_ext_in' (fun x => negb (is_missing (snd x))) (fun x => negb (cell_missing (fst x)))
             (combine cells col)) by (intros p Hp; now rewrite (Hm p Hp)).
  f_equal. apply dedup_by_ext_in. intros p q Hp Hq.
  apply filter_In in Hp. apply filter_In in Hq. destruct Hp as [Hp Mp], Hq as [Hq Mq].
  apply negb_true_iff in Mp. apply negb_true_iff in Mq. apply Heq; assumption.
Qed.

(* on a column with one spelling of the missing value the old and the new count coincide *)
Corollary nunique_present_old : forall cells col, abstracts cells col -> one_spelling cells col ->
  Z.of_nat (nunique_present cells) + (if 0 <? n_missing col then 1 else 0) = Z.of_nat (nunique cells).
Proof.
  intros cells col H H1. now rewrite (nunique_present_abstracts _ _ H), (nunique_abstracts _ _ H H1).
Qed.

Lemma abstracts_length cells col : abstracts cells col -> List.length cells = List.length col.
Proof. intros H. apply H. Qed.

Print Assumptions nunique_spec.
Print Assumptions nunique_abstracts.
Print Assumptions nunique_present_abstracts.
Print Assumptions nunique_present_old.
Print Assumptions nmissing_abstracts.
Print Assumptions abstracts_b_sound.
