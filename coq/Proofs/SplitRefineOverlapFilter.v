(* The GENERATED OverlapFilter._filter_tables_split (Gen/JoinGen.v:
   overlap_filter_tables_split_rows; the core of overlap_join and OverlapFilter.filter_tables)
   refines the hand model Joins.overlap_tables_core.
   (a) overlap_filter_rows_fold: the generated function as an explicit list of rows, in the order
       the implementation emits them (right rows in order; inside a right row the candidate dict of
       the inverted index in insertion order, filtered by comp_fn(overlap, overlap_size));
   (b) overlap_filter_tables_split_rows_refines: up to a Permutation these are exactly the rows
       built from the triples of overlap_tables_core, and the header is the generated header
       (+ "_sim_score").  No formulas, no token ordering.  Axiom-free.                       *)
From Coq Require Import ZArith Bool List String Lia Permutation.
From SSJ Require Import F64 PyNum FilterUtilsGen HelperGen TokenOrderingGen ValidationGen IndexGen JoinGen
     TokenOrdering Measures Filters Joins Projection ProjSpec ProjectionFacts OrderingGenFacts
     IndexPyFacts IndexBuildFacts IndexProbeFacts IndexRefine IndexInverted IndexPrefix IndexSize
     JoinGenFacts JoinGenLoop JoinRefine SplitRefineBase.
Import ListNotations.
Open Scope Z_scope.

Section Rows.
  Variables (op : string) (size : pyval) (L : list (list Z)).
  (* what one entry (left row, overlap) of the candidate dict contributes *)
  Definition ov_hits (kv : Z * Z) : list (Z * pyval) :=
    if cmp_op op (PInt (snd kv)) size then [(fst kv, PInt (snd kv))] else [].
  (* (left row, reported score) in output order, for a right row with tokens y *)
  Definition ov_row_pairs (y : list Z) : list (Z * pyval) := flat_map ov_hits (ocands false false L y).
  (* the model's contribution of the pair (left row c, right row j) *)
  Definition ov_tri (y : list Z) (j c : nat) : list triple :=
    let o := cval (ocands false false L y) (Z.of_nat c) in
    if (0 <? o) && cmp_op op (PInt o) size then [(c, j, PInt o)] else [].
  Definition ov_model_row (j : nat) (y : list Z) : list triple :=
    flat_map (ov_tri y j) (seq 0 (List.length L)).
End Rows.

Section Loop.
  Variables (op : string) (size : pyval) (sc : bool).
  Variables (lrows rrows : list (list pyval)).
  Variables (lcolumns rcolumns lkeya rkeya lfa rfa louta routa lpre rpre showp : pyval).
  Variables (ki ji kj jj : nat) (li ri : list nat) (has : bool) (hdr : list pyval).
  Variables (tokenize : pyval -> pyval) (tkL tkR : list pyval -> list Z) (cf : pyval -> pyval -> pyval).
  (* raw token lists of the two tables: the input of the hand model *)
  Let L := map tkL lrows.
  Let R := map tkR rrows.

  (* attribute indices *)
  Hypothesis Hlk : py_index lcolumns lkeya = natpy ki.
  Hypothesis Hlj : py_index lcolumns lfa = natpy ji.
  Hypothesis Hlo : find_output_attribute_indices lcolumns louta = PList (map natpy li).
  Hypothesis Hrk : py_index rcolumns rkeya = natpy kj.
  Hypothesis Hrj : py_index rcolumns rfa = natpy jj.
  Hypothesis Hro : find_output_attribute_indices rcolumns routa = PList (map natpy ri).
  Hypothesis Hhas : py_or (py_is_not_none louta) (py_is_not_none routa) = PBool has.
  Hypothesis Hnohas : has = false -> li = [] /\ ri = [].
  Hypothesis Hhdr : get_output_header_from_tables lkeya rkeya louta routa lpre rpre = PList hdr.
  (* rows: cells are values, the indices are inside every row *)
  Hypothesis Hlrows : forall r, In r lrows -> cols_ok ki ji li r.
  Hypothesis Hrrows : forall r, In r rrows -> cols_ok kj jj ri r.
  (* the tokenizer returns int lists on the filter cells *)
  Hypothesis HtokL : forall r, In r lrows -> tokenize (nth ji r PNone) = pints (tkL r).
  Hypothesis HtokR : forall r, In r rrows -> tokenize (nth jj r PNone) = pints (tkR r).
  (* operator, overlap_size *)
  Hypothesis Hop : comp_op_map op = Some cf.
  Hypothesis Hnum : num_of size <> None.

  Let a := ibuild_abs false false L.

  Lemma ov_lrow_ok : Forall2 (irow_ok (natpy ji) tokenize) (map PList lrows) L.
  Proof.
    unfold L. apply forall2_map_l. intros r Hr. unfold irow_ok.
    destruct (join_cell_ok _ _ _ _ (Hlrows r Hr)) as [E Hne]. rewrite E.
    split; [exact Hne | apply HtokL; exact Hr].
  Qed.

  Definition Iov_outer (acc : list (list pyval))
    (s : pyval * (pyval * (pyval * (pyval * (pyval * (pyval * (pyval * pyval))))))) : Prop :=
    exists t1 t2 t3 t4 t5 t6, s = (PNone, (t1, (t2, (t3, (t4, (t5, (t6, PList (map PList acc)))))))).
  Definition Iov_cand (acc : list (list pyval)) (s : pyval * (pyval * pyval)) : Prop :=
    exists t, s = (PNone, (t, PList (map PList acc))).

  Definition ov_rows_of (rrow : list pyval) : list (list pyval) :=
    map (fun cs : Z * pyval => out_row sc ki kj li ri lrows (fst cs) rrow (snd cs))
        (ov_row_pairs op size L (tkR rrow)).

  Theorem overlap_filter_rows_fold :
    overlap_filter_tables_split_rows (PList (map PList lrows)) (PList (map PList rrows)) lcolumns rcolumns
      lkeya rkeya lfa rfa size (PStr op) louta routa lpre rpre (PBool sc) showp tokenize
    = PTuple [PList (map PList (List.concat (map ov_rows_of rrows)));
              PList (hdr ++ if sc then [PStr "_sim_score"%string] else [])%list].
  Proof.
    unfold overlap_filter_tables_split_rows.
    rewrite Hlk, Hlj. cbv zeta. rewrite Hlo, Hrk, Hrj, Hro.
    repeat (rewrite bindx_ok by reflexivity).
    rewrite (inverted_index_build_eq (natpy ji) tokenize (map PList lrows) L false false ov_lrow_ok).
    fold a. unfold ibuild_result.
    destruct (getitem_tuple3 (iidx_repr (i_idx a)) (pints (i_sizes a))
                (PDict [PTuple [PStr "empty_records"%string; pints (i_empty a)]])) as (G0 & G1 & G2).
    rewrite (bindx_ok (PTuple _)) by reflexivity.
    rewrite G0, G1, G2.
    repeat (rewrite bindx_ok by reflexivity).
    rewrite (comp_op_lookup_str op cf Hop).
    rewrite Hhas. rewrite (bindx_ok (PBool has)) by reflexivity.
    match goal with |- context [py_for (PList (map PList rrows)) ?r ?f ?b ?s0] =>
      pose proof (py_for_inv _ _ _ PList Iov_outer r f b
                    (fun acc rrow => (acc ++ ov_rows_of rrow)%list) rrows s0 []) as HI end.
    lapply HI; [clear HI; intros HI|].
    2:{ unfold Iov_outer. do 6 eexists. reflexivity. }
    lapply HI; [clear HI; intros HI|].
    2:{ intros acc s (t1 & t2 & t3 & t4 & t5 & t6 & ->). reflexivity. }
    lapply HI; [clear HI; intros HI|].
    - destruct HI as (t1 & t2 & t3 & t4 & t5 & t6 & E). rewrite E. clear E.
      cbv beta iota. cbn [bindx]. rewrite Hhdr. rewrite (bindx_ok (PList hdr)) by reflexivity.
      cbn [bindx]. rewrite fold_left_app_map. cbn [app].
      destruct sc; cbn [py_truth py_append strict2 bindx]; rewrite ?app_nil_r; reflexivity.
    - clear HI. intros acc s rrow Hin (t1 & t2 & t3 & t4 & t5 & t6 & ->).
      cbv beta iota.
      destruct (join_cell_ok _ _ _ _ (Hrrows rrow Hin)) as [Ecell Hcell].
      rewrite (bindx_ok (PList rrow)) by reflexivity.
      rewrite Ecell. rewrite (bindx_ok (nth jj rrow PNone)) by exact Hcell.
      rewrite (HtokR rrow Hin). rewrite (bindx_ok (pints _)) by reflexivity.
      rewrite overlap_find_candidates_eq. rewrite (bindx_ok (PDict _)) by reflexivity.
      rewrite py_items_dict. unfold drepr.
      unfold ov_rows_of, ov_row_pairs, ocands. fold a.
      destruct (ocands_ok false false L (tkR rrow)) as (_ & Hkeys & _). unfold ocands in Hkeys. fold a in Hkeys.
      set (h := fun cs : Z * pyval => out_row sc ki kj li ri lrows (fst cs) rrow (snd cs)).
      match goal with |- context [py_for (PList (map ?f ?l)) ?r ?fl ?b ?s0] =>
        pose proof (py_for_inv _ _ _ f Iov_cand r fl b
                      (fun acc' kv => (acc' ++ map h (ov_hits op size kv))%list) l s0 acc) as HI end.
      lapply HI; [clear HI; intros HI|].
      2:{ unfold Iov_cand. eexists. reflexivity. }
      lapply HI; [clear HI; intros HI|].
      2:{ intros acc' s (u & ->). reflexivity. }
      lapply HI; [clear HI; intros HI|].
      + destruct HI as (u & E). rewrite E. clear E. cbv beta iota. cbn [bindx].
        rewrite (fold_left_app_map (fun kv => map h (ov_hits op size kv))).
        rewrite <- map_flat_map.
        unfold Iov_outer. do 6 eexists. reflexivity.
      + clear HI. intros acc' s [c v] Hkv (u & ->). cbv beta iota. cbn [bindx fst snd].
        destruct (getitem_pair (PInt c) (PInt v)) as [P0 P1]. rewrite P0, P1. cbn [bindx].
        assert (Hc : 0 <= c < Z.of_nat (List.length lrows)).
        { specialize (Hkeys c (in_map fst _ _ Hkv)). unfold L in Hkeys. rewrite map_length in Hkeys. exact Hkeys. }
        unfold ov_hits. cbn [fst snd].
        destruct (comp_fn_bool_num op cf (PInt v) size Hop) as [b Eb]; [discriminate | exact Hnum |].
        rewrite (cmp_op_cf op cf (PInt v) size Hop), Eb. cbn [bindx py_truth].
        destruct b.
        2:{ cbn [map]. rewrite app_nil_r. cbn [bindx]. eexists. reflexivity. }
        cbn [map]. unfold h at 1. cbn [fst snd].
        rewrite (getitem_rows lrows c) by lia.
        assert (Hlc : cols_ok ki ji li (nth (Z.to_nat c) lrows [])) by (apply Hlrows, nth_In; lia).
        pose proof (Hrrows rrow Hin) as Hrc.
        emit_row_score Hlc Hrc Hnohas has sc ki kj li ri ji jj ltac:(reflexivity) ltac:(eexists; reflexivity).
  Qed.

  (* ---------------------------------------------------------------- refinement *)
  Lemma ov_row_perm (j : nat) (y : list Z) :
    Permutation (map (fun cs : Z * pyval => (Z.to_nat (fst cs), j, snd cs)) (ov_row_pairs op size L y))
                (ov_model_row op size L j y).
  Proof.
    destruct (ocands_ok false false L y) as (Hnd & Hk & Hp).
    unfold ov_row_pairs, ov_model_row.
    rewrite (gen_row_eq fst (ov_hits op size) (ov_tri op size L y j) j).
    - apply keys_row_perm; [exact Hnd | exact Hk |].
      intros c Hc Hnot. unfold ov_tri, cval. rewrite (aget_none_keys _ _ Hnot). reflexivity.
    - intros [c v] Hin. unfold ov_hits, ov_tri. cbn [fst snd].
      assert (Hc : 0 <= c) by (apply (Hk c), (in_map fst _ _ Hin)).
      rewrite Z2Nat.id by exact Hc. unfold cval. rewrite (aget_nodup _ c v Hnd Hin).
      assert (Hv : (0 <? v) = true) by (apply Z.ltb_lt; eapply Hp; exact Hin).
      rewrite Hv. cbn [andb]. destruct (cmp_op op (PInt v) size); reflexivity.
  Qed.

  Lemma ov_model_eq :
    overlap_tables_core op size L R
    = Some (flat_map (fun jr : nat * list pyval => ov_model_row op size L (fst jr) (tkR (snd jr)))
                     (enumerate rrows)).
  Proof.
    unfold overlap_tables_core. f_equal. unfold R. rewrite enumerate_map, flat_map_map.
    apply flat_map_ext. intros [j rrow]. cbn [fst snd].
    rewrite (flat_map_enumerate [] _ L). unfold ov_model_row.
    apply flat_map_ext_in'. intros c Hc. apply in_seq in Hc. cbn [fst snd]. unfold ov_tri.
    rewrite ocands_val by lia. reflexivity.
  Qed.

  Theorem overlap_filter_tables_split_rows_refines :
    exists (T : list triple) (rows : list (list pyval)),
      overlap_tables_core op size L R = Some T /\
      overlap_filter_tables_split_rows (PList (map PList lrows)) (PList (map PList rrows)) lcolumns rcolumns
        lkeya rkeya lfa rfa size (PStr op) louta routa lpre rpre (PBool sc) showp tokenize
      = PTuple [PList (map PList rows); PList (hdr ++ if sc then [PStr "_sim_score"%string] else [])%list] /\
      Permutation rows (map (triple_row sc lrows rrows ki kj li ri) T) /\
      forall tr, In tr T -> (fst (fst tr) < List.length lrows)%nat /\ (snd (fst tr) < List.length rrows)%nat.
  Proof.
    eexists. eexists. split; [exact ov_model_eq|]. split; [exact overlap_filter_rows_fold|]. split.
    - unfold ov_rows_of.
      apply (chunk_perm sc ki kj li ri lrows rrows tkR (ov_row_pairs op size L) (ov_model_row op size L)).
      intros j rrow _. apply ov_row_perm.
    - apply (chunk_bounds lrows rrows tkR (ov_model_row op size L)).
      intros j y tr Htr. unfold ov_model_row in Htr. apply in_flat_map in Htr.
      destruct Htr as (c & Hc & Htr). apply in_seq in Hc. unfold L in Hc. rewrite map_length in Hc.
      unfold ov_tri in Htr. cbv zeta in Htr.
      destruct (_ && _) in Htr; [|destruct Htr]. destruct Htr as [<-|[]]. cbn [fst snd]. split; [lia | reflexivity].
  Qed.
End Loop.

(* ---------------------------------------------------------------- a concrete instance *)
Definition ovx_lrows : list (list pyval) :=
  [[PInt 1; PStr "a b"]; [PInt 2; PStr "b c"]; [PInt 3; PStr ""]; [PInt 4; PStr "a b c"]].
Definition ovx_rrows : list (list pyval) := [[PInt 5; PStr "b"]; [PInt 6; PStr "a b c"]; [PInt 7; PStr ""]].
Definition ovx_lcols : pyval := PList [PStr "id"; PStr "s"].
Definition ovx_rcols : pyval := PList [PStr "rid"; PStr "t"].

Example ovx_refines :
  exists T rows,
    overlap_tables_core ">=" (PInt 2) (map (fun r => sx_toks (nth 1 r PNone)) ovx_lrows)
                        (map (fun r => sx_toks (nth 1 r PNone)) ovx_rrows) = Some T /\
    overlap_filter_tables_split_rows (PList (map PList ovx_lrows)) (PList (map PList ovx_rrows))
      ovx_lcols ovx_rcols (PStr "id") (PStr "rid") (PStr "s") (PStr "t") (PInt 2) (PStr ">=")
      (PList [PStr "s"]) PNone (PStr "l_") (PStr "r_") (PBool true) (PBool false) sx_tokenize
    = PTuple [PList (map PList rows);
              PList [PStr "l_id"; PStr "r_rid"; PStr "l_s"; PStr "_sim_score"]] /\
    Permutation rows (map (triple_row true ovx_lrows ovx_rrows 0 0 [1%nat] []) T).
Proof.
  destruct (overlap_filter_tables_split_rows_refines ">=" (PInt 2) true ovx_lrows ovx_rrows ovx_lcols ovx_rcols
              (PStr "id") (PStr "rid") (PStr "s") (PStr "t") (PList [PStr "s"]) PNone (PStr "l_") (PStr "r_")
              (PBool false) 0 1 0 1 [1%nat] [] true [PStr "l_id"; PStr "r_rid"; PStr "l_s"] sx_tokenize
              (fun r => sx_toks (nth 1 r PNone)) (fun r => sx_toks (nth 1 r PNone)) py_ge)
    as (T & rows & H1 & H2 & H3 & _); try reflexivity.
  - discriminate.
  - intros r Hr. repeat (destruct Hr as [<-|Hr]; [repeat split; try (apply row_okb_sound; reflexivity); cbn; try lia;
                                                     intros n [<-|[]]; cbn; lia|]). destruct Hr.
  - intros r Hr. repeat (destruct Hr as [<-|Hr]; [repeat split; try (apply row_okb_sound; reflexivity); cbn; try lia;
                                                     intros n []|]). destruct Hr.
  - discriminate.
  - exists T, rows. repeat split; assumption.
Qed.

Eval vm_compute in
  overlap_filter_tables_split_rows (PList (map PList ovx_lrows)) (PList (map PList ovx_rrows))
    ovx_lcols ovx_rcols (PStr "id") (PStr "rid") (PStr "s") (PStr "t") (PInt 2) (PStr ">=")
    (PList [PStr "s"]) PNone (PStr "l_") (PStr "r_") (PBool true) (PBool false) sx_tokenize.
Eval vm_compute in
  option_map (map (triple_row true ovx_lrows ovx_rrows 0 0 [1%nat] []))
    (overlap_tables_core ">=" (PInt 2) (map (fun r => sx_toks (nth 1 r PNone)) ovx_lrows)
                         (map (fun r => sx_toks (nth 1 r PNone)) ovx_rrows)).

Print Assumptions overlap_filter_rows_fold.
Print Assumptions overlap_filter_tables_split_rows_refines.
Print Assumptions ovx_refines.
