(* The three similarity formulas of py_stringmatching evaluated on EQUAL token sets of size a
   (o = a = b) in binary64, WITHOUT the exact-match shortcut.  This is what apply_matcher's
   similarity function computes when the two token lists are equal as sets but listed in a
   different order (the shortcut `set1 == set2` compares lists).
   - Jaccard a/a and Dice 2a/(a+a) are exactly 1.0;
   - cosine a / (sqrt a * sqrt a) is within a few ulp of 1 (e.g. 0.9999999999999998 for a = 2)
     and its 4-decimal rounding is exactly 1.0.
   Arithmetic file: the usual Reals / Flocq axioms appear in Print Assumptions.            *)
From Coq Require Import ZArith Reals Lia Lra Psatz SpecFloat Bool String List.
From Flocq Require Import Core BinarySingleNaN Relative.
From SSJ Require Import F64 F64Spec PyNum FilterUtilsGen Measures ArithSpec ArithCommon ArithC.
Open Scope string_scope.
Open Scope R_scope.

(* ------------------------------------------------------------------ a finite double of value 1 *)
Lemma fin_one_eq x : fin x -> FR x = 1 -> x = f_one.
Proof.
  intros Hx Hv. destruct f_one_spec as [H1 V1].
  destruct (fin_B x Hx) as (bx & Ex & Fx & Rx).
  destruct (fin_B f_one H1) as (b1 & E1 & F1 & R1).
  rewrite <- Ex, <- E1. f_equal. apply B2R_inj.
  - apply is_finite_strict_B2R. rewrite Rx, Hv. lra.
  - apply is_finite_strict_B2R. rewrite R1, V1. lra.
  - rewrite Rx, R1, Hv, V1. reflexivity.
Qed.

Lemma div_self x : 0 < x -> x / x = 1.
Proof. intros H. unfold Rdiv. apply Rinv_r. lra. Qed.

(* ------------------------------------------------------------------ Jaccard, Dice: exactly 1.0 *)
Theorem simJ_self a : (1 <= a < size_bound)%Z -> sim_formula "JACCARD" a a a = f_one.
Proof.
  intros Ha. pose proof (size_R a Ha) as HR. unfold size_bound in Ha.
  change (sim_formula "JACCARD" a a a) with (fdiv (f_of_Z a) (f_of_Z (a + a - a))).
  replace (a + a - a)%Z with a by lia.
  destruct (f_of_size a) as [Hf Hv]. { lia. }
  assert (Hq : FR (f_of_Z a) / FR (f_of_Z a) = 1) by (rewrite Hv; apply div_self; lra).
  destruct (fdiv_pos (f_of_Z a) (f_of_Z a) Hf Hf) as [F V].
  { rewrite Hv. lra. }
  { rewrite Hq. unfold B100. lra. }
  apply fin_one_eq; [exact F|]. rewrite V, Hq. exact RN_1.
Qed.

Theorem simD_self a : (1 <= a < size_bound)%Z -> sim_formula "DICE" a a a = f_one.
Proof.
  intros Ha. pose proof (size_R a Ha) as HR. unfold size_bound in Ha.
  change (sim_formula "DICE" a a a) with (fdiv (fmul (f_of_Z 2) (f_of_Z a)) (f_of_Z (a + a))).
  destruct (f_of_size 2) as [Hf2 Hv2]. { lia. }
  destruct (f_of_size a) as [Hf Hv]. { lia. }
  destruct (f_of_size (a + a)) as [HfS HvS]. { lia. }
  rewrite plus_IZR in HvS.
  assert (H2a : RN (2 * IZR a) = 2 * IZR a).
  { rewrite <- mult_IZR. apply RN_size. lia. }
  destruct (fmul_pos (f_of_Z 2) (f_of_Z a) Hf2 Hf) as [N1 N2].
  { rewrite Hv2, Hv. unfold B100. lra. }
  rewrite Hv2, Hv, H2a in N2.
  assert (Hq : FR (fmul (f_of_Z 2) (f_of_Z a)) / FR (f_of_Z (a + a)) = 1).
  { rewrite N2, HvS. replace (IZR a + IZR a) with (2 * IZR a) by ring. apply div_self. lra. }
  destruct (fdiv_pos _ _ N1 HfS) as [F V].
  { rewrite HvS. lra. }
  { rewrite Hq. unfold B100. lra. }
  apply fin_one_eq; [exact F|]. rewrite V, Hq. exact RN_1.
Qed.

(* ------------------------------------------------------------------ cosine: within 1e-6 of 1 *)
Lemma eps_small : 0 < eps <= / 1000000000.
Proof. rewrite eps_val. lra. Qed.

(* the real-number content: q = RN (x / RN (RN (sqrt x) * RN (sqrt x))) *)
Lemma C_self_real x A P Q : 1 <= x <= 1048575 ->
  A = RN (sqrt x) -> P = RN (A * A) -> Q = x / P ->
  / B100 <= A * A <= B100 /\ 0 < P /\ / B100 <= Q <= B100 /\
  1 - / 1000000 <= RN Q <= 1 + / 1000000.
Proof.
  intros Hx HA HP HQ.
  destruct (sqrt_size x ltac:(lra)) as [S1 S2]. set (s := sqrt x) in *.
  pose proof eps_small as He.
  assert (H0s : / B100 <= s) by (unfold B100; lra).
  pose proof (RN_pos_bounds _ H0s) as [A1 A2]. rewrite <- HA in A1, A2.
  assert (A3 : 1 <= A <= 1024).
  { rewrite HA. split.
    - apply Rle_trans with (RN 1); [rewrite RN_1; lra | apply RN_le; lra].
    - apply Rle_trans with (RN 1024); [apply RN_le; lra | rewrite RN_1024; lra]. }
  clear HA.
  assert (AA : 1 * 1 <= A * A <= 1024 * 1024) by (apply mul_bounds; lra).
  (* A * A within (1 +- eps)^2 of x *)
  assert (AAlo : x * ((1 - eps) * (1 - eps)) <= A * A).
  { replace (x * ((1 - eps) * (1 - eps))) with (s * (1 - eps) * (s * (1 - eps))) by (rewrite <- S2; ring).
    apply Rmult_le_compat; try lra; apply Rmult_le_pos; lra. }
  assert (AAhi : A * A <= x * ((1 + eps) * (1 + eps))).
  { replace (x * ((1 + eps) * (1 + eps))) with (s * (1 + eps) * (s * (1 + eps))) by (rewrite <- S2; ring).
    apply Rmult_le_compat; lra. }
  assert (H0 : / B100 <= A * A) by (unfold B100; lra).
  pose proof (RN_pos_bounds _ H0) as [P1 P2]. rewrite <- HP in P1, P2.
  assert (P3 : 1 <= P).
  { rewrite HP. apply Rle_trans with (RN 1); [rewrite RN_1; lra | apply RN_le; lra]. }
  assert (P4 : P <= 2097152).
  { pose proof (RN_pos_crude _ H0) as [_ H]. rewrite <- HP in H. lra. }
  clear HP.
  (* crude numeric envelopes of the relative errors *)
  set (lo := 1 - / 100000000). set (hi := 1 + / 100000000).
  assert (Elo : lo <= (1 - eps) * (1 - eps) * (1 - eps)).
  { unfold lo. nra. }
  assert (Ehi : (1 + eps) * (1 + eps) * (1 + eps) <= hi).
  { unfold hi. nra. }
  assert (Plo : x * lo <= P).
  { apply Rle_trans with (x * ((1 - eps) * (1 - eps)) * (1 - eps)); [|nra].
    rewrite !Rmult_assoc. apply Rmult_le_compat_l; [lra|]. lra. }
  assert (Phi : P <= x * hi).
  { apply Rle_trans with (x * ((1 + eps) * (1 + eps)) * (1 + eps)); [nra|].
    rewrite !Rmult_assoc. apply Rmult_le_compat_l; [lra|]. lra. }
  assert (HQP : Q * P = x) by (rewrite HQ; apply div_mul; lra).
  assert (HQb : / 2097152 <= Q <= 1048576) by (rewrite HQ; apply div_bounds; lra).
  clear HQ.
  (* Q * lo <= 1 <= Q * hi *)
  assert (Q1 : Q * lo <= 1).
  { apply le_of_mul_r with x; [lra|].
    replace (Q * lo * x) with (Q * (x * lo)) by ring.
    apply Rle_trans with (Q * P); [apply Rmult_le_compat_l; lra | lra]. }
  assert (Q2 : 1 <= Q * hi).
  { apply le_of_mul_r with x; [lra|].
    replace (Q * hi * x) with (Q * (x * hi)) by ring.
    apply Rle_trans with (Q * P); [lra | apply Rmult_le_compat_l; lra]. }
  unfold lo, hi in Q1, Q2.
  split. { unfold B100 in *. lra. }
  split. { lra. }
  split. { unfold B100. lra. }
  assert (H1 : / B100 <= Q) by (unfold B100; lra).
  pose proof (RN_pos_bounds _ H1) as [R1 R2]. rewrite eps_val in R1, R2.
  split; lra.
Qed.

Theorem simC_self a : (1 <= a < size_bound)%Z ->
  fin (sim_formula "COSINE" a a a) /\
  1 - / 1000000 <= FR (sim_formula "COSINE" a a a) <= 1 + / 1000000.
Proof.
  intros Ha. pose proof (size_R a Ha) as HR. unfold size_bound in Ha.
  change (sim_formula "COSINE" a a a)
    with (fdiv (f_of_Z a) (fmul (fsqrt (f_of_Z a)) (fsqrt (f_of_Z a)))).
  destruct (f_of_size a) as [Hf Hv]. { lia. }
  destruct (fsqrt_spec _ Hf) as [A1 A2]. { rewrite Hv. lra. }
  rewrite Hv in A2.
  destruct (C_self_real (IZR a) _ _ _ HR eq_refl eq_refl eq_refl) as (R1 & R2 & R3 & R4).
  destruct (fmul_pos _ _ A1 A1) as [P1 P2]. { rewrite A2. exact R1. }
  rewrite A2 in P2.
  destruct (fdiv_pos _ _ Hf P1) as [Q1 Q2]; rewrite ?P2, ?Hv; try assumption.
  rewrite P2, Hv in Q2. split; [exact Q1|]. rewrite Q2. exact R4.
Qed.

(* ... hence its 4-decimal rounding is exactly 1.0 *)
Theorem cos_self_round a : (1 <= a < size_bound)%Z ->
  f_round_nd (sim_formula "COSINE" a a a) 4 = f_one.
Proof.
  intros Ha. destruct (simC_self a Ha) as [F [L U]].
  destruct (f_round_4_spec _ F) as [Fr Vr].
  { rewrite Rabs_pos_eq; lra. }
  apply fin_one_eq; [exact Fr|]. rewrite Vr.
  apply Rle_antisym.
  - apply (R4_down 1); [simpl; lia | lra].
  - apply (R4_up 1); [simpl; lia | lra].
Qed.

(* rounding 1.0 gives 1.0 *)
Lemma round4_one : f_round_nd f_one 4 = f_one.
Proof. vm_compute. reflexivity. Qed.

(* all three measures, in the form the pipeline proofs consume *)
Definition cos_self_round_stmt : Prop :=
  forall a : Z, (1 <= a < size_bound)%Z -> f_round_nd (sim_formula "COSINE" a a a) 4 = f_one.

Theorem self_round_jcd m a :
  m = "JACCARD" \/ m = "COSINE" \/ m = "DICE" -> (1 <= a < size_bound)%Z ->
  fin (sim_formula m a a a) /\ Rabs (FR (sim_formula m a a a)) <= 2 /\
  f_round_nd (sim_formula m a a a) 4 = f_one.
Proof.
  destruct f_one_spec as [F1 V1].
  intros [-> | [-> | ->]] Ha.
  - rewrite (simJ_self a Ha). split; [exact F1|]. split; [rewrite V1, Rabs_pos_eq; lra | exact round4_one].
  - destruct (simC_self a Ha) as [F [L U]]. split; [exact F|].
    split; [rewrite Rabs_pos_eq; lra | exact (cos_self_round a Ha)].
  - rewrite (simD_self a Ha). split; [exact F1|]. split; [rewrite V1, Rabs_pos_eq; lra | exact round4_one].
Qed.

Corollary self_round4 m a :
  m = "JACCARD" \/ m = "COSINE" \/ m = "DICE" -> (1 <= a < size_bound)%Z ->
  f_round_nd (sim_formula m a a a) 4 = f_one.
Proof. intros Hm Ha. exact (proj2 (proj2 (self_round_jcd m a Hm Ha))). Qed.

(* non-vacuity: the witness of the false alarm, a = 2 *)
Example cos_self_2 :
  sim_formula "COSINE" 2 2 2 <> f_one /\ fltb (sim_formula "COSINE" 2 2 2) f_one = true /\
  f_round_nd (sim_formula "COSINE" 2 2 2) 4 = f_one.
Proof. vm_compute. repeat split; try reflexivity. discriminate. Qed.

Print Assumptions simJ_self.
Print Assumptions simD_self.
Print Assumptions cos_self_round.
