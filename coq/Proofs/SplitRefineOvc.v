(* The GENERATED _overlap_coefficient_join_split (Gen/JoinGen.v:
   overlap_coefficient_join_split_rows) refines the hand model Joins.ovc_core.
   (a) ovc_rows_fold: the generated function as an explicit list of rows in emission order
       (right rows in order; for a right row without tokens under allow_empty the cached empty left
       records, otherwise the candidate dict of the inverted index in insertion order with
       score = float(overlap) / float(min(r_num_tokens, size_cache[cand])) passing the comparison);
   (b) overlap_coefficient_join_split_rows_refines: up to a Permutation these are exactly the rows
       built from the triples of ovc_core; header = generated header (+ "_sim_score").
   The only arithmetic hypothesis: float(n) is not 0.0 for the positive token counts n that occur
   (so the division does not raise); it is discharged by computation in the example.
   Axiom-free.                                                                            *)
From Coq Require Import ZArith Bool List String Lia Permutation.
From SSJ Require Import F64 PyNum FilterUtilsGen HelperGen TokenOrderingGen ValidationGen IndexGen JoinGen
     TokenOrdering Measures Filters Joins Projection ProjSpec ProjectionFacts OrderingGenFacts
     IndexPyFacts IndexBuildFacts IndexProbeFacts IndexRefine IndexInverted IndexPrefix IndexSize
     JoinGenFacts JoinGenLoop JoinRefine SplitRefineBase.
Import ListNotations.
Open Scope Z_scope.

(* float(overlap) / float(min(r_num_tokens, l_num_tokens)) *)
Definition ovc_score (o ny nx : Z) : pyval :=
  py_truediv (py_float (PInt o)) (py_float (py_min (PInt ny) (PInt nx))).

Lemma ovc_score_float o ny nx : f_is_zero (f_of_Z (Z.min ny nx)) = false ->
  exists f, ovc_score o ny nx = PFloat f.
Proof.
  intros H. unfold ovc_score. rewrite py_min_int.
  change (py_float (PInt o)) with (PFloat (f_of_Z o)).
  change (py_float (PInt (Z.min ny nx))) with (PFloat (f_of_Z (Z.min ny nx))).
  unfold py_truediv, strict2. cbn [num_of to_f]. rewrite H. eexists. reflexivity.
Qed.

Lemma overlap_count_nil_l y : overlap_count [] y = 0.
Proof.
  unfold overlap_count.
  assert (G : forall c0, fold_left (fun c w => c + countZ w []) y c0 = c0); [|apply G].
  induction y as [|w y IH]; intros c0; cbn [fold_left]; [reflexivity|].
  cbn [countZ]. rewrite Z.add_0_r. apply IH.
Qed.
Lemma overlap_count_pos x y : 0 < overlap_count x y -> 0 < len x /\ 0 < len y.
Proof.
  intros H. split.
  - destruct x as [|w x]; [rewrite overlap_count_nil_l in H; lia | unfold len; cbn [List.length]; lia].
  - destruct y as [|w y]; [cbv in H; discriminate H | unfold len; cbn [List.length]; lia].
Qed.

Section Rows.
  Variables (t : pyval) (op : string) (ae : bool) (L : list (list Z)).
  Definition ovc_hits (y : list Z) (kv : Z * Z) : list (Z * pyval) :=
    let s := ovc_score (snd kv) (len y) (len (nth (Z.to_nat (fst kv)) L [])) in
    if cmp_op op s t then [(fst kv, s)] else [].
  Definition ovc_row_pairs (y : list Z) : list (Z * pyval) :=
    if ae && (len y =? 0) then map (fun c => (c, PFloat f_one)) (empty_from 0 L)
    else flat_map (ovc_hits y) (ocands true ae L y).
  Definition ovc_tri (y : list Z) (j c : nat) : list triple :=
    let o := cval (ocands true ae L y) (Z.of_nat c) in
    if 0 <? o then
      let s := ovc_score o (len y) (len (nth c L [])) in
      if cmp_op op s t then [(c, j, s)] else []
    else [].
  Definition ovc_model_row (j : nat) (y : list Z) : list triple :=
    if ae && (len y =? 0) then
      flat_map (fun cx : nat * list Z =>
                  if len (snd cx) =? 0 then [(fst cx, j, PFloat f_one)] else []) (enumerate L)
    else flat_map (ovc_tri y j) (seq 0 (List.length L)).
End Rows.

Section Loop.
  Variables (t : pyval) (op : string) (ae sc : bool).
  Variables (lrows rrows : list (list pyval)).
  Variables (lcolumns rcolumns lkeya rkeya ljoina rjoina louta routa lpre rpre showp : pyval).
  Variables (ki ji kj jj : nat) (li ri : list nat) (has : bool) (hdr : list pyval).
  Variables (tokenize : pyval -> pyval) (tkL tkR : list pyval -> list Z) (cf : pyval -> pyval -> pyval).
  Let L := map tkL lrows.
  Let R := map tkR rrows.

  Hypothesis Hlk : py_index lcolumns lkeya = natpy ki.
  Hypothesis Hlj : py_index lcolumns ljoina = natpy ji.
  Hypothesis Hlo : find_output_attribute_indices lcolumns louta = PList (map natpy li).
  Hypothesis Hrk : py_index rcolumns rkeya = natpy kj.
  Hypothesis Hrj : py_index rcolumns rjoina = natpy jj.
  Hypothesis Hro : find_output_attribute_indices rcolumns routa = PList (map natpy ri).
  Hypothesis Hhas : py_or (py_is_not_none louta) (py_is_not_none routa) = PBool has.
  Hypothesis Hnohas : has = false -> li = [] /\ ri = [].
  Hypothesis Hhdr : get_output_header_from_tables lkeya rkeya louta routa lpre rpre = PList hdr.
  Hypothesis Hlrows : forall r, In r lrows -> cols_ok ki ji li r.
  Hypothesis Hrrows : forall r, In r rrows -> cols_ok kj jj ri r.
  Hypothesis HtokL : forall r, In r lrows -> tokenize (nth ji r PNone) = pints (tkL r).
  Hypothesis HtokR : forall r, In r rrows -> tokenize (nth jj r PNone) = pints (tkR r).
  Hypothesis Hop : comp_op_map op = Some cf.
  Hypothesis Hnum : num_of t <> None.
  (* float(n) <> 0.0 for the positive token counts that occur *)
  Hypothesis Hfz : forall x, In x L \/ In x R -> 0 < len x -> f_is_zero (f_of_Z (len x)) = false.

  Let a := ibuild_abs true ae L.

  Lemma ovc_lrow_ok : Forall2 (irow_ok (natpy ji) tokenize) (map PList lrows) L.
  Proof.
    unfold L. apply forall2_map_l. intros r Hr. unfold irow_ok.
    destruct (join_cell_ok _ _ _ _ (Hlrows r Hr)) as [E Hne]. rewrite E.
    split; [exact Hne | apply HtokL; exact Hr].
  Qed.

  (* the score of a dict entry is a float *)
  Lemma ovc_entry_score (y : list Z) (c v : Z) : In y R -> In (c, v) (ocands true ae L y) ->
    0 <= c < Z.of_nat (List.length L) /\
    exists f, ovc_score v (len y) (len (nth (Z.to_nat c) L [])) = PFloat f.
  Proof.
    intros Hy Hin. destruct (ocands_ok true ae L y) as (Hnd & Hk & Hp).
    assert (Hc : 0 <= c < Z.of_nat (List.length L)) by (apply Hk, (in_map fst _ _ Hin)).
    split; [exact Hc|].
    pose proof (Hp _ _ Hin) as Hv.
    pose proof (ocands_val true ae L y (Z.to_nat c)) as Hval. rewrite Z2Nat.id in Hval by lia.
    unfold cval in Hval. rewrite (aget_nodup _ c v Hnd Hin) in Hval. specialize (Hval ltac:(lia)).
    rewrite Hval in Hv. destruct (overlap_count_pos _ _ Hv) as [Hx Hy0].
    apply ovc_score_float.
    assert (HxL : In (nth (Z.to_nat c) L []) L) by (apply nth_In; lia).
    destruct (Z.min_spec (len y) (len (nth (Z.to_nat c) L []))) as [[_ ->]|[_ ->]].
    - apply Hfz; [right; exact Hy | exact Hy0].
    - apply Hfz; [left; exact HxL | exact Hx].
  Qed.

  Definition Iovc_outer (acc : list (list pyval))
    (s : pyval * (pyval * (pyval * (pyval * (pyval * (pyval * (pyval * (pyval * (pyval * (pyval * pyval))))))))))
    : Prop :=
    exists t1 t2 t3 t4 t5 t7 t8 t9 t10,
      s = (PNone, (t1, (t2, (t3, (t4, (t5, (PList (map PList acc), (t7, (t8, (t9, t10)))))))))).
  Definition Iovc_cand (acc : list (list pyval)) (s : pyval * (pyval * (pyval * pyval))) : Prop :=
    exists t1 t2, s = (PNone, (t1, (t2, PList (map PList acc)))).

  Definition ovc_rows_of (rrow : list pyval) : list (list pyval) :=
    map (fun cs : Z * pyval => out_row sc ki kj li ri lrows (fst cs) rrow (snd cs))
        (ovc_row_pairs t op ae L (tkR rrow)).

  Theorem ovc_rows_fold :
    overlap_coefficient_join_split_rows (PList (map PList lrows)) (PList (map PList rrows)) lcolumns rcolumns
      lkeya rkeya ljoina rjoina t (PStr op) (PBool ae) louta routa lpre rpre (PBool sc) showp tokenize
    = PTuple [PList (map PList (List.concat (map ovc_rows_of rrows)));
              PList (hdr ++ if sc then [PStr "_sim_score"%string] else [])%list].
  Proof.
    unfold overlap_coefficient_join_split_rows.
    rewrite Hlk, Hlj, Hlo, Hrk, Hrj, Hro. cbv zeta.
    repeat (rewrite bindx_ok by reflexivity).
    rewrite (inverted_index_build_eq (natpy ji) tokenize (map PList lrows) L true ae ovc_lrow_ok).
    fold a. unfold ibuild_result.
    destruct (getitem_tuple3 (iidx_repr (i_idx a)) (pints (i_sizes a))
                (PDict [PTuple [PStr "empty_records"%string; pints (i_empty a)]])) as (G0 & G1 & G2).
    rewrite (bindx_ok (PTuple _)) by reflexivity.
    rewrite G0, G1, G2.
    repeat (rewrite bindx_ok by reflexivity).
    rewrite getitem_empty_records.
    repeat (rewrite bindx_ok by reflexivity).
    rewrite (comp_op_lookup_str op cf Hop).
    rewrite Hhas. rewrite (bindx_ok (PBool has)) by reflexivity.
    match goal with |- context [py_for (PList (map PList rrows)) ?r ?f ?b ?s0] =>
      pose proof (py_for_inv _ _ _ PList Iovc_outer r f b
                    (fun acc rrow => (acc ++ ovc_rows_of rrow)%list) rrows s0 []) as HI end.
    lapply HI; [clear HI; intros HI|].
    2:{ unfold Iovc_outer. do 9 eexists. reflexivity. }
    lapply HI; [clear HI; intros HI|].
    2:{ intros acc s (t1 & t2 & t3 & t4 & t5 & t7 & t8 & t9 & t10 & ->). reflexivity. }
    lapply HI; [clear HI; intros HI|].
    - destruct HI as (t1 & t2 & t3 & t4 & t5 & t7 & t8 & t9 & t10 & E). rewrite E. clear E.
      cbv beta iota. cbn [bindx]. rewrite Hhdr. rewrite (bindx_ok (PList hdr)) by reflexivity.
      cbn [bindx]. rewrite fold_left_app_map. cbn [app].
      destruct sc; cbn [py_truth py_append strict2 bindx]; rewrite ?app_nil_r; reflexivity.
    - clear HI. intros acc s rrow Hin (t1 & t2 & t3 & t4 & t5 & t7 & t8 & t9 & t10 & ->).
      cbv beta iota.
      destruct (join_cell_ok _ _ _ _ (Hrrows rrow Hin)) as [Ecell Hcell].
      rewrite (bindx_ok (PList rrow)) by reflexivity.
      rewrite Ecell. rewrite (bindx_ok (nth jj rrow PNone)) by exact Hcell.
      rewrite (HtokR rrow Hin). rewrite (bindx_ok (pints _)) by reflexivity.
      rewrite py_len_pints. rewrite (bindx_ok (PInt _)) by reflexivity.
      rewrite py_eq_int_val, py_and_bools.
      rewrite (bindx_ok (PBool _)) by reflexivity. cbn [py_truth].
      unfold ovc_rows_of, ovc_row_pairs.
      assert (Hy : In (tkR rrow) R) by (unfold R; apply in_map; exact Hin).
      destruct (ae && (len (tkR rrow) =? 0)) eqn:Ebr.
      + (* allow_empty and no tokens: the cached empty left records *)
        assert (Eae : ae = true) by (destruct ae; [reflexivity | discriminate Ebr]).
        unfold a. rewrite ibuild_empty. rewrite Eae. unfold pints at 1.
        match goal with |- context [py_for (PList (map PInt ?l)) ?r ?f ?b ?s0] =>
          pose proof (py_for_inv _ _ _ PInt Irows r f b
                        (fun acc' c => (acc' ++ [out_row sc ki kj li ri lrows c rrow (PFloat f_one)])%list)
                        l s0 acc) as HI end.
        lapply HI; [clear HI; intros HI|].
        2:{ unfold Irows. eexists. reflexivity. }
        lapply HI; [clear HI; intros HI|].
        2:{ intros acc' s (u & ->). reflexivity. }
        lapply HI; [clear HI; intros HI|].
        * destruct HI as (u & E). rewrite E. clear E. cbv beta iota. cbn [bindx].
          rewrite fold_left_snoc_map, map_map. cbn [fst snd].
          unfold Iovc_outer. do 9 eexists. reflexivity.
        * clear HI. intros acc' s c Hc (u & ->). cbv beta iota. cbn [bindx].
          apply empty_from_bounds in Hc. unfold nrows, L in Hc. rewrite map_length in Hc.
          rewrite (getitem_rows lrows c) by lia.
          assert (Hlc : cols_ok ki ji li (nth (Z.to_nat c) lrows [])) by (apply Hlrows, nth_In; lia).
          pose proof (Hrrows rrow Hin) as Hrc.
          rewrite f_one_lit.
          emit_row_score Hlc Hrc Hnohas has sc ki kj li ri ji jj ltac:(reflexivity) ltac:(eexists; reflexivity).
      + (* candidates of the overlap filter *)
        rewrite overlap_find_candidates_eq. rewrite (bindx_ok (PDict _)) by reflexivity.
        rewrite py_items_dict. unfold drepr. unfold ocands. fold a.
        pose proof (ovc_entry_score (tkR rrow)) as Hent. unfold ocands in Hent. fold a in Hent.
        set (h := fun cs : Z * pyval => out_row sc ki kj li ri lrows (fst cs) rrow (snd cs)).
        match goal with |- context [py_for (PList (map ?f ?l)) ?r ?fl ?b ?s0] =>
          pose proof (py_for_inv _ _ _ f Iovc_cand r fl b
                        (fun acc' kv => (acc' ++ map h (ovc_hits t op L (tkR rrow) kv))%list) l s0 acc) as HI end.
        lapply HI; [clear HI; intros HI|].
        2:{ unfold Iovc_cand. do 2 eexists. reflexivity. }
        lapply HI; [clear HI; intros HI|].
        2:{ intros acc' s (u1 & u2 & ->). reflexivity. }
        lapply HI; [clear HI; intros HI|].
        * destruct HI as (u1 & u2 & E). rewrite E. clear E. cbv beta iota. cbn [bindx].
          rewrite (fold_left_app_map (fun kv => map h (ovc_hits t op L (tkR rrow) kv))).
          rewrite <- map_flat_map.
          unfold Iovc_outer. do 9 eexists. reflexivity.
        * clear HI. intros acc' s [c v] Hkv (u1 & u2 & ->). cbv beta iota. cbn [bindx fst snd].
          destruct (getitem_pair (PInt c) (PInt v)) as [P0 P1]. rewrite P0, P1. cbn [bindx].
          destruct (Hent c v Hy Hkv) as [HcL [f Ef]].
          assert (Hc : 0 <= c < Z.of_nat (List.length lrows)) by (unfold L in HcL; rewrite map_length in HcL; exact HcL).
          unfold a. rewrite ibuild_sizes.
          rewrite getitem_pintsZ by (unfold len; rewrite map_length; exact HcL).
          change 0 with (len []) at 1. rewrite (map_nth len L []).
          unfold ovc_hits. cbn [fst snd].
          fold (ovc_score v (len (tkR rrow)) (len (nth (Z.to_nat c) L []))).
          rewrite Ef. cbn [bindx].
          destruct (comp_fn_bool op cf f t Hop Hnum) as [b Eb].
          rewrite (cmp_op_cf op cf (PFloat f) t Hop), Eb. cbn [bindx py_truth].
          destruct b.
          2:{ cbn [map]. rewrite app_nil_r. cbn [bindx]. do 2 eexists. reflexivity. }
          cbn [map]. unfold h at 1. cbn [fst snd].
          rewrite (getitem_rows lrows c) by lia.
          assert (Hlc : cols_ok ki ji li (nth (Z.to_nat c) lrows [])) by (apply Hlrows, nth_In; lia).
          pose proof (Hrrows rrow Hin) as Hrc.
          emit_row_score Hlc Hrc Hnohas has sc ki kj li ri ji jj ltac:(reflexivity) ltac:(do 2 eexists; reflexivity).
  Qed.

  (* ---------------------------------------------------------------- refinement *)
  Lemma ovc_row_perm (j : nat) (y : list Z) :
    Permutation (map (fun cs : Z * pyval => (Z.to_nat (fst cs), j, snd cs)) (ovc_row_pairs t op ae L y))
                (ovc_model_row t op ae L j y).
  Proof.
    unfold ovc_row_pairs, ovc_model_row. destruct (ae && (len y =? 0)).
    - rewrite map_map. cbn [fst snd]. change 0 with (Z.of_nat 0).
      rewrite (empty_from_enumerate (fun c => (c, j, PFloat f_one)) L 0). apply Permutation_refl.
    - destruct (ocands_ok true ae L y) as (Hnd & Hk & Hp).
      rewrite (gen_row_eq fst (ovc_hits t op L y) (ovc_tri t op ae L y j) j).
      + apply keys_row_perm; [exact Hnd | exact Hk |].
        intros c Hc Hnot. unfold ovc_tri, cval. rewrite (aget_none_keys _ _ Hnot). reflexivity.
      + intros [c v] Hin. unfold ovc_hits, ovc_tri. cbn [fst snd].
        assert (Hc : 0 <= c) by (apply (Hk c), (in_map fst _ _ Hin)).
        rewrite Z2Nat.id by exact Hc. unfold cval. rewrite (aget_nodup _ c v Hnd Hin).
        assert (Hv : (0 <? v) = true) by (apply Z.ltb_lt; eapply Hp; exact Hin).
        rewrite Hv. cbv zeta. destruct (cmp_op op _ t); reflexivity.
  Qed.

  Lemma ovc_model_eq :
    ovc_core t op ae L R
    = Some (flat_map (fun jr : nat * list pyval => ovc_model_row t op ae L (fst jr) (tkR (snd jr)))
                     (enumerate rrows)).
  Proof.
    unfold ovc_core. f_equal. unfold R. rewrite enumerate_map, flat_map_map.
    apply flat_map_ext. intros [j rrow]. cbn [fst snd]. unfold ovc_model_row.
    destruct (ae && (len (tkR rrow) =? 0)); [reflexivity|].
    rewrite (flat_map_enumerate [] _ L).
    apply flat_map_ext_in'. intros c Hc. apply in_seq in Hc. cbn [fst snd]. unfold ovc_tri.
    rewrite ocands_val by lia. reflexivity.
  Qed.

  Theorem overlap_coefficient_join_split_rows_refines :
    exists (T : list triple) (rows : list (list pyval)),
      ovc_core t op ae L R = Some T /\
      overlap_coefficient_join_split_rows (PList (map PList lrows)) (PList (map PList rrows)) lcolumns rcolumns
        lkeya rkeya ljoina rjoina t (PStr op) (PBool ae) louta routa lpre rpre (PBool sc) showp tokenize
      = PTuple [PList (map PList rows); PList (hdr ++ if sc then [PStr "_sim_score"%string] else [])%list] /\
      Permutation rows (map (triple_row sc lrows rrows ki kj li ri) T) /\
      forall tr, In tr T -> (fst (fst tr) < List.length lrows)%nat /\ (snd (fst tr) < List.length rrows)%nat.
  Proof.
    eexists. eexists. split; [exact ovc_model_eq|]. split; [exact ovc_rows_fold|]. split.
    - unfold ovc_rows_of.
      apply (chunk_perm sc ki kj li ri lrows rrows tkR (ovc_row_pairs t op ae L) (ovc_model_row t op ae L)).
      intros j rrow _. apply ovc_row_perm.
    - apply (chunk_bounds lrows rrows tkR (ovc_model_row t op ae L)).
      assert (El : List.length L = List.length lrows) by (unfold L; apply map_length).
      intros j y tr Htr. unfold ovc_model_row in Htr.
      destruct (ae && (len y =? 0)); apply in_flat_map in Htr; destruct Htr as (x & Hx & Htr).
      + destruct (len (snd x) =? 0); [|destruct Htr]. destruct Htr as [<-|[]]. cbn [fst snd]. split; [|reflexivity].
        destruct x as [c xs]. apply in_combine_l in Hx. apply in_seq in Hx. cbn [fst]. lia.
      + apply in_seq in Hx. unfold ovc_tri in Htr. cbv zeta in Htr.
        destruct (0 <? _) in Htr; [|destruct Htr].
        destruct (cmp_op op _ t) in Htr; [|destruct Htr].
        destruct Htr as [<-|[]]. cbn [fst snd]. split; [lia | reflexivity].
  Qed.
End Loop.

(* ---------------------------------------------------------------- a concrete instance *)
Definition ocx_lrows : list (list pyval) :=
  [[PInt 1; PStr "a b"]; [PInt 2; PStr "b c"]; [PInt 3; PStr ""]; [PInt 4; PStr "a b c"]].
Definition ocx_rrows : list (list pyval) := [[PInt 5; PStr "b"]; [PInt 6; PStr "a b c"]; [PInt 7; PStr ""]].
Definition ocx_lcols : pyval := PList [PStr "id"; PStr "s"].
Definition ocx_rcols : pyval := PList [PStr "rid"; PStr "t"].
Definition ocx_t : pyval := PFloat (mkF 3 (-2)).   (* 0.75 *)

Example ocx_refines :
  exists T rows,
    ovc_core ocx_t ">=" true (map (fun r => sx_toks (nth 1 r PNone)) ocx_lrows)
             (map (fun r => sx_toks (nth 1 r PNone)) ocx_rrows) = Some T /\
    overlap_coefficient_join_split_rows (PList (map PList ocx_lrows)) (PList (map PList ocx_rrows))
      ocx_lcols ocx_rcols (PStr "id") (PStr "rid") (PStr "s") (PStr "t") ocx_t (PStr ">=") (PBool true)
      PNone (PList [PStr "t"]) (PStr "l_") (PStr "r_") (PBool true) (PBool false) sx_tokenize
    = PTuple [PList (map PList rows);
              PList [PStr "l_id"; PStr "r_rid"; PStr "r_t"; PStr "_sim_score"]] /\
    Permutation rows (map (triple_row true ocx_lrows ocx_rrows 0 0 [] [1%nat]) T).
Proof.
  destruct (overlap_coefficient_join_split_rows_refines ocx_t ">=" true true ocx_lrows ocx_rrows ocx_lcols ocx_rcols
              (PStr "id") (PStr "rid") (PStr "s") (PStr "t") PNone (PList [PStr "t"]) (PStr "l_") (PStr "r_")
              (PBool false) 0 1 0 1 [] [1%nat] true [PStr "l_id"; PStr "r_rid"; PStr "r_t"] sx_tokenize
              (fun r => sx_toks (nth 1 r PNone)) (fun r => sx_toks (nth 1 r PNone)) py_ge)
    as (T & rows & H1 & H2 & H3 & _); try reflexivity.
  - discriminate.
  - intros r Hr. repeat (destruct Hr as [<-|Hr]; [repeat split; try (apply row_okb_sound; reflexivity); cbn; try lia;
                                                     intros n []|]). destruct Hr.
  - intros r Hr. repeat (destruct Hr as [<-|Hr]; [repeat split; try (apply row_okb_sound; reflexivity); cbn; try lia;
                                                     intros n [<-|[]]; cbn; lia|]). destruct Hr.
  - discriminate.
  - intros x [Hx|Hx] Hpos; vm_compute in Hx;
      repeat (destruct Hx as [<-|Hx];
              [first [vm_compute; reflexivity | exfalso; vm_compute in Hpos; discriminate Hpos]|]); destruct Hx.
  - exists T, rows. repeat split; assumption.
Qed.

Eval vm_compute in
  overlap_coefficient_join_split_rows (PList (map PList ocx_lrows)) (PList (map PList ocx_rrows))
    ocx_lcols ocx_rcols (PStr "id") (PStr "rid") (PStr "s") (PStr "t") ocx_t (PStr ">=") (PBool true)
    PNone (PList [PStr "t"]) (PStr "l_") (PStr "r_") (PBool true) (PBool false) sx_tokenize.
Eval vm_compute in
  option_map (map (triple_row true ocx_lrows ocx_rrows 0 0 [] [1%nat]))
    (ovc_core ocx_t ">=" true (map (fun r => sx_toks (nth 1 r PNone)) ocx_lrows)
              (map (fun r => sx_toks (nth 1 r PNone)) ocx_rrows)).

Print Assumptions ovc_rows_fold.
Print Assumptions overlap_coefficient_join_split_rows_refines.
Print Assumptions ocx_refines.
