(* (a) The GENERATED per-chunk join loop (Gen/JoinGen.v: set_sim_join_rows) as a fold with an
   explicit per-right-row function.
   Under the row hypotheses, set_sim_join_rows returns the pair
       ( concat [ rows_of r (yof r) | r <- rtable ] ,  header (+ "_sim_score") )
   where rows_of lists, for one right row, the output rows in the order the implementation
   emits them: the cached empty left records if allow_empty and the row has no tokens, otherwise
   the entries of the candidate dict (insertion order) with a positive overlap whose rounded
   score passes the comparison.  Formulas stay opaque (g_lb / g_ub / g_pl / g_ot are only
   assumed to return ints / numbers).  Axiom-free.                                        *)
From Coq Require Import ZArith Bool List String Lia.
From SSJ Require Import F64 PyNum FilterUtilsGen HelperGen TokenOrderingGen ValidationGen IndexGen JoinGen
     TokenOrdering Measures Filters Joins Projection ProjSpec ProjectionFacts
     IndexPyFacts IndexBuildFacts IndexProbeFacts JoinGenFacts.
Import ListNotations.
Open Scope Z_scope.

Definition zint (v : pyval) : Z := match v with PInt k => k | _ => 0 end.

(* what the probe of a right row with ordered tokens y needs from the formulas *)
Definition probe_ok (p : fparams) (y : list Z) : Prop :=
  exists lb ub k, g_lb p (len y) = PInt lb /\ g_ub p (len y) = PInt ub /\ g_pl p (len y) = PInt k /\
    forall s, 0 <= s -> lb <= s <= ub -> num_of (g_ot p s (len y)) <> None.

Section Rows.
  Variables (p : fparams) (op : string) (ae sc : bool) (ki kj : nat) (li ri : list nat).
  Variables (lrows : list (list pyval)) (Lo : list (list Z)).

  Definition with_score (s : pyval) (cells : list pyval) : list pyval :=
    (cells ++ if sc then [s] else [])%list.
  Definition out_row (c : Z) (rrow : list pyval) (s : pyval) : list pyval :=
    with_score s (row_cells ki kj li ri (nth (Z.to_nat c) lrows []) rrow).
  Definition score (x y : list Z) : pyval := PFloat (f_round_nd (sim_tok (fm p) x y) 4).
  (* the candidate dict of PositionFilter.find_candidates, as an association list *)
  Definition cands (y : list Z) : list (Z * Z) :=
    let a := build_abs p ae true Lo in
    probe_abs p (b_idx a) (b_sizes a) (b_min a) (b_max a) y
              (zint (g_lb p (len y))) (zint (g_ub p (len y))) (zint (g_pl p (len y))).
  Definition cand_hits (y : list Z) (kv : Z * Z) : list (Z * pyval) :=
    if 0 <? snd kv then
      let s := score (nth (Z.to_nat (fst kv)) Lo []) y in
      if cmp_op op s (ft p) then [(fst kv, s)] else []
    else [].
  (* (left row, reported score) in output order, for a right row with ordered tokens y *)
  Definition row_pairs (y : list Z) : list (Z * pyval) :=
    if ae && (len y =? 0) then map (fun c => (c, PFloat f_one)) (empty_from 0 Lo)
    else flat_map (cand_hits y) (cands y).
  Definition rows_of (rrow : list pyval) (y : list Z) : list (list pyval) :=
    map (fun cs => out_row (fst cs) rrow (snd cs)) (row_pairs y).
End Rows.

Lemma forall2_map_l {A B C} (R : B -> C -> Prop) (f : A -> B) (g : A -> C) (l : list A) :
  (forall a, In a l -> R (f a) (g a)) -> Forall2 R (map f l) (map g l).
Proof.
  induction l as [|a l IH]; intros H; cbn [map]; constructor.
  - apply H. left; reflexivity.
  - apply IH. intros b Hb. apply H. right; exact Hb.
Qed.

Section Loop.
  Variables (p : fparams) (op : string) (ae sc : bool).
  Variables (lrows rrows : list (list pyval)).
  Variables (lcolumns rcolumns lkeya rkeya ljoina rjoina louta routa lpre rpre showp : pyval).
  Variables (ki ji kj jj : nat) (li ri : list nat) (has : bool) (hdr : list pyval).
  Variables (tokenize : pyval -> pyval) (sim_fn : pyval -> pyval -> pyval).
  Variables (ordering : pyval) (xof yof : list pyval -> list Z) (cf : pyval -> pyval -> pyval).
  Let ltable := PList (map PList lrows).
  Let rtable := PList (map PList rrows).
  Let Lo := map xof lrows.
  Let Ro := map yof rrows.

  (* attribute indices *)
  Hypothesis Hlk : py_index lcolumns lkeya = natpy ki.
  Hypothesis Hlj : py_index lcolumns ljoina = natpy ji.
  Hypothesis Hlo : find_output_attribute_indices lcolumns louta = PList (map natpy li).
  Hypothesis Hrk : py_index rcolumns rkeya = natpy kj.
  Hypothesis Hrj : py_index rcolumns rjoina = natpy jj.
  Hypothesis Hro : find_output_attribute_indices rcolumns routa = PList (map natpy ri).
  Hypothesis Hhas : py_or (py_is_not_none louta) (py_is_not_none routa) = PBool has.
  Hypothesis Hnohas : has = false -> li = [] /\ ri = [].
  Hypothesis Hhdr : get_output_header_from_tables lkeya rkeya louta routa lpre rpre = PList hdr.
  (* rows: cells are values, the indices are inside every row *)
  Hypothesis Hlrows : forall r, In r lrows -> cols_ok ki ji li r.
  Hypothesis Hrrows : forall r, In r rrows -> cols_ok kj jj ri r.
  (* the token ordering and the ordered token lists of the rows *)
  Hypothesis Hord : gen_token_ordering_for_tables (PList [ltable; rtable]) (PList [natpy ji; natpy jj])
                                                  (PStr (fm p)) tokenize = ordering.
  Hypothesis Hordne : is_exc ordering = false.
  Hypothesis HxL : forall r, In r lrows ->
    order_using_token_ordering (tokenize (nth ji r PNone)) ordering = pints (xof r).
  Hypothesis HyR : forall r, In r rrows ->
    order_using_token_ordering (tokenize (nth jj r PNone)) ordering = pints (yof r).
  (* measure, threshold, operator *)
  Hypothesis Hm : set_measure (fm p).
  Hypothesis Hvt : is_exc (validate_threshold (ft p) (PStr (fm p))) = false.
  Hypothesis Hop : comp_op_map op = Some cf.
  Hypothesis Hnum : num_of (ft p) <> None.
  (* formulas: ints on the sizes that occur *)
  Hypothesis HplL : forall x, In x Lo -> exists k, g_pl p (len x) = PInt k.
  Hypothesis HprR : forall y, In y Ro -> ae && (len y =? 0) = false -> probe_ok p y.
  (* the similarity function on ordered token lists *)
  Hypothesis Hsim : forall x y, In x Lo -> In y Ro ->
    sim_fn (pints x) (pints y) = PFloat (sim_tok (fm p) x y).

  Let a := build_abs p ae true Lo.

  Lemma lrow_ok_build : Forall2 (IndexBuildFacts.row_ok (natpy ji) ordering tokenize) (map PList lrows) Lo.
  Proof.
    unfold Lo. apply forall2_map_l. intros r Hr. unfold IndexBuildFacts.row_ok.
    destruct (join_cell_ok _ _ _ _ (Hlrows r Hr)) as [E Hne]. rewrite E. split; [exact Hne | apply HxL; exact Hr].
  Qed.

  Lemma build_post : forall w e, In e (idx_get (b_idx a) w) -> 0 <= fst e < len (b_sizes a).
  Proof.
    intros w e He. unfold a in *. rewrite build_postings in He. rewrite build_sizes.
    apply posts_from_rows in He. unfold nrows in He. unfold len. rewrite map_length. lia.
  Qed.

  Lemma build_ot y lb ub :
    (forall s, 0 <= s -> lb <= s <= ub -> num_of (g_ot p s (len y)) <> None) ->
    forall s, Z.max lb (b_min a) <= s <= Z.min ub (b_max a) -> num_of (g_ot p s (len y)) <> None.
  Proof.
    intros Hot s Hs.
    assert (Hd : Lo = [] \/ Lo <> []) by (destruct Lo; [left; reflexivity | right; discriminate]).
    destruct Hd as [Eo|Hne].
    - exfalso. destruct (build_min_max_empty p ae true Lo Eo) as [Emin Emax].
      unfold a in Hs. rewrite Emin, Emax in Hs. unfold maxsizeZ in Hs. lia.
    - apply Hot; [|lia].
      assert (0 <= b_min a).
      { unfold a. rewrite build_min.
        assert (Hf : forall l m, 0 <= m -> (forall n, In n l -> 0 <= n) -> 0 <= fold_left Z.min l m).
        { induction l as [|h t IH]; intros m Hm0 Hl; cbn [fold_left]; [exact Hm0|].
          apply IH; [|intros n Hn; apply Hl; right; exact Hn].
          specialize (Hl h (or_introl eq_refl)). lia. }
        apply Hf; [unfold maxsizeZ; lia|].
        intros n Hn. apply in_map_iff in Hn. destruct Hn as (x & <- & _). unfold len. lia. }
      lia.
  Qed.

  (* the candidate dict for a right row *)
  Lemma find_candidates_row y : In y Ro -> ae && (len y =? 0) = false ->
    position_filter_find_candidates (PStr (fm p)) (ft p) (pints y) (idx_repr (b_idx a)) (pints (b_sizes a))
                                    (PInt (b_min a)) (PInt (b_max a)) (PInt (fq p))
    = PDict (drepr PInt (cands p ae Lo y)) /\
    forall c, In c (map fst (cands p ae Lo y)) -> 0 <= c < Z.of_nat (List.length lrows).
  Proof.
    intros Hy He. destruct (HprR y Hy He) as (lb & ub & k & Hlb & Hub & Hpl & Hot).
    unfold cands. cbv zeta. fold a. rewrite Hlb, Hub, Hpl. cbn [zint]. split.
    - apply find_candidates_eq; try assumption; [apply build_ot; exact Hot | apply build_post].
    - intros c Hc.
      destruct (probe_abs_good p (b_idx a) (b_sizes a) (b_min a) (b_max a) y lb ub k build_post) as [_ Hk].
      specialize (Hk c Hc). unfold a in Hk. rewrite build_sizes in Hk. unfold len, Lo in Hk.
      rewrite !map_length in Hk. exact Hk.
  Qed.

  Definition Iouter (acc : list (list pyval))
    (s : pyval * (pyval * (pyval * (pyval * (pyval * (pyval * (pyval * (pyval * (pyval * (pyval * pyval))))))))))
    : Prop :=
    exists t1 t2 t3 t4 t6 t7 t8 t9 t10,
      s = (PNone, (t1, (t2, (t3, (t4, (PList (map PList acc), (t6, (t7, (t8, (t9, t10)))))))))).
  Definition Irows (acc : list (list pyval)) (s : pyval * (pyval * pyval)) : Prop :=
    exists t, s = (PNone, (t, PList (map PList acc))).
  Definition Icand (acc : list (list pyval)) (s : pyval * (pyval * (pyval * (pyval * pyval)))) : Prop :=
    exists t1 t2 t3, s = (PNone, (t1, (t2, (t3, PList (map PList acc))))).

  Theorem set_sim_join_rows_fold :
    set_sim_join_rows ltable rtable lcolumns rcolumns lkeya rkeya ljoina rjoina (PStr (fm p)) (ft p)
                      (PStr op) (PBool ae) louta routa lpre rpre (PBool sc) showp (PInt (fq p))
                      tokenize sim_fn
    = PTuple [PList (map PList (List.concat (map (fun r => rows_of p op ae sc ki kj li ri lrows Lo r (yof r)) rrows)));
              PList (hdr ++ if sc then [PStr "_sim_score"%string] else [])%list].
  Proof.
    unfold set_sim_join_rows.
    rewrite Hlk, Hlj, Hlo, Hrk, Hrj, Hro.
    repeat (rewrite bindx_ok by reflexivity).
    fold ltable rtable. rewrite Hord. rewrite (bindx_ok ordering) by exact Hordne.
    cbv zeta. unfold ltable, rtable.
    rewrite (position_index_build_eq p (natpy ji) ordering tokenize (map PList lrows) Lo ae true
               lrow_ok_build HplL).
    fold a. unfold build_result.
    destruct (getitem_tuple5 (idx_repr (b_idx a)) (pints (b_sizes a)) (PInt (b_min a)) (PInt (b_max a))
                (PDict [PTuple [PStr "cached_tokens"%string; PList (map pints (b_cached a))];
                        PTuple [PStr "empty_records"%string; pints (b_empty a)]]))
      as (G0 & G1 & G2 & G3 & G4).
    rewrite (bindx_ok (PTuple _)) by reflexivity.
    rewrite G0, G1, G2, G3, G4.
    destruct (getitem_cached (PList (map pints (b_cached a))) (pints (b_empty a))) as [C0 C1].
    repeat (rewrite bindx_ok by reflexivity).
    rewrite C0, C1.
    repeat (rewrite bindx_ok by reflexivity).
    destruct (validate_measure_ok _ Hm) as [V0 V1]. rewrite V0, V1.
    repeat (rewrite bindx_ok by reflexivity).
    rewrite (bindx_ok (validate_threshold _ _)) by exact Hvt.
    cbv zeta. rewrite (comp_op_lookup_str op cf Hop).
    rewrite Hhas. rewrite (bindx_ok (PBool has)) by reflexivity.
    match goal with |- context [py_for (PList (map PList rrows)) ?r ?f ?b ?s0] =>
      pose proof (py_for_inv _ _ _ PList Iouter r f b
                    (fun acc rrow => (acc ++ rows_of p op ae sc ki kj li ri lrows Lo rrow (yof rrow))%list)
                    rrows s0 []) as HI end.
    lapply HI; [clear HI; intros HI|].
    2:{ unfold Iouter. do 9 eexists. reflexivity. }
    lapply HI; [clear HI; intros HI|].
    2:{ intros acc s (t1 & t2 & t3 & t4 & t6 & t7 & t8 & t9 & t10 & ->). reflexivity. }
    lapply HI; [clear HI; intros HI|].
    - destruct HI as (t1 & t2 & t3 & t4 & t6 & t7 & t8 & t9 & t10 & E). rewrite E. clear E.
      cbv beta iota. cbn [bindx]. rewrite Hhdr. rewrite (bindx_ok (PList hdr)) by reflexivity.
      cbn [bindx]. rewrite fold_left_app_map. cbn [app].
      destruct sc; cbn [py_truth py_append strict2 bindx]; rewrite ?app_nil_r; reflexivity.
    - clear HI. intros acc s rrow Hin (t1 & t2 & t3 & t4 & t6 & t7 & t8 & t9 & t10 & ->).
      cbv beta iota.
      destruct (join_cell_ok _ _ _ _ (Hrrows rrow Hin)) as [Ecell Hcell].
      rewrite (bindx_ok (PList rrow)) by reflexivity.
      rewrite Ecell. rewrite (bindx_ok (nth jj rrow PNone)) by exact Hcell.
      rewrite (HyR rrow Hin). rewrite (bindx_ok (pints _)) by reflexivity.
      rewrite py_len_pints, py_eq_int_val, py_and_bools.
      rewrite (bindx_ok (PBool _)) by reflexivity. cbn [py_truth].
      unfold rows_of, row_pairs.
      assert (Hy : In (yof rrow) Ro) by (unfold Ro; apply in_map; exact Hin).
      destruct (ae && (len (yof rrow) =? 0)) eqn:Ebr.
      + (* allow_empty and no tokens: the cached empty left records *)
        assert (Eae : ae = true) by (destruct ae; [reflexivity | discriminate Ebr]).
        unfold a. rewrite build_empty. rewrite Eae. unfold pints at 1.
        match goal with |- context [py_for (PList (map PInt ?l)) ?r ?f ?b ?s0] =>
          pose proof (py_for_inv _ _ _ PInt Irows r f b
                        (fun acc' c => (acc' ++ [out_row sc ki kj li ri lrows c rrow (PFloat f_one)])%list)
                        l s0 acc) as HI end.
        lapply HI; [clear HI; intros HI|].
        2:{ unfold Irows. eexists. reflexivity. }
        lapply HI; [clear HI; intros HI|].
        2:{ intros acc' s (t & ->). reflexivity. }
        lapply HI; [clear HI; intros HI|].
        * destruct HI as (t & E). rewrite E. clear E. cbv beta iota. cbn [bindx].
          rewrite fold_left_snoc_map, map_map. cbn [fst snd].
          unfold Iouter. do 9 eexists. reflexivity.
        * clear HI. intros acc' s c Hc (t & ->). cbv beta iota. cbn [bindx].
          apply empty_from_bounds in Hc. unfold nrows, Lo in Hc. rewrite map_length in Hc.
          rewrite (getitem_rows lrows c) by lia.
          assert (Hlc : cols_ok ki ji li (nth (Z.to_nat c) lrows [])) by (apply Hlrows, nth_In; lia).
          pose proof (Hrrows rrow Hin) as Hrc.
          unfold out_row, with_score.
          destruct has; cbn [py_truth].
          -- rewrite (out_row_has ki kj li ri ji jj _ _ Hlc Hrc). cbn [bindx].
             destruct sc; cbn [py_truth bindx].
             ++ rewrite py_append_ok by reflexivity. cbn [bindx]. rewrite append_rows, f_one_lit.
                cbn [bindx]. eexists. reflexivity.
             ++ rewrite append_rows, app_nil_r. cbn [bindx]. eexists. reflexivity.
          -- destruct (Hnohas eq_refl) as [Eli Eri]. rewrite Eli in Hlc. rewrite Eri in Hrc.
             rewrite Eli, Eri.
             rewrite (out_row_nohas ki kj ji jj _ _ Hlc Hrc). cbn [bindx].
             destruct sc; cbn [py_truth bindx].
             ++ rewrite py_append_ok by reflexivity. cbn [bindx]. rewrite append_rows, f_one_lit.
                cbn [bindx]. eexists. reflexivity.
             ++ rewrite append_rows, app_nil_r. cbn [bindx]. eexists. reflexivity.
      + (* candidates of the position filter *)
        destruct (find_candidates_row (yof rrow) Hy Ebr) as [Efc Hkeys].
        rewrite Efc. rewrite (bindx_ok (PDict _)) by reflexivity.
        rewrite py_items_dict. unfold drepr.
        set (h := fun cs : Z * pyval => out_row sc ki kj li ri lrows (fst cs) rrow (snd cs)).
        match goal with |- context [py_for (PList (map ?f ?l)) ?r ?fl ?b ?s0] =>
          pose proof (py_for_inv _ _ _ f Icand r fl b
                        (fun acc' kv => (acc' ++ map h (cand_hits p op Lo (yof rrow) kv))%list)
                        l s0 acc) as HI end.
        lapply HI; [clear HI; intros HI|].
        2:{ unfold Icand. do 3 eexists. reflexivity. }
        lapply HI; [clear HI; intros HI|].
        2:{ intros acc' s (u1 & u2 & u3 & ->). reflexivity. }
        lapply HI; [clear HI; intros HI|].
        * destruct HI as (u1 & u2 & u3 & E). rewrite E. clear E. cbv beta iota. cbn [bindx].
          rewrite (fold_left_app_map (fun kv => map h (cand_hits p op Lo (yof rrow) kv))).
          rewrite <- map_flat_map.
          unfold Iouter. do 9 eexists. reflexivity.
        * clear HI. intros acc' s [c v] Hkv (u1 & u2 & u3 & ->). cbv beta iota. cbn [bindx fst snd].
          destruct (getitem_pair (PInt c) (PInt v)) as [P0 P1]. rewrite P0, P1. cbn [bindx].
          rewrite py_gt_int_val. cbn [bindx py_truth].
          assert (Hc : 0 <= c < Z.of_nat (List.length lrows))
            by (apply Hkeys; apply (in_map fst _ _ Hkv)).
          unfold cand_hits. cbn [fst snd].
          destruct (0 <? v) eqn:Ev.
          2:{ cbn [map]. rewrite app_nil_r. cbn [bindx]. do 3 eexists. reflexivity. }
          unfold a. rewrite build_cached.
          assert (HcL : 0 <= c < Z.of_nat (List.length Lo)) by (unfold Lo; rewrite map_length; exact Hc).
          rewrite (getitem_pints_list Lo c HcL). rewrite (bindx_ok (pints _)) by reflexivity.
          assert (Hx : In (nth (Z.to_nat c) Lo []) Lo) by (apply nth_In; lia).
          rewrite (Hsim _ _ Hx Hy), py_round2_float. cbn [bindx].
          fold (score p (nth (Z.to_nat c) Lo []) (yof rrow)).
          set (sv := score p (nth (Z.to_nat c) Lo []) (yof rrow)).
          destruct (comp_fn_bool op cf (f_round_nd (sim_tok (fm p) (nth (Z.to_nat c) Lo []) (yof rrow)) 4)
                      (ft p) Hop Hnum) as [b Eb].
          fold (score p (nth (Z.to_nat c) Lo []) (yof rrow)) in Eb. fold sv in Eb.
          rewrite (cmp_op_cf op cf sv (ft p) Hop), Eb. cbn [bindx py_truth].
          destruct b.
          2:{ cbn [map]. rewrite app_nil_r. cbn [bindx]. do 3 eexists. reflexivity. }
          cbn [map]. unfold h at 1. cbn [fst snd].
          rewrite (getitem_rows lrows c) by lia.
          assert (Hlc : cols_ok ki ji li (nth (Z.to_nat c) lrows [])) by (apply Hlrows, nth_In; lia).
          pose proof (Hrrows rrow Hin) as Hrc.
          unfold out_row, with_score.
          destruct has; cbn [py_truth].
          -- rewrite (out_row_has ki kj li ri ji jj _ _ Hlc Hrc). cbn [bindx].
             destruct sc; cbn [py_truth bindx].
             ++ rewrite py_append_ok by reflexivity. cbn [bindx]. rewrite append_rows.
                cbn [bindx]. do 3 eexists. reflexivity.
             ++ rewrite append_rows, app_nil_r. cbn [bindx]. do 3 eexists. reflexivity.
          -- destruct (Hnohas eq_refl) as [Eli Eri]. rewrite Eli in Hlc. rewrite Eri in Hrc.
             rewrite Eli, Eri.
             rewrite (out_row_nohas ki kj ji jj _ _ Hlc Hrc). cbn [bindx].
             destruct sc; cbn [py_truth bindx].
             ++ rewrite py_append_ok by reflexivity. cbn [bindx]. rewrite append_rows.
                cbn [bindx]. do 3 eexists. reflexivity.
             ++ rewrite append_rows, app_nil_r. cbn [bindx]. do 3 eexists. reflexivity.
  Qed.
End Loop.

Print Assumptions set_sim_join_rows_fold.
