(* Code-level RELATIONAL property theorems, part 4: C10 (the result does not depend on n_jobs / the cpu count),
   stated DIRECTLY about the frames returned by TWO calls of a GENERATED wrapper that differ only in n_jobs,
   the cpu count (and show_progress).

   (a) through the spec-level law Laws.c10_law / same_rows_noscore_law (no bound on the whole right table,
       with or without the score column):
         J/C/D                  same_rows_nongray_spec  (equal outside gray pairs; full equality is refuted:
                                Properties/C10.v C10_jcd_njobs_refuted)
         OVERLAP_COEFFICIENT, OVERLAP   multiset_eqb (same_rows_spec)
   (b) through the chunk-independence theorems of Proofs/ApiChunks.v (mirroring Properties/C10.v; they ask
       |right table| < 2^31): the two key-level views are PERMUTATIONS of each other (equal rows, scores
       included) for overlap_join, overlap_coefficient_join, edit_distance_join (q-gram rows), SizeFilter and
       OverlapFilter filter_tables.
   apply_matcher / filter_candset (ordered equality of the frames): CodeLevelRel4.v.                      *)
From Coq Require Import ZArith Bool List String Lia Permutation.
From SSJ Require Import F64 PyNum FilterUtilsGen HelperGen TokenOrderingGen ValidationGen IndexGen JoinGen
     TokenOrdering Measures Filters Lev Qgram Joins Api JoinSpec MetaSpec Projection ProjSpec IndexPyFacts ProjectionFacts
     JoinGenFacts JoinGenLoop JoinRefine JoinRefineProj SplitFacts SplitRefineEd Frame WrapperGen FilterWrapperGen
     WrapperRefineFrame WrapperRefineMissing WrapperRefineCore WrapperRefineChunks WrapperRefine WrapperRefineClosed
     WrapperRefineApi WrapperRefineEnd WrapperBody WrapperApiLink WrapperEnd
     WrapperRefineOvc WrapperRefineEd FilterWrapperRefineOverlap FilterWrapperRefine
     OrderingFacts OverlapFacts OverlapMeasure ValidationFacts EditArith EditJoin IndexGlue IndexGlueArith
     CoreLiftBase CoreLift ApiLift ApiChunks ApiFilterBase ApiFilterOverlap ApiFilterTables ApiFilterJCD ApiFilterEdit ApiFilterClosed
     ApiJoinBase ApiJoinPairs ApiJoinSpec PartitionInst LawsBase LawsScore LawsSpec Laws ModelScores ModelLaws
     CodeLevelBase CodeLevelJoins CodeLevelJoins2 CodeLevelFilters CodeLevelTight CodeLevelRelBase CodeLevelRelCalls.
Import ListNotations.
Open Scope string_scope.
Open Scope list_scope.
Open Scope Z_scope.

Lemma same_call_njobs_refl jc jc' :
  j_entry jc' = j_entry jc -> j_t jc' = j_t jc -> j_op jc' = j_op jc -> j_allow_empty jc' = j_allow_empty jc ->
  j_allow_missing jc' = j_allow_missing jc -> j_with_score jc' = j_with_score jc ->
  j_L jc' = j_L jc -> j_R jc' = j_R jc -> same_call jc jc'.
Proof. intros E1 E2 E3 E4 E5 E6 EL ER. unfold same_call. rewrite EL, ER. repeat split; auto. Qed.

(* ================================================================== (a) through the specifications *)
Section NjobsJcd.
  Variables (c : pcase) (p : fparams) (op : string) (ae am : bool) (nj1 cp1 nj2 cp2 : Z).
  Variables (lsrc rsrc : list (list pyval)) (showp1 showp2 : pyval).
  Variables (tokenize : pyval -> pyval) (sim_fn : pyval -> pyval -> pyval).
  Variables (toks : pyval -> list Z) (cf : pyval -> pyval -> pyval) (kz : pyval -> Z).
  Hypothesis H : jcd_call_hyps c p op lsrc rsrc tokenize sim_fn toks cf kz.

  (* with or without the score column; n_jobs, cpu counts arbitrary integers *)
  Theorem C10_code_njobs_jcd :
    same_rows_nongray_spec (jcd_jcase c p op ae am nj1 cp1 lsrc rsrc toks kz)
      (code_view c kz (jcd_wrapper_call c p op ae am nj1 cp1 lsrc rsrc showp1 tokenize sim_fn))
      (code_view c kz (jcd_wrapper_call c p op ae am nj2 cp2 lsrc rsrc showp2 tokenize sim_fn)) = true.
  Proof using H.
    pose proof (jcd_call_valid c p op ae am nj1 cp1 lsrc rsrc tokenize sim_fn toks cf kz H) as Hv.
    destruct (weak_keys _ Hv) as (NL & NR).
    refine (proj1 (code_same_call_law c c kz (jcd_jcase c p op ae am nj1 cp1 lsrc rsrc toks kz) (jcd_jcase c p op ae am nj2 cp2 lsrc rsrc toks kz) _ _ _ eq_refl eq_refl NL NR
                     (weak_set_case _ Hv) _ _)).
    - apply same_call_njobs_refl; reflexivity.
    - exact (proj1 (jcd_call_facts c p op ae am nj1 cp1 lsrc rsrc showp1 tokenize sim_fn toks cf kz H)).
    - exact (proj1 (jcd_call_facts c p op ae am nj2 cp2 lsrc rsrc showp2 tokenize sim_fn toks cf kz H)).
  Qed.

  Corollary C10_code_njobs_jaccard : fm p = "JACCARD" ->
    same_rows_nongray_spec (jcd_jcase c p op ae am nj1 cp1 lsrc rsrc toks kz)
      (code_view c kz (jcd_call c p op ae am nj1 cp1 lsrc rsrc showp1 tokenize sim_fn jaccard_join_rows))
      (code_view c kz (jcd_call c p op ae am nj2 cp2 lsrc rsrc showp2 tokenize sim_fn jaccard_join_rows)) = true.
  Proof using H.
    intros E. pose proof C10_code_njobs_jcd as X. unfold jcd_wrapper_call in X. rewrite E in X. exact X.
  Qed.
  Corollary C10_code_njobs_cosine : fm p = "COSINE" ->
    same_rows_nongray_spec (jcd_jcase c p op ae am nj1 cp1 lsrc rsrc toks kz)
      (code_view c kz (jcd_call c p op ae am nj1 cp1 lsrc rsrc showp1 tokenize sim_fn cosine_join_rows))
      (code_view c kz (jcd_call c p op ae am nj2 cp2 lsrc rsrc showp2 tokenize sim_fn cosine_join_rows)) = true.
  Proof using H.
    intros E. pose proof C10_code_njobs_jcd as X. unfold jcd_wrapper_call in X. rewrite E in X. exact X.
  Qed.
  Corollary C10_code_njobs_dice : fm p = "DICE" ->
    same_rows_nongray_spec (jcd_jcase c p op ae am nj1 cp1 lsrc rsrc toks kz)
      (code_view c kz (jcd_call c p op ae am nj1 cp1 lsrc rsrc showp1 tokenize sim_fn dice_join_rows))
      (code_view c kz (jcd_call c p op ae am nj2 cp2 lsrc rsrc showp2 tokenize sim_fn dice_join_rows)) = true.
  Proof using H.
    intros E. pose proof C10_code_njobs_jcd as X. unfold jcd_wrapper_call in X. rewrite E in X. exact X.
  Qed.
End NjobsJcd.

(* the permutation of two key-level views, from the two models' results being permutations *)
Lemma code_operm c1 c2 kz jc1 jc2 lhs1 lhs2 :
  call_model c1 kz jc1 lhs1 -> call_model c2 kz jc2 lhs2 -> operm (api_join jc1) (api_join jc2) ->
  Permutation (code_view c1 kz lhs1) (code_view c2 kz lhs2).
Proof.
  intros (o1 & E1 & P1) (o2 & E2 & P2) Ho. rewrite E1, E2 in Ho. cbn [operm] in Ho.
  eapply Permutation_trans; [apply Permutation_sym; exact P1|]. eapply Permutation_trans; [exact Ho | exact P2].
Qed.

Section NjobsOvc.
  Variables (c : pcase) (t : pyval) (q : Z) (op : string) (ae am : bool) (nj1 cp1 nj2 cp2 : Z).
  Variables (lsrc rsrc : list (list pyval)) (showp1 showp2 : pyval).
  Variables (tokenize : pyval -> pyval).
  Variables (toks : pyval -> list Z) (cf : pyval -> pyval -> pyval) (kz : pyval -> Z).
  Let p : fparams := {| fm := "OVERLAP_COEFFICIENT"; ft := t; fq := q |}.
  Hypothesis H : ovc_call_hyps c p op lsrc rsrc tokenize toks cf kz.

  Theorem C10_code_njobs_overlap_coefficient :
    multiset_eqb (code_view c kz (ovc_call c p op ae am nj1 cp1 lsrc rsrc showp1 tokenize))
                 (code_view c kz (ovc_call c p op ae am nj2 cp2 lsrc rsrc showp2 tokenize)) = true.
  Proof using H.
    pose proof (ovc_call_valid c p op ae am nj1 cp1 lsrc rsrc tokenize toks cf kz H) as Hv.
    destruct (weak_keys _ Hv) as (NL & NR).
    refine (proj2 (code_same_call_law c c kz (ovc_code_jcase c p op ae am nj1 cp1 lsrc rsrc toks kz) (ovc_code_jcase c p op ae am nj2 cp2 lsrc rsrc toks kz) _ _ _ eq_refl eq_refl NL NR
                     (weak_set_case _ Hv) _ _) eq_refl).
    - apply same_call_njobs_refl; reflexivity.
    - exact (proj1 (ovc_call_facts c p op ae am nj1 cp1 lsrc rsrc showp1 tokenize toks cf kz H)).
    - exact (proj1 (ovc_call_facts c p op ae am nj2 cp2 lsrc rsrc showp2 tokenize toks cf kz H)).
  Qed.

  (* (b) with the bound on the whole right table: the same rows, scores included *)
  Theorem C10_code_njobs_overlap_coefficient_perm : Z.of_nat (List.length rsrc) < 2^31 ->
    Permutation (code_view c kz (ovc_call c p op ae am nj1 cp1 lsrc rsrc showp1 tokenize))
                (code_view c kz (ovc_call c p op ae am nj2 cp2 lsrc rsrc showp2 tokenize)).
  Proof using H.
    intros Hb.
    apply (code_operm c c kz (ovc_code_jcase c p op ae am nj1 cp1 lsrc rsrc toks kz)
             (ovc_code_jcase c p op ae am nj2 cp2 lsrc rsrc toks kz)).
    - exact (proj2 (ovc_call_facts c p op ae am nj1 cp1 lsrc rsrc showp1 tokenize toks cf kz H)).
    - exact (proj2 (ovc_call_facts c p op ae am nj2 cp2 lsrc rsrc showp2 tokenize toks cf kz H)).
    - apply (ApiChunks.C10_ovc_join_njobs (ovc_code_jcase c p op ae am nj1 cp1 lsrc rsrc toks kz) nj1 cp1 nj2 cp2 eq_refl).
      unfold Rbound, ovc_code_jcase, jcase_of. cbn [j_R]. rewrite map_length. exact Hb.
  Qed.
End NjobsOvc.

Section NjobsOvj.
  Variables (c : pcase) (T : Z) (op : string) (am : bool) (nj1 cp1 nj2 cp2 : Z).
  Variables (lsrc rsrc : list (list pyval)) (showp1 showp2 : pyval).
  Variables (tokenize : pyval -> pyval).
  Variables (toks : pyval -> list Z) (cf : pyval -> pyval -> pyval) (kz : pyval -> Z).
  Hypothesis H : ovj_call_hyps c T op lsrc rsrc tokenize toks cf kz.

  Theorem C10_code_njobs_overlap_join :
    multiset_eqb (code_view c kz (ovj_call c (PInt T) op am nj1 cp1 lsrc rsrc showp1 tokenize))
                 (code_view c kz (ovj_call c (PInt T) op am nj2 cp2 lsrc rsrc showp2 tokenize)) = true.
  Proof using H.
    pose proof (ovj_call_valid c T op am 0 nj1 cp1 lsrc rsrc tokenize toks cf kz H) as Hv.
    destruct (weak_keys _ Hv) as (NL & NR).
    refine (proj2 (code_same_call_law c c kz (ovj_code_jcase c T op am 0 nj1 cp1 lsrc rsrc toks kz) (ovj_code_jcase c T op am 0 nj2 cp2 lsrc rsrc toks kz) _ _ _ eq_refl eq_refl NL NR
                     (weak_set_case _ Hv) _ _) eq_refl).
    - apply same_call_njobs_refl; reflexivity.
    - exact (proj1 (ovj_call_facts c T op am 0 nj1 cp1 lsrc rsrc showp1 tokenize toks cf kz H)).
    - exact (proj1 (ovj_call_facts c T op am 0 nj2 cp2 lsrc rsrc showp2 tokenize toks cf kz H)).
  Qed.

  Theorem C10_code_njobs_overlap_join_perm : Z.of_nat (List.length rsrc) < 2^31 ->
    Permutation (code_view c kz (ovj_call c (PInt T) op am nj1 cp1 lsrc rsrc showp1 tokenize))
                (code_view c kz (ovj_call c (PInt T) op am nj2 cp2 lsrc rsrc showp2 tokenize)).
  Proof using H.
    intros Hb.
    apply (code_operm c c kz (ovj_code_jcase c T op am 0 nj1 cp1 lsrc rsrc toks kz)
             (ovj_code_jcase c T op am 0 nj2 cp2 lsrc rsrc toks kz)).
    - exact (proj2 (ovj_call_facts c T op am 0 nj1 cp1 lsrc rsrc showp1 tokenize toks cf kz H)).
    - exact (proj2 (ovj_call_facts c T op am 0 nj2 cp2 lsrc rsrc showp2 tokenize toks cf kz H)).
    - apply (ApiChunks.C10_overlap_join_njobs (ovj_code_jcase c T op am 0 nj1 cp1 lsrc rsrc toks kz) nj1 cp1 nj2 cp2 eq_refl).
      unfold Rbound, ovj_code_jcase, ovf_jcase. cbn [j_R]. rewrite map_length. exact Hb.
  Qed.
End NjobsOvj.

(* ================================================================== (b) the other chunk-independent entries *)
(* the model's rows behind a returned frame, from the end-to-end statement and the model's soundness *)
Lemma call_model_of_flat c am lsrc rsrc toks str kz jc lhs :
  j_with_score jc = p_score c -> scored_entry jc ->
  end_to_end_flat c am lsrc rsrc toks str kz jc lhs ->
  (forall out, api_join jc = Some out -> sound_spec jc out = true) ->
  call_model c kz jc lhs.
Proof.
  intros Hjs Hse HA Hs.
  destruct (code_kview_perm c am lsrc rsrc toks str kz jc Hjs Hse lhs HA Hs) as (rows & out & E1 & E2 & Pm).
  exists out. split; [exact E2|]. subst lhs. rewrite code_view_sframe. exact Pm.
Qed.

(* ... without a score column nothing about the model is needed *)
Lemma call_model_noscore c am lsrc rsrc toks str kz jc lhs :
  p_score c = false -> end_to_end_flat c am lsrc rsrc toks str kz jc lhs -> call_model c kz jc lhs.
Proof.
  intros Hns HA. destruct (flat_code_obs c am lsrc rsrc toks str kz jc lhs HA) as (main & out & E1 & E2 & Pm).
  exists out. split; [exact E2|]. subst lhs. rewrite code_view_sframe.
  assert (E : map (kview c kz) (main ++ mv_part c am lsrc rsrc) = code_obs c am lsrc rsrc kz main).
  { unfold code_obs. rewrite map_app. f_equal.
    - apply map_ext. intros r. apply kview_row_out. rewrite Hns. discriminate.
    - unfold mv_part. destruct am; [apply kview_mv_rows | reflexivity]. }
  rewrite E. exact Pm.
Qed.

(* ---- edit_distance_join_rows, q-gram rows (the hypotheses of CodeLevelJoins2.C03_code_edit_distance_exact) *)
Section NjobsEd.
  Variables (c : pcase) (t : pyval) (q tau : Z) (op : string) (ae am : bool) (nj1 cp1 nj2 cp2 : Z).
  Variables (lsrc rsrc : list (list pyval)) (showp1 showp2 : pyval).
  Variables (tokenize : pyval -> pyval) (sim_fn : pyval -> pyval -> pyval).
  Variables (toks str : pyval -> list Z) (cf : pyval -> pyval -> pyval) (kz : pyval -> Z).
  Variables (tk : qgram_tok) (f : Z -> Z).

  Hypothesis Hwf : well_formed c.
  Hypothesis Hlsrc : forall row, In row lsrc -> List.length row = List.length (p_lcols c) /\ ProjSpec.row_ok row.
  Hypothesis Hrsrc : forall row, In row rsrc -> List.length row = List.length (p_rcols c) /\ ProjSpec.row_ok row.
  Hypothesis HtokL : forall row, In row (lpresent c lsrc) -> tokenize (lcell c row) = pints (toks (lcell c row)).
  Hypothesis HtokR : forall row, In row (rpresent c rsrc) -> tokenize (rcell c row) = pints (toks (rcell c row)).
  Hypothesis HlenL : forall row, In row (lpresent c lsrc) -> py_len (lcell c row) = PInt (len (str (lcell c row))).
  Hypothesis HlenR : forall row, In row (rpresent c rsrc) -> py_len (rcell c row) = PInt (len (str (rcell c row))).
  Hypothesis Hsim : forall l r, In l (lpresent c lsrc) -> In r (rpresent c rsrc) ->
    sim_fn (lcell c l) (rcell c r) = SplitRefineEd.ed_dist (str (lcell c l)) (str (rcell c r)).
  Hypothesis Hvt : is_exc (validate_threshold t (PStr "EDIT_DISTANCE")) = false.
  Hypothesis Hvop : is_exc (validate_comp_op_for_sim_measure (PStr op) (PStr "EDIT_DISTANCE")) = false.
  Hypothesis Hvout : is_exc (validate_output_attrs (py_opt_strs (p_lout c)) (py_strs (p_lcols c))
                                                   (py_opt_strs (p_rout c)) (py_strs (p_rcols c))) = false.
  Hypothesis Hop : comp_op_map op = Some cf.
  Hypothesis Hfloor : py_int (py_floor t) = PInt tau.
  Hypothesis Htau : 0 <= tau.
  Hypothesis Hq : 1 <= q.
  Hypothesis Hid : ~ In "_id" (mv_header c).
  Hypothesis Hkeys : keys_unique c kz lsrc rsrc.
  Hypothesis HlenRt : Z.of_nat (List.length rsrc) < 2^31.
  Hypothesis Hinj : forall a b, f a = f b -> a = b.
  Hypothesis Hqq : q = qq tk.
  Hypothesis Hqgram : cells_sat c lsrc rsrc (fun v => toks v = map f (qgram_bag tk (str v))).

  Let jc (nj cp : Z) : jcase := ed_code_jcase c t q op ae am nj cp lsrc rsrc toks str kz.

  Lemma ed_call_model nj cp showp :
    call_model c kz (jc nj cp) (ed_code_call c t q op am nj cp lsrc rsrc showp tokenize sim_fn).
  Proof using Hwf Hlsrc Hrsrc HtokL HtokR HlenL HlenR Hsim Hvt Hvop Hvout Hop Hfloor Htau Hq Hid Hkeys HlenRt.
    apply (call_model_of_flat c am lsrc rsrc toks str kz (jc nj cp)); [reflexivity | exact I | |].
    - exact (ed_flat c t q tau op ae am nj cp lsrc rsrc showp tokenize sim_fn toks str cf kz
               Hwf Hlsrc Hrsrc HtokL HtokR HlenL HlenR Hsim Hvt Hvop Hvout Hop Hfloor Htau Hq Hid HlenRt).
    - intros out Ho.
      exact (proj1 (proj2 (C03_edit_distance_join (jc nj cp) tau
               (ed_valid c t q tau op ae am nj cp lsrc rsrc toks str kz Hvop Hfloor Htau Hq Hkeys HlenRt)) out Ho)).
  Qed.

  Theorem C10_code_njobs_edit_distance_join :
    Permutation (code_view c kz (ed_code_call c t q op am nj1 cp1 lsrc rsrc showp1 tokenize sim_fn))
                (code_view c kz (ed_code_call c t q op am nj2 cp2 lsrc rsrc showp2 tokenize sim_fn)).
  Proof using All.
    apply (code_operm c c kz (jc nj1 cp1) (jc nj2 cp2)); [apply ed_call_model | apply ed_call_model|].
    change (jc nj1 cp1) with (with_njobs (jc nj1 cp1) nj1 cp1). change (jc nj2 cp2) with (with_njobs (jc nj1 cp1) nj2 cp2).
    apply api_join_njobs_indep_b.
    { unfold jc, ed_code_jcase, ed_jcase. cbn [j_R]. rewrite map_length. exact HlenRt. }
    apply (chunk_indep_ed (jc nj1 cp1) tau).
    { split; [reflexivity|]. split; [exact Hfloor|]. split; [exact Htau|]. split; [exact Hq | exact (ed_op_of_valid op Hvop)]. }
    assert (Hcf : ApiFilterEdit.cf_rows (jc nj1 cp1)).
    { apply (qgram_rows_cf tk f (jc nj1 cp1) Hinj); [exact Hqq | rewrite <- Hqq; exact Hq|].
      exact (ed_qgram_rows c t q op ae am nj1 cp1 lsrc rsrc toks str kz tk f Hqgram). }
    intros l r Hl Hr. apply filter_In in Hl. apply filter_In in Hr. apply Hcf; tauto.
  Qed.
End NjobsEd.

(* ---- SizeFilter.filter_tables (any measure whose formulas are total below `bound`) *)
Section NjobsSize.
  Variables (c : pcase) (p : fparams) (op : string) (ae am : bool) (nj1 cp1 nj2 cp2 : Z).
  Variables (lsrc rsrc : list (list pyval)) (showp1 showp2 : pyval).
  Variables (tokenize : pyval -> pyval).
  Variables (toks : pyval -> list Z) (kz : pyval -> Z) (bound : Z).

  Hypothesis Hwf : well_formed c.
  Hypothesis Hns : p_score c = false.
  Hypothesis Hlsrc : forall row, In row lsrc -> List.length row = List.length (p_lcols c) /\ ProjSpec.row_ok row.
  Hypothesis Hrsrc : forall row, In row rsrc -> List.length row = List.length (p_rcols c) /\ ProjSpec.row_ok row.
  Hypothesis HtokL : forall row, In row (lpresent c lsrc) -> tokenize (lcell c row) = pints (toks (lcell c row)).
  Hypothesis HtokR : forall row, In row (rpresent c rsrc) -> tokenize (rcell c row) = pints (toks (rcell c row)).
  Hypothesis Hvout : is_exc (validate_output_attrs (py_opt_strs (p_lout c)) (py_strs (p_lcols c))
                                                   (py_opt_strs (p_rout c)) (py_strs (p_rcols c))) = false.
  Hypothesis Hid : ~ In "_id" (mv_header c).
  Hypothesis HlenRt : Z.of_nat (List.length rsrc) < 2^31.
  Hypothesis Hf : formulas_ok p bound.
  Hypothesis HszL : forall row, In row (lpresent c lsrc) -> len (toks (lcell c row)) < bound.
  Hypothesis HszR : forall row, In row (rpresent c rsrc) -> len (toks (rcell c row)) < bound.

  Let jc (nj cp : Z) : jcase := flt_code_jcase c p op ae am nj cp lsrc rsrc toks (fun _ => []) kz KSize.

  Theorem C10_code_njobs_size_filter_tables :
    Permutation (code_view c kz (size_call c p ae am nj1 cp1 lsrc rsrc showp1 tokenize))
                (code_view c kz (size_call c p ae am nj2 cp2 lsrc rsrc showp2 tokenize)).
  Proof using All.
    assert (HM : forall nj cp showp, call_model c kz (jc nj cp) (size_call c p ae am nj cp lsrc rsrc showp tokenize)).
    { intros nj cp showp. apply (call_model_noscore c am lsrc rsrc toks (fun _ => []) kz (jc nj cp) _ Hns).
      exact (flt_flat_str c p op ae am nj cp lsrc rsrc showp tokenize toks (fun _ => []) kz
               Hwf Hns Hlsrc Hrsrc HtokL HtokR Hvout Hid HlenRt bound KSize (or_introl eq_refl) Hf HszL HszR). }
    apply (code_operm c c kz (jc nj1 cp1) (jc nj2 cp2)); [apply HM | apply HM|].
    apply (ApiChunks.C10_size_filter_njobs (jc nj1 cp1) (fm p) nj1 cp1 nj2 cp2 eq_refl).
    unfold Rbound, jc, flt_code_jcase. cbn [j_R]. rewrite map_length. exact HlenRt.
  Qed.
End NjobsSize.

(* ---- OverlapFilter.filter_tables (the hypotheses of CodeLevelFilters.C06_code_overlap_filter_tables) *)
Section NjobsOverlapFilter.
  Variables (c : pcase) (T : Z) (op : string) (ae am : bool) (q nj1 cp1 nj2 cp2 : Z).
  Variables (lsrc rsrc : list (list pyval)) (showp1 showp2 : pyval).
  Variables (tokenize : pyval -> pyval).
  Variables (toks : pyval -> list Z) (cf : pyval -> pyval -> pyval) (kz : pyval -> Z).

  Hypothesis Hwf : well_formed c.
  Hypothesis Hlsrc : forall row, In row lsrc -> List.length row = List.length (p_lcols c) /\ ProjSpec.row_ok row.
  Hypothesis Hrsrc : forall row, In row rsrc -> List.length row = List.length (p_rcols c) /\ ProjSpec.row_ok row.
  Hypothesis HtokL : forall row, In row (lpresent c lsrc) -> tokenize (lcell c row) = pints (toks (lcell c row)).
  Hypothesis HtokR : forall row, In row (rpresent c rsrc) -> tokenize (rcell c row) = pints (toks (rcell c row)).
  Hypothesis Hvout : is_exc (validate_output_attrs (py_opt_strs (p_lout c)) (py_strs (p_lcols c))
                                                   (py_opt_strs (p_rout c)) (py_strs (p_rcols c))) = false.
  Hypothesis Hop : comp_op_map op = Some cf.
  Hypothesis Hid : ~ In "_id" (mv_header c).
  Hypothesis HT : 1 <= T.
  Hypothesis Hlow : lower_op op.
  Hypothesis HlenRt : Z.of_nat (List.length rsrc) < 2^31.
  Hypothesis Hkeys : keys_unique c kz lsrc rsrc.
  Hypothesis Hnodup : cells_sat c lsrc rsrc (fun v => NoDup (toks v)).

  Let jc (nj cp : Z) : jcase := ovf_code_jcase c T op ae am q nj cp lsrc rsrc toks kz.

  Theorem C10_code_njobs_overlap_filter_tables :
    Permutation (code_view c kz (ovf_call c (PInt T) op am nj1 cp1 lsrc rsrc showp1 tokenize))
                (code_view c kz (ovf_call c (PInt T) op am nj2 cp2 lsrc rsrc showp2 tokenize)).
  Proof using All.
    assert (Hnum : num_of (PInt T) <> None) by discriminate.
    assert (HM : forall nj cp showp, call_model c kz (jc nj cp) (ovf_call c (PInt T) op am nj cp lsrc rsrc showp tokenize)).
    { intros nj cp showp. apply (call_model_of_flat c am lsrc rsrc toks (fun _ => []) kz (jc nj cp)); [reflexivity | exact I | |].
      - exact (overlap_filter_tables_rows_end_to_end_flat c (PInt T) op ae am q nj cp lsrc rsrc showp tokenize
                 toks cf kz Hwf Hlsrc Hrsrc HtokL HtokR Hvout Hop Hnum Hid (rpres_bound c rsrc HlenRt)).
      - intros out Ho.
        pose proof (proj2 (C06_overlap_filter_tables (jc nj cp)
                      (ovf_valid c T op ae am q nj cp lsrc rsrc toks kz HT Hlow HlenRt Hkeys Hnodup)) out Ho) as X.
        exact (proj1 (proj2 (proj1 X))). }
    apply (code_operm c c kz (jc nj1 cp1) (jc nj2 cp2)); [apply HM | apply HM|].
    apply (ApiChunks.C10_overlap_filter_njobs (jc nj1 cp1) nj1 cp1 nj2 cp2 eq_refl).
    unfold Rbound, jc, ovf_code_jcase, ovf_jcase. cbn [j_R]. rewrite map_length. exact HlenRt.
  Qed.
End NjobsOverlapFilter.

Print Assumptions C10_code_njobs_jcd.
Print Assumptions C10_code_njobs_jaccard.
Print Assumptions C10_code_njobs_overlap_coefficient.
Print Assumptions C10_code_njobs_overlap_coefficient_perm.
Print Assumptions C10_code_njobs_overlap_join.
Print Assumptions C10_code_njobs_overlap_join_perm.
Print Assumptions C10_code_njobs_edit_distance_join.
Print Assumptions C10_code_njobs_size_filter_tables.
Print Assumptions C10_code_njobs_overlap_filter_tables.
