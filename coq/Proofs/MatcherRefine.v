(* The GENERATED public functions apply_matcher_rows and filter_candset_rows (Gen/MatcherGen.v) on three
   string-labelled frames: the validations pass, the `candset.empty` shortcut returns the candidate set itself,
   the tables are projected, the number of jobs is min(get_num_processes_to_launch(n_jobs), len(candset)), the
   token cache is built iff a tokenizer is given and len(ltable) + len(rtable) < 2 * len(candset), and the result
   is the concatenation over the chunks (MatcherRefinePar.par_chunks) of what the per-chunk function returns.

   The per-chunk function is abstract here (hypothesis Hchunk: on every chunk it returns a frame with header hdr
   and rows F chunk), as are the chunk boundaries (Hsplit) and the value of generate_tokens (Hgen): this file is
   axiom-free.  MatcherRefineEnd.v discharges them.                                                      *)
From Coq Require Import ZArith Bool List String Lia.
From SSJ Require Import F64 PyNum HelperGen ValidationGen Api Projection ProjSpec ProjectionFacts IndexPyFacts
     IndexProbeFacts JoinGenFacts SplitFacts Frame WrapperGen MatcherGen WrapperRefineFrame WrapperRefineCore
     MatcherRefineBase MatcherRefineLoop MatcherRefinePar.
Import ListNotations.
Open Scope Z_scope.

Lemma validate_comp_op_ok op cf : comp_op_map op = Some cf -> validate_comp_op (PStr op) = PNone.
Proof.
  unfold comp_op_map. intros H.
  repeat match type of H with
  | (if String.eqb op ?s then _ else _) = _ =>
      destruct (String.eqb_spec op s) as [->|_]; [reflexivity|]
  end.
  discriminate.
Qed.

Lemma py_opt_strs_not_exc o : is_exc (py_opt_strs o) = false.
Proof. destruct o; reflexivity. Qed.

Lemma py_mul_ii a b : py_mul (PInt a) (PInt b) = PInt (a * b).
Proof. reflexivity. Qed.

(* the projected table: the columns proj of every row *)
Definition project_rows (cols proj : list string) (rows : list (list pyval)) : list (list pyval) :=
  map (fun row => map (cellv cols row) proj) rows.

Lemma project_rows_shaped cols proj rows : shaped (List.length proj) (project_rows cols proj rows).
Proof. apply shaped_select. Qed.

Section ApplyMatcher.
  Variables (c : pcase) (cc : list string) (clk crk : string).
  Variables (lsrc rsrc csrc : list (list pyval)).
  Variables (op : string) (cf : pyval -> pyval -> pyval) (am : bool) (t tokv showp : pyval) (njobs cpus : Z).
  Variables (tokenize : pyval -> pyval) (sim_fn : pyval -> pyval -> pyval).
  Variables (bs : list (nat * nat)) (hdr : list string) (F : list (list pyval) -> list (list pyval)).
  Variables (ltokd rtokd : pyval).

  Definition am_lproj : list string := proj_list (p_lkey c) (p_ljoin c) (dedupe_out (p_lkey c) (p_lout c)).
  Definition am_rproj : list string := proj_list (p_rkey c) (p_rjoin c) (dedupe_out (p_rkey c) (p_rout c)).
  Definition am_lrows := project_rows (p_lcols c) am_lproj lsrc.
  Definition am_rrows := project_rows (p_rcols c) am_rproj rsrc.
  Definition am_k : Z := nchunks njobs cpus (List.length csrc).
  (* is the token cache built? *)
  Definition am_cache : bool :=
    m_tokb tokv && (Z.of_nat (List.length lsrc) + Z.of_nat (List.length rsrc) <? Z.of_nat (List.length csrc) * 2).
  Definition am_ltok : pyval := if am_cache then ltokd else PNone.
  Definition am_rtok : pyval := if am_cache then rtokd else PNone.
  Definition am_chunks := par_chunks csrc am_k bs.

  Hypothesis Hwf : well_formed c.
  Hypothesis Hclk : In clk cc.
  Hypothesis Hcrk : In crk cc.
  Hypothesis Hls : shaped (List.length (p_lcols c)) lsrc.
  Hypothesis Hrs : shaped (List.length (p_rcols c)) rsrc.
  Hypothesis Hcs : shaped (List.length cc) csrc.
  Hypothesis Hvout : is_exc (validate_output_attrs (py_opt_strs (p_lout c)) (py_strs (p_lcols c))
                                                   (py_opt_strs (p_rout c)) (py_strs (p_rcols c))) = false.
  Hypothesis Hop : comp_op_map op = Some cf.
  Hypothesis Htokv : is_exc tokv = false.
  Hypothesis Hgen : am_cache = true ->
    generate_tokens (sframe am_lproj am_lrows) (PStr (p_lkey c)) (PStr (p_ljoin c)) tokenize = ltokd /\
    generate_tokens (sframe am_rproj am_rrows) (PStr (p_rkey c)) (PStr (p_rjoin c)) tokenize = rtokd /\
    is_exc ltokd = false /\ is_exc rtokd = false.
  Hypothesis Hchunk : forall ch sp, In ch am_chunks ->
    apply_matcher_split_rows (sframe cc ch) (PStr clk) (PStr crk) (sframe am_lproj am_lrows) (sframe am_rproj am_rrows)
      (PStr (p_lkey c)) (PStr (p_rkey c)) (PStr (p_ljoin c)) (PStr (p_rjoin c)) tokv t (PStr op) (PBool am)
      (py_opt_strs (dedupe_opt (p_lkey c) (p_lout c))) (py_opt_strs (dedupe_opt (p_rkey c) (p_rout c)))
      (PStr (p_lpre c)) (PStr (p_rpre c)) (PBool (p_score c)) sp am_ltok am_rtok tokenize sim_fn
    = sframe hdr (F ch) /\ shaped (List.length hdr) (F ch).
  Hypothesis Hsplit : 1 < am_k ->
    List.length bs = Z.to_nat am_k /\
    split_table_frame (sframe cc csrc) (PInt am_k) = PList (map (fun ab => sframe cc (slice_nat csrc ab)) bs).

  Lemma am_lproj_incl a : In a am_lproj -> In a (p_lcols c).
  Proof.
    destruct Hwf as [Hlk Hlj Hlo _ _ _]. intros Ha.
    eapply proj_list_incl; [exact Hlk | exact Hlj | | exact Ha].
    intros b Hb. apply Hlo. eapply dedupe_out_incl. exact Hb.
  Qed.
  Lemma am_rproj_incl a : In a am_rproj -> In a (p_rcols c).
  Proof.
    destruct Hwf as [_ _ _ Hrk Hrj Hro]. intros Ha.
    eapply proj_list_incl; [exact Hrk | exact Hrj | | exact Ha].
    intros b Hb. apply Hro. eapply dedupe_out_incl. exact Hb.
  Qed.

  Theorem apply_matcher_rows_chunks :
    apply_matcher_rows (sframe cc csrc) (PStr clk) (PStr crk) (sframe (p_lcols c) lsrc) (sframe (p_rcols c) rsrc)
      (PStr (p_lkey c)) (PStr (p_rkey c)) (PStr (p_ljoin c)) (PStr (p_rjoin c)) tokv t (PStr op) (PBool am)
      (py_opt_strs (p_lout c)) (py_opt_strs (p_rout c)) (PStr (p_lpre c)) (PStr (p_rpre c)) (PBool (p_score c))
      (PInt njobs) showp (PInt cpus) tokenize sim_fn
    = match csrc with
      | [] => sframe cc []
      | _ => sframe hdr (List.concat (map F am_chunks))
      end.
  Proof.
    unfold apply_matcher_rows.
    rewrite !frame_columns_sframe by assumption.
    destruct Hwf as [Hlk Hlj Hlo Hrk Hrj Hro].
    repeat first [ rewrite validate_attr_ok by assumption | rewrite IndexPyFacts.bindx_ok by reflexivity ].
    rewrite (IndexPyFacts.bindx_ok (validate_output_attrs _ _ _ _)) by exact Hvout.
    rewrite (validate_comp_op_ok op cf Hop). rewrite (IndexPyFacts.bindx_ok PNone) by reflexivity.
    destruct csrc as [|c0 cs] eqn:Ecs.
    { rewrite frame_empty_norows. rewrite (IndexPyFacts.bindx_ok (PBool true)) by reflexivity. reflexivity. }
    rewrite <- Ecs in *.
    assert (Hne1 : csrc <> []) by (rewrite Ecs; discriminate).
    assert (Hne2 : cc <> []) by (intros E0; rewrite E0 in Hclk; destruct Hclk).
    rewrite (frame_empty_nonempty cc csrc Hcs Hne1 Hne2).
    rewrite (IndexPyFacts.bindx_ok (PBool false)) by reflexivity. cbn [py_truth].
    rewrite !remove_redundant_attrs_opt.
    rewrite (IndexPyFacts.bindx_ok (py_opt_strs _)) by apply py_opt_strs_not_exc.
    rewrite (IndexPyFacts.bindx_ok (py_opt_strs _)) by apply py_opt_strs_not_exc.
    rewrite !get_attrs_to_project_opt, !opt_list_dedupe_opt. fold am_lproj am_rproj.
    rewrite (IndexPyFacts.bindx_ok (py_strs _)) by reflexivity.
    rewrite (IndexPyFacts.bindx_ok (py_strs _)) by reflexivity.
    rewrite (frame_select_sframe (p_lcols c) lsrc am_lproj Hls am_lproj_incl).
    rewrite (frame_select_sframe (p_rcols c) rsrc am_rproj Hrs am_rproj_incl).
    fold (project_rows (p_lcols c) am_lproj lsrc). fold (project_rows (p_rcols c) am_rproj rsrc).
    fold am_lrows am_rrows.
    rewrite (IndexPyFacts.bindx_ok (sframe _ _)) by reflexivity.
    rewrite (IndexPyFacts.bindx_ok (sframe _ _)) by reflexivity.
    rewrite nprocs_eval. rewrite !frame_len_sframe by assumption.
    rewrite IndexPyFacts.py_min_int. fold (nchunks njobs cpus (List.length csrc)). fold am_k.
    rewrite (IndexPyFacts.bindx_ok (PInt _)) by reflexivity. cbv zeta.
    rewrite (py_is_not_none_val tokv Htokv), SplitArith.py_add_ii, py_mul_ii, IndexPyFacts.py_lt_int_val, py_and_bools.
    fold (m_tokb tokv). fold am_cache.
    rewrite (IndexPyFacts.bindx_ok (PBool _)) by reflexivity. cbn [py_truth].
    assert (Etok : (if am_cache
                    then bindx (generate_tokens (sframe am_lproj am_lrows) (PStr (p_lkey c)) (PStr (p_ljoin c)) tokenize)
                               (fun x_ => (x_, (PNone, PNone)))
                               (fun v_l_tokens =>
                                bindx (generate_tokens (sframe am_rproj am_rrows) (PStr (p_rkey c)) (PStr (p_rjoin c)) tokenize)
                                      (fun x_ => (x_, (v_l_tokens, PNone)))
                                      (fun v_r_tokens => (PNone, (v_l_tokens, v_r_tokens))))
                    else (PNone, (PNone, PNone)))
                   = (PNone, (am_ltok, am_rtok))).
    { unfold am_ltok, am_rtok. destruct am_cache eqn:Ec; [|reflexivity].
      destruct (Hgen eq_refl) as (-> & -> & Hl & Hr).
      rewrite (IndexPyFacts.bindx_ok ltokd) by exact Hl. rewrite (IndexPyFacts.bindx_ok rtokd) by exact Hr. reflexivity. }
    rewrite Etok. clear Etok. cbv beta iota. rewrite (IndexPyFacts.bindx_ok PNone) by reflexivity.
    match goal with |- ?G = _ =>
      change G with (par_block (fun fr sp =>
        apply_matcher_split_rows fr (PStr clk) (PStr crk) (sframe am_lproj am_lrows) (sframe am_rproj am_rrows)
          (PStr (p_lkey c)) (PStr (p_rkey c)) (PStr (p_ljoin c)) (PStr (p_rjoin c)) tokv t (PStr op) (PBool am)
          (py_opt_strs (dedupe_opt (p_lkey c) (p_lout c))) (py_opt_strs (dedupe_opt (p_rkey c) (p_rout c)))
          (PStr (p_lpre c)) (PStr (p_rpre c)) (PBool (p_score c)) sp am_ltok am_rtok tokenize sim_fn)
        (sframe cc csrc) showp (PInt am_k)) end.
    apply (par_block_eq _ cc hdr csrc F showp am_k bs); [exact Hchunk | exact Hsplit].
  Qed.
End ApplyMatcher.

Section FilterCandset.
  Variables (lcols rcols cc : list string) (lkey rkey lattr rattr clk crk : string).
  Variables (lsrc rsrc csrc : list (list pyval)).
  Variables (showp : pyval) (njobs cpus : Z) (filter_pair : pyval -> pyval -> pyval).
  Variables (bs : list (nat * nat)) (F : list (list pyval) -> list (list pyval)).

  Definition fc_lrows := project_rows lcols [lkey; lattr] lsrc.
  Definition fc_rrows := project_rows rcols [rkey; rattr] rsrc.
  Definition fc_k : Z := nchunks njobs cpus (List.length csrc).
  Definition fc_chunks := par_chunks csrc fc_k bs.

  Hypothesis Hlk : In lkey lcols.
  Hypothesis Hla : In lattr lcols.
  Hypothesis Hrk : In rkey rcols.
  Hypothesis Hra : In rattr rcols.
  Hypothesis Hclk : In clk cc.
  Hypothesis Hcrk : In crk cc.
  Hypothesis Hls : shaped (List.length lcols) lsrc.
  Hypothesis Hrs : shaped (List.length rcols) rsrc.
  Hypothesis Hcs : shaped (List.length cc) csrc.
  Hypothesis Hchunk : forall ch sp, In ch fc_chunks ->
    filter_candset_split_rows (sframe cc ch) (PStr clk) (PStr crk) (sframe [lkey; lattr] fc_lrows)
      (sframe [rkey; rattr] fc_rrows) (PStr lkey) (PStr rkey) (PStr lattr) (PStr rattr) sp filter_pair
    = sframe cc (F ch) /\ shaped (List.length cc) (F ch).
  Hypothesis Hsplit : 1 < fc_k ->
    List.length bs = Z.to_nat fc_k /\
    split_table_frame (sframe cc csrc) (PInt fc_k) = PList (map (fun ab => sframe cc (slice_nat csrc ab)) bs).

  Theorem filter_candset_rows_chunks :
    filter_candset_rows (sframe cc csrc) (PStr clk) (PStr crk) (sframe lcols lsrc) (sframe rcols rsrc)
      (PStr lkey) (PStr rkey) (PStr lattr) (PStr rattr) (PInt njobs) showp (PInt cpus) filter_pair
    = match csrc with
      | [] => sframe cc []
      | _ => sframe cc (List.concat (map F fc_chunks))
      end.
  Proof.
    unfold filter_candset_rows.
    rewrite !frame_columns_sframe by assumption.
    repeat first [ rewrite validate_attr_ok by assumption | rewrite IndexPyFacts.bindx_ok by reflexivity ].
    destruct csrc as [|c0 cs] eqn:Ecs.
    { rewrite frame_empty_norows. rewrite (IndexPyFacts.bindx_ok (PBool true)) by reflexivity. reflexivity. }
    rewrite <- Ecs in *.
    assert (Hne1 : csrc <> []) by (rewrite Ecs; discriminate).
    assert (Hne2 : cc <> []) by (intros E0; rewrite E0 in Hclk; destruct Hclk).
    rewrite (frame_empty_nonempty cc csrc Hcs Hne1 Hne2).
    rewrite (IndexPyFacts.bindx_ok (PBool false)) by reflexivity. cbn [py_truth].
    change (PList [PStr lkey; PStr lattr]) with (py_strs [lkey; lattr]).
    change (PList [PStr rkey; PStr rattr]) with (py_strs [rkey; rattr]).
    rewrite (frame_select_sframe lcols lsrc [lkey; lattr] Hls)
      by (intros a [<-|[<-|[]]]; assumption).
    rewrite (frame_select_sframe rcols rsrc [rkey; rattr] Hrs)
      by (intros a [<-|[<-|[]]]; assumption).
    fold (project_rows lcols [lkey; lattr] lsrc). fold (project_rows rcols [rkey; rattr] rsrc).
    fold fc_lrows fc_rrows.
    rewrite (IndexPyFacts.bindx_ok (sframe _ _)) by reflexivity.
    rewrite (IndexPyFacts.bindx_ok (sframe _ _)) by reflexivity.
    rewrite nprocs_eval. rewrite !frame_len_sframe by assumption.
    rewrite IndexPyFacts.py_min_int. fold (nchunks njobs cpus (List.length csrc)). fold fc_k.
    rewrite (IndexPyFacts.bindx_ok (PInt _)) by reflexivity.
    match goal with |- ?G = _ =>
      change G with (par_block (fun fr sp =>
        filter_candset_split_rows fr (PStr clk) (PStr crk) (sframe [lkey; lattr] fc_lrows)
          (sframe [rkey; rattr] fc_rrows) (PStr lkey) (PStr rkey) (PStr lattr) (PStr rattr) sp filter_pair)
        (sframe cc csrc) showp (PInt fc_k)) end.
    apply (par_block_eq _ cc cc csrc F showp fc_k bs); [exact Hchunk | exact Hsplit].
  Qed.
End FilterCandset.

Print Assumptions apply_matcher_rows_chunks.
Print Assumptions filter_candset_rows_chunks.
