(* Shared material for the refinement proofs of the GENERATED per-chunk functions other than
   set_sim_join_rows (Gen/JoinGen.v: overlap_filter_tables_split_rows,
   overlap_coefficient_join_split_rows, {size,prefix,position}_filter_tables_split_rows,
   edit_distance_join_split_rows): comparison operators on numbers, component access, the
   abstract candidate dict of OverlapFilter.find_candidates (keys / values), iteration over a
   set-as-dict, and the two generic permutation steps (one right row; the whole chunk).
   Lists / Z only: axiom-free.                                                           *)
From Coq Require Import ZArith Bool List String Lia Permutation.
From SSJ Require Import F64 PyNum FilterUtilsGen HelperGen TokenOrderingGen ValidationGen IndexGen JoinGen
     TokenOrdering Measures Filters Joins Projection ProjSpec ProjectionFacts OrderingGenFacts
     IndexPyFacts IndexBuildFacts IndexProbeFacts IndexRefine IndexInverted IndexPrefix IndexSize
     JoinGenFacts JoinGenLoop JoinRefine.
Import ListNotations.
Open Scope Z_scope.

(* ---------------------------------------------------------------- COMP_OP_MAP on numbers *)
Lemma comp_fn_bool_num op cf a t : comp_op_map op = Some cf -> num_of a <> None -> num_of t <> None ->
  exists b, cf a t = PBool b.
Proof.
  intros Hop Ha Ht. unfold comp_op_map in Hop.
  assert (Hord : forall test, exists b, py_ord test a t = PBool b).
  { intros test. unfold py_ord, strict2, ord_cmp.
    destruct a; cbn [num_of] in Ha; try congruence;
      destruct t; cbn [num_of] in *; try congruence;
      match goal with |- context [num_cmp ?x ?y] => destruct (num_cmp x y) end; eexists; reflexivity. }
  repeat match type of Hop with
         | (if ?c then _ else _) = _ => destruct c
         end; try discriminate; injection Hop as <-;
    try apply Hord; unfold py_eq, py_ne, strict2;
    destruct a; cbn [num_of] in Ha; try congruence;
    destruct t; cbn [num_of] in Ht; try congruence; eexists; reflexivity.
Qed.

(* ---------------------------------------------------------------- component access *)
Lemma getitem_tuple3 a b c :
  py_getitem (PTuple [a; b; c]) (PInt 0) = a /\ py_getitem (PTuple [a; b; c]) (PInt 1) = b /\
  py_getitem (PTuple [a; b; c]) (PInt 2) = c.
Proof. repeat split; reflexivity. Qed.
Lemma getitem_tuple4 a b c d :
  py_getitem (PTuple [a; b; c; d]) (PInt 0) = a /\ py_getitem (PTuple [a; b; c; d]) (PInt 1) = b /\
  py_getitem (PTuple [a; b; c; d]) (PInt 2) = c /\ py_getitem (PTuple [a; b; c; d]) (PInt 3) = d.
Proof. repeat split; reflexivity. Qed.
Lemma getitem_empty_records y :
  py_getitem (PDict [PTuple [PStr "empty_records"%string; y]]) (PStr "empty_records"%string) = y.
Proof. reflexivity. Qed.

(* iterating over a set (modelled as a dict with PNone values) = iterating over its keys *)
Lemma py_for_srepr {S} (d : sset) raised fail body (s0 : S) :
  py_for (srepr d) raised fail body s0 = py_for (PList (map PInt (map fst d))) raised fail body s0.
Proof.
  unfold py_for, srepr. cbn [py_iter]. f_equal. unfold dict_keys, drepr. rewrite !map_map. reflexivity.
Qed.

Lemma py_not_in_oe m :
  py_not_in (PStr m) (PList [PStr "OVERLAP"%string; PStr "EDIT_DISTANCE"%string])
  = PBool (negb (String.eqb m "OVERLAP") && negb (String.eqb m "EDIT_DISTANCE")).
Proof.
  unfold py_not_in, py_in, py_not, strict1, strict2. cbn [mem_pv pv_eqb py_truth orb].
  rewrite (String.eqb_sym "OVERLAP" m), (String.eqb_sym "EDIT_DISTANCE" m), orb_false_r, negb_orb.
  reflexivity.
Qed.

(* ---------------------------------------------------------------- association lists *)
Lemma aset_in {V} : forall (d : list (Z * V)) k v k' v',
  In (k', v') (aset d k v) -> (k' = k /\ v' = v) \/ In (k', v') d.
Proof.
  induction d as [|[k0 v0] d IH]; intros k v k' v'; cbn [aset].
  - intros [E|[]]. injection E as <- <-. left; split; reflexivity.
  - destruct (Z.eqb_spec k0 k) as [->|Hne].
    + intros [E|H]; [injection E as <- <-; left; split; reflexivity | right; right; exact H].
    + intros [E|H]; [right; left; exact E|].
      destruct (IH _ _ _ _ H) as [H'|H']; [left; exact H' | right; right; exact H'].
Qed.
Lemma aget_in {V} : forall (d : list (Z * V)) k v, aget d k = Some v -> In (k, v) d.
Proof.
  induction d as [|[k0 v0] d IH]; intros k v; cbn [aget]; [discriminate|].
  destruct (Z.eqb_spec k0 k) as [->|Hne]; [intros E; injection E as <-; left; reflexivity|].
  intros H. right. apply IH. exact H.
Qed.
Lemma aget_none_keys {V} : forall (d : list (Z * V)) k, ~ In k (map fst d) -> aget d k = None.
Proof.
  intros d k Hn. destruct (aget d k) as [v|] eqn:E; [|reflexivity].
  exfalso. apply Hn. eapply aget_in_keys. exact E.
Qed.

(* ---------------------------------------------------------------- OverlapFilter candidates *)
(* keys are distinct row positions below n, every stored overlap is positive *)
Definition okeys (n : Z) (d : list (Z * Z)) : Prop :=
  NoDup (map fst d) /\ (forall c, In c (map fst d) -> 0 <= c < n) /\ forall c v, In (c, v) d -> 0 < v.

Lemma ocand_upd_ok n d c : 0 <= c < n -> okeys n d -> okeys n (ocand_upd d c).
Proof.
  intros Hc (Hnd & Hk & Hp). unfold ocand_upd. split; [apply aset_nodup; exact Hnd|]. split.
  - intros c' Hc'. apply aset_keys in Hc'. destruct Hc' as [->|Hc']; [exact Hc | apply Hk; exact Hc'].
  - intros c' v Hin. apply aset_in in Hin. destruct Hin as [[-> ->]|Hin]; [|eapply Hp; exact Hin].
    unfold cval. destruct (aget d c) as [v0|] eqn:E; [|lia].
    apply aget_in in E. specialize (Hp _ _ E). lia.
Qed.

Lemma oprobe_ok n idx : (forall w c, In c (iidx_get idx w) -> 0 <= c < n) ->
  forall Y, okeys n (oprobe_abs idx Y).
Proof.
  intros Hidx Y. unfold oprobe_abs.
  assert (H0 : okeys n []) by (split; [constructor | split; [intros c [] | intros c v []]]).
  revert H0. generalize ([] : list (Z * Z)) as d.
  induction Y as [|w Y IH]; intros d Hd; cbn [fold_left]; [exact Hd|].
  apply IH. specialize (Hidx w). revert d Hd.
  induction (iidx_get idx w) as [|c l IHl]; intros d Hd; cbn [fold_left]; [exact Hd|].
  apply IHl; [intros c' Hc'; apply Hidx; right; exact Hc'|].
  apply ocand_upd_ok; [apply Hidx; left; reflexivity | exact Hd].
Qed.

Lemma iposts_from_range w : forall xs c0 c, In c (iposts_from w c0 xs) -> c0 <= c < c0 + nrows xs.
Proof.
  induction xs as [|x xs IH]; intros c0 c; cbn [iposts_from]; [intros []|].
  unfold nrows in *. cbn [List.length]. intros Hin. apply in_app_or in Hin. destruct Hin as [H|H].
  - apply repeat_spec in H. subst. lia.
  - specialize (IH _ _ H). lia.
Qed.

(* the candidate dict of the inverted index over L, probed with Y *)
Definition ocands (flag ce : bool) (L : list (list Z)) (Y : list Z) : list (Z * Z) :=
  oprobe_abs (i_idx (ibuild_abs flag ce L)) Y.

Lemma ocands_ok flag ce L Y : okeys (Z.of_nat (List.length L)) (ocands flag ce L Y).
Proof.
  apply oprobe_ok. intros w c Hc. rewrite ibuild_postings in Hc.
  apply iposts_from_range in Hc. unfold nrows in Hc. lia.
Qed.

Lemma ocands_val flag ce L Y c : (c < List.length L)%nat ->
  cval (ocands flag ce L Y) (Z.of_nat c) = overlap_count (nth c L []) Y.
Proof.
  intros Hc. unfold ocands, oprobe_abs, overlap_count. set (a := ibuild_abs flag ce L).
  assert (G : forall Yl d, cval (fold_left (fun d w => fold_left ocand_upd (iidx_get (i_idx a) w) d) Yl d)
                               (Z.of_nat c)
                         = fold_left (fun cur w => cur + countZ w (nth c L [])) Yl (cval d (Z.of_nat c))).
  { induction Yl as [|w Yl IH]; intros d; cbn [fold_left]; [reflexivity|].
    rewrite IH. f_equal. unfold a. rewrite ibuild_postings. change 0 with (Z.of_nat 0).
    rewrite (fold_iposts w c L L 0 d) by (intros n _; reflexivity).
    replace ((0 <=? c)%nat && (c <? 0 + List.length L)%nat) with true; [reflexivity|].
    symmetry. apply andb_true_iff. split; [apply Nat.leb_le | apply Nat.ltb_lt]; lia. }
  rewrite G. reflexivity.
Qed.

(* ---------------------------------------------------------------- one right row *)
Lemma gen_row_eq {E} (key : E -> Z) (hits : E -> list (Z * pyval)) (tri : nat -> list triple) (j : nat) :
  forall d : list E,
  (forall e, In e d ->
     map (fun cs : Z * pyval => (Z.to_nat (fst cs), j, snd cs)) (hits e) = tri (Z.to_nat (key e))) ->
  map (fun cs : Z * pyval => (Z.to_nat (fst cs), j, snd cs)) (flat_map hits d)
  = flat_map tri (map Z.to_nat (map key d)).
Proof.
  intros d H. rewrite map_flat_map, flat_map_concat_map, !map_map. f_equal.
  apply map_ext_in. exact H.
Qed.

Lemma keys_row_perm (n : nat) (keys : list Z) (tri : nat -> list triple) :
  NoDup keys -> (forall c, In c keys -> 0 <= c < Z.of_nat n) ->
  (forall c, (c < n)%nat -> ~ In (Z.of_nat c) keys -> tri c = []) ->
  Permutation (flat_map tri (map Z.to_nat keys)) (flat_map tri (seq 0 n)).
Proof.
  intros Hnd Hk Hout. apply perm_flat_map_keys.
  - apply NoDup_map_inj_in; [exact Hnd|]. intros a b Ha Hb E.
    pose proof (Hk a Ha). pose proof (Hk b Hb). lia.
  - intros c Hc. apply in_map_iff in Hc. destruct Hc as (k & <- & Hkin). specialize (Hk k Hkin). lia.
  - intros c Hc Hnot. apply Hout; [exact Hc|]. intros Hin. apply Hnot.
    apply in_map_iff. exists (Z.of_nat c). split; [apply Nat2Z.id | exact Hin].
Qed.

(* the model's per-row list over (enumerate Lo) as a flat_map over positions *)
Lemma flat_map_enumerate {A B} (d : A) (g : nat * A -> list B) (xs : list A) :
  flat_map g (enumerate xs) = flat_map (fun c => g (c, nth c xs d)) (seq 0 (List.length xs)).
Proof.
  unfold enumerate. rewrite (enumerate_as_map d xs), !flat_map_concat_map, map_map. reflexivity.
Qed.

(* ---------------------------------------------------------------- the whole chunk *)
Section Chunk.
  Context {Y : Type}.
  Variables (sc : bool) (ki kj : nat) (li ri : list nat) (lrows rrows : list (list pyval)).
  Variable yof : list pyval -> Y.
  Variable row_pairs : Y -> list (Z * pyval).
  Variable model_row : nat -> Y -> list triple.
  Hypothesis Hrow : forall j rrow, In rrow rrows ->
    Permutation (map (fun cs : Z * pyval => (Z.to_nat (fst cs), j, snd cs)) (row_pairs (yof rrow)))
                (model_row j (yof rrow)).

  Lemma chunk_perm :
    Permutation
      (List.concat (map (fun r => map (fun cs : Z * pyval => out_row sc ki kj li ri lrows (fst cs) r (snd cs))
                                      (row_pairs (yof r))) rrows))
      (map (triple_row sc lrows rrows ki kj li ri)
           (flat_map (fun jr : nat * list pyval => model_row (fst jr) (yof (snd jr))) (enumerate rrows))).
  Proof.
    set (g := fun jr : nat * list pyval =>
                map (fun cs : Z * pyval => (Z.to_nat (fst cs), fst jr, snd cs)) (row_pairs (yof (snd jr)))).
    set (mr := fun jr : nat * list pyval => model_row (fst jr) (yof (snd jr))).
    apply Permutation_trans
      with (map (triple_row sc lrows rrows ki kj li ri) (List.concat (map g (enumerate rrows)))).
    - rewrite concat_map, map_map.
      apply (enumerate_from_perm (fun jr => map (triple_row sc lrows rrows ki kj li ri) (g jr))
               (fun r => map (fun cs : Z * pyval => out_row sc ki kj li ri lrows (fst cs) r (snd cs))
                             (row_pairs (yof r))) rrows 0).
      intros j rrow Hjr. destruct (enumerate_nth [] rrows 0 j rrow Hjr) as [_ Hn].
      rewrite Nat.sub_0_r in Hn.
      unfold g. cbn [fst snd]. rewrite map_map. cbn [fst snd triple_row].
      unfold out_row. rewrite Hn. apply Permutation_refl.
    - apply Permutation_map. rewrite flat_map_concat_map. apply perm_concat_forall2.
      unfold enumerate. generalize (seq 0 (List.length rrows)) as js.
      assert (Hall : forall r, In r rrows -> In r rrows) by auto. revert Hall.
      generalize rrows at 1 3 4 as rs.
      induction rs as [|r rs IH]; intros Hall js; destruct js as [|j js]; cbn [combine map]; try constructor.
      + unfold g, mr. cbn [fst snd]. apply (Hrow j r). apply Hall. left; reflexivity.
      + apply IH. intros r' Hr'. apply Hall. right; exact Hr'.
  Qed.

  Lemma chunk_bounds :
    (forall j y tr, In tr (model_row j y) -> (fst (fst tr) < List.length lrows)%nat /\ snd (fst tr) = j) ->
    forall tr, In tr (flat_map (fun jr : nat * list pyval => model_row (fst jr) (yof (snd jr))) (enumerate rrows)) ->
      (fst (fst tr) < List.length lrows)%nat /\ (snd (fst tr) < List.length rrows)%nat.
  Proof.
    intros Hb tr Htr. apply in_flat_map in Htr. destruct Htr as ([j rrow] & Hjr & Htr).
    cbn [fst snd] in Htr. destruct (Hb _ _ _ Htr) as [Hc Hj].
    split; [exact Hc|]. rewrite Hj. apply in_combine_l in Hjr. apply in_seq in Hjr. lia.
  Qed.
End Chunk.

(* the rows of (enumerate (map f rows)) *)
Lemma enumerate_map {A B} (f : A -> B) (l : list A) :
  enumerate (map f l) = map (fun jx : nat * A => (fst jx, f (snd jx))) (enumerate l).
Proof. unfold enumerate. apply combine_seq_map. Qed.

Lemma flat_map_map {A B C} (f : A -> B) (g : B -> list C) (l : list A) :
  flat_map g (map f l) = flat_map (fun x => g (f x)) l.
Proof. rewrite !flat_map_concat_map, map_map. reflexivity. Qed.

Lemma flat_map_ext_in' {A B} (f g : A -> list B) : forall l : list A,
  (forall a, In a l -> f a = g a) -> flat_map f l = flat_map g l.
Proof.
  induction l as [|a l IH]; intros H; cbn [flat_map]; [reflexivity|].
  rewrite (H a (or_introl eq_refl)), IH; [reflexivity|]. intros b Hb. apply H. right; exact Hb.
Qed.

(* ---------------------------------------------------------------- a tokenizer for the examples *)
Definition sx_toks (v : pyval) : list Z :=
  match v with
  | PStr s => if String.eqb s "a b" then [1; 2] else if String.eqb s "b a" then [2; 1]
              else if String.eqb s "b" then [2] else if String.eqb s "c" then [3]
              else if String.eqb s "b c" then [2; 3] else if String.eqb s "a b c" then [1; 2; 3] else []
  | _ => []
  end.
Definition sx_tokenize (v : pyval) : pyval := pints (sx_toks v).

(* ---------------------------------------------------------------- emitting one output row *)
(* closes the goal left by the row-construction code of the loops (both the
   get_output_row_from_tables branch and the two-key shortcut), with a score column *)
Ltac emit_row_score Hlc Hrc Hnohas has sc ki kj li ri ji jj exc_tac fin_tac :=
  unfold out_row, with_score;
  destruct has; cbn [py_truth];
  [ rewrite (out_row_has ki kj li ri ji jj _ _ Hlc Hrc); cbn [bindx];
    destruct sc; cbn [py_truth bindx];
    [ rewrite py_append_ok by exc_tac; cbn [bindx]; rewrite append_rows; cbn [bindx]; fin_tac
    | rewrite append_rows, app_nil_r; cbn [bindx]; fin_tac ]
  | let Eli := fresh "Eli" in let Eri := fresh "Eri" in
    destruct (Hnohas eq_refl) as [Eli Eri]; rewrite Eli in Hlc; rewrite Eri in Hrc;
    rewrite Eli, Eri;
    rewrite (out_row_nohas ki kj ji jj _ _ Hlc Hrc); cbn [bindx];
    destruct sc; cbn [py_truth bindx];
    [ rewrite py_append_ok by exc_tac; cbn [bindx]; rewrite append_rows; cbn [bindx]; fin_tac
    | rewrite append_rows, app_nil_r; cbn [bindx]; fin_tac ] ].

(* ... without a score column (the filters) *)
Ltac emit_row_noscore Hlc Hrc Hnohas has ki kj li ri ji jj fin_tac :=
  unfold out_row, with_score;
  destruct has; cbn [py_truth];
  [ rewrite (out_row_has ki kj li ri ji jj _ _ Hlc Hrc); cbn [bindx];
    rewrite append_rows, app_nil_r; cbn [bindx]; fin_tac
  | let Eli := fresh "Eli" in let Eri := fresh "Eri" in
    destruct (Hnohas eq_refl) as [Eli Eri]; rewrite Eli in Hlc; rewrite Eri in Hrc;
    rewrite Eli, Eri;
    rewrite (out_row_nohas ki kj ji jj _ _ Hlc Hrc); cbn [bindx];
    rewrite append_rows, app_nil_r; cbn [bindx]; fin_tac ].

Print Assumptions comp_fn_bool_num.
Print Assumptions ocands_ok.
Print Assumptions ocands_val.
Print Assumptions keys_row_perm.
Print Assumptions chunk_perm.
