(* Generic closing step for every generated wrapper: from WrapperBody.body_result (rows per chunk
   satisfy WrapperApiLink.chunk_ok) with the chunk boundaries bs = SplitFacts.split_bs k n to the
   end-to-end statement against Model/Api.v `api_join`.

   end_to_end_chunks: the returned frame is header_spec c with rows numbered (main ++ missing-value rows if
     allow_missing), main = concat RS (RS_j = the rows of chunk j), api_join jc = Some (concat AS ++ missing
     pairs if allow_missing) and, chunk by chunk, the key-level view of RS_j is a PERMUTATION of AS_j; the
     missing-value rows ARE Api.missing_pairs in order.
   end_to_end_flat: the shape of WrapperRefineEnd.end_to_end (one permutation for the whole main part).
   Depends on the Reals axioms through the chunk boundaries (WrapperRefineClosed.wchunks_chunks_of /
   split_hyp), like SplitFacts.chunks_of_partition; everything else is axiom-free.                  *)
From Coq Require Import ZArith Bool List String Lia Permutation.
From SSJ Require Import F64 PyNum FilterUtilsGen HelperGen TokenOrderingGen ValidationGen IndexGen JoinGen
     TokenOrdering Measures Filters Joins Api Projection ProjSpec IndexPyFacts ProjectionFacts
     JoinGenFacts JoinGenLoop JoinRefine JoinRefineProj SplitFacts Frame WrapperGen WrapperRefineFrame
     WrapperRefineMissing WrapperRefineCore WrapperRefineChunks WrapperRefine WrapperRefineClosed
     WrapperRefineApi WrapperBody WrapperApiLink.
Import ListNotations.
Open Scope Z_scope.

Section End.
  Variables (c : pcase) (am : bool) (njobs cpus : Z).
  Variables (lsrc rsrc : list (list pyval)).
  Variables (toks str : pyval -> list Z) (kz : pyval -> Z).
  Variable jc : jcase.
  Variable K : list (list pyval) -> option (list triple).

  Let rpres := rpresent c rsrc.
  Let k := kjobs c njobs cpus rsrc.
  Let n := Z.of_nat (List.length rpres).
  Let bs := split_bs k n.

  Definition end_to_end_chunks (lhs : pyval) : Prop :=
    exists (RS : list (list (list pyval))) (AS : list (list Api.out_row)),
      lhs = sframe (header_spec c) (numbered (List.concat RS ++ if am then mv_rows c lsrc rsrc else [])) /\
      api_join jc
      = Some (List.concat AS ++ if am then missing_pairs (map (arowLs c toks str kz) lsrc)
                                                            (map (arowRs c toks str kz) rsrc) else [])%list /\
      Forall2 (fun rows a => Permutation (map (row_out c kz) rows) a) RS AS /\
      map (mv_out kz) (mv_rows c lsrc rsrc)
      = missing_pairs (map (arowLs c toks str kz) lsrc) (map (arowRs c toks str kz) rsrc).

  Definition end_to_end_flat (lhs : pyval) : Prop :=
    exists (main : list (list pyval)) (main_api : list Api.out_row),
      lhs = sframe (header_spec c) (numbered (main ++ if am then mv_rows c lsrc rsrc else [])) /\
      api_join jc
      = Some (main_api ++ if am then missing_pairs (map (arowLs c toks str kz) lsrc)
                                                   (map (arowRs c toks str kz) rsrc) else [])%list /\
      Permutation (map (row_out c kz) main) main_api /\
      map (mv_out kz) (mv_rows c lsrc rsrc)
      = missing_pairs (map (arowLs c toks str kz) lsrc) (map (arowRs c toks str kz) rsrc).

  Lemma chunks_flat lhs : end_to_end_chunks lhs -> end_to_end_flat lhs.
  Proof.
    intros (RS & AS & E1 & E2 & HF & E3). exists (List.concat RS), (List.concat AS).
    split; [exact E1|]. split; [exact E2|]. split; [|exact E3].
    apply (forall2_perm_concat (row_out c kz) (fun a => a)) in HF. rewrite map_id in HF. exact HF.
  Qed.

  Hypothesis Hwf : well_formed c.
  Hypothesis Hlsrc : forall row, In row lsrc ->
    List.length row = List.length (p_lcols c) /\ ProjSpec.row_ok row.
  Hypothesis Hrsrc : forall row, In row rsrc ->
    List.length row = List.length (p_rcols c) /\ ProjSpec.row_ok row.
  Hypothesis HjL : j_L jc = map (arowLs c toks str kz) lsrc.
  Hypothesis HjR : j_R jc = map (arowRs c toks str kz) rsrc.
  Hypothesis Hjs : j_with_score jc = p_score c.
  Hypothesis Hjm : j_allow_missing jc = am.
  Hypothesis Hjn : j_njobs jc = njobs.
  Hypothesis Hjc : j_cpus jc = cpus.
  Hypothesis HK : forall ch, (forall row, In row ch -> In row rpres) ->
    core_of jc (map (arowLs c toks str kz) (lpresent c lsrc)) (map (arowRs c toks str kz) ch) = K ch.
  Hypothesis Hn : n < 2^31.

  Theorem end_of_body lhs :
    body_result c am njobs cpus lsrc rsrc bs (chunk_ok c lsrc K) lhs -> end_to_end_chunks lhs.
  Proof.
    intros (RS & Hlen & Hfacts & EW).
    destruct (wchunks_chunks_of c njobs cpus rsrc Hn) as (chs & Ech & Hmap & Hcat).
    fold rpres k n bs in Ech, Hmap, Hcat.
    destruct (api_link_gen c lsrc rsrc toks str kz jc K Hwf Hlsrc Hrsrc HjL HjR Hjs HK chs RS)
      as (AS & EA & HF & _ & Emv).
    - rewrite Hjn, Hjc. exact Ech.
    - exact Hcat.
    - rewrite Hlen, <- Hmap. now rewrite map_length.
    - intros j Hj. rewrite Hmap.
      assert (Hj' : (j < List.length (wchunks c njobs cpus rsrc bs))%nat) by (rewrite <- Hmap, map_length; exact Hj).
      exact (Hfacts j Hj').
    - exists RS, AS. rewrite Hjm in EA. repeat split; assumption.
  Qed.
End End.

Print Assumptions end_of_body.
Print Assumptions chunks_flat.
