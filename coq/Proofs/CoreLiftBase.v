(* Generic helper lemmas for Proofs/CoreLift.v and Proofs/ApiLift.v: `opt_concat`, `enumerate`,
   the generic nested loop `loop2` over a PAIR function, its keyed form `kloop`, and the
   permutation invariance of `rank`/`order`.  Pure list reasoning, axiom-free.            *)
From Coq Require Import ZArith Bool List Lia Permutation.
From SSJ Require Import F64 PyNum TokenOrdering Prefix PositionSafe OrderingFacts Filters Joins.
Import ListNotations.
Open Scope Z_scope.

(* ------------------------------------------------------------------ option-lists *)
Definition oapp {A : Type} (a b : option (list A)) : option (list A) :=
  match a, b with Some x, Some y => Some (x ++ y)%list | _, _ => None end.

Definition operm {A : Type} (a b : option (list A)) : Prop :=
  match a, b with
  | Some x, Some y => Permutation x y
  | None, None => True
  | _, _ => False
  end.

Lemma operm_refl {A} (a : option (list A)) : operm a a.
Proof. destruct a; simpl; auto. Qed.
Lemma operm_sym {A} (a b : option (list A)) : operm a b -> operm b a.
Proof. destruct a, b; simpl; auto. apply Permutation_sym. Qed.
Lemma operm_trans {A} (a b c : option (list A)) : operm a b -> operm b c -> operm a c.
Proof. destruct a, b, c; simpl; try tauto. apply Permutation_trans. Qed.
Lemma operm_eq {A} (a b : option (list A)) : a = b -> operm a b.
Proof. intros ->. apply operm_refl. Qed.
Lemma operm_oapp {A} (a a' b b' : option (list A)) :
  operm a a' -> operm b b' -> operm (oapp a b) (oapp a' b').
Proof.
  destruct a, a', b, b'; simpl; try tauto. apply Permutation_app.
Qed.
Lemma operm_oapp_comm {A} (a b : option (list A)) : operm (oapp a b) (oapp b a).
Proof. destruct a, b; simpl; auto. apply Permutation_app_comm. Qed.
Lemma operm_option_map {A B} (f : list A -> list B) (a b : option (list A)) :
  (forall x y, Permutation x y -> Permutation (f x) (f y)) ->
  operm a b -> operm (option_map f a) (option_map f b).
Proof. intros Hf. destruct a, b; simpl; auto. Qed.
Lemma oapp_assoc {A} (a b c : option (list A)) : oapp (oapp a b) c = oapp a (oapp b c).
Proof. destruct a, b, c; simpl; try reflexivity. rewrite app_assoc. reflexivity. Qed.
Lemma oapp_nil_r {A} (a : option (list A)) : oapp a (Some []) = a.
Proof. destruct a; simpl; [rewrite app_nil_r|]; reflexivity. Qed.

Lemma opt_concat_cons {A} (a : option (list A)) l : opt_concat (a :: l) = oapp a (opt_concat l).
Proof. destruct a; simpl; [destruct (opt_concat l)|]; reflexivity. Qed.

Lemma opt_concat_app {A} (l1 l2 : list (option (list A))) :
  opt_concat (l1 ++ l2) = oapp (opt_concat l1) (opt_concat l2).
Proof.
  induction l1 as [|a l1 IH]; [simpl; destruct (opt_concat l2); reflexivity|].
  rewrite <- app_comm_cons, !opt_concat_cons, IH, oapp_assoc. reflexivity.
Qed.

Lemma opt_concat_None_iff {A} (l : list (option (list A))) :
  opt_concat l = None <-> In None l.
Proof.
  induction l as [|a l IH]; [simpl; split; [discriminate|tauto]|].
  rewrite opt_concat_cons. destruct a as [x|]; simpl.
  - destruct (opt_concat l) eqn:E.
    + split; [discriminate|]. intros [H|H]; [discriminate|]. apply IH in H. discriminate.
    + split; [intros _; right; apply IH; reflexivity| reflexivity].
  - split; auto.
Qed.

Lemma opt_concat_In {A} (l : list (option (list A))) r :
  opt_concat l = Some r -> forall a, In a r <-> exists x, In (Some x) l /\ In a x.
Proof.
  revert r. induction l as [|o l IH]; intros r H a.
  - simpl in H. injection H as <-. simpl. split; [tauto|]. intros [x [[] _]].
  - rewrite opt_concat_cons in H. destruct o as [x|]; [|discriminate].
    destruct (opt_concat l) as [r'|] eqn:E; [|discriminate]. simpl in H. injection H as <-.
    rewrite in_app_iff, (IH r' eq_refl a). simpl. split.
    + intros [H|[y [Hy Ha]]]; [exists x; auto| exists y; auto].
    + intros [y [[Hy|Hy] Ha]]; [injection Hy as ->; auto| right; exists y; auto].
Qed.

Lemma opt_concat_map_Some {A B} (f : A -> list B) l :
  opt_concat (map (fun a => Some (f a)) l) = Some (flat_map f l).
Proof. induction l as [|a l IH]; simpl; [reflexivity|]. rewrite IH. reflexivity. Qed.

Lemma option_map_opt_concat {A B} (g : A -> B) (l : list (option (list A))) :
  option_map (map g) (opt_concat l) = opt_concat (map (option_map (map g)) l).
Proof.
  induction l as [|o l IH]; [reflexivity|].
  cbn [map]. rewrite !opt_concat_cons, <- IH.
  destruct o, (opt_concat l); simpl; try reflexivity. rewrite map_app. reflexivity.
Qed.

Lemma opt_concat_pointwise {A B} (f g : A -> option (list B)) l :
  (forall a, In a l -> operm (f a) (g a)) ->
  operm (opt_concat (map f l)) (opt_concat (map g l)).
Proof.
  induction l as [|a l IH]; intros Hfg; [simpl; apply Permutation_refl|].
  cbn [map]. rewrite !opt_concat_cons.
  apply operm_oapp; [apply Hfg; simpl; auto|]. apply IH.
  intros b Hb. apply Hfg. simpl; tauto.
Qed.

Lemma opt_concat_perm_same {A B} (f : A -> option (list B)) l l' :
  Permutation l l' -> operm (opt_concat (map f l)) (opt_concat (map f l')).
Proof.
  induction 1 as [|x l l' HP IH|x y l|l l' l'' HP1 IH1 HP2 IH2].
  - simpl. apply Permutation_refl.
  - cbn [map]. rewrite !opt_concat_cons. apply operm_oapp; [apply operm_refl|exact IH].
  - cbn [map]. rewrite !opt_concat_cons, <- !oapp_assoc.
    apply operm_oapp; [apply operm_oapp_comm|apply operm_refl].
  - eapply operm_trans; eassumption.
Qed.

Lemma opt_concat_perm {A B} (f g : A -> option (list B)) l l' :
  Permutation l l' -> (forall a, In a l -> operm (f a) (g a)) ->
  operm (opt_concat (map f l)) (opt_concat (map g l')).
Proof.
  intros HP Hfg. eapply operm_trans; [apply opt_concat_pointwise; exact Hfg|].
  apply opt_concat_perm_same. exact HP.
Qed.

(* ------------------------------------------------------------------ enumerate *)
Lemma combine_seq_In {A} (l : list A) : forall n i a,
  In (i, a) (combine (seq n (length l)) l) <-> (n <= i)%nat /\ nth_error l (i - n) = Some a.
Proof.
  induction l as [|h t IH]; intros n i a; simpl.
  - split; [tauto|]. intros [_ H]. destruct (i - n)%nat; discriminate.
  - rewrite IH. split.
    + intros [H|[H1 H2]].
      * injection H as <- <-. split; [lia|]. rewrite Nat.sub_diag. reflexivity.
      * split; [lia|]. replace (i - n)%nat with (S (i - S n)) by lia. exact H2.
    + intros [H1 H2]. destruct (i - n)%nat as [|k] eqn:E.
      * left. simpl in H2. injection H2 as ->. f_equal. lia.
      * right. split; [lia|]. simpl in H2. replace (i - S n)%nat with k by lia. exact H2.
Qed.

Lemma enumerate_In {A} (l : list A) i a : In (i, a) (enumerate l) <-> nth_error l i = Some a.
Proof.
  unfold enumerate. rewrite combine_seq_In, Nat.sub_0_r. split; [tauto|]. split; [lia|assumption].
Qed.

Lemma enumerate_In_snd {A} (l : list A) p : In p (enumerate l) -> In (snd p) l.
Proof. destruct p as [i a]. intros H. apply enumerate_In in H. eapply nth_error_In; eassumption. Qed.

Lemma enumerate_In_ex {A} (l : list A) a : In a l -> exists i, In (i, a) (enumerate l).
Proof.
  intros H. apply In_nth_error in H. destruct H as [i H]. exists i. apply enumerate_In. exact H.
Qed.

Lemma enumerate_fst {A} (l : list A) : map fst (enumerate l) = seq 0 (length l).
Proof.
  unfold enumerate. generalize 0%nat. induction l as [|h t IH]; intros n; simpl; [reflexivity|].
  rewrite IH. reflexivity.
Qed.

Lemma enumerate_snd {A} (l : list A) : map snd (enumerate l) = l.
Proof.
  unfold enumerate. generalize 0%nat. induction l as [|h t IH]; intros n; simpl; [reflexivity|].
  rewrite IH. reflexivity.
Qed.

Lemma enumerate_NoDup {A} (l : list A) : NoDup (map fst (enumerate l)).
Proof. rewrite enumerate_fst. apply seq_NoDup. Qed.

Lemma enumerate_map {A B} (f : A -> B) (l : list A) :
  enumerate (map f l) = map (fun p => (fst p, f (snd p))) (enumerate l).
Proof.
  unfold enumerate. rewrite map_length. generalize 0%nat.
  induction l as [|h t IH]; intros n; simpl; [reflexivity|]. rewrite IH. reflexivity.
Qed.

Lemma enumerate_nth {A} (l : list A) d p : In p (enumerate l) -> nth (fst p) l d = snd p.
Proof. destruct p as [i a]. intros H. apply enumerate_In in H. apply nth_error_nth. exact H. Qed.

(* a map over `enumerate (map g rows)` that only uses the position through `nth` *)
Lemma enumerate_map_nth {A X B} (g : A -> X) (F : A -> X -> B) (rows : list A) d :
  map (fun cx => F (nth (fst cx) rows d) (snd cx)) (enumerate (map g rows))
  = map (fun r => F r (g r)) rows.
Proof.
  rewrite enumerate_map, map_map. cbn [fst snd].
  transitivity (map (fun p : nat * A => F (snd p) (g (snd p))) (enumerate rows)).
  - apply map_ext_in. intros p Hp. rewrite (enumerate_nth rows d p Hp). reflexivity.
  - rewrite <- (map_map snd (fun r => F r (g r))), enumerate_snd. reflexivity.
Qed.

(* ------------------------------------------------------------------ NoDup helpers *)
Lemma NoDup_app_intro {A} (a b : list A) :
  NoDup a -> NoDup b -> (forall x, In x a -> ~ In x b) -> NoDup (a ++ b).
Proof.
  induction a as [|h t IH]; intros Ha Hb Hd; simpl; [exact Hb|].
  inversion Ha; subst. constructor.
  - rewrite in_app_iff. intros [H|H]; [contradiction| apply (Hd h (or_introl eq_refl) H)].
  - apply IH; [assumption|assumption|]. intros x Hx. apply Hd. right; exact Hx.
Qed.

(* ------------------------------------------------------------------ the generic nested loop *)
Section Loop2.
  Context {X Y : Type}.
  Variable pf : X -> Y -> option (list pyval).

  Definition row_loop (j : nat) (y : Y) (Lo : list (nat * X)) : option (list triple) :=
    opt_concat (map (fun cx : nat * X =>
                       option_map (map (fun s => (fst cx, j, s))) (pf (snd cx) y)) Lo).

  (* for every right row (outer loop), for every left row (inner loop), the pair function *)
  Definition loop2 (L : list X) (R : list Y) : option (list triple) :=
    opt_concat (map (fun jy : nat * Y => row_loop (fst jy) (snd jy) (enumerate L)) (enumerate R)).

  Lemma row_loop_In j y Lo r : row_loop j y Lo = Some r ->
    forall c j' s, In (c, j', s) r <->
      j' = j /\ exists x l, In (c, x) Lo /\ pf x y = Some l /\ In s l.
  Proof.
    intros H c j' s. unfold row_loop in H. rewrite (opt_concat_In _ _ H). split.
    - intros [l' [Hl' Hin]]. apply in_map_iff in Hl'. destruct Hl' as [[c' x] [E Hcx]].
      cbn [fst snd] in E. destruct (pf x y) as [l|] eqn:Epf; [|discriminate].
      simpl in E. injection E as <-. apply in_map_iff in Hin. destruct Hin as [s' [E Hs]].
      injection E as <- <- <-. split; [reflexivity|]. exists x, l. auto.
    - intros [-> [x [l [Hcx [Epf Hs]]]]]. exists (map (fun s => (c, j, s)) l). split.
      + apply in_map_iff. exists (c, x). cbn [fst snd]. rewrite Epf. auto.
      + apply in_map_iff. exists s. auto.
  Qed.

  Theorem loop2_In : forall L R res, loop2 L R = Some res ->
    forall c j s, In (c, j, s) res <->
      exists x y l, nth_error L c = Some x /\ nth_error R j = Some y /\ pf x y = Some l /\ In s l.
  Proof.
    intros L R res H c j s. unfold loop2 in H. rewrite (opt_concat_In _ _ H). split.
    - intros [r [Hr Hin]]. apply in_map_iff in Hr. destruct Hr as [[j' y] [E Hjy]].
      cbn [fst snd] in E. rewrite (row_loop_In _ _ _ _ E) in Hin.
      destruct Hin as [-> [x [l [Hcx [Epf Hs]]]]].
      exists x, y, l. rewrite <- !enumerate_In. auto.
    - intros [x [y [l [Hx [Hy [Epf Hs]]]]]].
      destruct (row_loop j y (enumerate L)) as [r|] eqn:E.
      + exists r. split; [apply in_map_iff; exists (j, y); rewrite enumerate_In; auto|].
        rewrite (row_loop_In _ _ _ _ E). split; [reflexivity|]. exists x, l.
        rewrite enumerate_In. auto.
      + exfalso. assert (Hn : In None (map (fun jy : nat * Y =>
                   row_loop (fst jy) (snd jy) (enumerate L)) (enumerate R))).
        { apply in_map_iff. exists (j, y). rewrite enumerate_In. auto. }
        apply opt_concat_None_iff in Hn. congruence.
  Qed.

  Theorem loop2_None_iff : forall L R,
    loop2 L R = None <-> exists x y, In x L /\ In y R /\ pf x y = None.
  Proof.
    intros L R. unfold loop2. rewrite opt_concat_None_iff, in_map_iff. split.
    - intros [[j y] [E Hjy]]. cbn [fst snd] in E. unfold row_loop in E.
      apply opt_concat_None_iff in E. apply in_map_iff in E. destruct E as [[c x] [E Hcx]].
      cbn [fst snd] in E. exists x, y. split; [apply (enumerate_In_snd _ _ Hcx)|].
      split; [apply (enumerate_In_snd _ _ Hjy)|]. destruct (pf x y); [discriminate|reflexivity].
    - intros [x [y [Hx [Hy Epf]]]]. destruct (enumerate_In_ex _ _ Hy) as [j Hj].
      destruct (enumerate_In_ex _ _ Hx) as [c Hc].
      exists (j, y). split; [|exact Hj]. cbn [fst snd]. unfold row_loop.
      apply opt_concat_None_iff. apply in_map_iff. exists (c, x). cbn [fst snd].
      rewrite Epf. auto.
  Qed.

  Corollary loop2_Some : forall L R,
    (forall x y, In x L -> In y R -> pf x y <> None) -> exists res, loop2 L R = Some res.
  Proof.
    intros L R H. destruct (loop2 L R) as [res|] eqn:E; [exists res; reflexivity|].
    apply loop2_None_iff in E. destruct E as [x [y [Hx [Hy E]]]]. destruct (H x y Hx Hy E).
  Qed.

  (* at most one score per pair => at most one row per position pair *)
  Lemma row_loop_once j y : forall Lo r,
    NoDup (map fst Lo) ->
    (forall cx l, In cx Lo -> pf (snd cx) y = Some l -> (length l <= 1)%nat) ->
    row_loop j y Lo = Some r -> NoDup (map fst r).
  Proof.
    induction Lo as [|[c x] Lo IH]; intros r Hnd Hlen H.
    - unfold row_loop in H. simpl in H. injection H as <-. constructor.
    - unfold row_loop in H. cbn [map] in H. rewrite opt_concat_cons in H. cbn [fst snd] in H.
      destruct (pf x y) as [l|] eqn:Epf; [|discriminate].
      fold (row_loop j y Lo) in H. destruct (row_loop j y Lo) as [r'|] eqn:E; [|discriminate].
      simpl in H. injection H as <-. simpl in Hnd. inversion Hnd as [|? ? Hni Hnd']; subst.
      assert (IH' : NoDup (map fst r')).
      { apply IH; [exact Hnd'| |reflexivity]. intros cx l' Hcx. apply Hlen. right; exact Hcx. }
      assert (Hl := Hlen (c, x) l (or_introl eq_refl) Epf).
      destruct l as [|s [|s' l]]; [exact IH'| |simpl in Hl; lia].
      simpl. constructor; [|exact IH'].
      intros Hin. apply in_map_iff in Hin. destruct Hin as [[[c' j'] s'] [E' Hin]].
      simpl in E'. injection E' as -> ->.
      apply (row_loop_In _ _ _ _ E) in Hin. destruct Hin as [_ [x' [l' [Hcx _]]]].
      apply Hni. apply in_map_iff. exists (c, x'). auto.
  Qed.

  Theorem loop2_once : forall L R res,
    (forall x y l, In x L -> In y R -> pf x y = Some l -> (length l <= 1)%nat) ->
    loop2 L R = Some res -> NoDup (map fst res).
  Proof.
    intros L R res Hlen. unfold loop2.
    assert (Hnd := enumerate_NoDup R).
    assert (Hsub : forall p, In p (enumerate R) -> In (snd p) R) by apply enumerate_In_snd.
    revert res Hnd Hsub. generalize (enumerate R) as Ro.
    induction Ro as [|[j y] Ro IH]; intros res Hnd Hsub H.
    - simpl in H. injection H as <-. constructor.
    - cbn [map] in H. rewrite opt_concat_cons in H. cbn [fst snd] in H.
      destruct (row_loop j y (enumerate L)) as [a|] eqn:Ea; [|discriminate].
      destruct (opt_concat (map (fun jy : nat * Y => row_loop (fst jy) (snd jy) (enumerate L)) Ro))
        as [b|] eqn:Eb; [|discriminate].
      simpl in H. injection H as <-. simpl in Hnd. inversion Hnd as [|? ? Hni Hnd']; subst.
      rewrite map_app. apply NoDup_app_intro.
      + apply (row_loop_once j y (enumerate L) a (enumerate_NoDup L)); [|exact Ea].
        intros cx l Hcx. apply Hlen; [apply enumerate_In_snd; exact Hcx|].
        apply (Hsub (j, y)). left; reflexivity.
      + apply IH; [exact Hnd'| |reflexivity]. intros p Hp. apply Hsub. right; exact Hp.
      + intros [c j'] Ha Hb. apply in_map_iff in Ha. destruct Ha as [[[c1 j1] s1] [E1 Ha]].
        simpl in E1. injection E1 as -> ->.
        apply (row_loop_In _ _ _ _ Ea) in Ha. destruct Ha as [-> _].
        apply in_map_iff in Hb. destruct Hb as [[[c2 j2] s2] [E2 Hb]].
        simpl in E2. injection E2 as -> ->.
        rewrite (opt_concat_In _ _ Eb) in Hb. destruct Hb as [r [Hr Hb]].
        apply in_map_iff in Hr. destruct Hr as [[j2 y2] [E2 Hr]]. cbn [fst snd] in E2.
        apply (row_loop_In _ _ _ _ E2) in Hb. destruct Hb as [-> _].
        apply Hni. apply in_map_iff. exists (j2, y2). auto.
  Qed.

  (* the pair function may be replaced by one that agrees on the rows *)
  Lemma loop2_ext_aux : forall (pf' : X -> Y -> option (list pyval)) L R,
    (forall x y, In x L -> In y R -> pf x y = pf' x y) ->
    loop2 L R =
    opt_concat (map (fun jy : nat * Y =>
      opt_concat (map (fun cx : nat * X =>
        option_map (map (fun s => (fst cx, fst jy, s))) (pf' (snd cx) (snd jy))) (enumerate L)))
      (enumerate R)).
  Proof.
    intros pf' L R H. unfold loop2, row_loop. f_equal. apply map_ext_in. intros jy Hjy.
    f_equal. apply map_ext_in. intros cx Hcx. rewrite H; [reflexivity| |];
      apply enumerate_In_snd; assumption.
  Qed.
End Loop2.

Theorem loop2_ext {X Y} (pf pf' : X -> Y -> option (list pyval)) L R :
  (forall x y, In x L -> In y R -> pf x y = pf' x y) -> loop2 pf L R = loop2 pf' L R.
Proof. intros H. rewrite (loop2_ext_aux pf pf' L R H). reflexivity. Qed.

(* mapping the rows first is the same as composing the pair function with the maps *)
Theorem loop2_map {A B X Y} (pf : X -> Y -> option (list pyval)) (gx : A -> X) (gy : B -> Y) L R :
  loop2 pf (map gx L) (map gy R) = loop2 (fun a b => pf (gx a) (gy b)) L R.
Proof.
  unfold loop2, row_loop. rewrite !enumerate_map, !map_map. f_equal. apply map_ext. intros jy.
  rewrite map_map. reflexivity.
Qed.

(* ------------------------------------------------------------------ the keyed nested loop *)
Section KLoop.
  Context {A B K X Y : Type}.
  Variable pf : X -> Y -> option (list pyval).
  Variable kx : A -> K.
  Variable ky : B -> K.
  Variable gx : A -> X.
  Variable gy : B -> Y.

  Definition kloop (L : list A) (R : list B) : option (list (K * K * pyval)) :=
    opt_concat (map (fun r =>
      opt_concat (map (fun l => option_map (map (fun s => (kx l, ky r, s))) (pf (gx l) (gy r))) L)) R).

  Definition rekey (dl : A) (dr : B) (L : list A) (R : list B) (ts : list triple)
    : list (K * K * pyval) :=
    map (fun t : triple => (kx (nth (fst (fst t)) L dl), ky (nth (snd (fst t)) R dr), snd t)) ts.

  (* positions replaced by keys: the loop over (position, value) is the loop over rows *)
  Theorem loop2_rekey : forall dl dr L R,
    option_map (rekey dl dr L R) (loop2 pf (map gx L) (map gy R)) = kloop L R.
  Proof.
    intros dl dr L R. unfold rekey, loop2, kloop.
    rewrite option_map_opt_concat, map_map.
    rewrite <- (enumerate_map_nth gy (fun r (y : Y) =>
      opt_concat (map (fun l => option_map (map (fun s => (kx l, ky r, s))) (pf (gx l) y)) L)) R dr).
    f_equal. apply map_ext. intros [j y]. cbn [fst snd]. unfold row_loop.
    rewrite option_map_opt_concat, map_map.
    rewrite <- (enumerate_map_nth gx (fun l (x : X) =>
      option_map (map (fun s => (kx l, ky (nth j R dr), s))) (pf x y)) L dl).
    f_equal. apply map_ext. intros [c x]. cbn [fst snd].
    destruct (pf x y) as [l|]; [|reflexivity]. simpl. rewrite map_map. reflexivity.
  Qed.

  Theorem kloop_app_R : forall L R1 R2, kloop L (R1 ++ R2) = oapp (kloop L R1) (kloop L R2).
  Proof. intros. unfold kloop. rewrite map_app, opt_concat_app. reflexivity. Qed.

  Theorem kloop_nil_R : forall L, kloop L [] = Some [].
  Proof. reflexivity. Qed.

  Theorem kloop_In : forall L R res, kloop L R = Some res ->
    forall a b s, In (a, b, s) res <->
      exists l r lst, In l L /\ In r R /\ a = kx l /\ b = ky r /\
                      pf (gx l) (gy r) = Some lst /\ In s lst.
  Proof.
    intros L R res H a b s. unfold kloop in H. rewrite (opt_concat_In _ _ H). split.
    - intros [rr [Hrr Hin]]. apply in_map_iff in Hrr. destruct Hrr as [r [E Hr]].
      rewrite (opt_concat_In _ _ E) in Hin. destruct Hin as [ll [Hll Hin]].
      apply in_map_iff in Hll. destruct Hll as [l [E' Hl]].
      destruct (pf (gx l) (gy r)) as [lst|] eqn:Epf; [|discriminate].
      simpl in E'. injection E' as <-. apply in_map_iff in Hin. destruct Hin as [s' [E' Hs]].
      injection E' as <- <- <-. exists l, r, lst. auto 10.
    - intros [l [r [lst [Hl [Hr [-> [-> [Epf Hs]]]]]]]].
      destruct (opt_concat (map (fun l => option_map (map (fun s => (kx l, ky r, s)))
                                            (pf (gx l) (gy r))) L)) as [rr|] eqn:E.
      + exists rr. split; [apply in_map_iff; exists r; auto|].
        rewrite (opt_concat_In _ _ E). exists (map (fun s => (kx l, ky r, s)) lst). split.
        * apply in_map_iff. exists l. rewrite Epf. auto.
        * apply in_map_iff. exists s. auto.
      + exfalso. assert (Hn : In None (map (fun r => opt_concat (map (fun l =>
           option_map (map (fun s => (kx l, ky r, s))) (pf (gx l) (gy r))) L)) R)).
        { apply in_map_iff. exists r. auto. }
        apply opt_concat_None_iff in Hn. congruence.
  Qed.

  Theorem kloop_None_iff : forall L R,
    kloop L R = None <-> exists l r, In l L /\ In r R /\ pf (gx l) (gy r) = None.
  Proof.
    intros L R. unfold kloop. rewrite opt_concat_None_iff, in_map_iff. split.
    - intros [r [E Hr]]. apply opt_concat_None_iff in E. apply in_map_iff in E.
      destruct E as [l [E Hl]]. exists l, r. split; [exact Hl|]. split; [exact Hr|].
      destruct (pf (gx l) (gy r)); [discriminate|reflexivity].
    - intros [l [r [Hl [Hr E]]]]. exists r. split; [|exact Hr].
      apply opt_concat_None_iff. apply in_map_iff. exists l. rewrite E. auto.
  Qed.

  (* C10: the keyed result does not depend on the order of the rows (as a multiset) *)
  Theorem kloop_perm : forall L L' R R', Permutation L L' -> Permutation R R' ->
    operm (kloop L R) (kloop L' R').
  Proof.
    intros L L' R R' HL HR. unfold kloop. apply opt_concat_perm; [exact HR|].
    intros r _. apply opt_concat_perm; [exact HL|]. intros l _. apply operm_refl.
  Qed.
End KLoop.

Theorem kloop_ext {A B K X Y X' Y'} (pf : X -> Y -> option (list pyval))
        (pf' : X' -> Y' -> option (list pyval)) (kx : A -> K) (ky : B -> K) gx gy gx' gy' L R :
  (forall l r, In l L -> In r R -> pf (gx l) (gy r) = pf' (gx' l) (gy' r)) ->
  kloop pf kx ky gx gy L R = kloop pf' kx ky gx' gy' L R.
Proof.
  intros H. unfold kloop. f_equal. apply map_ext_in. intros r Hr. f_equal.
  apply map_ext_in. intros l Hl. rewrite (H l r Hl Hr). reflexivity.
Qed.

(* ------------------------------------------------------------------ rank/order and permutations *)
Lemma countZ_perm w l l' : Permutation l l' -> countZ w l = countZ w l'.
Proof.
  induction 1 as [|x l l' _ IH|x y l|l l' l'' _ IH1 _ IH2]; simpl; try lia.
Qed.

Lemma key_lt_perm all all' a b : Permutation all all' -> key_lt all a b = key_lt all' a b.
Proof.
  intros H. unfold key_lt. rewrite (countZ_perm a _ _ H), (countZ_perm b _ _ H). reflexivity.
Qed.

Lemma dedup_perm l l' : Permutation l l' -> Permutation (dedup l) (dedup l').
Proof.
  intros H. apply NoDup_Permutation; try apply dedup_NoDup.
  intros x. rewrite !dedup_In. split; apply Permutation_in; [exact H| apply Permutation_sym; exact H].
Qed.

Theorem rank_perm : forall all all' w, Permutation all all' -> rank all w = rank all' w.
Proof.
  intros all all' w H. unfold rank. do 2 f_equal.
  rewrite (perm_filter_len _ _ _ (dedup_perm _ _ H)). f_equal.
  apply filter_ext. intros a. apply key_lt_perm. exact H.
Qed.

Theorem order_perm : forall all all' toks, Permutation all all' -> order all toks = order all' toks.
Proof.
  intros all all' toks H. unfold order. f_equal.
  rewrite (filter_ext (fun w => memZ w all) (fun w => memZ w all')).
  - apply map_ext. intros w. apply rank_perm. exact H.
  - intros w. rewrite !memZ_mem. apply mem_perm. exact H.
Qed.

Lemma Permutation_concat {A} (l l' : list (list A)) :
  Permutation l l' -> Permutation (concat l) (concat l').
Proof.
  induction 1 as [|x l l' _ IH|x y l|l l' l'' _ IH1 _ IH2]; simpl.
  - constructor.
  - apply Permutation_app_head. exact IH.
  - rewrite !app_assoc. apply Permutation_app_tail. apply Permutation_app_comm.
  - eapply Permutation_trans; eassumption.
Qed.

Lemma len_order all toks : incl toks all -> len (order all toks) = len toks.
Proof. intros H. unfold len. rewrite order_length; [reflexivity|exact H]. Qed.

Lemma incl_concat_row {A} (l : list A) (L : list (list A)) : In l L -> incl l (concat L).
Proof. intros H x Hx. apply in_concat. exists l. auto. Qed.

Example rank_perm_ex : rank [3; 1; 3; 2] 2 = rank [1; 2; 3; 3] 2 /\
                       order [3; 1; 3; 2] [3; 2; 9] = order [2; 3; 1; 3] [3; 2; 9].
Proof. vm_compute. split; reflexivity. Qed.

Example loop2_ex :
  loop2 (fun x y : Z => if x =? y then Some [PInt x] else Some []) [1; 2; 3] [3; 1]
  = Some [(2%nat, 0%nat, PInt 3); (0%nat, 1%nat, PInt 1)].
Proof. vm_compute. reflexivity. Qed.

Print Assumptions loop2_In.
Print Assumptions loop2_None_iff.
Print Assumptions loop2_once.
Print Assumptions loop2_rekey.
Print Assumptions kloop_In.
Print Assumptions kloop_perm.
Print Assumptions rank_perm.
Print Assumptions order_perm.
