(* End-to-end refinement of the GENERATED filter_tables methods of SizeFilter, PrefixFilter and
   PositionFilter (Gen/FilterWrapperGen.v: size_filter_tables_rows, prefix_filter_tables_rows,
   position_filter_tables_rows; self.sim_measure_type / self.threshold / self.allow_empty /
   self.allow_missing / self.tokenizer are parameters).  The filters have no score column: p_score c = false.

   * X_filter_tables_rows_refines (AXIOM-FREE; chunk boundaries and `formulas_ok p bound` are hypotheses):
     the frame returned is header_spec c with rows numbered (concat of the chunks' rows ++ missing-value
     rows), the rows of chunk j being a permutation of spec_row applied to the triples of the MODEL core
     filter_tables_core K p allow_empty on (present left rows, chunk j) (the rows of a right row come from a
     Python set of candidates for size / prefix), every cell list the declarative projection cells_spec;
   * X_filter_tables_rows_end_to_end: against Model/Api.v api_join with the entry EFilter K (fm p)
     (WrapperEnd.end_to_end_chunks; `_flat`: the shape of WrapperRefineEnd.jaccard_join_rows_end_to_end);
     Reals axioms through the chunk boundaries only.
   `formulas_ok p bound` (IndexGlue.v: the four filter_utils formulas return numbers for sizes below bound)
   is discharged by IndexGlue.formulas_ok_overlap / formulas_ok_ed (any bound) and
   IndexGlueArith.formulas_ok_jcd (bound = size_bound = 2^20, thresholds with env_t).                 *)
From Coq Require Import ZArith Bool List String Lia Permutation.
From SSJ Require Import F64 PyNum FilterUtilsGen HelperGen TokenOrderingGen ValidationGen IndexGen JoinGen
     TokenOrdering Measures Filters Joins Api Projection ProjSpec IndexPyFacts ProjectionFacts IndexGlue
     JoinGenFacts JoinGenLoop JoinRefine JoinRefineProj SplitFacts SplitRefineProj SplitRefineProjAll
     Frame WrapperGen FilterWrapperGen WrapperRefineFrame
     WrapperRefineMissing WrapperRefineCore WrapperRefineChunks WrapperRefine WrapperRefineClosed
     WrapperRefineApi WrapperBody WrapperApiLink WrapperEnd.
Import ListNotations.
Open Scope Z_scope.

Lemma fparams_eta (p : fparams) : {| fm := fm p; ft := ft p; fq := fq p |} = p.
Proof. destruct p; reflexivity. Qed.

Section Filters.
  Variables (c : pcase) (p : fparams) (op : string) (ae am : bool) (bound njobs cpus : Z).
  Variables (lsrc rsrc : list (list pyval)) (showp : pyval).
  Variables (tokenize : pyval -> pyval).
  Variables (toks : pyval -> list Z) (kz : pyval -> Z).

  Let lpres := lpresent c lsrc.
  Let rpres := rpresent c rsrc.

  Hypothesis Hwf : well_formed c.
  Hypothesis Hns : p_score c = false.
  Hypothesis Hlsrc : forall row, In row lsrc ->
    List.length row = List.length (p_lcols c) /\ ProjSpec.row_ok row.
  Hypothesis Hrsrc : forall row, In row rsrc ->
    List.length row = List.length (p_rcols c) /\ ProjSpec.row_ok row.
  (* self.tokenizer.tokenize, in whatever mode the filter's tokenizer is in *)
  Hypothesis HtokL : forall row, In row lpres ->
    tokenize (cellv (p_lcols c) row (p_ljoin c)) = pints (toks (cellv (p_lcols c) row (p_ljoin c))).
  Hypothesis HtokR : forall row, In row rpres ->
    tokenize (cellv (p_rcols c) row (p_rjoin c)) = pints (toks (cellv (p_rcols c) row (p_rjoin c))).
  Hypothesis Hvout : is_exc (validate_output_attrs (py_opt_strs (p_lout c)) (py_strs (p_lcols c))
                                                   (py_opt_strs (p_rout c)) (py_strs (p_rcols c))) = false.
  Hypothesis Hid : ~ In "_id"%string (mv_header c).
  Hypothesis Hf : formulas_ok p bound.
  Hypothesis HszL : forall row, In row lpres -> len (toks (cellv (p_lcols c) row (p_ljoin c))) < bound.
  Hypothesis HszR : forall row, In row rpres -> len (toks (cellv (p_rcols c) row (p_rjoin c))) < bound.

  (* the model's per-chunk core *)
  Definition flt_K (k : fkind) (ch : list (list pyval)) : option (list triple) :=
    filter_tables_core k p ae (Ltoks c lsrc toks) (Rtoks c toks ch).

  Lemma flt_lrows_ok : forall row, In row lpres -> List.length row = List.length (p_lcols c) /\ ProjSpec.row_ok row.
  Proof using Hlsrc. intros row Hr; apply Hlsrc; apply (lpresent_in c lsrc); exact Hr. Qed.
  Lemma flt_chrows_ok ch : (forall row, In row ch -> In row rpres) ->
    forall row, In row ch -> List.length row = List.length (p_rcols c) /\ ProjSpec.row_ok row.
  Proof using Hrsrc. intros Hch row Hr; apply Hrsrc; apply (rpresent_in c rsrc); apply Hch; exact Hr. Qed.

  Lemma noscore_row ch : pj_spec_row c lpres ch false = spec_row c lpres ch.
  Proof using Hns. rewrite <- Hns. reflexivity. Qed.

  (* from the conclusion of a per-chunk *_refines_proj theorem to the chunk fact *)
  Lemma flt_chunk_of k ch gen :
    (exists (T : list triple) (rows : list (list pyval)) (header : pyval),
        flt_K k ch = Some T /\ gen = PTuple [PList (map PList rows); header] /\
        py_insert0 header (PStr "_id"%string) = py_strs (header_spec c) /\
        Permutation rows (map (pj_spec_row c lpres ch false) T) /\
        forall tr, In tr T ->
          exists cells, out_cells c (nth (fst (fst tr)) lpres []) (nth (snd (fst tr)) ch []) = Some cells /\
                        cells_spec c (nth (fst (fst tr)) lpres []) (nth (snd (fst tr)) ch []) = Some cells) ->
    exists rows, frame_of_core gen = sframe (mv_header c) rows /\
                 shaped (List.length (mv_header c)) rows /\ chunk_ok c lsrc (flt_K k) ch rows.
  Proof using Hns.
    intros (T & rows & header & ET & Egen & Ehdr & Perm & Hcells).
    rewrite noscore_row in Perm.
    destruct (core_frame c lpres ch T rows header _ Egen Ehdr Perm Hcells) as [EF Hsh].
    exists rows. split; [exact EF|]. split; [exact Hsh|].
    exists T. split; [exact ET|]. split; [exact Perm | exact Hcells].
  Qed.

  Lemma size_chunk (ch : list (list pyval)) (sp : pyval) : (forall row, In row ch -> In row rpres) ->
    exists rows,
      frame_of_core
        (size_filter_tables_split_rows (PList (map PList (project_l c lpres))) (PList (map PList (project_r c ch)))
           (l_proj c) (r_proj c) (PStr (p_lkey c)) (PStr (p_rkey c)) (PStr (p_ljoin c)) (PStr (p_rjoin c))
           (PStr (fm p)) (ft p) (PBool ae) (l_out c) (r_out c) (PStr (p_lpre c)) (PStr (p_rpre c)) sp tokenize)
      = sframe (mv_header c) rows /\
      shaped (List.length (mv_header c)) rows /\ chunk_ok c lsrc (flt_K KSize) ch rows.
  Proof using Hwf Hns Hlsrc Hrsrc HtokL HtokR Hf HszR.
    intros Hch. apply flt_chunk_of.
    exact (size_filter_tables_split_rows_refines_proj c lpres ch sp tokenize toks Hwf flt_lrows_ok (flt_chrows_ok ch Hch) HtokL
             (fun row Hr => HtokR row (Hch row Hr)) p ae bound Hns Hf (fun row Hr => HszR row (Hch row Hr))).
  Qed.

  Lemma prefix_chunk (ch : list (list pyval)) (sp : pyval) : (forall row, In row ch -> In row rpres) ->
    exists rows,
      frame_of_core
        (prefix_filter_tables_split_rows (PList (map PList (project_l c lpres))) (PList (map PList (project_r c ch)))
           (l_proj c) (r_proj c) (PStr (p_lkey c)) (PStr (p_rkey c)) (PStr (p_ljoin c)) (PStr (p_rjoin c))
           (PStr (fm p)) (ft p) (PBool ae) (l_out c) (r_out c) (PStr (p_lpre c)) (PStr (p_rpre c)) sp
           (PInt (fq p)) tokenize)
      = sframe (mv_header c) rows /\
      shaped (List.length (mv_header c)) rows /\ chunk_ok c lsrc (flt_K KPrefix) ch rows.
  Proof using Hwf Hns Hlsrc Hrsrc HtokL HtokR Hf HszL HszR.
    intros Hch. apply flt_chunk_of.
    exact (prefix_filter_tables_split_rows_refines_proj c lpres ch sp tokenize toks Hwf flt_lrows_ok (flt_chrows_ok ch Hch) HtokL
             (fun row Hr => HtokR row (Hch row Hr)) p ae bound Hns Hf HszL (fun row Hr => HszR row (Hch row Hr))).
  Qed.

  Lemma position_chunk (ch : list (list pyval)) (sp : pyval) : (forall row, In row ch -> In row rpres) ->
    exists rows,
      frame_of_core
        (position_filter_tables_split_rows (PList (map PList (project_l c lpres))) (PList (map PList (project_r c ch)))
           (l_proj c) (r_proj c) (PStr (p_lkey c)) (PStr (p_rkey c)) (PStr (p_ljoin c)) (PStr (p_rjoin c))
           (PStr (fm p)) (ft p) (PBool ae) (l_out c) (r_out c) (PStr (p_lpre c)) (PStr (p_rpre c)) sp
           (PInt (fq p)) tokenize)
      = sframe (mv_header c) rows /\
      shaped (List.length (mv_header c)) rows /\ chunk_ok c lsrc (flt_K KPosition) ch rows.
  Proof using Hwf Hns Hlsrc Hrsrc HtokL HtokR Hf HszL HszR.
    intros Hch. apply flt_chunk_of.
    exact (position_filter_tables_split_rows_refines_proj c lpres ch sp tokenize toks Hwf flt_lrows_ok (flt_chrows_ok ch Hch) HtokL
             (fun row Hr => HtokR row (Hch row Hr)) p ae bound Hns Hf HszL (fun row Hr => HszR row (Hch row Hr))).
  Qed.

  Definition size_call : pyval :=
    size_filter_tables_rows (sframe (p_lcols c) lsrc) (sframe (p_rcols c) rsrc)
      (PStr (p_lkey c)) (PStr (p_rkey c)) (PStr (p_ljoin c)) (PStr (p_rjoin c))
      (py_opt_strs (p_lout c)) (py_opt_strs (p_rout c)) (PStr (p_lpre c)) (PStr (p_rpre c))
      (PInt njobs) showp (PInt cpus) (PStr (fm p)) (ft p) (PBool ae) (PBool am) tokenize.
  Definition prefix_call : pyval :=
    prefix_filter_tables_rows (sframe (p_lcols c) lsrc) (sframe (p_rcols c) rsrc)
      (PStr (p_lkey c)) (PStr (p_rkey c)) (PStr (p_ljoin c)) (PStr (p_rjoin c))
      (py_opt_strs (p_lout c)) (py_opt_strs (p_rout c)) (PStr (p_lpre c)) (PStr (p_rpre c))
      (PInt njobs) showp (PInt cpus) (PStr (fm p)) (ft p) (PBool ae) (PBool am) (PInt (fq p)) tokenize.
  Definition position_call : pyval :=
    position_filter_tables_rows (sframe (p_lcols c) lsrc) (sframe (p_rcols c) rsrc)
      (PStr (p_lkey c)) (PStr (p_rkey c)) (PStr (p_ljoin c)) (PStr (p_rjoin c))
      (py_opt_strs (p_lout c)) (py_opt_strs (p_rout c)) (PStr (p_lpre c)) (PStr (p_rpre c))
      (PInt njobs) showp (PInt cpus) (PStr (fm p)) (ft p) (PBool ae) (PBool am) (PInt (fq p)) tokenize.

  Section Split.
    Variable bs : list (nat * nat).
    Hypothesis Hsplit : 1 < kjobs c njobs cpus rsrc ->
      List.length bs = Z.to_nat (kjobs c njobs cpus rsrc) /\
      split_table (PList (map PList (project_r c rpres))) (PInt (kjobs c njobs cpus rsrc))
      = PList (map PList (map (slice_nat (map PList (project_r c rpres))) bs)).

    Theorem size_filter_tables_rows_refines :
      body_result c am njobs cpus lsrc rsrc bs (chunk_ok c lsrc (flt_K KSize)) size_call.
    Proof using Hwf Hns Hlsrc Hrsrc HtokL HtokR Hvout Hid Hf HszR Hsplit.
      unfold size_call, size_filter_tables_rows.
      wr_attrs c Hwf Hlsrc Hrsrc.
      wr_valid Hvout.
      wr_proj c njobs cpus lsrc rsrc Hwf Hlsrc Hrsrc.
      pose proof (body_eval c am njobs cpus lsrc rsrc showp bs
                    (fun la ra sp => frame_of_core
                       (size_filter_tables_split_rows la ra (l_proj c) (r_proj c)
                          (PStr (p_lkey c)) (PStr (p_rkey c)) (PStr (p_ljoin c)) (PStr (p_rjoin c))
                          (PStr (fm p)) (ft p) (PBool ae) (l_out c) (r_out c) (PStr (p_lpre c)) (PStr (p_rpre c))
                          sp tokenize))
                    (chunk_ok c lsrc (flt_K KSize)) Hwf Hlsrc Hrsrc Hid
                    (fun ch sp Hin => size_chunk ch sp (wchunks_in c njobs cpus rsrc bs ch Hin)) Hsplit) as H.
      unfold wbody in H. cbv beta in H. rewrite Hns in H. exact H.
    Qed.

    Theorem prefix_filter_tables_rows_refines :
      body_result c am njobs cpus lsrc rsrc bs (chunk_ok c lsrc (flt_K KPrefix)) prefix_call.
    Proof using Hwf Hns Hlsrc Hrsrc HtokL HtokR Hvout Hid Hf HszL HszR Hsplit.
      unfold prefix_call, prefix_filter_tables_rows.
      wr_attrs c Hwf Hlsrc Hrsrc.
      wr_valid Hvout.
      wr_proj c njobs cpus lsrc rsrc Hwf Hlsrc Hrsrc.
      pose proof (body_eval c am njobs cpus lsrc rsrc showp bs
                    (fun la ra sp => frame_of_core
                       (prefix_filter_tables_split_rows la ra (l_proj c) (r_proj c)
                          (PStr (p_lkey c)) (PStr (p_rkey c)) (PStr (p_ljoin c)) (PStr (p_rjoin c))
                          (PStr (fm p)) (ft p) (PBool ae) (l_out c) (r_out c) (PStr (p_lpre c)) (PStr (p_rpre c))
                          sp (PInt (fq p)) tokenize))
                    (chunk_ok c lsrc (flt_K KPrefix)) Hwf Hlsrc Hrsrc Hid
                    (fun ch sp Hin => prefix_chunk ch sp (wchunks_in c njobs cpus rsrc bs ch Hin)) Hsplit) as H.
      unfold wbody in H. cbv beta in H. rewrite Hns in H. exact H.
    Qed.

    Theorem position_filter_tables_rows_refines :
      body_result c am njobs cpus lsrc rsrc bs (chunk_ok c lsrc (flt_K KPosition)) position_call.
    Proof using Hwf Hns Hlsrc Hrsrc HtokL HtokR Hvout Hid Hf HszL HszR Hsplit.
      unfold position_call, position_filter_tables_rows.
      wr_attrs c Hwf Hlsrc Hrsrc.
      wr_valid Hvout.
      wr_proj c njobs cpus lsrc rsrc Hwf Hlsrc Hrsrc.
      pose proof (body_eval c am njobs cpus lsrc rsrc showp bs
                    (fun la ra sp => frame_of_core
                       (position_filter_tables_split_rows la ra (l_proj c) (r_proj c)
                          (PStr (p_lkey c)) (PStr (p_rkey c)) (PStr (p_ljoin c)) (PStr (p_rjoin c))
                          (PStr (fm p)) (ft p) (PBool ae) (l_out c) (r_out c) (PStr (p_lpre c)) (PStr (p_rpre c))
                          sp (PInt (fq p)) tokenize))
                    (chunk_ok c lsrc (flt_K KPosition)) Hwf Hlsrc Hrsrc Hid
                    (fun ch sp Hin => position_chunk ch sp (wchunks_in c njobs cpus rsrc bs ch Hin)) Hsplit) as H.
      unfold wbody in H. cbv beta in H. rewrite Hns in H. exact H.
    Qed.
  End Split.

  (* ---- against the API model ---- *)
  Definition flt_jcase (k : fkind) : jcase :=
    {| j_entry := EFilter k (fm p); j_t := ft p; j_q := fq p; j_op := op; j_allow_empty := ae;
       j_allow_missing := am; j_with_score := false; j_njobs := njobs; j_cpus := cpus;
       j_L := map (arowL c toks kz) lsrc; j_R := map (arowR c toks kz) rsrc |}.

  Lemma flt_core_of k ch : (forall row, In row ch -> In row rpres) ->
    core_of (flt_jcase k) (map (arowLs c toks (fun _ => []) kz) lpres) (map (arowRs c toks (fun _ => []) kz) ch)
    = flt_K k ch.
  Proof.
    intros Hch. unfold core_of, flt_jcase, flt_K. cbn [j_entry j_op j_t j_q j_allow_empty]. unfold lpres.
    rewrite (toksLs c lsrc toks (fun _ => []) kz), (toksRs c rsrc toks (fun _ => []) kz ch Hch).
    rewrite fparams_eta. reflexivity.
  Qed.

  Hypothesis Hn : Z.of_nat (List.length rpres) < 2^31.

  Lemma flt_end k lhs :
    body_result c am njobs cpus lsrc rsrc
      (split_bs (kjobs c njobs cpus rsrc) (Z.of_nat (List.length rpres))) (chunk_ok c lsrc (flt_K k)) lhs ->
    end_to_end_chunks c am lsrc rsrc toks (fun _ => []) kz (flt_jcase k) lhs.
  Proof using Hwf Hns Hlsrc Hrsrc Hn.
    apply (end_of_body c am njobs cpus lsrc rsrc toks (fun _ => []) kz (flt_jcase k) (flt_K k) Hwf Hlsrc Hrsrc);
      try reflexivity.
    - cbn [j_with_score flt_jcase]. symmetry. exact Hns.
    - exact (flt_core_of k).
    - exact Hn.
  Qed.

  Theorem size_filter_tables_rows_end_to_end :
    end_to_end_chunks c am lsrc rsrc toks (fun _ => []) kz (flt_jcase KSize) size_call.
  Proof using Hwf Hns Hlsrc Hrsrc HtokL HtokR Hvout Hid Hf HszR Hn.
    apply flt_end. apply size_filter_tables_rows_refines. intros Hk. apply split_hyp; assumption.
  Qed.
  Theorem prefix_filter_tables_rows_end_to_end :
    end_to_end_chunks c am lsrc rsrc toks (fun _ => []) kz (flt_jcase KPrefix) prefix_call.
  Proof using All.
    apply flt_end. apply prefix_filter_tables_rows_refines. intros Hk. apply split_hyp; assumption.
  Qed.
  Theorem position_filter_tables_rows_end_to_end :
    end_to_end_chunks c am lsrc rsrc toks (fun _ => []) kz (flt_jcase KPosition) position_call.
  Proof using All.
    apply flt_end. apply position_filter_tables_rows_refines. intros Hk. apply split_hyp; assumption.
  Qed.

  Theorem size_filter_tables_rows_end_to_end_flat :
    end_to_end_flat c am lsrc rsrc toks (fun _ => []) kz (flt_jcase KSize) size_call.
  Proof using Hwf Hns Hlsrc Hrsrc HtokL HtokR Hvout Hid Hf HszR Hn.
    apply chunks_flat. exact size_filter_tables_rows_end_to_end.
  Qed.
  Theorem prefix_filter_tables_rows_end_to_end_flat :
    end_to_end_flat c am lsrc rsrc toks (fun _ => []) kz (flt_jcase KPrefix) prefix_call.
  Proof using All. apply chunks_flat. exact prefix_filter_tables_rows_end_to_end. Qed.
  Theorem position_filter_tables_rows_end_to_end_flat :
    end_to_end_flat c am lsrc rsrc toks (fun _ => []) kz (flt_jcase KPosition) position_call.
  Proof using All. apply chunks_flat. exact position_filter_tables_rows_end_to_end. Qed.
End Filters.

Print Assumptions size_filter_tables_rows_refines.
Print Assumptions prefix_filter_tables_rows_refines.
Print Assumptions position_filter_tables_rows_refines.
Print Assumptions size_filter_tables_rows_end_to_end.
Print Assumptions prefix_filter_tables_rows_end_to_end.
Print Assumptions position_filter_tables_rows_end_to_end.
