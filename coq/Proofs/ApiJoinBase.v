(* Generic part of the API-level theorems for the five set-similarity joins (C01/C02/C08/C09):
   given, for every chunk, a verdict of the pair function on every pair of present rows that
   is complete / sound / empty-aware (`verdict_ok`), the result of `api_join` satisfies
   complete_spec, sound_spec, missing_spec and empty_spec, and `api_join` is defined.
   Pure list reasoning, axiom-free; the arithmetic lives in the pair-level files.         *)
From Coq Require Import ZArith Bool List String Lia Permutation.
From SSJ Require Import F64 PyNum HelperGen TokenOrdering Measures Filters Joins Api JoinSpec MetaSpec
                        OrderingFacts CoreLiftBase CoreLift ApiLift.
Import ListNotations.
Open Scope string_scope.
Open Scope list_scope.
Open Scope Z_scope.

(* ------------------------------------------------------------------ small list facts *)
Lemma NoDup_app_inv {A} (a b : list A) :
  NoDup (a ++ b) -> NoDup a /\ NoDup b /\ forall x, In x a -> In x b -> False.
Proof.
  induction a as [|h t IH]; intros H; simpl in H.
  - split; [constructor|]. split; [exact H|]. intros x [].
  - inversion H as [|? ? Hni Hnd]; subst. destruct (IH Hnd) as [Ha [Hb Hd]].
    split; [|split; [exact Hb|]].
    + constructor; [|exact Ha]. intros Hin. apply Hni. apply in_or_app. left; exact Hin.
    + intros x [->|Hx] Hxb; [apply Hni; apply in_or_app; right; exact Hxb|exact (Hd x Hx Hxb)].
Qed.

Lemma NoDup_map_inj_on {A B} (f : A -> B) (l : list A) a b :
  NoDup (map f l) -> In a l -> In b l -> f a = f b -> a = b.
Proof.
  induction l as [|h t IH]; intros H Ha Hb E; [destruct Ha|].
  simpl in H. inversion H as [|? ? Hni Hnd]; subst.
  destruct Ha as [Ha|Ha], Hb as [Hb|Hb].
  - congruence.
  - exfalso. apply Hni. rewrite Ha, E. apply in_map. exact Hb.
  - exfalso. apply Hni. rewrite Hb, <- E. apply in_map. exact Ha.
  - apply IH; assumption.
Qed.

Lemma NoDup_map_filter {A B} (f : A -> B) (p : A -> bool) (l : list A) :
  NoDup (map f l) -> NoDup (map f (filter p l)).
Proof.
  induction l as [|h t IH]; intros H; simpl; [constructor|].
  simpl in H. inversion H as [|? ? Hni Hnd]; subst.
  destruct (p h); simpl; [constructor|]; auto.
  intros Hin. apply Hni. apply in_map_iff in Hin. destruct Hin as [x [E Hx]].
  apply filter_In in Hx. rewrite <- E. apply in_map. tauto.
Qed.

Lemma filter_length_le_nat {A} (p : A -> bool) (l : list A) :
  (List.length (filter p l) <= List.length l)%nat.
Proof. induction l as [|h t IH]; simpl; [lia|]. destruct (p h); simpl; lia. Qed.

(* ------------------------------------------------------------------ keys of output rows *)
Definition keyb (lk rk : Z) (o : out_row) : bool :=
  Z.eqb (fst (fst o)) lk && Z.eqb (snd (fst o)) rk.

Lemma keyb_true lk rk o : keyb lk rk o = true <-> fst o = (lk, rk).
Proof.
  unfold keyb. destruct o as [[a b] s]. cbn [fst snd]. rewrite andb_true_iff, !Z.eqb_eq. split.
  - intros [-> ->]. reflexivity.
  - intros H. injection H as -> ->. auto.
Qed.

Lemma count_pair_cons lk rk o obs :
  count_pair lk rk (o :: obs) = ((if keyb lk rk o then 1 else 0) + count_pair lk rk obs)%nat.
Proof. unfold count_pair, keyb. cbn [filter]. destruct (_ && _); reflexivity. Qed.

Lemma count_pair_zero lk rk obs : ~ In (lk, rk) (map fst obs) -> count_pair lk rk obs = 0%nat.
Proof.
  induction obs as [|o obs IH]; intros H; [reflexivity|].
  rewrite count_pair_cons. destruct (keyb lk rk o) eqn:E.
  - exfalso. apply H. left. apply keyb_true. exact E.
  - apply IH. intros Hin. apply H. right; exact Hin.
Qed.

Lemma count_pair_one lk rk obs :
  NoDup (map fst obs) -> In (lk, rk) (map fst obs) -> count_pair lk rk obs = 1%nat.
Proof.
  induction obs as [|o obs IH]; intros Hnd Hin; [destruct Hin|].
  simpl in Hnd. inversion Hnd as [|? ? Hni Hnd']; subst. rewrite count_pair_cons.
  destruct (keyb lk rk o) eqn:E.
  - apply keyb_true in E. rewrite count_pair_zero; [reflexivity|]. rewrite <- E. exact Hni.
  - destruct Hin as [Hin|Hin]; [apply keyb_true in Hin; congruence|]. apply IH; assumption.
Qed.

Lemma has_pair_iff lk rk obs : has_pair lk rk obs = true <-> In (lk, rk) (map fst obs).
Proof.
  unfold has_pair. rewrite existsb_exists, in_map_iff. split; intros [o [H1 H2]]; exists o.
  - split; [apply (proj1 (keyb_true lk rk o)); exact H2|exact H1].
  - split; [exact H2|apply (proj2 (keyb_true lk rk o)); exact H1].
Qed.

Lemma find_row_In (T : list row) r : NoDup (map fst T) -> In r T -> find_row (fst r) T = Some r.
Proof.
  unfold find_row. induction T as [|h t IH]; intros Hnd Hin; [destruct Hin|].
  simpl in Hnd. inversion Hnd as [|? ? Hni Hnd']; subst. cbn [find].
  destruct Hin as [->|Hin].
  - rewrite Z.eqb_refl. reflexivity.
  - destruct (Z.eqb_spec (fst h) (fst r)) as [E|_].
    + exfalso. apply Hni. rewrite E. apply in_map. exact Hin.
    + apply IH; assumption.
Qed.

(* ------------------------------------------------------------------ keys of a keyed loop *)
Section KKeys.
  Context {A B K X Y : Type}.
  Variable pf : X -> Y -> option (list pyval).
  Variable kx : A -> K.
  Variable ky : B -> K.
  Variable gx : A -> X.
  Variable gy : B -> Y.

  Lemma krow_keys (r : B) : forall (L : list A) res,
    NoDup (map kx L) ->
    (forall l lst, In l L -> pf (gx l) (gy r) = Some lst -> (List.length lst <= 1)%nat) ->
    opt_concat (map (fun l => option_map (map (fun s => (kx l, ky r, s))) (pf (gx l) (gy r))) L)
      = Some res ->
    NoDup (map fst res) /\
    forall o, In o res -> In (fst (fst o)) (map kx L) /\ snd (fst o) = ky r.
  Proof.
    induction L as [|l L IH]; intros res Hnd Hlen H.
    - simpl in H. injection H as <-. split; [constructor|intros o []].
    - cbn [map] in H. rewrite opt_concat_cons in H.
      destruct (pf (gx l) (gy r)) as [lst|] eqn:Epf; [|discriminate].
      destruct (opt_concat _) as [res'|] eqn:E; [|discriminate].
      simpl in H. injection H as <-.
      simpl in Hnd. inversion Hnd as [|? ? Hni Hnd']; subst.
      destruct (IH res' Hnd' (fun l' lst' Hl' => Hlen l' lst' (or_intror Hl')) eq_refl) as [IH1 IH2].
      assert (Hl := Hlen l lst (or_introl eq_refl) Epf).
      split.
      + destruct lst as [|s [|s' lst]]; [exact IH1| |simpl in Hl; lia].
        simpl. constructor; [|exact IH1]. intros Hin. apply in_map_iff in Hin.
        destruct Hin as [o [Eo Ho]]. apply IH2 in Ho. destruct Ho as [Ho _].
        rewrite Eo in Ho. exact (Hni Ho).
      + intros o Ho. apply in_app_or in Ho. destruct Ho as [Ho|Ho].
        * apply in_map_iff in Ho. destruct Ho as [s [<- _]]. cbn [fst snd map]. split; [left; reflexivity|reflexivity].
        * destruct (IH2 o Ho) as [H1 H2]. split; [right; exact H1|exact H2].
  Qed.

  Lemma kloop_keys (L : list A) : forall (R : list B) res,
    NoDup (map kx L) -> NoDup (map ky R) ->
    (forall l r lst, In l L -> In r R -> pf (gx l) (gy r) = Some lst -> (List.length lst <= 1)%nat) ->
    kloop pf kx ky gx gy L R = Some res ->
    NoDup (map fst res) /\
    forall o, In o res -> In (fst (fst o)) (map kx L) /\ In (snd (fst o)) (map ky R).
  Proof.
    induction R as [|r R IH]; intros res HndL HndR Hlen H.
    - unfold kloop in H. simpl in H. injection H as <-. split; [constructor|intros o []].
    - change (r :: R) with ([r] ++ R) in H. rewrite kloop_app_R in H.
      destruct (kloop pf kx ky gx gy L [r]) as [a|] eqn:Ea; [|discriminate].
      destruct (kloop pf kx ky gx gy L R) as [b|] eqn:Eb; [|discriminate].
      simpl in H. injection H as <-.
      unfold kloop in Ea. cbn [map] in Ea. rewrite opt_concat_cons in Ea.
      cbn [opt_concat] in Ea. rewrite oapp_nil_r in Ea.
      simpl in HndR. inversion HndR as [|? ? Hni HndR']; subst.
      destruct (krow_keys r L a HndL (fun l lst Hl => Hlen l r lst Hl (or_introl eq_refl)) Ea)
        as [A1 A2].
      destruct (IH b HndL HndR' (fun l r' lst Hl Hr' => Hlen l r' lst Hl (or_intror Hr')) eq_refl)
        as [B1 B2].
      split.
      + rewrite map_app. apply NoDup_app_intro; [exact A1|exact B1|].
        intros k Hka Hkb. apply in_map_iff in Hka. destruct Hka as [o [Eo Ho]].
        apply in_map_iff in Hkb. destruct Hkb as [o' [Eo' Ho']].
        destruct (A2 o Ho) as [_ HA]. destruct (B2 o' Ho') as [_ HB].
        apply Hni. rewrite <- HA, Eo, <- Eo'. exact HB.
      + intros o Ho. apply in_app_or in Ho. destruct Ho as [Ho|Ho].
        * destruct (A2 o Ho) as [H1 H2]. split; [exact H1|]. left. symmetry. exact H2.
        * destruct (B2 o Ho) as [H1 H2]. split; [exact H1|]. right. exact H2.
  Qed.
End KKeys.

(* ------------------------------------------------------------------ keys of the chunk results *)
Lemma kcore_keys c Lp Rc res :
  NoDup (map fst Lp) -> NoDup (map fst Rc) ->
  (forall l r lst, In l Lp -> In r Rc ->
     core_pf c (all_of Lp Rc) (rowval l) (rowval r) = Some lst -> (List.length lst <= 1)%nat) ->
  kcore c Lp Rc = Some res ->
  NoDup (map fst res) /\
  forall o, In o res -> In (fst (fst o)) (map fst Lp) /\ In (snd (fst o)) (map fst Rc).
Proof.
  intros HL HR Hlen H. rewrite kcore_kloop in H. destruct (core_ok c); [|discriminate].
  exact (kloop_keys (core_pf c (all_of Lp Rc)) (fun r : row => fst r) (fun r : row => fst r)
                    rowval rowval Lp Rc res HL HR Hlen H).
Qed.

Lemma chunks_keys c Lp : NoDup (map fst Lp) -> forall (chs : list (nat * list row)) rows,
  NoDup (map fst (List.concat (map snd chs))) ->
  (forall ch l r lst, In ch chs -> In l Lp -> In r (snd ch) ->
     core_pf c (all_of Lp (snd ch)) (rowval l) (rowval r) = Some lst -> (List.length lst <= 1)%nat) ->
  opt_concat (map (fun ch : nat * list row => kcore c Lp (snd ch)) chs) = Some rows ->
  NoDup (map fst rows) /\
  forall o, In o rows -> In (fst (fst o)) (map fst Lp) /\
                         In (snd (fst o)) (map fst (List.concat (map snd chs))).
Proof.
  intros HndL. induction chs as [|ch chs IH]; intros rows Hnd Hlen H.
  - simpl in H. injection H as <-. split; [constructor|intros o []].
  - cbn [map] in H. rewrite opt_concat_cons in H.
    destruct (kcore c Lp (snd ch)) as [a|] eqn:Ea; [|discriminate].
    destruct (opt_concat _) as [b|] eqn:Eb; [|discriminate].
    simpl in H. injection H as <-. cbn [map List.concat] in Hnd. rewrite map_app in Hnd.
    destruct (NoDup_app_inv _ _ Hnd) as [Hnd1 [Hnd2 Hdisj]].
    destruct (kcore_keys c Lp (snd ch) a HndL Hnd1
                (fun l r lst => Hlen ch l r lst (or_introl eq_refl)) Ea) as [A1 A2].
    destruct (IH b Hnd2 (fun ch' l r lst Hch => Hlen ch' l r lst (or_intror Hch)) eq_refl)
      as [B1 B2].
    split.
    + rewrite map_app. apply NoDup_app_intro; [exact A1|exact B1|].
      intros k Hka Hkb. apply in_map_iff in Hka. destruct Hka as [o [Eo Ho]].
      apply in_map_iff in Hkb. destruct Hkb as [o' [Eo' Ho']].
      destruct (A2 o Ho) as [_ HA]. destruct (B2 o' Ho') as [_ HB].
      rewrite Eo in HA. rewrite Eo' in HB. exact (Hdisj _ HA HB).
    + intros o Ho. cbn [map List.concat]. rewrite map_app. apply in_app_or in Ho.
      destruct Ho as [Ho|Ho].
      * destruct (A2 o Ho). split; [assumption|apply in_or_app; left; assumption].
      * destruct (B2 o Ho). split; [assumption|apply in_or_app; right; assumption].
Qed.

Lemma chunks_rows_In c Lp (chs : list (nat * list row)) rows :
  opt_concat (map (fun ch : nat * list row => kcore c Lp (snd ch)) chs) = Some rows ->
  forall lk rk s, In (lk, rk, s) rows <->
    exists ch l r lst, In ch chs /\ In l Lp /\ In r (snd ch) /\ lk = fst l /\ rk = fst r /\
      core_pf c (all_of Lp (snd ch)) (rowval l) (rowval r) = Some lst /\ In s lst.
Proof.
  intros H lk rk s. rewrite (opt_concat_In _ _ H). split.
  - intros [x [Hx Hin]]. apply in_map_iff in Hx. destruct Hx as [ch [Ek Hch]].
    rewrite (kcore_In _ _ _ _ Ek) in Hin. destruct Hin as [l [r [lst Hrest]]].
    exists ch, l, r, lst. tauto.
  - intros [ch [l [r [lst [Hch Hrest]]]]].
    destruct (kcore c Lp (snd ch)) as [x|] eqn:Ek.
    + exists x. split; [apply in_map_iff; exists ch; auto|].
      rewrite (kcore_In _ _ _ _ Ek). exists l, r, lst. exact Hrest.
    + exfalso. assert (Hn : In None (map (fun ch : nat * list row => kcore c Lp (snd ch)) chs)).
      { apply in_map_iff. exists ch. auto. }
      apply opt_concat_None_iff in Hn. congruence.
Qed.

Lemma missing_key L R o : In o (missing_pairs L R) ->
  exists l r, In l L /\ In r R /\ o = (fst l, fst r, PNone) /\
              (present l = false \/ present r = false).
Proof.
  destruct o as [[lk rk] s]. intros H. apply missing_pairs_spec in H.
  destruct H as [-> [l [r [Hl [Hr [<- [<- Hm]]]]]]]. exists l, r. auto.
Qed.

(* ------------------------------------------------------------------ the verdict on one pair *)
(* what the list of scores a pair function returns on (x, y) must look like *)
Definition verdict_ok (c : jcase) (m : string) (x y : list Z) (lst : list pyval) : Prop :=
  (List.length lst <= 1)%nat /\
  (forall s, In s lst ->
     if (len x =? 0) && (len y =? 0)
     then j_allow_empty c = true /\ String.eqb m "OVERLAP" = false /\ s = PFloat f_one
     else cmp_op (j_op c) (reported_score m x y) (j_t c) = true /\
          s = reported_score m x y /\ score_same s s = true) /\
  ((len x =? 0) && (len y =? 0) = false ->
   qualifies m (j_op c) (j_t c) x y = true -> lst <> []) /\
  ((len x =? 0) && (len y =? 0) = true ->
   (lst <> [] <-> j_allow_empty c = true /\ String.eqb m "OVERLAP" = false)) /\
  ((len x =? 0) && (len y =? 0) = false -> (len x =? 0) || (len y =? 0) = true -> lst = []).

Lemma score_same_one : score_same (PFloat f_one) (PFloat f_one) = true.
Proof. vm_compute. reflexivity. Qed.

(* every pair function returns at most one score *)
Lemma core_pf_len c all x y lst : core_pf c all x y = Some lst -> (List.length lst <= 1)%nat.
Proof.
  unfold core_pf. destruct (j_entry c) as [m|k m|].
  - destruct (String.eqb m "OVERLAP"); [intros H; injection H as <-; apply ovl_pair_len|].
    destruct (String.eqb m "OVERLAP_COEFFICIENT"); [intros H; injection H as <-; apply ovc_pair_len|].
    destruct (String.eqb m "EDIT_DISTANCE").
    + destruct (py_int (py_floor (j_t c))); try discriminate. apply ed_pair_len.
    + apply ssj_pair_e_len.
  - apply ft_pair_len.
  - intros H; injection H as <-; apply ovl_pair_len.
Qed.

Section Keys.
  Variable c : jcase.
  Hypothesis HkL : NoDup (map fst (j_L c)).
  Hypothesis HkR : NoDup (map fst (j_R c)).
  Local Notation Lp := (filter present (j_L c)).
  Local Notation Rp := (filter present (j_R c)).
  Variable chs : list (nat * list row).
  Hypothesis Hcat : List.concat (map snd chs) = Rp.

  Local Notation chunk_rows :=
    (opt_concat (map (fun ch : nat * list row => kcore c Lp (snd ch)) chs)).

  Lemma g_chunk_incl ch : In ch chs -> incl (snd ch) Rp.
  Proof.
    intros Hch x Hx. rewrite <- Hcat. apply in_concat. exists (snd ch).
    split; [apply in_map; exact Hch|exact Hx].
  Qed.

  Lemma g_chunk_of r : In r Rp -> exists ch, In ch chs /\ In r (snd ch).
  Proof.
    intros Hr. rewrite <- Hcat in Hr. apply in_concat in Hr. destruct Hr as [Rc [HRc Hr]].
    apply in_map_iff in HRc. destruct HRc as [ch [<- Hch]]. eauto.
  Qed.

  Lemma g_keyL l l' : In l (j_L c) -> In l' (j_L c) -> fst l = fst l' -> l = l'.
  Proof. apply NoDup_map_inj_on. exact HkL. Qed.
  Lemma g_keyR r r' : In r (j_R c) -> In r' (j_R c) -> fst r = fst r' -> r = r'.
  Proof. apply NoDup_map_inj_on. exact HkR. Qed.

  Variable rows : list out_row.
  Hypothesis Hrows : chunk_rows = Some rows.

  Lemma g_verdict_len (ch : nat * list row) (l r : row) lst : In ch chs -> In l Lp -> In r (snd ch) ->
    core_pf c (all_of Lp (snd ch)) (rowval l) (rowval r) = Some lst -> (List.length lst <= 1)%nat.
  Proof. intros _ _ _. apply core_pf_len. Qed.

  Lemma g_rows_keys :
    NoDup (map fst rows) /\
    forall o, In o rows -> exists l r, In l Lp /\ In r Rp /\ fst o = (fst l, fst r).
  Proof.
    assert (HndL : NoDup (map fst Lp)) by (apply NoDup_map_filter; exact HkL).
    assert (HndR : NoDup (map fst (List.concat (map snd chs)))).
    { rewrite Hcat. apply NoDup_map_filter. exact HkR. }
    destruct (chunks_keys c Lp HndL chs rows HndR g_verdict_len Hrows) as [H1 H2].
    split; [exact H1|]. intros o Ho. destruct (H2 o Ho) as [Ha Hb]. rewrite Hcat in Hb.
    apply in_map_iff in Ha. destruct Ha as [l [El Hl]].
    apply in_map_iff in Hb. destruct Hb as [r [Er Hr]].
    exists l, r. split; [exact Hl|]. split; [exact Hr|].
    destruct o as [[a b] s]. cbn [fst snd] in *. congruence.
  Qed.

  Lemma g_out_In lk rk s :
    In (lk, rk, s) (post c rows) <->
    (exists s0, In (lk, rk, s0) rows /\ s = if j_with_score c then s0 else PNone) \/
    (j_allow_missing c = true /\ In (lk, rk, s) (missing_pairs (j_L c) (j_R c))).
  Proof.
    unfold post. rewrite in_app_iff.
    assert (H1 : In (lk, rk, s) (if j_with_score c then rows
                                 else map (fun r : out_row => (fst r, PNone)) rows) <->
                 exists s0, In (lk, rk, s0) rows /\ s = if j_with_score c then s0 else PNone).
    { destruct (j_with_score c).
      - split; [intros H; exists s; auto|intros [s0 [H ->]]; exact H].
      - rewrite in_map_iff. split.
        + intros [[[a b] s0] [E H]]. cbn [fst] in E. injection E as -> -> <-. exists s0. auto.
        + intros [s0 [H ->]]. exists (lk, rk, s0). auto. }
    assert (H2 : In (lk, rk, s) (if j_allow_missing c then missing_pairs (j_L c) (j_R c) else []) <->
                 j_allow_missing c = true /\ In (lk, rk, s) (missing_pairs (j_L c) (j_R c))).
    { destruct (j_allow_missing c); simpl; intuition congruence. }
    rewrite H1, H2. reflexivity.
  Qed.

  (* a present/present key pair never comes from the missing pairs *)
  Lemma g_not_missing l r o : In l Lp -> In r Rp -> fst o = (fst l, fst r) ->
    ~ In o (missing_pairs (j_L c) (j_R c)).
  Proof.
    intros Hl Hr Ek Hin. apply filter_In in Hl. apply filter_In in Hr.
    destruct (missing_key _ _ _ Hin) as [l' [r' [Hl' [Hr' [-> Hm]]]]]. cbn [fst] in Ek.
    injection Ek as E1 E2.
    rewrite (g_keyL l' l Hl' (proj1 Hl) E1), (g_keyR r' r Hr' (proj1 Hr) E2) in Hm.
    destruct Hm as [Hm|Hm]; [rewrite (proj2 Hl) in Hm|rewrite (proj2 Hr) in Hm]; discriminate.
  Qed.

  Lemma g_out_NoDup : NoDup (map fst (post c rows)).
  Proof.
    destruct g_rows_keys as [Hnd Hkeys]. unfold post. rewrite map_app.
    apply NoDup_app_intro.
    - destruct (j_with_score c); [exact Hnd|]. rewrite map_map. exact Hnd.
    - destruct (j_allow_missing c); [|constructor].
      apply missing_pairs_keys_NoDup; assumption.
    - intros k Hk1 Hk2. destruct (j_allow_missing c); [|destruct Hk2].
      assert (Hk1' : In k (map fst rows)).
      { destruct (j_with_score c); [exact Hk1|]. rewrite map_map in Hk1. exact Hk1. }
      clear Hk1. rename Hk1' into Hk1.
      apply in_map_iff in Hk1. destruct Hk1 as [o [Eo Ho]].
      apply in_map_iff in Hk2. destruct Hk2 as [o' [Eo' Ho']].
      destruct (Hkeys o Ho) as [l [r [Hl [Hr Ek]]]].
      apply (g_not_missing l r o' Hl Hr); [congruence|exact Ho'].
  Qed.

  (* presence of a present/present pair in the result, in terms of the pair function *)
  Lemma g_has_pair_present l r : In l Lp -> In r Rp ->
    (has_pair (fst l) (fst r) (post c rows) = true <->
     exists ch lst, In ch chs /\ In r (snd ch) /\
       core_pf c (all_of Lp (snd ch)) (rowval l) (rowval r) = Some lst /\ lst <> []).
  Proof.
    intros Hl Hr. rewrite has_pair_iff, in_map_iff. split.
    - intros [[[lk rk] s] [Ek Ho]]. cbn [fst] in Ek. injection Ek as -> ->.
      apply g_out_In in Ho. destruct Ho as [[s0 [Ho _]]|[_ Ho]].
      + apply (chunks_rows_In _ _ _ _ Hrows) in Ho.
        destruct Ho as [ch [l' [r' [lst [Hch [Hl' [Hr' [El [Er [E Hs]]]]]]]]]].
        assert (Hr'' : In r' Rp) by (apply (g_chunk_incl ch Hch); exact Hr').
        apply filter_In in Hl. apply filter_In in Hr.
        pose proof (proj1 (filter_In _ _ _) Hl') as Hl2.
        pose proof (proj1 (filter_In _ _ _) Hr'') as Hr2.
        assert (l' = l) by (apply g_keyL; [tauto|tauto|congruence]).
        assert (r' = r) by (apply g_keyR; [tauto|tauto|congruence]).
        subst l' r'. exists ch, lst. split; [exact Hch|]. split; [exact Hr'|].
        split; [exact E|]. intros ->. destruct Hs.
      + exfalso. apply (g_not_missing l r (fst l, fst r, s) Hl Hr); [reflexivity|exact Ho].
    - intros [ch [lst [Hch [Hrc [E Hne]]]]]. destruct lst as [|s lst]; [congruence|].
      exists (fst l, fst r, if j_with_score c then s else PNone). split; [reflexivity|].
      apply g_out_In. left. exists s. split; [|reflexivity].
      apply (chunks_rows_In _ _ _ _ Hrows). exists ch, l, r, (s :: lst).
      repeat split; try assumption. left; reflexivity.
  Qed.

  (* (6) missing pairs *)
  Theorem g_missing : missing_spec c (post c rows) = true.
  Proof.
    unfold missing_spec, forall_pairs. apply forallb_forall. intros l Hl.
    apply forallb_forall. intros r Hr.
    destruct (present l && present r) eqn:Epp; [reflexivity|].
    apply Nat.eqb_eq. destruct (j_allow_missing c) eqn:Ham.
    - apply count_pair_one; [apply g_out_NoDup|].
      apply in_map_iff. exists (fst l, fst r, PNone). split; [reflexivity|].
      apply g_out_In. right. split; [exact Ham|]. apply missing_pairs_spec.
      split; [reflexivity|]. exists l, r. apply andb_false_iff in Epp. auto 10.
    - apply count_pair_zero. intros Hin. apply in_map_iff in Hin.
      destruct Hin as [[[lk rk] s] [Ek Ho]]. cbn [fst] in Ek. injection Ek as -> ->.
      apply g_out_In in Ho. destruct Ho as [[s0 [Ho _]]|[Ham' _]]; [|congruence].
      destruct g_rows_keys as [_ Hkeys]. destruct (Hkeys _ Ho) as [l' [r' [Hl' [Hr' Ek]]]].
      cbn [fst] in Ek. injection Ek as E1 E2.
      apply filter_In in Hl'. apply filter_In in Hr'.
      rewrite (g_keyL l l' Hl (proj1 Hl') E1), (g_keyR r r' Hr (proj1 Hr') E2) in Epp.
      rewrite (proj2 Hl'), (proj2 Hr') in Epp. discriminate.
  Qed.


  (* ---------------------------------------------------------------- with a verdict per pair *)
  Section Generic.
  Variable m : string.
  Hypothesis He : j_entry c = EJoin m.
  Hypothesis Hned : String.eqb m "EDIT_DISTANCE" = false.
  Hypothesis Hpf : forall Rc l r, incl Rc Rp -> In l Lp -> In r Rc ->
    exists lst, core_pf c (all_of Lp Rc) (rowval l) (rowval r) = Some lst /\
                verdict_ok c m (toks_of l) (toks_of r) lst.

  Lemma g_core_ok : core_ok c = true.
  Proof.
    unfold core_ok. rewrite He. destruct (String.eqb m "OVERLAP"); [reflexivity|].
    destruct (String.eqb m "OVERLAP_COEFFICIENT"); [reflexivity|]. rewrite Hned. reflexivity.
  Qed.

  Lemma g_rows : exists rows0, chunk_rows = Some rows0.
  Proof.
    clear Hrows rows.
    destruct chunk_rows as [rows0|] eqn:E; [eauto|exfalso].
    apply opt_concat_None_iff in E. apply in_map_iff in E. destruct E as [ch [E Hch]].
    rewrite kcore_kloop, g_core_ok in E. apply kloop_None_iff in E.
    destruct E as [l [r [Hl [Hr E]]]].
    destruct (Hpf (snd ch) l r (g_chunk_incl ch Hch) Hl Hr) as [lst [E' _]]. congruence.
  Qed.

  (* (1) totality *)
  Theorem g_total : chunks_of (j_njobs c) (j_cpus c) Rp = Some chs -> exists out, api_join c = Some out.
  Proof. intros Hchs. rewrite api_join_eq, Hchs. destruct g_rows as [rows0 ->]. simpl. eauto. Qed.

  (* (2)(3) completeness *)
  Theorem g_complete : complete_spec c (post c rows) = true.
  Proof.
    unfold complete_spec. apply forallb_forall. intros l Hl. apply forallb_forall. intros r Hr.
    destruct (present l) eqn:Pl; [|reflexivity]. destruct (present r) eqn:Pr; [|reflexivity].
    cbn [andb]. cbv zeta. rewrite He, Hned.
    destruct ((len (toks_of l) =? 0) && (len (toks_of r) =? 0)) eqn:Ebe; [reflexivity|].
    destruct (qualifies m (j_op c) (j_t c) (toks_of l) (toks_of r)) eqn:Eq; [|reflexivity].
    assert (Hl' : In l Lp) by (apply filter_In; auto).
    assert (Hr' : In r Rp) by (apply filter_In; auto).
    apply (g_has_pair_present l r Hl' Hr').
    destruct (g_chunk_of r Hr') as [ch [Hch Hrc]].
    destruct (Hpf (snd ch) l r (g_chunk_incl ch Hch) Hl' Hrc) as [lst [E [_ [_ [Hc _]]]]].
    exists ch, lst. auto.
  Qed.

  (* (4)(5) soundness *)
  Theorem g_sound : sound_spec c (post c rows) = true.
  Proof.
    unfold sound_spec. apply forallb_forall. intros [[lk rk] s] Ho.
    assert (Hcnt : count_pair lk rk (post c rows) = 1%nat).
    { apply count_pair_one; [apply g_out_NoDup|].
      apply in_map_iff. exists (lk, rk, s). auto. }
    apply g_out_In in Ho. destruct Ho as [[s0 [Ho Hs]]|[Ham Ho]].
    - apply (chunks_rows_In _ _ _ _ Hrows) in Ho.
      destruct Ho as [ch [l [r [lst [Hch [Hl [Hr [-> [-> [E Hin]]]]]]]]]].
      assert (Hr' : In r Rp) by (apply (g_chunk_incl ch Hch); exact Hr).
      destruct (Hpf (snd ch) l r (g_chunk_incl ch Hch) Hl Hr) as [lst' [E' [_ [Hsnd _]]]].
      assert (lst' = lst) by congruence. subst lst'. specialize (Hsnd s0 Hin).
      apply filter_In in Hl. apply filter_In in Hr'. destruct Hl as [Hl Pl]. destruct Hr' as [Hr' Pr].
      unfold sound_row. rewrite (find_row_In _ _ HkL Hl), (find_row_In _ _ HkR Hr').
      cbv beta iota zeta. rewrite Hcnt, Pl, Pr, He, Hned. cbn [Nat.eqb andb].
      destruct ((len (toks_of l) =? 0) && (len (toks_of r) =? 0)).
      + destruct Hsnd as [Hae [Hmo ->]]. rewrite Hae, Hmo. cbn [andb negb].
        destruct (j_with_score c); [|reflexivity]. rewrite Hs. apply score_same_one.
      + destruct Hsnd as [Hcmp [Hs0 Hss]]. rewrite Hcmp. cbn [andb].
        destruct (j_with_score c); [|reflexivity]. rewrite Hs, <- Hs0. exact Hss.
    - destruct (missing_key _ _ _ Ho) as [l [r [Hl [Hr [Eo Hm]]]]]. injection Eo as -> -> ->.
      unfold sound_row. rewrite (find_row_In _ _ HkL Hl), (find_row_In _ _ HkR Hr).
      cbv beta iota zeta. rewrite Hcnt, Ham. cbn [Nat.eqb andb].
      destruct Hm as [Hm|Hm]; rewrite Hm; [|rewrite andb_false_r]; reflexivity.
  Qed.

  (* (7) empty pairs *)
  Theorem g_empty : empty_spec c (post c rows) = true.
  Proof.
    unfold empty_spec, forall_pairs. apply forallb_forall. intros l Hl.
    apply forallb_forall. intros r Hr.
    destruct (present l) eqn:Pl; [|reflexivity]. destruct (present r) eqn:Pr; [|reflexivity].
    cbn [andb].
    assert (Hl' : In l Lp) by (apply filter_In; auto).
    assert (Hr' : In r Rp) by (apply filter_In; auto).
    destruct (g_chunk_of r Hr') as [ch0 [Hch0 Hrc0]].
    unfold one_empty, both_empty.
    destruct ((len (toks_of l) =? 0) && (len (toks_of r) =? 0)) eqn:Ebe.
    - unfold empty_expected. rewrite He, Hned.
      destruct (has_pair (fst l) (fst r) (post c rows)) eqn:Eh.
      + destruct (proj1 (g_has_pair_present l r Hl' Hr') Eh) as [ch [lst [Hch [Hrc [E Hne]]]]].
        destruct (Hpf (snd ch) l r (g_chunk_incl ch Hch) Hl' Hrc) as [lst' [E' [_ [_ [_ [Hb _]]]]]].
        assert (lst' = lst) by congruence. subst lst'.
        destruct (proj1 (Hb Ebe) Hne) as [Hae Hmo]. rewrite Hmo, Hae. reflexivity.
      + destruct (String.eqb m "OVERLAP") eqn:Hmo; [reflexivity|].
        destruct (j_allow_empty c) eqn:Hae; [exfalso|reflexivity].
        destruct (Hpf (snd ch0) l r (g_chunk_incl ch0 Hch0) Hl' Hrc0) as [lst [E [_ [_ [_ [Hb _]]]]]].
        assert (Hne : lst <> []) by (apply (Hb Ebe); auto).
        assert (Ht : has_pair (fst l) (fst r) (post c rows) = true).
        { apply (g_has_pair_present l r Hl' Hr'). exists ch0, lst. auto. }
        congruence.
    - cbn [negb andb].
      destruct (((len (toks_of l) =? 0) || (len (toks_of r) =? 0)) && is_set_join c) eqn:Eoe;
        [|reflexivity].
      apply andb_true_iff in Eoe. destruct Eoe as [Eor _].
      apply negb_true_iff. destruct (has_pair (fst l) (fst r) (post c rows)) eqn:Eh; [|reflexivity].
      exfalso. destruct (proj1 (g_has_pair_present l r Hl' Hr') Eh) as [ch [lst [Hch [Hrc [E Hne]]]]].
      destruct (Hpf (snd ch) l r (g_chunk_incl ch Hch) Hl' Hrc) as [lst' [E' [_ [_ [_ [_ Ho]]]]]].
      assert (lst' = lst) by congruence. subst lst'. apply Hne. apply Ho; assumption.
  Qed.
  End Generic.
End Keys.

(* C08 for every entry of the API model (joins and filters alike) *)
Theorem api_join_missing_generic : forall c,
  NoDup (map fst (j_L c)) -> NoDup (map fst (j_R c)) ->
  forall chs, chunks_of (j_njobs c) (j_cpus c) (filter present (j_R c)) = Some chs ->
  List.concat (map snd chs) = filter present (j_R c) ->
  forall out, api_join c = Some out -> missing_spec c out = true.
Proof.
  intros c HkL HkR chs Hchs Hcat out Hout. rewrite api_join_eq, Hchs in Hout.
  destruct (opt_concat _) as [rows|] eqn:Hrows; [|discriminate].
  simpl in Hout. injection Hout as <-. eapply g_missing; eassumption.
Qed.

(* all four, for every result of api_join *)
Theorem api_join_generic : forall c m,
  j_entry c = EJoin m -> String.eqb m "EDIT_DISTANCE" = false ->
  NoDup (map fst (j_L c)) -> NoDup (map fst (j_R c)) ->
  (forall Rc l r, incl Rc (filter present (j_R c)) -> In l (filter present (j_L c)) -> In r Rc ->
     exists lst, core_pf c (all_of (filter present (j_L c)) Rc) (rowval l) (rowval r) = Some lst /\
                 verdict_ok c m (toks_of l) (toks_of r) lst) ->
  forall chs, chunks_of (j_njobs c) (j_cpus c) (filter present (j_R c)) = Some chs ->
  List.concat (map snd chs) = filter present (j_R c) ->
  (exists out, api_join c = Some out) /\
  forall out, api_join c = Some out ->
    complete_spec c out = true /\ sound_spec c out = true /\
    missing_spec c out = true /\ empty_spec c out = true.
Proof.
  intros c m He Hned HkL HkR Hpf chs Hchs Hcat.
  split; [eapply g_total; eassumption|].
  intros out Hout. rewrite api_join_eq, Hchs in Hout.
  destruct (opt_concat _) as [rows|] eqn:Hrows; [|discriminate].
  simpl in Hout. injection Hout as <-.
  split; [eapply g_complete; eassumption|].
  split; [eapply g_sound; eassumption|].
  split; [eapply g_missing; eassumption|].
  eapply g_empty; eassumption.
Qed.

Print Assumptions api_join_missing_generic.
Print Assumptions api_join_generic.
