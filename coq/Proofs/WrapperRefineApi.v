(* Link between the rows returned by the GENERATED wrappers (WrapperRefine.wrapper_result) and the
   key-level API model Model/Api.v `api_join`:

   abstract the two frames into lists of Api.row (key through an arbitrary key abstraction kz, the join
   cell as None if missing / Some ([], tokens) otherwise) and the call into a jcase; then
     * the (left key, right key, score) triples of the main rows are a PERMUTATION of the main part of
       api_join,
     * the (left key, right key, -) triples of the missing-value rows ARE Api.missing_pairs (same order),
     * api_join returns main part ++ (missing part if allow_missing).
   The chunk list of the wrapper and of Api.chunks_of are related by a hypothesis (Hchs), which
   WrapperRefineClosed.wchunks_chunks_of provides; this file is axiom-free.                       *)
From Coq Require Import ZArith Bool List String Lia Permutation.
From SSJ Require Import F64 PyNum FilterUtilsGen HelperGen TokenOrdering Measures Filters Joins Api
     Projection ProjSpec IndexPyFacts ProjectionFacts JoinGenFacts JoinRefineProj Frame
     WrapperRefineFrame WrapperRefineMissing WrapperRefineCore.
Import ListNotations.
Open Scope Z_scope.

Lemma filter_map_comm {A B} (f : A -> B) (pb : B -> bool) (pa : A -> bool) (l : list A) :
  (forall x, pb (f x) = pa x) -> filter pb (map f l) = map f (filter pa l).
Proof.
  intros H. induction l as [|x l IH]; [reflexivity|]. cbn [map filter]. rewrite H.
  destruct (pa x); cbn [map]; now rewrite IH.
Qed.

Lemma chunks_of_map {A B} (f : A -> B) njobs cpus (l : list A) :
  chunks_of njobs cpus (map f l)
  = option_map (map (fun ch : nat * list A => (fst ch, map f (snd ch)))) (chunks_of njobs cpus l).
Proof.
  unfold chunks_of. rewrite map_length.
  destruct (py_min _ _); try reflexivity.
  destruct (z <=? 1); [reflexivity|].
  destruct (bounds_of _); [|reflexivity]. cbn [option_map]. f_equal.
  rewrite map_map. apply map_ext. intros ab. cbn [fst snd]. now rewrite slice_nat_map.
Qed.

Lemma forall2_of_nth {A B} (P : A -> B -> Prop) (da : A) (db : B) : forall (la : list A) (lb : list B),
  List.length lb = List.length la ->
  (forall j, (j < List.length la)%nat -> P (nth j la da) (nth j lb db)) -> Forall2 P la lb.
Proof.
  induction la as [|a la IH]; intros [|b lb] Hl H; try discriminate Hl; [constructor|].
  constructor.
  - apply (H 0%nat). cbn. lia.
  - apply IH; [cbn in Hl; lia|]. intros j Hj. apply (H (S j)). cbn. lia.
Qed.

Section ApiLink.
  Variables (c : pcase) (p : fparams) (op : string) (ae am : bool) (njobs cpus : Z).
  Variables (lsrc rsrc : list (list pyval)) (toks : pyval -> list Z) (kz : pyval -> Z).

  Hypothesis Hwf : well_formed c.
  Hypothesis Hlsrc : forall row, In row lsrc ->
    List.length row = List.length (p_lcols c) /\ ProjSpec.row_ok row.
  Hypothesis Hrsrc : forall row, In row rsrc ->
    List.length row = List.length (p_rcols c) /\ ProjSpec.row_ok row.
  Hypothesis Hm : set_measure (fm p).

  Let lpres := lpresent c lsrc.
  Let rpres := rpresent c rsrc.

  (* the frames as the API model sees them *)
  Definition arowL (row : list pyval) : Api.row :=
    (kz (cellv (p_lcols c) row (p_lkey c)),
     if present_row (p_lcols c) (p_ljoin c) row then Some ([], toks (cellv (p_lcols c) row (p_ljoin c))) else None).
  Definition arowR (row : list pyval) : Api.row :=
    (kz (cellv (p_rcols c) row (p_rkey c)),
     if present_row (p_rcols c) (p_rjoin c) row then Some ([], toks (cellv (p_rcols c) row (p_rjoin c))) else None).

  Definition jcase_of : jcase :=
    {| j_entry := EJoin (fm p); j_t := ft p; j_q := fq p; j_op := op; j_allow_empty := ae;
       j_allow_missing := am; j_with_score := p_score c; j_njobs := njobs; j_cpus := cpus;
       j_L := map arowL lsrc; j_R := map arowR rsrc |}.

  (* the key-level view of an output row (without its _id cell) *)
  Definition row_out (r : list pyval) : out_row :=
    (kz (nth 0 r PNone), kz (nth 1 r PNone), if p_score c then last r PNone else PNone).
  Definition mv_out (r : list pyval) : out_row := (kz (nth 0 r PNone), kz (nth 1 r PNone), PNone).

  Lemma presentL row : present (arowL row) = present_row (p_lcols c) (p_ljoin c) row.
  Proof. unfold present, arowL. cbn [snd]. destruct (present_row _ _ row); reflexivity. Qed.
  Lemma presentR row : present (arowR row) = present_row (p_rcols c) (p_rjoin c) row.
  Proof. unfold present, arowR. cbn [snd]. destruct (present_row _ _ row); reflexivity. Qed.

  Lemma Lp_eq : filter present (map arowL lsrc) = map arowL lpres.
  Proof. apply filter_map_comm. exact presentL. Qed.
  Lemma Rp_eq : filter present (map arowR rsrc) = map arowR rpres.
  Proof. apply filter_map_comm. exact presentR. Qed.

  Lemma toksL : map toks_of (map arowL lpres) = Ltoks c lsrc toks.
  Proof.
    unfold Ltoks. fold lpres. rewrite map_map. apply map_ext_in. intros row Hr.
    apply filter_In in Hr. destruct Hr as [_ Hp]. unfold toks_of, arowL. cbn [snd]. now rewrite Hp.
  Qed.
  Lemma toksR ch : (forall row, In row ch -> In row rpres) -> map toks_of (map arowR ch) = Rtoks c toks ch.
  Proof.
    intros Hch. unfold Rtoks. rewrite map_map. apply map_ext_in. intros row Hr.
    apply Hch in Hr. apply filter_In in Hr. destruct Hr as [_ Hp]. unfold toks_of, arowR. cbn [snd]. now rewrite Hp.
  Qed.

  Lemma core_of_eq Lp Rc :
    core_of jcase_of Lp Rc = set_sim_join_core p op ae (map toks_of Lp) (map toks_of Rc).
  Proof.
    unfold core_of, jcase_of. cbn [j_entry j_op j_t j_q j_allow_empty].
    assert (E1 : String.eqb (fm p) "OVERLAP" = false) by (destruct Hm as [E|[E|E]]; rewrite E; reflexivity).
    assert (E2 : String.eqb (fm p) "OVERLAP_COEFFICIENT" = false) by (destruct Hm as [E|[E|E]]; rewrite E; reflexivity).
    assert (E3 : String.eqb (fm p) "EDIT_DISTANCE" = false) by (destruct Hm as [E|[E|E]]; rewrite E; reflexivity).
    rewrite E1, E2, E3. destruct p; reflexivity.
  Qed.

  (* ---- rows -> triples ---- *)
  Lemma out_cells_nil_l r : out_cells c [] r = None.
  Proof.
    destruct Hwf as [Hlk _ _ _ _ _].
    unfold out_cells. rewrite l_proj_eq, r_proj_eq, !strs_of_py_strs.
    unfold project_row at 1. unfold proj_list at 1. cbn [map all_some].
    rewrite (pos_of_In _ _ Hlk). now destruct (posn (p_lkey c) (p_lcols c)).
  Qed.
  Lemma out_cells_nil_r l : out_cells c l [] = None.
  Proof.
    destruct Hwf as [_ _ _ Hrk _ _].
    unfold out_cells. rewrite l_proj_eq, r_proj_eq, !strs_of_py_strs.
    destruct (project_row (p_lcols c) l _); [|reflexivity].
    unfold project_row. unfold proj_list at 1. cbn [map all_some].
    rewrite (pos_of_In _ _ Hrk). now destruct (posn (p_rkey c) (p_rcols c)).
  Qed.

  Lemma nth_in_or_nil {A} (l : list (list A)) i : nth i l [] = [] \/ In (nth i l []) l.
  Proof.
    destruct (Nat.lt_ge_cases i (List.length l)) as [H|H]; [right; now apply nth_In | left; now apply nth_overflow].
  Qed.

  Lemma spec_row_out ch i j s cells :
    (forall row, In row ch -> In row rpres) ->
    out_cells c (nth i lpres []) (nth j ch []) = Some cells ->
    cells_spec c (nth i lpres []) (nth j ch []) = Some cells ->
    (i < List.length lpres)%nat /\ (j < List.length ch)%nat /\
    row_out (spec_row c lpres ch (i, j, s))
    = (kz (cellv (p_lcols c) (nth i lpres []) (p_lkey c)), kz (cellv (p_rcols c) (nth j ch []) (p_rkey c)),
       if p_score c then s else PNone).
  Proof.
    intros Hch Eo Es.
    assert (Hi : (i < List.length lpres)%nat).
    { destruct (Nat.lt_ge_cases i (List.length lpres)) as [H|H]; [exact H|].
      rewrite (nth_overflow _ _ H), out_cells_nil_l in Eo. discriminate. }
    assert (Hj : (j < List.length ch)%nat).
    { destruct (Nat.lt_ge_cases j (List.length ch)) as [H|H]; [exact H|].
      rewrite (nth_overflow ch _ H), out_cells_nil_r in Eo. discriminate. }
    split; [exact Hi|]. split; [exact Hj|].
    assert (Hl : In (nth i lpres []) lsrc) by (apply (lpresent_in c lsrc), nth_In, Hi).
    assert (Hr : In (nth j ch []) rsrc) by (apply (rpresent_in c rsrc), Hch, nth_In, Hj).
    destruct (Hlsrc _ Hl) as [Hll _]. destruct (Hrsrc _ Hr) as [Hrl _].
    rewrite (cells_spec_eq c _ _ Hwf Hll Hrl) in Es. injection Es as <-.
    unfold spec_row. rewrite Eo. unfold row_out, cells_list.
    destruct (p_score c).
    - rewrite last_last. reflexivity.
    - rewrite app_nil_r. reflexivity.
  Qed.

  Definition with_score (rows : list out_row) : list out_row :=
    if p_score c then rows else map (fun r : out_row => (fst r, PNone)) rows.
  Lemma with_score_app a b : with_score (a ++ b) = (with_score a ++ with_score b)%list.
  Proof. unfold with_score. destruct (p_score c); [reflexivity | apply map_app]. Qed.

  (* what WrapperRefine.wrapper_result says about one chunk *)
  Definition chunk_fact (ch : list (list pyval)) (tr : list triple * list (list pyval)) : Prop :=
    set_sim_join_core p op ae (Ltoks c lsrc toks) (Rtoks c toks ch) = Some (fst tr) /\
    Permutation (snd tr) (map (spec_row c lpres ch) (fst tr)) /\
    forall t, In t (fst tr) ->
      exists cells, out_cells c (nth (fst (fst t)) lpres []) (nth (snd (fst t)) ch []) = Some cells /\
                    cells_spec c (nth (fst (fst t)) lpres []) (nth (snd (fst t)) ch []) = Some cells.

  Lemma chunk_link off ch tr : (forall row, In row ch -> In row rpres) -> chunk_fact ch tr ->
    option_map (keyed (map arowL lpres) (map arowR ch) off) (core_of jcase_of (map arowL lpres) (map arowR ch))
    = Some (keyed (map arowL lpres) (map arowR ch) off (fst tr)) /\
    Permutation (map row_out (snd tr)) (with_score (keyed (map arowL lpres) (map arowR ch) off (fst tr))).
  Proof.
    intros Hch (ET & Perm & Hc).
    rewrite core_of_eq, toksL, (toksR ch Hch), ET. split; [reflexivity|].
    eapply Permutation_trans; [apply Permutation_map; exact Perm|].
    rewrite map_map.
    assert (E : map (fun t => row_out (spec_row c lpres ch t)) (fst tr)
                = with_score (keyed (map arowL lpres) (map arowR ch) off (fst tr))).
    { unfold with_score, keyed.
      assert (E0 : forall t, In t (fst tr) ->
                row_out (spec_row c lpres ch t)
                = (let '(i, j, s) := t in
                   (fst (nth i (map arowL lpres) (0, None)), fst (nth j (map arowR ch) (0, None)),
                    if p_score c then s else PNone))).
      { intros [[i j] s] Ht. destruct (Hc _ Ht) as (cells & Eo & Es). cbn [fst snd] in Eo, Es.
        destruct (spec_row_out ch i j s cells Hch Eo Es) as (Hi & Hj & ->).
        rewrite (nth_indep (map arowL lpres) (0, None) (arowL [])) by (rewrite map_length; exact Hi).
        rewrite (nth_indep (map arowR ch) (0, None) (arowR [])) by (rewrite map_length; exact Hj).
        rewrite !map_nth. reflexivity. }
      destruct (p_score c) eqn:Hsc.
      - apply map_ext_in. intros t Ht. rewrite (E0 t Ht). destruct t as [[i j] s]. reflexivity.
      - rewrite map_map. apply map_ext_in. intros t Ht. rewrite (E0 t Ht). destruct t as [[i j] s]. reflexivity. }
    rewrite E. apply Permutation_refl.
  Qed.

  Lemma chunks_link : forall (chs : list (nat * list (list pyval))) (TR : list (list triple * list (list pyval))),
    (forall ch, In ch chs -> forall row, In row (snd ch) -> In row rpres) ->
    Forall2 chunk_fact (map snd chs) TR ->
    exists rows,
      opt_concat (map (fun ch : nat * list Api.row =>
                         option_map (keyed (map arowL lpres) (snd ch) (fst ch))
                                    (core_of jcase_of (map arowL lpres) (snd ch)))
                      (map (fun ch : nat * list (list pyval) => (fst ch, map arowR (snd ch))) chs)) = Some rows /\
      Permutation (map row_out (List.concat (map snd TR))) (with_score rows).
  Proof.
    induction chs as [|ch chs IH]; intros TR Hin HF; inversion HF; subst.
    - exists []. split; [reflexivity|]. unfold with_score. destruct (p_score c); constructor.
    - destruct (IH l') as (rows & Eo & Pm); [intros ch' Hc'; apply Hin; right; exact Hc' | assumption|].
      destruct (chunk_link (fst ch) (snd ch) y) as (E1 & P1); [apply Hin; left; reflexivity | assumption|].
      exists (keyed (map arowL lpres) (map arowR (snd ch)) (fst ch) (fst y) ++ rows)%list.
      cbn [map fst snd opt_concat List.concat]. rewrite E1, Eo. split; [reflexivity|].
      rewrite map_app, with_score_app. apply Permutation_app; assumption.
  Qed.

  (* ---- the missing-value rows ---- *)
  Lemma mv_out_row l r : mv_out (mv_row c l r)
    = (kz (cellv (p_lcols c) l (p_lkey c)), kz (cellv (p_rcols c) r (p_rkey c)), PNone).
  Proof. reflexivity. Qed.

  Lemma flat_map_filter {A B} (f : A -> list B) (q : A -> bool) (l : list A) :
    flat_map f (filter q l) = flat_map (fun x => if q x then f x else []) l.
  Proof.
    induction l as [|x l IH]; [reflexivity|]. cbn [filter flat_map].
    destruct (q x); cbn [flat_map app]; now rewrite IH.
  Qed.
  Lemma map_flat_map' {A B C} (h : B -> C) (g : A -> list B) (l : list A) :
    map h (flat_map g l) = flat_map (fun x => map h (g x)) l.
  Proof. induction l as [|x l IH]; [reflexivity|]. cbn [flat_map]. now rewrite map_app, IH. Qed.
  Lemma flat_map_map' {A B C} (f : A -> B) (g : B -> list C) (l : list A) :
    flat_map g (map f l) = flat_map (fun x => g (f x)) l.
  Proof. induction l as [|x l IH]; [reflexivity|]. cbn [map flat_map]. now rewrite IH. Qed.
  Lemma flat_map_ext' {A B} (f g : A -> list B) (l : list A) : (forall x, f x = g x) -> flat_map f l = flat_map g l.
  Proof. intros H. induction l as [|x l IH]; [reflexivity|]. cbn [flat_map]. now rewrite H, IH. Qed.
  Lemma flat_map_single {A B} (f : A -> B) (q : A -> bool) (l : list A) :
    flat_map (fun x => if q x then [f x] else []) l = map f (filter q l).
  Proof. induction l as [|x l IH]; [reflexivity|]. cbn [flat_map filter]. destruct (q x); cbn [app map]; now rewrite IH. Qed.

  Lemma l_missing_present row : l_missing c row = negb (present (arowL row)).
  Proof. rewrite presentL. unfold l_missing, present_row. now rewrite negb_involutive. Qed.
  Lemma r_missing_present row : r_missing c row = negb (present (arowR row)).
  Proof. rewrite presentR. unfold r_missing, present_row. now rewrite negb_involutive. Qed.

  Theorem missing_link :
    map mv_out (mv_rows c lsrc rsrc) = missing_pairs (map arowL lsrc) (map arowR rsrc).
  Proof.
    unfold mv_rows, missing_pairs. rewrite map_app. f_equal.
    - rewrite flat_map_filter, map_flat_map', flat_map_map'. apply flat_map_ext'. intros l.
      rewrite l_missing_present. destruct (present (arowL l)); cbn [negb map]; [reflexivity|].
      rewrite !map_map. reflexivity.
    - rewrite flat_map_filter, map_flat_map', flat_map_map'. apply flat_map_ext'. intros r.
      rewrite r_missing_present. destruct (present (arowR r)); cbn [negb map]; [reflexivity|].
      rewrite flat_map_map'. rewrite map_map.
      rewrite (flat_map_single (fun l => (fst (arowL l), fst (arowR r), PNone)) (fun l => present (arowL l))).
      f_equal. apply filter_ext. intros l. now rewrite l_missing_present, negb_involutive.
  Qed.

  (* ---- the whole link ---- *)
  Theorem api_link (chs : list (nat * list (list pyval))) (TR : list (list triple * list (list pyval))) :
    chunks_of njobs cpus rpres = Some chs ->
    List.concat (map snd chs) = rpres ->
    List.length TR = List.length chs ->
    (forall j, (j < List.length chs)%nat -> chunk_fact (nth j (map snd chs) []) (nth j TR ([], []))) ->
    exists main_api,
      api_join jcase_of
      = Some (main_api ++ if am then missing_pairs (map arowL lsrc) (map arowR rsrc) else [])%list /\
      Permutation (map row_out (List.concat (map snd TR))) main_api /\
      map mv_out (mv_rows c lsrc rsrc) = missing_pairs (map arowL lsrc) (map arowR rsrc).
  Proof.
    intros Ech Hcat Hlen Hfacts.
    assert (HF : Forall2 chunk_fact (map snd chs) TR).
    { apply (forall2_of_nth chunk_fact [] ([], [])); [now rewrite map_length|].
      intros j Hj. rewrite map_length in Hj. apply Hfacts. exact Hj. }
    assert (Hin : forall ch, In ch chs -> forall row, In row (snd ch) -> In row rpres).
    { intros ch Hc row Hr. rewrite <- Hcat. apply in_concat. exists (snd ch). split; [now apply in_map | exact Hr]. }
    destruct (chunks_link chs TR Hin HF) as (rows & Eo & Pm).
    exists (with_score rows). split; [|split; [exact Pm | exact missing_link]].
    unfold api_join. cbn [j_L j_R j_njobs j_cpus j_with_score j_allow_missing jcase_of].
    rewrite Lp_eq, Rp_eq. rewrite chunks_of_map. fold rpres. rewrite Ech. cbn [option_map].
    rewrite Eo. unfold with_score. reflexivity.
  Qed.
End ApiLink.

Print Assumptions api_link.
Print Assumptions missing_link.
