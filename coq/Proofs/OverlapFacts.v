(* The integer measure OVERLAP on token SETS (duplicate-free lists):
   (A) overlap_count (postings met by OverlapFilter.find_candidates) = overlap_sets (size of the
       set intersection) = hits;  symmetry and bounds;
   (B) OverlapFilter is exact (C06) at pair level and at table level (overlap_tables_core),
       each (left row, right row) pair is reported at most once; for T >= 1 and >=, >, = the
       comparison alone characterises the output (C01/C02 for OVERLAP);
   (E) structural common-token facts (C14) for prefix/position/overlap filters, any measure.
   Lists and Z only: every theorem here is closed under the global context.              *)
From Coq Require Import ZArith Bool List String Lia Sorted Permutation.
From SSJ Require Import F64 PyNum FilterUtilsGen HelperGen TokenOrdering Filters Joins
                        Prefix PyFacts PositionSafe OrderingFacts.
Import ListNotations.
Open Scope string_scope.
Open Scope Z_scope.

(* ====================================================================== (A) *)

Lemma dedup_id l : NoDup l -> dedup l = l.
Proof.
  induction 1 as [|h t Hnotin Hnd IH]; simpl; [reflexivity|].
  rewrite IH. f_equal. apply filter_all.
  intros w Hw. apply negb_true_iff. apply Z.eqb_neq. intro E. subst. contradiction.
Qed.

Lemma countZ_nonneg w l : 0 <= countZ w l.
Proof. induction l as [|h t IH]; simpl; [lia|]. destruct (w =? h); lia. Qed.

Lemma countZ_notin w l : ~ In w l -> countZ w l = 0.
Proof.
  induction l as [|h t IH]; intros H; simpl; [reflexivity|].
  destruct (Z.eqb_spec w h) as [->|Hne]; [exfalso; apply H; left; reflexivity|].
  rewrite IH; [reflexivity|]. intro Hin. apply H. right; exact Hin.
Qed.

Lemma countZ_nodup w l : NoDup l -> countZ w l = if memZ w l then 1 else 0.
Proof.
  induction 1 as [|h t Hnotin Hnd IH]; simpl; [reflexivity|].
  destruct (Z.eqb_spec w h) as [->|Hne]; simpl.
  - rewrite countZ_notin by exact Hnotin. reflexivity.
  - rewrite IH. reflexivity.
Qed.

Lemma fold_count_acc x : forall y c,
  fold_left (fun c w => c + countZ w x) y c = c + fold_left (fun c w => c + countZ w x) y 0.
Proof.
  induction y as [|w y IH]; intros c; simpl; [lia|].
  rewrite IH. rewrite (IH (countZ w x)). lia.
Qed.

Lemma overlap_count_cons x w y : overlap_count x (w :: y) = countZ w x + overlap_count x y.
Proof. unfold overlap_count. simpl. rewrite fold_count_acc. reflexivity. Qed.

Lemma overlap_count_nonneg x y : 0 <= overlap_count x y.
Proof.
  induction y as [|w y IH]; [unfold overlap_count; simpl; lia|].
  rewrite overlap_count_cons. pose proof (countZ_nonneg w x). lia.
Qed.

(* postings counted against a duplicate-free indexed record = probe tokens found in it *)
Lemma overlap_count_hits x y : NoDup x -> overlap_count x y = Z.of_nat (hits x y).
Proof.
  intros Hx. induction y as [|w y IH]; [reflexivity|].
  rewrite overlap_count_cons, IH, countZ_nodup by exact Hx.
  rewrite memZ_mem. destruct (mem w x) eqn:E.
  - rewrite (hits_cons_in x w y E). lia.
  - rewrite (hits_cons_notin x w y E). lia.
Qed.

(* hits is symmetric on sets *)
Lemma hits_sym x y : NoDup x -> NoDup y -> hits x y = hits y x.
Proof.
  intros Hx Hy. unfold hits. apply Permutation_length. apply NoDup_Permutation.
  - apply NoDup_filter. exact Hy.
  - apply NoDup_filter. exact Hx.
  - intros w. rewrite !filter_In, !mem_In. tauto.
Qed.

Lemma overlap_sets_dedup_hits l r : overlap_sets l r = Z.of_nat (hits (dedup r) (dedup l)).
Proof. reflexivity. Qed.

Lemma overlap_sets_hits' l r : NoDup l -> NoDup r -> overlap_sets l r = Z.of_nat (hits r l).
Proof. intros Hl Hr. rewrite overlap_sets_dedup_hits, !dedup_id by assumption. reflexivity. Qed.

Theorem overlap_sets_hits l r : NoDup l -> NoDup r -> overlap_sets l r = Z.of_nat (hits l r).
Proof. intros Hl Hr. rewrite overlap_sets_hits', hits_sym by assumption. reflexivity. Qed.

Theorem overlap_sets_sym l r : overlap_sets l r = overlap_sets r l.
Proof.
  rewrite !overlap_sets_dedup_hits. rewrite hits_sym; [reflexivity| |]; apply dedup_NoDup.
Qed.

Theorem overlap_count_sets x y : NoDup x -> NoDup y -> overlap_count x y = overlap_sets x y.
Proof.
  intros Hx Hy. rewrite overlap_count_hits, overlap_sets_hits by assumption. reflexivity.
Qed.

Lemma overlap_sets_nonneg l r : 0 <= overlap_sets l r.
Proof. unfold overlap_sets, len. lia. Qed.

Lemma filter_length_le' (f : Z -> bool) l : (List.length (filter f l) <= List.length l)%nat.
Proof. induction l as [|h t IH]; simpl; [lia|]. destruct (f h); simpl; lia. Qed.

Lemma dedup_length_le l : (List.length (dedup l) <= List.length l)%nat.
Proof.
  induction l as [|h t IH]; simpl; [lia|].
  pose proof (filter_length_le' (fun x => negb (x =? h)) (dedup t)). lia.
Qed.

Theorem overlap_sets_le_l l r : overlap_sets l r <= len l.
Proof.
  unfold overlap_sets, len.
  pose proof (filter_length_le' (fun w => memZ w (dedup r)) (dedup l)).
  pose proof (dedup_length_le l). lia.
Qed.

Theorem overlap_sets_le_r l r : overlap_sets l r <= len r.
Proof. rewrite overlap_sets_sym. apply overlap_sets_le_l. Qed.

(* share: the boolean "have a common token" *)
Lemma share_true_iff a b : share a b = true <-> exists w, In w a /\ In w b.
Proof.
  unfold share. rewrite existsb_exists. split; intros [w [H1 H2]]; exists w; split; try exact H1.
  - rewrite memZ_mem in H2. apply mem_In. exact H2.
  - rewrite memZ_mem. apply mem_In. exact H2.
Qed.

Lemma share_sym a b : share a b = share b a.
Proof.
  apply eq_true_iff_eq. rewrite !share_true_iff.
  split; intros [w [H1 H2]]; exists w; split; assumption.
Qed.

Lemma share_false_iff a b : share a b = false <-> forall w, In w a -> ~ In w b.
Proof.
  split.
  - intros H w Ha Hb. assert (share a b = true) by (apply share_true_iff; exists w; auto). congruence.
  - intros H. destruct (share a b) eqn:E; [|reflexivity].
    apply share_true_iff in E. destruct E as [w [Ha Hb]]. exfalso. exact (H w Ha Hb).
Qed.

Lemma hits_pos_share X Y : (0 < hits X Y)%nat <-> share Y X = true.
Proof.
  rewrite share_true_iff. unfold hits. split.
  - intros H. destruct (filter (fun y => mem y X) Y) as [|w f] eqn:E; [simpl in H; lia|].
    assert (Hin : In w (filter (fun y => mem y X) Y)) by (rewrite E; left; reflexivity).
    apply filter_In in Hin. destruct Hin as [HY Hm]. apply mem_In in Hm. exists w. auto.
  - intros [w [HY HX]].
    assert (Hin : In w (filter (fun y => mem y X) Y)).
    { apply filter_In. split; [exact HY|]. apply mem_In. exact HX. }
    destruct (filter (fun y => mem y X) Y); [destruct Hin|simpl; lia].
Qed.

(* a positive overlap is the same thing as a common token (any lists) *)
Theorem overlap_sets_pos_share l r : 0 < overlap_sets l r <-> share l r = true.
Proof.
  rewrite overlap_sets_dedup_hits.
  assert (H : 0 < Z.of_nat (hits (dedup r) (dedup l)) <-> (0 < hits (dedup r) (dedup l))%nat) by lia.
  rewrite H, hits_pos_share, !share_true_iff.
  split; intros [w [H1 H2]]; exists w.
  - split; [exact (proj1 (dedup_In w l) H1) | exact (proj1 (dedup_In w r) H2)].
  - split; [exact (proj2 (dedup_In w l) H1) | exact (proj2 (dedup_In w r) H2)].
Qed.

Example overlap_count_sets_ex :
  overlap_count [3;1;7;9] [9;2;3;5] = overlap_sets [3;1;7;9] [9;2;3;5] /\
  overlap_sets [3;1;7;9] [9;2;3;5] = 2.
Proof. vm_compute. split; reflexivity. Qed.
(* without NoDup the two differ: postings are counted with multiplicity *)
Example overlap_count_bag_ex : overlap_count [3;3] [3;3] = 4 /\ overlap_sets [3;3] [3;3] = 1.
Proof. vm_compute. split; reflexivity. Qed.

(* ====================================================================== (B) *)

(* ---- the six comparison operators on integers ---- *)
Definition valid_op (op : string) : Prop := comp_op_map op <> None.

Lemma valid_op_cases op : valid_op op ->
  op = ">=" \/ op = ">" \/ op = "<=" \/ op = "<" \/ op = "=" \/ op = "!=".
Proof.
  unfold valid_op, comp_op_map. intros H.
  destruct (String.eqb_spec op ">="); [tauto|].
  destruct (String.eqb_spec op ">"); [tauto|].
  destruct (String.eqb_spec op "<="); [tauto|].
  destruct (String.eqb_spec op "<"); [tauto|].
  destruct (String.eqb_spec op "="); [tauto|].
  destruct (String.eqb_spec op "!="); [tauto|].
  exfalso. apply H. reflexivity.
Qed.

Lemma cmp_op_ge_int a b : cmp_op ">=" (PInt a) (PInt b) = (b <=? a).
Proof. unfold cmp_op. change (comp_op_map ">=") with (Some py_ge). apply py_ge_int. Qed.
Lemma cmp_op_gt_int a b : cmp_op ">" (PInt a) (PInt b) = (b <? a).
Proof. unfold cmp_op. change (comp_op_map ">") with (Some py_gt). apply py_gt_int. Qed.
Lemma cmp_op_le_int a b : cmp_op "<=" (PInt a) (PInt b) = (a <=? b).
Proof. unfold cmp_op. change (comp_op_map "<=") with (Some py_le). apply py_le_int. Qed.
Lemma cmp_op_lt_int a b : cmp_op "<" (PInt a) (PInt b) = (a <? b).
Proof. unfold cmp_op. change (comp_op_map "<") with (Some py_lt). apply py_lt_int. Qed.
Lemma cmp_op_eq_int a b : cmp_op "=" (PInt a) (PInt b) = (a =? b).
Proof. unfold cmp_op. change (comp_op_map "=") with (Some py_eq). apply py_eq_int. Qed.
Lemma cmp_op_ne_int a b : cmp_op "!=" (PInt a) (PInt b) = negb (a =? b).
Proof.
  unfold cmp_op. change (comp_op_map "!=") with (Some py_ne).
  unfold py_ne, strict2, py_truth, pv_eqb, num_of, num_cmp.
  destruct (Z.compare_spec a b); destruct (Z.eqb_spec a b); try reflexivity; lia.
Qed.

Definition lower_op (op : string) : Prop := op = ">=" \/ op = ">" \/ op = "=".

(* for >=, >, = against a threshold T >= 1 the comparison forces a positive overlap *)
Lemma lower_op_pos op o T : lower_op op -> 1 <= T ->
  cmp_op op (PInt o) (PInt T) = true -> 0 < o.
Proof.
  intros [-> | [-> | ->]] HT H.
  - rewrite cmp_op_ge_int in H. apply Z.leb_le in H. lia.
  - rewrite cmp_op_gt_int in H. apply Z.ltb_lt in H. lia.
  - rewrite cmp_op_eq_int in H. apply Z.eqb_eq in H. lia.
Qed.

(* ---- OverlapFilter.filter_pair is exact (C06) ---- *)
Theorem overlap_filter_pair_exact op T le re l r : valid_op op ->
  (overlap_filter_pair op (PInt T) le re l r = false <->
   le = false /\ re = false /\ cmp_op op (PInt (overlap_sets l r)) (PInt T) = true).
Proof.
  intros _. unfold overlap_filter_pair.
  destruct le, re; simpl; try (split; [discriminate | intros [? [? ?]]; discriminate]).
  rewrite negb_false_iff. tauto.
Qed.

(* in arithmetic terms, for each operator *)
Corollary overlap_filter_pair_ge T l r :
  overlap_filter_pair ">=" (PInt T) false false l r = false <-> T <= overlap_sets l r.
Proof.
  rewrite overlap_filter_pair_exact by (unfold valid_op; discriminate).
  rewrite cmp_op_ge_int, Z.leb_le. tauto.
Qed.

Example overlap_filter_pair_ex :
  overlap_filter_pair ">=" (PInt 2) false false [3;1;7;9] [9;2;3;5] = false /\
  overlap_filter_pair ">" (PInt 2) false false [3;1;7;9] [9;2;3;5] = true /\
  overlap_filter_pair "!=" (PInt 1) false false [3;1;7;9] [9;2;3;5] = false /\
  overlap_filter_pair ">=" (PInt 2) true false [3;1;7;9] [9;2;3;5] = true.
Proof. vm_compute. repeat split; reflexivity. Qed.

(* ---- enumerate ---- *)
Lemma combine_seq_In {A} (L : list A) : forall s c x,
  In (c, x) (combine (seq s (List.length L)) L) <-> (s <= c)%nat /\ nth_error L (c - s) = Some x.
Proof.
  induction L as [|h t IH]; intros s c x; simpl.
  - split; [tauto|]. intros [_ H]. destruct (c - s)%nat; discriminate.
  - rewrite IH. split.
    + intros [H|[Hle Hn]].
      * inversion H; subst. split; [lia|]. rewrite Nat.sub_diag. reflexivity.
      * split; [lia|]. replace (c - s)%nat with (S (c - S s)) by lia. exact Hn.
    + intros [Hle Hn]. destruct (c - s)%nat as [|k] eqn:E.
      * left. simpl in Hn. inversion Hn; subst. f_equal. lia.
      * right. split; [lia|]. simpl in Hn. replace (c - S s)%nat with k by lia. exact Hn.
Qed.

Lemma enumerate_In {A} (L : list A) c x : In (c, x) (enumerate L) <-> nth_error L c = Some x.
Proof.
  unfold enumerate. rewrite combine_seq_In, Nat.sub_0_r. split; [tauto|]. intros H; split; [lia|exact H].
Qed.

Lemma combine_seq_fst {A} (L : list A) : forall s,
  map fst (combine (seq s (List.length L)) L) = seq s (List.length L).
Proof. induction L as [|h t IH]; intros s; simpl; [reflexivity|]. rewrite IH. reflexivity. Qed.

Lemma enumerate_NoDup {A} (L : list A) : NoDup (enumerate L).
Proof.
  apply (NoDup_map_inv fst). unfold enumerate. rewrite combine_seq_fst. apply seq_NoDup.
Qed.

Lemma enumerate_fun {A} (L : list A) c x x' :
  In (c, x) (enumerate L) -> In (c, x') (enumerate L) -> x = x'.
Proof. rewrite !enumerate_In. congruence. Qed.

Lemma in_flat_map_enum {A B} (g : nat * A -> list B) (L : list A) (b : B) :
  In b (flat_map g (enumerate L)) <-> exists c x, nth_error L c = Some x /\ In b (g (c, x)).
Proof.
  rewrite in_flat_map. split.
  - intros [[c x] [Hin Hb]]. exists c, x. split; [apply enumerate_In; exact Hin|exact Hb].
  - intros [c [x [Hn Hb]]]. exists (c, x). split; [apply enumerate_In; exact Hn|exact Hb].
Qed.

(* ---- NoDup of keys through flat_map ---- *)
Lemma NoDup_app' {K} (l1 l2 : list K) :
  NoDup l1 -> NoDup l2 -> (forall k, In k l1 -> ~ In k l2) -> NoDup (l1 ++ l2).
Proof.
  induction l1 as [|h t IH]; intros H1 H2 Hd; simpl; [exact H2|].
  inversion H1; subst. constructor.
  - intro Hin. apply in_app_or in Hin. destruct Hin as [Hin|Hin]; [contradiction|].
    apply (Hd h); [left; reflexivity|exact Hin].
  - apply IH; [assumption|assumption|]. intros k Hk. apply Hd. right; exact Hk.
Qed.

Lemma NoDup_flat_map_keys {A B K} (key : B -> K) (g : A -> list B) (l : list A) :
  NoDup l ->
  (forall a, In a l -> NoDup (map key (g a))) ->
  (forall a a' b b', In a l -> In a' l -> In b (g a) -> In b' (g a') -> key b = key b' -> a = a') ->
  NoDup (map key (flat_map g l)).
Proof.
  induction l as [|a l IH]; intros Hnd Hin Hinj; simpl; [constructor|].
  inversion Hnd as [|? ? Hnotin Hnd']; subst.
  rewrite map_app. apply NoDup_app'.
  - apply Hin. left; reflexivity.
  - apply IH; [exact Hnd'| |].
    + intros a' Ha'. apply Hin. right; exact Ha'.
    + intros a1 a2 b1 b2 H1 H2. apply Hinj; right; assumption.
  - intros k Hk1 Hk2.
    apply in_map_iff in Hk1. destruct Hk1 as [b [Hkb Hb]].
    apply in_map_iff in Hk2. destruct Hk2 as [b' [Hkb' Hb']].
    apply in_flat_map in Hb'. destruct Hb' as [a' [Ha' Hb']].
    assert (a = a').
    { apply (Hinj a a' b b'); [left; reflexivity|right; exact Ha'|exact Hb|exact Hb'|congruence]. }
    subst a'. contradiction.
Qed.

Definition tkey (t : triple) : nat * nat := (fst (fst t), snd (fst t)).

(* a grid of cells, each producing at most one triple keyed by its own coordinates *)
Lemma grid_keys_NoDup (cell : nat -> list Z -> nat -> list Z -> list triple) (L R : list (list Z)) :
  (forall c x j y, cell c x j y = [] \/ exists s, cell c x j y = [(c, j, s)]) ->
  NoDup (map tkey
    (flat_map (fun jy : nat * list Z =>
       flat_map (fun cx : nat * list Z => cell (fst cx) (snd cx) (fst jy) (snd jy)) (enumerate L))
       (enumerate R))).
Proof.
  intros Hcell.
  assert (Hkey : forall c x j y b, In b (cell c x j y) -> tkey b = (c, j)).
  { intros c x j y b Hb. destruct (Hcell c x j y) as [E|[s E]]; rewrite E in Hb.
    - destruct Hb.
    - destruct Hb as [<-|[]]. reflexivity. }
  apply NoDup_flat_map_keys.
  - apply enumerate_NoDup.
  - intros [j y] _. apply NoDup_flat_map_keys.
    + apply enumerate_NoDup.
    + intros [c x] _. simpl. destruct (Hcell c x j y) as [E|[s E]]; rewrite E; simpl.
      * constructor.
      * constructor; [intros []|constructor].
    + intros [c x] [c' x'] b b' Ha Ha' Hb Hb' Hk. simpl in Hb, Hb'.
      rewrite (Hkey _ _ _ _ _ Hb), (Hkey _ _ _ _ _ Hb') in Hk. inversion Hk; subst.
      f_equal. eapply enumerate_fun; eassumption.
  - intros [j y] [j' y'] b b' Ha Ha' Hb Hb' Hk.
    apply in_flat_map in Hb. destruct Hb as [[c x] [_ Hb]].
    apply in_flat_map in Hb'. destruct Hb' as [[c' x'] [_ Hb']]. simpl in Hb, Hb'.
    rewrite (Hkey _ _ _ _ _ Hb), (Hkey _ _ _ _ _ Hb') in Hk. inversion Hk; subst.
    f_equal. eapply enumerate_fun; eassumption.
Qed.

Definition rows_nodup (T : list (list Z)) : Prop := forall x, In x T -> NoDup x.

(* ---- OverlapFilter._filter_tables_split / overlap_join: exact at table level ---- *)
Theorem overlap_tables_core_spec op T L R res :
  rows_nodup L -> rows_nodup R ->
  overlap_tables_core op (PInt T) L R = Some res ->
  forall c j s,
    In (c, j, s) res <->
    exists x y, nth_error L c = Some x /\ nth_error R j = Some y /\
                0 < overlap_sets x y /\
                cmp_op op (PInt (overlap_sets x y)) (PInt T) = true /\
                s = PInt (overlap_sets x y).
Proof.
  intros HL HR Hres c j s. unfold overlap_tables_core in Hres. inversion Hres as [Hr]. clear Hres Hr.
  rewrite in_flat_map_enum. split.
  - intros [j' [y [Hy Hin]]]. rewrite in_flat_map_enum in Hin.
    destruct Hin as [c' [x [Hx Hin]]]. cbn [fst snd] in Hin.
    assert (Hndx : NoDup x) by (apply HL; eapply nth_error_In; exact Hx).
    assert (Hndy : NoDup y) by (apply HR; eapply nth_error_In; exact Hy).
    rewrite (overlap_count_sets x y Hndx Hndy) in Hin.
    destruct (0 <? overlap_sets x y) eqn:Epos; [|destruct Hin].
    destruct (cmp_op op (PInt (overlap_sets x y)) (PInt T)) eqn:Ecmp; [|destruct Hin].
    simpl in Hin. destruct Hin as [Heq|[]]. inversion Heq; subst.
    exists x, y. apply Z.ltb_lt in Epos. repeat split; assumption.
  - intros [x [y [Hx [Hy [Hpos [Hcmp ->]]]]]].
    exists j, y. split; [exact Hy|]. rewrite in_flat_map_enum. exists c, x. split; [exact Hx|].
    cbn [fst snd].
    assert (Hndx : NoDup x) by (apply HL; eapply nth_error_In; exact Hx).
    assert (Hndy : NoDup y) by (apply HR; eapply nth_error_In; exact Hy).
    rewrite (overlap_count_sets x y Hndx Hndy), Hcmp.
    apply Z.ltb_lt in Hpos. rewrite Hpos. left; reflexivity.
Qed.

(* each (left row, right row) pair is reported at most once (any rows, any size value) *)
Theorem overlap_tables_core_once op size L R res :
  overlap_tables_core op size L R = Some res -> NoDup (map tkey res).
Proof.
  intros Hres. unfold overlap_tables_core in Hres. inversion Hres as [Hr]. clear Hres Hr.
  pose (cell := fun (c : nat) (x : list Z) (j : nat) (y : list Z) =>
     if (0 <? overlap_count x y) && cmp_op op (PInt (overlap_count x y)) size
     then [(c, j, PInt (overlap_count x y))] else ([] : list triple)).
  assert (Hc : forall c x j y, cell c x j y = [] \/ exists s, cell c x j y = [(c, j, s)]).
  { intros c x j y. unfold cell.
    destruct ((0 <? overlap_count x y) && cmp_op op (PInt (overlap_count x y)) size);
      [right; eexists; reflexivity|left; reflexivity]. }
  pose proof (grid_keys_NoDup cell L R Hc) as H.
  erewrite flat_map_ext; [exact H|]. intros [j y]. reflexivity.
Qed.

(* C01 + C02 for OVERLAP: with T >= 1 and op among >=, >, = the output of overlap_join's core
   is exactly the set of row pairs whose overlap satisfies the comparison *)
Theorem overlap_join_exact op T L R res :
  rows_nodup L -> rows_nodup R -> lower_op op -> 1 <= T ->
  overlap_tables_core op (PInt T) L R = Some res ->
  forall c j s,
    In (c, j, s) res <->
    exists x y, nth_error L c = Some x /\ nth_error R j = Some y /\
                cmp_op op (PInt (overlap_sets x y)) (PInt T) = true /\
                s = PInt (overlap_sets x y).
Proof.
  intros HL HR Hop HT Hres c j s.
  rewrite (overlap_tables_core_spec op T L R res HL HR Hres). split.
  - intros [x [y [Hx [Hy [_ [Hcmp Hs]]]]]]. exists x, y. auto.
  - intros [x [y [Hx [Hy [Hcmp Hs]]]]]. exists x, y. repeat split; try assumption.
    eapply lower_op_pos; eassumption.
Qed.

Example overlap_tables_core_ex :
  overlap_tables_core ">=" (PInt 2) [[1;2;3]; [4;5]; []] [[2;3;9]; [5;4;1]; [7]]
  = Some [(0%nat, 0%nat, PInt 2); (1%nat, 1%nat, PInt 2)].
Proof. vm_compute. reflexivity. Qed.
(* the 0 < overlap conjunct matters for the other operators: "<=" never reports disjoint rows *)
Example overlap_tables_core_le_ex :
  overlap_tables_core "<=" (PInt 1) [[1;2;3]] [[7]; [3]] = Some [(0%nat, 1%nat, PInt 1)].
Proof. vm_compute. reflexivity. Qed.

(* ====================================================================== (E) *)
(* Structural common-token facts (C14): valid for EVERY measure / threshold / qval. *)

Lemma slice0_firstn k l s : slice0 k l = Some s -> exists n, s = firstn n l.
Proof.
  destruct k; simpl; try discriminate. intros H. injection H as Hs. subst s.
  destruct (z <? 0); eexists; reflexivity.
Qed.

Lemma slice0_incl k l s : slice0 k l = Some s -> forall w, In w s -> In w l.
Proof.
  intros H w Hw. destruct (slice0_firstn k l s H) as [n ->].
  rewrite <- (firstn_skipn n l). apply in_or_app. left; exact Hw.
Qed.

Lemma share_incl a a' b b' :
  (forall w, In w a -> In w a') -> (forall w, In w b -> In w b') ->
  share a b = true -> share a' b' = true.
Proof.
  intros Ha Hb H. apply share_true_iff in H. destruct H as [w [H1 H2]].
  apply share_true_iff. exists w. auto.
Qed.

(* a common rank is a common token *)
Lemma share_order all l r : share (order all l) (order all r) = true -> share l r = true.
Proof.
  intros H. apply share_true_iff in H. destruct H as [k [H1 H2]].
  apply order_In in H1. destruct H1 as [w1 [Hl [Ha1 E1]]].
  apply order_In in H2. destruct H2 as [w2 [Hr [Ha2 E2]]].
  assert (w1 = w2) by (apply (rank_inj all); [assumption|assumption|congruence]). subst w2.
  apply share_true_iff. exists w1. auto.
Qed.

(* ---- table level: PrefixFilter / PositionFilter candidates share a value ---- *)
Theorem prefix_cand_share p X Y : prefix_cand p X Y = Some true -> share X Y = true.
Proof.
  unfold prefix_cand. intros H.
  destruct (slice0 (g_pl p (len X)) X) as [xp|] eqn:EX; [|discriminate].
  destruct (slice0 (g_pl p (len Y)) Y) as [yp|] eqn:EY; [|discriminate].
  injection H as Hs. rewrite share_sym.
  eapply share_incl; [eapply slice0_incl; exact EY|eapply slice0_incl; exact EX|exact Hs].
Qed.

Lemma pos_loop_disjoint p nx ny xp : forall yp j cur,
  (forall w, In w yp -> ~ In w xp) -> pos_loop p nx ny xp yp j cur = cur.
Proof.
  induction yp as [|w yp IH]; intros j cur H; [reflexivity|].
  cbn [pos_loop]. rewrite positions_from_notin by (apply H; left; reflexivity).
  cbn [fold_left]. apply IH. intros v Hv. apply H. right; exact Hv.
Qed.

Theorem pos_cand_share p X Y v : pos_cand p X Y = Some v -> 0 < v -> share X Y = true.
Proof.
  unfold pos_cand. intros H Hv.
  destruct (slice0 (g_pl p (len X)) X) as [xp|] eqn:EX; [|discriminate].
  destruct (slice0 (g_pl p (len Y)) Y) as [yp|] eqn:EY; [|discriminate].
  injection H as Hs.
  destruct (share yp xp) eqn:Esh.
  - rewrite share_sym.
    eapply share_incl; [eapply slice0_incl; exact EY|eapply slice0_incl; exact EX|exact Esh].
  - exfalso. rewrite pos_loop_disjoint in Hs; [lia|]. apply share_false_iff. exact Esh.
Qed.

(* with X, Y the rank lists of two token lists: the token lists share a token *)
Corollary prefix_cand_share_tokens p all l r :
  prefix_cand p (order all l) (order all r) = Some true -> share l r = true.
Proof. intros H. apply (share_order all). eapply prefix_cand_share. exact H. Qed.

Corollary pos_cand_share_tokens p all l r v :
  pos_cand p (order all l) (order all r) = Some v -> 0 < v -> share l r = true.
Proof. intros H Hv. apply (share_order all). eapply pos_cand_share; eassumption. Qed.

(* ---- OverlapFilter.filter_pair ---- *)
Theorem overlap_filter_pair_share op T l r :
  overlap_filter_pair op (PInt T) false false l r = false -> 1 <= T -> lower_op op ->
  share l r = true.
Proof.
  intros H HT Hop. unfold overlap_filter_pair in H. simpl in H. apply negb_false_iff in H.
  apply overlap_sets_pos_share. eapply lower_op_pos; eassumption.
Qed.

(* ---- PrefixFilter.filter_pair / PositionFilter.filter_pair ---- *)
Lemma len_zero_iff l : (len l =? 0) = true <-> l = [].
Proof.
  unfold len. rewrite Z.eqb_eq. destruct l; simpl; split; try reflexivity; try discriminate; lia.
Qed.

Lemma not_both_empty l r : l <> [] \/ r <> [] -> (len l =? 0) && (len r =? 0) = false.
Proof.
  intros H. destruct (len l =? 0) eqn:El; [|reflexivity].
  destruct (len r =? 0) eqn:Er; [|reflexivity].
  apply len_zero_iff in El. apply len_zero_iff in Er. tauto.
Qed.

Theorem prefix_filter_pair_share p ae l r :
  prefix_filter_pair p ae l r = Some false -> l <> [] \/ r <> [] -> share l r = true.
Proof.
  intros H Hne. unfold prefix_filter_pair in H. rewrite (not_both_empty l r Hne) in H.
  cbv zeta in H.
  destruct (py_truth (py_or (py_le (g_pl p (len l)) (PInt 0)) (py_le (g_pl p (len r)) (PInt 0))));
    [discriminate|].
  destruct (slice0 (g_pl p (len l)) (order (l ++ r) l)) as [xp|] eqn:EX; [|discriminate].
  destruct (slice0 (g_pl p (len r)) (order (l ++ r) r)) as [yp|] eqn:EY; [|discriminate].
  injection H as Hs. apply negb_false_iff in Hs.
  apply (share_order (l ++ r)).
  eapply share_incl; [eapply slice0_incl; exact EX|eapply slice0_incl; exact EY|exact Hs].
Qed.

Lemma posfp_loop_disjoint nl nr alpha lp : forall rp j cur c,
  (forall w, In w rp -> ~ In w lp) -> posfp_loop nl nr alpha lp rp j cur = Some c -> c = cur.
Proof.
  induction rp as [|w rp IH]; intros j cur c H Hl; simpl in Hl; [congruence|].
  assert (Hm : memZ w lp = false).
  { destruct (memZ w lp) eqn:E; [|reflexivity]. rewrite memZ_mem in E. apply mem_In in E.
    exfalso. apply (H w); [left; reflexivity|exact E]. }
  rewrite Hm in Hl. eapply IH; [|exact Hl]. intros v Hv. apply H. right; exact Hv.
Qed.

Theorem position_filter_pair_share p ae l r :
  position_filter_pair p ae l r = Some false -> l <> [] \/ r <> [] -> share l r = true.
Proof.
  intros H Hne. unfold position_filter_pair in H. rewrite (not_both_empty l r Hne) in H.
  cbv zeta in H.
  destruct (py_truth (py_or (py_le (g_pl p (len l)) (PInt 0)) (py_le (g_pl p (len r)) (PInt 0))));
    [discriminate|].
  destruct (slice0 (g_pl p (len l)) (order (l ++ r) l)) as [xp|] eqn:EX; [|discriminate].
  destruct (slice0 (g_pl p (len r)) (order (l ++ r) r)) as [yp|] eqn:EY; [|discriminate].
  destruct (posfp_loop (len l) (len r) (g_ot p (len l) (len r)) xp yp 0 0) as [c|] eqn:EL;
    [|discriminate].
  injection H as Hs. apply negb_false_iff in Hs. apply Z.ltb_lt in Hs.
  apply (share_order (l ++ r)).
  destruct (share yp xp) eqn:Esh.
  - rewrite share_sym.
    eapply share_incl; [eapply slice0_incl; exact EY|eapply slice0_incl; exact EX|exact Esh].
  - exfalso. apply posfp_loop_disjoint in EL; [lia|]. apply share_false_iff. exact Esh.
Qed.

Example prefix_cand_share_ex :
  let p := {| fm := "JACCARD"; ft := PFloat (mkF 1 (-1)); fq := 0 |} in
  prefix_cand p [1;2;5] [2;5;8] = Some true /\ share [1;2;5] [2;5;8] = true /\
  pos_cand p [1;2;5] [2;5;8] = Some 1.
Proof. vm_compute. repeat split; reflexivity. Qed.
Example filter_pair_share_ex :
  let p := {| fm := "JACCARD"; ft := PFloat (mkF 1 (-1)); fq := 0 |} in
  prefix_filter_pair p false [10;20;50] [20;50;80] = Some false /\
  position_filter_pair p false [10;20;50] [20;50;80] = Some false /\
  share [10;20;50] [20;50;80] = true /\
  prefix_filter_pair p false [10;20;50] [21;51;80] = Some true.
Proof. vm_compute. repeat split; reflexivity. Qed.

(* ---- the theorems applied to concrete data (their hypotheses are satisfiable) ---- *)
Ltac nodup_concrete := match goal with |- NoDup ?l => exact (dedup_NoDup l) end.
Ltac rows_concrete :=
  let x := fresh "x" in let H := fresh "H" in
  intros x H; simpl in H;
  repeat (destruct H as [H|H]; [subst x; nodup_concrete|]); destruct H.

Example overlap_count_sets_inst : overlap_count [3;1;7;9] [9;2;3;5] = overlap_sets [3;1;7;9] [9;2;3;5].
Proof. apply overlap_count_sets; nodup_concrete. Qed.

Example overlap_join_exact_inst :
  forall res, overlap_tables_core ">=" (PInt 2) [[1;2;3]; [4;5]; []] [[2;3;9]; [5;4;1]; [7]] = Some res ->
  In (1%nat, 1%nat, PInt 2) res /\ ~ In (0%nat, 1%nat, PInt 1) res.
Proof.
  intros res Hres.
  assert (HL : rows_nodup [[1;2;3]; [4;5]; []]) by rows_concrete.
  assert (HR : rows_nodup [[2;3;9]; [5;4;1]; [7]]) by rows_concrete.
  assert (Hop : lower_op ">=") by (left; reflexivity).
  split.
  - apply (overlap_join_exact ">=" 2 _ _ res HL HR Hop ltac:(lia) Hres).
    exists [4;5], [5;4;1]. repeat split.
  - intro Hin. apply (overlap_join_exact ">=" 2 _ _ res HL HR Hop ltac:(lia) Hres) in Hin.
    destruct Hin as [x [y [Hx [Hy [Hcmp _]]]]]. simpl in Hx, Hy.
    injection Hx as <-. injection Hy as <-. vm_compute in Hcmp. discriminate.
Qed.

Example prefix_filter_pair_share_inst :
  let p := {| fm := "JACCARD"; ft := PFloat (mkF 1 (-1)); fq := 0 |} in
  share [10;20;50] [20;50;80] = true.
Proof.
  intros p. apply (prefix_filter_pair_share p false); [vm_compute; reflexivity|left; discriminate].
Qed.

Print Assumptions overlap_count_sets.
Print Assumptions overlap_sets_hits.
Print Assumptions overlap_sets_sym.
Print Assumptions overlap_sets_pos_share.
Print Assumptions overlap_filter_pair_exact.
Print Assumptions overlap_tables_core_spec.
Print Assumptions overlap_tables_core_once.
Print Assumptions overlap_join_exact.
Print Assumptions prefix_cand_share.
Print Assumptions pos_cand_share.
Print Assumptions overlap_filter_pair_share.
Print Assumptions prefix_filter_pair_share.
Print Assumptions position_filter_pair_share.
