(* The part that ALL generated public wrappers share after their prologue (validators, output
   attribute lists, projection to arrays, effective number of jobs):

       if n_jobs <= 1:  output_table = CORE(ltable_array, rtable_array, ..., show_progress)
       else:            r_splits = split_table(rtable_array, n_jobs)
                        results = [CORE(ltable_array, r_splits[j], ..., show_progress and j == n_jobs-1)
                                   for j in range(n_jobs)]
                        output_table = pd.concat(results)
       if allow_missing: output_table = pd.concat([output_table, get_pairs_with_missing_value(..)])
       output_table.insert(0, '_id', range(0, len(output_table)))

   as a Gallina term `wbody G ...` that is CONVERTIBLE with that part of every definition in
   Gen/WrapperGen.v and Gen/FilterWrapperGen.v (G abstracts the per-chunk core call), and its
   evaluation `body_eval`: given a per-chunk fact (HG: the core on the projected present left rows and a
   projected chunk returns the frame (mv_header, rows) with `Q chunk rows`), the body is the frame

       header_spec c ,  numbered (concat [rows of chunk 0; rows of chunk 1; ...] ++ missing-value rows).

   The chunk boundaries are a hypothesis (Hsplit) as in WrapperRefine.v: this file is axiom-free.   *)
From Coq Require Import ZArith Bool List String Lia Permutation.
From SSJ Require Import F64 PyNum FilterUtilsGen HelperGen TokenOrderingGen ValidationGen IndexGen JoinGen
     TokenOrdering Measures Filters Joins Api Projection ProjSpec IndexPyFacts ProjectionFacts
     JoinGenFacts JoinGenLoop JoinRefine JoinRefineProj SplitFacts Frame WrapperGen WrapperRefineFrame
     WrapperRefineMissing WrapperRefineCore WrapperRefine.
Import ListNotations.
Open Scope Z_scope.

Definition wbody (G : pyval -> pyval -> pyval -> pyval) (LA RA v_n_jobs v_show_progress v_allow_missing mp : pyval)
  : pyval :=
 (bindx (py_le v_n_jobs (PInt 1)) (fun x_ => x_) (fun c_ =>
 let '(e_, (v_output_table, (v_r_splits, v_results))) := if py_truth c_ then (bindx (G LA RA v_show_progress) (fun x_ => (x_, ((PExc "UnboundLocalError"), ((PExc "UnboundLocalError"), (PExc "UnboundLocalError"))))) (fun v_output_table =>
 (PNone, (v_output_table, ((PExc "UnboundLocalError"), (PExc "UnboundLocalError")))))) else (bindx (split_table RA v_n_jobs) (fun x_ => (x_, ((PExc "UnboundLocalError"), ((PExc "UnboundLocalError"), (PExc "UnboundLocalError"))))) (fun v_r_splits =>
 (bindx (py_listcomp (fun v_job_index => (G LA (py_getitem v_r_splits v_job_index) (py_and v_show_progress (py_eq v_job_index (py_sub v_n_jobs (PInt 1)))))) (py_range (PInt 0) v_n_jobs)) (fun x_ => (x_, ((PExc "UnboundLocalError"), (v_r_splits, (PExc "UnboundLocalError"))))) (fun v_results =>
 (bindx (frame_concat v_results) (fun x_ => (x_, ((PExc "UnboundLocalError"), (v_r_splits, v_results)))) (fun v_output_table =>
 (PNone, (v_output_table, (v_r_splits, v_results))))))))) in
 bindx e_ (fun e_ => e_) (fun _ => (bindx v_allow_missing (fun x_ => x_) (fun c_ =>
 let '(e_, (v_missing_pairs, v_output_table)) := if py_truth c_ then (bindx mp (fun x_ => (x_, ((PExc "UnboundLocalError"), v_output_table))) (fun v_missing_pairs =>
 (bindx (frame_concat (PList [v_output_table; v_missing_pairs])) (fun x_ => (x_, (v_missing_pairs, v_output_table))) (fun v_output_table =>
 (PNone, (v_missing_pairs, v_output_table)))))) else (PNone, ((PExc "UnboundLocalError"), v_output_table)) in
 bindx e_ (fun e_ => e_) (fun _ => (bindx (frame_insert0 v_output_table (PStr "_id") (py_range (PInt 0) (frame_len v_output_table))) (fun x_ => x_) (fun v_output_table =>
 v_output_table)))))))).

(* from the common conclusion of the per-chunk `*_refines_proj` theorems to the frame of the chunk *)
Lemma core_frame (c : pcase) (lrows ch : list (list pyval)) (T : list triple) (rows : list (list pyval))
      (header gen : pyval) :
  gen = PTuple [PList (map PList rows); header] ->
  py_insert0 header (PStr "_id"%string) = py_strs (header_spec c) ->
  Permutation rows (map (spec_row c lrows ch) T) ->
  (forall t, In t T ->
     exists cells, out_cells c (nth (fst (fst t)) lrows []) (nth (snd (fst t)) ch []) = Some cells /\
                   cells_spec c (nth (fst (fst t)) lrows []) (nth (snd (fst t)) ch []) = Some cells) ->
  frame_of_core gen = sframe (mv_header c) rows /\ shaped (List.length (mv_header c)) rows.
Proof.
  intros Egen Ehdr Perm Hcells.
  assert (Eh : header = py_strs (mv_header c)).
  { rewrite mv_header_spec in Ehdr. unfold py_strs in Ehdr. cbn [map] in Ehdr.
    destruct header; cbn [py_insert0 strict2] in Ehdr; try discriminate Ehdr.
    injection Ehdr as ->. reflexivity. }
  assert (Hsh : shaped (List.length (mv_header c)) rows).
  { intros r Hr. apply (Permutation_in _ Perm) in Hr. apply in_map_iff in Hr.
    destruct Hr as (t & <- & Ht). destruct (Hcells t Ht) as (cells & Eo & Es).
    destruct t as [[i j] s]. cbn [fst snd] in Eo, Es. unfold spec_row. rewrite Eo.
    rewrite app_length, (cells_spec_length _ _ _ _ Es), mv_header_length.
    destruct (p_score c); cbn [List.length]; lia. }
  split; [|exact Hsh].
  rewrite Egen. cbn [frame_of_core]. rewrite Eh. apply frame_make_sframe. exact Hsh.
Qed.

Lemma map_nth_seq {A} (d : A) (l : list A) : map (fun j => nth j l d) (seq 0 (List.length l)) = l.
Proof.
  induction l as [|x l IH] using rev_ind; [reflexivity|].
  rewrite app_length. cbn [List.length]. rewrite Nat.add_1_r, seq_S, map_app. cbn [map plus].
  rewrite app_nth2 by lia. rewrite Nat.sub_diag. cbn [nth]. f_equal.
  rewrite <- IH at 2. apply map_ext_in. intros j Hj. apply in_seq in Hj. rewrite app_nth1 by lia. reflexivity.
Qed.

Section Body.
  Variables (c : pcase) (am : bool) (njobs cpus : Z).
  Variables (lsrc rsrc : list (list pyval)) (showp : pyval).
  Variable bs : list (nat * nat).
  Variable G : pyval -> pyval -> pyval -> pyval.
  Variable Q : list (list pyval) -> list (list pyval) -> Prop.

  Let lpres := lpresent c lsrc.
  Let rpres := rpresent c rsrc.
  Let k := kjobs c njobs cpus rsrc.
  Let LA := PList (map PList (project_l c lpres)).
  Let chunks := wchunks c njobs cpus rsrc bs.

  Hypothesis Hwf : well_formed c.
  Hypothesis Hlsrc : forall row, In row lsrc ->
    List.length row = List.length (p_lcols c) /\ ProjSpec.row_ok row.
  Hypothesis Hrsrc : forall row, In row rsrc ->
    List.length row = List.length (p_rcols c) /\ ProjSpec.row_ok row.
  Hypothesis Hid : ~ In "_id"%string (mv_header c).
  (* the per-chunk fact, for every chunk and every value of the show_progress argument *)
  Hypothesis HG : forall ch sp, In ch chunks ->
    exists rows, G LA (PList (map PList (project_r c ch))) sp = sframe (mv_header c) rows /\
                 shaped (List.length (mv_header c)) rows /\ Q ch rows.
  Hypothesis Hsplit : 1 < k ->
    List.length bs = Z.to_nat k /\
    split_table (PList (map PList (project_r c rpres))) (PInt k)
    = PList (map PList (map (slice_nat (map PList (project_r c rpres))) bs)).

  Definition body_result (lhs : pyval) : Prop :=
    exists RS : list (list (list pyval)),
      List.length RS = List.length chunks /\
      (forall j, (j < List.length chunks)%nat -> Q (nth j chunks []) (nth j RS [])) /\
      lhs = sframe (header_spec c) (numbered (List.concat RS ++ if am then mv_rows c lsrc rsrc else [])).

  Theorem body_eval :
    body_result
      (wbody G LA (PList (map PList (project_r c rpres))) (PInt k) showp (PBool am)
         (get_pairs_with_missing_value (sframe (p_lcols c) lsrc) (sframe (p_rcols c) rsrc)
            (PStr (p_lkey c)) (PStr (p_rkey c)) (PStr (p_ljoin c)) (PStr (p_rjoin c))
            (l_out c) (r_out c) (PStr (p_lpre c)) (PStr (p_rpre c)) (PBool (p_score c)) showp)).
  Proof.
    unfold body_result, wbody.
    rewrite WrapperRefineCore.py_le_int. rewrite (bindx_ok _ (PBool _)) by reflexivity.
    destruct (k <=? 1) eqn:Ek; cbn [py_truth].
    - (* one call of the core on the whole right array *)
      assert (Ech : chunks = [rpres]) by (apply wchunks_seq; exact Ek).
      destruct (HG rpres showp) as (rows & E & Hsh & HQ); [rewrite Ech; left; reflexivity|].
      rewrite E. rewrite (bindx_ok _ (sframe _ _)) by reflexivity.
      cbv beta iota. rewrite (bindx_ok _ PNone) by reflexivity.
      rewrite (tail_eval c am lsrc rsrc showp Hwf Hlsrc Hrsrc Hid rows Hsh).
      exists [rows]. rewrite Ech. split; [reflexivity|]. split.
      + intros j Hj. cbn [List.length] in Hj. assert (j = 0%nat) as -> by lia. exact HQ.
      + cbn [List.concat]. rewrite app_nil_r. reflexivity.
    - (* split_table + one core call per chunk + concat *)
      assert (Ech : chunks = map (slice_nat rpres) bs) by (apply wchunks_par; exact Ek).
      apply Z.leb_gt in Ek.
      destruct (Hsplit Ek) as [Hbs Esp].
      rewrite Esp. rewrite (bindx_ok _ (PList _)) by reflexivity.
      set (n := List.length bs) in *.
      set (spj := fun j : nat => py_and showp (py_eq (PInt (Z.of_nat j)) (py_sub (PInt k) (PInt 1)))).
      destruct (finite_choice
                  (fun j (rows : list (list pyval)) =>
                     let ch := slice_nat rpres (nth j bs (0%nat, 0%nat)) in
                     G LA (PList (map PList (project_r c ch))) (spj j) = sframe (mv_header c) rows /\
                     shaped (List.length (mv_header c)) rows /\ Q ch rows)
                  [] n) as (RS & HlenRS & HRS).
      { intros j Hj.
        destruct (HG (slice_nat rpres (nth j bs (0%nat, 0%nat))) (spj j)) as (rows & H1 & H2 & H3).
        - rewrite Ech. apply in_map. apply nth_In. exact Hj.
        - exists rows. cbv zeta. repeat split; assumption. }
      rewrite (py_listcomp_range _ k (fun j => sframe (mv_header c) (nth j RS []))).
      2:{ intros j Hj. cbv beta.
          rewrite (getitem_rows_chunk (map (slice_nat (map PList (project_r c rpres))) bs) j)
            by (rewrite map_length; fold n; lia).
          rewrite (nth_indep _ [] (slice_nat (map PList (project_r c rpres)) (0%nat, 0%nat)))
            by (rewrite map_length; fold n; lia).
          rewrite (map_nth (slice_nat (map PList (project_r c rpres)))).
          rewrite slice_nat_map. unfold project_r at 1. rewrite slice_nat_map.
          fold (project_r c (slice_nat rpres (nth j bs (0%nat, 0%nat)))).
          destruct (HRS j ltac:(lia)) as (H1 & _). exact H1. }
      2:{ intros j Hj. reflexivity. }
      rewrite (bindx_ok _ (PList _)) by reflexivity.
      rewrite <- Hbs. fold n. rewrite <- HlenRS.
      rewrite <- (map_map (fun j => nth j RS []) (sframe (mv_header c))).
      rewrite map_nth_seq.
      assert (HshRS : forall rows, In rows RS -> shaped (List.length (mv_header c)) rows).
      { intros rows Hr. apply (In_nth _ _ []) in Hr. destruct Hr as (j & Hj & <-).
        destruct (HRS j ltac:(lia)) as (_ & H2 & _). exact H2. }
      rewrite frame_concat_sframes.
      2:{ intros Hnil. apply (f_equal (@List.length _)) in Hnil. rewrite HlenRS in Hnil.
          cbn [List.length] in Hnil. lia. }
      2:{ exact HshRS. }
      rewrite (bindx_ok _ (sframe _ _)) by reflexivity.
      cbv beta iota. rewrite (bindx_ok _ PNone) by reflexivity.
      rewrite (tail_eval c am lsrc rsrc showp Hwf Hlsrc Hrsrc Hid).
      2:{ intros r Hr. apply in_concat in Hr. destruct Hr as (rs & Hrs & Hr). apply (HshRS rs Hrs). exact Hr. }
      exists RS. rewrite Ech. split; [rewrite map_length; exact HlenRS|]. split; [|reflexivity].
      intros j Hj. rewrite map_length in Hj. fold n in Hj.
      rewrite (nth_indep _ [] (slice_nat rpres (0%nat, 0%nat))) by (rewrite map_length; exact Hj).
      rewrite (map_nth (slice_nat rpres)).
      destruct (HRS j Hj) as (_ & _ & H3). exact H3.
  Qed.
End Body.

(* ---- the prologue of the generated wrappers, in three steps (the validators in between differ) ---- *)
(* validate_attr x 4 *)
Ltac wr_attrs c Hwf Hlsrc Hrsrc :=
  rewrite (frame_columns_sframe (p_lcols c)) by exact (wlshape c _ Hlsrc);
  rewrite (frame_columns_sframe (p_rcols c)) by exact (wrshape c _ Hrsrc);
  let Hlk := fresh "Hlk" in let Hlj := fresh "Hlj" in let Hlo := fresh "Hlo" in
  let Hrk := fresh "Hrk" in let Hrj := fresh "Hrj" in let Hro := fresh "Hro" in
  let Hwf0 := fresh "Hwf0" in
  pose proof Hwf as Hwf0; destruct Hwf0 as [Hlk Hlj Hlo Hrk Hrj Hro];
  rewrite (validate_attr_ok (p_lkey c)) by exact Hlk;
  rewrite (bindx_ok _ (PBool true)) by reflexivity;
  rewrite (validate_attr_ok (p_rkey c)) by exact Hrk;
  rewrite (bindx_ok _ (PBool true)) by reflexivity;
  rewrite (validate_attr_ok (p_ljoin c)) by exact Hlj;
  rewrite (bindx_ok _ (PBool true)) by reflexivity;
  rewrite (validate_attr_ok (p_rjoin c)) by exact Hrj;
  rewrite (bindx_ok _ (PBool true)) by reflexivity.

(* one validator whose result is not an exception *)
Ltac wr_valid H := rewrite (ProjectionFacts.bindx_ok _ _ _ _ H).

(* remove_redundant_attrs x 2, get_attrs_to_project x 2, convert_dataframe_to_array x 2, min(..) *)
Ltac wr_proj c njobs cpus lsrc rsrc Hwf Hlsrc Hrsrc :=
  change (remove_redundant_attrs (py_opt_strs (p_lout c)) (PStr (p_lkey c))) with (l_out c);
  rewrite (bindx_ok _ (l_out c)) by apply l_out_not_exc;
  change (remove_redundant_attrs (py_opt_strs (p_rout c)) (PStr (p_rkey c))) with (r_out c);
  rewrite (bindx_ok _ (r_out c)) by apply r_out_not_exc;
  change (get_attrs_to_project (l_out c) (PStr (p_lkey c)) (PStr (p_ljoin c))) with (l_proj c);
  rewrite (bindx_ok _ (l_proj c)) by apply l_proj_not_exc;
  change (get_attrs_to_project (r_out c) (PStr (p_rkey c)) (PStr (p_rjoin c))) with (r_proj c);
  rewrite (bindx_ok _ (r_proj c)) by apply r_proj_not_exc;
  rewrite (convert_l c lsrc Hwf Hlsrc); rewrite (bindx_ok _ (PList _)) by reflexivity;
  rewrite (convert_r c rsrc Hwf Hrsrc); rewrite (bindx_ok _ (PList _)) by reflexivity;
  rewrite (njobs_eval c njobs cpus rsrc); rewrite (bindx_ok _ (PInt (kjobs c njobs cpus rsrc))) by reflexivity.

Print Assumptions body_eval.
Print Assumptions core_frame.
